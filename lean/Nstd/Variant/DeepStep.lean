import Nstd.Variant.DeepWalk
import Nstd.Variant.DeepSelfTemp
/-
  `dstep` (deep model) against `specStep` (store of values).
-/
namespace Nstd.Variant.Deep
open Nstd.Variant

/-- typed assignment of a temporary List / Array / HashMap -/
def setsSeq : LeafS → Bool
  | .set (.list _) => true
  | .set (.array _) => true
  | .set (.map _) => true
  | _ => false

/-- the operations covered by the deep refinement theorem (any nesting of the values, any path;
    copies and elements share blocks) -/
def OpSup : Op → Prop
  | .new _ (.lit x) => LitOk x
  | .new _ (.list l) => ∀ s ∈ l, SrcLit s
  | .new _ (.array l) => ∀ s ∈ l, SrcLit s
  | .new _ (.map m) => ∀ q ∈ m, SrcLit q.2
  | .copy _ _ => True
  | .get _ _ _ => True
  | .swap _ _ => True
  | .mut _ _ lf => LeafSupS lf

theorem dgood_other {s : DState} {σ : Store} {g g' : Nat → Val} {v : Nat} {c' : Cell} {y : Val} {h' : Heap}
    (hrel : ∀ w, w < nvars → absCell g (s.vars w) = σ w) (htmp : s.vars tmpVar = .null) (hv : v < nvars)
    (i' : DInv h' (upd s.vars v c') zeroE g') (hval : absCell g' c' = y)
    (hfr : ∀ w, w < nvars → w ≠ v → absCell g' (s.vars w) = absCell g (s.vars w)) :
    DGood { h := h', vars := upd s.vars v c' } (upd σ v y) := by
  refine ⟨g', i', ?_, ?_⟩
  · intro w hw
    by_cases ew : w = v
    · subst ew; simp only [upd_same]; exact hval
    · simp only [upd_other _ _ _ _ ew]; rw [hfr w hw ew]; exact hrel w hw
  · have : tmpVar ≠ v := by simp [nvars, tmpVar] at *; omega
    simp only [upd_other _ _ _ _ this]; exact htmp

theorem fuel_ok (h : Heap) (n : Nat) : liveCount h + 1 < h.next + n + 3 + 1 := by
  have := liveCount_le_next h; omega

/-- assignment of variable `v` from a cell, as a step of the abstract state -/
theorem assign_dgood {s : DState} {σ : Store} (hg : DGood s σ) (v : Nat) (hv : v < nvars) (c : Cell) (hc : CellOk s.h c)
    (y : Val) (hy : ∀ g, DInv s.h s.vars zeroE g → (∀ w, w < nvars → absCell g (s.vars w) = σ w) → absCell g c = y)
    (f : Nat) (hf : liveCount s.h < f) :
    ∃ s', assignFrom f s v c = some s' ∧ DGood s' (upd σ v y) ∧ s'.h.next = s.h.next := by
  obtain ⟨g, i, hrel, htmp⟩ := hg
  obtain ⟨s', r, i', hvars, hval, sh, sl⟩ := assignFrom_step i v (lt_slots hv) c hc f hf
  refine ⟨s', r, ?_, by rw [sh.next, sl.1]⟩
  have hs' : s' = { h := s'.h, vars := upd s.vars v (copyCell s.h c).2 } := by
    cases s'; simp only at hvars; subst hvars; rfl
  rw [hs']
  exact dgood_other hrel htmp hv (by rw [← hvars]; exact i') (hval.trans (hy g i hrel)) (fun _ _ _ => rfl)

/-- sources of a temporary as seen from the unmasked variable file -/
theorem valSOk_of (vars : Nat → Cell) (a : ValS) (hlit : match a with
      | .list l => ∀ s ∈ l, SrcLit s | .array l => ∀ s ∈ l, SrcLit s | .map m => ∀ q ∈ m, SrcLit q.2 | .lit _ => False)
    (hall : allLt a.vars = true) : ValSOk vars vars a := by
  have hw : ∀ w ∈ a.vars, vars w = vars w ∧ w < nslots := fun w hw => ⟨rfl, lt_slots (allLt_mem hall hw)⟩
  cases a with
  | lit x => exact hlit
  | list l => exact fun s hs => srcOk_of vars vars s (hlit s hs) (fun w hw' => hw w (by simp only [ValS.vars, List.mem_flatMap]; exact ⟨s, hs, hw'⟩))
  | array l => exact fun s hs => srcOk_of vars vars s (hlit s hs) (fun w hw' => hw w (by simp only [ValS.vars, List.mem_flatMap]; exact ⟨s, hs, hw'⟩))
  | map m => exact fun q hq => srcOk_of vars vars q.2 (hlit q hq) (fun w hw' => hw w (by simp only [ValS.vars, List.mem_flatMap]; exact ⟨q, hq, hw'⟩))

theorem valS_eval_rel {s : DState} {σ : Store} {g : Nat → Val} (hrel : ∀ w, w < nvars → absCell g (s.vars w) = σ w)
    (a : ValS) (hall : allLt a.vars = true) : a.eval (fun w => absCell g (s.vars w)) = a.eval σ :=
  ValS.eval_congr a (fun w hw => hrel w (allLt_mem hall hw))

/-- the abstract values of the variables survive the construction of a temporary -/
theorem rel_after_tmp {s : DState} {σ : Store} {g g1 : Nat → Val} (i : DInv s.h s.vars zeroE g)
    (hrel : ∀ w, w < nvars → absCell g (s.vars w) = σ w) (hfr : ∀ x, x < s.h.next → g1 x = g x) :
    ∀ w, w < nvars → absCell g1 (s.vars w) = σ w := by
  intro w hw
  rw [← hrel w hw]
  apply absCell_congr
  intro b hb
  obtain ⟨k, hk⟩ := i.live w b hb
  exact hfr b (i.lt_next b k hk)

/-- typed assignment of a temporary container to the variable itself (the temporary may hold copies
    of that very variable) -/
theorem root_tmp_step (ds : DblSem) {s : DState} {σ : Store} (hg : DGood s σ) (v : Nat) (hv : v < nvars) (a : ValS)
    (ha : ValSOk s.vars s.vars a) (hall : allLt a.vars = true) :
    ∃ s', dstep ds s (.mut v [] (.set a)) = some s' ∧ DGood s' (upd σ v (a.eval σ)) := by
  obtain ⟨g, i, hrel, htmp⟩ := hg
  have hv7 := lt_slots hv
  let f := s.h.next + allocBound (.mut v [] (.set a)) + 1
  have hsz : valSize a ≤ leafSize (.set a) := by cases a <;> simp [valSize, leafSize]
  obtain ⟨h1, p, g1, rt, i1, hok, hval, hfr, hn1, hn2, hl1⟩ := dinv_tmpPay s.vars f a ha s.h zeroE g i
    (by have := liveCount_le_next s.h; simp only [f, allocBound]; omega)
  have i2 := dinv_take i1 v hv7
  have hd1 : Held h1 (upd s.vars v .null) (fun x => zeroE x + cntCells p.cells x + cellCnt (s.vars v) x) g1 (s.vars v) :=
    ⟨i2, fun x => Nat.le_add_left _ _, fun y hy => i.inl v y hy⟩
  obtain ⟨h', c', g', r, st⟩ := setTmp_core hd1 p (by intro x; show _ ≤ zeroE x + _ + _; omega) hok f
    (by have := liveCount_le_next s.h; simp only [f, allocBound]; omega)
  have he : (fun x => (fun x => zeroE x + cntCells p.cells x + cellCnt (s.vars v) x) x - cntCells p.cells x)
      = (fun x => cellCnt (s.vars v) x) := by
    funext x; simp only [zeroE]; omega
  rw [he] at st
  have hgood := put_back (s := { h := h1, vars := s.vars }) i1 (rel_after_tmp (s := s) i hrel hfr) htmp v hv _ 1 h' c' g' st
  refine ⟨{ h := h', vars := upd s.vars v c' }, ?_, ?_⟩
  · cases a with
    | lit x => exact absurd ha (by simp [ValSOk])
    | list l =>
      obtain ⟨s2, hsb, hra⟩ := core_result r
      simp only [dstep, selfTemp_nil, Bool.false_eq_true, if_false, walkMut, leafOp]; simp only [f] at rt hsb hra; rw [rt]; simp only [hsb, hra, Option.map]
    | array l =>
      obtain ⟨s2, hsb, hra⟩ := core_result r
      simp only [dstep, selfTemp_nil, Bool.false_eq_true, if_false, walkMut, leafOp]; simp only [f] at rt hsb hra; rw [rt]; simp only [hsb, hra, Option.map]
    | map m =>
      obtain ⟨s2, hsb, hra⟩ := core_result r
      simp only [dstep, selfTemp_nil, Bool.false_eq_true, if_false, walkMut, leafOp]; simp only [f] at rt hsb hra; rw [rt]; simp only [hsb, hra, Option.map]
  · rw [hval, valS_eval_rel hrel a hall] at hgood; exact hgood

/-- `~Variant()` and construction from a temporary container -/
theorem new_tmp_step (ds : DblSem) {s : DState} {σ : Store} (hg : DGood s σ) (v : Nat) (hv : v < nvars) (a : ValS)
    (ha : ValSOk s.vars s.vars a) (hall : allLt a.vars = true) :
    ∃ s', dstep ds s (.new v a) = some s' ∧ DGood s' (upd σ v (a.eval σ)) := by
  obtain ⟨g, i, hrel, htmp⟩ := hg
  have hv7 := lt_slots hv
  let f := s.h.next + allocBound (.new v a) + 1
  have hab : allocBound (.new v a) = valSize a + 2 := by cases a <;> first | rfl | exact absurd ha (by simp [ValSOk])
  obtain ⟨h1, p, g1, rt, i1, hok, hval, hfr, hn1, hn2, hl1⟩ := dinv_tmpPay s.vars f a ha s.h zeroE g i
    (by have := liveCount_le_next s.h; simp only [f]; omega)
  have i2 := dinv_take i1 v hv7
  obtain ⟨h2, r2, i3, s2⟩ := dinv_release f h1 _ (s.vars v) i2 (fun x => Nat.le_add_left _ _)
    (by have := liveCount_le_next s.h; simp only [f]; omega)
  have hok2 : ∀ d ∈ p.cells, CellOk h2 d := by
    intro d hdm
    refine ⟨hok d hdm, ?_⟩
    intro t ht
    have := cellCnt_le_of_mem p.cells d t hdm
    rw [ht] at this; simp [cellCnt_ptr] at this
    exact live_of_pending i3 t (by show 1 ≤ zeroE t + cntCells p.cells t + cellCnt (s.vars v) t - cellCnt (s.vars v) t; omega)
  have hcp := dinv_copyPay i3 p hok2
  generalize hcpe : copyPay h2 p = cpr at hcp
  obtain ⟨h3, p2⟩ := cpr
  simp only at hcp
  obtain ⟨i4, a4, sl4, _, _, o4, c4⟩ := hcp
  have hok3 : ∀ d ∈ p2.cells, CellOk h3 d := by
    intro d hdm
    refine ⟨o4 d hdm, ?_⟩
    intro t ht
    have := cellCnt_le_of_mem p2.cells d t hdm
    rw [ht] at this; simp [cellCnt_ptr] at this
    exact live_of_pending i4 t (by show 1 ≤ _ + cntCells p2.cells t; omega)
  have i5 := dinv_alloc i4 p2 hok3 (fun x => Nat.le_add_left _ _)
  have hn3 : h3.next = h1.next := by rw [show h3.next = h2.next from sl4.1, s2.next]
  obtain ⟨h6, r6, i6, s6⟩ := dinv_releaseAll f p.cells _ _ i5
    (by intro x; show _ ≤ zeroE x + cntCells p.cells x + cellCnt (s.vars v) x - cellCnt (s.vars v) x + cntCells p2.cells x - cntCells p2.cells x + _; omega)
    (by rw [liveCount_alloc i4, liveCount_sameLive sl4]; have := s2.live; have := liveCount_le_next s.h; simp only [f]; omega)
  have i7 := dinv_put i6 v hv7 (by intro b; simp) (.ptr h3.next)
    (by intro x
        show _ ≤ zeroE x + cntCells p.cells x + cellCnt (s.vars v) x - cellCnt (s.vars v) x + cntCells p2.cells x - cntCells p2.cells x
          + (if x = h3.next then 1 else 0) - cntCells p.cells x
        simp only [cellCnt_ptr, zeroE]
        by_cases ex : x = h3.next
        · subst ex; simp
        · have : ¬ h3.next = x := fun y => ex y.symm
          simp [ex, this])
    (by intro z hz; cases hz)
  rw [upd_upd_same] at i7
  refine ⟨{ h := h6, vars := upd s.vars v (.ptr h3.next) }, ?_, ?_⟩
  · cases a with
    | lit x => exact absurd ha (by simp [ValSOk])
    | list l => simp only [dstep, newVar]; simp only [f] at rt r2 r6; rw [rt]; simp only [r2, hcpe, alloc_id, r6, Option.map]
    | array l => simp only [dstep, newVar]; simp only [f] at rt r2 r6; rw [rt]; simp only [r2, hcpe, alloc_id, r6, Option.map]
    | map m => simp only [dstep, newVar]; simp only [f] at rt r2 r6; rw [rt]; simp only [r2, hcpe, alloc_id, r6, Option.map]
  · refine dgood_other hrel htmp hv (i7.congr ?_) ?_ ?_
    · intro x
      show zeroE x + cntCells p.cells x + cellCnt (s.vars v) x - cellCnt (s.vars v) x + cntCells p2.cells x - cntCells p2.cells x
          + (if x = h3.next then 1 else 0) - cntCells p.cells x - cellCnt (.ptr h3.next) x = zeroE x
      simp only [cellCnt_ptr, zeroE]
      by_cases ex : x = h3.next
      · subst ex; simp
      · have : ¬ h3.next = x := fun y => ex y.symm
        simp [ex, this]
    · simp only [absCell, upd_same]
      rw [a4, hval, valS_eval_rel hrel a hall]
    · intro u hu _
      apply absCell_congr
      intro b hb
      obtain ⟨k, hk⟩ := i.live u b hb
      have hbl := i.lt_next b k hk
      have : b ≠ h3.next := by rw [hn3]; omega
      rw [upd_other _ _ _ _ this]; exact hfr b hbl

theorem dstep_refines (ds : DblSem) {s : DState} {σ σ' : Store} (hg : DGood s σ) (op : Op) (hsup : OpSup op)
    (hspec : specStep ds σ op = some σ') : ∃ s', dstep ds s op = some s' ∧ DGood s' σ' := by
  have hg0 := hg
  obtain ⟨g, i, hrel, htmp⟩ := hg
  cases op with
  | copy v w =>
    simp only [specStep] at hspec
    split at hspec
    · rename_i hc
      split at hspec
      · cases hspec
      · rename_i hvw
        injection hspec with hspec; subst hspec
        have hv7 := lt_slots hc.1
        obtain ⟨h1, r1, i1, s1⟩ := release_var i v hv7 (s.h.next + 2 + 1) (by have := liveCount_le_next s.h; omega)
        have hw0 : upd s.vars v .null w = s.vars w := upd_other _ _ _ _ (fun x => hvw x.symm)
        obtain ⟨i2, a2, _, s2, _, _, o2⟩ := dinv_copyCell i1 (s.vars w) (by rw [← hw0]; exact var_cellOk i1 w)
        have i3 := dinv_put i2 v hv7 (by intro b; simp) (copyCell h1 (s.vars w)).2
          (by intro x; show _ ≤ zeroE x + _; omega) o2
        rw [upd_upd_same] at i3
        refine ⟨{ h := (copyCell h1 (s.vars w)).1, vars := upd s.vars v (copyCell h1 (s.vars w)).2 }, ?_, ?_⟩
        · simp only [dstep, allocBound, r1]
        · exact dgood_other hrel htmp hc.1 (i3.congr (by intro x; show zeroE x + _ - _ = zeroE x; simp [zeroE]))
            (a2.trans (hrel w hc.2)) (fun _ _ _ => rfl)
    · cases hspec
  | get v w p =>
    simp only [specStep] at hspec
    split at hspec
    · rename_i hc
      cases hgp : getPath p (σ w) with
      | none => simp [hgp] at hspec
      | some y =>
        simp only [hgp, Option.map, Option.some.injEq] at hspec; subst hspec
        have hcp := getCellPath_abs i p (s.vars w) (var_cellOk i w)
        rw [hrel w hc.2, hgp] at hcp
        cases hci : getCellPath s.h (s.vars w) p with
        | none => simp only [hci] at hcp; cases hcp
        | some ci =>
          simp only [hci] at hcp
          obtain ⟨hok, hval⟩ := hcp
          injection hval with hval
          by_cases hself : (p.isEmpty && decide (v = w)) = true
          · -- `v = v`
            simp only [Bool.and_eq_true, decide_eq_true_eq] at hself
            obtain ⟨hp, hvw⟩ := hself
            subst hvw
            have : p = [] := by cases p <;> simp_all
            subst this
            simp only [getPath, Option.some.injEq] at hgp
            refine ⟨s, by simp [dstep, hci], g, i, ?_, htmp⟩
            intro u hu
            by_cases eu : u = v
            · subst eu; simp only [upd_same]; rw [hrel u hu]; exact hgp
            · simp only [upd_other _ _ _ _ eu]; exact hrel u hu
          · obtain ⟨s', r, g', _⟩ := assign_dgood hg0 v hc.1 ci hok y (by
              intro g2 i2 hrel2
              have hcp2 := getCellPath_abs i2 p (s.vars w) (var_cellOk i2 w)
              rw [hrel2 w hc.2, hgp, hci] at hcp2
              exact (Option.some.inj hcp2.2).symm) (s.h.next + 2 + 1) (by have := liveCount_le_next s.h; omega)
            refine ⟨s', ?_, g'⟩
            simp only [dstep, allocBound, hci]
            simp only [Bool.not_eq_true] at hself
            simp only [hself, Bool.false_eq_true, if_false]; exact r
    · cases hspec
  | new v e =>
    cases e with
    | list l =>
      simp only [specStep] at hspec
      split at hspec
      · rename_i hc
        injection hspec with hspec; subst hspec
        exact new_tmp_step ds hg0 v hc.1 _ (valSOk_of s.vars (.list l) hsup hc.2) hc.2
      · cases hspec
    | array l =>
      simp only [specStep] at hspec
      split at hspec
      · rename_i hc
        injection hspec with hspec; subst hspec
        exact new_tmp_step ds hg0 v hc.1 _ (valSOk_of s.vars (.array l) hsup hc.2) hc.2
      · cases hspec
    | map m =>
      simp only [specStep] at hspec
      split at hspec
      · rename_i hc
        injection hspec with hspec; subst hspec
        exact new_tmp_step ds hg0 v hc.1 _ (valSOk_of s.vars (.map m) hsup hc.2) hc.2
      · cases hspec
    | lit x =>
      have hlit : LitOk x := hsup
      simp only [specStep] at hspec
      split at hspec
      · rename_i hc
        injection hspec with hspec; subst hspec
        have hv7 := lt_slots hc.1
        obtain ⟨h1, r1, i1, s1⟩ := release_var i v hv7 (s.h.next + 2 + 1) (by have := liveCount_le_next s.h; omega)
        have hscalar : ∀ (hx : x.isBoxed = false), DGood { h := h1, vars := upd s.vars v (.inl x) } (upd σ v x) := by
          intro hx
          have i3 := dinv_put i1 v hv7 (by intro b; simp) (.inl x) (by intro y; simp) (by intro z hz; injection hz with hz; subst hz; exact hx)
          rw [upd_upd_same] at i3
          exact dgood_other hrel htmp hc.1 (i3.congr (by intro y; simp [zeroE])) rfl (fun _ _ _ => rfl)
        cases x with
        | map m => exact absurd hlit (by simp [LitOk])
        | list l => exact absurd hlit (by simp [LitOk])
        | array l => exact absurd hlit (by simp [LitOk])
        | null =>
          refine ⟨{ h := h1, vars := upd s.vars v .null }, by simp [dstep, allocBound, newVar, r1], ?_⟩
          exact dgood_other hrel htmp hc.1 i1 rfl (fun _ _ _ => rfl)
        | str t =>
          have i2 := dinv_alloc i1 (.str t) (by intro c hc'; simp [Pay.cells] at hc') (by intro y; simp [Pay.cells, cntCells_nil])
          have i3 := dinv_put i2 v hv7 (by intro b; simp) (.ptr h1.next)
            (by intro y; simp only [Pay.cells, cntCells_nil, cellCnt_ptr]; split <;> simp_all [zeroE]) (by intro z hz; cases hz)
          rw [upd_upd_same] at i3
          refine ⟨{ h := (alloc h1 (.str t)).1, vars := upd s.vars v (.ptr h1.next) },
            by simp [dstep, allocBound, newVar, r1, alloc_id], ?_⟩
          refine dgood_other hrel htmp hc.1 (i3.congr ?_) (by simp [absCell, absPay, ValS.eval]) ?_
          · intro y
            simp only [Pay.cells, cntCells_nil, cellCnt_ptr, zeroE]
            by_cases ey : y = h1.next
            · subst ey; simp
            · have : ¬ h1.next = y := fun z => ey z.symm
              simp [ey, this]
          · intro u hu _
            apply absCell_congr
            intro b hb
            obtain ⟨k, hk⟩ := i.live u b hb
            have : b ≠ h1.next := by rw [s1.next]; have := i.lt_next b k hk; omega
            exact upd_other _ _ _ _ this
        | bool b => exact ⟨_, by simp [dstep, allocBound, newVar, r1, Val.isBoxed], hscalar rfl⟩
        | dbl d => exact ⟨_, by simp [dstep, allocBound, newVar, r1, Val.isBoxed], hscalar rfl⟩
        | int n => exact ⟨_, by simp [dstep, allocBound, newVar, r1, Val.isBoxed], hscalar rfl⟩
        | uint n => exact ⟨_, by simp [dstep, allocBound, newVar, r1, Val.isBoxed], hscalar rfl⟩
        | int64 n => exact ⟨_, by simp [dstep, allocBound, newVar, r1, Val.isBoxed], hscalar rfl⟩
        | uint64 n => exact ⟨_, by simp [dstep, allocBound, newVar, r1, Val.isBoxed], hscalar rfl⟩
      · cases hspec
  | swap v w =>
    simp only [specStep] at hspec
    split at hspec
    · rename_i hc
      injection hspec with hspec; subst hspec
      have hv7 := lt_slots hc.1
      have hw7 := lt_slots hc.2
      have ht7 : tmpVar < nslots := by simp [tmpVar, nslots]
      have hvt : v ≠ tmpVar := by simp [nvars, tmpVar] at *; omega
      have hwt : w ≠ tmpVar := by simp [nvars, tmpVar] at *; omega
      have hfl : liveCount s.h < s.h.next + 2 + 1 := by have := liveCount_le_next s.h; omega
      -- tmp = other
      obtain ⟨i1, a1, _, sl1, _, _, o1⟩ := dinv_copyCell i (s.vars w) (var_cellOk i w)
      have i1' := (dinv_put i1 tmpVar ht7 (by rw [htmp]; intro b hb; cases hb) (copyCell s.h (s.vars w)).2
        (by intro x; show _ ≤ zeroE x + _; omega) o1).congr (e' := zeroE) (by intro x; show zeroE x + cellCnt _ x - cellCnt _ x = zeroE x; omega)
      let s1 : DState := { h := (copyCell s.h (s.vars w)).1, vars := upd s.vars tmpVar (copyCell s.h (s.vars w)).2 }
      have i1'' : DInv s1.h s1.vars zeroE g := i1'
      have hl1 : liveCount s1.h = liveCount s.h := liveCount_sameLive sl1
      have hn1 : s1.h.next = s.h.next := sl1.1
      -- other = *this
      have step2 : ∃ s2 : DState, (if w = v then some s1 else assignFrom (s.h.next + 2 + 1) s1 w (s1.vars v)) = some s2 ∧
          DInv s2.h s2.vars zeroE g ∧ liveCount s2.h ≤ liveCount s.h ∧ s2.h.next = s.h.next ∧
          s2.vars tmpVar = (copyCell s.h (s.vars w)).2 ∧
          (∀ u, u < nvars → u ≠ w → s2.vars u = s.vars u) ∧ absCell g (s2.vars w) = σ v := by
        by_cases hwv : w = v
        · subst hwv
          refine ⟨s1, by simp, i1'', by omega, hn1, by simp [s1], ?_, ?_⟩
          · intro u hu _
            have : u ≠ tmpVar := by simp [nvars, tmpVar] at *; omega
            simp [s1, upd_other _ _ _ _ this]
          · have : s1.vars w = s.vars w := upd_other _ _ _ _ hwt
            rw [this]; exact hrel w hc.1
        · have hv1 : s1.vars v = s.vars v := by simp [s1, upd_other _ _ _ _ hvt]
          obtain ⟨s2, r2, i2, hvars2, hval2, sh2, sl2⟩ := assignFrom_step (s := s1) i1'' w hw7 (s1.vars v)
            (var_cellOk i1'' v) (s.h.next + 2 + 1) (by omega)
          refine ⟨s2, by simp [hwv, r2], i2, ?_, by rw [sh2.next, sl2.1, hn1], ?_, ?_, ?_⟩
          · have := sh2.live; rw [liveCount_sameLive sl2] at this; omega
          · rw [hvars2, upd_other _ _ _ _ (Ne.symm hwt)]; simp [s1]
          · intro u hu huw
            have : u ≠ tmpVar := by simp [nvars, tmpVar] at *; omega
            rw [hvars2, upd_other _ _ _ _ huw]; simp [s1, upd_other _ _ _ _ this]
          · rw [hvars2, upd_same, hval2, hv1]; exact hrel v hc.1
      obtain ⟨s2, r2, i2, hl2, hn2, ht2, hoth2, hw2⟩ := step2
      -- *this = tmp
      obtain ⟨s3, r3, i3, hvars3, hval3, sh3, sl3⟩ := assignFrom_step i2 v hv7 (s2.vars tmpVar) (var_cellOk i2 tmpVar)
        (s.h.next + 2 + 1) (by omega)
      -- ~tmp
      have hl3 : liveCount s3.h ≤ liveCount s.h := by
        have := sh3.live; rw [liveCount_sameLive sl3] at this; omega
      obtain ⟨h4, r4, i4, _⟩ := release_var i3 tmpVar ht7 (s.h.next + 2 + 1) (by omega)
      refine ⟨({ h := h4, vars := upd s3.vars tmpVar .null } : DState), ?_, g, i4, ?_, by simp⟩
      · simp only [dstep, allocBound]
        show (match (if w = v then some s1 else assignFrom (s.h.next + 2 + 1) s1 w (s1.vars v)) with
          | some s2 => (match assignFrom (s.h.next + 2 + 1) s2 v (s2.vars tmpVar) with
            | some s3 => (release (s.h.next + 2 + 1) s3.h (s3.vars tmpVar)).map (fun h4 => ({ h := h4, vars := upd s3.vars tmpVar .null } : DState))
            | none => none)
          | none => none) = _
        rw [r2]; simp only [r3, r4, Option.map]
      · intro u hu
        have hut : u ≠ tmpVar := by simp [nvars, tmpVar] at *; omega
        simp only [upd_other _ _ _ _ hut, hvars3]
        by_cases euv : u = v
        · subst euv
          simp only [upd_same]
          rw [hval3, ht2, a1, hrel w hc.2]
        · simp only [upd_other _ _ _ _ euv]
          by_cases euw : u = w
          · subst euw
            simp only [upd_same]; exact hw2
          · rw [upd_other _ _ _ _ euw, hoth2 u hu euw]; exact hrel u hu
    · cases hspec
  | «mut» v p lf =>
    have hls : LeafSupS lf := hsup
    simp only [specStep] at hspec
    split at hspec
    · rename_i hc
      obtain ⟨hv, hall, hmok⟩ := hc
      split at hspec
      · cases hspec
      · cases hy : updPath p ((lf.eval σ).apply ds) (σ v) with
        | none => simp [hy] at hspec
        | some y =>
          simp only [hy, Option.map, Option.some.injEq] at hspec; subst hspec
          have hv7 := lt_slots hv
          -- assignment from a variable to the variable itself: the sharing path
          have assignVarCase : ∀ w, p = [] → lf = .assign (.var w) →
              ∃ s', dstep ds s (.mut v p lf) = some s' ∧ DGood s' (upd σ v y) := by
            intro w hp hlf
            subst hp hlf
            simp only [updPath, LeafS.eval, Src.eval, Leaf.apply, Option.some.injEq] at hy
            subst hy
            have hw : w < nvars := allLt_mem hall (by simp [LeafS.vars, Src.vars])
            by_cases hvw : v = w
            · subst hvw
              refine ⟨s, by simp [dstep], g, i, ?_, htmp⟩
              intro u hu
              by_cases eu : u = v
              · subst eu; simp only [upd_same]; exact hrel u hu
              · simp only [upd_other _ _ _ _ eu]; exact hrel u hu
            · obtain ⟨s', r, g', _⟩ := assign_dgood hg0 v hv (s.vars w) (var_cellOk i w) (σ w)
                (fun g2 _ hrel2 => hrel2 w hw) (s.h.next + allocBound (.mut v [] (.assign (.var w))) + 1)
                (by have := liveCount_le_next s.h; omega)
              exact ⟨s', by simp only [dstep, hvw, if_false]; exact r, g'⟩
          -- the caller-side precondition, once the self-temporary lines are set apart
          have hnvOf : (∀ w, ¬ (p = [] ∧ lf = .assign (.var w))) → (p = [] → setsSeq lf = false) →
              selfTemp v p lf = false → v ∉ lf.vars := by
            intro hna hnt hself hin
            have hm : mutOk v p lf = true := hmok
            have hcon : lf.vars.contains v = true := by simpa using hin
            cases lf with
            | assign src =>
              cases p with
              | nil =>
                cases src with
                | var w => exact hna w ⟨rfl, rfl⟩
                | lit x => simp [LeafS.vars, Src.vars] at hin
              | cons st p' => simp [mutOk] at hm; exact hm hin
            | set e =>
              cases p with
              | nil =>
                cases e with
                | lit x => simp [LeafS.vars, ValS.vars] at hin
                | list l => exact absurd (hnt rfl) (by simp [setsSeq])
                | array l => exact absurd (hnt rfl) (by simp [setsSeq])
                | map m => exact absurd (hnt rfl) (by simp [setsSeq])
              | cons st p' =>
                simp only [selfTemp, List.isEmpty_cons, Bool.not_false, Bool.true_and] at hself
                simp only [LeafS.vars] at hcon
                rw [hcon] at hself; cases hself
            | clear => simp [LeafS.vars] at hin
            | touch k => simp [LeafS.vars] at hin
            | lapp src => simp [mutOk] at hm; exact hm hin
            | lpre src => simp [mutOk] at hm; exact hm hin
            | aapp src => simp [mutOk] at hm; exact hm hin
            | lrem i => simp [LeafS.vars] at hin
            | arem i => simp [LeafS.vars] at hin
            | mput k src => simp [mutOk] at hm; exact hm hin
            | mrem k => simp [LeafS.vars] at hin
            | sapp t => simp [LeafS.vars] at hin
          -- everything else runs on the held cell, through the nested walk
          have heldCase : (∀ w, ¬ (p = [] ∧ lf = .assign (.var w))) → (p = [] → setsSeq lf = false) → selfTemp v p lf = false →
              ∃ s', dstep ds s (.mut v p lf) = some s' ∧ DGood s' (upd σ v y) := by
            intro hna hnt hself
            have hd := held_take i v hv7
            have hnv : v ∉ lf.vars := hnvOf hna hnt hself
            have hsrc : ∀ w ∈ lf.vars, s.vars w = upd s.vars v .null w ∧ w < nslots := by
              intro w hw
              have : w ≠ v := by intro e; subst e; exact hnv hw
              exact ⟨(upd_other _ _ _ _ this).symm, lt_slots (allLt_mem hall hw)⟩
            have hev : lf.eval (fun w => absCell g (upd s.vars v .null w)) = lf.eval σ := by
              apply LeafS.eval_congr
              intro w hw
              have : w ≠ v := by intro e; subst e; exact hnv hw
              rw [upd_other _ _ _ _ this]; exact hrel w (allLt_mem hall hw)
            obtain ⟨h', c', g', r, st⟩ := walk_step ds s.vars lf hls hsrc p s.h _ g (s.vars v) hd y
              (by rw [hev, hrel v hv]; exact hy) (s.h.next + allocBound (.mut v p lf) + 1)
              (by have := liveCount_le_next s.h; simp only [allocBound]; omega)
            refine ⟨{ h := h', vars := upd s.vars v c' }, ?_, put_back i hrel htmp v hv y _ h' c' g' st⟩
            cases p with
            | cons st p' => simp only [dstep, hself, Bool.false_eq_true, if_false, r, Option.map]
            | nil =>
              cases lf with
              | assign src =>
                cases src with
                | var w => exact absurd ⟨rfl, rfl⟩ (hna w)
                | lit x => simp only [dstep, selfTemp_nil, Bool.false_eq_true, if_false, r, Option.map]
              | _ => simp only [dstep, selfTemp_nil, Bool.false_eq_true, if_false, r, Option.map]
          cases p with
          | cons st p' =>
            by_cases hself : selfTemp v (st :: p') lf = true
            · -- a temporary that holds copies of `v`, assigned below the root: built before the walk
              cases lf with
              | set e =>
                obtain ⟨s', r, g'⟩ := selfTempStep_refines ds hg0 v hv (st :: p') e hls hall y hy
                  (s.h.next + allocBound (.mut v (st :: p') (.set e)) + 1) (by simp only [allocBound]; omega)
                exact ⟨s', by simp only [dstep, hself, if_true]; exact r, g'⟩
              | _ => simp [selfTemp] at hself
            · exact heldCase (by intro w hh; cases hh.1) (by intro hh; cases hh) (by simpa using hself)
          | nil =>
            -- a temporary container assigned to the variable itself
            have tmpCase : ∀ a, lf = .set a → (match a with
                  | .list l => ∀ s ∈ l, SrcLit s | .array l => ∀ s ∈ l, SrcLit s | .map m => ∀ q ∈ m, SrcLit q.2 | .lit _ => False) →
                ∃ s', dstep ds s (.mut v [] lf) = some s' ∧ DGood s' (upd σ v y) := by
              intro a hlf hlit
              subst hlf
              have hall' : allLt a.vars = true := hall
              obtain ⟨s', r, g'⟩ := root_tmp_step ds hg0 v hv a (valSOk_of s.vars a hlit hall') hall'
              simp only [updPath, LeafS.eval, Leaf.apply, Option.some.injEq] at hy
              subst hy
              exact ⟨s', r, g'⟩
            cases lf with
            | assign src =>
              cases src with
              | var w => exact assignVarCase w rfl rfl
              | lit x => exact heldCase (by intro w hh; cases hh.2) (fun _ => rfl) (selfTemp_nil _ _)
            | set a =>
              cases a with
              | lit x => exact heldCase (by intro w hh; cases hh.2) (fun _ => rfl) (selfTemp_nil _ _)
              | list l => exact tmpCase _ rfl hls
              | array l => exact tmpCase _ rfl hls
              | map m => exact tmpCase _ rfl hls
            | _ => exact heldCase (by intro w hh; cases hh.2) (fun _ => rfl) (selfTemp_nil _ _)
    · cases hspec

end Nstd.Variant.Deep
