import Nstd.Variant.LemmasRefine
/-
  Facts about the specification store and about values: frame of `specStep`, the C casts
  (`wrapS`/`wrapU` at 32 and 64 bits), reflexivity of `operator==`.
-/
namespace Nstd.Variant

/-! ### the specification changes the target variables only -/

theorem specStep_frame (ds : DblSem) {σ σ' : Store} {op : Op} (h : specStep ds σ op = some σ') (w : Nat)
    (hw : w ∉ op.targets) : σ' w = σ w := by
  cases op with
  | new v e =>
    simp only [specStep] at h
    split at h
    · injection h with h; subst h
      have : w ≠ v := by simpa [Op.targets] using hw
      exact upd_other _ _ _ _ this
    · cases h
  | copy v u =>
    simp only [specStep] at h
    split at h
    · split at h
      · cases h
      · injection h with h; subst h
        have : w ≠ v := by simpa [Op.targets] using hw
        exact upd_other _ _ _ _ this
    · cases h
  | swap v u =>
    simp only [specStep] at h
    split at h
    · injection h with h; subst h
      have : w ≠ v ∧ w ≠ u := by simpa [Op.targets] using hw
      rw [upd_other _ _ _ _ this.1, upd_other _ _ _ _ this.2]
    · cases h
  | get v u p =>
    simp only [specStep] at h
    split at h
    · cases hg : getPath p (σ u) with
      | none => simp [hg] at h
      | some y =>
        simp [hg] at h; subst h
        have : w ≠ v := by simpa [Op.targets] using hw
        exact upd_other _ _ _ _ this
    · cases h
  | «mut» v p lf =>
    simp only [specStep] at h
    split at h
    · split at h
      · cases h
      · cases hg : updPath p ((lf.eval σ).apply ds) (σ v) with
        | none => simp [hg] at h
        | some y =>
          simp [hg] at h; subst h
          have : w ≠ v := by simpa [Op.targets] using hw
          exact upd_other _ _ _ _ this
    · cases h

theorem specStepD_frame (ds : DblSem) (σ : Store) (op : Op) (w : Nat) (hw : w ∉ op.targets) :
    specStepD ds σ op w = σ w := by
  unfold specStepD
  cases h : specStep ds σ op with
  | none => rfl
  | some σ' => exact specStep_frame ds h w hw

theorem specRun_frame (ds : DblSem) (ops : List Op) : ∀ (σ : Store) (w : Nat), (∀ op ∈ ops, w ∉ op.targets) →
    specRun ds σ ops w = σ w := by
  induction ops with
  | nil => intro σ w _; rfl
  | cons op ops ih =>
    intro σ w h
    have h1 : w ∉ op.targets := h op (by simp)
    have h2 : ∀ o ∈ ops, w ∉ o.targets := fun o ho => h o (by simp [ho])
    show specRun ds (specStepD ds σ op) ops w = σ w
    rw [ih _ w h2, specStepD_frame ds σ op w h1]

theorem specRun_append (ds : DblSem) (σ : Store) (a b : List Op) :
    specRun ds σ (a ++ b) = specRun ds (specRun ds σ a) b := by
  simp [specRun, List.foldl_append]

theorem run_append (ds : DblSem) (s : State) (a b : List Op) : run ds s (a ++ b) = run ds (run ds s a) b := by
  simp [run, List.foldl_append]

/-! ### C casts -/

theorem pow32 : (2 : Int) ^ 32 = 4294967296 := by decide
theorem pow31 : (2 : Int) ^ (32 - 1) = 2147483648 := by decide
theorem pow64 : (2 : Int) ^ 64 = 18446744073709551616 := by decide
theorem pow63 : (2 : Int) ^ (64 - 1) = 9223372036854775808 := by decide

theorem wrapS32_spec (x : Int) : inS 32 (wrapS 32 x) ∧ (wrapS 32 x - x) % 4294967296 = 0 := by
  simp only [wrapS, inS, pow32, pow31]; split <;> omega
theorem wrapS64_spec (x : Int) : inS 64 (wrapS 64 x) ∧ (wrapS 64 x - x) % 18446744073709551616 = 0 := by
  simp only [wrapS, inS, pow64, pow63]; split <;> omega
theorem wrapU32_spec (x : Int) : inU 32 (wrapU 32 x) ∧ (wrapU 32 x - x) % 4294967296 = 0 := by
  simp only [wrapU, inU, pow32]; omega
theorem wrapU64_spec (x : Int) : inU 64 (wrapU 64 x) ∧ (wrapU 64 x - x) % 18446744073709551616 = 0 := by
  simp only [wrapU, inU, pow64]; omega

theorem wrapS32_id (x : Int) (h : inS 32 x) : wrapS 32 x = x := by
  simp only [wrapS, inS, pow32, pow31] at *; split <;> omega
theorem wrapS64_id (x : Int) (h : inS 64 x) : wrapS 64 x = x := by
  simp only [wrapS, inS, pow64, pow63] at *; split <;> omega
theorem wrapU32_id (x : Int) (h : inU 32 x) : wrapU 32 x = x := by
  simp only [wrapU, inU, pow32] at *; omega
theorem wrapU64_id (x : Int) (h : inU 64 x) : wrapU 64 x = x := by
  simp only [wrapU, inU, pow64] at *; omega

/-- the libc parsers stay in the range of their result type -/
theorem strtol_range (s : Str) : inS 64 (strtol s) := by
  simp only [strtol, inS, pow63]
  cases parseDec s with
  | mk neg n =>
    simp only
    have e63 : (2 : Nat) ^ 63 = 9223372036854775808 := by decide
    by_cases hn : neg = true <;> simp only [hn, if_true, Bool.false_eq_true, if_false]
    · split <;> omega
    · split <;> omega

theorem strtoul_range (s : Str) : inU 64 (strtoul s) := by
  simp only [strtoul, inU, pow64]
  cases parseDec s with
  | mk neg n =>
    simp only
    have e64 : (2 : Nat) ^ 64 = 18446744073709551616 := by decide
    split
    · omega
    · by_cases hn : neg = true <;> simp only [hn, if_true, Bool.false_eq_true, if_false]
      · have := (wrapU64_spec (-(n : Int))).1; simpa [inU, pow64] using this
      · omega

/-! ### operator== is reflexive on NaN-free values -/

mutual
/-- no double inside the value compares unequal to itself -/
def NoNaN (ds : DblSem) : Val → Prop
  | .dbl d => ds.eq d d = true
  | .list l => NoNaNList ds l
  | .array l => NoNaNList ds l
  | .map m => NoNaNMap ds m
  | _ => True
def NoNaNList (ds : DblSem) : List Val → Prop
  | [] => True
  | a :: t => NoNaN ds a ∧ NoNaNList ds t
def NoNaNMap (ds : DblSem) : List (Str × Val) → Prop
  | [] => True
  | (_, a) :: t => NoNaN ds a ∧ NoNaNMap ds t
end

mutual
theorem veq_refl (ds : DblSem) : (v : Val) → NoNaN ds v → veq ds v v = some true
  | .null, _ => by simp [veq, scalarEq, Val.type]
  | .bool b, _ => by simp [veq, scalarEq, Val.toBool]
  | .dbl d, h => by simp only [NoNaN] at h; simp [veq, scalarEq, Val.toDouble, h]
  | .int i, _ => by simp [veq, scalarEq, Val.toInt, optEq]
  | .uint i, _ => by simp [veq, scalarEq, Val.toUInt, optEq]
  | .int64 i, _ => by simp [veq, scalarEq, Val.toInt64, optEq]
  | .uint64 i, _ => by simp [veq, scalarEq, Val.toUInt64, optEq]
  | .str s, _ => by simp [veq]
  | .list l, h => by simp only [NoNaN] at h; simp [veq, veqList_refl ds l h]
  | .array l, h => by simp only [NoNaN] at h; simp [veq, veqList_refl ds l h]
  | .map m, h => by simp only [NoNaN] at h; simp [veq, veqMap_refl ds m h]
theorem veqList_refl (ds : DblSem) : (l : List Val) → NoNaNList ds l → veqList ds l l = some true
  | [], _ => by simp [veqList]
  | a :: t, h => by
    simp only [NoNaNList] at h
    simp [veqList, veq_refl ds a h.1, veqList_refl ds t h.2]
theorem veqMap_refl (ds : DblSem) : (m : List (Str × Val)) → NoNaNMap ds m → veqMap ds m m = some true
  | [], _ => by simp [veqMap]
  | (k, a) :: t, h => by
    simp only [NoNaNMap] at h
    simp [veqMap, veq_refl ds a h.1, veqMap_refl ds t h.2]
end

end Nstd.Variant
