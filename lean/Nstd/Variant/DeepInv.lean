import Nstd.Variant.Deep
import Nstd.Variant.Lemmas
/-
  Invariant of the deep model and its atomic steps.

  `handles vars b` counts the variables pointing to block `b`, `stored` the element cells
  inside live payloads pointing to it, `e b` the *pending* handles (counted in `ref`, held by
  the operation in progress: a cell taken out of its slot, a copy not stored yet, the elements
  of a payload being destroyed).  `g` is a ghost map block ↦ abstract value, tied to the heap
  by a *local* equation (`cons`): the value of a block is its payload with every pointer cell
  replaced by the ghost value of its target.
-/
namespace Nstd.Variant.Deep
open Nstd.Variant

def cntCells (cs : List Cell) (b : Nat) : Nat := cs.countP (fun c => isPtrTo c b)

def cntBlk (o : Option Block) (b : Nat) : Nat :=
  match o with
  | some blk => cntCells blk.pay.cells b
  | none => 0

/-- handles to `b` stored in the payloads of the blocks `0 … n-1` -/
def stored (heap : Nat → Option Block) : Nat → Nat → Nat
  | 0, _ => 0
  | n + 1, b => stored heap n b + cntBlk (heap n) b

theorem stored_upd (heap : Nat → Option Block) (i : Nat) (o : Option Block) (n b : Nat) (hi : i < n) :
    stored (upd heap i o) n b + cntBlk (heap i) b = stored heap n b + cntBlk o b := by
  induction n with
  | zero => omega
  | succ n ih =>
    simp only [stored]
    by_cases h : i < n
    · have := ih h
      have hne : n ≠ i := by omega
      simp only [upd_other _ _ _ _ hne]
      omega
    · have e : i = n := by omega
      subst e
      have same : ∀ m, m ≤ i → stored (upd heap i o) m b = stored heap m b := by
        intro m hm
        induction m with
        | zero => rfl
        | succ m ihm =>
          simp only [stored]
          have : m ≠ i := by omega
          rw [upd_other _ _ _ _ this, ihm (by omega)]
      rw [same i (Nat.le_refl _)]
      simp only [upd_same]
      omega

theorem stored_upd_ge (heap : Nat → Option Block) (i : Nat) (o : Option Block) (n b : Nat) (hi : n ≤ i) :
    stored (upd heap i o) n b = stored heap n b := by
  induction n with
  | zero => rfl
  | succ n ih =>
    simp only [stored]
    have : n ≠ i := by omega
    rw [upd_other _ _ _ _ this, ih (by omega)]

/-- a block below `n` that stores a handle to `b` makes `stored` positive -/
theorem stored_pos (heap : Nat → Option Block) (n b i : Nat) (blk : Block) (hi : i < n) (hb : heap i = some blk)
    (hc : 0 < cntCells blk.pay.cells b) : 0 < stored heap n b := by
  induction n with
  | zero => omega
  | succ n ih =>
    simp only [stored]
    by_cases h : i < n
    · have := ih h; omega
    · have e : i = n := by omega
      subst e; simp [hb, cntBlk]; omega

theorem cntCells_pos_of_mem (cs : List Cell) (b : Nat) (h : Cell.ptr b ∈ cs) : 0 < cntCells cs b := by
  unfold cntCells
  apply List.countP_pos_iff.2
  exact ⟨_, h, by simp [isPtrTo]⟩

theorem mem_of_cntCells_pos (cs : List Cell) (b : Nat) (h : 0 < cntCells cs b) : Cell.ptr b ∈ cs := by
  unfold cntCells at h
  obtain ⟨c, hc, hp⟩ := List.countP_pos_iff.1 h
  have := (isPtrTo_iff _ _).1 hp
  subst this; exact hc

/-! ### ghost values -/

def absCell (g : Nat → Val) : Cell → Val
  | .null => .null
  | .inl x => x
  | .ptr b => g b

def absPay (g : Nat → Val) : Pay → Val
  | .str t => .str t
  | .list cs => .list (cs.map (absCell g))
  | .array cs => .array (cs.map (absCell g))
  | .map m => .map (m.map (fun p => (p.1, absCell g p.2)))

theorem absPay_boxed (g : Nat → Val) (p : Pay) : (absPay g p).isBoxed = true := by cases p <;> rfl
theorem absPay_type (g : Nat → Val) (p : Pay) : (absPay g p).type = p.type := by cases p <;> rfl

/-- ghost maps that agree on the targets of the cells give the same value -/
theorem absCell_congr (g g' : Nat → Val) (c : Cell) (h : ∀ b, c = .ptr b → g' b = g b) : absCell g' c = absCell g c := by
  cases c with
  | null => rfl
  | inl x => rfl
  | ptr b => exact h b rfl

theorem absPay_congr (g g' : Nat → Val) (p : Pay) (h : ∀ b, Cell.ptr b ∈ p.cells → g' b = g b) : absPay g' p = absPay g p := by
  cases p with
  | str t => rfl
  | list cs =>
    simp only [absPay]; congr 1
    apply List.map_congr_left
    intro c hc; exact absCell_congr g g' c (fun b e => h b (by subst e; exact hc))
  | array cs =>
    simp only [absPay]; congr 1
    apply List.map_congr_left
    intro c hc; exact absCell_congr g g' c (fun b e => h b (by subst e; exact hc))
  | map m =>
    simp only [absPay]; congr 1
    apply List.map_congr_left
    intro q hq
    have : absCell g' q.2 = absCell g q.2 :=
      absCell_congr g g' q.2 (fun b e => h b (by simp only [Pay.cells]; rw [← e]; exact List.mem_map.2 ⟨q, hq, rfl⟩))
    rw [this]

/-! ### the invariant -/

structure DInv (h : Heap) (vars : Nat → Cell) (e : Nat → Nat) (g : Nat → Val) : Prop where
  live : ∀ v b, vars v = .ptr b → ∃ blk, h.heap b = some blk
  slive : ∀ i blk b, h.heap i = some blk → Cell.ptr b ∈ blk.pay.cells → ∃ blk', h.heap b = some blk'
  cnt : ∀ b blk, h.heap b = some blk → blk.ref = handles vars b + stored h.heap h.next b + e b
  pos : ∀ b blk, h.heap b = some blk → 0 < blk.ref
  fresh : ∀ b, h.next ≤ b → h.heap b = none
  efresh : ∀ b, h.heap b = none → e b = 0
  inl : ∀ v x, vars v = .inl x → x.isBoxed = false
  sinl : ∀ i blk x, h.heap i = some blk → Cell.inl x ∈ blk.pay.cells → x.isBoxed = false
  out : ∀ v, nslots ≤ v → vars v = .null
  cons : ∀ b blk, h.heap b = some blk → g b = absPay g blk.pay

theorem DInv.congr {h : Heap} {vars : Nat → Cell} {e e' : Nat → Nat} {g : Nat → Val} (i : DInv h vars e g)
    (he : ∀ b, e b = e' b) : DInv h vars e' g := by
  have : e = e' := funext he
  subst this; exact i

theorem DInv.lt_next {h : Heap} {vars e g} (i : DInv h vars e g) (b : Nat) (blk : Block) (hb : h.heap b = some blk) :
    b < h.next := by
  by_cases hl : b < h.next
  · exact hl
  · have := i.fresh b (by omega); rw [hb] at this; cases this

/-- a cell that may be handed around: an inline value is a scalar, a pointer has a live target -/
def CellOk (h : Heap) (c : Cell) : Prop :=
  (∀ x, c = .inl x → x.isBoxed = false) ∧ (∀ b, c = .ptr b → ∃ blk, h.heap b = some blk)

def cellCnt (c : Cell) (b : Nat) : Nat := if isPtrTo c b then 1 else 0

theorem cellCnt_ptr (b x : Nat) : cellCnt (.ptr b) x = if b = x then 1 else 0 := by
  simp [cellCnt, isPtrTo]

theorem dinv_init : DInv dinit.h dinit.vars zeroE (fun _ => .null) := by
  constructor <;> intros <;> simp_all [dinit, zeroE]

/-! ### atom: count a pending reference -/

theorem stored_same_cells (heap : Nat → Option Block) (i : Nat) (blk blk' : Block) (n b : Nat)
    (hb : heap i = some blk) (hp : blk'.pay = blk.pay) :
    stored (upd heap i (some blk')) n b = stored heap n b := by
  by_cases hi : i < n
  · have := stored_upd heap i (some blk') n b hi
    simp only [hb, cntBlk, hp] at this; omega
  · exact stored_upd_ge heap i _ n b (by omega)

theorem dinv_incr {h : Heap} {vars e g} (i : DInv h vars e g) (b : Nat) (blk : Block) (hb : h.heap b = some blk) :
    DInv (incr h b) vars (bump e b) g := by
  have hs : incr h b = { h with heap := upd h.heap b (some { blk with ref := blk.ref + 1 }) } := by simp [incr, hb]
  rw [hs]
  have hst : ∀ x, stored (upd h.heap b (some { blk with ref := blk.ref + 1 })) h.next x = stored h.heap h.next x :=
    fun x => stored_same_cells h.heap b blk _ h.next x hb rfl
  constructor
  · intro v c hv
    by_cases ec : c = b
    · subst ec; exact ⟨{ blk with ref := blk.ref + 1 }, by simp⟩
    · obtain ⟨k, hk⟩ := i.live v c hv
      exact ⟨k, by simp [upd_other _ _ _ _ ec, hk]⟩
  · intro j k c hj hc
    have hc' : ∃ k0, h.heap j = some k0 ∧ Cell.ptr c ∈ k0.pay.cells := by
      by_cases ej : j = b
      · subst ej; simp at hj; subst hj; exact ⟨blk, hb, hc⟩
      · simp [upd_other _ _ _ _ ej] at hj; exact ⟨k, hj, hc⟩
    obtain ⟨k0, hk0, hm⟩ := hc'
    obtain ⟨k1, hk1⟩ := i.slive j k0 c hk0 hm
    by_cases ec : c = b
    · subst ec; exact ⟨{ blk with ref := blk.ref + 1 }, by simp⟩
    · exact ⟨k1, by simp [upd_other _ _ _ _ ec, hk1]⟩
  · intro c k hk
    simp only [hst]
    by_cases ec : c = b
    · subst ec; simp at hk; subst hk
      have := i.cnt c blk hb
      simp [bump]; omega
    · simp [upd_other _ _ _ _ ec] at hk
      have := i.cnt c k hk
      simp [bump, ec]; omega
  · intro c k hk
    by_cases ec : c = b
    · subst ec; simp at hk; subst hk; simp
    · simp [upd_other _ _ _ _ ec] at hk; exact i.pos c k hk
  · intro c hc
    by_cases ec : c = b
    · subst ec; have := i.fresh c hc; rw [hb] at this; cases this
    · simp [upd_other _ _ _ _ ec]; exact i.fresh c hc
  · intro c hc
    by_cases ec : c = b
    · subst ec; simp at hc
    · simp [upd_other _ _ _ _ ec] at hc; simp [bump, ec]; exact i.efresh c hc
  · exact i.inl
  · intro j k x hj hx
    by_cases ej : j = b
    · subst ej; simp at hj; subst hj; exact i.sinl j blk x hb hx
    · simp [upd_other _ _ _ _ ej] at hj; exact i.sinl j k x hj hx
  · exact i.out
  · intro c k hk
    by_cases ec : c = b
    · subst ec; simp at hk; subst hk; exact i.cons c blk hb
    · simp [upd_other _ _ _ _ ec] at hk; exact i.cons c k hk

theorem incr_next (h : Heap) (b : Nat) : (incr h b).next = h.next := by
  unfold incr; split <;> rfl

theorem incr_live (h : Heap) (b x : Nat) : ((incr h b).heap x).isSome = (h.heap x).isSome := by
  unfold incr
  cases hb : h.heap b with
  | none => rfl
  | some blk =>
    simp only
    by_cases ex : x = b
    · subst ex; simp [hb]
    · simp [upd_other _ _ _ _ ex]

end Nstd.Variant.Deep
