import Nstd.Variant.Val
/-
  Rounding of a positive rational `num / den` to binary64 with a CHECKED grid exponent — the same algorithm as the codec
  area's `roundToDbl` (lean/Nstd/Codec/Model.lean: `qNum qDen qOf expOk findExp expHint pickExp`, copied here so that the
  Variant driver stays free of the codec model; `LemmasAtofFrac.lean` proves the copies equal to the originals and carries
  `roundToDbl_correctly_rounded` over).  Used by `dDecimal` (Ieee.lean) for decimal texts with a fraction or a negative exponent.
-/
namespace Nstd.Variant.Rat

/-- `num / den` scaled by `2^-e`: numerator and denominator -/
def qNum (num : Nat) (e : Int) : Nat := if 0 ≤ e then num else num * 2 ^ (-e).toNat
def qDen (den : Nat) (e : Int) : Nat := if 0 ≤ e then den * 2 ^ e.toNat else den
/-- `floor (num / den / 2^e)` -/
def qOf (num den : Nat) (e : Int) : Nat := qNum num e / qDen den e

def expOk (num den : Nat) (e : Int) : Bool :=
  decide (-1074 ≤ e) && decide (qOf num den e < 9007199254740992) &&
    (decide (e = -1074) || decide (9007199254740992 ≤ qOf num den (e - 1)))

def findExp (num den : Nat) : Nat → Int → Int
  | 0, e => e
  | f + 1, e => if qOf num den e < 9007199254740992 then e else findExp num den f (e + 1)

def expHint (num den : Nat) : Int :=
  let e0 : Int := (Nat.log2 num : Int) - (Nat.log2 den : Int) - 53
  let e1 : Int := if qOf num den e0 < 9007199254740992 then e0 else e0 + 1
  if e1 < -1074 then -1074 else e1

def pickExp (num den : Nat) : Int :=
  if expOk num den (expHint num den) then expHint num den else findExp num den 2048 (-1074)

/-- `q / d` rounded to the nearest integer, ties to even -/
def roundHE (q d : Nat) : Nat :=
  let n := q / d
  let r := q % d
  if 2 * r < d then n else if 2 * r > d then n + 1 else if n % 2 = 0 then n else n + 1

/-- significand `m ≤ 2^53 - 1` at grid exponent `e` as binary64 bits (no sign): subnormal when `m < 2^52` -/
def encFin (m : Nat) (e : Int) : Nat :=
  if m < 4503599627370496 then m else (e + 1075).toNat * 4503599627370496 + (m - 4503599627370496)

def infBits : Nat := 2047 * 4503599627370496

/-- nearest binary64 (ties to even) of `num / den` (`num, den > 0`), as bits without sign -/
def dOfRatQ (num den : Nat) : Nat :=
  let e := pickExp num den
  if 971 < e then infBits
  else
    let m := roundHE (qNum num e) (qDen den e)
    if m = 9007199254740992 then (if 971 < e + 1 then infBits else encFin 4503599627370496 (e + 1))
    else encFin m e

end Nstd.Variant.Rat
