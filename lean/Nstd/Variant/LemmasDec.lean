import Nstd.Variant.LemmasSpec
/-
  Decimal numerals: `printf("%d/%u/%lld/%llu")` (`intDec`) read back by the libc parsers
  (`strtol`, `strtoul`) and by `String::toBool`.
-/
namespace Nstd.Variant

def AllDigits (s : Str) : Prop := ∀ c ∈ s, isDigit c = true

theorem isDigit_iff (c : Nat) : isDigit c = true ↔ 48 ≤ c ∧ c ≤ 57 := by simp [isDigit]

theorem digitsVal_append (xs : Str) (d : Nat) (a : Nat) (h : AllDigits xs) (hd : isDigit d = true) :
    digitsVal (xs ++ [d]) a = digitsVal xs a * 10 + (d - 48) := by
  induction xs generalizing a with
  | nil => simp [digitsVal, hd]
  | cons c t ih =>
    have hc : isDigit c = true := h c (by simp)
    have ht : AllDigits t := fun x hx => h x (by simp [hx])
    simp only [List.cons_append, digitsVal, hc, if_true]
    exact ih _ ht

theorem natDigitsAux_acc (f n : Nat) (acc : Str) : natDigitsAux f n acc = natDigitsAux f n [] ++ acc := by
  induction f generalizing n acc with
  | zero => simp [natDigitsAux]
  | succ f ih =>
    simp only [natDigitsAux]
    split
    · simp
    · rw [ih (n / 10) ((48 + n % 10) :: acc), ih (n / 10) [48 + n % 10]]; simp

theorem natDigitsAux_digits (f n : Nat) : AllDigits (natDigitsAux f n []) := by
  induction f generalizing n with
  | zero => intro c hc; simp [natDigitsAux] at hc
  | succ f ih =>
    simp only [natDigitsAux]
    split
    · intro c hc; simp at hc; subst hc; rw [isDigit_iff]; omega
    · rw [natDigitsAux_acc]
      intro c hc
      rcases List.mem_append.1 hc with h | h
      · exact ih _ c h
      · simp at h; subst h; rw [isDigit_iff]; omega

theorem natDigitsAux_val (f n : Nat) (hf : n < f) : digitsVal (natDigitsAux f n []) 0 = n := by
  induction f generalizing n with
  | zero => omega
  | succ f ih =>
    simp only [natDigitsAux]
    split
    · rename_i h; simp [digitsVal, isDigit]; omega
    · rename_i h
      rw [natDigitsAux_acc, digitsVal_append _ _ _ (natDigitsAux_digits f _) (by rw [isDigit_iff]; omega)]
      rw [ih (n / 10) (by omega)]
      omega

theorem natDigits_val (n : Nat) : digitsVal (natDigits n) 0 = n := natDigitsAux_val (n + 1) n (by omega)
theorem natDigits_digits (n : Nat) : AllDigits (natDigits n) := natDigitsAux_digits _ _

/-- the numeral is not empty and has no leading zero except for "0" itself -/
theorem natDigitsAux_head (f n : Nat) (hf : n < f) :
    ∃ c t, natDigitsAux f n [] = c :: t ∧ 48 ≤ c ∧ c ≤ 57 ∧ (c = 48 → n = 0 ∧ t = []) := by
  induction f generalizing n with
  | zero => omega
  | succ f ih =>
    simp only [natDigitsAux]
    split
    · rename_i h; exact ⟨48 + n, [], rfl, by omega, by omega, fun e => ⟨by omega, rfl⟩⟩
    · rename_i h
      rw [natDigitsAux_acc]
      obtain ⟨c, t, e, h1, h2, h3⟩ := ih (n / 10) (by omega)
      refine ⟨c, t ++ [48 + n % 10], by simp [e], h1, h2, ?_⟩
      intro ec
      have := (h3 ec).1
      omega

theorem natDigits_head (n : Nat) : ∃ c t, natDigits n = c :: t ∧ 48 ≤ c ∧ c ≤ 57 ∧ (c = 48 → n = 0 ∧ t = []) :=
  natDigitsAux_head (n + 1) n (by omega)

theorem cstr_of_nonzero (s : Str) (h : ∀ c ∈ s, c ≠ 0) : cstr s = s := by
  unfold cstr
  induction s with
  | nil => rfl
  | cons c t ih =>
    have hc : c ≠ 0 := h c (by simp)
    simp only [List.takeWhile, ne_eq, hc, not_false_eq_true, decide_true]
    rw [ih (fun x hx => h x (by simp [hx]))]

theorem parseDec_nat (n : Nat) : parseDec (natDigits n) = (false, n) := by
  obtain ⟨c, t, e, h1, h2, _⟩ := natDigits_head n
  have hnz : ∀ x ∈ natDigits n, x ≠ 0 := by
    intro x hx; have := (isDigit_iff x).1 (natDigits_digits n x hx); omega
  unfold parseDec
  rw [cstr_of_nonzero _ hnz, e]
  have hsp : isSpace c = false := by simp [isSpace]; omega
  simp only [List.dropWhile, hsp]
  have e1 : (c == 45) = false := by simp; omega
  have e2 : (c == 43) = false := by simp; omega
  simp only [e1, e2, Bool.false_eq_true, if_false]
  rw [← e, natDigits_val]

theorem parseDec_neg (n : Nat) : parseDec (45 :: natDigits n) = (true, n) := by
  have hnz : ∀ x ∈ (45 :: natDigits n), x ≠ 0 := by
    intro x hx
    simp at hx
    rcases hx with rfl | hx
    · omega
    · have := (isDigit_iff x).1 (natDigits_digits n x hx); omega
  unfold parseDec
  rw [cstr_of_nonzero _ hnz]
  have hsp : isSpace 45 = false := by decide
  simp only [List.dropWhile, hsp]
  simp [natDigits_val]

theorem strtol_intDec (i : Int) (h : inS 64 i) : strtol (intDec i) = i := by
  simp only [inS, pow63] at h
  have e63 : (2 : Nat) ^ 63 = 9223372036854775808 := by decide
  unfold intDec strtol
  by_cases hn : i < 0
  · simp only [hn, if_true, parseDec_neg]
    split <;> omega
  · simp only [hn, if_false, parseDec_nat, Bool.false_eq_true]
    split <;> omega

theorem strtoul_intDec (i : Int) (h : inU 64 i) : strtoul (intDec i) = i := by
  simp only [inU, pow64] at h
  have e64 : (2 : Nat) ^ 64 = 18446744073709551616 := by decide
  unfold intDec strtoul
  have hn : ¬ i < 0 := by omega
  simp only [hn, if_false, parseDec_nat, Bool.false_eq_true]
  split <;> omega

/-- `String::toBool` of a decimal numeral is the non-zero test -/
theorem strToBool_intDec (i : Int) : strToBool (intDec i) = (i != 0) := by
  unfold intDec
  by_cases hn : i < 0
  · simp only [hn, if_true]
    have hnz : ∀ x ∈ (45 :: natDigits i.natAbs), x ≠ 0 := by
      intro x hx
      simp at hx
      rcases hx with rfl | hx
      · omega
      · have := (isDigit_iff x).1 (natDigits_digits _ x hx); omega
    have : (i != 0) = true := by simp; omega
    rw [this]
    unfold strToBool
    rw [cstr_of_nonzero _ hnz]
    simp [skipZeros, lower]
  · simp only [hn, if_false]
    obtain ⟨c, t, e, h1, h2, h3⟩ := natDigits_head i.natAbs
    have hnz : ∀ x ∈ natDigits i.natAbs, x ≠ 0 := by
      intro x hx; have := (isDigit_iff x).1 (natDigits_digits _ x hx); omega
    unfold strToBool
    rw [cstr_of_nonzero _ hnz, e]
    by_cases hz : c = 48
    · obtain ⟨z, tt⟩ := h3 hz
      subst hz tt
      have : i = 0 := by omega
      subst this; simp
    · have hi : i ≠ 0 := by
        intro h0; subst h0
        have : natDigits (0 : Int).natAbs = [48] := by decide
        rw [this] at e; injection e with e1 _; omega
      have hl : lower c = c := by simp [lower]; omega
      have hne : ¬ (c = 102) := by omega
      simp [skipZeros, hz, hl, hne]
      split
      · rename_i heq; injection heq with h46 _; omega
      · simp [hi]

end Nstd.Variant
