import Nstd.Variant.DeepTop
import Nstd.Variant.DeepTemp
import Nstd.Variant.LemmasRefine
/-
  The operations of the deep model on variables against the specification store
  (`dstep` vs `specStep`), for the operations that act on a variable itself.
-/
namespace Nstd.Variant.Deep
open Nstd.Variant

/-! ### destructor of a variable / operator= from a cell -/

/-- `~Variant()` of variable `v`: its handle is released, the slot is raw storage -/
theorem release_var {h : Heap} {vars g} (i : DInv h vars zeroE g) (v : Nat) (hv : v < nslots) (f : Nat)
    (hf : liveCount h < f) :
    ∃ h', release f h (vars v) = some h' ∧ DInv h' (upd vars v .null) zeroE g ∧ Shrinks h h' := by
  have hd := held_take i v hv
  obtain ⟨h', r, i', s⟩ := dinv_release f h _ (vars v) hd.inv hd.pend hf
  exact ⟨h', r, i'.congr (by intro x; simp [zeroE]), s⟩

theorem upd_upd_same {α} (f : Nat → α) (v : Nat) (a b : α) : upd (upd f v a) v b = upd f v b := by
  funext w; by_cases ew : w = v
  · subst ew; simp
  · simp [upd_other _ _ _ _ ew]

/-- `operator=(const Variant&)` of variable `v` from the Variant in cell `c` (a variable's cell or an
    element cell anywhere in the heap, possibly inside `v`'s own payload) -/
theorem assignFrom_step {s : DState} {g} (i : DInv s.h s.vars zeroE g) (v : Nat) (hv : v < nslots) (c : Cell)
    (hc : CellOk s.h c) (f : Nat) (hf : liveCount s.h < f) :
    ∃ s', assignFrom f s v c = some s' ∧ DInv s'.h s'.vars zeroE g ∧
      s'.vars = upd s.vars v (copyCell s.h c).2 ∧ absCell g (copyCell s.h c).2 = absCell g c ∧
      Shrinks (copyCell s.h c).1 s'.h ∧ SameLive s.h (copyCell s.h c).1 := by
  obtain ⟨i1, a1, c1, s1, _, _, o1⟩ := dinv_copyCell i c hc
  have i2 := dinv_take i1 v hv
  obtain ⟨h2, r2, i3, s2⟩ := dinv_release f _ _ (s.vars v) i2
    (by intro x; show cellCnt (s.vars v) x ≤ zeroE x + cellCnt _ x + cellCnt (s.vars v) x; omega)
    (by rw [liveCount_sameLive s1]; exact hf)
  have i4 := dinv_put i3 v hv (by intro b; simp) (copyCell s.h c).2
    (by intro x; show cellCnt _ x ≤ zeroE x + cellCnt _ x + cellCnt (s.vars v) x - cellCnt (s.vars v) x; omega) o1
  rw [upd_upd_same] at i4
  refine ⟨{ h := h2, vars := upd s.vars v (copyCell s.h c).2 }, ?_, i4.congr ?_, rfl, a1, s2, s1⟩
  · simp only [assignFrom, r2, Option.map]
  · intro x; show zeroE x + cellCnt _ x + cellCnt (s.vars v) x - cellCnt (s.vars v) x - cellCnt _ x = zeroE x
    simp only [zeroE]; omega

/-! ### const walk -/

theorem getCell_abs (g : Nat → Val) (p : Pay) (st : Step) :
    (match p.getCell st with
     | some ci => getPath [st] (absPay g p) = some (absCell g ci)
     | none => getPath [st] (absPay g p) = none) := by
  cases st with
  | li i =>
    cases p <;> simp [Pay.getCell, getPath, absPay, Val.asList]
    rename_i cs
    cases hc : cs[i]? <;> simp [hc]
  | ar i =>
    cases p <;> simp [Pay.getCell, getPath, absPay, Val.asArray]
    rename_i cs
    cases hc : cs[i]? <;> simp [hc]
  | mk k =>
    cases p <;> simp [Pay.getCell, getPath, absPay, Val.asMap, mapFind]
    rename_i m
    induction m with
    | nil => simp [mapGet, mapFind]
    | cons q t ih =>
      obtain ⟨k', x⟩ := q
      simp only [mapGet, List.map_cons, mapFind]
      by_cases hk : (k' == k) = true
      · simp [hk]
      · have : (k' == k) = false := by simpa using hk
        simp only [this, Bool.false_eq_true, if_false]; exact ih

theorem getPath_cons (st : Step) (p : List Step) (x : Val) :
    getPath (st :: p) x = (match getPath [st] x with | some y => getPath p y | none => none) := by
  cases st <;> simp only [getPath] <;> split <;> simp_all [getPath]

/-- the cell found by the const walk is a live element cell whose value is the one the specification finds -/
theorem getCellPath_abs {h : Heap} {vars e g} (i : DInv h vars e g) : ∀ (p : List Step) (c : Cell), CellOk h c →
    (match getCellPath h c p with
     | some ci => CellOk h ci ∧ getPath p (absCell g c) = some (absCell g ci)
     | none => getPath p (absCell g c) = none) := by
  intro p
  induction p with
  | nil => intro c hc; exact ⟨hc, rfl⟩
  | cons st p ih =>
    intro c hc
    rw [getPath_cons]
    cases c with
    | null => cases st <;> simp [getCellPath, absCell, getPath, Val.asList, Val.asArray, Val.asMap, mapFind]
    | inl y =>
      have hnb := hc.1 y rfl
      cases st <;> cases y <;> simp [Val.isBoxed] at hnb <;>
        simp [getCellPath, absCell, getPath, Val.asList, Val.asArray, Val.asMap, mapFind]
    | ptr b =>
      obtain ⟨blk, hb⟩ := hc.2 b rfl
      simp only [getCellPath, hb, absCell]
      rw [i.cons b blk hb]
      have hg := getCell_abs g blk.pay st
      cases hci : blk.pay.getCell st with
      | none => simp only [hci] at hg ⊢; rw [hg]
      | some ci =>
        simp only [hci] at hg ⊢
        rw [hg]
        have hmem : ci ∈ blk.pay.cells := by
          cases st <;> cases hp : blk.pay <;> simp [hp, Pay.getCell] at hci
          · exact List.mem_of_getElem? hci
          · exact List.mem_of_getElem? hci
          · rename_i k m
            simp only [Pay.cells]
            clear hg hp
            induction m with
            | nil => simp [mapGet] at hci
            | cons q t iht =>
              obtain ⟨k', x⟩ := q
              simp only [mapGet] at hci
              by_cases hk : (k' == k) = true
              · simp [hk] at hci; subst hci; simp
              · have : (k' == k) = false := by simpa using hk
                simp only [this, Bool.false_eq_true, if_false] at hci
                simp only [List.map_cons, List.mem_cons]; exact Or.inr (iht hci)
        exact ih ci (stored_cells_ok i b blk hb ci hmem)

end Nstd.Variant.Deep

namespace Nstd.Variant.Deep
open Nstd.Variant

/-! ### the leaf operations covered by the deep theorem -/

def SrcLit : Src → Prop
  | .var _ => True
  | .lit x => LitOk x

def LeafSupS : LeafS → Prop
  | .assign s => SrcLit s
  | .lapp s => SrcLit s
  | .lpre s => SrcLit s
  | .aapp s => SrcLit s
  | .set (.lit x) => LitOk x
  | .set (.list l) => ∀ s ∈ l, SrcLit s
  | .set (.array l) => ∀ s ∈ l, SrcLit s
  | .set (.map m) => ∀ q ∈ m, SrcLit q.2
  | .clear => True
  | .touch _ => True
  | .lrem _ => True
  | .arem _ => True
  | .mput _ s => SrcLit s
  | .mrem _ => True
  | .sapp _ => True

theorem srcOk_of (rd vars : Nat → Cell) (s : Src) (hl : SrcLit s) (hv : ∀ w ∈ s.vars, rd w = vars w ∧ w < nslots) :
    SrcOk rd vars s := by
  cases s with
  | var w => exact hv w (by simp [Src.vars])
  | lit x => exact hl

theorem leaf_step (ds : DblSem) (rd : Nat → Cell) {h vars e g c} (hd : Held h vars e g c) (lf : LeafS)
    (hsup : LeafSupS lf) (hsrc : ∀ w ∈ lf.vars, rd w = vars w ∧ w < nslots) (y : Val)
    (hy : (lf.eval (fun w => absCell g (vars w))).apply ds (absCell g c) = some y) (f : Nat)
    (hf : liveCount h + leafSize lf + 1 < f) :
    ∃ h' c' g', leafOp f ds rd h c lf = some (h', c') ∧ CellStep h vars e g c y (leafSize lf + 1) h' c' g' := by
  cases lf with
  | assign src =>
    simp only [leafSize] at hf ⊢
    obtain ⟨h', c', g', r, st⟩ := leaf_assign rd hd src (srcOk_of rd vars src hsup hsrc) f (by omega)
    simp only [LeafS.eval, Leaf.apply, Option.some.injEq] at hy
    subst hy
    exact ⟨h', c', g', r, st.mono 2 (by omega)⟩
  | set e =>
    cases e with
    | lit x =>
      simp only [leafSize] at hf ⊢
      have hl : LitOk x := hsup
      simp only [LeafS.eval, ValS.eval, Leaf.apply, Option.some.injEq] at hy
      subst hy
      have scalar : x.isBoxed = false → ∃ h' c' g', leafOp f ds rd h c (.set (.lit x)) = some (h', c') ∧
          CellStep h vars e g c x 2 h' c' g' := by
        intro hx
        obtain ⟨h', r, st⟩ := leaf_setScalar hd x hx f (by omega)
        refine ⟨h', .inl x, g, ?_, st.mono 2 (by omega)⟩
        simp only [leafOp, hx, Bool.false_eq_true, if_false]; exact r
      cases x with
      | str t =>
        obtain ⟨h', c', g', r, st⟩ := leaf_setStr hd t f hf
        exact ⟨h', c', g', by simp only [leafOp, Val.isBoxed, if_true]; exact r, st⟩
      | map m => exact absurd hl (by simp [LitOk])
      | list l => exact absurd hl (by simp [LitOk])
      | array l => exact absurd hl (by simp [LitOk])
      | null => exact scalar rfl
      | bool b => exact scalar rfl
      | dbl d => exact scalar rfl
      | int n => exact scalar rfl
      | uint n => exact scalar rfl
      | int64 n => exact scalar rfl
      | uint64 n => exact scalar rfl
    | list l =>
      simp only [leafSize] at hf ⊢
      have hsl : ∀ s ∈ l, SrcLit s := hsup
      have hok : ∀ s ∈ l, SrcOk rd vars s := fun s hs =>
        srcOk_of rd vars s (hsl s hs) (fun w hw => hsrc w (by simp only [LeafS.vars, ValS.vars, List.mem_flatMap]; exact ⟨s, hs, hw⟩))
      obtain ⟨h', c', g', r, st⟩ := leaf_setSeq rd hd false l hok f hf
      simp only [LeafS.eval, ValS.eval, Leaf.apply, Option.some.injEq] at hy
      subst hy
      refine ⟨h', c', g', ?_, ?_⟩
      · simp only [leafOp, tmpPay]; exact r
      · exact st
    | array l =>
      simp only [leafSize] at hf ⊢
      have hsl : ∀ s ∈ l, SrcLit s := hsup
      have hok : ∀ s ∈ l, SrcOk rd vars s := fun s hs =>
        srcOk_of rd vars s (hsl s hs) (fun w hw => hsrc w (by simp only [LeafS.vars, ValS.vars, List.mem_flatMap]; exact ⟨s, hs, hw⟩))
      obtain ⟨h', c', g', r, st⟩ := leaf_setSeq rd hd true l hok f hf
      simp only [LeafS.eval, ValS.eval, Leaf.apply, Option.some.injEq] at hy
      subst hy
      refine ⟨h', c', g', ?_, ?_⟩
      · simp only [leafOp, tmpPay]; exact r
      · exact st
    | map m =>
      simp only [leafSize] at hf ⊢
      have hsl : ∀ q ∈ m, SrcLit q.2 := hsup
      have hok : ∀ q ∈ m, SrcOk rd vars q.2 := fun q hq =>
        srcOk_of rd vars q.2 (hsl q hq) (fun w hw => hsrc w (by
          simp only [LeafS.vars, ValS.vars, List.mem_flatMap]; exact ⟨q, hq, hw⟩))
      obtain ⟨h', c', g', r, st⟩ := leaf_setMap ds rd hd m hok f hf
      simp only [LeafS.eval, ValS.eval, Leaf.apply, Option.some.injEq] at hy
      subst hy
      exact ⟨h', c', g', r, st⟩
  | clear =>
    simp only [leafSize] at hf ⊢
    simp only [LeafS.eval, Leaf.apply, Option.some.injEq] at hy
    subst hy
    obtain ⟨h', r, st⟩ := leaf_clear hd f (by omega)
    exact ⟨h', .null, g, by simp only [leafOp, r, Option.map], st.mono 2 (by omega)⟩
  | touch k =>
    simp only [leafSize] at hf ⊢
    simp only [LeafS.eval, Leaf.apply, Leaf.kind, Leaf.inPlace] at hy
    split at hy
    · rename_i hk
      injection hy with hy; subst hy
      obtain ⟨h', c', g', r, st⟩ := leaf_touch ds hd k (by unfold isKind; omega) f (by omega)
      exact ⟨h', c', g', r, st.mono 2 (by omega)⟩
    · cases hy
  | lapp src =>
    simp only [leafSize] at hf ⊢
    obtain ⟨h', c', g', r, st⟩ := leaf_push ds rd hd false .back src (srcOk_of rd vars src hsup hsrc) f (by omega)
    simp only [LeafS.eval, Leaf.apply, Leaf.kind, Leaf.inPlace, coerce] at hy
    simp at hy; subst hy
    refine ⟨h', c', g', ?_, st⟩
    rw [← r]; simp only [leafOp, seqKind, Bool.false_eq_true, if_false]
    congr 1; funext s1 p; cases p <;> rfl
  | lpre src =>
    simp only [leafSize] at hf ⊢
    obtain ⟨h', c', g', r, st⟩ := leaf_push ds rd hd false .front src (srcOk_of rd vars src hsup hsrc) f (by omega)
    simp only [LeafS.eval, Leaf.apply, Leaf.kind, Leaf.inPlace, coerce] at hy
    simp at hy; subst hy
    refine ⟨h', c', g', ?_, st⟩
    rw [← r]; simp only [leafOp, seqKind, Bool.false_eq_true, if_false]
    congr 1; funext s1 p; cases p <;> rfl
  | aapp src =>
    simp only [leafSize] at hf ⊢
    obtain ⟨h', c', g', r, st⟩ := leaf_push ds rd hd true .back src (srcOk_of rd vars src hsup hsrc) f (by omega)
    simp only [LeafS.eval, Leaf.apply, Leaf.kind, Leaf.inPlace, coerce] at hy
    simp at hy; subst hy
    refine ⟨h', c', g', ?_, st⟩
    rw [← r]; simp only [leafOp, seqKind, if_true]
    congr 1; funext s1 p; cases p <;> rfl
  | lrem i =>
    simp only [leafSize] at hf ⊢
    simp only [LeafS.eval, Leaf.apply, Leaf.kind, Leaf.inPlace, coerce] at hy
    simp at hy
    obtain ⟨hi, hy⟩ := hy; subst hy
    obtain ⟨h', c', g', r, st⟩ := leaf_remove ds hd false i (by simpa [seqOf] using hi) f hf
    refine ⟨h', c', g', ?_, by simpa [seqVal, seqOf] using st⟩
    rw [← r]; simp only [leafOp, seqKind, Bool.false_eq_true, if_false]
    congr 1; funext s1 p; cases p <;> rfl
  | arem i =>
    simp only [leafSize] at hf ⊢
    simp only [LeafS.eval, Leaf.apply, Leaf.kind, Leaf.inPlace, coerce] at hy
    simp at hy
    obtain ⟨hi, hy⟩ := hy; subst hy
    obtain ⟨h', c', g', r, st⟩ := leaf_remove ds hd true i (by simpa [seqOf] using hi) f hf
    refine ⟨h', c', g', ?_, by simpa [seqVal, seqOf] using st⟩
    rw [← r]; simp only [leafOp, seqKind, if_true]
    congr 1; funext s1 p; cases p <;> rfl
  | mput k src =>
    simp only [leafSize] at hf ⊢
    obtain ⟨h', c', g', r, st⟩ := leaf_mput ds rd hd k src (srcOk_of rd vars src hsup hsrc) f hf
    simp only [LeafS.eval, Leaf.apply, Leaf.kind, Leaf.inPlace, coerce] at hy
    simp at hy; subst hy
    exact ⟨h', c', g', by simp only [leafOp]; exact r, st⟩
  | mrem k =>
    simp only [leafSize] at hf ⊢
    obtain ⟨h', c', g', r, st⟩ := leaf_mrem ds hd k f hf
    simp only [LeafS.eval, Leaf.apply, Leaf.kind, Leaf.inPlace, coerce] at hy
    simp at hy; subst hy
    exact ⟨h', c', g', by simp only [leafOp]; exact r, st⟩
  | sapp t =>
    simp only [leafSize] at hf ⊢
    obtain ⟨h', c', g', r, st⟩ := leaf_sapp ds hd t f hf
    simp only [LeafS.eval, Leaf.apply, Leaf.kind, Leaf.inPlace, coerce] at hy
    simp at hy; subst hy
    exact ⟨h', c', g', by simp only [leafOp]; exact r, st⟩

end Nstd.Variant.Deep
