import Nstd.Variant.Model
namespace Nstd.Variant
theorem placeholder : (init.read 0).type = 0 := by rfl
end Nstd.Variant
