import Nstd.Variant.LemmasSpec
import Nstd.Variant.LemmasDec
import Nstd.Variant.LemmasParse
import Nstd.Variant.Ieee
import Nstd.Variant.LemmasIeee
import Nstd.Variant.LemmasAtof
import Nstd.Variant.DeepRun
import Nstd.Variant.DeepFuel
import Nstd.Variant.DeepSelf
/-
  Property C07 — Variant keeps the last assigned value with independent lazy copies.

  HEADLINE: `deep_refines` / `deep_driver_refines` (section "deep model" below) — the heap model the
  driver runs (`Deep.lean`: element Variants are cells, nested lazy sharing, destructor cascade) refines
  the store of values for all operations.  The theorems of the first sections are about the
  *variable-level* model `Nstd.Variant.step` (Model.lean): variables are `data` pointers to the shared
  null descriptor, an inline scalar descriptor or a reference-counted heap block; copies share blocks;
  `clear`, `operator=`, the typed `operator=`, the mutable accessors and `swap` follow the code (clone
  iff the type differs or `ref > 1`, otherwise in-place write).  Below the root that model applies the
  specification's own `updPath` / `Leaf.apply` / `coerce` to the payload, so the content of `refines`
  is the share-or-clone decision at the variables; nested sharing is `deep_refines`.
  Specification: `Nstd.Variant.specStep` (Spec.lean): a store of values.

  All theorems hold for every semantics `ds : DblSem` of the double operations (doubles are
  opaque: every statement about a double alternative is definitional — it says which `DblSem`
  function is called, not what IEEE arithmetic yields; that part is covered by the correspondence
  run against Python floats only), for every history `ops : List Op` (any length, any nesting depth
  of the values and of the access paths).

  Refused lines: `stepD`/`specStepD`/`drun`/`ddrive` skip a line that `step`/`specStep` refuse
  (`bad-op` on both sides of the correspondence; both sides refuse the same lines, `refuses_same`).
  The precondition `mutOk` — a Variant reached through a mutable accessor of `v` is not given `v`
  itself as source (a typed assignment of a temporary built from `v` is fine at any path) — makes the self-append scenario (`v.toList().append(v)`) such a refused line:
  "for all histories" includes it only as a no-op on both sides, whereas the real code builds a
  cycle there (known finding KF-C07-self-append, probed on every run).
-/
namespace Nstd.Variant

/-! ## refinement: the variables always hold the values of the plain store -/

/-- For all histories: every variable of the variable-level copy-on-write model reads exactly the value
    the store of values holds (all assignment / copy / swap / typed assignment / mutable access
    histories).  Content: the share / clone / in-place decisions at the variables; below the root the
    model uses the specification's own nested update (see `deep_refines` for nested sharing).  Lines the
    model refuses — in particular self-append, `mutOk` — are skipped on both sides (KF-C07-self-append). -/
theorem refines (ds : DblSem) (ops : List Op) (v : Nat) (hv : v < nvars) :
    (run ds init ops).read v = specRun ds Store.init ops v :=
  (run_refines ds ops good_init rel_init).2 v hv

/-- the representation invariant (reference count = number of handles, no dangling pointer,
    no block of a wrong kind, `tmp` of swap destroyed) holds in every reachable state -/
theorem invariant (ds : DblSem) (ops : List Op) : Good (run ds init ops) :=
  (run_refines ds ops good_init rel_init).1

/-- the model refuses a line exactly when the specification does -/
theorem refuses_same (ds : DblSem) (ops : List Op) (op : Op) :
    (step ds (run ds init ops) op).isNone = (specStep ds (specRun ds Store.init ops) op).isNone := by
  obtain ⟨g, r⟩ := run_refines ds ops good_init rel_init
  have := step_refines ds g r op
  cases h1 : step ds (run ds init ops) op <;> cases h2 : specStep ds (specRun ds Store.init ops) op <;>
    simp [h1, h2, StepRel] at this ⊢

/-! ## independence -/

/-- In every reachable state, an operation (mutation through an accessor at any path,
    reassignment, typed assignment, clear, construction, swap) changes no variable other than
    its targets — whatever blocks the variables share at that moment. -/
theorem independent (ds : DblSem) (ops : List Op) (op : Op) (w : Nat) (hw : w < nvars) (hnt : w ∉ op.targets) :
    (stepD ds (run ds init ops) op).read w = (run ds init ops).read w := by
  obtain ⟨g, r⟩ := run_refines ds ops good_init rel_init
  obtain ⟨_, r'⟩ := stepD_refines ds g r op
  rw [r' w hw, r w hw]
  exact specStepD_frame ds _ op w hnt

/-- the same over a whole tail of operations none of which targets `w` -/
theorem independent_run (ds : DblSem) (pre post : List Op) (w : Nat) (hw : w < nvars)
    (hnt : ∀ op ∈ post, w ∉ op.targets) :
    (run ds init (pre ++ post)).read w = (run ds init pre).read w := by
  rw [refines ds _ w hw, refines ds _ w hw, specRun_append]
  exact specRun_frame ds post _ w hnt

/-- a copy is detached from its source: after `copy v w` (or `v = w`), any further history
    that does not target `w` leaves `w` with the value it had, and vice versa for `v` -/
theorem copy_independent (ds : DblSem) (pre post : List Op) (v w : Nat) (hw : w < nvars)
    (hnt : ∀ op ∈ post, w ∉ op.targets) (hvw : w ≠ v) :
    (run ds init (pre ++ [.copy v w] ++ post)).read w = (run ds init pre).read w := by
  rw [List.append_assoc]
  refine independent_run ds pre ([Op.copy v w] ++ post) w hw ?_
  intro op hop
  rcases List.mem_append.1 hop with h | h
  · simp at h; subst h; simpa [Op.targets] using hvw
  · exact hnt op h

/-! ## type and value are the last assigned ones -/

/-- after `v = x` (typed assignment of a literal of any alternative except null) and any
    history that does not target `v`, `v` holds `x` -/
theorem value_last_set (ds : DblSem) (pre post : List Op) (v : Nat) (x : Val) (hv : v < nvars) (hx : x.type ≠ 0)
    (hnt : ∀ op ∈ post, v ∉ op.targets) :
    (run ds init (pre ++ [.mut v [] (.set (.lit x))] ++ post)).read v = x := by
  rw [List.append_assoc, refines ds _ v hv, specRun_append, specRun_append,
    specRun_frame ds post _ v hnt]
  have hb : ((x.type == 0) = false) := by simpa using hx
  simp [specRun, specStepD, specStep, hv, allLt, LeafS.vars, ValS.vars, mutOk, LeafS.setsNull, ValS.eval, hb,
    updPath, LeafS.eval, Leaf.apply]

/-- after construction from a literal -/
theorem value_last_constructed (ds : DblSem) (pre post : List Op) (v : Nat) (x : Val) (hv : v < nvars)
    (hnt : ∀ op ∈ post, v ∉ op.targets) :
    (run ds init (pre ++ [.new v (.lit x)] ++ post)).read v = x := by
  rw [List.append_assoc, refines ds _ v hv, specRun_append, specRun_append,
    specRun_frame ds post _ v hnt]
  simp [specRun, specStepD, specStep, hv, allLt, ValS.vars, ValS.eval]

/-- after `v = w` (operator=(const Variant&)) `v` holds the value `w` had at that moment -/
theorem value_last_assigned (ds : DblSem) (pre post : List Op) (v w : Nat) (hv : v < nvars) (hw : w < nvars)
    (hnt : ∀ op ∈ post, v ∉ op.targets) :
    (run ds init (pre ++ [.mut v [] (.assign (.var w))] ++ post)).read v = (run ds init pre).read w := by
  rw [List.append_assoc, refines ds _ v hv, refines ds _ w hw, specRun_append, specRun_append,
    specRun_frame ds post _ v hnt]
  simp [specRun, specStepD, specStep, hv, hw, allLt, LeafS.vars, Src.vars, mutOk, LeafS.setsNull,
    updPath, LeafS.eval, Src.eval, Leaf.apply]

/-- …and in particular reports its type -/
theorem type_last_set (ds : DblSem) (pre post : List Op) (v : Nat) (x : Val) (hv : v < nvars) (hx : x.type ≠ 0)
    (hnt : ∀ op ∈ post, v ∉ op.targets) :
    (run ds init (pre ++ [.mut v [] (.set (.lit x))] ++ post)).typeOf v = x.type := by
  simp only [State.typeOf, value_last_set ds pre post v x hv hx hnt]

/-- the mutable accessor of type `k` on a Variant of another type replaces it by the copy of
    the const accessor's result (an empty container / the string conversion); on a Variant of
    type `k` it changes nothing -/
theorem touch_value (ds : DblSem) (pre : List Op) (v k : Nat) (hv : v < nvars) (hk : 7 ≤ k ∧ k ≤ 10) :
    (run ds init (pre ++ [.mut v [] (.touch k)])).read v = coerce ds k ((run ds init pre).read v) := by
  rw [refines ds _ v hv, refines ds _ v hv, specRun_append]
  simp [specRun, specStepD, specStep, hv, allLt, LeafS.vars, mutOk, LeafS.setsNull, updPath, LeafS.eval,
    Leaf.apply, Leaf.kind, Leaf.inPlace, hk]

/-! ## coercions (for all integers of each width)

`Val.num` is the integer a value stands for; `Val.inRange` says that a stored integer lies in
the range of its C type (what the constructors and the typed `operator=` guarantee).  Each
`to*_table` theorem covers one conversion function for *every* non-double alternative and
every integer: the result is the value reduced modulo 2^32 / 2^64 into the target range (the
C cast), and `to*_exact`: a value that fits is returned unchanged.

Two caveats.  (1) Doubles are opaque (`DblSem`): the double rows/columns — `toInt (dbl d) = ds.toI32 d`,
`toBool_table`/`toDouble_table`/`toString_table` for `dbl`, `(double)n = ds.ofInt n` — are
definitional restatements of which `DblSem` function the code calls; what those functions compute
is checked by the correspondence run (Ieee.lean vs the real code vs Python floats) only.
(2) The string rows are relative to this area's definitions of `strtol`/`strtoul` (Val.lean): for a
string `Val.num` *is* `strtol s` / `strtoul s`, so the table row only states the final C cast.  The
independent facts about decimal strings are `string_roundtrip_*`, `string_bool_consistent`,
`eq_int_string` and `strtol_range`/`strtoul_range` below; that glibc parses like these definitions is
part of the trusted translation (compared on every run, incl. overflow, sign and white-space cases). -/

/-- the integer a value stands for in a signed (`atoi`/`atoll`) or unsigned (`strtoul`/`strtoull`)
    conversion: bool as 0/1, integers as themselves, strings through the libc parser, the rest 0 -/
def Val.num (signed : Bool) : Val → Int
  | .bool b => b2i b
  | .int i => i
  | .uint i => i
  | .int64 i => i
  | .uint64 i => i
  | .str s => if signed then strtol s else strtoul s
  | _ => 0

def Val.isDbl : Val → Bool
  | .dbl _ => true
  | _ => false

/-- the stored integer lies in the range of its C type -/
def Val.inRange : Val → Prop
  | .int i => inS 32 i
  | .uint i => inU 32 i
  | .int64 i => inS 64 i
  | .uint64 i => inU 64 i
  | _ => True

theorem toInt_table (ds : DblSem) (v : Val) (hd : v.isDbl = false) (hr : v.inRange) :
    ∃ r, v.toInt ds = some r ∧ inS 32 r ∧ (r - v.num true) % 4294967296 = 0 := by
  cases v with
  | dbl d => cases hd
  | bool b => cases b <;> exact ⟨_, rfl, by simp [inS, b2i], by simp [Val.num]⟩
  | int i => exact ⟨i, rfl, hr, by simp [Val.num]⟩
  | uint i => exact ⟨_, rfl, wrapS32_spec i⟩
  | int64 i => exact ⟨_, rfl, wrapS32_spec i⟩
  | uint64 i => exact ⟨_, rfl, wrapS32_spec i⟩
  | str s => exact ⟨_, rfl, wrapS32_spec _⟩
  | null => exact ⟨0, rfl, by simp [inS], by simp [Val.num]⟩
  | map m => exact ⟨0, rfl, by simp [inS], by simp [Val.num]⟩
  | list m => exact ⟨0, rfl, by simp [inS], by simp [Val.num]⟩
  | array m => exact ⟨0, rfl, by simp [inS], by simp [Val.num]⟩

theorem toUInt_table (ds : DblSem) (v : Val) (hd : v.isDbl = false) (hr : v.inRange) :
    ∃ r, v.toUInt ds = some r ∧ inU 32 r ∧ (r - v.num false) % 4294967296 = 0 := by
  cases v with
  | dbl d => cases hd
  | bool b => cases b <;> exact ⟨_, rfl, by simp [inU, b2i], by simp [Val.num]⟩
  | int i => exact ⟨_, rfl, wrapU32_spec i⟩
  | uint i => exact ⟨i, rfl, hr, by simp [Val.num]⟩
  | int64 i => exact ⟨_, rfl, wrapU32_spec i⟩
  | uint64 i => exact ⟨_, rfl, wrapU32_spec i⟩
  | str s => exact ⟨_, rfl, wrapU32_spec _⟩
  | null => exact ⟨0, rfl, by simp [inU], by simp [Val.num]⟩
  | map m => exact ⟨0, rfl, by simp [inU], by simp [Val.num]⟩
  | list m => exact ⟨0, rfl, by simp [inU], by simp [Val.num]⟩
  | array m => exact ⟨0, rfl, by simp [inU], by simp [Val.num]⟩

theorem toInt64_table (ds : DblSem) (v : Val) (hd : v.isDbl = false) (hr : v.inRange) :
    ∃ r, v.toInt64 ds = some r ∧ inS 64 r ∧ (r - v.num true) % 18446744073709551616 = 0 := by
  cases v with
  | dbl d => cases hd
  | bool b => cases b <;> exact ⟨_, rfl, by simp [inS, b2i], by simp [Val.num]⟩
  | int i => exact ⟨i, rfl, by simp only [Val.inRange, inS, pow31, pow63] at *; omega, by simp [Val.num]⟩
  | uint i => exact ⟨i, rfl, by simp only [Val.inRange, inS, inU, pow32, pow63] at *; omega, by simp [Val.num]⟩
  | int64 i => exact ⟨i, rfl, hr, by simp [Val.num]⟩
  | uint64 i => exact ⟨_, rfl, wrapS64_spec i⟩
  | str s => exact ⟨_, rfl, strtol_range s, by simp [Val.num]⟩
  | null => exact ⟨0, rfl, by simp [inS], by simp [Val.num]⟩
  | map m => exact ⟨0, rfl, by simp [inS], by simp [Val.num]⟩
  | list m => exact ⟨0, rfl, by simp [inS], by simp [Val.num]⟩
  | array m => exact ⟨0, rfl, by simp [inS], by simp [Val.num]⟩

theorem toUInt64_table (ds : DblSem) (v : Val) (hd : v.isDbl = false) (hr : v.inRange) :
    ∃ r, v.toUInt64 ds = some r ∧ inU 64 r ∧ (r - v.num false) % 18446744073709551616 = 0 := by
  cases v with
  | dbl d => cases hd
  | bool b => cases b <;> exact ⟨_, rfl, by simp [inU, b2i], by simp [Val.num]⟩
  | int i => exact ⟨_, rfl, wrapU64_spec i⟩
  | uint i => exact ⟨i, rfl, by simp only [Val.inRange, inU, pow32, pow64] at *; omega, by simp [Val.num]⟩
  | int64 i => exact ⟨_, rfl, wrapU64_spec i⟩
  | uint64 i => exact ⟨i, rfl, hr, by simp [Val.num]⟩
  | str s => exact ⟨_, rfl, strtoul_range s, by simp [Val.num]⟩
  | null => exact ⟨0, rfl, by simp [inU], by simp [Val.num]⟩
  | map m => exact ⟨0, rfl, by simp [inU], by simp [Val.num]⟩
  | list m => exact ⟨0, rfl, by simp [inU], by simp [Val.num]⟩
  | array m => exact ⟨0, rfl, by simp [inU], by simp [Val.num]⟩

/-- a value that fits the target type converts to itself -/
theorem toInt_exact (ds : DblSem) (v : Val) (hd : v.isDbl = false) (hr : v.inRange) (hfit : inS 32 (v.num true)) :
    v.toInt ds = some (v.num true) := by
  obtain ⟨r, h1, h2, h3⟩ := toInt_table ds v hd hr
  rw [h1]; congr 1
  simp only [inS, pow31] at h2 hfit; omega

theorem toUInt_exact (ds : DblSem) (v : Val) (hd : v.isDbl = false) (hr : v.inRange) (hfit : inU 32 (v.num false)) :
    v.toUInt ds = some (v.num false) := by
  obtain ⟨r, h1, h2, h3⟩ := toUInt_table ds v hd hr
  rw [h1]; congr 1
  simp only [inU, pow32] at h2 hfit; omega

theorem toInt64_exact (ds : DblSem) (v : Val) (hd : v.isDbl = false) (hr : v.inRange) (hfit : inS 64 (v.num true)) :
    v.toInt64 ds = some (v.num true) := by
  obtain ⟨r, h1, h2, h3⟩ := toInt64_table ds v hd hr
  rw [h1]; congr 1
  simp only [inS, pow63] at h2 hfit; omega

theorem toUInt64_exact (ds : DblSem) (v : Val) (hd : v.isDbl = false) (hr : v.inRange) (hfit : inU 64 (v.num false)) :
    v.toUInt64 ds = some (v.num false) := by
  obtain ⟨r, h1, h2, h3⟩ := toUInt64_table ds v hd hr
  rw [h1]; congr 1
  simp only [inU, pow64] at h2 hfit; omega

/-- `toBool()`: non-zero test of the numeric alternatives, `String::toBool` for strings, false otherwise -/
theorem toBool_table (ds : DblSem) (v : Val) :
    v.toBool ds = (match v with
      | .bool b => b
      | .dbl d => !ds.isZero d
      | .str s => strToBool s
      | .null | .map _ | .list _ | .array _ => false
      | v => v.num true != 0) := by
  cases v <;> simp [Val.toBool, Val.num]

/-- `toDouble()`: `(double)` of the integer for bool and the integer alternatives, the stored
    double, `atof` of the C string, 0.0 otherwise -/
theorem toDouble_table (ds : DblSem) (v : Val) :
    v.toDouble ds = (match v with
      | .dbl d => d
      | .str s => ds.ofStr (cstr s)
      | v => ds.ofInt (v.num true)) := by
  cases v <;> simp [Val.toDouble, Val.num]

/-- `toString() const`: the string itself, "true"/"false", the decimal numeral, `printf("%f")`,
    and the empty string for null and the containers -/
theorem toString_table (ds : DblSem) (v : Val) :
    v.toStr ds = (match v with
      | .str s => s
      | .bool b => if b then strTrue else strFalse
      | .dbl d => ds.toStr d
      | .null | .map _ | .list _ | .array _ => []
      | v => intDec (v.num true)) := by
  cases v <;> simp [Val.toStr, Val.num]

/-- the integer conversions never leave the target range, doubles included, provided the
    platform's double casts do not -/
theorem toInt_range (ds : DblSem) (hds : ∀ d r, ds.toI32 d = some r → inS 32 r) (v : Val) (hr : v.inRange) (r : Int)
    (h : v.toInt ds = some r) : inS 32 r := by
  cases hd : v.isDbl
  · obtain ⟨r', h1, h2, _⟩ := toInt_table ds v hd hr
    rw [h1] at h; injection h with h; subst h; exact h2
  · cases v <;> simp [Val.isDbl] at hd
    exact hds _ _ h

/-! ### the IEEE instance of the double semantics (`Ieee.lean`, what the driver runs)

Proved against the definitions of Ieee.lean: which function `toDouble()` applies to every non-double alternative
(`toDouble_ieee`: `dOfInt`, round-to-nearest-even of the integer; `dOfStr` for strings), that conversion is odd
(`dOfInt_neg`), the double → integer casts stay in the target range (`toInt_range_ieee`, all four widths), `==` on the
instance is reflexive exactly off the NaN patterns (`ieee_eq_refl`: the hypothesis `NoNaN ieee` of `eq_copy` means "no NaN
bit pattern").  The boundary table of integer → double rounding below is evaluated by the kernel (a test, not a
theorem).

`dOfInt_correctly_rounded` / `toDouble_ieee_rounded` (below): `dOfInt` is the correctly rounded conversion for every
|n| < 2^64 (LemmasIeee.lean); it is also compared bit for bit with the real `(double)` casts and with Python's `float(int)`
after every operation of the correspondence run (token `<toDouble bits>`). -/

/-- `toDouble()` on the driver's instance: the correctly-rounding `dOfInt` of the integer for bool and the four
    integer alternatives (the value itself, no intermediate narrowing), `dOfStr` (`atof`) for strings, +0.0 otherwise -/
theorem toDouble_ieee (v : Val) (hd : v.isDbl = false) :
    v.toDouble ieee = (match v with
      | .str s => dOfStr (cstr s)
      | v => dOfInt (v.num true)) := by
  cases v <;> simp [Val.isDbl] at hd <;> simp [Val.toDouble, Val.num, ieee]

/-- **int → double is correctly rounded.**  `dVal2 d` = |value of the finite double `d`| · 2^1074 (an integer for every
    double).  For every integer `n` with |n| < 2^64 (all four integer alternatives, bool) the result is the sign bit
    plus a magnitude pattern `m` such that: there are finite doubles `lo ≤ |n| ≤ hi` whose bit patterns are equal or
    adjacent, **no finite double lies strictly between them**, `m ∈ {lo, hi}`, `m` is the nearer one, a tie goes to the
    even significand (even bit pattern), and the conversion is exact for |n| ≤ 2^53. -/
theorem dOfInt_correctly_rounded (n : Int) (h : n.natAbs < 2 ^ 64) :
    ∃ lo hi m : Nat, dOfInt n = (if n < 0 then 2 ^ 63 else 0) + m ∧ (m = lo ∨ m = hi) ∧
      hi + 1 < 2047 * 2 ^ 52 ∧ (hi = lo ∨ hi = lo + 1) ∧
      dVal2 lo ≤ n.natAbs * 2 ^ 1074 ∧ n.natAbs * 2 ^ 1074 ≤ dVal2 hi ∧
      (∀ d, d < 2047 * 2 ^ 52 → ¬ (dVal2 lo < dVal2 d ∧ dVal2 d < dVal2 hi)) ∧
      (m = lo → 2 * (n.natAbs * 2 ^ 1074) ≤ dVal2 lo + dVal2 hi ∧
        (2 * (n.natAbs * 2 ^ 1074) = dVal2 lo + dVal2 hi → hi = lo ∨ lo % 2 = 0)) ∧
      (m = hi → dVal2 lo + dVal2 hi ≤ 2 * (n.natAbs * 2 ^ 1074) ∧
        (2 * (n.natAbs * 2 ^ 1074) = dVal2 lo + dVal2 hi → hi = lo ∨ hi % 2 = 0)) ∧
      (n.natAbs ≤ 2 ^ 53 → dVal2 m = n.natAbs * 2 ^ 1074) := by
  obtain ⟨lo, hi, hfin, hadj, h1, h2, hm, hlo, hhi, hex⟩ := dOfRat_int_rounded n.natAbs h
  refine ⟨lo, hi, dOfRat n.natAbs 1, ?_, hm, hfin, hadj, h1, h2, ?_, hlo, hhi, hex⟩
  · unfold dOfInt; split <;> simp
  · intro d hd
    rcases hadj with e | e
    · rw [e]; intro ⟨a, b⟩; omega
    · rw [e]; exact no_double_between lo d (by omega) hd

/-- the `toDouble()` rows of the coercion table on the driver's instance: for bool and the four integer alternatives
    (stored integer in the range of its C type) `toDouble()` is `dOfInt` of that integer, and the integer satisfies the
    hypothesis of `dOfInt_correctly_rounded` — the conversion is the correctly rounded one, exact up to 2^53 -/
theorem toDouble_ieee_rounded (v : Val) (hd : v.isDbl = false) (hs : ∀ s, v ≠ .str s) (hr : v.inRange) :
    v.toDouble ieee = dOfInt (v.num true) ∧ (v.num true).natAbs < 2 ^ 64 := by
  have e64 : (2 : Nat) ^ 64 = 18446744073709551616 := by decide
  cases v with
  | dbl d => cases hd
  | str s => exact absurd rfl (hs s)
  | bool b => cases b <;> exact ⟨rfl, by decide⟩
  | int i => exact ⟨rfl, by simp only [Val.inRange, inS, pow31, Val.num, e64] at *; omega⟩
  | uint i => exact ⟨rfl, by simp only [Val.inRange, inU, pow32, Val.num, e64] at *; omega⟩
  | int64 i => exact ⟨rfl, by simp only [Val.inRange, inS, pow63, Val.num, e64] at *; omega⟩
  | uint64 i => exact ⟨rfl, by simp only [Val.inRange, inU, pow64, Val.num, e64] at *; omega⟩
  | null => exact ⟨rfl, by decide⟩
  | map m => exact ⟨rfl, by simp [Val.num]⟩
  | list m => exact ⟨rfl, by simp [Val.num]⟩
  | array m => exact ⟨rfl, by simp [Val.num]⟩

/-- **`atof` of a plain integer numeral is correctly rounded.**  For every text `ws* sign? digit+` (end of string after
    the digits) whose magnitude is below 2^64, `toDouble()` of the string Variant — `atof` on the driver's instance — is
    the sign bit (also for "-0") plus the magnitude pattern `dOfRat n 1` of the denoted integer `n = decVal digits`, and
    that pattern is the correctly rounded double of `n` (`RoundsTo`: neighbouring doubles, nothing between, the nearer
    one, ties to even, exact up to 2^53) — the same double `(double)n` gives (`dOfInt_correctly_rounded`). -/
theorem toDouble_numeral {ws : Str} {sg : Sign} {dg : Str} (h : NumSyntax ws sg dg []) (hne : dg ≠ [])
    (h64 : decVal dg < 2 ^ 64) :
    (Val.str (ws ++ sg.str ++ dg)).toDouble ieee = (if sg.neg then 2 ^ 63 else 0) + dOfRat (decVal dg) 1 ∧
    RoundsTo (decVal dg) (dOfRat (decVal dg) 1) := by
  refine ⟨?_, dOfRat_roundsTo _ h64⟩
  have hnz : ∀ c ∈ ws ++ sg.str ++ dg, c ≠ 0 := by
    intro c hc
    simp only [List.mem_append] at hc
    rcases hc with (hc | hc) | hc
    · exact isSpace_nonzero c (h.space c hc)
    · cases sg <;> simp [Sign.str] at hc <;> omega
    · exact isDigit_nonzero c (h.digits c hc)
  show dOfStr (cstr (ws ++ sg.str ++ dg)) = _
  rw [cstr_of_nonzero _ hnz, dOfStr_numeral h hne]
  simp [dOfNat, h64]

/-- a string holding the numeral of a non-negative integer converts to the same double as the integer alternative:
    `Variant(String::fromUInt64(n)).toDouble() == Variant(n).toDouble()`, for every `n < 2^64` -/
theorem toDouble_string_of_uint64 (n : Int) (h : inU 64 n) :
    (Val.str ((Val.uint64 n).toStr ieee)).toDouble ieee = (Val.uint64 n).toDouble ieee := by
  simp only [inU, pow64] at h
  have hn : ¬ n < 0 := by omega
  have hs : (Val.uint64 n).toStr ieee = natDigits n.natAbs := by simp [Val.toStr, intDec, hn]
  have hsyn : NumSyntax [] .none (natDigits n.natAbs) [] := by
    constructor
    · intro c hc; cases hc
    · exact natDigits_digits _
    · intro c hc; cases hc
    · intro _ _ c hc; cases hc
  have hne : natDigits n.natAbs ≠ [] := by
    obtain ⟨c, t, e, _⟩ := natDigits_head n.natAbs; rw [e]; simp
  have hval : decVal (natDigits n.natAbs) = n.natAbs := by
    have := digitsVal_all (natDigits n.natAbs) (natDigits_digits _) [] (by intro c hc; cases hc) 0
    rw [List.append_nil, natDigits_val] at this; omega
  have e64 : (2 : Nat) ^ 64 = 18446744073709551616 := by decide
  have hlt : decVal (natDigits n.natAbs) < 2 ^ 64 := by rw [hval, e64]; omega
  have this := (toDouble_numeral hsyn hne hlt).1
  simp only [Sign.str, List.nil_append, List.append_nil, Sign.neg, Bool.false_eq_true, if_false, Nat.zero_add, hval] at this
  rw [hs, this]
  simp [Val.toDouble, ieee, dOfInt, hn]

/-- integer → double is odd: the sign bit apart, `-n` converts like `n` -/
theorem dOfInt_neg (n : Int) (h : 0 < n) : dOfInt (-n) = 2 ^ 63 + dOfInt n := by
  have h1 : -n < 0 := by omega
  have h2 : ¬ n < 0 := by omega
  simp [dOfInt, h2, h]

theorem dCast_range (lo hi : Int) (d : Nat) (r : Int) (h : dCast lo hi d = some r) : lo ≤ r ∧ r ≤ hi := by
  unfold dCast at h
  split at h
  · split at h
    · injection h with h; subst h; assumption
    · cases h
  · cases h

/-- on the IEEE instance every integer conversion of every value stays in its target range, doubles included
    (an out-of-range or non-finite double has no defined result: `none`) -/
theorem toInt_range_ieee (v : Val) (hr : v.inRange) (r : Int) (h : v.toInt ieee = some r) : inS 32 r := by
  refine toInt_range ieee ?_ v hr r h
  intro d r h
  have := dCast_range _ _ d r h
  simp only [inS, pow31]; omega

theorem toInt64_range_ieee (d : Nat) (r : Int) (h : (Val.dbl d).toInt64 ieee = some r) : inS 64 r := by
  have := dCast_range _ _ d r h
  simp only [inS, pow63]; omega

theorem toUInt_range_ieee (d : Nat) (r : Int) (h : (Val.dbl d).toUInt ieee = some r) : inU 32 r := by
  have := dCast_range _ _ d r h
  simp only [inU, pow32]; omega

theorem toUInt64_range_ieee (d : Nat) (r : Int) (h : (Val.dbl d).toUInt64 ieee = some r) : inU 64 r := by
  have := dCast_range _ _ d r h
  simp only [inU, pow64]; omega

/-- `d == d` on the instance fails exactly for the NaN bit patterns -/
theorem ieee_eq_refl (d : Nat) : ieee.eq d d = !dIsNaN d := by
  simp only [ieee, dEq]
  cases dIsNaN d <;> simp

/-- boundary table of integer → double (kernel-evaluated): 2^53+1 ties to even, 2^63-1 and 2^64-1 round up to the
    powers of two, 2^64-1025 rounds down to the largest double below 2^64, -(2^63) is exact -/
example : dOfInt 9007199254740993 = 0x4340000000000000 ∧ dOfInt 9007199254740995 = 0x4340000000000002 ∧
    dOfInt 9223372036854775807 = 0x43e0000000000000 ∧ dOfInt 18446744073709551615 = 0x43f0000000000000 ∧
    dOfInt 18446744073709550591 = 0x43efffffffffffff ∧ dOfInt 18446744073709549568 = 0x43efffffffffffff ∧
    dOfInt (-9223372036854775808) = 0xc3e0000000000000 ∧ dOfInt 1 = 0x3ff0000000000000 ∧ dOfInt 0 = 0 := by
  refine ⟨?_, ?_, ?_, ?_, ?_, ?_, ?_, ?_, ?_⟩ <;> decide +kernel

/-! ### integers and decimal strings

`toString()` of an integer alternative is its decimal numeral (`toString_table`); reading that
string back through any conversion that can hold the value returns the integer, for every
integer of the width — i.e. `atoi/strtoul/atoll/strtoull` (as modelled) invert `printf`. -/

theorem string_roundtrip_int64 (ds : DblSem) (i : Int) (h : inS 64 i) :
    (Val.str ((Val.int64 i).toStr ds)).toInt64 ds = some i := by
  simp [Val.toStr, Val.toInt64, strtol_intDec i h]

theorem string_roundtrip_uint64 (ds : DblSem) (i : Int) (h : inU 64 i) :
    (Val.str ((Val.uint64 i).toStr ds)).toUInt64 ds = some i := by
  simp [Val.toStr, Val.toUInt64, strtoul_intDec i h]

theorem string_roundtrip_int (ds : DblSem) (i : Int) (h : inS 32 i) :
    (Val.str ((Val.int i).toStr ds)).toInt ds = some i := by
  have h64 : inS 64 i := by simp only [inS, pow31, pow63] at *; omega
  simp [Val.toStr, Val.toInt, strtol_intDec i h64, wrapS32_id i h]

theorem string_roundtrip_uint (ds : DblSem) (i : Int) (h : inU 32 i) :
    (Val.str ((Val.uint i).toStr ds)).toUInt ds = some i := by
  have h64 : inU 64 i := by simp only [inU, pow32, pow64] at *; omega
  simp [Val.toStr, Val.toUInt, strtoul_intDec i h64, wrapU32_id i h]

/-- the string conversion of an integer converts to the same bool as the integer -/
theorem string_bool_consistent (ds : DblSem) (i : Int) :
    (Val.str ((Val.int64 i).toStr ds)).toBool ds = (Val.int64 i).toBool ds := by
  simp [Val.toStr, Val.toBool, strToBool_intDec]

/-- a string holding a decimal numeral compares equal to the integer it denotes, from both sides
    (the `other == *this` flip of the string case) -/
theorem eq_int_string (ds : DblSem) (i : Int) (h : inS 32 i) :
    veq ds (.int i) (.str (intDec i)) = some true ∧ veq ds (.str (intDec i)) (.int i) = some true := by
  have h64 : inS 64 i := by simp only [inS, pow31, pow63] at *; omega
  constructor <;> simp [veq, scalarEq, Val.toInt, optEq, strtol_intDec i h64, wrapS32_id i h]

/-! ### every numeral text, overflow included

The string rows of the table above, made independent of the parsers' accumulator loop: for **every** string of the
shape  white space* · sign? · digit* · rest  (`NumSyntax`: any number of digits, `rest` starting with no digit and
otherwise arbitrary, NUL bytes included) the conversions return the integer the digits denote positionally
(`decVal` = Σ dᵢ·10^(n-1-i)), with libc's overflow rules: `atoll`/`strtol` clamp to `LLONG_MIN`/`LLONG_MAX`,
`strtoull`/`strtoul` return `ULLONG_MAX` on overflow and negate modulo 2^64 after a minus sign, `atoi` and
`(uint)strtoul` then truncate to 32 bits. -/

theorem toInt64_numeral (ds : DblSem) {ws : Str} {sg : Sign} {dg rest : Str} (h : NumSyntax ws sg dg rest) :
    (Val.str (ws ++ sg.str ++ dg ++ rest)).toInt64 ds = some (clampS64 (signedVal sg dg)) := by
  simp only [Val.toInt64, strtol_syntax h]

theorem toUInt64_numeral (ds : DblSem) {ws : Str} {sg : Sign} {dg rest : Str} (h : NumSyntax ws sg dg rest) :
    (Val.str (ws ++ sg.str ++ dg ++ rest)).toUInt64 ds =
      some (if decVal dg > 18446744073709551615 then 18446744073709551615
            else if sg.neg ∧ decVal dg ≠ 0 then 18446744073709551616 - (decVal dg : Int) else (decVal dg : Int)) := by
  simp only [Val.toUInt64, strtoul_syntax h]

/-- `atoi` = `(int)strtol`: the clamped 64-bit value truncated to 32 bits (so "2147483648" gives -2147483648 and
    "99999999999999999999" gives -1, as glibc does) -/
theorem toInt_numeral (ds : DblSem) {ws : Str} {sg : Sign} {dg rest : Str} (h : NumSyntax ws sg dg rest) :
    (Val.str (ws ++ sg.str ++ dg ++ rest)).toInt ds = some (wrapS 32 (clampS64 (signedVal sg dg))) := by
  simp only [Val.toInt, strtol_syntax h]

theorem toUInt_numeral (ds : DblSem) {ws : Str} {sg : Sign} {dg rest : Str} (h : NumSyntax ws sg dg rest) :
    (Val.str (ws ++ sg.str ++ dg ++ rest)).toUInt ds =
      some (wrapU 32 (if decVal dg > 18446744073709551615 then 18446744073709551615
            else if sg.neg ∧ decVal dg ≠ 0 then 18446744073709551616 - (decVal dg : Int) else (decVal dg : Int))) := by
  simp only [Val.toUInt, strtoul_syntax h]

/-- a numeral that fits converts to the integer it denotes (no clamping) -/
theorem toInt64_numeral_fits (ds : DblSem) {ws : Str} {sg : Sign} {dg rest : Str} (h : NumSyntax ws sg dg rest)
    (hfit : inS 64 (signedVal sg dg)) :
    (Val.str (ws ++ sg.str ++ dg ++ rest)).toInt64 ds = some (signedVal sg dg) := by
  rw [toInt64_numeral ds h]
  simp only [inS, pow63] at hfit
  simp only [clampS64]
  congr 1
  repeat' split
  all_goals omega

/-- non-vacuity: "\t -12abc" (rest with letters) and a 20-digit overflow -/
example : NumSyntax [9, 32] .minus [49, 50] [97, 98, 99] := by
  constructor
  · decide
  · intro c hc; simp at hc; rcases hc with rfl | rfl <;> decide
  · intro c hc; simp at hc; subst hc; decide
  · intro h; cases h

example : (Val.str ([9, 32] ++ Sign.minus.str ++ [49, 50] ++ [97, 98, 99])).toInt64 ieee = some (-12) := by decide

example : NumSyntax [] .none (List.replicate 20 57) [] := by
  constructor
  · intro c hc; cases hc
  · intro c hc; simp at hc; rw [hc]; decide
  · intro c hc; cases hc
  · intro _ h; cases h

example : (Val.str (List.replicate 20 57)).toInt64 ieee = some 9223372036854775807 ∧
    (Val.str (List.replicate 20 57)).toUInt64 ieee = some 18446744073709551615 ∧
    (Val.str (List.replicate 20 57)).toInt ieee = some (-1) ∧
    (Val.str (45 :: List.replicate 20 57)).toInt64 ieee = some (-9223372036854775808) ∧
    (Val.str [45, 49]).toUInt64 ieee = some 18446744073709551615 := by
  refine ⟨?_, ?_, ?_, ?_, ?_⟩ <;> decide

/-! ## equality -/

/-- A Variant compares equal to itself and hence to every copy of itself: for every value
    (all alternatives, nested containers of any depth) that contains no NaN. -/
theorem eq_copy (ds : DblSem) (v : Val) (h : NoNaN ds v) : veq ds v v = some true := veq_refl ds v h

/-- …in the model: after `Variant v(w)` the two variables compare equal, in both directions,
    whatever history led to the state -/
theorem eq_after_copy (ds : DblSem) (pre : List Op) (v w : Nat) (hv : v < nvars) (hw : w < nvars) (hvw : v ≠ w)
    (hn : NoNaN ds ((run ds init pre).read w)) :
    let s := run ds init (pre ++ [.copy v w])
    veq ds (s.read v) (s.read w) = some true ∧ veq ds (s.read w) (s.read v) = some true := by
  have hwv : w ≠ v := fun x => hvw x.symm
  have e1 : (run ds init (pre ++ [.copy v w])).read w = (run ds init pre).read w :=
    independent_run ds pre [.copy v w] w hw (by intro op hop; simp at hop; subst hop; simpa [Op.targets] using hwv)
  have e2 : (run ds init (pre ++ [.copy v w])).read v = (run ds init pre).read w := by
    rw [refines ds _ v hv, refines ds _ w hw, specRun_append]
    simp [specRun, specStepD, specStep, hv, hw, hvw]
  simp only [e1, e2]
  exact ⟨veq_refl ds _ hn, veq_refl ds _ hn⟩

/-- …and stays equal when the copy is detached by its own mutable accessor (the clone path of
    `toMap()/toList()/toArray()/toString()`; defect D8 was the array case of this) -/
theorem eq_after_detach (ds : DblSem) (pre : List Op) (v w : Nat) (hv : v < nvars) (hw : w < nvars) (hvw : v ≠ w)
    (hb : ((run ds init pre).read w).isBoxed = true) (hn : NoNaN ds ((run ds init pre).read w)) :
    let k := ((run ds init pre).read w).type
    let s := run ds init (pre ++ [.copy v w] ++ [.mut v [] (.touch k)])
    veq ds (s.read v) (s.read w) = some true ∧ veq ds (s.read w) (s.read v) = some true := by
  intro k s
  have hwv : w ≠ v := fun x => hvw x.symm
  have hk : 7 ≤ k ∧ k ≤ 10 := by
    have := (type_boxed _).1 hb
    refine ⟨this, ?_⟩
    show ((run ds init pre).read w).type ≤ 10
    cases (run ds init pre).read w <;> simp [Val.type]
  have hkind : isKind k := by unfold isKind; omega
  have e0 : (run ds init (pre ++ [.copy v w])).read v = (run ds init pre).read w := by
    rw [refines ds _ v hv, refines ds _ w hw, specRun_append]
    simp [specRun, specStepD, specStep, hv, hw, hvw]
  have e1 : s.read w = (run ds init pre).read w := by
    show (run ds init (pre ++ [.copy v w] ++ [.mut v [] (.touch k)])).read w = _
    rw [List.append_assoc]
    refine independent_run ds pre _ w hw ?_
    intro op hop
    simp at hop
    rcases hop with rfl | rfl <;> simpa [Op.targets] using hwv
  have e2 : s.read v = (run ds init pre).read w := by
    show (run ds init (pre ++ [.copy v w] ++ [.mut v [] (.touch k)])).read v = _
    rw [touch_value ds _ v k hv hk, e0]
    exact coerce_same ds k _ hkind rfl
  rw [e1, e2]
  exact ⟨veq_refl ds _ hn, veq_refl ds _ hn⟩

/-! ## deep model: lazy sharing of nested elements, destructor cascade

`Nstd.Variant.Deep` (Deep.lean) is the model the compiled driver runs: element Variants are
cells (inline scalar / pointer to a shared block), copying a payload shares the element
blocks, releasing the last handle destroys the payload recursively, and every level of a
nested mutable access takes its own clone-or-in-place decision.  Its reference counts of
*all* blocks are compared with the real `data->ref` after every operation of the
correspondence run.

Proved below for all histories of all operations (`deep_refines`): construction from literals and
from temporary containers, copy construction, `v = w`, `v = <any nested element of any variable,
including of v itself>` (`get`, any path), swap, and `mut v path leaf` for every path (any depth)
with every leaf — assignment, clear, the four mutable accessors, typed assignment of a scalar /
String / temporary List, Array or HashMap (which may contain copies of the destination itself),
list and array append, prepend and remove, map insert (new key or overwrite) and remove, string
append.  The values may be nested to any depth and share blocks in any way.  The only hypothesis,
`Deep.OpSup`, is syntactic: every literal occurring in the history is null, a scalar or a string
(what a C++ caller can write as a temporary Variant; the line protocol has no other literals).

Proof architecture: the ghost map `g` ties every block to a value by a local equation; reference
count = handles in variables + handles stored in payloads + pending handles of the running
operation (DeepInv.lean); `release` terminates within a fuel above the number of live blocks
(DeepRelease.lean); a nested walk leaves its uniquely owned parent block untouched
(DeepPriv.lean) and refines the nested value update (DeepWalk.lean); temporaries (DeepTemp.lean). -/

/-- HEADLINE.  For every history the deep model never faults, its abstract
    state is the specification store, and what it reads back from the heap (`readCell`, any fuel
    above the size of the value) is the specification's value.  (`drun` skips the lines the
    specification refuses — among them self-append, see the file header — on both sides.) -/
theorem deep_refines (ds : DblSem) (ops : List Op) (hsup : ∀ op ∈ ops, Deep.OpSup op) :
    ∃ s, Deep.drun ds Deep.dinit Store.init ops = some (s, specRun ds Store.init ops) ∧
      Deep.DGood s (specRun ds Store.init ops) ∧
      ∀ v, v < nvars → ∀ f, sizeOf (specRun ds Store.init ops v) < f →
        Deep.readCell f s.h (s.vars v) = specRun ds Store.init ops v := by
  obtain ⟨s, r, g⟩ := Deep.drun_refines ds ops Deep.dinit Store.init Deep.dgood_init hsup
  exact ⟨s, r, g, fun v hv f hf => Deep.read_eq g v hv f hf⟩

/-- The fuel the driver uses, `next + 1`, always suffices: in every state related to a store, reading a
    variable back from the heap with that fuel gives the store's value.  (The nesting depth of a value
    is at most the number of live blocks: the ghost value of a block is strictly deeper than those of its
    elements, so the blocks along a nesting chain are pairwise different — pigeonhole, DeepFuel.lean.) -/
theorem deep_read_fuel {s : Deep.DState} {σ : Store} (hg : Deep.DGood s σ) (v : Nat) (hv : v < nvars) :
    s.read v = σ v := Deep.read_exact hg v hv

/-- HEADLINE.  The loop of the compiled driver itself (`Deep.ddrive`: a line is executed iff the
    specification accepts it on the values *read back from the heap* with fuel `next + 1`; refused lines,
    self-append among them, are skipped) never prints FAULT and ends,
    for every history, in a state whose variables read exactly as the specification store. -/
theorem deep_driver_refines (ds : DblSem) (ops : List Op) (hsup : ∀ op ∈ ops, Deep.OpSup op) :
    ∃ s, Deep.ddrive ds Deep.dinit ops = some s ∧ ∀ v, v < nvars → s.read v = specRun ds Store.init ops v := by
  obtain ⟨s, r, g⟩ := Deep.ddrive_refines ds ops Deep.dinit Store.init Deep.dgood_init hsup
  exact ⟨s, r, fun v hv => Deep.read_exact g v hv⟩

/-- `clear()` / the destructor on any pending handle of any state satisfying the invariant:
    terminates (fuel above the number of live blocks), keeps the invariant with that handle
    gone, allocates nothing and never changes the payload of a block that survives. -/
theorem deep_release_terminates {vars : Nat → Cell} {g : Nat → Val} (f : Nat) (h : Deep.Heap) (e : Nat → Nat) (c : Cell)
    (i : Deep.DInv h vars e g) (hp : ∀ x, Deep.cellCnt c x ≤ e x) (hf : Deep.liveCount h < f) :
    ∃ h', Deep.release f h c = some h' ∧ Deep.DInv h' vars (fun x => e x - Deep.cellCnt c x) g ∧ Deep.Shrinks h h' :=
  Deep.dinv_release f h e c i hp hf

/-- the mutable accessor on any held cell: afterwards the cell points to a block it owns alone
    (`ref = 1`, no other handle anywhere) that holds the coerced value; no other block's value changes -/
theorem deep_access (ds : DblSem) {h : Deep.Heap} {vars e g c} (hd : Deep.Held h vars e g c) (k : Nat) (hk : isKind k)
    (f : Nat) (hf : Deep.liveCount h + 1 < f) :
    ∃ h' b g', Deep.accessCell f ds h c k = some (h', .ptr b) ∧ Deep.Accessed ds h vars e g c k h' b g' :=
  Deep.dinv_access ds hd k hk f hf

/-! ### the property's sentences on the deep model itself (what the driver runs and the correspondence ties)

Corollaries of `deep_driver_refines`: independence, last-assigned value/type and `v == copy(v)` stated directly for the
heap model with nested lazy sharing (`Deep.ddrive`), not only for the variable-level model. -/

/-- independence on the deep model: after any history, one more operation (any kind, any path, any sharing between the
    variables and their nested elements at that moment) changes no variable outside its targets -/
theorem deep_independent (ds : DblSem) (ops : List Op) (op : Op) (hsup : ∀ o ∈ ops ++ [op], Deep.OpSup o)
    (w : Nat) (hw : w < nvars) (hnt : w ∉ op.targets) :
    ∃ s s', Deep.ddrive ds Deep.dinit ops = some s ∧ Deep.ddrive ds Deep.dinit (ops ++ [op]) = some s' ∧
      s'.read w = s.read w := by
  obtain ⟨s, r, e⟩ := deep_driver_refines ds ops (fun o ho => hsup o (by simp [ho]))
  obtain ⟨s', r', e'⟩ := deep_driver_refines ds (ops ++ [op]) hsup
  refine ⟨s, s', r, r', ?_⟩
  rw [e' w hw, e w hw, specRun_append]
  exact specRun_frame ds [op] _ w (by intro o ho; simp at ho; subst ho; exact hnt)

/-- the same over a whole tail of operations none of which targets `w` (a copy stays detached from its source) -/
theorem deep_independent_run (ds : DblSem) (pre post : List Op) (hsup : ∀ o ∈ pre ++ post, Deep.OpSup o)
    (w : Nat) (hw : w < nvars) (hnt : ∀ op ∈ post, w ∉ op.targets) :
    ∃ s s', Deep.ddrive ds Deep.dinit pre = some s ∧ Deep.ddrive ds Deep.dinit (pre ++ post) = some s' ∧
      s'.read w = s.read w := by
  obtain ⟨s, r, e⟩ := deep_driver_refines ds pre (fun o ho => hsup o (by simp [ho]))
  obtain ⟨s', r', e'⟩ := deep_driver_refines ds (pre ++ post) hsup
  refine ⟨s, s', r, r', ?_⟩
  rw [e' w hw, e w hw, specRun_append]
  exact specRun_frame ds post _ w hnt

/-- type and value are the last assigned ones, on the deep model: after `v = x` (typed assignment of a scalar or
    String literal) and any further history that does not target `v`, `v` reads `x` and reports its type -/
theorem deep_type_value_last_assigned (ds : DblSem) (pre post : List Op) (v : Nat) (x : Val) (hv : v < nvars) (hx : x.type ≠ 0)
    (hsup : ∀ o ∈ pre ++ [.mut v [] (.set (.lit x))] ++ post, Deep.OpSup o) (hnt : ∀ op ∈ post, v ∉ op.targets) :
    ∃ s, Deep.ddrive ds Deep.dinit (pre ++ [.mut v [] (.set (.lit x))] ++ post) = some s ∧ s.read v = x ∧ (s.read v).type = x.type := by
  obtain ⟨s, r, e⟩ := deep_driver_refines ds _ hsup
  have := value_last_set ds pre post v x hv hx hnt
  rw [refines ds _ v hv] at this
  exact ⟨s, r, by rw [e v hv, this], by rw [e v hv, this]⟩

/-- `v == copy(v)` on the deep model: after any history and `Variant v(w)`, the two variables — now two handles to the
    same blocks — compare equal in both directions (NaN-free values) -/
theorem deep_eq_copy (ds : DblSem) (ops : List Op) (hsup : ∀ o ∈ ops, Deep.OpSup o) (v w : Nat) (hv : v < nvars) (hw : w < nvars)
    (hvw : v ≠ w) (hn : NoNaN ds (specRun ds Store.init ops w)) :
    ∃ s, Deep.ddrive ds Deep.dinit (ops ++ [.copy v w]) = some s ∧
      veq ds (s.read v) (s.read w) = some true ∧ veq ds (s.read w) (s.read v) = some true := by
  obtain ⟨s, r, e⟩ := deep_driver_refines ds (ops ++ [.copy v w])
    (by intro o ho; simp at ho; rcases ho with ho | rfl; exact hsup o ho; trivial)
  have e2 : specRun ds Store.init (ops ++ [.copy v w]) v = specRun ds Store.init ops w := by
    rw [specRun_append]; simp [specRun, specStepD, specStep, hv, hw, hvw, upd]
  have e1 : specRun ds Store.init (ops ++ [.copy v w]) w = specRun ds Store.init ops w := by
    rw [specRun_append]
    exact specRun_frame ds [.copy v w] _ w (by intro o ho; simp at ho; subst ho; simpa [Op.targets] using fun x => hvw x.symm)
  refine ⟨s, r, ?_⟩
  rw [e v hv, e w hw, e1, e2]
  exact ⟨veq_refl ds _ hn, veq_refl ds _ hn⟩

/-- `isNull()` and `operator!=` as coded: `data->type == nullType`, `!(*this == other)` -/
def Val.isNull (v : Val) : Bool := v.type == 0
def vne (ds : DblSem) (a b : Val) : Option Bool := (veq ds a b).map (!·)

theorem isNull_iff (v : Val) : v.isNull = true ↔ v = .null := by
  cases v <;> simp [Val.isNull, Val.type]

/-- `v != copy(v)` is false and a null Variant equals exactly the null Variants -/
theorem ne_copy (ds : DblSem) (v : Val) (h : NoNaN ds v) : vne ds v v = some false := by
  simp [vne, veq_refl ds v h]

theorem eq_null (ds : DblSem) (o : Val) : veq ds .null o = some o.isNull := by
  simp [veq, scalarEq, Val.isNull]

/-! ## the finding "self-append" (KF-C07-self-append) as a theorem

`Deep.selfLink ds s v p lk` is what the real code executes for `walkMut(v, p)->toList().append(v)` (`lk`: `append` /
`prepend` on the list, `append` on the array, `append(k, ·)` with a new key on the map; `p`: any existing path, the
empty one being `v.toList().append(v)` itself): the accessor chain — the accepted line `mut v p touch kind` — then the
copy constructor on the *current* `v` (share the root block, `++ref`), then the link into the payload the chain
returned.  `drun` refuses exactly these lines (`mutOk`); the two theorems below say what that precondition separates. -/

/-- After every history, for every variable `v`, every existing path `p` into its value and each of the four linking
    container operations: the self-append step of the real code runs without fault, and afterwards the root block `b`
    of `v` (the witness) reaches itself through stored handles — `v` contains itself —, its reference count is ≥ 2 with
    one handle held inside the cycle (so `clear()` of `v` does not free it), and the heap represents **no** store of
    values any more (`∀ σ', ¬ DGood s' σ'`: no later operation is covered by `deep_refines`). -/
theorem self_append_creates_cycle (ds : DblSem) (ops : List Op) (hsup : ∀ op ∈ ops, Deep.OpSup op)
    (v : Nat) (hv : v < nvars) (p : List Step) (lk : Deep.LinkKind) (z : Val)
    (hz : getPath p (specRun ds Store.init ops v) = some z)
    (hfresh : ∀ k, lk = .mput k → mapFind (coerce ds 7 z).asMap k = none) :
    ∃ s, Deep.drun ds Deep.dinit Store.init ops = some (s, specRun ds Store.init ops) ∧
      ∃ s' b, Deep.selfLink ds s v p lk = some s' ∧ s'.vars v = .ptr b ∧ Deep.Cyclic s'.h b ∧
        (∃ blk, s'.h.heap b = some blk ∧ 2 ≤ blk.ref) ∧ ∀ σ', ¬ Deep.DGood s' σ' := by
  obtain ⟨s, r, g⟩ := Deep.drun_refines ds ops Deep.dinit Store.init Deep.dgood_init hsup
  exact ⟨s, r, Deep.self_link_cycle ds g v hv p lk z hz hfresh⟩

/-- The element-assignment forms of the finding: `walkMut(v, p)[st] = v` — `v.toList().back() = v`, and
    `v.toMap().append(k, v)` with a key that is already there (`HashMap::insert` runs `*it = value`) — after every
    history, for every variable and every existing element path `p ++ [st]` (any depth): `Deep.selfAssign` (accessor
    chain, `clear()` of the element, share the root block of the current `v`, install) runs without fault and leaves
    the root block of `v` on a cycle; the heap represents no store of values any more.  With
    `self_append_creates_cycle` the whole signature of KF-C07-self-append is a theorem. -/
theorem self_assign_creates_cycle (ds : DblSem) (ops : List Op) (hsup : ∀ op ∈ ops, Deep.OpSup op)
    (v : Nat) (hv : v < nvars) (p : List Step) (st : Step) (z : Val)
    (hz : getPath (p ++ [st]) (specRun ds Store.init ops v) = some z) :
    ∃ s, Deep.drun ds Deep.dinit Store.init ops = some (s, specRun ds Store.init ops) ∧
      ∃ s' b, Deep.selfAssign ds s v p st = some s' ∧ s'.vars v = .ptr b ∧ Deep.Cyclic s'.h b ∧
        (∃ blk, s'.h.heap b = some blk ∧ 2 ≤ blk.ref) ∧ ∀ σ', ¬ Deep.DGood s' σ' := by
  obtain ⟨s, r, g⟩ := Deep.drun_refines ds ops Deep.dinit Store.init Deep.dgood_init hsup
  exact ⟨s, r, Deep.self_assign_cycle ds g v hv p st z hz⟩

/-- Conversely: the lines the model accepts never build a cycle — after every history no block reaches itself. -/
theorem accepted_lines_acyclic (ds : DblSem) (ops : List Op) (hsup : ∀ op ∈ ops, Deep.OpSup op) :
    ∃ s, Deep.drun ds Deep.dinit Store.init ops = some (s, specRun ds Store.init ops) ∧ ∀ b, ¬ Deep.Cyclic s.h b := by
  obtain ⟨s, r, g⟩ := Deep.drun_refines ds ops Deep.dinit Store.init Deep.dgood_init hsup
  exact ⟨s, r, Deep.dgood_acyclic g⟩

/-- non-vacuity / the probes of the correspondence run: `Variant v; v.toList(); v.toList().append(v)` and the nested
    `v.toList().append(List()); v.toList().back().toList().append(v)` -/
example : (Deep.selfLink ieee Deep.dinit 0 [] .lapp).map (fun s => (s.vars 0, s.h.heap 0)) =
    some (.ptr 0, some ⟨2, .list [.ptr 0]⟩) := by rfl

/-! ## non-vacuity -/

/-- a NaN-free nested value under the driver's IEEE semantics: [1.5, {"k": 5, "s": "x"}, [[]]] -/
def sampleVal : Val :=
  .list [.dbl 0x3ff8000000000000, .map [([107], .int 5), ([115], .str [120])], .array [.list []]]

example : NoNaN ieee sampleVal := by
  simp only [sampleVal, NoNaN, NoNaNList, NoNaNMap, and_true]
  decide

/-- a history with sharing, a nested in-place write, a clone and a self-assignment of an own
    element is accepted by the model (no line refused) and ends where the store of values ends -/
def sampleOps : List Op :=
  [ .new 0 (.list [.lit (.int 1), .lit (.str [97])]),
    .copy 1 0,
    .mut 2 [] (.mput [107] (.var 0)),
    .mut 1 [.li 0] (.set (.lit (.uint 7))),
    .mut 2 [.mk [107], .li 1] (.sapp [98]),
    .get 2 2 [.mk [107]],
    .swap 0 1 ]

example : (run ieee init sampleOps).read 0 = .list [.uint 7, .str [97]] ∧      -- the modified copy, swapped in
    (run ieee init sampleOps).read 1 = .list [.int 1, .str [97]] ∧               -- the source, untouched
    (run ieee init sampleOps).read 2 = .list [.int 1, .str [97, 98]] := by       -- own element assigned to its parent
  refine ⟨?_, ?_, ?_⟩ <;> rfl

example : ∀ op ∈ sampleOps.take 3, (step ieee (run ieee init []) op).isSome = true := by
  intro op hop
  simp [sampleOps] at hop
  rcases hop with rfl | rfl | rfl <;> rfl

/-- a variable-level history with nested sharing: a string block shared by three list elements and a
    variable, a clone of a shared list (elements stay shared), a destructor cascade, extraction of an
    own element, swap -/
def sampleDeepOps : List Op :=
  [ .new 0 (.lit (.str [97])),
    .mut 1 [] (.lapp (.var 0)),
    .mut 1 [] (.lapp (.var 0)),
    .mut 2 [] (.aapp (.var 1)),
    .copy 3 1,
    .mut 3 [] (.lpre (.lit (.int 7))),
    .mut 2 [.ar 0, .li 0] (.touch 8),          -- nested accessor: clone of the shared list, then of the string element
    .mut 2 [.ar 0] (.lapp (.var 3)),
    .mut 4 [] (.mput [107] (.var 2)),
    .mut 4 [.mk [107], .ar 0] (.set (.list [.var 0, .lit (.str [98]), .var 3])),
    .mut 4 [.mk [107], .ar 0] (.lrem 0),
    .mut 4 [] (.mput [107] (.lit (.bool true))),   -- overwrite: the whole nested structure is destroyed
    .new 5 (.map [([97], .var 0), ([98], .var 5), ([97], .lit (.int 1))]),
    .mut 3 [] (.set (.array [.var 3, .var 3])),    -- temporary holding copies of the destination itself
    .mut 1 [] .clear,
    .get 2 2 [.ar 0, .li 1],
    .swap 0 3 ]

example : ∀ op ∈ sampleDeepOps, Deep.OpSup op := by
  intro op hop
  simp [sampleDeepOps] at hop
  rcases hop with rfl | rfl | rfl | rfl | rfl | rfl | rfl | rfl | rfl | rfl | rfl | rfl | rfl | rfl | rfl | rfl | rfl <;>
    simp [Deep.OpSup, Deep.LeafSupS, Deep.SrcLit, Deep.LitOk, Deep.setsSeq, LeafS.vars, ValS.vars, Src.vars]

example : specRun ieee Store.init sampleDeepOps 0 = .array [.list [.int 7, .str [97], .str [97]], .list [.int 7, .str [97], .str [97]]] ∧
    specRun ieee Store.init sampleDeepOps 2 = .str [97] := by
  constructor <;> rfl

/-- a temporary that holds a copy of the destination, assigned *below the root* of the destination
    (`List<Variant> t; t.append(v); t.append(2); v.toList().front() = t;`): accepted by the specification and by the
    deep model (`selfTempStep`: the temporary exists before the accessor chain runs, so the chain clones), covered by
    `deep_refines` like every other line; the element becomes the list of the *old* value of `v` -/
def sampleSelfTemp : List Op :=
  [ .new 0 (.list [.lit (.int 1)]),
    .copy 1 0,
    .mut 0 [.li 0] (.set (.list [.var 0, .lit (.int 2)])) ]

example : ∀ op ∈ sampleSelfTemp, Deep.OpSup op := by
  intro op hop
  simp [sampleSelfTemp] at hop
  rcases hop with rfl | rfl | rfl <;> simp [Deep.OpSup, Deep.LeafSupS, Deep.SrcLit, Deep.LitOk]

example : specRun ieee Store.init sampleSelfTemp 0 = .list [.list [.list [.int 1], .int 2]] ∧
    specRun ieee Store.init sampleSelfTemp 1 = .list [.int 1] ∧
    (Deep.ddrive ieee Deep.dinit sampleSelfTemp).map (fun s => (s.read 0, s.read 1)) =
      some (.list [.list [.list [.int 1], .int 2]], .list [.int 1]) := by
  refine ⟨?_, ?_, ?_⟩ <;> rfl

end Nstd.Variant
