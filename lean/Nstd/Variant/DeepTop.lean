import Nstd.Variant.DeepLeaf
/-
  Operations on variables of the deep model: a variable's handle is taken out (becomes
  pending), the operation runs on the held cell, the resulting cell is put back.
-/
namespace Nstd.Variant.Deep
open Nstd.Variant

theorem lt_slots {v : Nat} (h : v < nvars) : v < nslots := by simp [nvars, nslots] at *; omega

theorem dinv_take {h : Heap} {vars e g} (i : DInv h vars e g) (v : Nat) (hv : v < nslots) :
    DInv h (upd vars v .null) (fun x => e x + cellCnt (vars v) x) g := by
  have hh : ∀ b, handles (upd vars v .null) b + cellCnt (vars v) b = handles vars b := by
    intro b
    have := handles_upd vars v .null b hv
    simp only [isPtrTo, Bool.false_eq_true, if_false, Nat.add_zero] at this
    simp only [cellCnt]; exact this
  constructor
  · intro w b hw
    by_cases ew : w = v
    · subst ew; simp at hw
    · rw [upd_other _ _ _ _ ew] at hw; exact i.live w b hw
  · exact i.slive
  · intro b blk hb
    have := i.cnt b blk hb
    have := hh b
    show blk.ref = handles (upd vars v .null) b + stored h.heap h.next b + (e b + cellCnt (vars v) b)
    omega
  · exact i.pos
  · exact i.fresh
  · intro b hb
    have h0 := i.efresh b hb
    have : cellCnt (vars v) b = 0 := by
      cases hc : vars v with
      | null => rfl
      | inl z => rfl
      | ptr t =>
        obtain ⟨k, hk⟩ := i.live v t hc
        have : t ≠ b := by intro et; subst et; rw [hb] at hk; cases hk
        simp [cellCnt_ptr, this]
    show e b + cellCnt (vars v) b = 0
    omega
  · intro w x hw
    by_cases ew : w = v
    · subst ew; simp at hw
    · rw [upd_other _ _ _ _ ew] at hw; exact i.inl w x hw
  · exact i.sinl
  · intro w hw
    have : w ≠ v := by omega
    rw [upd_other _ _ _ _ this]; exact i.out w hw
  · exact i.cons

theorem dinv_put {h : Heap} {vars e g} (i : DInv h vars e g) (v : Nat) (hv : v < nslots) (hn : ∀ b, vars v ≠ .ptr b)
    (c : Cell) (hc : ∀ x, cellCnt c x ≤ e x) (hok : ∀ z, c = .inl z → z.isBoxed = false) :
    DInv h (upd vars v c) (fun x => e x - cellCnt c x) g := by
  have hh : ∀ b, handles (upd vars v c) b = handles vars b + cellCnt c b := by
    intro b
    have := handles_upd vars v c b hv
    have h0 : isPtrTo (vars v) b = false := by
      cases hp : isPtrTo (vars v) b
      · rfl
      · exact absurd ((isPtrTo_iff _ _).1 hp) (hn b)
    simp only [h0, Bool.false_eq_true, if_false, Nat.add_zero] at this
    simp only [cellCnt]; exact this
  constructor
  · intro w b hw
    by_cases ew : w = v
    · subst ew; simp at hw; subst hw
      have := hc b; simp [cellCnt_ptr] at this
      exact live_of_pending i b this
    · rw [upd_other _ _ _ _ ew] at hw; exact i.live w b hw
  · exact i.slive
  · intro b blk hb
    have := i.cnt b blk hb
    have := hc b
    rw [hh b]
    show blk.ref = handles vars b + cellCnt c b + stored h.heap h.next b + (e b - cellCnt c b)
    omega
  · exact i.pos
  · exact i.fresh
  · intro b hb
    have := i.efresh b hb
    show e b - cellCnt c b = 0
    omega
  · intro w x hw
    by_cases ew : w = v
    · subst ew; simp at hw; exact hok x hw
    · rw [upd_other _ _ _ _ ew] at hw; exact i.inl w x hw
  · exact i.sinl
  · intro w hw
    have : w ≠ v := by omega
    rw [upd_other _ _ _ _ this]; exact i.out w hw
  · exact i.cons

/-- taking the handle of variable `v` makes it a held cell -/
theorem held_take {h : Heap} {vars g} (i : DInv h vars zeroE g) (v : Nat) (hv : v < nslots) :
    Held h (upd vars v .null) (fun x => cellCnt (vars v) x) g (vars v) :=
  ⟨(dinv_take i v hv).congr (by intro x; simp [zeroE]), fun _ => Nat.le_refl _, fun y hy => i.inl v y hy⟩

/-- abstract state of the deep model: some ghost map is consistent with the heap and gives every
    variable the value of the specification store -/
def DGood (s : DState) (σ : Store) : Prop :=
  ∃ g, DInv s.h s.vars zeroE g ∧ (∀ v, v < nvars → absCell g (s.vars v) = σ v) ∧ s.vars tmpVar = .null

theorem dgood_init : DGood dinit Store.init := ⟨fun _ => .null, dinv_init, fun _ _ => rfl, rfl⟩

/-- the held-cell operation on variable `v` (taken out, operated on, put back) refines the store update -/
theorem put_back {s : DState} {σ : Store} {g : Nat → Val} {e0 : Nat → Nat} (i : DInv s.h s.vars e0 g)
    (hrel : ∀ w, w < nvars → absCell g (s.vars w) = σ w) (htmp : s.vars tmpVar = .null) (v : Nat) (hv : v < nvars)
    (y : Val) (n : Nat) (h' : Heap) (c' : Cell) (g' : Nat → Val)
    (st : CellStep s.h (upd s.vars v .null) (fun x => cellCnt (s.vars v) x) g (s.vars v) y n h' c' g') :
    DGood { h := h', vars := upd s.vars v c' } (upd σ v y) := by
  have hv7 : v < nslots := lt_slots hv
  have hnp : ∀ b, upd s.vars v .null v ≠ .ptr b := by intro b; simp
  have i2 := dinv_put st.inv v hv7 hnp c' (by intro x; show cellCnt c' x ≤ cellCnt (s.vars v) x - cellCnt (s.vars v) x + cellCnt c' x; omega) st.ok
  have hvars : upd (upd s.vars v .null) v c' = upd s.vars v c' := by
    funext w; by_cases ew : w = v
    · subst ew; simp
    · simp [upd_other _ _ _ _ ew]
  rw [hvars] at i2
  refine ⟨g', i2.congr (by intro x; simp only [zeroE]; omega), ?_, ?_⟩
  · intro w hw
    by_cases ew : w = v
    · subst ew; simp only [upd_same]; exact st.val
    · simp only [upd_other _ _ _ _ ew]
      rw [← hrel w hw]
      apply absCell_congr
      intro b hb
      obtain ⟨k, hk⟩ := i.live w b hb
      refine st.frame b (by rw [hk]; simp) (Or.inl ?_)
      have hw7 : w < nslots := lt_slots hw
      exact one_handle _ w b hw7 (by rw [upd_other _ _ _ _ ew]; exact hb)
  · have : tmpVar ≠ v := by simp [nvars, tmpVar] at *; omega
    simp only [upd_other _ _ _ _ this]; exact htmp

end Nstd.Variant.Deep
