import Nstd.Variant.Val
import Nstd.Variant.IeeeRat
/-
  The instance of `DblSem` used by the compiled driver: IEEE-754 binary64 on the 64-bit
  pattern, in exact integer arithmetic (round-to-nearest-even for `(double)n`, `atof` and
  `printf("%f")`).  The general theorems of the area hold for every `DblSem`; about this instance
  `LemmasIeee.lean` proves that `dOfInt` is the correctly rounded integer conversion and that `atof` of a plain
  integer numeral is; `LemmasAtofFrac.lean` that `atof` of a decimal text with a fraction / exponent is (negative decimal exponent); the rest of `atof` and `%f` are validated against the real code and against Python's floats by the correspondence run only.

  `ofStr` covers what `strtod` accepts: decimal with exponent, hexadecimal floats, inf, nan.
-/
namespace Nstd.Variant

def dSign (d : Nat) : Bool := d / 2 ^ 63 % 2 == 1
def dExp (d : Nat) : Nat := d / 2 ^ 52 % 2048
def dFrac (d : Nat) : Nat := d % 2 ^ 52

def dIsNaN (d : Nat) : Bool := dExp d == 2047 && dFrac d != 0
def dIsInf (d : Nat) : Bool := dExp d == 2047 && dFrac d == 0
def dIsZero (d : Nat) : Bool := dExp d == 0 && dFrac d == 0

/-- magnitude = `m * 2^(x - 1074)` with `x ≥ 0` -/
def dMag (d : Nat) : Nat × Nat :=
  if dExp d == 0 then (dFrac d, 0) else (dFrac d + 2 ^ 52, dExp d - 1)

def dEq (a b : Nat) : Bool :=
  if dIsNaN a || dIsNaN b then false
  else if dIsZero a && dIsZero b then true
  else a == b

/-- truncation toward zero of a finite double -/
def dTrunc (d : Nat) : Option Int :=
  if dExp d == 2047 then none
  else
    let (m, x) := dMag d
    let t : Nat := if x ≥ 1074 then m * 2 ^ (x - 1074) else m / 2 ^ (1074 - x)
    some (if dSign d then -(t : Int) else (t : Int))

def dCast (lo hi : Int) (d : Nat) : Option Int :=
  match dTrunc d with
  | some t => if lo ≤ t ∧ t ≤ hi then some t else none
  | none => none

/-- round `p / q` (q > 0) to the nearest integer, ties to even -/
def roundHalfEven (p q : Nat) : Nat :=
  let n := p / q
  let r := p % q
  if 2 * r > q then n + 1 else if 2 * r == q then (if n % 2 == 1 then n + 1 else n) else n

/-- `p / q` with the power of two `2^k` moved into numerator or denominator: the pair stands for `p / (q · 2^k)` -/
def scaledBy (p q : Nat) (k : Int) : Nat × Nat :=
  if k ≥ 0 then (p, q * 2 ^ k.toNat) else (p * 2 ^ (-k).toNat, q)

/-- the exponent `k` with `2^52 ≤ p / (q · 2^k) < 2^53` (estimate from the bit lengths, then adjust), not below the
    subnormal exponent -1074 -/
def normK (p q : Nat) : Int :=
  let k0 : Int := (Nat.log2 p : Int) - (Nat.log2 q : Int) - 52
  let k1 : Int := if (scaledBy p q k0).1 / (scaledBy p q k0).2 < 2 ^ 52 then k0 - 1 else k0
  let k2 : Int := if (scaledBy p q k1).1 / (scaledBy p q k1).2 ≥ 2 ^ 53 then k1 + 1 else k1
  if k2 < -1074 then -1074 else k2

/-- significand `m` (already rounded, `≤ 2^53`) at exponent `k` as bits: carry into the next binade, overflow to
    infinity, subnormals -/
def dPack (m : Nat) (k : Int) : Nat :=
  let mk : Nat × Int := if m == 2 ^ 53 then (2 ^ 52, k + 1) else (m, k)
  if mk.2 + 52 > 1023 then 2047 * 2 ^ 52
  else if mk.1 < 2 ^ 52 then mk.1
  else (mk.2 + 1075).toNat * 2 ^ 52 + (mk.1 - 2 ^ 52)

/-- the double nearest to `p / q` (p, q > 0), as bits without sign -/
def dOfRat (p q : Nat) : Nat :=
  if p == 0 then 0
  else dPack (roundHalfEven (scaledBy p q (normK p q)).1 (scaledBy p q (normK p q)).2) (normK p q)

def dOfInt (n : Int) : Nat :=
  if n < 0 then 2 ^ 63 + dOfRat n.natAbs 1 else dOfRat n.natAbs 1

def pad6 (l : Str) : Str := List.replicate (6 - l.length) 48 ++ l

/-- `printf("%f")` -/
def dToStr (d : Nat) : Str :=
  let sign : Str := if dSign d then [45] else []
  if dIsNaN d then sign ++ [110, 97, 110]
  else if dIsInf d then sign ++ [105, 110, 102]
  else
    let (m, x) := dMag d
    let n : Nat := if x ≥ 1074 then m * 2 ^ (x - 1074) * 1000000 else roundHalfEven (m * 1000000) (2 ^ (1074 - x))
    sign ++ natDigits (n / 1000000) ++ [46] ++ pad6 (natDigits (n % 1000000))

def takeDigits : Str → Str × Str
  | [] => ([], [])
  | c :: t => if isDigit c then let (a, b) := takeDigits t; (c :: a, b) else ([], c :: t)

def startsWithCI (s : Str) (p : Str) : Bool := (s.take p.length).map lower == p

def hexDig (c : Nat) : Option Nat :=
  if 48 ≤ c ∧ c ≤ 57 then some (c - 48)
  else if 97 ≤ c ∧ c ≤ 102 then some (c - 87)
  else if 65 ≤ c ∧ c ≤ 70 then some (c - 55)
  else none

def takeHex : Str → Str × Str
  | [] => ([], [])
  | c :: t => if (hexDig c).isSome then let (a, b) := takeHex t; (c :: a, b) else ([], c :: t)

def hexVal' : Str → Nat → Nat
  | [], acc => acc
  | c :: t, acc => hexVal' t (acc * 16 + (hexDig c).getD 0)

/-- `0x` / `0X` followed by at least one hexadecimal digit (possibly after the point) -/
def isHexFloat (s : Str) : Bool :=
  match s with
  | 48 :: x :: t =>
    (x == 120 || x == 88) &&
      (match t with
       | 46 :: d :: _ => (hexDig d).isSome
       | d :: _ => (hexDig d).isSome
       | [] => false)
  | _ => false

/-- exponent part `[eE][+-]?digits` / `[pP][+-]?digits` (marker characters `c1`, `c2`); 0 when absent or without digits -/
def expPart (c1 c2 : Nat) (r : Str) : Int :=
  match r with
  | c :: t =>
    if c == c1 || c == c2 then
      let (eneg, t) := match t with
        | 45 :: u => (true, u)
        | 43 :: u => (false, u)
        | u => (false, u)
      let (ed, _) := takeDigits t
      if ed.isEmpty then 0 else (if eneg then -(digitsVal ed 0 : Int) else (digitsVal ed 0 : Int))
    else 0
  | [] => 0

/-- hexadecimal float after the sign (`sg` = sign bit) -/
def dHex (sg : Nat) (s : Str) : Nat :=
  let (ih, r) := takeHex (s.drop 2)
  let (fh, r) := match r with
    | 46 :: t => takeHex t
    | r => ([], r)
  let ex : Int := expPart 112 80 r
  let hv := hexVal' (ih ++ fh) 0
  let e2 : Int := ex - 4 * fh.length
  if hv == 0 then sg
  else if e2 > 5000 then sg + 2047 * 2 ^ 52
  else if e2 < -5000 then sg
  else if e2 ≥ 0 then sg + dOfRat (hv * 2 ^ e2.toNat) 1
  else sg + dOfRat hv (2 ^ (-e2).toNat)

/-- `(double)n` of a natural number of any size: below 2^64 the integer conversion `dOfRat n 1` (proved correctly rounded in
    LemmasIeee.lean), above it the rounding with a checked grid exponent (IeeeRat.lean; `atof_rounding_correct`) -/
def dOfNat (n : Nat) : Nat := if n < 2 ^ 64 then dOfRat n 1 else Rat.dOfRatQ n 1

/-- decimal float after the sign: digits, optional fraction, optional exponent; no digit at all = no conversion = +0.0 -/
def dDecimal (sg : Nat) (s : Str) : Nat :=
  let (ip, r) := takeDigits s
  let (fp, r) := match r with
    | 46 :: t => takeDigits t
    | r => ([], r)
  if ip.isEmpty && fp.isEmpty then 0
  else
    let ex : Int := expPart 101 69 r
    let dv := digitsVal (ip ++ fp) 0
    let e10 : Int := ex - fp.length
    if dv == 0 then sg
    else if e10 > 400 then sg + 2047 * 2 ^ 52
    else if e10 < -800 then sg
    else if e10 ≥ 0 then sg + dOfNat (dv * 10 ^ e10.toNat)
    else sg + Rat.dOfRatQ dv (10 ^ (-e10).toNat)      -- checked grid exponent (IeeeRat.lean), proved correctly rounded

/-- what follows the optional sign -/
def dOfStrMag (sg : Nat) (s : Str) : Nat :=
  if startsWithCI s [105, 110, 102] then sg + 2047 * 2 ^ 52
  else if startsWithCI s [110, 97, 110] then sg + 2047 * 2 ^ 52 + 2 ^ 51
  else if isHexFloat s then dHex sg s
  else dDecimal sg s

/-- `strtod(s, 0)` of a C string -/
def dOfStr (s : Str) : Nat :=
  match s.dropWhile isSpace with
  | 45 :: t => dOfStrMag (2 ^ 63) t
  | 43 :: t => dOfStrMag 0 t
  | s => dOfStrMag 0 s

def ieee : DblSem where
  isZero := dIsZero
  eq := dEq
  ofInt := dOfInt
  toI32 := dCast (-(2 ^ 31)) (2 ^ 31 - 1)
  toU32 := dCast 0 (2 ^ 32 - 1)
  toI64 := dCast (-(2 ^ 63)) (2 ^ 63 - 1)
  toU64 := dCast 0 (2 ^ 64 - 1)
  ofStr := dOfStr
  toStr := dToStr

end Nstd.Variant
