import Nstd.Variant.Model
/-
  Second, *deep* executable model of the representation of `Variant`: the Variants stored
  inside a list/array/map payload are cells too (null / inline scalar / pointer to a shared
  reference-counted block), exactly as in the real code:

    * copying a container payload copy-constructs every element (a boxed element is shared,
      its `ref` incremented) — `copyPay`;
    * releasing the last handle of a block destroys the payload, i.e. releases every
      element in turn (destructor cascade) — `release`;
    * a nested mutable access `x.toList()…` makes the copy-on-write decision at every level
      (`type differs || ref > 1`) on the element cell it walks through — `walkMut`.

  This model is the one the compiled driver runs: its reference counts (of the variables'
  blocks *and* of every nested block) are printed and compared with the `ref` fields of the
  real objects after every operation.  `Props.lean` proves the refinement to a store of values
  for this model too (`deep_refines`, all operations), next to the variable-level model (Model.lean).

  Temporaries follow the harness: a literal source is a temporary Variant (constructed,
  copied from, destroyed); the argument of a typed container assignment is a temporary
  List/Array/HashMap of copies.
-/
namespace Nstd.Variant.Deep
open Nstd.Variant

inductive Pay where
  | str (s : Str)
  | list (cs : List Cell)
  | array (cs : List Cell)
  | map (m : List (Str × Cell))
  deriving Inhabited

structure Block where
  ref : Nat
  pay : Pay
  deriving Inhabited

/-- the heap: block id ↦ block (ids are never reused), `next` = first unused id -/
structure Heap where
  heap : Nat → Option Block
  next : Nat

structure DState where
  h : Heap
  vars : Nat → Cell

def dinit : DState := { h := { heap := fun _ => none, next := 0 }, vars := fun _ => .null }

def Pay.type : Pay → Nat
  | .map _ => 7 | .list _ => 8 | .array _ => 9 | .str _ => 10

def Pay.cells : Pay → List Cell
  | .str _ => []
  | .list cs => cs
  | .array cs => cs
  | .map m => m.map (·.2)

def cellType (s : Heap) : Cell → Nat
  | .null => 0
  | .inl x => x.type
  | .ptr b => (match s.heap b with | some blk => blk.pay.type | none => 0)

def cellRef (s : Heap) : Cell → Nat
  | .ptr b => (match s.heap b with | some blk => blk.ref | none => 0)
  | _ => 0

/-- `toString() const` of the Variant in a cell -/
def cellStr (ds : DblSem) (s : Heap) : Cell → Str
  | .null => []
  | .inl x => x.toStr ds
  | .ptr b => (match s.heap b with | some ⟨_, .str t⟩ => t | _ => [])

/-- the abstract value of a cell (`fuel` bounds the nesting depth; `next + 1` always suffices) -/
def readCell : Nat → Heap → Cell → Val
  | 0, _, _ => .null
  | f + 1, s, c =>
    match c with
    | .null => .null
    | .inl x => x
    | .ptr b =>
      (match s.heap b with
       | none => .null
       | some blk =>
         (match blk.pay with
          | .str t => .str t
          | .list cs => .list (cs.map (readCell f s))
          | .array cs => .array (cs.map (readCell f s))
          | .map m => .map (m.map (fun p => (p.1, readCell f s p.2)))))

def DState.read (s : DState) (v : Nat) : Val := readCell (s.h.next + 1) s.h (s.vars v)

/-! ### reference counting -/

def incr (s : Heap) (b : Nat) : Heap :=
  match s.heap b with
  | some blk => { s with heap := upd s.heap b (some { blk with ref := blk.ref + 1 }) }
  | none => s

/-- `Variant(const Variant& other)`: the new object's cell -/
def copyCell (s : Heap) : Cell → Heap × Cell
  | .ptr b => (incr s b, .ptr b)
  | .inl x => (s, .inl x)
  | .null => (s, .inl .null)

def copyCells (s : Heap) : List Cell → Heap × List Cell
  | [] => (s, [])
  | c :: t =>
    let (s1, c') := copyCell s c
    let (s2, t') := copyCells s1 t
    (s2, c' :: t')

def copyMap (s : Heap) : List (Str × Cell) → Heap × List (Str × Cell)
  | [] => (s, [])
  | (k, c) :: t =>
    let (s1, c') := copyCell s c
    let (s2, t') := copyMap s1 t
    (s2, (k, c') :: t')

/-- copy construction of a payload: `String(const String&)`, `List(const List&)`, … -/
def copyPay (s : Heap) : Pay → Heap × Pay
  | .str x => (s, .str x)
  | .list cs => let (s', cs') := copyCells s cs; (s', .list cs')
  | .array cs => let (s', cs') := copyCells s cs; (s', .array cs')
  | .map m => let (s', m') := copyMap s m; (s', .map m')

/-- `clear()` / `~Variant()` of the Variant in a cell: decrement, and at zero destroy the payload
    (every element in turn) and free the block.  `none`: out of fuel or dangling pointer. -/
def release : Nat → Heap → Cell → Option Heap
  | 0, _, _ => none
  | f + 1, s, c =>
    match c with
    | .ptr b =>
      (match s.heap b with
       | none => none
       | some blk =>
         if blk.ref = 1 then
           blk.pay.cells.foldlM (fun s' c' => release f s' c') { s with heap := upd s.heap b none }
         else some { s with heap := upd s.heap b (some { blk with ref := blk.ref - 1 }) })
    | _ => some s

def releaseAll (fuel : Nat) (s : Heap) (cs : List Cell) : Option Heap :=
  cs.foldlM (fun s' c' => release fuel s' c') s

def alloc (s : Heap) (p : Pay) : Heap × Nat :=
  ({ s with heap := upd s.heap s.next (some ⟨1, p⟩), next := s.next + 1 }, s.next)

def setPay (s : Heap) (b : Nat) (p : Pay) : Heap :=
  match s.heap b with
  | some blk => { s with heap := upd s.heap b (some { blk with pay := p }) }
  | none => s

/-- a literal as a Variant of its own (scalars inline, a string in a fresh block) -/
def mkLit (s : Heap) (x : Val) : Heap × Cell :=
  match x with
  | .null => (s, .null)
  | .str t => let (s1, b) := alloc s (.str t); (s1, .ptr b)
  | x => (s, .inl x)

/-- the element a container operation stores for a source: a copy of the variable, or (literal)
    the copy of a temporary that is destroyed right after — one fresh handle either way -/
def srcCopy (rd : Nat → Cell) (s : Heap) : Src → Heap × Cell
  | .var w => copyCell s (rd w)
  | .lit x => mkLit s x

def srcCopies (rd : Nat → Cell) (s : Heap) : List Src → Heap × List Cell
  | [] => (s, [])
  | x :: t =>
    let (s1, c) := srcCopy rd s x
    let (s2, cs) := srcCopies rd s1 t
    (s2, c :: cs)

def emptyPay (ds : DblSem) (s : Heap) (kind : Nat) (c : Cell) : Pay :=
  if kind = 7 then .map [] else if kind = 8 then .list [] else if kind = 9 then .array [] else .str (cellStr ds s c)

/-- the copy of the const accessor's result: the payload when the type matches, else the static empty
    container / the string conversion -/
def accessPay (ds : DblSem) (s : Heap) (c : Cell) (kind : Nat) : Heap × Pay :=
  if cellType s c = kind then
    (match c with
     | .ptr b => (match s.heap b with | some blk => copyPay s blk.pay | none => (s, emptyPay ds s kind c))
     | _ => (s, emptyPay ds s kind c))
  else (s, emptyPay ds s kind c)

/-- the mutable accessor of type `kind` on the Variant in cell `c`; returns the new cell (a pointer
    to a block of that type with `ref = 1`) -/
def accessCell (fuel : Nat) (ds : DblSem) (s : Heap) (c : Cell) (kind : Nat) : Option (Heap × Cell) :=
  if cellType s c ≠ kind ∨ cellRef s c > 1 then
    let (s1, p) := accessPay ds s c kind
    let (s2, b) := alloc s1 p
    match release fuel s2 c with
    | some s3 => some (s3, .ptr b)
    | none => none
  else some (s, c)

/-! ### payload slots -/

def mapGet : List (Str × Cell) → Str → Option Cell
  | [], _ => none
  | (k', x) :: t, k => if k' == k then some x else mapGet t k

def mapPut : List (Str × Cell) → Str → Cell → List (Str × Cell)
  | [], _, _ => []
  | (k', x) :: t, k, c => if k' == k then (k', c) :: t else (k', x) :: mapPut t k c

def mapDel : List (Str × Cell) → Str → List (Str × Cell)
  | [], _ => []
  | (k', x) :: t, k => if k' == k then t else (k', x) :: mapDel t k

def Pay.getCell : Pay → Step → Option Cell
  | .list cs, .li i => cs[i]?
  | .array cs, .ar i => cs[i]?
  | .map m, .mk k => mapGet m k
  | _, _ => none

def Pay.setCell : Pay → Step → Cell → Pay
  | .list cs, .li i, c => .list (cs.set i c)
  | .array cs, .ar i, c => .array (cs.set i c)
  | .map m, .mk k, c => .map (mapPut m k c)
  | p, _, _ => p

/-- build the temporary `HashMap` of a typed map argument: `append(key, value)` overwrites an existing key -/
def tmpMap (fuel : Nat) (rd : Nat → Cell) (s : Heap) : List (Str × Src) → List (Str × Cell) → Option (Heap × List (Str × Cell))
  | [], acc => some (s, acc)
  | (k, x) :: t, acc =>
    let (s1, c) := srcCopy rd s x
    match mapGet acc k with
    | some old =>
      (match release fuel s1 old with
       | some s2 => tmpMap fuel rd s2 t (mapPut acc k c)
       | none => none)
    | none => tmpMap fuel rd s1 t (acc ++ [(k, c)])

/-- the temporary container of a typed constructor / assignment argument -/
def tmpPay (fuel : Nat) (rd : Nat → Cell) (s : Heap) : ValS → Option (Heap × Pay)
  | .lit (.str t) => some (s, .str t)
  | .lit _ => none
  | .list l => let (s1, cs) := srcCopies rd s l; some (s1, .list cs)
  | .array l => let (s1, cs) := srcCopies rd s l; some (s1, .array cs)
  | .map m => (tmpMap fuel rd s m []).map (fun r => (r.1, .map r.2))

/-- accessor of type `kind`, then a change of the payload through the returned reference: `f` yields
    the new payload and the element cells that leave it; the container unlinks them first and then
    destroys them (`List::remove`, `HashMap::remove`; an overwritten map value is released by the
    element's `operator=` after the new value has been taken) -/
def withAccess (fuel : Nat) (ds : DblSem) (s : Heap) (c : Cell) (kind : Nat)
    (f : Heap → Pay → Option (Heap × Pay × List Cell)) : Option (Heap × Cell) :=
  match accessCell fuel ds s c kind with
  | some (s1, .ptr b) =>
    (match s1.heap b with
     | some blk =>
       (match f s1 blk.pay with
        | some (s2, p', dead) => (releaseAll fuel (setPay s2 b p') dead).map (fun s3 => (s3, .ptr b))
        | none => none)
     | none => none)
  | _ => none

/-- the typed `operator=` for String / List / Array / HashMap with the temporary argument `p` -/
def setBoxedCell (fuel : Nat) (s : Heap) (c : Cell) (p : Pay) : Option (Heap × Cell) :=
  if cellType s c ≠ p.type ∨ cellRef s c > 1 then
    match release fuel s c with
    | some s1 =>
      let (s2, p') := copyPay s1 p
      let (s3, b) := alloc s2 p'
      some (s3, .ptr b)
    | none => none
  else
    match c with
    | .ptr b =>
      (match s.heap b with
       | some blk =>
         -- payload `= other`: the old elements go, copies of the new ones come (the model takes the
         -- copies first; the argument is a temporary that keeps its own handles, so the order is immaterial)
         let (s1, p') := copyPay s p
         (releaseAll fuel (setPay s1 b p') blk.pay.cells).map (fun s2 => (s2, .ptr b))
       | none => none)
    | _ => none

/-- the operation at the end of the path on the Variant in cell `c` -/
def leafOp (fuel : Nat) (ds : DblSem) (rd : Nat → Cell) (s : Heap) (c : Cell) : LeafS → Option (Heap × Cell)
  | .assign src =>
    -- operator=(const Variant&): take the source first, then clear(), then install
    let (s1, c') := srcCopy rd s src
    (release fuel s1 c).map (fun s2 => (s2, c'))
  | .set e =>
    (match e with
     | .lit x =>
       if x.isBoxed then
         (match x with
          | .str t => setBoxedCell fuel s c (.str t)
          | _ => none)
       else if cellType s c ≠ x.type then (release fuel s c).map (fun s1 => (s1, .inl x))
       else some (s, .inl x)
     | e =>
       (match tmpPay fuel rd s e with
        | some (s1, p) =>
          (match setBoxedCell fuel s1 c p with
           | some (s2, c') => (releaseAll fuel s2 p.cells).map (fun s3 => (s3, c'))
           | none => none)
        | none => none))
  | .clear => (release fuel s c).map (fun s1 => (s1, .null))
  | .touch k => accessCell fuel ds s c k
  | .lapp src => withAccess fuel ds s c 8 (fun s1 p =>
      match p with
      | .list cs => let (s2, c') := srcCopy rd s1 src; some (s2, .list (cs ++ [c']), [])
      | _ => none)
  | .lpre src => withAccess fuel ds s c 8 (fun s1 p =>
      match p with
      | .list cs => let (s2, c') := srcCopy rd s1 src; some (s2, .list (c' :: cs), [])
      | _ => none)
  | .lrem i => withAccess fuel ds s c 8 (fun s1 p =>
      match p with
      | .list cs => (match cs[i]? with
          | some old => some (s1, .list (cs.eraseIdx i), [old])
          | none => none)
      | _ => none)
  | .aapp src => withAccess fuel ds s c 9 (fun s1 p =>
      match p with
      | .array cs => let (s2, c') := srcCopy rd s1 src; some (s2, .array (cs ++ [c']), [])
      | _ => none)
  | .arem i => withAccess fuel ds s c 9 (fun s1 p =>
      match p with
      | .array cs => (match cs[i]? with
          | some old => some (s1, .array (cs.eraseIdx i), [old])
          | none => none)
      | _ => none)
  | .mput k src => withAccess fuel ds s c 7 (fun s1 p =>
      match p with
      | .map m =>
        let (s2, c') := srcCopy rd s1 src
        (match mapGet m k with
         | some old => some (s2, .map (mapPut m k c'), [old])
         | none => some (s2, .map (m ++ [(k, c')]), []))
      | _ => none)
  | .mrem k => withAccess fuel ds s c 7 (fun s1 p =>
      match p with
      | .map m => some (s1, .map (mapDel m k), (match mapGet m k with | some old => [old] | none => []))
      | _ => none)
  | .sapp t => withAccess fuel ds s c 10 (fun s1 p =>
      match p with
      | .str u => some (s1, .str (u ++ t), [])
      | _ => none)

/-- walk through the mutable accessors along an existing path, then the leaf; returns the new
    content of the cell the walk started from -/
def walkMut (fuel : Nat) (ds : DblSem) (rd : Nat → Cell) (s : Heap) (c : Cell) : List Step → LeafS → Option (Heap × Cell)
  | [], lf => leafOp fuel ds rd s c lf
  | st :: p, lf =>
    match accessCell fuel ds s c st.kind with
    | some (s1, .ptr b) =>
      (match s1.heap b with
       | some blk =>
         (match blk.pay.getCell st with
          | some ci =>
            -- the element is operated on where it stands; the model takes it out of its slot for the
            -- time of the nested call (nothing reads the slot meanwhile) and stores the result back
            (match walkMut fuel ds rd (setPay s1 b (blk.pay.setCell st .null)) ci p lf with
             | some (s2, ci') =>
               (match s2.heap b with
                | some blk2 => some (setPay s2 b (blk2.pay.setCell st ci'), .ptr b)
                | none => none)
             | none => none)
          | none => none)
       | none => none)
    | _ => none

/-- const walk to an element cell -/
def getCellPath (s : Heap) (c : Cell) : List Step → Option Cell
  | [] => some c
  | st :: p =>
    match c with
    | .ptr b =>
      (match s.heap b with
       | some blk => (match blk.pay.getCell st with | some ci => getCellPath s ci p | none => none)
       | none => none)
    | _ => none

def setVar (s : DState) (v : Nat) (c : Cell) : DState := { s with vars := upd s.vars v c }

/-- `operator=(const Variant&)` on variable `v` with the source cell `c` (a variable's or an element's) -/
def assignFrom (fuel : Nat) (s : DState) (v : Nat) (c : Cell) : Option DState :=
  let (h1, c') := copyCell s.h c
  (release fuel h1 (s.vars v)).map (fun h2 => { h := h2, vars := upd s.vars v c' })

/-- `~Variant()` of variable `v` followed by a typed constructor in the same storage.  The
    temporary argument (copies of variables, possibly of `v` itself) exists before the destructor runs. -/
def newVar (fuel : Nat) (s : DState) (v : Nat) : ValS → Option DState
  | .lit (.str t) =>
    (release fuel s.h (s.vars v)).map (fun h1 => let (h2, b) := alloc h1 (.str t); { h := h2, vars := upd s.vars v (.ptr b) })
  | .lit .null => (release fuel s.h (s.vars v)).map (fun h1 => { h := h1, vars := upd s.vars v .null })
  | .lit x =>
    if x.isBoxed then none
    else (release fuel s.h (s.vars v)).map (fun h1 => { h := h1, vars := upd s.vars v (.inl x) })
  | e =>
    (match tmpPay fuel s.vars s.h e with
     | some (h1, p) =>
       (match release fuel h1 (s.vars v) with
        | some h2 =>
          let (h3, p') := copyPay h2 p
          let (h4, b) := alloc h3 p'
          (releaseAll fuel h4 p.cells).map (fun h5 => { h := h5, vars := upd s.vars v (.ptr b) })
        | none => none)
     | none => none)

/-- `mut v path set <temporary containing v>` below the root (`selfTemp`): the temporary exists before the accessor
    chain runs.  The model keeps one copy of `v` in the spare slot `tmpVar` for the time of the walk (so the root
    accessor sees `ref > 1` exactly as with the caller's temporary), lets the leaf build its temporary from that copy,
    and destroys the copy afterwards. -/
def selfTempStep (fuel : Nat) (ds : DblSem) (s : DState) (v : Nat) (p : List Step) (e : ValS) : Option DState :=
  match walkMut fuel ds (upd s.vars tmpVar (copyCell s.h (s.vars v)).2) (copyCell s.h (s.vars v)).1 (s.vars v) p
      (.set (e.redirect v tmpVar)) with
  | some (h2, c') => (release fuel h2 (copyCell s.h (s.vars v)).2).map (fun h3 => { h := h3, vars := upd s.vars v c' })
  | none => none

def leafSize : LeafS → Nat
  | .set (.list l) => l.length
  | .set (.array l) => l.length
  | .set (.map m) => m.length
  | _ => 1

/-- bound on the number of blocks an operation allocates (clones along the path, temporaries) -/
def allocBound : Op → Nat
  | .new _ (.list l) => l.length + 2
  | .new _ (.array l) => l.length + 2
  | .new _ (.map m) => m.length + 2
  | .mut _ p lf => p.length + leafSize lf + 3
  | _ => 2

/-- One operation (validity of the line is decided on the abstract values by the caller, as the
    harness decides it on the const view before it touches anything).  `none` = fault (out of
    fuel / dangling pointer), which never happens on valid lines. -/
def dstep (ds : DblSem) (s : DState) (op : Op) : Option DState :=
  let fuel := s.h.next + allocBound op + 1
  match op with
  | .new v e => newVar fuel s v e
  | .copy v w =>
    (match release fuel s.h (s.vars v) with
     | some h1 => let (h2, c) := copyCell h1 (s.vars w); some { h := h2, vars := upd s.vars v c }
     | none => none)
  | .mut v p lf =>
    (match p, lf with
     | [], .assign (.var w) => if v = w then some s else assignFrom fuel s v (s.vars w)
     | p, lf =>
       if selfTemp v p lf then
         (match lf with
          | .set e => selfTempStep fuel ds s v p e
          | _ => none)
       else (walkMut fuel ds s.vars s.h (s.vars v) p lf).map (fun r => { h := r.1, vars := upd s.vars v r.2 }))
  | .get v w p =>
    (match getCellPath s.h (s.vars w) p with
     | some c => if p.isEmpty && v = w then some s else assignFrom fuel s v c
     | none => none)
  | .swap v w =>
    let (h1, t) := copyCell s.h (s.vars w)
    let s1 : DState := { h := h1, vars := upd s.vars tmpVar t }
    (match (if w = v then some s1 else assignFrom fuel s1 w (s1.vars v)) with
     | some s2 =>
       (match assignFrom fuel s2 v (s2.vars tmpVar) with
        | some s3 => (release fuel s3.h (s3.vars tmpVar)).map (fun h4 => { h := h4, vars := upd s3.vars tmpVar .null })
        | none => none)
     | none => none)

end Nstd.Variant.Deep
