import Nstd.Variant.LemmasDec
/-
  `strtol` / `strtoul` (= `atoll`, `strtoull`; `atoi`, `(uint)strtoul` after the C cast) on *every* string of
  the shape   white space*  sign?  digit*  rest   — all digit strings, however long, with the clamping /
  wrap-around of libc — against the positional value `decVal` of the digit string (Σ dᵢ·10^(n-1-i), defined
  without the parsers' accumulator loop).
-/
namespace Nstd.Variant

/-- the number a string of decimal digits denotes: Σ dᵢ · 10^(n-1-i) -/
def decVal : Str → Nat
  | [] => 0
  | c :: t => (c - 48) * 10 ^ t.length + decVal t

inductive Sign where
  | none | plus | minus
  deriving DecidableEq

def Sign.str : Sign → Str
  | .none => [] | .plus => [43] | .minus => [45]

def Sign.neg : Sign → Bool
  | .minus => true | _ => false

/-- `ws ++ sign ++ digits ++ rest` is how the libc parsers split the string: white space, an optional sign, the
    longest run of digits (possibly empty), and a rest that begins with no digit (it may contain anything, NUL
    included).  `bare`: with neither sign nor digit the rest must not begin with something the parser would still
    consume (more white space, a sign). -/
structure NumSyntax (ws : Str) (sg : Sign) (ds rest : Str) : Prop where
  space : ∀ c ∈ ws, isSpace c = true
  digits : AllDigits ds
  stop : ∀ c, rest.head? = some c → isDigit c = false
  bare : sg = .none → ds = [] → ∀ c, rest.head? = some c → isSpace c = false ∧ c ≠ 43 ∧ c ≠ 45

theorem digitsVal_stop (rest : Str) (h : ∀ c, rest.head? = some c → isDigit c = false) (acc : Nat) :
    digitsVal rest acc = acc := by
  cases rest with
  | nil => rfl
  | cons c t => simp [digitsVal, h c rfl]

/-- the accumulator loop computes the positional value, on every run of digits -/
theorem digitsVal_all (ds : Str) (h : AllDigits ds) (rest : Str) (hr : ∀ c, rest.head? = some c → isDigit c = false) :
    ∀ acc, digitsVal (ds ++ rest) acc = acc * 10 ^ ds.length + decVal ds := by
  induction ds with
  | nil => intro acc; simp [digitsVal_stop rest hr, decVal]
  | cons c t ih =>
    intro acc
    have hc : isDigit c = true := h c (by simp)
    have ht : AllDigits t := fun x hx => h x (by simp [hx])
    simp only [List.cons_append, digitsVal, hc, if_true, ih ht, decVal, List.length_cons, Nat.pow_succ]
    rw [Nat.add_mul, Nat.mul_assoc, Nat.mul_comm 10, Nat.add_assoc]

theorem cstr_append_nonzero (a rest : Str) (h : ∀ c ∈ a, c ≠ 0) : cstr (a ++ rest) = a ++ cstr rest := by
  unfold cstr
  induction a with
  | nil => rfl
  | cons c t ih =>
    have hc : c ≠ 0 := h c (by simp)
    simp only [List.cons_append, List.takeWhile, ne_eq, hc, not_false_eq_true, decide_true]
    rw [ih (fun x hx => h x (by simp [hx]))]

theorem cstr_head (rest : Str) (c : Nat) (h : (cstr rest).head? = some c) : rest.head? = some c := by
  unfold cstr at h
  cases rest with
  | nil => simp at h
  | cons d t =>
    by_cases hd : d = 0
    · simp [List.takeWhile, hd] at h
    · simp [List.takeWhile, hd] at h; simp [h]

theorem dropWhile_spaces (ws x : Str) (h : ∀ c ∈ ws, isSpace c = true) : (ws ++ x).dropWhile isSpace = x.dropWhile isSpace := by
  induction ws with
  | nil => rfl
  | cons c t ih =>
    simp only [List.cons_append, List.dropWhile, h c (by simp)]
    exact ih (fun x hx => h x (by simp [hx]))

theorem isSpace_nonzero (c : Nat) (h : isSpace c = true) : c ≠ 0 := by
  intro e; subst e; simp [isSpace] at h

theorem isDigit_nonzero (c : Nat) (h : isDigit c = true) : c ≠ 0 := by
  have := (isDigit_iff c).1 h; omega

theorem isDigit_notSpace (c : Nat) (h : isDigit c = true) : isSpace c = false ∧ c ≠ 43 ∧ c ≠ 45 := by
  have := (isDigit_iff c).1 h
  refine ⟨?_, by omega, by omega⟩
  simp [isSpace]; omega

/-- the split the parsers make: sign and magnitude, for every string of the shape -/
theorem parseDec_syntax {ws : Str} {sg : Sign} {ds rest : Str} (h : NumSyntax ws sg ds rest) :
    parseDec (ws ++ sg.str ++ ds ++ rest) = (sg.neg, decVal ds) := by
  have hnz : ∀ c ∈ ws ++ sg.str ++ ds, c ≠ 0 := by
    intro c hc
    simp only [List.mem_append] at hc
    rcases hc with (hc | hc) | hc
    · exact isSpace_nonzero c (h.space c hc)
    · cases sg <;> simp [Sign.str] at hc <;> omega
    · exact isDigit_nonzero c (h.digits c hc)
  have hstop : ∀ c, (cstr rest).head? = some c → isDigit c = false := fun c hc => h.stop c (cstr_head rest c hc)
  unfold parseDec
  rw [cstr_append_nonzero _ rest hnz, List.append_assoc, List.append_assoc, dropWhile_spaces _ _ h.space]
  cases sg with
  | minus =>
    have : isSpace 45 = false := by decide
    simp only [Sign.str, List.cons_append, List.nil_append, List.dropWhile, this, Sign.neg]
    simp [digitsVal_all ds h.digits _ hstop 0]
  | plus =>
    have : isSpace 43 = false := by decide
    simp only [Sign.str, List.cons_append, List.nil_append, List.dropWhile, this, Sign.neg]
    simp [digitsVal_all ds h.digits _ hstop 0]
  | none =>
    simp only [Sign.str, List.nil_append, Sign.neg]
    cases ds with
    | cons d t =>
      obtain ⟨h1, h2, h3⟩ := isDigit_notSpace d (h.digits d (by simp))
      simp only [List.cons_append, List.dropWhile, h1]
      have e1 : (d == 45) = false := by simpa using h3
      have e2 : (d == 43) = false := by simpa using h2
      simp only [e1, e2, Bool.false_eq_true, if_false]
      have := digitsVal_all (d :: t) h.digits _ hstop 0
      simp only [List.cons_append] at this
      rw [this]; simp
    | nil =>
      simp only [List.nil_append, decVal]
      cases hr : cstr rest with
      | nil => simp [List.dropWhile]
      | cons c u =>
        obtain ⟨h1, h2, h3⟩ := h.bare rfl rfl c (cstr_head rest c (by simp [hr]))
        have hd : isDigit c = false := hstop c (by simp [hr])
        simp only [List.dropWhile, h1]
        have e1 : (c == 45) = false := by simpa using h3
        have e2 : (c == 43) = false := by simpa using h2
        simp [e1, e2, digitsVal, hd]

/-- `LLONG_MIN … LLONG_MAX` clamping of `strtoll` -/
def clampS64 (x : Int) : Int :=
  if x < -9223372036854775808 then -9223372036854775808 else if x > 9223372036854775807 then 9223372036854775807 else x

/-- the signed value the text denotes -/
def signedVal (sg : Sign) (ds : Str) : Int := if sg.neg then -(decVal ds : Int) else (decVal ds : Int)

/-- `atoll` / `strtol(s, 0, 10)` on every string `ws sign digits rest`: the denoted integer, clamped to the range of
    `long long` when it does not fit (however many digits there are) -/
theorem strtol_syntax {ws : Str} {sg : Sign} {ds rest : Str} (h : NumSyntax ws sg ds rest) :
    strtol (ws ++ sg.str ++ ds ++ rest) = clampS64 (signedVal sg ds) := by
  have e63 : (2 : Nat) ^ 63 = 9223372036854775808 := by decide
  have e63i : (2 : Int) ^ 63 = 9223372036854775808 := by decide
  unfold strtol
  rw [parseDec_syntax h]
  simp only [clampS64, signedVal]
  by_cases hn : sg.neg = true
  · simp only [hn, if_true, e63, e63i]
    repeat' split
    all_goals omega
  · simp only [hn, Bool.false_eq_true, if_false, e63, e63i]
    repeat' split
    all_goals omega

/-- `strtoull` / `strtoul(s, 0, 10)` on every string `ws sign digits rest`: `ULLONG_MAX` when the magnitude does not
    fit, otherwise the magnitude, negated modulo 2^64 after a minus sign -/
theorem strtoul_syntax {ws : Str} {sg : Sign} {ds rest : Str} (h : NumSyntax ws sg ds rest) :
    strtoul (ws ++ sg.str ++ ds ++ rest) =
      if decVal ds > 18446744073709551615 then 18446744073709551615
      else if sg.neg ∧ decVal ds ≠ 0 then 18446744073709551616 - (decVal ds : Int) else (decVal ds : Int) := by
  have e64 : (2 : Nat) ^ 64 = 18446744073709551616 := by decide
  unfold strtoul
  rw [parseDec_syntax h]
  simp only [wrapU, pow64, e64]
  by_cases hn : sg.neg = true
  · simp only [hn, if_true, true_and]
    repeat' split
    all_goals omega
  · simp only [hn, Bool.false_eq_true, if_false, false_and]
    repeat' split
    all_goals omega

end Nstd.Variant
