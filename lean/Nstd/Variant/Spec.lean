import Nstd.Variant.Model
/-
  Specification of property C07: a *store of values*.  Every variable holds a `Val`;
  copying copies the value, an operation on variable `v` replaces the value of `v` and of
  no other variable.  No blocks, no reference counts, no sharing.
-/
namespace Nstd.Variant

abbrev Store := Nat → Val

def Store.init : Store := fun _ => .null

/-- is the leaf the typed assignment of a null value (there is no such `operator=`) -/
def LeafS.setsNull (rd : Nat → Val) : LeafS → Bool
  | .set e => (e.eval rd).type == 0
  | _ => false

def specStep (ds : DblSem) (σ : Store) : Op → Option Store
  | .new v e => if v < nvars ∧ allLt e.vars then some (upd σ v (e.eval σ)) else none
  | .copy v w => if v < nvars ∧ w < nvars then (if v = w then none else some (upd σ v (σ w))) else none
  | .mut v p lf =>
    if v < nvars ∧ allLt lf.vars ∧ mutOk v p lf then
      if lf.setsNull σ then none
      else (updPath p ((lf.eval σ).apply ds) (σ v)).map (fun y => upd σ v y)
    else none
  | .get v w p => if v < nvars ∧ w < nvars then (getPath p (σ w)).map (fun y => upd σ v y) else none
  | .swap v w => if v < nvars ∧ w < nvars then some (upd (upd σ w (σ v)) v (σ w)) else none

def specStepD (ds : DblSem) (σ : Store) (op : Op) : Store :=
  match specStep ds σ op with
  | some σ' => σ'
  | none => σ

def specRun (ds : DblSem) (σ : Store) (ops : List Op) : Store := ops.foldl (specStepD ds) σ

/-- the variables an operation may change -/
def Op.targets : Op → List Nat
  | .new v _ => [v]
  | .copy v _ => [v]
  | .mut v _ _ => [v]
  | .get v _ _ => [v]
  | .swap v w => [v, w]

end Nstd.Variant
