import Nstd.Variant.DeepAccess
/-
  Counting and membership lemmas for the slots of a payload (`List.set`, `mapPut`, `Pay.setCell`).
-/
namespace Nstd.Variant.Deep
open Nstd.Variant

theorem cnt_set (cs : List Cell) (i : Nat) (c ci : Cell) (x : Nat) (hi : cs[i]? = some ci) :
    cntCells (cs.set i c) x + cellCnt ci x = cntCells cs x + cellCnt c x := by
  induction cs generalizing i with
  | nil => simp at hi
  | cons d t ih =>
    cases i with
    | zero =>
      simp at hi; subst hi
      simp only [List.set_cons_zero, cntCells_cons]; omega
    | succ n =>
      simp at hi
      simp only [List.set_cons_succ, cntCells_cons]
      have := ih n hi; omega

theorem cnt_mapPut (m : List (Str × Cell)) (k : Str) (c ci : Cell) (x : Nat) (hi : mapGet m k = some ci) :
    cntCells ((mapPut m k c).map (·.2)) x + cellCnt ci x = cntCells (m.map (·.2)) x + cellCnt c x := by
  induction m with
  | nil => simp [mapGet] at hi
  | cons q t ih =>
    obtain ⟨k', d⟩ := q
    simp only [mapGet] at hi
    by_cases hk : (k' == k) = true
    · simp only [hk, if_true, Option.some.injEq] at hi; subst hi
      simp only [mapPut, hk, if_true, List.map_cons, cntCells_cons]; omega
    · have hk' : (k' == k) = false := by simpa using hk
      simp only [hk', Bool.false_eq_true, if_false] at hi
      simp only [mapPut, hk', Bool.false_eq_true, if_false, List.map_cons, cntCells_cons]
      have := ih hi; omega

theorem cnt_setCell (p : Pay) (st : Step) (c ci : Cell) (x : Nat) (hi : p.getCell st = some ci) :
    cntCells (p.setCell st c).cells x + cellCnt ci x = cntCells p.cells x + cellCnt c x := by
  cases p <;> cases st <;> simp [Pay.getCell] at hi
  · exact cnt_set _ _ c ci x hi
  · exact cnt_set _ _ c ci x hi
  · exact cnt_mapPut _ _ c ci x hi

theorem mem_cells_of_getCell (p : Pay) (st : Step) (ci : Cell) (hi : p.getCell st = some ci) : ci ∈ p.cells := by
  cases p <;> cases st <;> simp [Pay.getCell] at hi
  · exact List.mem_of_getElem? hi
  · exact List.mem_of_getElem? hi
  · rename_i m k
    simp only [Pay.cells]
    induction m with
    | nil => simp [mapGet] at hi
    | cons q t iht =>
      obtain ⟨k', d⟩ := q
      simp only [mapGet] at hi
      by_cases hk : (k' == k) = true
      · simp [hk] at hi; subst hi; simp
      · have : (k' == k) = false := by simpa using hk
        simp only [this, Bool.false_eq_true, if_false] at hi
        simp only [List.map_cons, List.mem_cons]; exact Or.inr (iht hi)

theorem cellCnt_le_of_mem (cs : List Cell) (c : Cell) (x : Nat) (h : c ∈ cs) : cellCnt c x ≤ cntCells cs x := by
  induction cs with
  | nil => cases h
  | cons d t ih =>
    rw [cntCells_cons]
    simp only [List.mem_cons] at h
    rcases h with rfl | h
    · omega
    · have := ih h; omega

theorem mem_mapPut (m : List (Str × Cell)) (k : Str) (c d : Cell) (h : d ∈ (mapPut m k c).map (·.2)) :
    d ∈ m.map (·.2) ∨ d = c := by
  induction m with
  | nil => simp [mapPut] at h
  | cons q t ih =>
    obtain ⟨k', e⟩ := q
    simp only [mapPut] at h
    by_cases hk : (k' == k) = true
    · simp only [hk, if_true, List.map_cons, List.mem_cons] at h
      rcases h with h | h
      · exact Or.inr h
      · exact Or.inl (by simp [h])
    · have hk' : (k' == k) = false := by simpa using hk
      simp only [hk', Bool.false_eq_true, if_false, List.map_cons, List.mem_cons] at h
      rcases h with h | h
      · exact Or.inl (by simp [h])
      · rcases ih h with h2 | h2
        · exact Or.inl (by simp only [List.map_cons, List.mem_cons]; exact Or.inr h2)
        · exact Or.inr h2

end Nstd.Variant.Deep
