import Nstd.Variant.DeepPriv
/-
  The nested mutable walk of the deep model (`walkMut`): every level takes the accessor's
  clone-or-in-place decision on the element cell, the element is operated on, and the result
  is stored back into the (uniquely owned) parent block.
-/
namespace Nstd.Variant.Deep
open Nstd.Variant

/-! ### slots at the value level -/

def setSlot : Val → Step → Val → Val
  | .list l, .li i, v => .list (l.set i v)
  | .array l, .ar i, v => .array (l.set i v)
  | .map m, .mk k, v => .map (mapSet m k v)
  | x, _, _ => x

theorem mapSet_abs (g : Nat → Val) (m : List (Str × Cell)) (k : Str) (c : Cell) :
    (mapPut m k c).map (fun p => (p.1, absCell g p.2)) = mapSet (m.map (fun p => (p.1, absCell g p.2))) k (absCell g c) := by
  induction m with
  | nil => rfl
  | cons q t ih =>
    obtain ⟨k', d⟩ := q
    simp only [mapPut, List.map_cons, mapSet]
    by_cases hk : (k' == k) = true
    · simp [hk]
    · have : (k' == k) = false := by simpa using hk
      simp [this, ih]

theorem absPay_setCell (g : Nat → Val) (p : Pay) (st : Step) (c : Cell) :
    absPay g (p.setCell st c) = setSlot (absPay g p) st (absCell g c) := by
  cases p <;> cases st <;> simp [Pay.setCell, absPay, setSlot, List.map_set, mapSet_abs]

theorem mapSet_mapSet (m : List (Str × Val)) (k : Str) (a b : Val) : mapSet (mapSet m k a) k b = mapSet m k b := by
  induction m with
  | nil => rfl
  | cons q t ih =>
    obtain ⟨k', d⟩ := q
    simp only [mapSet]
    by_cases hk : (k' == k) = true
    · simp [hk, mapSet]
    · have : (k' == k) = false := by simpa using hk
      simp [this, mapSet, ih]

theorem setSlot_setSlot (x : Val) (st : Step) (a b : Val) : setSlot (setSlot x st a) st b = setSlot x st b := by
  cases x <;> cases st <;> simp [setSlot, List.set_set, mapSet_mapSet]

theorem updPath_cons_decomp {st : Step} {p : List Step} {f : Val → Option Val} {x y : Val}
    (h : updPath (st :: p) f x = some y) :
    ∃ xi yi, getPath [st] x = some xi ∧ updPath p f xi = some yi ∧ y = setSlot x st yi := by
  cases st with
  | li i =>
    cases x <;> simp only [updPath] at h <;> try cases h
    rename_i l
    cases hl : l[i]? with
    | none => simp [hl] at h
    | some z =>
      simp only [hl] at h
      cases hu : updPath p f z with
      | none => simp [hu] at h
      | some y' => simp [hu] at h; subst h; exact ⟨z, y', by simp [getPath, Val.asList, hl], hu, rfl⟩
  | ar i =>
    cases x <;> simp only [updPath] at h <;> try cases h
    rename_i l
    cases hl : l[i]? with
    | none => simp [hl] at h
    | some z =>
      simp only [hl] at h
      cases hu : updPath p f z with
      | none => simp [hu] at h
      | some y' => simp [hu] at h; subst h; exact ⟨z, y', by simp [getPath, Val.asArray, hl], hu, rfl⟩
  | mk k =>
    cases x <;> simp only [updPath] at h <;> try cases h
    rename_i m
    cases hl : mapFind m k with
    | none => simp [hl] at h
    | some z =>
      simp only [hl] at h
      cases hu : updPath p f z with
      | none => simp [hu] at h
      | some y' => simp [hu] at h; subst h; exact ⟨z, y', by simp [getPath, Val.asMap, hl], hu, rfl⟩

/-! ### slots at the cell level -/

theorem mapGet_mapPut (m : List (Str × Cell)) (k : Str) (c ci : Cell) (h : mapGet m k = some ci) :
    mapGet (mapPut m k c) k = some c := by
  induction m with
  | nil => simp [mapGet] at h
  | cons q t ih =>
    obtain ⟨k', d⟩ := q
    simp only [mapGet] at h
    by_cases hk : (k' == k) = true
    · simp [mapPut, mapGet, hk]
    · have hk' : (k' == k) = false := by simpa using hk
      simp only [hk', Bool.false_eq_true, if_false] at h
      simp [mapPut, mapGet, hk', ih h]

theorem getCell_setCell (p : Pay) (st : Step) (c ci : Cell) (h : p.getCell st = some ci) :
    (p.setCell st c).getCell st = some c := by
  cases p <;> cases st <;> simp [Pay.getCell] at h
  · rename_i cs i
    have hi : i < cs.length := by
      by_cases hl : i < cs.length
      · exact hl
      · rw [List.getElem?_eq_none (by omega)] at h; cases h
    simp [Pay.setCell, Pay.getCell, hi]
  · rename_i cs i
    have hi : i < cs.length := by
      by_cases hl : i < cs.length
      · exact hl
      · rw [List.getElem?_eq_none (by omega)] at h; cases h
    simp [Pay.setCell, Pay.getCell, hi]
  · simp [Pay.setCell, Pay.getCell, mapGet_mapPut _ _ c ci h]

theorem mem_mapPut (m : List (Str × Cell)) (k : Str) (c d : Cell) (h : d ∈ (mapPut m k c).map (·.2)) :
    d ∈ m.map (·.2) ∨ d = c := by
  induction m with
  | nil => simp [mapPut] at h
  | cons q t ih =>
    obtain ⟨k', e⟩ := q
    simp only [mapPut] at h
    by_cases hk : (k' == k) = true
    · simp only [hk, if_true, List.map_cons, List.mem_cons] at h
      rcases h with h | h
      · exact Or.inr h
      · exact Or.inl (by simp [h])
    · have hk' : (k' == k) = false := by simpa using hk
      simp only [hk', Bool.false_eq_true, if_false, List.map_cons, List.mem_cons] at h
      rcases h with h | h
      · exact Or.inl (by simp [h])
      · rcases ih h with h2 | h2
        · exact Or.inl (by simp only [List.map_cons, List.mem_cons]; exact Or.inr h2)
        · exact Or.inr h2

theorem mem_setCell (p : Pay) (st : Step) (c d : Cell) (h : d ∈ (p.setCell st c).cells) : d ∈ p.cells ∨ d = c := by
  cases p <;> cases st <;> simp only [Pay.setCell, Pay.cells] at h ⊢ <;> try exact Or.inl h
  · rcases List.mem_or_eq_of_mem_set h with h | h
    · exact Or.inl h
    · exact Or.inr h
  · rcases List.mem_or_eq_of_mem_set h with h | h
    · exact Or.inl h
    · exact Or.inr h
  · exact mem_mapPut _ _ c d h

theorem bounded_of_dinv {h : Heap} {vars e g} (i : DInv h vars e g) : Bounded h := fun j blk hj => i.lt_next j blk hj

theorem liveCount_setPay (h : Heap) (b : Nat) (p : Pay) : liveCount (setPay h b p) = liveCount h := by
  apply liveCount_sameLive
  refine ⟨setPay_next h b p, ?_⟩
  intro x
  unfold setPay
  cases hb : h.heap b with
  | none => rfl
  | some blk =>
    simp only
    by_cases ex : x = b
    · subst ex; simp [hb]
    · simp [upd_other _ _ _ _ ex]

theorem setPay_heap_same (h : Heap) (b : Nat) (blk : Block) (p : Pay) (hb : h.heap b = some blk) :
    (setPay h b p).heap b = some { blk with pay := p } := by simp [setPay, hb]

theorem stored_setPay_self (h : Heap) (hb : Bounded h) (b : Nat) (blk : Block) (hbb : h.heap b = some blk) (p : Pay)
    (hs : stored h.heap h.next b = 0) (hp : cntCells p.cells b = 0) :
    stored (setPay h b p).heap (setPay h b p).next b = 0 := by
  have := stored_upd h.heap b (some { blk with pay := p }) h.next b (hb b blk hbb)
  simp only [hbb, cntBlk] at this
  have h2 := cnt_le_stored h hb b blk hbb b
  simp only [setPay, hbb]; omega

/-! ### locality of the walk -/

theorem walkMut_keeps (f : Nat) (ds : DblSem) (rd : Nat → Cell) (lf : LeafS) (hsup : LeafSupS lf) :
    ∀ (p : List Step) (h : Heap) (c : Cell) (h' : Heap) (c' : Cell) (x : Nat),
      walkMut f ds rd h c p lf = some (h', c') → Bounded h → x < h.next → cellCnt c x = 0 →
      (∀ w ∈ lf.vars, cellCnt (rd w) x = 0) → stored h.heap h.next x = 0 → Keeps h h' x ∧ cellCnt c' x = 0 := by
  intro p
  induction p with
  | nil =>
    intro h c h' c' x r hb hx hc hsrc hs
    exact leafOp_keeps f ds rd h c lf h' c' x r hsup hb hx hc hsrc hs
  | cons st p ih =>
    intro h c h' c' x r hb hx hc hsrc hs
    simp only [walkMut] at r
    cases ha : accessCell f ds h c st.kind with
    | none => rw [ha] at r; cases r
    | some q =>
      obtain ⟨h1, c1⟩ := q
      rw [ha] at r
      cases c1 with
      | null => cases r
      | inl y => cases r
      | ptr b =>
        simp only at r
        obtain ⟨k1, cb⟩ := accessCell_keeps f ds h c st.kind h1 (.ptr b) x ha hb hx hc hs
        have hbx : b ≠ x := by intro e; subst e; simp [cellCnt_ptr] at cb
        cases hbb : h1.heap b with
        | none => rw [hbb] at r; cases r
        | some blk =>
          rw [hbb] at r
          simp only at r
          cases hci : blk.pay.getCell st with
          | none => rw [hci] at r; cases r
          | some ci =>
            rw [hci] at r
            simp only at r
            have hold := cnt_le_stored h1 k1.bnd b blk hbb x
            have hcs := cnt_setCell blk.pay st .null ci x hci
            have hcix : cellCnt ci x = 0 := by
              have := cellCnt_le_of_mem _ ci x (mem_cells_of_getCell _ _ _ hci)
              have := k1.unst; omega
            have k2 := setPay_keeps h1 k1.bnd b (blk.pay.setCell st .null) x hbx
              (by have := k1.unst; simp at hcs; omega) k1.unst
            cases hw : walkMut f ds rd (setPay h1 b (blk.pay.setCell st .null)) ci p lf with
            | none => rw [hw] at r; cases r
            | some q2 =>
              obtain ⟨h2, ci'⟩ := q2
              rw [hw] at r
              simp only at r
              obtain ⟨k3, cci⟩ := ih _ ci h2 ci' x hw k2.bnd (by have := k1.mono; have := k2.mono; omega) hcix hsrc k2.unst
              cases hb2 : h2.heap b with
              | none => rw [hb2] at r; cases r
              | some blk2 =>
                rw [hb2] at r
                simp only [Option.some.injEq, Prod.mk.injEq] at r
                obtain ⟨e1, e2⟩ := r
                subst e1 e2
                have hold2 := cnt_le_stored h2 k3.bnd b blk2 hb2 x
                have hle : cntCells (blk2.pay.setCell st ci').cells x = 0 := by
                  -- every cell of the new payload is an old one or ci'
                  cases hz : cntCells (blk2.pay.setCell st ci').cells x with
                  | zero => rfl
                  | succ n =>
                    have hm := mem_of_cntCells_pos _ _ (show 0 < cntCells (blk2.pay.setCell st ci').cells x by omega)
                    rcases mem_setCell _ _ _ _ hm with hm | hm
                    · have := cntCells_pos_of_mem _ _ hm; have := k3.unst; omega
                    · rw [← hm] at cci; simp [cellCnt_ptr] at cci
                have k4 := setPay_keeps h2 k3.bnd b _ x hbx hle k3.unst
                exact ⟨((k1.trans k2).trans k3).trans k4, cb⟩

end Nstd.Variant.Deep
