import Nstd.Variant.DeepPriv
/-
  The nested mutable walk of the deep model (`walkMut`): every level takes the accessor's
  clone-or-in-place decision on the element cell, the element is operated on, and the result
  is stored back into the (uniquely owned) parent block.
-/
namespace Nstd.Variant.Deep
open Nstd.Variant

/-! ### slots at the value level -/

def setSlot : Val → Step → Val → Val
  | .list l, .li i, v => .list (l.set i v)
  | .array l, .ar i, v => .array (l.set i v)
  | .map m, .mk k, v => .map (mapSet m k v)
  | x, _, _ => x

theorem mapSet_abs (g : Nat → Val) (m : List (Str × Cell)) (k : Str) (c : Cell) :
    (mapPut m k c).map (fun p => (p.1, absCell g p.2)) = mapSet (m.map (fun p => (p.1, absCell g p.2))) k (absCell g c) := by
  induction m with
  | nil => rfl
  | cons q t ih =>
    obtain ⟨k', d⟩ := q
    simp only [mapPut, List.map_cons, mapSet]
    by_cases hk : (k' == k) = true
    · simp [hk]
    · have : (k' == k) = false := by simpa using hk
      simp [this, ih]

theorem absPay_setCell (g : Nat → Val) (p : Pay) (st : Step) (c : Cell) :
    absPay g (p.setCell st c) = setSlot (absPay g p) st (absCell g c) := by
  cases p <;> cases st <;> simp [Pay.setCell, absPay, setSlot, List.map_set, mapSet_abs]

theorem mapSet_mapSet (m : List (Str × Val)) (k : Str) (a b : Val) : mapSet (mapSet m k a) k b = mapSet m k b := by
  induction m with
  | nil => rfl
  | cons q t ih =>
    obtain ⟨k', d⟩ := q
    simp only [mapSet]
    by_cases hk : (k' == k) = true
    · simp [hk, mapSet]
    · have : (k' == k) = false := by simpa using hk
      simp [this, mapSet, ih]

theorem setSlot_setSlot (x : Val) (st : Step) (a b : Val) : setSlot (setSlot x st a) st b = setSlot x st b := by
  cases x <;> cases st <;> simp [setSlot, List.set_set, mapSet_mapSet]

theorem updPath_cons_decomp {st : Step} {p : List Step} {f : Val → Option Val} {x y : Val}
    (h : updPath (st :: p) f x = some y) :
    ∃ xi yi, getPath [st] x = some xi ∧ updPath p f xi = some yi ∧ y = setSlot x st yi := by
  cases st with
  | li i =>
    cases x <;> simp only [updPath] at h <;> try cases h
    rename_i l
    cases hl : l[i]? with
    | none => simp [hl] at h
    | some z =>
      simp only [hl] at h
      cases hu : updPath p f z with
      | none => simp [hu] at h
      | some y' => simp [hu] at h; subst h; exact ⟨z, y', by simp [getPath, Val.asList, hl], hu, rfl⟩
  | ar i =>
    cases x <;> simp only [updPath] at h <;> try cases h
    rename_i l
    cases hl : l[i]? with
    | none => simp [hl] at h
    | some z =>
      simp only [hl] at h
      cases hu : updPath p f z with
      | none => simp [hu] at h
      | some y' => simp [hu] at h; subst h; exact ⟨z, y', by simp [getPath, Val.asArray, hl], hu, rfl⟩
  | mk k =>
    cases x <;> simp only [updPath] at h <;> try cases h
    rename_i m
    cases hl : mapFind m k with
    | none => simp [hl] at h
    | some z =>
      simp only [hl] at h
      cases hu : updPath p f z with
      | none => simp [hu] at h
      | some y' => simp [hu] at h; subst h; exact ⟨z, y', by simp [getPath, Val.asMap, hl], hu, rfl⟩

/-! ### slots at the cell level -/

theorem mapGet_mapPut (m : List (Str × Cell)) (k : Str) (c ci : Cell) (h : mapGet m k = some ci) :
    mapGet (mapPut m k c) k = some c := by
  induction m with
  | nil => simp [mapGet] at h
  | cons q t ih =>
    obtain ⟨k', d⟩ := q
    simp only [mapGet] at h
    by_cases hk : (k' == k) = true
    · simp [mapPut, mapGet, hk]
    · have hk' : (k' == k) = false := by simpa using hk
      simp only [hk', Bool.false_eq_true, if_false] at h
      simp [mapPut, mapGet, hk', ih h]

theorem getCell_setCell (p : Pay) (st : Step) (c ci : Cell) (h : p.getCell st = some ci) :
    (p.setCell st c).getCell st = some c := by
  cases p <;> cases st <;> simp [Pay.getCell] at h
  · rename_i cs i
    have hi : i < cs.length := by
      by_cases hl : i < cs.length
      · exact hl
      · rw [List.getElem?_eq_none (by omega)] at h; cases h
    simp [Pay.setCell, Pay.getCell, hi]
  · rename_i cs i
    have hi : i < cs.length := by
      by_cases hl : i < cs.length
      · exact hl
      · rw [List.getElem?_eq_none (by omega)] at h; cases h
    simp [Pay.setCell, Pay.getCell, hi]
  · simp [Pay.setCell, Pay.getCell, mapGet_mapPut _ _ c ci h]

theorem mem_setCell (p : Pay) (st : Step) (c d : Cell) (h : d ∈ (p.setCell st c).cells) : d ∈ p.cells ∨ d = c := by
  cases p <;> cases st <;> simp only [Pay.setCell, Pay.cells] at h ⊢ <;> try exact Or.inl h
  · rcases List.mem_or_eq_of_mem_set h with h | h
    · exact Or.inl h
    · exact Or.inr h
  · rcases List.mem_or_eq_of_mem_set h with h | h
    · exact Or.inl h
    · exact Or.inr h
  · exact mem_mapPut _ _ c d h

theorem bounded_of_dinv {h : Heap} {vars e g} (i : DInv h vars e g) : Bounded h := fun j blk hj => i.lt_next j blk hj

theorem liveCount_setPay (h : Heap) (b : Nat) (p : Pay) : liveCount (setPay h b p) = liveCount h := by
  apply liveCount_sameLive
  refine ⟨setPay_next h b p, ?_⟩
  intro x
  unfold setPay
  cases hb : h.heap b with
  | none => rfl
  | some blk =>
    simp only
    by_cases ex : x = b
    · subst ex; simp [hb]
    · simp [upd_other _ _ _ _ ex]

theorem setPay_heap_same (h : Heap) (b : Nat) (blk : Block) (p : Pay) (hb : h.heap b = some blk) :
    (setPay h b p).heap b = some { blk with pay := p } := by simp [setPay, hb]

theorem stored_setPay_self (h : Heap) (hb : Bounded h) (b : Nat) (blk : Block) (hbb : h.heap b = some blk) (p : Pay)
    (hs : stored h.heap h.next b = 0) (hp : cntCells p.cells b = 0) :
    stored (setPay h b p).heap (setPay h b p).next b = 0 := by
  have := stored_upd h.heap b (some { blk with pay := p }) h.next b (hb b blk hbb)
  simp only [hbb, cntBlk] at this
  have h2 := cnt_le_stored h hb b blk hbb b
  simp only [setPay, hbb]; omega

/-! ### locality of the walk -/

theorem walkMut_keeps (f : Nat) (ds : DblSem) (rd : Nat → Cell) (lf : LeafS) (hsup : LeafSupS lf) :
    ∀ (p : List Step) (h : Heap) (c : Cell) (h' : Heap) (c' : Cell) (x : Nat),
      walkMut f ds rd h c p lf = some (h', c') → Bounded h → x < h.next → cellCnt c x = 0 →
      (∀ w ∈ lf.vars, cellCnt (rd w) x = 0) → stored h.heap h.next x = 0 → Keeps h h' x ∧ cellCnt c' x = 0 := by
  intro p
  induction p with
  | nil =>
    intro h c h' c' x r hb hx hc hsrc hs
    exact leafOp_keeps f ds rd h c lf h' c' x r hsup hb hx hc hsrc hs
  | cons st p ih =>
    intro h c h' c' x r hb hx hc hsrc hs
    simp only [walkMut] at r
    cases ha : accessCell f ds h c st.kind with
    | none => rw [ha] at r; cases r
    | some q =>
      obtain ⟨h1, c1⟩ := q
      rw [ha] at r
      cases c1 with
      | null => cases r
      | inl y => cases r
      | ptr b =>
        simp only at r
        obtain ⟨k1, cb⟩ := accessCell_keeps f ds h c st.kind h1 (.ptr b) x ha hb hx hc hs
        have hbx : b ≠ x := by intro e; subst e; simp [cellCnt_ptr] at cb
        cases hbb : h1.heap b with
        | none => rw [hbb] at r; cases r
        | some blk =>
          rw [hbb] at r
          simp only at r
          cases hci : blk.pay.getCell st with
          | none => rw [hci] at r; cases r
          | some ci =>
            rw [hci] at r
            simp only at r
            have hold := cnt_le_stored h1 k1.bnd b blk hbb x
            have hcs := cnt_setCell blk.pay st .null ci x hci
            have hcix : cellCnt ci x = 0 := by
              have := cellCnt_le_of_mem _ ci x (mem_cells_of_getCell _ _ _ hci)
              have := k1.unst; omega
            have k2 := setPay_keeps h1 k1.bnd b (blk.pay.setCell st .null) x hbx
              (by have := k1.unst; simp at hcs; omega) k1.unst
            cases hw : walkMut f ds rd (setPay h1 b (blk.pay.setCell st .null)) ci p lf with
            | none => rw [hw] at r; cases r
            | some q2 =>
              obtain ⟨h2, ci'⟩ := q2
              rw [hw] at r
              simp only at r
              obtain ⟨k3, cci⟩ := ih _ ci h2 ci' x hw k2.bnd (by have := k1.mono; have := k2.mono; omega) hcix hsrc k2.unst
              cases hb2 : h2.heap b with
              | none => rw [hb2] at r; cases r
              | some blk2 =>
                rw [hb2] at r
                simp only [Option.some.injEq, Prod.mk.injEq] at r
                obtain ⟨e1, e2⟩ := r
                subst e1 e2
                have hold2 := cnt_le_stored h2 k3.bnd b blk2 hb2 x
                have hle : cntCells (blk2.pay.setCell st ci').cells x = 0 := by
                  -- every cell of the new payload is an old one or ci'
                  cases hz : cntCells (blk2.pay.setCell st ci').cells x with
                  | zero => rfl
                  | succ n =>
                    have hm := mem_of_cntCells_pos _ _ (show 0 < cntCells (blk2.pay.setCell st ci').cells x by omega)
                    rcases mem_setCell _ _ _ _ hm with hm | hm
                    · have := cntCells_pos_of_mem _ _ hm; have := k3.unst; omega
                    · rw [← hm] at cci; simp [cellCnt_ptr] at cci
                have k4 := setPay_keeps h2 k3.bnd b _ x hbx hle k3.unst
                exact ⟨((k1.trans k2).trans k3).trans k4, cb⟩

end Nstd.Variant.Deep

namespace Nstd.Variant.Deep
open Nstd.Variant

theorem handles_ptr_zero (vars : Nat → Cell) (b w : Nat) (hw : w < nslots) (hz : handles vars b = 0) : cellCnt (vars w) b = 0 := by
  cases hv : vars w with
  | null => rfl
  | inl y => rfl
  | ptr t =>
    by_cases e : t = b
    · subst e; exact absurd hv (not_var_of_handles_zero vars t w hw hz)
    · simp [cellCnt_ptr, e]

/-- the nested mutable walk refines the nested update of the value -/
theorem walk_step (ds : DblSem) (rd : Nat → Cell) {vars : Nat → Cell} (lf : LeafS) (hsup : LeafSupS lf)
    (hsrc : ∀ w ∈ lf.vars, rd w = vars w ∧ w < nslots) :
    ∀ (p : List Step) (h : Heap) (e : Nat → Nat) (g : Nat → Val) (c : Cell), Held h vars e g c → ∀ y,
      updPath p ((lf.eval (fun w => absCell g (vars w))).apply ds) (absCell g c) = some y →
      ∀ f, liveCount h + p.length + leafSize lf + 1 < f →
      ∃ h' c' g', walkMut f ds rd h c p lf = some (h', c') ∧
        CellStep h vars e g c y (p.length + leafSize lf + 1) h' c' g' := by
  intro p
  induction p with
  | nil =>
    intro h e g c hd y hy f hf
    simp only [updPath] at hy
    obtain ⟨h', c', g', r, st⟩ := leaf_step ds rd hd lf hsup hsrc y hy f (by simpa using hf)
    exact ⟨h', c', g', by simp only [walkMut]; exact r, st.mono _ (by simp)⟩
  | cons st p ih =>
    intro h e g c hd y hy f hf
    have i := hd.inv
    obtain ⟨xi, yi, hgx, hux, hyv⟩ := updPath_cons_decomp hy
    obtain ⟨hty, _⟩ := updPath_cons hy
    -- the accessor on this level
    obtain ⟨h1, b, g1, r1, a⟩ := dinv_access ds hd st.kind (step_isKind st) f (by simp at hf; omega)
    obtain ⟨blk, hb, href⟩ := a.blk
    have i1 := a.inv
    have hb1 := bounded_of_dinv i1
    have hx1 : g1 b = absCell g c := by rw [a.val]; exact coerce_same ds _ _ (step_isKind st) hty
    have hcons1 := i1.cons b blk hb
    -- the element cell
    have hgc := getCell_abs g1 blk.pay st
    rw [← hcons1, hx1, hgx] at hgc
    cases hci : blk.pay.getCell st with
    | none => rw [hci] at hgc; cases hgc
    | some ci =>
      rw [hci] at hgc
      have hxi : absCell g1 ci = xi := (Option.some.inj hgc).symm
      have hcim := mem_cells_of_getCell _ _ _ hci
      have hold_b : cntCells blk.pay.cells b = 0 := by have := cnt_le_stored h1 hb1 b blk hb b; have := a.sz; omega
      have hci_b : cellCnt ci b = 0 := by have := cellCnt_le_of_mem _ ci b hcim; omega
      -- take the element out of its slot
      have hcs := fun x => cnt_setCell blk.pay st .null ci x hci
      have hnew_b : cntCells (blk.pay.setCell st .null).cells b = 0 := by have := hcs b; simp at this; omega
      have i1' := dinv_setPay i1 b blk hb a.hz a.sz (blk.pay.setCell st .null)
        (by
          intro d hdm
          rcases mem_setCell _ _ _ _ hdm with hdm | hdm
          · exact stored_cells_ok i1 b blk hb d hdm
          · subst hdm; exact ⟨(by intro z hz; cases hz), (by intro t ht; cases ht)⟩)
        (by intro x; have := hcs x; simp at this; omega) hnew_b
      let h1' := setPay h1 b (blk.pay.setCell st .null)
      let g1' := upd g1 b (absPay g1 (blk.pay.setCell st .null))
      let e1 : Nat → Nat := fun x => e x - cellCnt c x + cellCnt (.ptr b) x
      have i1'' : DInv h1' vars (fun x => e1 x + cellCnt ci x) g1' :=
        i1'.congr (by intro x; have := hcs x; simp at this; show e1 x + _ - _ = _; omega)
      have hd' : Held h1' vars (fun x => e1 x + cellCnt ci x) g1' ci :=
        ⟨i1'', fun x => Nat.le_add_left _ _, (stored_cells_ok i1 b blk hb ci hcim).1⟩
      have hxi' : absCell g1' ci = xi := by
        rw [← hxi]; apply absCell_congr; intro t ht
        have : t ≠ b := by intro et; subst et; rw [ht] at hci_b; simp [cellCnt_ptr] at hci_b
        exact upd_other _ _ _ _ this
      -- the sources evaluate to the same values
      have hvars : ∀ w, w < nslots → absCell g1' (vars w) = absCell g (vars w) := by
        intro w hw
        apply absCell_congr; intro t ht
        obtain ⟨k0, hk0⟩ := i.live w t ht
        have : t ≠ b := by
          intro et; subst et
          exact not_var_of_handles_zero vars t w hw a.hz ht
        show upd g1 b _ t = g t
        rw [upd_other _ _ _ _ this]; exact a.frame t (i.lt_next t k0 hk0)
      have hev : lf.eval (fun w => absCell g1' (vars w)) = lf.eval (fun w => absCell g (vars w)) :=
        LeafS.eval_congr lf (fun w hw => hvars w (hsrc w hw).2)
      have hl1' : liveCount h1' = liveCount h1 := liveCount_setPay _ _ _
      obtain ⟨h2, ci', g2, r2, st2⟩ := ih h1' _ g1' ci hd' yi (by rw [hev, hxi']; exact hux) f
        (by rw [hl1']; have := a.live; simp at hf; omega)
      -- the parent block is untouched by the nested call
      have hb1' : h1'.heap b = some { blk with pay := blk.pay.setCell st .null } := setPay_heap_same h1 b blk _ hb
      have hs1' : stored h1'.heap h1'.next b = 0 := stored_setPay_self h1 hb1 b blk hb _ a.sz hnew_b
      have hbn1' : b < h1'.next := bounded_of_dinv i1'' b _ hb1'
      obtain ⟨kp, hci'_b⟩ := walkMut_keeps f ds rd lf hsup p h1' ci h2 ci' b r2 (bounded_of_dinv i1'') hbn1' hci_b
        (by intro w hw; rw [(hsrc w hw).1]; exact handles_ptr_zero vars b w (hsrc w hw).2 a.hz) hs1'
      have hb2 : h2.heap b = some { blk with pay := blk.pay.setCell st .null } := by rw [kp.same]; exact hb1'
      have i2 := st2.inv
      -- store the element back
      have hget : (blk.pay.setCell st .null).getCell st = some .null := getCell_setCell _ _ _ _ hci
      have hcs2 := fun x => cnt_setCell (blk.pay.setCell st .null) st ci' .null x hget
      have i3 := dinv_setPay i2 b _ hb2 a.hz kp.unst ((blk.pay.setCell st .null).setCell st ci')
        (by
          intro d hdm
          rcases mem_setCell _ _ _ _ hdm with hdm | hdm
          · exact stored_cells_ok i2 b _ hb2 d hdm
          · subst hdm
            refine ⟨st2.ok, ?_⟩
            intro t ht
            exact live_of_pending i2 t (by show 1 ≤ e1 t + cellCnt ci t - cellCnt ci t + cellCnt d t; rw [ht]; simp [cellCnt_ptr]))
        (by intro x; have := hcs2 x; simp at this
            show cntCells ((blk.pay.setCell st .null).setCell st ci').cells x ≤
              e1 x + cellCnt ci x - cellCnt ci x + cellCnt ci' x + cntCells (blk.pay.setCell st .null).cells x
            omega)
        (by have := hcs2 b; simp at this; omega)
      refine ⟨setPay h2 b ((blk.pay.setCell st .null).setCell st ci'), .ptr b,
        upd g2 b (absPay g2 ((blk.pay.setCell st .null).setCell st ci')), ?_, i3.congr ?_, ?_, (by intro z hz; cases hz), ?_, ?_, ?_, ?_⟩
      · simp only [walkMut, r1, hb, hci]
        show (match walkMut f ds rd h1' ci p lf with
          | some (s2, ci') => (match s2.heap b with
            | some blk2 => some (setPay s2 b (blk2.pay.setCell st ci'), Cell.ptr b)
            | none => none)
          | none => none) = _
        rw [r2]; simp only [hb2]
      · intro x
        have := hcs2 x; simp at this
        show e1 x + cellCnt ci x - cellCnt ci x + cellCnt ci' x + cntCells (blk.pay.setCell st .null).cells x
          - cntCells ((blk.pay.setCell st .null).setCell st ci').cells x = e1 x
        omega
      · -- the value
        simp only [absCell, upd_same]
        have hcons2 := i2.cons b _ hb2
        simp only at hcons2
        have hfr : g2 b = g1' b := by
          apply st2.frame b (by rw [hb1']; simp) (Or.inr ?_)
          show 1 + cellCnt ci b ≤ e1 b + cellCnt ci b
          have hc1 := i1.cnt b blk hb
          rw [a.hz, a.sz, href] at hc1
          show 1 + cellCnt ci b ≤ e b - cellCnt c b + cellCnt (.ptr b) b + cellCnt ci b
          omega
        rw [absPay_setCell, ← hcons2, hfr]
        show setSlot (upd g1 b (absPay g1 (blk.pay.setCell st .null)) b) st (absCell g2 ci') = y
        rw [upd_same, absPay_setCell, ← hcons1, hx1, st2.val, setSlot_setSlot, hyv]
      · -- frame
        intro x hx hprot
        have hxl : x < h.next := lt_next_of_ne i x hx
        have hc1 := i1.cnt b blk hb
        rw [a.hz, a.sz, href] at hc1
        have hxb : x ≠ b := by
          intro exb; subst exb
          have := hd.pend x
          simp only [cellCnt_ptr, if_true] at hc1
          rcases hprot with hp | hp
          · have := a.hz; omega
          · omega
        rw [upd_other _ _ _ _ hxb]
        have hlive1' : h1'.heap x ≠ none := by
          intro hdead
          have h0 := i1''.efresh x hdead
          have h1z := handles_zero_of_dead i1'' x hdead
          simp only [e1] at h0
          have := hd.pend x
          rcases hprot with hp | hp <;> omega
        have hprot' : 1 ≤ handles vars x ∨ 1 + cellCnt ci x ≤ e1 x + cellCnt ci x := by
          rcases hprot with hp | hp
          · exact Or.inl hp
          · refine Or.inr ?_
            show 1 + cellCnt ci x ≤ e x - cellCnt c x + cellCnt (.ptr b) x + cellCnt ci x
            omega
        rw [st2.frame x hlive1' hprot']
        show upd g1 b _ x = g x
        rw [upd_other _ _ _ _ hxb]; exact a.frame x hxl
      · rw [setPay_next]
        have := st2.next_le; have h1n : h1'.next = h1.next := setPay_next _ _ _
        have := a.next_le; omega
      · rw [setPay_next]
        have := st2.next_ge; have h1n : h1'.next = h1.next := setPay_next _ _ _
        have := a.next_ge; simp only [List.length_cons]; omega
      · rw [liveCount_setPay]
        have := st2.live; have := a.live; simp only [List.length_cons]; omega

end Nstd.Variant.Deep
