import Nstd.Variant.DeepSlots
/-
  Operations on a held cell of the deep model: the result relation `CellStep`, sources, and the
  leaf operations covered by the deep refinement theorem.
-/
namespace Nstd.Variant.Deep
open Nstd.Variant

/-- the outcome of an operation on the held cell `c` (abstract value before: `absCell g c`) that
    leaves the cell `c'` with abstract value `y`, having allocated at most `n` blocks -/
structure CellStep (h : Heap) (vars : Nat → Cell) (e : Nat → Nat) (g : Nat → Val) (c : Cell) (y : Val) (n : Nat)
    (h' : Heap) (c' : Cell) (g' : Nat → Val) : Prop where
  inv : DInv h' vars (fun x => e x - cellCnt c x + cellCnt c' x) g'
  val : absCell g' c' = y
  ok : ∀ z, c' = .inl z → z.isBoxed = false
  frame : ∀ x, h.heap x ≠ none → (1 ≤ handles vars x ∨ 1 + cellCnt c x ≤ e x) → g' x = g x
  next_le : h.next ≤ h'.next
  next_ge : h'.next ≤ h.next + n
  live : liveCount h' ≤ liveCount h + n

theorem CellStep.mono {h vars e g c y n h' c' g'} (s : CellStep h vars e g c y n h' c' g') (m : Nat) (hm : n ≤ m) :
    CellStep h vars e g c y m h' c' g' :=
  ⟨s.inv, s.val, s.ok, s.frame, s.next_le, by have := s.next_ge; omega, by have := s.live; omega⟩

/-- a literal that the line protocol can write: null, a scalar or a string -/
def LitOk : Val → Prop
  | .map _ | .list _ | .array _ => False
  | _ => True

def SrcOk (rd vars : Nat → Cell) : Src → Prop
  | .var w => rd w = vars w ∧ w < nslots
  | .lit x => LitOk x

/-- abstract value of a source -/
def srcVal (g : Nat → Val) (vars : Nat → Cell) (s : Src) : Val := s.eval (fun w => absCell g (vars w))

/-- blocks of `h'` have the payload they had in `h`, or are new blocks without element cells -/
def PaySubE (h h' : Heap) : Prop :=
  ∀ x blk', h'.heap x = some blk' → (∃ blk, h.heap x = some blk ∧ blk'.pay = blk.pay) ∨ blk'.pay.cells = []

/-- taking a fresh handle of a source: copy of the variable, or a temporary literal -/
structure Copied (h : Heap) (vars : Nat → Cell) (e : Nat → Nat) (g : Nat → Val) (y : Val)
    (h' : Heap) (c' : Cell) (g' : Nat → Val) : Prop where
  inv : DInv h' vars (fun x => e x + cellCnt c' x) g'
  val : absCell g' c' = y
  ok : ∀ z, c' = .inl z → z.isBoxed = false
  frame : ∀ x, x < h.next → g' x = g x
  keep : ∀ x blk, h.heap x = some blk → ∃ blk', h'.heap x = some blk' ∧ blk'.pay = blk.pay
  sub : PaySubE h h'
  next_le : h.next ≤ h'.next
  next_ge : h'.next ≤ h.next + 1
  live : liveCount h' ≤ liveCount h + 1
  /-- the new handle points to a block a variable points to, or to a new block -/
  tgt : ∀ b, c' = .ptr b → 1 ≤ handles vars b ∨ h.heap b = none

theorem var_cellOk {h : Heap} {vars e g} (i : DInv h vars e g) (w : Nat) : CellOk h (vars w) :=
  ⟨fun y hy => i.inl w y hy, fun b hb => i.live w b hb⟩

theorem var_handles {h : Heap} {vars e g} (i : DInv h vars e g) (w b : Nat) (hw : vars w = .ptr b) : 1 ≤ handles vars b := by
  have hwl : w < nslots := by
    by_cases hl : w < nslots
    · exact hl
    · have := i.out w (by omega); rw [this] at hw; cases hw
  exact one_handle vars w b hwl hw

theorem dinv_srcCopy {h : Heap} {vars e g} (rd : Nat → Cell) (i : DInv h vars e g) (src : Src) (hs : SrcOk rd vars src) :
    ∃ g', Copied h vars e g (srcVal g vars src) (srcCopy rd h src).1 (srcCopy rd h src).2 g' := by
  cases src with
  | var w =>
    obtain ⟨hrd, hw⟩ := hs
    simp only [srcCopy, hrd]
    obtain ⟨i1, a1, c1, s1, p1, q1, o1⟩ := dinv_copyCell i (vars w) (var_cellOk i w)
    refine ⟨g, i1, a1, o1, fun _ _ => rfl, ?_, ?_, by rw [s1.1]; omega, by rw [s1.1]; omega,
      by rw [liveCount_sameLive s1]; omega, ?_⟩
    · intro x blk hx; obtain ⟨k, hk, ek⟩ := q1 x blk hx; exact ⟨k, hk, ek.symm⟩
    · intro x blk' hx; exact Or.inl (p1 x blk' hx)
    · intro b hb
      have : cellCnt (copyCell h (vars w)).2 b = 1 := by rw [hb]; simp [cellCnt_ptr]
      rw [c1 b] at this
      have hp : vars w = .ptr b := by
        cases hv : vars w <;> simp [hv, cellCnt, isPtrTo] at this
        subst this; rfl
      exact Or.inl (var_handles i w b hp)
  | lit x =>
    have hn : h.heap h.next = none := i.fresh _ (Nat.le_refl _)
    cases x with
    | str t =>
      simp only [srcCopy, mkLit]
      have i2 := dinv_alloc i (.str t) (by intro c hc; simp [Pay.cells] at hc) (by intro x; simp [Pay.cells, cntCells_nil])
      refine ⟨upd g h.next (.str t), i2.congr ?_, ?_, ?_, ?_, ?_, ?_, ?_, ?_, ?_, ?_⟩
      · intro x
        simp only [Pay.cells, cntCells_nil, alloc_id, cellCnt_ptr]
        by_cases ex : x = h.next
        · subst ex; simp
        · have : ¬ h.next = x := fun y => ex y.symm
          simp [ex, this]
      · simp [absCell, alloc_id, srcVal, Src.eval]
      · intro z hz; cases hz
      · intro x hx
        have : x ≠ h.next := by omega
        exact upd_other _ _ _ _ this
      · intro x blk hx
        have : x ≠ h.next := by intro ex; subst ex; rw [hn] at hx; cases hx
        exact ⟨blk, by rw [alloc_sameLive_old _ _ _ this]; exact hx, rfl⟩
      · intro x blk' hx
        by_cases ex : x = h.next
        · subst ex; rw [alloc_new] at hx; injection hx with hx; subst hx; exact Or.inr rfl
        · rw [alloc_sameLive_old _ _ _ ex] at hx; exact Or.inl ⟨blk', hx, rfl⟩
      · simp [alloc_next]
      · simp [alloc_next]
      · rw [liveCount_alloc i]; omega
      · intro b hb; simp only [alloc_id] at hb; injection hb with hb; subst hb; exact Or.inr hn
    | null =>
      exact ⟨g, i.congr (by intro x; simp [srcCopy, mkLit, cellCnt, isPtrTo]), rfl, (by intro z hz; cases hz),
        (fun _ _ => rfl), fun x blk hx => ⟨blk, hx, rfl⟩, fun x blk' hx => Or.inl ⟨blk', hx, rfl⟩, Nat.le_refl _,
        (by simp [srcCopy, mkLit]), (by simp [srcCopy, mkLit]), (by intro b hb; cases hb)⟩
    | map m => exact absurd hs (by simp [SrcOk, LitOk])
    | list l => exact absurd hs (by simp [SrcOk, LitOk])
    | array l => exact absurd hs (by simp [SrcOk, LitOk])
    | bool b =>
      exact ⟨g, i.congr (by intro x; simp [srcCopy, mkLit, cellCnt, isPtrTo]), rfl,
        (by intro z hz; simp [srcCopy, mkLit] at hz; subst hz; rfl),
        (fun _ _ => rfl), fun x blk hx => ⟨blk, hx, rfl⟩, fun x blk' hx => Or.inl ⟨blk', hx, rfl⟩, Nat.le_refl _,
        (by simp [srcCopy, mkLit]), (by simp [srcCopy, mkLit]), (by intro b hb; cases hb)⟩
    | dbl d =>
      exact ⟨g, i.congr (by intro x; simp [srcCopy, mkLit, cellCnt, isPtrTo]), rfl,
        (by intro z hz; simp [srcCopy, mkLit] at hz; subst hz; rfl),
        (fun _ _ => rfl), fun x blk hx => ⟨blk, hx, rfl⟩, fun x blk' hx => Or.inl ⟨blk', hx, rfl⟩, Nat.le_refl _,
        (by simp [srcCopy, mkLit]), (by simp [srcCopy, mkLit]), (by intro b hb; cases hb)⟩
    | int n =>
      exact ⟨g, i.congr (by intro x; simp [srcCopy, mkLit, cellCnt, isPtrTo]), rfl,
        (by intro z hz; simp [srcCopy, mkLit] at hz; subst hz; rfl),
        (fun _ _ => rfl), fun x blk hx => ⟨blk, hx, rfl⟩, fun x blk' hx => Or.inl ⟨blk', hx, rfl⟩, Nat.le_refl _,
        (by simp [srcCopy, mkLit]), (by simp [srcCopy, mkLit]), (by intro b hb; cases hb)⟩
    | uint n =>
      exact ⟨g, i.congr (by intro x; simp [srcCopy, mkLit, cellCnt, isPtrTo]), rfl,
        (by intro z hz; simp [srcCopy, mkLit] at hz; subst hz; rfl),
        (fun _ _ => rfl), fun x blk hx => ⟨blk, hx, rfl⟩, fun x blk' hx => Or.inl ⟨blk', hx, rfl⟩, Nat.le_refl _,
        (by simp [srcCopy, mkLit]), (by simp [srcCopy, mkLit]), (by intro b hb; cases hb)⟩
    | int64 n =>
      exact ⟨g, i.congr (by intro x; simp [srcCopy, mkLit, cellCnt, isPtrTo]), rfl,
        (by intro z hz; simp [srcCopy, mkLit] at hz; subst hz; rfl),
        (fun _ _ => rfl), fun x blk hx => ⟨blk, hx, rfl⟩, fun x blk' hx => Or.inl ⟨blk', hx, rfl⟩, Nat.le_refl _,
        (by simp [srcCopy, mkLit]), (by simp [srcCopy, mkLit]), (by intro b hb; cases hb)⟩
    | uint64 n =>
      exact ⟨g, i.congr (by intro x; simp [srcCopy, mkLit, cellCnt, isPtrTo]), rfl,
        (by intro z hz; simp [srcCopy, mkLit] at hz; subst hz; rfl),
        (fun _ _ => rfl), fun x blk hx => ⟨blk, hx, rfl⟩, fun x blk' hx => Or.inl ⟨blk', hx, rfl⟩, Nat.le_refl _,
        (by simp [srcCopy, mkLit]), (by simp [srcCopy, mkLit]), (by intro b hb; cases hb)⟩

end Nstd.Variant.Deep

namespace Nstd.Variant.Deep
open Nstd.Variant

theorem liveCount_le_next (h : Heap) : liveCount h ≤ h.next := by
  unfold liveCount liveN
  have := List.countP_le_length (p := fun i => (h.heap i).isSome) (l := List.range h.next)
  simpa using this

theorem lt_next_of_ne {h : Heap} {vars e g} (i : DInv h vars e g) (x : Nat) (hx : h.heap x ≠ none) : x < h.next := by
  cases hh : h.heap x with
  | none => exact absurd hh hx
  | some k => exact i.lt_next x k hh

@[simp] theorem cellCnt_null (y : Nat) : cellCnt .null y = 0 := rfl
@[simp] theorem cellCnt_inl (z : Val) (y : Nat) : cellCnt (.inl z) y = 0 := rfl

/-! ### clear -/

theorem leaf_clear {h vars e g c} (hd : Held h vars e g c) (f : Nat) (hf : liveCount h < f) :
    ∃ h', release f h c = some h' ∧ CellStep h vars e g c .null 0 h' .null g := by
  obtain ⟨h', r, i', s⟩ := dinv_release f h e c hd.inv hd.pend hf
  refine ⟨h', r, i'.congr (by intro x; simp), rfl, (by intro z hz; cases hz), (fun _ _ _ => rfl),
    (by rw [s.next]; omega), (by rw [s.next]; omega), (by have := s.live; omega)⟩

/-! ### touch (the mutable accessor alone) -/

theorem leaf_touch (ds : DblSem) {h vars e g c} (hd : Held h vars e g c) (k : Nat) (hk : isKind k) (f : Nat)
    (hf : liveCount h + 1 < f) :
    ∃ h' c' g', accessCell f ds h c k = some (h', c') ∧
      CellStep h vars e g c (coerce ds k (absCell g c)) 1 h' c' g' := by
  obtain ⟨h', b, g', r, a⟩ := dinv_access ds hd k hk f hf
  refine ⟨h', .ptr b, g', r, a.inv, a.val, (by intro z hz; cases hz), ?_, a.next_le, a.next_ge, a.live⟩
  intro x hx _
  exact a.frame x (lt_next_of_ne hd.inv x hx)

/-! ### operator=(const Variant&) -/

theorem leaf_assign {h vars e g c} (rd : Nat → Cell) (hd : Held h vars e g c) (src : Src) (hs : SrcOk rd vars src)
    (f : Nat) (hf : liveCount h + 1 < f) :
    ∃ h' c' g', (let (s1, c') := srcCopy rd h src; (release f s1 c).map (fun s2 => (s2, c'))) = some (h', c') ∧
      CellStep h vars e g c (srcVal g vars src) 1 h' c' g' := by
  obtain ⟨g1, cp⟩ := dinv_srcCopy rd hd.inv src hs
  have hp : ∀ x, cellCnt c x ≤ (fun x => e x + cellCnt (srcCopy rd h src).2 x) x := by
    intro x; have := hd.pend x; show cellCnt c x ≤ e x + _; omega
  obtain ⟨h2, r2, i2, s2⟩ := dinv_release f _ _ c cp.inv hp (by have := cp.live; omega)
  refine ⟨h2, (srcCopy rd h src).2, g1, by simp only [r2, Option.map], i2.congr ?_, cp.val, cp.ok, ?_, ?_, ?_, ?_⟩
  · intro x; have := hd.pend x; show e x + cellCnt _ x - cellCnt c x = e x - cellCnt c x + cellCnt _ x; omega
  · intro x hx _
    exact cp.frame x (lt_next_of_ne hd.inv x hx)
  · rw [s2.next]; exact cp.next_le
  · rw [s2.next]; exact cp.next_ge
  · have := s2.live; have := cp.live; omega

/-! ### typed assignment of a scalar -/

theorem leaf_setScalar {h vars e g c} (hd : Held h vars e g c) (x : Val) (hx : x.isBoxed = false) (f : Nat)
    (hf : liveCount h < f) :
    ∃ h', (if cellType h c ≠ x.type then (release f h c).map (fun s1 => (s1, Cell.inl x)) else some (h, Cell.inl x))
        = some (h', Cell.inl x) ∧ CellStep h vars e g c x 0 h' (.inl x) g := by
  by_cases ht : cellType h c ≠ x.type
  · obtain ⟨h', r, i', s⟩ := dinv_release f h e c hd.inv hd.pend hf
    refine ⟨h', by simp [ht, r], i'.congr (by intro y; simp), rfl, ?_, (fun _ _ _ => rfl),
      (by rw [s.next]; omega), (by rw [s.next]; omega), (by have := s.live; omega)⟩
    intro z hz; injection hz with hz; subst hz; exact hx
  · have hte : cellType h c = x.type := by
      by_cases e1 : cellType h c = x.type
      · exact e1
      · exact absurd e1 ht
    -- the cell holds an inline value already: nothing to release
    have hnp : ∀ y, cellCnt c y = 0 := by
      intro y
      cases c with
      | null => rfl
      | inl z => rfl
      | ptr b =>
        obtain ⟨blk, hb⟩ := hd.cellOk.2 b rfl
        have h7 : 7 ≤ cellType h (.ptr b) := by
          simp only [cellType, hb]; cases blk.pay <;> simp [Pay.type]
        have := type_lt_of_not_boxed x hx
        omega
    refine ⟨h, by simp [ht], hd.inv.congr (by intro y; simp [hnp y]), rfl, ?_, (fun _ _ _ => rfl),
      Nat.le_refl _, (by omega), (by omega)⟩
    intro z hz; injection hz with hz; subst hz; exact hx

/-! ### append / prepend an element through the accessor -/

/-- where the new element goes -/
inductive Ins where
  | back | front

def Ins.cells : Ins → List Cell → Cell → List Cell
  | .back, cs, c => cs ++ [c]
  | .front, cs, c => c :: cs

def Ins.vals : Ins → List Val → Val → List Val
  | .back, vs, v => vs ++ [v]
  | .front, vs, v => v :: vs

theorem Ins.cnt (m : Ins) (cs : List Cell) (c : Cell) (x : Nat) : cntCells (m.cells cs c) x = cntCells cs x + cellCnt c x := by
  cases m
  · simp [Ins.cells, cntCells_append, cntCells_cons, cntCells_nil]
  · simp [Ins.cells, cntCells_cons]; omega

theorem Ins.map (m : Ins) (g : Nat → Val) (cs : List Cell) (c : Cell) :
    (m.cells cs c).map (absCell g) = m.vals (cs.map (absCell g)) (absCell g c) := by
  cases m <;> simp [Ins.cells, Ins.vals]

theorem Ins.mem (m : Ins) (cs : List Cell) (c d : Cell) (h : d ∈ m.cells cs c) : d ∈ cs ∨ d = c := by
  cases m <;> simp [Ins.cells] at h <;> rcases h with h | h <;> simp [h]

/-- list (`isArr = false`) or array payload -/
def seqPay (isArr : Bool) (cs : List Cell) : Pay := if isArr then .array cs else .list cs
def seqVal (isArr : Bool) (vs : List Val) : Val := if isArr then .array vs else .list vs
def seqKind (isArr : Bool) : Nat := if isArr then 9 else 8
def seqOf (isArr : Bool) (x : Val) : List Val := if isArr then x.asArray else x.asList

theorem leaf_push (ds : DblSem) {h vars e g c} (rd : Nat → Cell) (hd : Held h vars e g c) (isArr : Bool) (m : Ins)
    (src : Src) (hs : SrcOk rd vars src) (f : Nat) (hf : liveCount h + 1 < f) :
    ∃ h' c' g', withAccess f ds h c (seqKind isArr) (fun s1 p =>
        match p, isArr with
        | .list cs, false => let (s2, c') := srcCopy rd s1 src; some (s2, .list (m.cells cs c'), [])
        | .array cs, true => let (s2, c') := srcCopy rd s1 src; some (s2, .array (m.cells cs c'), [])
        | _, _ => none) = some (h', c') ∧
      CellStep h vars e g c (seqVal isArr (m.vals (seqOf isArr (absCell g c)) (srcVal g vars src))) 2 h' c' g' := by
  have hk : isKind (seqKind isArr) := by cases isArr <;> simp [seqKind, isKind]
  obtain ⟨h1, b, g1, r1, a⟩ := dinv_access ds hd (seqKind isArr) hk f hf
  obtain ⟨blk, hb, href⟩ := a.blk
  have i1 := a.inv
  -- the payload is a sequence of the right kind holding the coerced value
  have hcons := i1.cons b blk hb
  rw [a.val] at hcons
  have hpay : ∃ cs, blk.pay = seqPay isArr cs ∧ cs.map (absCell g1) = seqOf isArr (absCell g c) := by
    cases isArr
    · simp only [seqKind, coerce, seqPay, seqOf] at hcons ⊢
      cases hp : blk.pay <;> rw [hp] at hcons <;> simp [absPay] at hcons
      exact ⟨_, rfl, hcons.symm⟩
    · simp only [seqKind, coerce, seqPay, seqOf] at hcons ⊢
      cases hp : blk.pay <;> rw [hp] at hcons <;> simp [absPay] at hcons
      exact ⟨_, rfl, hcons.symm⟩
  obtain ⟨cs, hpay, hvals⟩ := hpay
  have hcells : blk.pay.cells = cs := by rw [hpay]; cases isArr <;> rfl
  -- the new element
  obtain ⟨g2, cp⟩ := dinv_srcCopy rd i1 src hs
  obtain ⟨blk2, hb2, ep2⟩ := cp.keep b blk hb
  have hnostore1 := no_store_of_zero i1 b a.sz
  have hs2 : stored (srcCopy rd h1 src).1.heap (srcCopy rd h1 src).1.next b = 0 := by
    apply stored_zero
    intro j k hj hm
    rcases cp.sub j k hj with ⟨k1, hk1, ek⟩ | hemp
    · rw [ek] at hm; exact hnostore1 j k1 hk1 hm
    · rw [hemp] at hm; cases hm
  have hcok : ∀ d ∈ (seqPay isArr (m.cells cs (srcCopy rd h1 src).2)).cells, CellOk (srcCopy rd h1 src).1 d := by
    intro d hdm
    have hdm' : d ∈ m.cells cs (srcCopy rd h1 src).2 := by cases isArr <;> exact hdm
    rcases Ins.mem m cs _ d hdm' with hin | heq
    · have hok1 := stored_cells_ok i1 b blk hb d (by rw [hcells]; exact hin)
      refine ⟨hok1.1, ?_⟩
      intro t ht
      obtain ⟨k1, hk1⟩ := hok1.2 t ht
      obtain ⟨k2, hk2, _⟩ := cp.keep t k1 hk1
      exact ⟨k2, hk2⟩
    · subst heq
      refine ⟨cp.ok, ?_⟩
      intro t ht
      exact live_of_pending cp.inv t (by show 1 ≤ _ + cellCnt _ t; rw [ht]; simp [cellCnt_ptr])
  have hnewcells : (seqPay isArr (m.cells cs (srcCopy rd h1 src).2)).cells = m.cells cs (srcCopy rd h1 src).2 := by
    cases isArr <;> rfl
  have hcs_b : cntCells cs b = 0 := by
    cases hz : cntCells cs b with
    | zero => rfl
    | succ n => exact absurd (by rw [hcells]; exact mem_of_cntCells_pos _ _ (by omega)) (hnostore1 b blk hb)
  have hc'_b : cellCnt (srcCopy rd h1 src).2 b = 0 := by
    cases hcc : (srcCopy rd h1 src).2 with
    | null => rfl
    | inl z => rfl
    | ptr t =>
      by_cases et : t = b
      · subst et
        rcases cp.tgt t hcc with h1' | h1'
        · have := a.hz; omega
        · rw [hb] at h1'; cases h1'
      · simp [cellCnt_ptr, et]
  have i3 := dinv_setPay cp.inv b blk2 hb2 a.hz hs2 (seqPay isArr (m.cells cs (srcCopy rd h1 src).2)) hcok
    (by intro x; rw [hnewcells, Ins.cnt, ep2, hcells]; show _ ≤ _ + cellCnt _ x + _; omega)
    (by rw [hnewcells, Ins.cnt, hcs_b, hc'_b])
  refine ⟨setPay (srcCopy rd h1 src).1 b (seqPay isArr (m.cells cs (srcCopy rd h1 src).2)), .ptr b,
    upd g2 b (absPay g2 (seqPay isArr (m.cells cs (srcCopy rd h1 src).2))), ?_, i3.congr ?_, ?_, (by intro z hz; cases hz), ?_, ?_, ?_, ?_⟩
  · simp only [withAccess, r1, hb, hpay]
    cases isArr <;> simp [seqPay, releaseAll]
  · intro x
    rw [hnewcells, Ins.cnt, ep2, hcells]
    show e x - cellCnt c x + cellCnt (.ptr b) x + cellCnt _ x + cntCells cs x - (cntCells cs x + cellCnt _ x) = _
    omega
  · simp only [absCell, upd_same]
    have hmapeq : cs.map (absCell g2) = cs.map (absCell g1) := by
      apply List.map_congr_left
      intro d hdm
      apply absCell_congr
      intro t ht
      obtain ⟨k1, hk1⟩ := (stored_cells_ok i1 b blk hb d (by rw [hcells]; exact hdm)).2 t ht
      exact cp.frame t (i1.lt_next t k1 hk1)
    have hsv : absCell g2 (srcCopy rd h1 src).2 = srcVal g vars src := by
      rw [cp.val]
      simp only [srcVal]
      cases src with
      | lit x => rfl
      | var w =>
        simp only [Src.eval]
        apply absCell_congr
        intro t ht
        obtain ⟨k0, hk0⟩ := hd.inv.live w t ht
        exact a.frame t (hd.inv.lt_next t k0 hk0)
    cases isArr
    · simp only [seqPay, seqVal, Bool.false_eq_true, if_false, absPay, Ins.map, hmapeq, hvals, hsv]; rfl
    · simp only [seqPay, seqVal, if_true, absPay, Ins.map, hmapeq, hvals, hsv]; rfl
  · -- frame
    intro x hx hprot
    have hxl : x < h.next := lt_next_of_ne hd.inv x hx
    have hxb : x ≠ b := by
      intro exb; subst exb
      have hc1 := i1.cnt x blk hb
      rw [a.hz, a.sz, href] at hc1
      simp only [cellCnt_ptr, if_true] at hc1
      have := hd.pend x
      rcases hprot with hp | hp
      · have := a.hz; omega
      · omega
    rw [upd_other _ _ _ _ hxb, cp.frame x (by have := a.next_le; omega), a.frame x hxl]
  · have h1' : (setPay (srcCopy rd h1 src).1 b (seqPay isArr (m.cells cs (srcCopy rd h1 src).2))).next = (srcCopy rd h1 src).1.next := by
      simp [setPay, hb2]
    rw [h1']; have := cp.next_le; have := a.next_le; omega
  · have h1' : (setPay (srcCopy rd h1 src).1 b (seqPay isArr (m.cells cs (srcCopy rd h1 src).2))).next = (srcCopy rd h1 src).1.next := by
      simp [setPay, hb2]
    rw [h1']; have := cp.next_ge; have := a.next_ge; omega
  · have hl : liveCount (setPay (srcCopy rd h1 src).1 b (seqPay isArr (m.cells cs (srcCopy rd h1 src).2))) = liveCount (srcCopy rd h1 src).1 := by
      apply liveCount_sameLive
      refine ⟨by simp [setPay, hb2], ?_⟩
      intro x
      simp only [setPay, hb2]
      by_cases ex : x = b
      · subst ex; simp [hb2]
      · simp [upd_other _ _ _ _ ex]
    rw [hl]; have := cp.live; have := a.live; omega

end Nstd.Variant.Deep

namespace Nstd.Variant.Deep
open Nstd.Variant

/-! ### a general payload edit after the accessor: new cells come in, dead cells go out -/

theorem edit_cellstep (ds : DblSem) {h vars e g c} (hd : Held h vars e g c) (k : Nat) {h1 : Heap} {b : Nat} {g1 : Nat → Val}
    (a : Accessed ds h vars e g c k h1 b g1) (blk : Block) (hb : h1.heap b = some blk) (href : blk.ref = 1)
    (h2 : Heap) (g2 : Nat → Val) (news : List Cell)
    (i2 : DInv h2 vars (fun x => e x - cellCnt c x + cellCnt (.ptr b) x + cntCells news x) g2)
    (hkeep : ∀ x blk0, h1.heap x = some blk0 → ∃ blk', h2.heap x = some blk' ∧ blk'.pay = blk0.pay)
    (hsub : PaySubE h1 h2) (hg2 : ∀ x, x < h1.next → g2 x = g1 x)
    (hn2a : h1.next ≤ h2.next) (hn2b : h2.next ≤ h1.next + 1) (hl2 : liveCount h2 ≤ liveCount h1 + 1)
    (hnews_ok : ∀ d ∈ news, ∀ z, d = .inl z → z.isBoxed = false) (hnews_b : cntCells news b = 0)
    (p' : Pay) (dead : List Cell)
    (H : ∀ x, cntCells p'.cells x + cntCells dead x = cntCells blk.pay.cells x + cntCells news x)
    (hmem : ∀ d ∈ p'.cells, d ∈ blk.pay.cells ∨ d ∈ news)
    (f : Nat) (hf : liveCount h + 2 < f) :
    ∃ h4, releaseAll f (setPay h2 b p') dead = some h4 ∧
      CellStep h vars e g c (absPay g2 p') 2 h4 (.ptr b) (upd g2 b (absPay g2 p')) := by
  have i1 := a.inv
  obtain ⟨blk2, hb2, ep2⟩ := hkeep b blk hb
  have hnostore1 := no_store_of_zero i1 b a.sz
  have hs2 : stored h2.heap h2.next b = 0 := by
    apply stored_zero
    intro j kk hj hm
    rcases hsub j kk hj with ⟨k1, hk1, ek⟩ | hemp
    · rw [ek] at hm; exact hnostore1 j k1 hk1 hm
    · rw [hemp] at hm; cases hm
  have hold_b : cntCells blk.pay.cells b = 0 := by
    cases hz : cntCells blk.pay.cells b with
    | zero => rfl
    | succ n => exact absurd (mem_of_cntCells_pos _ _ (by omega)) (hnostore1 b blk hb)
  have hcok : ∀ d ∈ p'.cells, CellOk h2 d := by
    intro d hdm
    rcases hmem d hdm with hin | hin
    · have hok1 := stored_cells_ok i1 b blk hb d hin
      refine ⟨hok1.1, ?_⟩
      intro t ht
      obtain ⟨k1, hk1⟩ := hok1.2 t ht
      obtain ⟨k2, hk2, _⟩ := hkeep t k1 hk1
      exact ⟨k2, hk2⟩
    · refine ⟨hnews_ok d hin, ?_⟩
      intro t ht
      have := cellCnt_le_of_mem news d t hin
      rw [ht] at this; simp [cellCnt_ptr] at this
      exact live_of_pending i2 t (by show 1 ≤ _ + cntCells news t; omega)
  have i3 := dinv_setPay i2 b blk2 hb2 a.hz hs2 p' hcok
    (by intro x; have := H x; rw [ep2]; show _ ≤ _ + cntCells news x + _; omega)
    (by have := H b; omega)
  have hl3 : liveCount (setPay h2 b p') = liveCount h2 := by
    apply liveCount_sameLive
    refine ⟨by simp [setPay, hb2], ?_⟩
    intro x
    simp only [setPay, hb2]
    by_cases ex : x = b
    · subst ex; simp [hb2]
    · simp [upd_other _ _ _ _ ex]
  have hn3 : (setPay h2 b p').next = h2.next := by simp [setPay, hb2]
  have i3' : DInv (setPay h2 b p') vars (fun x => e x - cellCnt c x + cellCnt (.ptr b) x + cntCells dead x)
      (upd g2 b (absPay g2 p')) := i3.congr (by
    intro x; have := H x; rw [ep2]
    show e x - cellCnt c x + cellCnt (.ptr b) x + cntCells news x + cntCells blk.pay.cells x - cntCells p'.cells x = _
    omega)
  obtain ⟨h4, r4, i4, s4⟩ := dinv_releaseAll f dead _ _ i3' (by intro x; show _ ≤ _ + cntCells dead x; omega)
    (by rw [hl3]; have := a.live; omega)
  refine ⟨h4, r4, i4.congr (by intro x; show _ + cntCells dead x - cntCells dead x = _; omega), (by simp [absCell]),
    (by intro z hz; cases hz), ?_, ?_, ?_, ?_⟩
  · intro x hx hprot
    have hxl : x < h.next := lt_next_of_ne hd.inv x hx
    have hxb : x ≠ b := by
      intro exb; subst exb
      have hc1 := i1.cnt x blk hb
      rw [a.hz, a.sz, href] at hc1
      simp only [cellCnt_ptr, if_true] at hc1
      have := hd.pend x
      rcases hprot with hp | hp
      · have := a.hz; omega
      · omega
    rw [upd_other _ _ _ _ hxb, hg2 x (by have := a.next_le; omega), a.frame x hxl]
  · rw [s4.next, hn3]; have := a.next_le; omega
  · rw [s4.next, hn3]; have := a.next_ge; omega
  · have := s4.live; rw [hl3] at this; have := a.live; omega

/-- the edit without a source -/
theorem edit_plain (ds : DblSem) {h vars e g c} (hd : Held h vars e g c) (k : Nat) {h1 : Heap} {b : Nat} {g1 : Nat → Val}
    (a : Accessed ds h vars e g c k h1 b g1) (blk : Block) (hb : h1.heap b = some blk) (href : blk.ref = 1)
    (p' : Pay) (dead : List Cell)
    (H : ∀ x, cntCells p'.cells x + cntCells dead x = cntCells blk.pay.cells x)
    (hmem : ∀ d ∈ p'.cells, d ∈ blk.pay.cells) (f : Nat) (hf : liveCount h + 2 < f) :
    ∃ h4, releaseAll f (setPay h1 b p') dead = some h4 ∧
      CellStep h vars e g c (absPay g1 p') 2 h4 (.ptr b) (upd g1 b (absPay g1 p')) :=
  edit_cellstep ds hd k a blk hb href h1 g1 [] (a.inv.congr (by intro x; simp [cntCells_nil]))
    (fun x blk0 hx => ⟨blk0, hx, rfl⟩) (fun x blk' hx => Or.inl ⟨blk', hx, rfl⟩) (fun _ _ => rfl)
    (Nat.le_refl _) (by omega) (by omega) (by intro d hd'; cases hd') rfl p' dead
    (by intro x; rw [H x]; simp [cntCells_nil]) (fun d hd' => Or.inl (hmem d hd')) f hf

theorem cnt_eraseIdx (cs : List Cell) (i : Nat) (old : Cell) (x : Nat) (hi : cs[i]? = some old) :
    cntCells (cs.eraseIdx i) x + cellCnt old x = cntCells cs x := by
  induction cs generalizing i with
  | nil => simp at hi
  | cons d t ih =>
    cases i with
    | zero => simp at hi; subst hi; simp only [List.eraseIdx_cons_zero, cntCells_cons]; omega
    | succ n =>
      simp at hi
      simp only [List.eraseIdx_cons_succ, cntCells_cons]
      have := ih n hi; omega

theorem map_eraseIdx' {α β} (f : α → β) (l : List α) (i : Nat) : (l.eraseIdx i).map f = (l.map f).eraseIdx i := by
  induction l generalizing i with
  | nil => rfl
  | cons a t ih =>
    cases i with
    | zero => rfl
    | succ n => simp [List.eraseIdx_cons_succ, ih]

/-- `remove` of item `i` of a list / array -/
theorem leaf_remove (ds : DblSem) {h vars e g c} (hd : Held h vars e g c) (isArr : Bool) (i : Nat)
    (hi : i < (seqOf isArr (absCell g c)).length) (f : Nat) (hf : liveCount h + 2 < f) :
    ∃ h' c' g', withAccess f ds h c (seqKind isArr) (fun s1 p =>
        match p, isArr with
        | .list cs, false => (match cs[i]? with | some old => some (s1, .list (cs.eraseIdx i), [old]) | none => none)
        | .array cs, true => (match cs[i]? with | some old => some (s1, .array (cs.eraseIdx i), [old]) | none => none)
        | _, _ => none) = some (h', c') ∧
      CellStep h vars e g c (seqVal isArr ((seqOf isArr (absCell g c)).eraseIdx i)) 2 h' c' g' := by
  have hk : isKind (seqKind isArr) := by cases isArr <;> simp [seqKind, isKind]
  obtain ⟨h1, b, g1, r1, a⟩ := dinv_access ds hd (seqKind isArr) hk f (by omega)
  obtain ⟨blk, hb, href⟩ := a.blk
  have hcons := a.inv.cons b blk hb
  rw [a.val] at hcons
  have hpay : ∃ cs, blk.pay = seqPay isArr cs ∧ cs.map (absCell g1) = seqOf isArr (absCell g c) := by
    cases isArr
    · simp only [seqKind, coerce, seqPay, seqOf] at hcons ⊢
      cases hp : blk.pay <;> rw [hp] at hcons <;> simp [absPay] at hcons
      exact ⟨_, rfl, hcons.symm⟩
    · simp only [seqKind, coerce, seqPay, seqOf] at hcons ⊢
      cases hp : blk.pay <;> rw [hp] at hcons <;> simp [absPay] at hcons
      exact ⟨_, rfl, hcons.symm⟩
  obtain ⟨cs, hpay, hvals⟩ := hpay
  have hcells : blk.pay.cells = cs := by rw [hpay]; cases isArr <;> rfl
  have hlen : i < cs.length := by rw [← hvals] at hi; simpa using hi
  have hold : cs[i]? = some cs[i] := by simp [hlen]
  obtain ⟨h4, r4, st⟩ := edit_plain ds hd (seqKind isArr) a blk hb href (seqPay isArr (cs.eraseIdx i)) [cs[i]]
    (by intro x; rw [hcells]
        have : (seqPay isArr (cs.eraseIdx i)).cells = cs.eraseIdx i := by cases isArr <;> rfl
        rw [this, cntCells_cons, cntCells_nil]; have := cnt_eraseIdx cs i _ x hold; omega)
    (by intro d hdm
        have : (seqPay isArr (cs.eraseIdx i)).cells = cs.eraseIdx i := by cases isArr <;> rfl
        rw [this] at hdm; rw [hcells]; exact List.mem_of_mem_eraseIdx hdm) f hf
  refine ⟨h4, .ptr b, upd g1 b (absPay g1 (seqPay isArr (cs.eraseIdx i))), ?_, ?_⟩
  · simp only [withAccess, r1, hb, hpay]
    cases isArr
    · simp only [seqPay, Bool.false_eq_true, if_false] at r4 ⊢; simp [hold, r4]
    · simp only [seqPay, if_true] at r4 ⊢; simp [hold, r4]
  · have hv : absPay g1 (seqPay isArr (cs.eraseIdx i)) = seqVal isArr ((seqOf isArr (absCell g c)).eraseIdx i) := by
      rw [← hvals, ← map_eraseIdx']
      cases isArr <;> simp [seqPay, seqVal, absPay]
    exact ⟨st.inv, st.val.trans hv, st.ok, st.frame, st.next_le, st.next_ge, st.live⟩

/-! ### map insert / remove, string append -/

theorem mapInsert_abs (g : Nat → Val) (m : List (Str × Cell)) (k : Str) (c : Cell) :
    (match mapGet m k with
     | some _ => (mapPut m k c).map (fun p => (p.1, absCell g p.2))
     | none => (m ++ [(k, c)]).map (fun p => (p.1, absCell g p.2))) =
      mapInsert (m.map (fun p => (p.1, absCell g p.2))) k (absCell g c) := by
  induction m with
  | nil => simp [mapGet, mapInsert]
  | cons q t ih =>
    obtain ⟨k', d⟩ := q
    simp only [mapGet, List.map_cons, mapInsert]
    by_cases hk : (k' == k) = true
    · simp [hk, mapPut]
    · have hk' : (k' == k) = false := by simpa using hk
      simp only [hk', Bool.false_eq_true, if_false]
      cases hg : mapGet t k with
      | none => simp only [hg] at ih ⊢; simp [ih]
      | some o => simp only [hg] at ih ⊢; simp [mapPut, hk', ih]

theorem mapRemove_abs (g : Nat → Val) (m : List (Str × Cell)) (k : Str) :
    (mapDel m k).map (fun p => (p.1, absCell g p.2)) = mapRemove (m.map (fun p => (p.1, absCell g p.2))) k := by
  induction m with
  | nil => rfl
  | cons q t ih =>
    obtain ⟨k', d⟩ := q
    simp only [mapDel, List.map_cons, mapRemove]
    by_cases hk : (k' == k) = true
    · simp [hk]
    · have hk' : (k' == k) = false := by simpa using hk
      simp [hk', ih]

theorem cnt_mapDel (m : List (Str × Cell)) (k : Str) (x : Nat) :
    cntCells ((mapDel m k).map (·.2)) x + cntCells (match mapGet m k with | some old => [old] | none => []) x
      = cntCells (m.map (·.2)) x := by
  induction m with
  | nil => simp [mapDel, mapGet, cntCells_nil]
  | cons q t ih =>
    obtain ⟨k', d⟩ := q
    simp only [mapDel, mapGet]
    by_cases hk : (k' == k) = true
    · simp [hk, cntCells_cons, cntCells_nil]; omega
    · have hk' : (k' == k) = false := by simpa using hk
      simp only [hk', Bool.false_eq_true, if_false, List.map_cons, cntCells_cons]
      omega

theorem mem_mapDel (m : List (Str × Cell)) (k : Str) (d : Cell) (h : d ∈ (mapDel m k).map (·.2)) : d ∈ m.map (·.2) := by
  induction m with
  | nil => simp [mapDel] at h
  | cons q t ih =>
    obtain ⟨k', e⟩ := q
    simp only [mapDel] at h
    by_cases hk : (k' == k) = true
    · simp only [hk, if_true] at h; simp only [List.map_cons, List.mem_cons]; exact Or.inr h
    · have hk' : (k' == k) = false := by simpa using hk
      simp only [hk', Bool.false_eq_true, if_false, List.map_cons, List.mem_cons] at h ⊢
      rcases h with h | h
      · exact Or.inl h
      · exact Or.inr (ih h)

/-- the payload of an accessed block of kind 7 is a map holding the coerced value -/
theorem accessed_map (ds : DblSem) {h vars e g c h1 b g1} (a : Accessed ds h vars e g c 7 h1 b g1) (blk : Block)
    (hb : h1.heap b = some blk) :
    ∃ m, blk.pay = .map m ∧ m.map (fun p => (p.1, absCell g1 p.2)) = (absCell g c).asMap := by
  have hcons := a.inv.cons b blk hb
  rw [a.val] at hcons
  simp only [coerce, if_true] at hcons
  cases hp : blk.pay <;> rw [hp] at hcons <;> simp [absPay] at hcons
  exact ⟨_, rfl, hcons.symm⟩

theorem leaf_mrem (ds : DblSem) {h vars e g c} (hd : Held h vars e g c) (k : Str) (f : Nat) (hf : liveCount h + 2 < f) :
    ∃ h' c' g', withAccess f ds h c 7 (fun s1 p =>
        match p with
        | .map m => some (s1, .map (mapDel m k), (match mapGet m k with | some old => [old] | none => []))
        | _ => none) = some (h', c') ∧
      CellStep h vars e g c (.map (mapRemove (absCell g c).asMap k)) 2 h' c' g' := by
  obtain ⟨h1, b, g1, r1, a⟩ := dinv_access ds hd 7 (by simp [isKind]) f (by omega)
  obtain ⟨blk, hb, href⟩ := a.blk
  obtain ⟨m, hpay, hvals⟩ := accessed_map ds a blk hb
  obtain ⟨h4, r4, st⟩ := edit_plain ds hd 7 a blk hb href (.map (mapDel m k)) (match mapGet m k with | some old => [old] | none => [])
    (by intro x; rw [hpay]; exact cnt_mapDel m k x)
    (by intro d hdm; rw [hpay]; exact mem_mapDel m k d hdm) f hf
  refine ⟨h4, .ptr b, upd g1 b (absPay g1 (.map (mapDel m k))), by simp only [withAccess, r1, hb, hpay, r4, Option.map], ?_⟩
  have hv : absPay g1 (.map (mapDel m k)) = .map (mapRemove (absCell g c).asMap k) := by
    simp only [absPay, mapRemove_abs, hvals]
  exact ⟨st.inv, st.val.trans hv, st.ok, st.frame, st.next_le, st.next_ge, st.live⟩

theorem leaf_sapp (ds : DblSem) {h vars e g c} (hd : Held h vars e g c) (t : Str) (f : Nat) (hf : liveCount h + 2 < f) :
    ∃ h' c' g', withAccess f ds h c 10 (fun s1 p =>
        match p with
        | .str u => some (s1, .str (u ++ t), [])
        | _ => none) = some (h', c') ∧
      CellStep h vars e g c (.str ((absCell g c).toStr ds ++ t)) 2 h' c' g' := by
  obtain ⟨h1, b, g1, r1, a⟩ := dinv_access ds hd 10 (by simp [isKind]) f (by omega)
  obtain ⟨blk, hb, href⟩ := a.blk
  have hcons := a.inv.cons b blk hb
  rw [a.val] at hcons
  have hpay : blk.pay = .str ((absCell g c).toStr ds) := by
    simp only [coerce] at hcons
    cases hp : blk.pay <;> rw [hp] at hcons <;> simp [absPay] at hcons
    rw [hcons]
  obtain ⟨h4, r4, st⟩ := edit_plain ds hd 10 a blk hb href (.str ((absCell g c).toStr ds ++ t)) []
    (by intro x; rw [hpay]; rfl) (by intro d hdm; simp [Pay.cells] at hdm) f hf
  exact ⟨h4, .ptr b, upd g1 b (absPay g1 (.str ((absCell g c).toStr ds ++ t))), by simp only [withAccess, r1, hb, hpay, r4, Option.map], st⟩

theorem leaf_mput (ds : DblSem) {h vars e g c} (rd : Nat → Cell) (hd : Held h vars e g c) (k : Str) (src : Src)
    (hs : SrcOk rd vars src) (f : Nat) (hf : liveCount h + 2 < f) :
    ∃ h' c' g', withAccess f ds h c 7 (fun s1 p =>
        match p with
        | .map m =>
          let (s2, c') := srcCopy rd s1 src
          (match mapGet m k with
           | some old => some (s2, .map (mapPut m k c'), [old])
           | none => some (s2, .map (m ++ [(k, c')]), []))
        | _ => none) = some (h', c') ∧
      CellStep h vars e g c (.map (mapInsert (absCell g c).asMap k (srcVal g vars src))) 2 h' c' g' := by
  obtain ⟨h1, b, g1, r1, a⟩ := dinv_access ds hd 7 (by simp [isKind]) f (by omega)
  obtain ⟨blk, hb, href⟩ := a.blk
  obtain ⟨m, hpay, hvals⟩ := accessed_map ds a blk hb
  have i1 := a.inv
  obtain ⟨g2, cp⟩ := dinv_srcCopy rd i1 src hs
  have hc'_b : cellCnt (srcCopy rd h1 src).2 b = 0 := by
    cases hcc : (srcCopy rd h1 src).2 with
    | null => rfl
    | inl z => rfl
    | ptr t =>
      by_cases et : t = b
      · subst et
        rcases cp.tgt t hcc with h1' | h1'
        · have := a.hz; omega
        · rw [hb] at h1'; cases h1'
      · simp [cellCnt_ptr, et]
  -- new payload and dead cells
  let p' : Pay := match mapGet m k with | some _ => .map (mapPut m k (srcCopy rd h1 src).2) | none => .map (m ++ [(k, (srcCopy rd h1 src).2)])
  let dead : List Cell := match mapGet m k with | some old => [old] | none => []
  have hcellsp : blk.pay.cells = m.map (·.2) := by rw [hpay]; rfl
  obtain ⟨h4, r4, st⟩ := edit_cellstep ds hd 7 a blk hb href (srcCopy rd h1 src).1 g2 [(srcCopy rd h1 src).2]
    (cp.inv.congr (by intro x; simp [cntCells_cons, cntCells_nil])) cp.keep cp.sub cp.frame cp.next_le cp.next_ge cp.live
    (by intro d hdm z hz; simp at hdm; subst hdm; exact cp.ok z hz)
    (by simp [cntCells_cons, cntCells_nil, hc'_b]) p' dead
    (by
      intro x
      rw [hcellsp]
      simp only [p', dead]
      cases hg : mapGet m k with
      | some old =>
        simp only [Pay.cells, cntCells_cons, cntCells_nil]
        have := cnt_mapPut m k (srcCopy rd h1 src).2 old x hg; omega
      | none =>
        simp only [Pay.cells, List.map_append, List.map_cons, List.map_nil, cntCells_append, cntCells_cons, cntCells_nil]
        omega)
    (by
      intro d hdm
      rw [hcellsp]
      simp only [p'] at hdm
      cases hg : mapGet m k with
      | some old =>
        rw [hg] at hdm
        rcases mem_mapPut m k _ d hdm with h1' | h1'
        · exact Or.inl h1'
        · exact Or.inr (by simp [h1'])
      | none =>
        rw [hg] at hdm
        simp only [Pay.cells, List.map_append, List.map_cons, List.map_nil, List.mem_append, List.mem_singleton] at hdm
        rcases hdm with h1' | h1'
        · exact Or.inl h1'
        · exact Or.inr (by simp [h1'])) f hf
  refine ⟨h4, .ptr b, upd g2 b (absPay g2 p'), ?_, ?_⟩
  · simp only [withAccess, r1, hb, hpay]
    simp only [p', dead] at r4
    cases hg : mapGet m k with
    | some old => rw [hg] at r4; simp only [r4, Option.map]
    | none => rw [hg] at r4; simp only [r4, Option.map]
  · have hsv : absCell g2 (srcCopy rd h1 src).2 = srcVal g vars src := by
      rw [cp.val]
      simp only [srcVal]
      cases src with
      | lit x => rfl
      | var w =>
        simp only [Src.eval]
        apply absCell_congr
        intro t ht
        obtain ⟨k0, hk0⟩ := hd.inv.live w t ht
        exact a.frame t (hd.inv.lt_next t k0 hk0)
    have hmapeq : m.map (fun p => (p.1, absCell g2 p.2)) = m.map (fun p => (p.1, absCell g1 p.2)) := by
      apply List.map_congr_left
      intro q hq
      have : absCell g2 q.2 = absCell g1 q.2 := by
        apply absCell_congr
        intro t ht
        have hqm : q.2 ∈ blk.pay.cells := by rw [hcellsp]; exact List.mem_map.2 ⟨q, hq, rfl⟩
        obtain ⟨k1, hk1⟩ := (stored_cells_ok i1 b blk hb q.2 hqm).2 t ht
        exact cp.frame t (i1.lt_next t k1 hk1)
      rw [this]
    have hv : absPay g2 p' = .map (mapInsert (absCell g c).asMap k (srcVal g vars src)) := by
      have := mapInsert_abs g2 m k (srcCopy rd h1 src).2
      simp only [p']
      cases hg : mapGet m k with
      | some old => rw [hg] at this; simp only [absPay, this, hmapeq, hvals, hsv]
      | none => rw [hg] at this; simp only [absPay, this, hmapeq, hvals, hsv]
    exact ⟨st.inv, st.val.trans hv, st.ok, st.frame, st.next_le, st.next_ge, st.live⟩

end Nstd.Variant.Deep

namespace Nstd.Variant.Deep
open Nstd.Variant

/-! ### typed assignment of a String -/

theorem setPay_next' (h : Heap) (b : Nat) (p : Pay) : (setPay h b p).next = h.next := by
  unfold setPay; split <;> rfl

theorem leaf_setStr {h vars e g c} (hd : Held h vars e g c) (t : Str) (f : Nat) (hf : liveCount h + 2 < f) :
    ∃ h' c' g', setBoxedCell f h c (.str t) = some (h', c') ∧ CellStep h vars e g c (.str t) 2 h' c' g' := by
  have i := hd.inv
  have hty := cellType_abs hd
  by_cases hc : cellType h c ≠ (Pay.str t).type ∨ cellRef h c > 1
  · -- new block
    obtain ⟨h1, r1, i1, s1⟩ := dinv_release f h e c i hd.pend (by omega)
    have i2 := dinv_alloc i1 (.str t) (by intro d hdm; simp [Pay.cells] at hdm) (by intro x; simp [Pay.cells, cntCells_nil])
    refine ⟨(alloc h1 (.str t)).1, .ptr h1.next, upd g h1.next (.str t), ?_, i2.congr ?_, by simp [absCell],
      (by intro z hz; cases hz), ?_, ?_, ?_, ?_⟩
    · simp only [setBoxedCell, hc, if_true, r1, copyPay, alloc_id]
    · intro x
      simp only [Pay.cells, cntCells_nil, cellCnt_ptr]
      by_cases ex : x = h1.next
      · subst ex; simp
      · have : ¬ h1.next = x := fun y => ex y.symm
        simp [ex, this]
    · intro x hx _
      have : x ≠ h1.next := by rw [s1.next]; have := lt_next_of_ne i x hx; omega
      exact upd_other _ _ _ _ this
    · rw [alloc_next, s1.next]; omega
    · rw [alloc_next, s1.next]; omega
    · rw [liveCount_alloc i1]; have := s1.live; omega
  · -- in place
    have ht : cellType h c = 10 := by
      by_cases e1 : cellType h c = (Pay.str t).type
      · exact e1
      · exact absurd (Or.inl e1) hc
    have hr : ¬ cellRef h c > 1 := fun r => hc (Or.inr r)
    cases c with
    | null => simp [cellType] at ht
    | inl y =>
      have := type_lt_of_not_boxed y (hd.ok y rfl)
      simp [cellType] at ht; omega
    | ptr b =>
      obtain ⟨blk, hb⟩ := hd.cellOk.2 b rfl
      have hpos := i.pos b blk hb
      have href : blk.ref = 1 := by simp [cellRef, hb] at hr; omega
      have hcnt := i.cnt b blk hb
      have hpe := hd.pend b
      simp [cellCnt_ptr] at hpe
      have hpay : ∃ u, blk.pay = .str u := by
        simp only [cellType, hb] at ht
        cases hp : blk.pay <;> rw [hp] at ht <;> simp [Pay.type] at ht
        exact ⟨_, rfl⟩
      obtain ⟨u, hpay⟩ := hpay
      have i3 := dinv_setPay i b blk hb (by omega) (by omega) (.str t) (by intro d hdm; simp [Pay.cells] at hdm)
        (by intro x; simp [Pay.cells, cntCells_nil]) rfl
      refine ⟨setPay h b (.str t), .ptr b, upd g b (.str t), ?_, i3.congr ?_, by simp [absCell],
        (by intro z hz; cases hz), ?_, ?_, ?_, ?_⟩
      · simp only [setBoxedCell, hc, if_false, hb, copyPay, hpay, Pay.cells, releaseAll, List.foldlM_nil]
        rfl
      · intro x
        have := hd.pend x
        simp only [hpay, Pay.cells, cntCells_nil, cellCnt_ptr] at this ⊢
        omega
      · intro x hx hprot
        have : x ≠ b := by
          intro exb; subst exb
          simp only [cellCnt_ptr, if_true] at hprot
          rcases hprot with hp | hp <;> omega
        exact upd_other _ _ _ _ this
      · rw [setPay_next']; omega
      · rw [setPay_next']; omega
      · have : liveCount (setPay h b (.str t)) = liveCount h := by
          apply liveCount_sameLive
          refine ⟨setPay_next' _ _ _, ?_⟩
          intro x
          simp only [setPay, hb]
          by_cases ex : x = b
          · subst ex; simp [hb]
          · simp [upd_other _ _ _ _ ex]
        omega

end Nstd.Variant.Deep
