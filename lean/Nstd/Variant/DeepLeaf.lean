import Nstd.Variant.DeepAccess
/-
  Operations on a held cell of the deep model: the result relation `CellStep`, sources, and the
  leaf operations covered by the deep refinement theorem.
-/
namespace Nstd.Variant.Deep
open Nstd.Variant

/-- the outcome of an operation on the held cell `c` (abstract value before: `absCell g c`) that
    leaves the cell `c'` with abstract value `y`, having allocated at most `n` blocks -/
structure CellStep (h : Heap) (vars : Nat → Cell) (e : Nat → Nat) (g : Nat → Val) (c : Cell) (y : Val) (n : Nat)
    (h' : Heap) (c' : Cell) (g' : Nat → Val) : Prop where
  inv : DInv h' vars (fun x => e x - cellCnt c x + cellCnt c' x) g'
  val : absCell g' c' = y
  ok : ∀ z, c' = .inl z → z.isBoxed = false
  frame : ∀ x, h.heap x ≠ none → (1 ≤ handles vars x ∨ 1 + cellCnt c x ≤ e x) → g' x = g x
  next_le : h.next ≤ h'.next
  next_ge : h'.next ≤ h.next + n
  live : liveCount h' ≤ liveCount h + n

theorem CellStep.mono {h vars e g c y n h' c' g'} (s : CellStep h vars e g c y n h' c' g') (m : Nat) (hm : n ≤ m) :
    CellStep h vars e g c y m h' c' g' :=
  ⟨s.inv, s.val, s.ok, s.frame, s.next_le, by have := s.next_ge; omega, by have := s.live; omega⟩

/-- a literal that the line protocol can write: null, a scalar or a string -/
def LitOk : Val → Prop
  | .map _ | .list _ | .array _ => False
  | _ => True

def SrcOk (rd vars : Nat → Cell) : Src → Prop
  | .var w => rd w = vars w ∧ w < nslots
  | .lit x => LitOk x

/-- abstract value of a source -/
def srcVal (g : Nat → Val) (vars : Nat → Cell) (s : Src) : Val := s.eval (fun w => absCell g (vars w))

/-- blocks of `h'` have the payload they had in `h`, or are new blocks without element cells -/
def PaySubE (h h' : Heap) : Prop :=
  ∀ x blk', h'.heap x = some blk' → (∃ blk, h.heap x = some blk ∧ blk'.pay = blk.pay) ∨ blk'.pay.cells = []

/-- taking a fresh handle of a source: copy of the variable, or a temporary literal -/
structure Copied (h : Heap) (vars : Nat → Cell) (e : Nat → Nat) (g : Nat → Val) (y : Val)
    (h' : Heap) (c' : Cell) (g' : Nat → Val) : Prop where
  inv : DInv h' vars (fun x => e x + cellCnt c' x) g'
  val : absCell g' c' = y
  ok : ∀ z, c' = .inl z → z.isBoxed = false
  frame : ∀ x, x < h.next → g' x = g x
  keep : ∀ x blk, h.heap x = some blk → ∃ blk', h'.heap x = some blk' ∧ blk'.pay = blk.pay
  sub : PaySubE h h'
  next_le : h.next ≤ h'.next
  next_ge : h'.next ≤ h.next + 1
  live : liveCount h' ≤ liveCount h + 1
  /-- the new handle points to a block a variable points to, or to a new block -/
  tgt : ∀ b, c' = .ptr b → 1 ≤ handles vars b ∨ h.heap b = none

theorem var_cellOk {h : Heap} {vars e g} (i : DInv h vars e g) (w : Nat) : CellOk h (vars w) :=
  ⟨fun y hy => i.inl w y hy, fun b hb => i.live w b hb⟩

theorem var_handles {h : Heap} {vars e g} (i : DInv h vars e g) (w b : Nat) (hw : vars w = .ptr b) : 1 ≤ handles vars b := by
  have hwl : w < nslots := by
    by_cases hl : w < nslots
    · exact hl
    · have := i.out w (by omega); rw [this] at hw; cases hw
  exact one_handle vars w b hwl hw

theorem dinv_srcCopy {h : Heap} {vars e g} (rd : Nat → Cell) (i : DInv h vars e g) (src : Src) (hs : SrcOk rd vars src) :
    ∃ g', Copied h vars e g (srcVal g vars src) (srcCopy rd h src).1 (srcCopy rd h src).2 g' := by
  cases src with
  | var w =>
    obtain ⟨hrd, hw⟩ := hs
    simp only [srcCopy, hrd]
    obtain ⟨i1, a1, c1, s1, p1, q1, o1⟩ := dinv_copyCell i (vars w) (var_cellOk i w)
    refine ⟨g, i1, a1, o1, fun _ _ => rfl, ?_, ?_, by rw [s1.1]; omega, by rw [s1.1]; omega,
      by rw [liveCount_sameLive s1]; omega, ?_⟩
    · intro x blk hx; obtain ⟨k, hk, ek⟩ := q1 x blk hx; exact ⟨k, hk, ek.symm⟩
    · intro x blk' hx; exact Or.inl (p1 x blk' hx)
    · intro b hb
      have : cellCnt (copyCell h (vars w)).2 b = 1 := by rw [hb]; simp [cellCnt_ptr]
      rw [c1 b] at this
      have hp : vars w = .ptr b := by
        cases hv : vars w <;> simp [hv, cellCnt, isPtrTo] at this
        subst this; rfl
      exact Or.inl (var_handles i w b hp)
  | lit x =>
    have hn : h.heap h.next = none := i.fresh _ (Nat.le_refl _)
    cases x with
    | str t =>
      simp only [srcCopy, mkLit]
      have i2 := dinv_alloc i (.str t) (by intro c hc; simp [Pay.cells] at hc) (by intro x; simp [Pay.cells, cntCells_nil])
      refine ⟨upd g h.next (.str t), i2.congr ?_, ?_, ?_, ?_, ?_, ?_, ?_, ?_, ?_, ?_⟩
      · intro x
        simp only [Pay.cells, cntCells_nil, alloc_id, cellCnt_ptr]
        by_cases ex : x = h.next
        · subst ex; simp
        · have : ¬ h.next = x := fun y => ex y.symm
          simp [ex, this]
      · simp [absCell, alloc_id, srcVal, Src.eval]
      · intro z hz; cases hz
      · intro x hx
        have : x ≠ h.next := by omega
        exact upd_other _ _ _ _ this
      · intro x blk hx
        have : x ≠ h.next := by intro ex; subst ex; rw [hn] at hx; cases hx
        exact ⟨blk, by rw [alloc_sameLive_old _ _ _ this]; exact hx, rfl⟩
      · intro x blk' hx
        by_cases ex : x = h.next
        · subst ex; rw [alloc_new] at hx; injection hx with hx; subst hx; exact Or.inr rfl
        · rw [alloc_sameLive_old _ _ _ ex] at hx; exact Or.inl ⟨blk', hx, rfl⟩
      · simp [alloc_next]
      · simp [alloc_next]
      · rw [liveCount_alloc i]; omega
      · intro b hb; simp only [alloc_id] at hb; injection hb with hb; subst hb; exact Or.inr hn
    | null =>
      exact ⟨g, i.congr (by intro x; simp [srcCopy, mkLit, cellCnt, isPtrTo]), rfl, (by intro z hz; cases hz),
        (fun _ _ => rfl), fun x blk hx => ⟨blk, hx, rfl⟩, fun x blk' hx => Or.inl ⟨blk', hx, rfl⟩, Nat.le_refl _,
        (by simp [srcCopy, mkLit]), (by simp [srcCopy, mkLit]), (by intro b hb; cases hb)⟩
    | map m => exact absurd hs (by simp [SrcOk, LitOk])
    | list l => exact absurd hs (by simp [SrcOk, LitOk])
    | array l => exact absurd hs (by simp [SrcOk, LitOk])
    | bool b =>
      exact ⟨g, i.congr (by intro x; simp [srcCopy, mkLit, cellCnt, isPtrTo]), rfl,
        (by intro z hz; simp [srcCopy, mkLit] at hz; subst hz; rfl),
        (fun _ _ => rfl), fun x blk hx => ⟨blk, hx, rfl⟩, fun x blk' hx => Or.inl ⟨blk', hx, rfl⟩, Nat.le_refl _,
        (by simp [srcCopy, mkLit]), (by simp [srcCopy, mkLit]), (by intro b hb; cases hb)⟩
    | dbl d =>
      exact ⟨g, i.congr (by intro x; simp [srcCopy, mkLit, cellCnt, isPtrTo]), rfl,
        (by intro z hz; simp [srcCopy, mkLit] at hz; subst hz; rfl),
        (fun _ _ => rfl), fun x blk hx => ⟨blk, hx, rfl⟩, fun x blk' hx => Or.inl ⟨blk', hx, rfl⟩, Nat.le_refl _,
        (by simp [srcCopy, mkLit]), (by simp [srcCopy, mkLit]), (by intro b hb; cases hb)⟩
    | int n =>
      exact ⟨g, i.congr (by intro x; simp [srcCopy, mkLit, cellCnt, isPtrTo]), rfl,
        (by intro z hz; simp [srcCopy, mkLit] at hz; subst hz; rfl),
        (fun _ _ => rfl), fun x blk hx => ⟨blk, hx, rfl⟩, fun x blk' hx => Or.inl ⟨blk', hx, rfl⟩, Nat.le_refl _,
        (by simp [srcCopy, mkLit]), (by simp [srcCopy, mkLit]), (by intro b hb; cases hb)⟩
    | uint n =>
      exact ⟨g, i.congr (by intro x; simp [srcCopy, mkLit, cellCnt, isPtrTo]), rfl,
        (by intro z hz; simp [srcCopy, mkLit] at hz; subst hz; rfl),
        (fun _ _ => rfl), fun x blk hx => ⟨blk, hx, rfl⟩, fun x blk' hx => Or.inl ⟨blk', hx, rfl⟩, Nat.le_refl _,
        (by simp [srcCopy, mkLit]), (by simp [srcCopy, mkLit]), (by intro b hb; cases hb)⟩
    | int64 n =>
      exact ⟨g, i.congr (by intro x; simp [srcCopy, mkLit, cellCnt, isPtrTo]), rfl,
        (by intro z hz; simp [srcCopy, mkLit] at hz; subst hz; rfl),
        (fun _ _ => rfl), fun x blk hx => ⟨blk, hx, rfl⟩, fun x blk' hx => Or.inl ⟨blk', hx, rfl⟩, Nat.le_refl _,
        (by simp [srcCopy, mkLit]), (by simp [srcCopy, mkLit]), (by intro b hb; cases hb)⟩
    | uint64 n =>
      exact ⟨g, i.congr (by intro x; simp [srcCopy, mkLit, cellCnt, isPtrTo]), rfl,
        (by intro z hz; simp [srcCopy, mkLit] at hz; subst hz; rfl),
        (fun _ _ => rfl), fun x blk hx => ⟨blk, hx, rfl⟩, fun x blk' hx => Or.inl ⟨blk', hx, rfl⟩, Nat.le_refl _,
        (by simp [srcCopy, mkLit]), (by simp [srcCopy, mkLit]), (by intro b hb; cases hb)⟩

end Nstd.Variant.Deep

namespace Nstd.Variant.Deep
open Nstd.Variant

theorem liveCount_le_next (h : Heap) : liveCount h ≤ h.next := by
  unfold liveCount liveN
  have := List.countP_le_length (p := fun i => (h.heap i).isSome) (l := List.range h.next)
  simpa using this

theorem lt_next_of_ne {h : Heap} {vars e g} (i : DInv h vars e g) (x : Nat) (hx : h.heap x ≠ none) : x < h.next := by
  cases hh : h.heap x with
  | none => exact absurd hh hx
  | some k => exact i.lt_next x k hh

@[simp] theorem cellCnt_null (y : Nat) : cellCnt .null y = 0 := rfl
@[simp] theorem cellCnt_inl (z : Val) (y : Nat) : cellCnt (.inl z) y = 0 := rfl

/-! ### clear -/

theorem leaf_clear {h vars e g c} (hd : Held h vars e g c) (f : Nat) (hf : liveCount h < f) :
    ∃ h', release f h c = some h' ∧ CellStep h vars e g c .null 0 h' .null g := by
  obtain ⟨h', r, i', s⟩ := dinv_release f h e c hd.inv hd.pend hf
  refine ⟨h', r, i'.congr (by intro x; simp), rfl, (by intro z hz; cases hz), (fun _ _ _ => rfl),
    (by rw [s.next]; omega), (by rw [s.next]; omega), (by have := s.live; omega)⟩

/-! ### touch (the mutable accessor alone) -/

theorem leaf_touch (ds : DblSem) {h vars e g c} (hd : Held h vars e g c) (k : Nat) (hk : isKind k) (f : Nat)
    (hf : liveCount h + 1 < f) :
    ∃ h' c' g', accessCell f ds h c k = some (h', c') ∧
      CellStep h vars e g c (coerce ds k (absCell g c)) 1 h' c' g' := by
  obtain ⟨h', b, g', r, a⟩ := dinv_access ds hd k hk f hf
  refine ⟨h', .ptr b, g', r, a.inv, a.val, (by intro z hz; cases hz), ?_, a.next_le, a.next_ge, a.live⟩
  intro x hx _
  exact a.frame x (lt_next_of_ne hd.inv x hx)

/-! ### operator=(const Variant&) -/

theorem leaf_assign {h vars e g c} (rd : Nat → Cell) (hd : Held h vars e g c) (src : Src) (hs : SrcOk rd vars src)
    (f : Nat) (hf : liveCount h + 1 < f) :
    ∃ h' c' g', (let (s1, c') := srcCopy rd h src; (release f s1 c).map (fun s2 => (s2, c'))) = some (h', c') ∧
      CellStep h vars e g c (srcVal g vars src) 1 h' c' g' := by
  obtain ⟨g1, cp⟩ := dinv_srcCopy rd hd.inv src hs
  have hp : ∀ x, cellCnt c x ≤ (fun x => e x + cellCnt (srcCopy rd h src).2 x) x := by
    intro x; have := hd.pend x; show cellCnt c x ≤ e x + _; omega
  obtain ⟨h2, r2, i2, s2⟩ := dinv_release f _ _ c cp.inv hp (by have := cp.live; omega)
  refine ⟨h2, (srcCopy rd h src).2, g1, by simp only [r2, Option.map], i2.congr ?_, cp.val, cp.ok, ?_, ?_, ?_, ?_⟩
  · intro x; have := hd.pend x; show e x + cellCnt _ x - cellCnt c x = e x - cellCnt c x + cellCnt _ x; omega
  · intro x hx _
    exact cp.frame x (lt_next_of_ne hd.inv x hx)
  · rw [s2.next]; exact cp.next_le
  · rw [s2.next]; exact cp.next_ge
  · have := s2.live; have := cp.live; omega

/-! ### typed assignment of a scalar -/

theorem leaf_setScalar {h vars e g c} (hd : Held h vars e g c) (x : Val) (hx : x.isBoxed = false) (f : Nat)
    (hf : liveCount h < f) :
    ∃ h', (if cellType h c ≠ x.type then (release f h c).map (fun s1 => (s1, Cell.inl x)) else some (h, Cell.inl x))
        = some (h', Cell.inl x) ∧ CellStep h vars e g c x 0 h' (.inl x) g := by
  by_cases ht : cellType h c ≠ x.type
  · obtain ⟨h', r, i', s⟩ := dinv_release f h e c hd.inv hd.pend hf
    refine ⟨h', by simp [ht, r], i'.congr (by intro y; simp), rfl, ?_, (fun _ _ _ => rfl),
      (by rw [s.next]; omega), (by rw [s.next]; omega), (by have := s.live; omega)⟩
    intro z hz; injection hz with hz; subst hz; exact hx
  · have hte : cellType h c = x.type := by
      by_cases e1 : cellType h c = x.type
      · exact e1
      · exact absurd e1 ht
    -- the cell holds an inline value already: nothing to release
    have hnp : ∀ y, cellCnt c y = 0 := by
      intro y
      cases c with
      | null => rfl
      | inl z => rfl
      | ptr b =>
        obtain ⟨blk, hb⟩ := hd.cellOk.2 b rfl
        have h7 : 7 ≤ cellType h (.ptr b) := by
          simp only [cellType, hb]; cases blk.pay <;> simp [Pay.type]
        have := type_lt_of_not_boxed x hx
        omega
    refine ⟨h, by simp [ht], hd.inv.congr (by intro y; simp [hnp y]), rfl, ?_, (fun _ _ _ => rfl),
      Nat.le_refl _, (by omega), (by omega)⟩
    intro z hz; injection hz with hz; subst hz; exact hx

/-! ### append / prepend an element through the accessor -/

/-- where the new element goes -/
inductive Ins where
  | back | front

def Ins.cells : Ins → List Cell → Cell → List Cell
  | .back, cs, c => cs ++ [c]
  | .front, cs, c => c :: cs

def Ins.vals : Ins → List Val → Val → List Val
  | .back, vs, v => vs ++ [v]
  | .front, vs, v => v :: vs

theorem Ins.cnt (m : Ins) (cs : List Cell) (c : Cell) (x : Nat) : cntCells (m.cells cs c) x = cntCells cs x + cellCnt c x := by
  cases m
  · simp [Ins.cells, cntCells_append, cntCells_cons, cntCells_nil]
  · simp [Ins.cells, cntCells_cons]; omega

theorem Ins.map (m : Ins) (g : Nat → Val) (cs : List Cell) (c : Cell) :
    (m.cells cs c).map (absCell g) = m.vals (cs.map (absCell g)) (absCell g c) := by
  cases m <;> simp [Ins.cells, Ins.vals]

theorem Ins.mem (m : Ins) (cs : List Cell) (c d : Cell) (h : d ∈ m.cells cs c) : d ∈ cs ∨ d = c := by
  cases m <;> simp [Ins.cells] at h <;> rcases h with h | h <;> simp [h]

/-- list (`isArr = false`) or array payload -/
def seqPay (isArr : Bool) (cs : List Cell) : Pay := if isArr then .array cs else .list cs
def seqVal (isArr : Bool) (vs : List Val) : Val := if isArr then .array vs else .list vs
def seqKind (isArr : Bool) : Nat := if isArr then 9 else 8
def seqOf (isArr : Bool) (x : Val) : List Val := if isArr then x.asArray else x.asList

theorem leaf_push (ds : DblSem) {h vars e g c} (rd : Nat → Cell) (hd : Held h vars e g c) (isArr : Bool) (m : Ins)
    (src : Src) (hs : SrcOk rd vars src) (f : Nat) (hf : liveCount h + 1 < f) :
    ∃ h' c' g', withAccess f ds h c (seqKind isArr) (fun s1 p =>
        match p, isArr with
        | .list cs, false => let (s2, c') := srcCopy rd s1 src; some (s2, .list (m.cells cs c'))
        | .array cs, true => let (s2, c') := srcCopy rd s1 src; some (s2, .array (m.cells cs c'))
        | _, _ => none) = some (h', c') ∧
      CellStep h vars e g c (seqVal isArr (m.vals (seqOf isArr (absCell g c)) (srcVal g vars src))) 2 h' c' g' := by
  have hk : isKind (seqKind isArr) := by cases isArr <;> simp [seqKind, isKind]
  obtain ⟨h1, b, g1, r1, a⟩ := dinv_access ds hd (seqKind isArr) hk f hf
  obtain ⟨blk, hb, href⟩ := a.blk
  have i1 := a.inv
  -- the payload is a sequence of the right kind holding the coerced value
  have hcons := i1.cons b blk hb
  rw [a.val] at hcons
  have hpay : ∃ cs, blk.pay = seqPay isArr cs ∧ cs.map (absCell g1) = seqOf isArr (absCell g c) := by
    cases isArr
    · simp only [seqKind, coerce, seqPay, seqOf] at hcons ⊢
      cases hp : blk.pay <;> rw [hp] at hcons <;> simp [absPay] at hcons
      exact ⟨_, rfl, hcons.symm⟩
    · simp only [seqKind, coerce, seqPay, seqOf] at hcons ⊢
      cases hp : blk.pay <;> rw [hp] at hcons <;> simp [absPay] at hcons
      exact ⟨_, rfl, hcons.symm⟩
  obtain ⟨cs, hpay, hvals⟩ := hpay
  have hcells : blk.pay.cells = cs := by rw [hpay]; cases isArr <;> rfl
  -- the new element
  obtain ⟨g2, cp⟩ := dinv_srcCopy rd i1 src hs
  obtain ⟨blk2, hb2, ep2⟩ := cp.keep b blk hb
  have hnostore1 := no_store_of_zero i1 b a.sz
  have hs2 : stored (srcCopy rd h1 src).1.heap (srcCopy rd h1 src).1.next b = 0 := by
    apply stored_zero
    intro j k hj hm
    rcases cp.sub j k hj with ⟨k1, hk1, ek⟩ | hemp
    · rw [ek] at hm; exact hnostore1 j k1 hk1 hm
    · rw [hemp] at hm; cases hm
  have hcok : ∀ d ∈ (seqPay isArr (m.cells cs (srcCopy rd h1 src).2)).cells, CellOk (srcCopy rd h1 src).1 d := by
    intro d hdm
    have hdm' : d ∈ m.cells cs (srcCopy rd h1 src).2 := by cases isArr <;> exact hdm
    rcases Ins.mem m cs _ d hdm' with hin | heq
    · have hok1 := stored_cells_ok i1 b blk hb d (by rw [hcells]; exact hin)
      refine ⟨hok1.1, ?_⟩
      intro t ht
      obtain ⟨k1, hk1⟩ := hok1.2 t ht
      obtain ⟨k2, hk2, _⟩ := cp.keep t k1 hk1
      exact ⟨k2, hk2⟩
    · subst heq
      refine ⟨cp.ok, ?_⟩
      intro t ht
      exact live_of_pending cp.inv t (by show 1 ≤ _ + cellCnt _ t; rw [ht]; simp [cellCnt_ptr])
  have hnewcells : (seqPay isArr (m.cells cs (srcCopy rd h1 src).2)).cells = m.cells cs (srcCopy rd h1 src).2 := by
    cases isArr <;> rfl
  have hcs_b : cntCells cs b = 0 := by
    cases hz : cntCells cs b with
    | zero => rfl
    | succ n => exact absurd (by rw [hcells]; exact mem_of_cntCells_pos _ _ (by omega)) (hnostore1 b blk hb)
  have hc'_b : cellCnt (srcCopy rd h1 src).2 b = 0 := by
    cases hcc : (srcCopy rd h1 src).2 with
    | null => rfl
    | inl z => rfl
    | ptr t =>
      by_cases et : t = b
      · subst et
        rcases cp.tgt t hcc with h1' | h1'
        · have := a.hz; omega
        · rw [hb] at h1'; cases h1'
      · simp [cellCnt_ptr, et]
  have i3 := dinv_setPay cp.inv b blk2 hb2 a.hz hs2 (seqPay isArr (m.cells cs (srcCopy rd h1 src).2)) hcok
    (by intro x; rw [hnewcells, Ins.cnt, ep2, hcells]; show _ ≤ _ + cellCnt _ x + _; omega)
    (by rw [hnewcells, Ins.cnt, hcs_b, hc'_b])
  refine ⟨setPay (srcCopy rd h1 src).1 b (seqPay isArr (m.cells cs (srcCopy rd h1 src).2)), .ptr b,
    upd g2 b (absPay g2 (seqPay isArr (m.cells cs (srcCopy rd h1 src).2))), ?_, i3.congr ?_, ?_, (by intro z hz; cases hz), ?_, ?_, ?_, ?_⟩
  · simp only [withAccess, r1, hb, hpay]
    cases isArr <;> simp [seqPay]
  · intro x
    rw [hnewcells, Ins.cnt, ep2, hcells]
    show e x - cellCnt c x + cellCnt (.ptr b) x + cellCnt _ x + cntCells cs x - (cntCells cs x + cellCnt _ x) = _
    omega
  · simp only [absCell, upd_same]
    have hmapeq : cs.map (absCell g2) = cs.map (absCell g1) := by
      apply List.map_congr_left
      intro d hdm
      apply absCell_congr
      intro t ht
      obtain ⟨k1, hk1⟩ := (stored_cells_ok i1 b blk hb d (by rw [hcells]; exact hdm)).2 t ht
      exact cp.frame t (i1.lt_next t k1 hk1)
    have hsv : absCell g2 (srcCopy rd h1 src).2 = srcVal g vars src := by
      rw [cp.val]
      simp only [srcVal]
      cases src with
      | lit x => rfl
      | var w =>
        simp only [Src.eval]
        apply absCell_congr
        intro t ht
        obtain ⟨k0, hk0⟩ := hd.inv.live w t ht
        exact a.frame t (hd.inv.lt_next t k0 hk0)
    cases isArr
    · simp only [seqPay, seqVal, Bool.false_eq_true, if_false, absPay, Ins.map, hmapeq, hvals, hsv]; rfl
    · simp only [seqPay, seqVal, if_true, absPay, Ins.map, hmapeq, hvals, hsv]; rfl
  · -- frame
    intro x hx hprot
    have hxl : x < h.next := lt_next_of_ne hd.inv x hx
    have hxb : x ≠ b := by
      intro exb; subst exb
      have hc1 := i1.cnt x blk hb
      rw [a.hz, a.sz, href] at hc1
      simp only [cellCnt_ptr, if_true] at hc1
      have := hd.pend x
      rcases hprot with hp | hp
      · have := a.hz; omega
      · omega
    rw [upd_other _ _ _ _ hxb, cp.frame x (by have := a.next_le; omega), a.frame x hxl]
  · have h1' : (setPay (srcCopy rd h1 src).1 b (seqPay isArr (m.cells cs (srcCopy rd h1 src).2))).next = (srcCopy rd h1 src).1.next := by
      simp [setPay, hb2]
    rw [h1']; have := cp.next_le; have := a.next_le; omega
  · have h1' : (setPay (srcCopy rd h1 src).1 b (seqPay isArr (m.cells cs (srcCopy rd h1 src).2))).next = (srcCopy rd h1 src).1.next := by
      simp [setPay, hb2]
    rw [h1']; have := cp.next_ge; have := a.next_ge; omega
  · have hl : liveCount (setPay (srcCopy rd h1 src).1 b (seqPay isArr (m.cells cs (srcCopy rd h1 src).2))) = liveCount (srcCopy rd h1 src).1 := by
      apply liveCount_sameLive
      refine ⟨by simp [setPay, hb2], ?_⟩
      intro x
      simp only [setPay, hb2]
      by_cases ex : x = b
      · subst ex; simp [hb2]
      · simp [upd_other _ _ _ _ ex]
    rw [hl]; have := cp.live; have := a.live; omega

end Nstd.Variant.Deep
