import Nstd.Variant.DeepFuel
/-
  The finding "self-append" (KF-C07-self-append) as a theorem about the deep model.

  `x.toList().append(v)` where `x` is reached through the mutable accessors of `v` itself (the empty
  path: `v.toList().append(v)`) is, in the real code, two things one after the other:

    1. the chain of mutable accessors `walkMut(v, p)->toList()`: every Variant on the way is made the
       only owner of its block (`ref == 1`) — this is the line `mut v p touch 8` of the model, covered
       by `deep_refines`;
    2. the container links a new element copy-constructed from its argument, i.e. from `v` *as it is
       now* (`Variant(const Variant&)`: share the block, increment `ref`).

  `selfLink` is exactly this composition.  Since step 2 shares the root block of `v` and stores the new
  handle in a block that the root block reaches (itself, for the empty path), the heap then contains a
  cycle through the root block; no store of values is represented by such a heap (the ghost value of a
  block is strictly deeper than those of its elements), `clear()` of `v` only decrements, and the cycle
  survives it.  Conversely every state reached through accepted lines is acyclic (`dgood_acyclic`).
-/
namespace Nstd.Variant.Deep
open Nstd.Variant

/-- block `a` stores a handle to block `b` -/
def Edge (h : Heap) (a b : Nat) : Prop := ∃ blk, h.heap a = some blk ∧ Cell.ptr b ∈ blk.pay.cells

/-- `b` is reachable from `a` through stored handles (zero or more steps) -/
inductive Reach (h : Heap) : Nat → Nat → Prop
  | refl (a : Nat) : Reach h a a
  | step {a b c : Nat} : Edge h a b → Reach h b c → Reach h a c

/-- block `b` reaches itself through at least one stored handle -/
def Cyclic (h : Heap) (b : Nat) : Prop := ∃ a, Edge h b a ∧ Reach h a b

theorem Reach.trans {h : Heap} {a b c : Nat} (r1 : Reach h a b) (r2 : Reach h b c) : Reach h a c := by
  induction r1 with
  | refl _ => exact r2
  | step e _ ih => exact .step e (ih r2)

theorem Reach.mono {h h' : Heap} (hm : ∀ a b, Edge h a b → Edge h' a b) {a b : Nat} (r : Reach h a b) : Reach h' a b := by
  induction r with
  | refl _ => exact .refl _
  | step e _ ih => exact .step (hm _ _ e) ih

/-! ### states of the invariant are acyclic -/

theorem edge_need {h : Heap} {vars e g} (i : DInv h vars e g) {a b : Nat} (ed : Edge h a b) : need (g b) < need (g a) := by
  obtain ⟨blk, hb, hm⟩ := ed
  rw [i.cons a blk hb, need_absPay]
  have := maxNeed_ge g blk.pay.cells (.ptr b) hm
  simp only [absCell] at this
  omega

theorem reach_need {h : Heap} {vars e g} (i : DInv h vars e g) {a b : Nat} (r : Reach h a b) : need (g b) ≤ need (g a) := by
  induction r with
  | refl _ => exact Nat.le_refl _
  | step ed _ ih => have := edge_need i ed; omega

theorem dinv_acyclic {h : Heap} {vars e g} (i : DInv h vars e g) (b : Nat) : ¬ Cyclic h b := by
  rintro ⟨a, ed, r⟩
  have h1 := edge_need i ed
  have h2 := reach_need i r
  omega

/-- every state that represents a store of values — in particular every state reached through lines the
    model accepts (`deep_refines`) — is free of cycles -/
theorem dgood_acyclic {s : DState} {σ : Store} (hg : DGood s σ) (b : Nat) : ¬ Cyclic s.h b := by
  obtain ⟨g, i, _, _⟩ := hg
  exact dinv_acyclic i b

/-! ### the self-append step of the real code -/

/-- the container operations that link a *new* element copy-constructed from their argument -/
inductive LinkKind where
  | lapp                -- `toList().append(x)`
  | lpre                -- `toList().prepend(x)`
  | aapp                -- `toArray().append(x)`
  | mput (k : Str)      -- `toMap().append(k, x)` with a key that is not in the map yet
  deriving Inhabited

def LinkKind.kind : LinkKind → Nat
  | .lapp => 8 | .lpre => 8 | .aapp => 9 | .mput _ => 7

/-- the same operation as a leaf of an ordinary `mut` line -/
def LinkKind.leaf : LinkKind → Src → LeafS
  | .lapp, s => .lapp s | .lpre, s => .lpre s | .aapp, s => .aapp s | .mput k, s => .mput k s

/-- the payload after the new element `c` has been linked (as in `leafOp`) -/
def Pay.link : LinkKind → Pay → Cell → Option Pay
  | .lapp, .list cs, c => some (.list (cs ++ [c]))
  | .lpre, .list cs, c => some (.list (c :: cs))
  | .aapp, .array cs, c => some (.array (cs ++ [c]))
  | .mput k, .map m, c => if (mapGet m k).isNone then some (.map (m ++ [(k, c)])) else none
  | _, _, _ => none

/-- `walkMut(v, p)->toList().append(v)` and its analogues, as the real code executes it: the accessor
    chain (`mut v p touch kind`), then the copy constructor on the *current* `v`, then the link into the
    payload the accessor chain returned a reference to. -/
def selfLink (ds : DblSem) (s : DState) (v : Nat) (p : List Step) (lk : LinkKind) : Option DState :=
  match dstep ds s (.mut v p (.touch lk.kind)) with
  | none => none
  | some s1 =>
    match getCellPath s1.h (s1.vars v) p with
    | some (.ptr bl) =>
      (match (copyCell s1.h (s1.vars v)).1.heap bl with
       | some blk =>
         (blk.pay.link lk (copyCell s1.h (s1.vars v)).2).map
           (fun p' => { h := setPay (copyCell s1.h (s1.vars v)).1 bl p', vars := s1.vars })
       | none => none)
    | _ => none

/-! ### specification side: the accessor chain exists and returns the coerced element -/

theorem mapFind_mapSet (m : List (Str × Val)) (k : Str) (y y' : Val) (h : mapFind m k = some y) :
    mapFind (mapSet m k y') k = some y' := by
  induction m with
  | nil => simp [mapFind] at h
  | cons q t ih =>
    obtain ⟨k', x⟩ := q
    simp only [mapFind] at h
    by_cases hk : (k' == k) = true
    · simp [mapSet, mapFind, hk]
    · have hk' : (k' == k) = false := by simpa using hk
      simp only [hk', Bool.false_eq_true, if_false] at h
      simp only [mapSet, hk', Bool.false_eq_true, if_false, mapFind]
      exact ih h

/-- a mutable walk along an existing path with a total leaf succeeds, and the const walk then finds the new leaf -/
theorem updPath_of_getPath (f : Val → Option Val) : ∀ (p : List Step) (x z z' : Val), getPath p x = some z → f z = some z' →
    ∃ y, updPath p f x = some y ∧ getPath p y = some z' := by
  intro p
  induction p with
  | nil =>
    intro x z z' hg hf
    simp only [getPath, Option.some.injEq] at hg; subst hg
    exact ⟨z', hf, rfl⟩
  | cons st p ih =>
    intro x z z' hg hf
    cases st with
    | li i =>
      simp only [getPath] at hg
      cases x <;> simp [Val.asList] at hg
      rename_i l
      cases hl : l[i]? with
      | none => simp [hl] at hg
      | some e =>
        simp only [hl] at hg
        obtain ⟨y, hy, hy'⟩ := ih e z z' hg hf
        have hi : i < l.length := by
          rcases Nat.lt_or_ge i l.length with h | h
          · exact h
          · simp [List.getElem?_eq_none h] at hl
        refine ⟨.list (l.set i y), by simp [updPath, hl, hy], ?_⟩
        simp [getPath, Val.asList, hi, hy']
    | ar i =>
      simp only [getPath] at hg
      cases x <;> simp [Val.asArray] at hg
      rename_i l
      cases hl : l[i]? with
      | none => simp [hl] at hg
      | some e =>
        simp only [hl] at hg
        obtain ⟨y, hy, hy'⟩ := ih e z z' hg hf
        have hi : i < l.length := by
          rcases Nat.lt_or_ge i l.length with h | h
          · exact h
          · simp [List.getElem?_eq_none h] at hl
        refine ⟨.array (l.set i y), by simp [updPath, hl, hy], ?_⟩
        simp [getPath, Val.asArray, hi, hy']
    | mk k =>
      simp only [getPath] at hg
      cases x <;> simp [Val.asMap, mapFind] at hg
      rename_i m
      cases hl : mapFind m k with
      | none => simp [hl] at hg
      | some e =>
        simp only [hl] at hg
        obtain ⟨y, hy, hy'⟩ := ih e z z' hg hf
        refine ⟨.map (mapSet m k y), by simp [updPath, hl, hy], ?_⟩
        simp [getPath, Val.asMap, mapFind_mapSet m k e y hl, hy']

/-! ### heap side -/

theorem getCell_mem {p : Pay} {st : Step} {ci : Cell} (h : p.getCell st = some ci) : ci ∈ p.cells := by
  cases st <;> cases p <;> simp [Pay.getCell] at h
  · exact List.mem_of_getElem? h
  · exact List.mem_of_getElem? h
  · rename_i k m
    simp only [Pay.cells]
    induction m with
    | nil => simp [mapGet] at h
    | cons q t iht =>
      obtain ⟨k', x⟩ := q
      simp only [mapGet] at h
      by_cases hk : (k' == k) = true
      · simp [hk] at h; subst h; simp
      · have : (k' == k) = false := by simpa using hk
        simp only [this, Bool.false_eq_true, if_false] at h
        simp only [List.map_cons, List.mem_cons]; exact Or.inr (iht h)

/-- the const walk from a block to a block follows stored handles -/
theorem reach_of_getCellPath (h : Heap) : ∀ (p : List Step) (a z : Nat), getCellPath h (.ptr a) p = some (.ptr z) → Reach h a z := by
  intro p
  induction p with
  | nil => intro a z hg; simp only [getCellPath, Option.some.injEq, Cell.ptr.injEq] at hg; subst hg; exact .refl _
  | cons st p ih =>
    intro a z hg
    simp only [getCellPath] at hg
    cases hb : h.heap a with
    | none => simp [hb] at hg
    | some blk =>
      simp only [hb] at hg
      cases hc : blk.pay.getCell st with
      | none => simp [hc] at hg
      | some ci =>
        simp only [hc] at hg
        cases ci with
        | ptr m => exact .step ⟨blk, hb, getCell_mem hc⟩ (ih m z hg)
        | null => cases p <;> simp [getCellPath] at hg
        | inl x => cases p <;> simp [getCellPath] at hg

/-- a cell whose ghost value is boxed is a pointer -/
theorem ptr_of_boxed {h : Heap} {vars e g} (_i : DInv h vars e g) (c : Cell) (hc : CellOk h c)
    (hb : (absCell g c).isBoxed = true) : ∃ b, c = .ptr b := by
  cases c with
  | null => simp [absCell, Val.isBoxed] at hb
  | inl x => have := hc.1 x rfl; simp only [absCell] at hb; rw [this] at hb; cases hb
  | ptr b => exact ⟨b, rfl⟩

theorem link_cells {lk : LinkKind} {p p' : Pay} {c : Cell} (h : p.link lk c = some p') :
    c ∈ p'.cells ∧ ∀ d ∈ p.cells, d ∈ p'.cells := by
  cases lk with
  | lapp =>
    cases p <;> simp only [Pay.link, Option.some.injEq] at h <;> try cases h
    simp only [Pay.cells, List.mem_append, List.mem_singleton, or_true, true_and]
    intro d hd; exact Or.inl hd
  | lpre =>
    cases p <;> simp only [Pay.link, Option.some.injEq] at h <;> try cases h
    simp only [Pay.cells, List.mem_cons, true_or, true_and]
    intro d hd; exact Or.inr hd
  | aapp =>
    cases p <;> simp only [Pay.link, Option.some.injEq] at h <;> try cases h
    simp only [Pay.cells, List.mem_append, List.mem_singleton, or_true, true_and]
    intro d hd; exact Or.inl hd
  | mput k =>
    cases p <;> simp only [Pay.link] at h <;> try cases h
    rename_i m
    by_cases hk : (mapGet m k).isNone = true
    · simp only [hk, if_true, Option.some.injEq] at h
      subst h
      simp only [Pay.cells, List.map_append, List.map_cons, List.map_nil, List.mem_append, List.mem_singleton, or_true, true_and]
      intro d hd; exact Or.inl hd
    · simp [hk] at h

theorem link_isSome (lk : LinkKind) (p : Pay) (c : Cell) (ht : p.type = lk.kind)
    (hk : ∀ k m, lk = .mput k → p = .map m → mapGet m k = none) : (p.link lk c).isSome = true := by
  cases lk <;> cases p <;> simp [Pay.type, LinkKind.kind] at ht <;> simp [Pay.link]
  rename_i k m
  simp [hk k m rfl rfl]

theorem coerce_type (ds : DblSem) (k : Nat) (x : Val) (hk : 7 ≤ k ∧ k ≤ 10) : (coerce ds k x).type = k := by
  unfold coerce
  by_cases h7 : k = 7
  · simp [h7, Val.type]
  · by_cases h8 : k = 8
    · simp [h8, Val.type]
    · by_cases h9 : k = 9
      · simp [h9, Val.type]
      · simp only [h7, h8, h9, if_false, Val.type]; omega

theorem incr_heap_pay (h : Heap) (b x : Nat) (blk : Block) (hx : h.heap x = some blk) :
    ∃ blk', (incr h b).heap x = some blk' ∧ blk'.pay = blk.pay ∧ blk.ref ≤ blk'.ref := by
  unfold incr
  cases hb : h.heap b with
  | none => exact ⟨blk, hx, rfl, Nat.le_refl _⟩
  | some k =>
    by_cases e : x = b
    · subst e
      rw [hx] at hb; injection hb with hb; subst hb
      exact ⟨{ blk with ref := blk.ref + 1 }, by simp, rfl, by simp⟩
    · exact ⟨blk, by simp [upd_other _ _ _ _ e, hx], rfl, Nat.le_refl _⟩

theorem setPay_heap (h : Heap) (b : Nat) (p : Pay) (blk : Block) (hb : h.heap b = some blk) (x : Nat) :
    (setPay h b p).heap x = if x = b then some { blk with pay := p } else h.heap x := by
  simp only [setPay, hb]
  by_cases e : x = b
  · subst e; simp
  · simp [e, upd_other _ _ _ _ e]

/-- a map payload has the key iff its value has -/
theorem mapGet_none_of_abs (g : Nat → Val) (m : List (Str × Cell)) (k : Str)
    (h : mapFind (m.map (fun q => (q.1, absCell g q.2))) k = none) : mapGet m k = none := by
  induction m with
  | nil => rfl
  | cons q t ih =>
    obtain ⟨k', x⟩ := q
    simp only [List.map_cons, mapFind] at h
    by_cases hk : (k' == k) = true
    · simp [hk] at h
    · have hk' : (k' == k) = false := by simpa using hk
      simp only [hk', Bool.false_eq_true, if_false] at h
      simp only [mapGet, hk', Bool.false_eq_true, if_false]
      exact ih h

/-- MAIN.  In every state that represents a store of values, for every variable `v` and every existing path `p` of
    its value (any depth, the empty one included), the real code's `walkMut(v, p)->toList().append(v)` (`prepend`,
    `toArray().append`, `toMap().append(k, ·)` with a new key) runs without fault and leaves a heap in which the root
    block `b` of `v` — the witness — reaches itself through stored handles: `v` contains itself.  That state represents
    no store of values any more. -/
theorem self_link_cycle (ds : DblSem) {s : DState} {σ : Store} (hg : DGood s σ) (v : Nat) (hv : v < nvars)
    (p : List Step) (lk : LinkKind) (z : Val) (hz : getPath p (σ v) = some z)
    (hfresh : ∀ k, lk = .mput k → mapFind (coerce ds 7 z).asMap k = none) :
    ∃ s' b, selfLink ds s v p lk = some s' ∧ s'.vars v = .ptr b ∧ Cyclic s'.h b ∧
      (∃ blk, s'.h.heap b = some blk ∧ 2 ≤ blk.ref) ∧ ∀ σ', ¬ DGood s' σ' := by
  have hk : 7 ≤ lk.kind ∧ lk.kind ≤ 10 := by cases lk <;> simp [LinkKind.kind]
  -- 1. the accessor chain is a line the model accepts
  have hf : (Leaf.touch lk.kind).apply ds z = some (coerce ds lk.kind z) := by
    simp [Leaf.apply, Leaf.kind, Leaf.inPlace, hk]
  obtain ⟨y, hy, hy'⟩ := updPath_of_getPath _ p (σ v) z _ hz hf
  have hspec : specStep ds σ (.mut v p (.touch lk.kind)) = some (upd σ v y) := by
    simp [specStep, hv, allLt, LeafS.vars, mutOk, LeafS.setsNull, LeafS.eval, hy]
  obtain ⟨s1, r1, g1⟩ := dstep_refines ds hg (.mut v p (.touch lk.kind)) trivial hspec
  obtain ⟨g, i, hrel, htmp⟩ := g1
  have hval : absCell g (s1.vars v) = y := by rw [hrel v hv]; simp [upd]
  -- 2. the reference the chain returned
  have hcp := getCellPath_abs i p (s1.vars v) (var_cellOk i v)
  rw [hval, hy'] at hcp
  cases hci : getCellPath s1.h (s1.vars v) p with
  | none => rw [hci] at hcp; cases hcp
  | some ci =>
    rw [hci] at hcp
    obtain ⟨hok, habs⟩ := hcp
    have habs' : absCell g ci = coerce ds lk.kind z := by injection habs with h; exact h.symm
    obtain ⟨bl, hbl⟩ := ptr_of_boxed i ci hok (by rw [habs']; exact coerce_boxed ds _ _)
    subst hbl
    have hroot : ∃ b0, s1.vars v = .ptr b0 := by
      cases p with
      | nil => simp only [getCellPath, Option.some.injEq] at hci; exact ⟨bl, hci⟩
      | cons st p' =>
        cases hc : s1.vars v with
        | ptr b => exact ⟨b, rfl⟩
        | null => rw [hc] at hci; simp [getCellPath] at hci
        | inl x => rw [hc] at hci; simp [getCellPath] at hci
    obtain ⟨b0, hb0⟩ := hroot
    obtain ⟨blk0, hblk0⟩ := i.live v b0 hb0
    obtain ⟨blkl, hblkl⟩ := hok.2 bl rfl
    have hcons := i.cons bl blkl hblkl
    simp only [absCell] at habs'
    have htype : blkl.pay.type = lk.kind := by
      rw [← absPay_type g blkl.pay, ← hcons, habs']; exact coerce_type ds _ _ hk
    have hfr : ∀ k m, lk = .mput k → blkl.pay = .map m → mapGet m k = none := by
      intro k m hlk hp
      have h7 : lk.kind = 7 := by rw [hlk]; rfl
      have := hfresh k hlk
      rw [← h7, ← habs', hcons, hp] at this
      exact mapGet_none_of_abs g m k this
    -- 3. the copy constructor on the current v, and the link
    obtain ⟨blkl', hl', hpay', _⟩ := incr_heap_pay s1.h b0 bl blkl hblkl
    obtain ⟨blk0', h0', _, href0⟩ := incr_heap_pay s1.h b0 b0 blk0 hblk0
    have href0' : blk0.ref + 1 ≤ blk0'.ref := by
      have : incr s1.h b0 = { s1.h with heap := upd s1.h.heap b0 (some { blk0 with ref := blk0.ref + 1 }) } := by
        simp [incr, hblk0]
      rw [this] at h0'; simp at h0'; subst h0'; simp
    have hsome := link_isSome lk blkl.pay (.ptr b0) htype hfr
    cases hlink : blkl.pay.link lk (.ptr b0) with
    | none => rw [hlink] at hsome; cases hsome
    | some pnew =>
      obtain ⟨hnew, hold⟩ := link_cells hlink
      let h' := setPay (incr s1.h b0) bl pnew
      have hh' : ∀ x, h'.heap x = if x = bl then some { blkl' with pay := pnew } else (incr s1.h b0).heap x :=
        setPay_heap (incr s1.h b0) bl pnew blkl' hl'
      have hbl' : h'.heap bl = some { blkl' with pay := pnew } := by rw [hh']; simp
      have hcyc : Cyclic h' b0 := by
        -- edges of the accessor-chain state survive; the new one closes the cycle
        have hmono : ∀ a b, Edge s1.h a b → Edge h' a b := by
          rintro a b ⟨blk, ha, hm⟩
          obtain ⟨blka, hia, hpa, _⟩ := incr_heap_pay s1.h b0 a blk ha
          by_cases e : a = bl
          · subst e
            rw [hblkl] at ha; injection ha with ha; subst ha
            exact ⟨_, hbl', hold _ hm⟩
          · exact ⟨blka, by rw [hh']; simp [e, hia], by rw [hpa]; exact hm⟩
        have hr : Reach h' b0 bl := by
          have := reach_of_getCellPath s1.h p b0 bl (by rw [← hb0]; exact hci)
          exact this.mono hmono
        have hedge : Edge h' bl b0 := ⟨_, hbl', hnew⟩
        -- b0 →* bl → b0
        cases hr with
        | refl _ => exact ⟨_, hedge, .refl _⟩
        | step e1 r1' => exact ⟨_, e1, r1'.trans (.step hedge (.refl _))⟩
      refine ⟨{ h := h', vars := s1.vars }, b0, ?_, hb0, ?_, ?_, ?_⟩
      · have hci' := hci
        rw [hb0] at hci'
        simp only [selfLink, r1, hb0, hci', copyCell, hl', hpay', hlink, Option.map]; rfl
      · exact hcyc
      · by_cases e : b0 = bl
        · subst e
          rw [hl'] at h0'; injection h0' with h0'; subst h0'
          refine ⟨_, hbl', ?_⟩
          have := i.pos b0 blk0 hblk0
          show 2 ≤ blkl'.ref
          omega
        · refine ⟨blk0', by rw [hh']; simp [e, h0'], ?_⟩
          have := i.pos b0 blk0 hblk0
          omega
      · intro σ' hg'
        exact dgood_acyclic hg' b0 hcyc

/-! ### the element-assignment forms: `walkMut(v, p)[st] = v`

`v.toList().back() = v` (probe `e`) and `v.toMap().append(k, v)` with a key that is already in the map
(`HashMap::insert` runs `*it = value`) both execute `Variant::operator=(const Variant&)` on an *existing element* `x` in
slot `st` of the payload that the accessor chain `walkMut(v, p)->toList()/toMap()` returned, with `other = v`:
`++other.data->ref; x.clear(); x.data = other.data`.

`selfAssign` models it as the accepted line `mut v (p ++ [st]) clear` (accessor chain along `p`, then `x.clear()`)
followed by the share-and-install step.  The real code increments the root block *before* `x.clear()`; the two
orders give the same heap, because after the accessor chain the root block has `ref == 1` (its only handle is `v`),
so the old element holds no handle to it and its destruction never touches the root's count. -/

/-- `walkMut(v, p)[st] = v` as the real code executes it (see above for the order of the two commuting steps) -/
def selfAssign (ds : DblSem) (s : DState) (v : Nat) (p : List Step) (st : Step) : Option DState :=
  match dstep ds s (.mut v (p ++ [st]) .clear) with
  | none => none
  | some s1 =>
    match getCellPath s1.h (s1.vars v) p with
    | some (.ptr bl) =>
      (match (copyCell s1.h (s1.vars v)).1.heap bl with
       | some blk =>
         (match blk.pay.getCell st with
          | some _ => some { h := setPay (copyCell s1.h (s1.vars v)).1 bl (blk.pay.setCell st (copyCell s1.h (s1.vars v)).2),
                             vars := s1.vars }
          | none => none)
       | none => none)
    | _ => none

theorem getCellPath_snoc (h : Heap) : ∀ (p : List Step) (c : Cell) (st : Step),
    getCellPath h c (p ++ [st]) =
      (match getCellPath h c p with
       | some (.ptr b) => (match h.heap b with | some blk => blk.pay.getCell st | none => none)
       | _ => none) := by
  intro p
  induction p with
  | nil =>
    intro c st
    cases c with
    | ptr b =>
      simp only [List.nil_append, getCellPath]
      cases hb : h.heap b with
      | none => rfl
      | some blk =>
        simp only
        cases hc : blk.pay.getCell st <;> rfl
    | null => rfl
    | inl x => rfl
  | cons s0 p ih =>
    intro c st
    cases c with
    | ptr b =>
      simp only [List.cons_append, getCellPath]
      cases hb : h.heap b with
      | none => rfl
      | some blk =>
        simp only
        cases hc : blk.pay.getCell s0 with
        | none => rfl
        | some ci => simp only; exact ih ci st
    | null => rfl
    | inl x => rfl

theorem mapPut_cells (m : List (Str × Cell)) (k : Str) (c ci : Cell) (hg : mapGet m k = some ci) :
    c ∈ (mapPut m k c).map (·.2) ∧ ∀ d, d ≠ ci → d ∈ m.map (·.2) → d ∈ (mapPut m k c).map (·.2) := by
  induction m with
  | nil => simp [mapGet] at hg
  | cons q t ih =>
    obtain ⟨k', x⟩ := q
    simp only [mapGet] at hg
    by_cases hk : (k' == k) = true
    · simp only [hk, if_true, Option.some.injEq] at hg
      subst hg
      simp only [mapPut, hk, if_true, List.map_cons, List.mem_cons, true_or, true_and]
      intro d hd hm
      rcases hm with rfl | hm
      · exact absurd rfl hd
      · exact Or.inr hm
    · have hk' : (k' == k) = false := by simpa using hk
      simp only [hk', Bool.false_eq_true, if_false] at hg
      obtain ⟨i1, i2⟩ := ih hg
      simp only [mapPut, hk', Bool.false_eq_true, if_false, List.map_cons, List.mem_cons]
      refine ⟨Or.inr i1, ?_⟩
      intro d hd hm
      rcases hm with rfl | hm
      · exact Or.inl rfl
      · exact Or.inr (i2 d hd hm)

theorem listSet_cells (cs : List Cell) (i : Nat) (c ci : Cell) (hg : cs[i]? = some ci) :
    c ∈ cs.set i c ∧ ∀ d, d ≠ ci → d ∈ cs → d ∈ cs.set i c := by
  obtain ⟨hi, hci⟩ := List.getElem?_eq_some_iff.1 hg
  refine ⟨List.mem_set hi c, ?_⟩
  intro d hd hm
  obtain ⟨j, hj, e⟩ := List.mem_iff_getElem.1 hm
  have hne : i ≠ j := by intro e'; subst e'; rw [hci] at e; exact hd e.symm
  have hj' : j < (cs.set i c).length := by rw [List.length_set]; exact hj
  exact List.mem_iff_getElem.2 ⟨j, hj', by rw [List.getElem_set_ne hne]; exact e⟩

/-- overwriting the slot that holds `ci` keeps every other cell and stores the new one -/
theorem setCell_cells {p : Pay} {st : Step} {ci : Cell} (c : Cell) (hg : p.getCell st = some ci) :
    c ∈ (p.setCell st c).cells ∧ ∀ d, d ≠ ci → d ∈ p.cells → d ∈ (p.setCell st c).cells := by
  cases st <;> cases p <;> simp only [Pay.getCell] at hg <;> try cases hg
  · exact listSet_cells _ _ c ci hg
  · exact listSet_cells _ _ c ci hg
  · exact mapPut_cells _ _ c ci hg

/-- MAIN (element assignment).  In every state that represents a store of values, for every variable `v`, every path
    `p` and step `st` such that `p ++ [st]` exists in the value of `v`: `walkMut(v, p)[st] = v` runs without fault and
    leaves the root block of `v` on a cycle; the state represents no store of values any more. -/
theorem self_assign_cycle (ds : DblSem) {s : DState} {σ : Store} (hg : DGood s σ) (v : Nat) (hv : v < nvars)
    (p : List Step) (st : Step) (z : Val) (hz : getPath (p ++ [st]) (σ v) = some z) :
    ∃ s' b, selfAssign ds s v p st = some s' ∧ s'.vars v = .ptr b ∧ Cyclic s'.h b ∧
      (∃ blk, s'.h.heap b = some blk ∧ 2 ≤ blk.ref) ∧ ∀ σ', ¬ DGood s' σ' := by
  -- 1. accessor chain + clear of the element: an accepted line
  have hf : Leaf.clear.apply ds z = some .null := rfl
  obtain ⟨y, hy, hy'⟩ := updPath_of_getPath _ (p ++ [st]) (σ v) z _ hz hf
  have hspec : specStep ds σ (.mut v (p ++ [st]) .clear) = some (upd σ v y) := by
    simp [specStep, hv, allLt, LeafS.vars, mutOk, LeafS.setsNull, LeafS.eval, hy]
  obtain ⟨s1, r1, g1⟩ := dstep_refines ds hg (.mut v (p ++ [st]) .clear) trivial hspec
  obtain ⟨g, i, hrel, htmp⟩ := g1
  have hval : absCell g (s1.vars v) = y := by rw [hrel v hv]; simp [upd]
  -- 2. the slot
  have hcp := getCellPath_abs i (p ++ [st]) (s1.vars v) (var_cellOk i v)
  rw [hval, hy', getCellPath_snoc] at hcp
  cases hcp0 : getCellPath s1.h (s1.vars v) p with
  | none => rw [hcp0] at hcp; cases hcp
  | some cb =>
    rw [hcp0] at hcp
    cases cb with
    | null => cases hcp
    | inl x => cases hcp
    | ptr bl =>
      simp only at hcp
      cases hblkl : s1.h.heap bl with
      | none => rw [hblkl] at hcp; cases hcp
      | some blkl =>
        rw [hblkl] at hcp
        simp only at hcp
        cases hci : blkl.pay.getCell st with
        | none => rw [hci] at hcp; cases hcp
        | some ci =>
          rw [hci] at hcp
          obtain ⟨_, habs⟩ := hcp
          have habs' : absCell g ci = .null := by injection habs with h; exact h.symm
          -- the slot holds no pointer
          have hnp : ∀ x, ci ≠ .ptr x := by
            intro x e
            subst e
            have hm := getCell_mem hci
            obtain ⟨bx, hbx⟩ := i.slive bl blkl x hblkl hm
            simp only [absCell] at habs'
            have := absPay_boxed g bx.pay
            rw [← i.cons x bx hbx, habs'] at this
            cases this
          have hroot : ∃ b0, s1.vars v = .ptr b0 := by
            cases p with
            | nil => simp only [getCellPath, Option.some.injEq] at hcp0; exact ⟨bl, hcp0⟩
            | cons st' p' =>
              cases hc : s1.vars v with
              | ptr b => exact ⟨b, rfl⟩
              | null => rw [hc] at hcp0; simp [getCellPath] at hcp0
              | inl x => rw [hc] at hcp0; simp [getCellPath] at hcp0
          obtain ⟨b0, hb0⟩ := hroot
          obtain ⟨blk0, hblk0⟩ := i.live v b0 hb0
          obtain ⟨blkl', hl', hpay', _⟩ := incr_heap_pay s1.h b0 bl blkl hblkl
          obtain ⟨blk0', h0', _, _⟩ := incr_heap_pay s1.h b0 b0 blk0 hblk0
          have href0' : blk0.ref + 1 ≤ blk0'.ref := by
            have : incr s1.h b0 = { s1.h with heap := upd s1.h.heap b0 (some { blk0 with ref := blk0.ref + 1 }) } := by
              simp [incr, hblk0]
            rw [this] at h0'; simp at h0'; subst h0'; simp
          obtain ⟨hnew, hold⟩ := setCell_cells (.ptr b0) hci
          let pnew := blkl.pay.setCell st (.ptr b0)
          let h' := setPay (incr s1.h b0) bl pnew
          have hh' : ∀ x, h'.heap x = if x = bl then some { blkl' with pay := pnew } else (incr s1.h b0).heap x :=
            setPay_heap (incr s1.h b0) bl pnew blkl' hl'
          have hbl' : h'.heap bl = some { blkl' with pay := pnew } := by rw [hh']; simp
          have hcyc : Cyclic h' b0 := by
            have hmono : ∀ a b, Edge s1.h a b → Edge h' a b := by
              rintro a b ⟨blk, ha, hm⟩
              obtain ⟨blka, hia, hpa, _⟩ := incr_heap_pay s1.h b0 a blk ha
              by_cases e : a = bl
              · subst e
                rw [hblkl] at ha; injection ha with ha; subst ha
                exact ⟨_, hbl', hold _ (fun e => hnp b e.symm) hm⟩
              · exact ⟨blka, by rw [hh']; simp [e, hia], by rw [hpa]; exact hm⟩
            have hr : Reach h' b0 bl := by
              have := reach_of_getCellPath s1.h p b0 bl (by rw [← hb0]; exact hcp0)
              exact this.mono hmono
            have hedge : Edge h' bl b0 := ⟨_, hbl', hnew⟩
            cases hr with
            | refl _ => exact ⟨_, hedge, .refl _⟩
            | step e1 r1' => exact ⟨_, e1, r1'.trans (.step hedge (.refl _))⟩
          refine ⟨{ h := h', vars := s1.vars }, b0, ?_, hb0, hcyc, ?_, fun σ' hg' => dgood_acyclic hg' b0 hcyc⟩
          · have hcp0' := hcp0
            rw [hb0] at hcp0'
            simp only [selfAssign, r1, hb0, hcp0', copyCell, hl', hpay', hci]; rfl
          · by_cases e : b0 = bl
            · subst e
              rw [hl'] at h0'; injection h0' with h0'; subst h0'
              refine ⟨_, hbl', ?_⟩
              have := i.pos b0 blk0 hblk0
              show 2 ≤ blkl'.ref
              omega
            · refine ⟨blk0', by rw [hh']; simp [e, h0'], ?_⟩
              have := i.pos b0 blk0 hblk0
              omega

end Nstd.Variant.Deep
