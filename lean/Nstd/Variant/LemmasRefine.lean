import Nstd.Variant.LemmasStep
/-
  `step` (representation model) against `specStep` (store of values), operation by operation.
-/
namespace Nstd.Variant

theorem rel_upd {s s' : State} {σ : Store} {v : Nat} {y : Val} (hr : Rel s σ) (a : Sim s s' v y) :
    Rel s' (upd σ v y) := by
  intro u hu
  by_cases e : u = v
  · subst e; simp [a.rd]
  · rw [upd_other _ _ _ _ e, a.frame u e]; exact hr u hu

theorem lt_slots {v : Nat} (h : v < nvars) : v < nslots := by simp [nvars, nslots] at *; omega

theorem eval_rel_valS {s : State} {σ : Store} (hr : Rel s σ) (e : ValS) (h : allLt e.vars = true) :
    e.eval s.read = e.eval σ :=
  ValS.eval_congr e (fun w hw => hr w (allLt_mem h hw))

theorem eval_rel_leaf {s : State} {σ : Store} (hr : Rel s σ) (lf : LeafS) (h : allLt lf.vars = true) :
    lf.eval s.read = lf.eval σ :=
  LeafS.eval_congr lf (fun w hw => hr w (allLt_mem h hw))

/-- the result of one operation: both sides accept and stay related, or both refuse -/
def StepRel (r : Option State) (q : Option Store) : Prop :=
  match r, q with
  | some s', some σ' => Good s' ∧ Rel s' σ'
  | none, none => True
  | _, _ => False

theorem stepRel_of_sim {s s' : State} {σ : Store} {v : Nat} {y : Val} (hg : Good s) (hr : Rel s σ) (hv : v < nvars)
    (a : Sim s s' v y) : StepRel (some s') (some (upd σ v y)) :=
  ⟨good_of_sim hg hv a, rel_upd hr a⟩

theorem mutate_stepRel (ds : DblSem) {s : State} {σ : Store} (hg : Good s) (hr : Rel s σ) (v : Nat) (hv : v < nvars)
    (p : List Step) (lf : Leaf) :
    StepRel (mutate ds s v p lf) ((updPath p (lf.apply ds) (σ v)).map (fun y => upd σ v y)) := by
  rw [← hr v hv]
  cases hy : updPath p (lf.apply ds) (s.read v) with
  | none => rw [mutate_none ds s v p lf hy]; trivial
  | some y =>
    obtain ⟨s', hs', hsim⟩ := sim_mutate_some ds hg.1 v (lt_slots hv) p lf y hy
    rw [hs']; exact stepRel_of_sim hg hr hv hsim

theorem step_refines (ds : DblSem) {s : State} {σ : Store} (hg : Good s) (hr : Rel s σ) (op : Op) :
    StepRel (step ds s op) (specStep ds σ op) := by
  cases op with
  | new v e =>
    simp only [step, specStep]
    by_cases hc : v < nvars ∧ allLt e.vars = true
    · simp only [hc, and_self, if_true]
      rw [eval_rel_valS hr e hc.2]
      exact stepRel_of_sim hg hr hc.1 (sim_opNew hg.1 v (lt_slots hc.1) _)
    · simp only [hc, if_false]; trivial
  | copy v w =>
    simp only [step, specStep]
    by_cases hc : v < nvars ∧ w < nvars
    · simp only [hc, and_self, if_true, opCopy]
      by_cases hvw : v = w
      · simp only [hvw, if_true]; trivial
      · simp only [hvw, if_false]
        rw [← hr w hc.2]
        exact stepRel_of_sim hg hr hc.1 (sim_opCopy hg.1 v w (lt_slots hc.1) (fun x => hvw x.symm))
    · simp only [hc, if_false]; trivial
  | swap v w =>
    simp only [step, specStep]
    by_cases hc : v < nvars ∧ w < nvars
    · simp only [hc, and_self, if_true]
      obtain ⟨g, r1, r2, r3⟩ := sim_opSwap hg v w hc.1 hc.2
      refine ⟨g, ?_⟩
      intro u hu
      by_cases e1 : u = v
      · subst e1; simp [r1, hr w hc.2]
      · rw [upd_other _ _ _ _ e1]
        by_cases e2 : u = w
        · subst e2; simp [r2, hr v hc.1]
        · rw [upd_other _ _ _ _ e2, r3 u hu e1 e2]; exact hr u hu
    · simp only [hc, if_false]; trivial
  | get v w p =>
    simp only [step, specStep]
    by_cases hc : v < nvars ∧ w < nvars
    · simp only [hc, and_self, if_true, opGet]
      rw [← hr w hc.2]
      cases p with
      | nil =>
        simp only [getPath, Option.map]
        exact stepRel_of_sim hg hr hc.1 (sim_assignVar hg.1 v w (lt_slots hc.1))
      | cons st p =>
        simp only
        cases hgp : getPath (st :: p) (s.read w) with
        | none => simp only [Option.map]; trivial
        | some x =>
          simp only [Option.map]
          exact stepRel_of_sim hg hr hc.1 (sim_assignVal hg.1 v (lt_slots hc.1) x)
    · simp only [hc, if_false]; trivial
  | «mut» v p lf =>
    simp only [step, specStep]
    by_cases hc : v < nvars ∧ allLt lf.vars = true ∧ mutOk v p lf = true
    · simp only [hc, and_self, if_true]
      have hev := eval_rel_leaf hr lf hc.2.1
      cases lf with
      | set e =>
        have hev' : e.eval s.read = e.eval σ := eval_rel_valS hr e hc.2.1
        simp only [LeafS.setsNull, hev']
        by_cases hz : (e.eval σ).type = 0
        · simp [hz]; cases p <;> trivial
        · have : ((e.eval σ).type == 0) = false := by simpa using hz
          simp only [hz, if_false, this, Bool.false_eq_true]
          have := mutate_stepRel ds hg hr v hc.1 p (.set (e.eval σ))
          simp only [LeafS.eval]
          cases p <;> exact this
      | assign src =>
        simp only [LeafS.setsNull, Bool.false_eq_true, if_false]
        cases p with
        | nil =>
          cases src with
          | var w =>
            simp only [LeafS.eval, Src.eval, updPath, Leaf.apply, Option.map]
            have hw : w < nvars := allLt_mem hc.2.1 (by simp [LeafS.vars, Src.vars])
            rw [← hr w hw]
            exact stepRel_of_sim hg hr hc.1 (sim_assignVar hg.1 v w (lt_slots hc.1))
          | lit x =>
            rw [← hev]; exact mutate_stepRel ds hg hr v hc.1 [] _
        | cons st p => rw [← hev]; exact mutate_stepRel ds hg hr v hc.1 _ _
      | clear => simp only [LeafS.setsNull, Bool.false_eq_true, if_false]; rw [hev]; cases p <;> exact mutate_stepRel ds hg hr v hc.1 _ _
      | touch k => simp only [LeafS.setsNull, Bool.false_eq_true, if_false]; rw [hev]; cases p <;> exact mutate_stepRel ds hg hr v hc.1 _ _
      | lapp x => simp only [LeafS.setsNull, Bool.false_eq_true, if_false]; rw [hev]; cases p <;> exact mutate_stepRel ds hg hr v hc.1 _ _
      | lpre x => simp only [LeafS.setsNull, Bool.false_eq_true, if_false]; rw [hev]; cases p <;> exact mutate_stepRel ds hg hr v hc.1 _ _
      | lrem i => simp only [LeafS.setsNull, Bool.false_eq_true, if_false]; rw [hev]; cases p <;> exact mutate_stepRel ds hg hr v hc.1 _ _
      | aapp x => simp only [LeafS.setsNull, Bool.false_eq_true, if_false]; rw [hev]; cases p <;> exact mutate_stepRel ds hg hr v hc.1 _ _
      | arem i => simp only [LeafS.setsNull, Bool.false_eq_true, if_false]; rw [hev]; cases p <;> exact mutate_stepRel ds hg hr v hc.1 _ _
      | mput k x => simp only [LeafS.setsNull, Bool.false_eq_true, if_false]; rw [hev]; cases p <;> exact mutate_stepRel ds hg hr v hc.1 _ _
      | mrem k => simp only [LeafS.setsNull, Bool.false_eq_true, if_false]; rw [hev]; cases p <;> exact mutate_stepRel ds hg hr v hc.1 _ _
      | sapp t => simp only [LeafS.setsNull, Bool.false_eq_true, if_false]; rw [hev]; cases p <;> exact mutate_stepRel ds hg hr v hc.1 _ _
    · simp only [hc, if_false]; trivial

theorem good_init : Good init := ⟨inv_init, rfl⟩

theorem rel_init : Rel init Store.init := by intro v _; rfl

theorem stepD_refines (ds : DblSem) {s : State} {σ : Store} (hg : Good s) (hr : Rel s σ) (op : Op) :
    Good (stepD ds s op) ∧ Rel (stepD ds s op) (specStepD ds σ op) := by
  have := step_refines ds hg hr op
  unfold stepD specStepD
  cases h1 : step ds s op <;> cases h2 : specStep ds σ op <;> simp only [h1, h2, StepRel] at this ⊢
  · exact ⟨hg, hr⟩
  · exact this

theorem run_refines (ds : DblSem) (ops : List Op) : ∀ {s : State} {σ : Store}, Good s → Rel s σ →
    Good (run ds s ops) ∧ Rel (run ds s ops) (specRun ds σ ops) := by
  induction ops with
  | nil => intro s σ hg hr; exact ⟨hg, hr⟩
  | cons op ops ih =>
    intro s σ hg hr
    obtain ⟨g, r⟩ := stepD_refines ds hg hr op
    exact ih g r

end Nstd.Variant
