import Nstd.Variant.LemmasAtofFrac
import Nstd.Variant.Ieee
/-
  Property C07, coercion clause, string → double beyond integer numerals (round 7, continuation): on the driver's IEEE instance
  `toDouble()` of a String alternative holding a decimal text with a fraction and an optional exponent
  (`ws* sign? digit+ . digit* ([eE] sign? digit+)?`) is the sign bit plus the conversion of the exact rational the text
  denotes, and for a negative decimal exponent that conversion (`Rat.dOfRatQ`) is correctly rounded: nearest double on the
  binary64 grid at the value, ties to even, subnormal range and carry into the next binade included.
-/
set_option linter.unusedSimpArgs false
set_option linter.unusedVariables false
namespace Nstd.Variant
open Nstd.Variant.Rat

theorem expSyntax_nz {ex : Str} {x : Int} (h : ExpSyntax ex x) : ∀ c ∈ ex, c ≠ 0 := by
  cases h with
  | none => intro c hc; cases hc
  | mk c0 hc esg ed hd hne =>
    intro c hcm
    simp only [List.mem_cons, List.mem_append] at hcm
    rcases hcm with rfl | hcm | hcm
    · rcases hc with rfl | rfl <;> decide
    · cases esg <;> simp [Sign.str] at hcm <;> omega
    · have := (isDigit_iff c).1 (hd c hcm); omega

/-- the rounding `atof` uses for a decimal text with a negative decimal exponent is CORRECT for every positive rational below the
    overflow threshold (statement and proof carried over from the codec area's `roundToDbl_correctly_rounded`; `LemmasAtofFrac.lean`):
    grid exponent `e`, significand `M` = nearest integer to `num/den/2^e` (even on a tie), `M ≤ 2^53`, and the value of the
    resulting bits is `M·2^e` (`dVal2` = value·2^1074) resp. infinity when the carry leaves the range -/
theorem atof_rounding_correct (num den : Nat) (hd : 0 < den) (h : pickExp num den ≤ 971) :
    (-1074 ≤ pickExp num den ∧ qOf num den (pickExp num den) < 9007199254740992 ∧
      (pickExp num den = -1074 ∨ 9007199254740992 ≤ qOf num den (pickExp num den - 1))) ∧
    (2 * (roundHE (qNum num (pickExp num den)) (qDen den (pickExp num den)) * qDen den (pickExp num den)) ≤
        2 * qNum num (pickExp num den) + qDen den (pickExp num den) ∧
      2 * qNum num (pickExp num den) ≤
        2 * (roundHE (qNum num (pickExp num den)) (qDen den (pickExp num den)) * qDen den (pickExp num den)) + qDen den (pickExp num den) ∧
      ((2 * (roundHE (qNum num (pickExp num den)) (qDen den (pickExp num den)) * qDen den (pickExp num den)) =
          2 * qNum num (pickExp num den) + qDen den (pickExp num den) ∨
        2 * qNum num (pickExp num den) =
          2 * (roundHE (qNum num (pickExp num den)) (qDen den (pickExp num den)) * qDen den (pickExp num den)) + qDen den (pickExp num den)) →
        roundHE (qNum num (pickExp num den)) (qDen den (pickExp num den)) % 2 = 0)) ∧
    roundHE (qNum num (pickExp num den)) (qDen den (pickExp num den)) ≤ 9007199254740992 ∧
    (pickExp num den + 1 ≤ 971 ∨ roundHE (qNum num (pickExp num den)) (qDen den (pickExp num den)) < 9007199254740992 →
      dVal2 (dOfRatQ num den) = roundHE (qNum num (pickExp num den)) (qDen den (pickExp num den)) * 2 ^ (pickExp num den + 1074).toNat) ∧
    (971 < pickExp num den + 1 → roundHE (qNum num (pickExp num den)) (qDen den (pickExp num den)) = 9007199254740992 →
      dOfRatQ num den = infBits) :=
  dOfRatQ_correctly_rounded num den hd h

/-- `toDouble()` of a String holding `ws* sign? digit+ . digit* ([eE] sign? digit+)?`: the bits `dDecimal` computes from the
    digit value `decVal (ip ++ fp)` at the decimal exponent `x − |fp|` (zero, overflow guard, underflow guard, integer
    conversion for a non-negative exponent, `dOfRatQ` for a negative one) under the sign bit -/
theorem toDouble_fraction (ws : Str) (sg : Sign) (ip fp ex : Str) (x : Int) (hw : ∀ c ∈ ws, isSpace c = true)
    (hi : AllDigits ip) (hf : AllDigits fp) (hne : ip ≠ []) (hx : ExpSyntax ex x) :
    (Val.str (ws ++ sg.str ++ (ip ++ 46 :: (fp ++ ex)))).toDouble ieee
      = decimalBits (if sg.neg then 2 ^ 63 else 0) (decVal (ip ++ fp)) (x - fp.length) := by
  have hnz : ∀ c ∈ ws ++ sg.str ++ (ip ++ 46 :: (fp ++ ex)), c ≠ 0 := by
    intro c hc
    simp only [List.mem_append, List.mem_cons] at hc
    rcases hc with (hc | hc) | hc | rfl | hc | hc
    · have := hw c hc; intro e; subst e; simp [isSpace] at this
    · cases sg <;> simp [Sign.str] at hc <;> omega
    · have := (isDigit_iff c).1 (hi c hc); omega
    · decide
    · have := (isDigit_iff c).1 (hf c hc); omega
    · exact expSyntax_nz hx c hc
  show dOfStr (cstr (ws ++ sg.str ++ (ip ++ 46 :: (fp ++ ex)))) = _
  rw [cstr_of_nonzero _ hnz]
  exact dOfStr_fraction ws sg ip fp ex x hw hi hf hne hx

/-- …and with a negative decimal exponent in the guarded range the magnitude is the correctly rounded double of
    `dv / 10^k` (`dv` = digit value, `k = |fp| − x`): grid exponent, nearest integer significand, ties to even, value of the bits -/
theorem toDouble_fraction_rounded (ws : Str) (sg : Sign) (ip fp ex : Str) (x : Int) (hw : ∀ c ∈ ws, isSpace c = true)
    (hi : AllDigits ip) (hf : AllDigits fp) (hne : ip ≠ []) (hx : ExpSyntax ex x)
    (hdv : decVal (ip ++ fp) ≠ 0) (hneg : x - fp.length < 0) (hlo : -800 ≤ x - fp.length)
    (hfin : pickExp (decVal (ip ++ fp)) (10 ^ (-(x - fp.length)).toNat) ≤ 971) :
    (Val.str (ws ++ sg.str ++ (ip ++ 46 :: (fp ++ ex)))).toDouble ieee
      = (if sg.neg then 2 ^ 63 else 0) + dOfRatQ (decVal (ip ++ fp)) (10 ^ (-(x - fp.length)).toNat) ∧
    (pickExp (decVal (ip ++ fp)) (10 ^ (-(x - fp.length)).toNat) + 1 ≤ 971 →
      dVal2 (dOfRatQ (decVal (ip ++ fp)) (10 ^ (-(x - fp.length)).toNat))
        = roundHE (qNum (decVal (ip ++ fp)) (pickExp (decVal (ip ++ fp)) (10 ^ (-(x - fp.length)).toNat)))
              (qDen (10 ^ (-(x - fp.length)).toNat) (pickExp (decVal (ip ++ fp)) (10 ^ (-(x - fp.length)).toNat)))
            * 2 ^ (pickExp (decVal (ip ++ fp)) (10 ^ (-(x - fp.length)).toNat) + 1074).toNat) := by
  refine ⟨?_, fun h1 => ?_⟩
  · rw [toDouble_fraction ws sg ip fp ex x hw hi hf hne hx]
    unfold decimalBits
    rw [if_neg hdv, if_neg (by omega), if_neg (by omega), if_neg (by omega)]
  · exact (dOfRatQ_correctly_rounded _ _ (Nat.pow_pos (by decide)) hfin).2.2.2.1 (Or.inl h1)

/-- texts without an integer part (`.5`, `-.25e3`): same statement with the digit value of the fraction digits alone -/
theorem toDouble_fraction_noint (ws : Str) (sg : Sign) (fp ex : Str) (x : Int) (hw : ∀ c ∈ ws, isSpace c = true)
    (hf : AllDigits fp) (hne : fp ≠ []) (hx : ExpSyntax ex x) :
    (Val.str (ws ++ sg.str ++ (46 :: (fp ++ ex)))).toDouble ieee
      = decimalBits (if sg.neg then 2 ^ 63 else 0) (decVal fp) (x - fp.length) := by
  have hnz : ∀ c ∈ ws ++ sg.str ++ (46 :: (fp ++ ex)), c ≠ 0 := by
    intro c hc
    simp only [List.mem_append, List.mem_cons] at hc
    rcases hc with (hc | hc) | rfl | hc | hc
    · have := hw c hc; intro e; subst e; simp [isSpace] at this
    · cases sg <;> simp [Sign.str] at hc <;> omega
    · decide
    · have := (isDigit_iff c).1 (hf c hc); omega
    · exact expSyntax_nz hx c hc
  show dOfStr (cstr (ws ++ sg.str ++ (46 :: (fp ++ ex)))) = _
  rw [cstr_of_nonzero _ hnz]
  exact dOfStr_fraction_noint ws sg fp ex x hw hf hne hx

/-- the conversion used for a non-negative decimal exponent and for plain numerals of any length, `dOfNat n`: below `2^64` it is
    the integer conversion (`RoundsTo`: neighbouring doubles, nothing between, nearer one, ties to even), from `2^64` on it is
    `dOfRatQ n 1`, to which `atof_rounding_correct n 1` applies -/
theorem dOfNat_rounded (n : Nat) :
    (n < 2 ^ 64 → dOfNat n = dOfRat n 1 ∧ RoundsTo n (dOfRat n 1)) ∧ (2 ^ 64 ≤ n → dOfNat n = dOfRatQ n 1) := by
  refine ⟨fun h => ⟨by simp [dOfNat, h], dOfRat_roundsTo n h⟩, fun h => ?_⟩
  have : ¬ n < 2 ^ 64 := by omega
  simp [dOfNat, this]

/-- decimal text with a non-negative decimal exponent (`1.5e3`, `12.e25`, `1e300`): the conversion `dOfNat` of the integer
    `dv · 10^e` it denotes — of any size (the `≥ 2^64` gap of the earlier rounds is closed by `dOfNat_rounded`) -/
theorem toDouble_fraction_int (ws : Str) (sg : Sign) (ip fp ex : Str) (x : Int) (hw : ∀ c ∈ ws, isSpace c = true)
    (hi : AllDigits ip) (hf : AllDigits fp) (hne : ip ≠ []) (hx : ExpSyntax ex x)
    (hdv : decVal (ip ++ fp) ≠ 0) (hpos : 0 ≤ x - fp.length) (hhi : x - fp.length ≤ 400) :
    (Val.str (ws ++ sg.str ++ (ip ++ 46 :: (fp ++ ex)))).toDouble ieee
      = (if sg.neg then 2 ^ 63 else 0) + dOfNat (decVal (ip ++ fp) * 10 ^ (x - fp.length).toNat) := by
  rw [toDouble_fraction ws sg ip fp ex x hw hi hf hne hx]
  unfold decimalBits
  rw [if_neg hdv, if_neg (by omega), if_neg (by omega), if_pos hpos]

/-- plain numerals of ANY length (`ws* sign? digit+`, also above `2^64`): sign bit plus `dOfNat` of the denoted integer -/
theorem toDouble_numeral_any {ws : Str} {sg : Sign} {dg : Str} (h : NumSyntax ws sg dg []) (hne : dg ≠ []) :
    (Val.str (ws ++ sg.str ++ dg)).toDouble ieee = (if sg.neg then 2 ^ 63 else 0) + dOfNat (decVal dg) := by
  have hnz : ∀ c ∈ ws ++ sg.str ++ dg, c ≠ 0 := by
    intro c hc
    simp only [List.mem_append] at hc
    rcases hc with (hc | hc) | hc
    · exact isSpace_nonzero c (h.space c hc)
    · cases sg <;> simp [Sign.str] at hc <;> omega
    · exact isDigit_nonzero c (h.digits c hc)
  show dOfStr (cstr (ws ++ sg.str ++ dg)) = _
  rw [cstr_of_nonzero _ hnz]
  exact dOfStr_numeral h hne

/-- non-vacuity: `1e25` and `18446744073709551616` are beyond 2^64 and below the overflow threshold of `atof_rounding_correct` -/
example : (2 : Nat) ^ 64 ≤ 1 * 10 ^ 25 ∧ pickExp (1 * 10 ^ 25) 1 ≤ 971 ∧ pickExp (2 ^ 64) 1 ≤ 971 := by decide

/-- non-vacuity: "0.1" and "-12.50e-1" are such texts; the hypotheses of the rounding theorem hold for "0.1" -/
example : pickExp 1 (10 ^ 1) ≤ 971 ∧ pickExp 1 (10 ^ 1) + 1 ≤ 971 := by decide

end Nstd.Variant
