import Nstd.Variant.LemmasOps
/-
  One step of the model refines one step of the specification (store of values).
-/
namespace Nstd.Variant

/-! ### nested walks -/

theorem updPath_cons {st : Step} {p : List Step} {f : Val → Option Val} {x y : Val}
    (h : updPath (st :: p) f x = some y) : x.type = st.kind ∧ y.isBoxed = true := by
  cases st with
  | li i =>
    cases x <;> simp only [updPath] at h <;> try cases h
    rename_i l
    cases hl : l[i]? with
    | none => simp [hl] at h
    | some z =>
      simp only [hl] at h
      cases hu : updPath p f z with
      | none => simp [hu] at h
      | some y' => simp [hu] at h; subst h; exact ⟨rfl, rfl⟩
  | ar i =>
    cases x <;> simp only [updPath] at h <;> try cases h
    rename_i l
    cases hl : l[i]? with
    | none => simp [hl] at h
    | some z =>
      simp only [hl] at h
      cases hu : updPath p f z with
      | none => simp [hu] at h
      | some y' => simp [hu] at h; subst h; exact ⟨rfl, rfl⟩
  | mk k =>
    cases x <;> simp only [updPath] at h <;> try cases h
    rename_i m
    cases hl : mapFind m k with
    | none => simp [hl] at h
    | some z =>
      simp only [hl] at h
      cases hu : updPath p f z with
      | none => simp [hu] at h
      | some y' => simp [hu] at h; subst h; exact ⟨rfl, rfl⟩

theorem step_isKind (st : Step) : isKind st.kind := by
  cases st <;> simp [Step.kind, isKind]

theorem inPlace_boxed {lf : Leaf} {x y : Val} (hx : x.isBoxed = true) (h : lf.inPlace x = some y) :
    y.isBoxed = true := by
  cases lf <;> cases x <;> simp [Leaf.inPlace] at h <;> try (subst h; first | rfl | exact hx)
  all_goals (first | (obtain ⟨_, h⟩ := h; subst h; first | rfl | exact hx) | skip)

/-! ### `mut` below the syntax level -/

theorem sim_mutate_some (ds : DblSem) {s : State} (h : Inv s zeroE) (v : Nat) (hv : v < nslots)
    (p : List Step) (lf : Leaf) (y : Val) (hy : updPath p (lf.apply ds) (s.read v) = some y) :
    ∃ s', mutate ds s v p lf = some s' ∧ Sim s s' v y := by
  cases p with
  | nil =>
    simp only [updPath] at hy
    have gen : ∀ k, lf.kind = some k → lf.inPlace (coerce ds k (s.read v)) = some y →
        (match lf.inPlace (coerce ds k (s.read v)) with
          | some _ => pokeVar (access ds s v k) v lf.inPlace
          | none => none) = mutate ds s v [] lf →
        ∃ s', mutate ds s v [] lf = some s' ∧ Sim s s' v y := by
      intro k hkind hin heq
      have hk : isKind k := by
        cases lf <;> simp only [Leaf.kind, Option.some.injEq, reduceCtorEq] at hkind <;> subst hkind <;>
          try (simp [isKind]; done)
        simp only [Leaf.inPlace] at hin
        split at hin
        · unfold isKind; omega
        · cases hin
      have hyb := inPlace_boxed (coerce_boxed ds k (s.read v)) hin
      obtain ⟨s', hs', hsim⟩ := sim_access_poke ds h v hv k hk lf.inPlace y hin hyb
      rw [← heq]; simp only [hin]
      exact ⟨s', hs', hsim⟩
    cases lf with
    | assign x => simp [Leaf.apply] at hy; subst hy; exact ⟨_, rfl, sim_assignVal h v hv x⟩
    | set x => simp [Leaf.apply] at hy; subst hy; exact ⟨_, rfl, sim_setVal h v hv x⟩
    | clear => simp [Leaf.apply] at hy; subst hy; exact ⟨_, rfl, sim_clear h v hv⟩
    | touch k => exact gen k rfl (by simpa [Leaf.apply, Leaf.kind] using hy) rfl
    | lapp x => exact gen 8 rfl (by simpa [Leaf.apply, Leaf.kind] using hy) rfl
    | lpre x => exact gen 8 rfl (by simpa [Leaf.apply, Leaf.kind] using hy) rfl
    | lrem i => exact gen 8 rfl (by simpa [Leaf.apply, Leaf.kind] using hy) rfl
    | aapp x => exact gen 9 rfl (by simpa [Leaf.apply, Leaf.kind] using hy) rfl
    | arem i => exact gen 9 rfl (by simpa [Leaf.apply, Leaf.kind] using hy) rfl
    | mput k x => exact gen 7 rfl (by simpa [Leaf.apply, Leaf.kind] using hy) rfl
    | mrem k => exact gen 7 rfl (by simpa [Leaf.apply, Leaf.kind] using hy) rfl
    | sapp t => exact gen 10 rfl (by simpa [Leaf.apply, Leaf.kind] using hy) rfl
  | cons st p =>
    obtain ⟨ht, hyb⟩ := updPath_cons hy
    have hco : coerce ds st.kind (s.read v) = s.read v := coerce_same ds _ _ (step_isKind st) ht
    obtain ⟨s', hs', hsim⟩ := sim_access_poke ds h v hv st.kind (step_isKind st)
      (updPath (st :: p) (lf.apply ds)) y (by rw [hco]; exact hy) hyb
    refine ⟨s', ?_, hsim⟩
    simp only [mutate, hy]; exact hs'

theorem mutate_none (ds : DblSem) (s : State) (v : Nat) (p : List Step) (lf : Leaf)
    (hy : updPath p (lf.apply ds) (s.read v) = none) : mutate ds s v p lf = none := by
  cases p with
  | nil =>
    simp only [updPath] at hy
    cases lf <;> simp [Leaf.apply, Leaf.kind] at hy <;> simp [mutate, Leaf.kind, hy]
  | cons st p => simp only [mutate, hy]

/-! ### swap, get -/

def Good (s : State) : Prop := Inv s zeroE ∧ s.vars tmpVar = .null

theorem sim_opSwap {s : State} (hg : Good s) (v w : Nat) (hv : v < nvars) (hw : w < nvars) :
    Good (opSwap s v w) ∧ (opSwap s v w).read v = s.read w ∧ (opSwap s v w).read w = s.read v ∧
    ∀ u, u < nvars → u ≠ v → u ≠ w → (opSwap s v w).read u = s.read u := by
  obtain ⟨h, ht⟩ := hg
  have hv7 : v < nslots := by simp [nvars, nslots] at *; omega
  have hw7 : w < nslots := by simp [nvars, nslots] at *; omega
  have ht7 : tmpVar < nslots := by simp [tmpVar, nslots]
  have hvt : v ≠ tmpVar := by simp [nvars, tmpVar] at *; omega
  have hwt : w ≠ tmpVar := by simp [nvars, tmpVar] at *; omega
  have a1 := sim_ctorCopy h tmpVar w ht7 hwt (by rw [ht]; intro c hc; cases hc)
  have a2 := sim_assignVar a1.inv w v hw7
  have a3 := sim_assignVar a2.inv v tmpVar hv7
  have a4 := sim_clear a3.inv tmpVar ht7
  have e1 : (opSwap s v w) = clear (assignVar (assignVar (ctorCopy s tmpVar w) w v) v tmpVar) tmpVar := rfl
  rw [e1]
  refine ⟨⟨a4.inv, by rw [clear_vars]; simp⟩, ?_, ?_, ?_⟩
  · rw [a4.frame v hvt, a3.rd, a2.frame tmpVar (Ne.symm hwt), a1.rd]
  · by_cases hwv : w = v
    · subst hwv
      rw [a4.frame w hwt, a3.rd, a2.frame tmpVar (Ne.symm hwt), a1.rd]
    · rw [a4.frame w hwt, a3.frame w hwv, a2.rd, a1.frame v hvt]
  · intro u hu huv huw
    have hut : u ≠ tmpVar := by simp [nvars, tmpVar] at *; omega
    rw [a4.frame u hut, a3.frame u huv, a2.frame u huw, a1.frame u hut]

theorem good_of_sim {s s' : State} {v : Nat} {y : Val} (hg : Good s) (hv : v < nvars) (a : Sim s s' v y) : Good s' := by
  refine ⟨a.inv, ?_⟩
  have : tmpVar ≠ v := by simp [nvars, tmpVar] at *; omega
  rw [a.vframe tmpVar this]; exact hg.2

/-! ### evaluation of sources depends on the named variables only -/

def Rel (s : State) (σ : Store) : Prop := ∀ v, v < nvars → s.read v = σ v

theorem allLt_mem {l : List Nat} (h : allLt l = true) {w : Nat} (hw : w ∈ l) : w < nvars := by
  simp [allLt] at h; exact h w hw

theorem Src.eval_congr {rd rd' : Nat → Val} (x : Src) (h : ∀ w ∈ x.vars, rd w = rd' w) : x.eval rd = x.eval rd' := by
  cases x with
  | var w => simp [Src.eval]; exact h w (by simp [Src.vars])
  | lit x => rfl

theorem ValS.eval_congr {rd rd' : Nat → Val} (e : ValS) (h : ∀ w ∈ e.vars, rd w = rd' w) : e.eval rd = e.eval rd' := by
  cases e with
  | lit x => rfl
  | list l =>
    simp only [ValS.eval]; congr 1
    apply List.map_congr_left
    intro x hx
    exact Src.eval_congr x (fun w hw => h w (by simp [ValS.vars]; exact ⟨x, hx, hw⟩))
  | array l =>
    simp only [ValS.eval]; congr 1
    apply List.map_congr_left
    intro x hx
    exact Src.eval_congr x (fun w hw => h w (by simp [ValS.vars]; exact ⟨x, hx, hw⟩))
  | map m =>
    simp only [ValS.eval]; congr 2
    apply List.map_congr_left
    intro x hx
    have := Src.eval_congr x.2 (rd := rd) (rd' := rd') (fun w hw => h w (by simp [ValS.vars]; exact ⟨x.1, x.2, hx, hw⟩))
    rw [this]

theorem LeafS.eval_congr {rd rd' : Nat → Val} (lf : LeafS) (h : ∀ w ∈ lf.vars, rd w = rd' w) : lf.eval rd = lf.eval rd' := by
  cases lf <;> simp only [LeafS.eval, LeafS.vars] at * <;>
    first
    | rfl
    | (congr 1; first | exact Src.eval_congr _ h | exact ValS.eval_congr _ h)

end Nstd.Variant
