import Nstd.Variant.DeepRelease
import Nstd.Variant.LemmasOps
/-
  Copy of a payload and the mutable accessor on a held cell.
-/
namespace Nstd.Variant.Deep
open Nstd.Variant

/-- the operation in progress holds cell `c` as a pending handle -/
structure Held (h : Heap) (vars : Nat → Cell) (e : Nat → Nat) (g : Nat → Val) (c : Cell) : Prop where
  inv : DInv h vars e g
  pend : ∀ x, cellCnt c x ≤ e x
  ok : ∀ y, c = .inl y → y.isBoxed = false

theorem Held.cellOk {h vars e g c} (hd : Held h vars e g c) : CellOk h c := by
  refine ⟨hd.ok, ?_⟩
  intro b hb; subst hb
  have := hd.pend b
  simp [cellCnt_ptr] at this
  exact live_of_pending hd.inv b this

theorem cellType_abs {h vars e g c} (hd : Held h vars e g c) : cellType h c = (absCell g c).type := by
  cases c with
  | null => rfl
  | inl y => rfl
  | ptr b =>
    obtain ⟨blk, hb⟩ := hd.cellOk.2 b rfl
    simp only [cellType, hb, absCell]
    rw [hd.inv.cons b blk hb, absPay_type]

theorem stored_cells_ok {h : Heap} {vars e g} (i : DInv h vars e g) (b : Nat) (blk : Block) (hb : h.heap b = some blk) :
    ∀ c ∈ blk.pay.cells, CellOk h c := by
  intro c hc
  refine ⟨?_, ?_⟩
  · intro y hy; subst hy; exact i.sinl b blk y hb hc
  · intro d hd; subst hd; exact i.slive b blk d hb hc

/-! ### copy of a payload -/

theorem dinv_copyMap {vars g} : ∀ (m : List (Str × Cell)) (h : Heap) (e : Nat → Nat), DInv h vars e g →
    (∀ c ∈ m.map (·.2), CellOk h c) →
    DInv (copyMap h m).1 vars (fun x => e x + cntCells ((copyMap h m).2.map (·.2)) x) g ∧
    (copyMap h m).2.map (fun p => (p.1, absCell g p.2)) = m.map (fun p => (p.1, absCell g p.2)) ∧
    SameLive h (copyMap h m).1 ∧ PaySub h (copyMap h m).1 ∧ PaySub (copyMap h m).1 h ∧
    (∀ c ∈ (copyMap h m).2.map (·.2), ∀ x, c = .inl x → x.isBoxed = false) ∧
    (∀ x, cntCells ((copyMap h m).2.map (·.2)) x = cntCells (m.map (·.2)) x) := by
  intro m
  induction m with
  | nil =>
    intro h e i _
    exact ⟨i.congr (by intro x; simp [copyMap, cntCells_nil]), rfl, SameLive.refl _, PaySub.refl _, PaySub.refl _,
      by intro c hc; simp [copyMap] at hc, fun _ => rfl⟩
  | cons kc t ih =>
    obtain ⟨k, c⟩ := kc
    intro h e i hok
    obtain ⟨i1, a1, c1, s1, p1, q1, o1⟩ := dinv_copyCell i c (hok c (by simp))
    have hok' : ∀ c' ∈ t.map (·.2), CellOk (copyCell h c).1 c' :=
      fun c' hc' => cellOk_of_sameLive s1 c' (hok c' (by simp at hc' ⊢; exact Or.inr hc'))
    obtain ⟨i2, a2, s2, p2, q2, o2, c2⟩ := ih (copyCell h c).1 _ i1 hok'
    have hcs : copyMap h ((k, c) :: t) = ((copyMap (copyCell h c).1 t).1, (k, (copyCell h c).2) :: (copyMap (copyCell h c).1 t).2) := rfl
    rw [hcs]
    refine ⟨i2.congr ?_, ?_, s1.trans s2, p1.trans p2, q2.trans q1, ?_, ?_⟩
    · intro x; simp only [List.map_cons, cntCells_cons]; omega
    · simp only [List.map_cons, a1, a2]
    · intro c' hc' x hx
      simp only [List.map_cons, List.mem_cons] at hc'
      rcases hc' with rfl | hc'
      · exact o1 x hx
      · exact o2 c' hc' x hx
    · intro x; simp only [List.map_cons, cntCells_cons, c1 x, c2 x]

/-- `copyPay`: every element is copy-constructed (pending handles), the value is the same -/
theorem dinv_copyPay {h : Heap} {vars e g} (i : DInv h vars e g) (p : Pay) (hp : ∀ c ∈ p.cells, CellOk h c) :
    DInv (copyPay h p).1 vars (fun x => e x + cntCells (copyPay h p).2.cells x) g ∧
    absPay g (copyPay h p).2 = absPay g p ∧ SameLive h (copyPay h p).1 ∧ PaySub h (copyPay h p).1 ∧
    PaySub (copyPay h p).1 h ∧ (∀ c ∈ (copyPay h p).2.cells, ∀ x, c = .inl x → x.isBoxed = false) ∧
    (∀ x, cntCells (copyPay h p).2.cells x = cntCells p.cells x) := by
  cases p with
  | str t =>
    exact ⟨i.congr (by intro x; simp [copyPay, Pay.cells, cntCells_nil]), rfl, SameLive.refl _, PaySub.refl _, PaySub.refl _,
      by intro c hc; simp [copyPay, Pay.cells] at hc, fun _ => rfl⟩
  | list cs =>
    obtain ⟨i1, a1, c1, s1, p1, q1, o1, _⟩ := dinv_copyCells cs h e i hp
    exact ⟨i1, by simp only [copyPay, absPay, a1], s1, p1, q1, o1, c1⟩
  | array cs =>
    obtain ⟨i1, a1, c1, s1, p1, q1, o1, _⟩ := dinv_copyCells cs h e i hp
    exact ⟨i1, by simp only [copyPay, absPay, a1], s1, p1, q1, o1, c1⟩
  | map m =>
    obtain ⟨i1, a1, s1, p1, q1, o1, c1⟩ := dinv_copyMap m h e i hp
    exact ⟨i1, by simp only [copyPay, absPay, a1], s1, p1, q1, o1, c1⟩

/-! ### liveness bookkeeping -/

theorem liveN_congr (heap heap' : Nat → Option Block) (n : Nat) (hh : ∀ x, (heap' x).isSome = (heap x).isSome) :
    liveN heap' n = liveN heap n := by
  unfold liveN
  apply List.countP_congr
  intro w _; simp [hh w]

theorem liveCount_sameLive {h h' : Heap} (s : SameLive h h') : liveCount h' = liveCount h := by
  unfold liveCount; rw [s.1]; exact liveN_congr _ _ _ s.2

theorem liveCount_alloc {h : Heap} {vars e g} (i : DInv h vars e g) (p : Pay) : liveCount (alloc h p).1 = liveCount h + 1 := by
  have hn : h.heap h.next = none := i.fresh h.next (Nat.le_refl _)
  simp only [liveCount, alloc, liveN, List.range_succ, List.countP_append, List.countP_cons, List.countP_nil, upd_same]
  have : List.countP (fun i => (upd h.heap h.next (some ⟨1, p⟩) i).isSome) (List.range h.next)
      = List.countP (fun i => (h.heap i).isSome) (List.range h.next) := by
    apply List.countP_congr
    intro w hw
    have : w ≠ h.next := by have := List.mem_range.mp hw; omega
    simp [upd_other _ _ _ _ this]
  rw [this]; simp

/-! ### the const accessor's result for a Variant of another type -/

theorem emptyPay_abs (ds : DblSem) {h vars e g c} (hd : Held h vars e g c) (k : Nat) (hk : isKind k)
    (hne : (absCell g c).type ≠ k) :
    absPay g (emptyPay ds h k c) = coerce ds k (absCell g c) ∧ (emptyPay ds h k c).cells = [] := by
  rcases hk with rfl | rfl | rfl | rfl
  · constructor
    · simp only [emptyPay, if_true, absPay, coerce, List.map_nil]
      cases hx : absCell g c <;> simp [Val.asMap] <;> simp [hx, Val.type] at hne
    · rfl
  · constructor
    · simp only [emptyPay, coerce, absPay]
      cases hx : absCell g c <;> simp [Val.asList] <;> simp [hx, Val.type] at hne
    · rfl
  · constructor
    · simp only [emptyPay, coerce, absPay]
      cases hx : absCell g c <;> simp [Val.asArray] <;> simp [hx, Val.type] at hne
    · rfl
  · constructor
    · simp only [emptyPay, coerce, absPay]
      congr 1
      cases c with
      | null => rfl
      | inl y => rfl
      | ptr b =>
        obtain ⟨blk, hb⟩ := hd.cellOk.2 b rfl
        have hc := hd.inv.cons b blk hb
        simp only [absCell] at hne ⊢
        simp only [cellStr, hb]
        cases hp : blk.pay with
        | str t => rw [hc, hp] at hne; simp [absPay, Val.type] at hne
        | list cs => rw [hc, hp]; cases blk; simp_all [absPay, Val.toStr]
        | array cs => rw [hc, hp]; cases blk; simp_all [absPay, Val.toStr]
        | map m => rw [hc, hp]; cases blk; simp_all [absPay, Val.toStr]
    · rfl

end Nstd.Variant.Deep

namespace Nstd.Variant.Deep
open Nstd.Variant

theorem type_lt_of_not_boxed (x : Val) (h : x.isBoxed = false) : x.type < 7 := by
  cases x <;> simp [Val.isBoxed, Val.type] at *

theorem kind_ge (k : Nat) (hk : isKind k) : 7 ≤ k ∧ k ≤ 10 := by unfold isKind at hk; omega

/-- what the mutable accessor returns: a block owned by the held handle alone, holding the coerced value -/
structure Accessed (ds : DblSem) (h : Heap) (vars : Nat → Cell) (e : Nat → Nat) (g : Nat → Val) (c : Cell) (k : Nat)
    (h' : Heap) (b : Nat) (g' : Nat → Val) : Prop where
  blk : ∃ blk, h'.heap b = some blk ∧ blk.ref = 1
  hz : handles vars b = 0
  sz : stored h'.heap h'.next b = 0
  inv : DInv h' vars (fun x => e x - cellCnt c x + cellCnt (.ptr b) x) g'
  val : g' b = coerce ds k (absCell g c)
  frame : ∀ x, x < h.next → g' x = g x
  next_le : h.next ≤ h'.next
  next_ge : h'.next ≤ h.next + 1
  live : liveCount h' ≤ liveCount h + 1

theorem dinv_access (ds : DblSem) {h : Heap} {vars e g c} (hd : Held h vars e g c) (k : Nat) (hk : isKind k) (f : Nat)
    (hf : liveCount h + 1 < f) :
    ∃ h' b g', accessCell f ds h c k = some (h', .ptr b) ∧ Accessed ds h vars e g c k h' b g' := by
  have i := hd.inv
  have hty := cellType_abs hd
  have hkr := kind_ge k hk
  by_cases hc : cellType h c ≠ k ∨ cellRef h c > 1
  · -- clone
    -- the copy of the const accessor's result
    have step1 : ∃ h1 p, accessPay ds h c k = (h1, p) ∧
        DInv h1 vars (fun x => e x + cntCells p.cells x) g ∧ absPay g p = coerce ds k (absCell g c) ∧
        SameLive h h1 ∧ PaySub h h1 ∧ (∀ c' ∈ p.cells, ∀ y, c' = .inl y → y.isBoxed = false) := by
      by_cases ht : cellType h c = k
      · simp only [accessPay, ht, if_true]
        cases c with
        | null => simp [cellType] at ht; omega
        | inl y =>
          have := type_lt_of_not_boxed y (hd.ok y rfl)
          simp [cellType] at ht; omega
        | ptr b0 =>
          obtain ⟨blk0, hb0⟩ := hd.cellOk.2 b0 rfl
          simp only [hb0]
          obtain ⟨i1, a1, s1, q1, _, o1, _⟩ := dinv_copyPay i blk0.pay (stored_cells_ok i b0 blk0 hb0)
          refine ⟨(copyPay h blk0.pay).1, (copyPay h blk0.pay).2, rfl, i1, ?_, s1, q1, o1⟩
          rw [a1, ← i.cons b0 blk0 hb0]
          have : (absCell g (.ptr b0)).type = k := by rw [← hty]; exact ht
          exact (coerce_same ds k _ hk this).symm
      · simp only [accessPay, ht, if_false]
        have hne : (absCell g c).type ≠ k := by rw [← hty]; exact ht
        obtain ⟨a, ce⟩ := emptyPay_abs ds hd k hk hne
        exact ⟨h, emptyPay ds h k c, rfl, i.congr (by intro x; simp [ce, cntCells_nil]), a, SameLive.refl _, PaySub.refl _,
          by intro c' hc'; rw [ce] at hc'; cases hc'⟩
    obtain ⟨h1, p, hstep, i1, a1, s1, q1, o1⟩ := step1
    -- cells of p are pending in h1, hence live
    have hpok : ∀ c' ∈ p.cells, CellOk h1 c' := by
      intro c' hc'
      refine ⟨o1 c' hc', ?_⟩
      intro d hd'; subst hd'
      have := cntCells_pos_of_mem _ _ hc'
      exact live_of_pending i1 d (by show 1 ≤ e d + cntCells p.cells d; omega)
    have hn1 : h1.next = h.next := s1.1
    have i2 := (dinv_alloc i1 p hpok (fun x => Nat.le_add_left _ _)).congr
      (e' := fun x => e x + (if x = h.next then 1 else 0)) (by intro x; simp only [hn1]; omega)
    have hdead : h.heap h.next = none := i.fresh _ (Nat.le_refl _)
    have hcn : cellCnt c h.next = 0 := by
      cases c with
      | null => rfl
      | inl y => rfl
      | ptr b0 =>
        obtain ⟨blk0, hb0⟩ := hd.cellOk.2 b0 rfl
        have : b0 ≠ h.next := by intro eb; subst eb; rw [hdead] at hb0; cases hb0
        simp [cellCnt_ptr, this]
    have hl2 : liveCount (alloc h1 p).1 < f := by
      rw [liveCount_alloc i1 p, liveCount_sameLive s1]; exact hf
    have hpend2 : ∀ x, cellCnt c x ≤ (fun x => e x + (if x = h.next then 1 else 0)) x := by
      intro x; have := hd.pend x; show cellCnt c x ≤ e x + (if x = h.next then 1 else 0); omega
    obtain ⟨h3, r3, i3', s3⟩ := dinv_release f (alloc h1 p).1 _ c i2 hpend2 hl2
    have i3 := i3'.congr (e' := fun x => e x + (if x = h.next then 1 else 0) - cellCnt c x) (fun _ => rfl)
    have e3n : 1 ≤ e h.next + (if h.next = h.next then 1 else 0) - cellCnt c h.next := by
      simp only [if_true, hcn]; omega
    obtain ⟨blk3, hb3⟩ := live_of_pending i3 h.next e3n
    have hh0 : handles vars h.next = 0 := handles_zero_of_dead i _ hdead
    -- nobody stores a pointer to the new block
    have hs0 : stored h3.heap h3.next h.next = 0 := by
      apply stored_zero
      intro j blk hj hm
      obtain ⟨blk2, hj2, ep⟩ := s3.pay j blk hj
      rw [ep] at hm
      by_cases ej : j = h1.next
      · subst ej
        rw [alloc_new] at hj2; injection hj2 with hj2; subst hj2
        obtain ⟨kk, hkk⟩ := (hpok _ hm).2 _ rfl
        have := s1.2 h.next
        rw [hkk, hdead] at this; cases this
      · rw [alloc_sameLive_old h1 p j ej] at hj2
        obtain ⟨blk0, hj0, ep0⟩ := q1 j blk2 hj2
        rw [ep0] at hm
        obtain ⟨kk, hkk⟩ := i.slive j blk0 _ hj0 hm
        rw [hdead] at hkk; cases hkk
    have href : blk3.ref = 1 := by
      have := i3.cnt h.next blk3 hb3
      rw [hh0, hs0] at this
      simp only [if_true, hcn] at this
      have := i.efresh _ hdead
      omega
    refine ⟨h3, h.next, upd g h1.next (absPay g p), ?_, ?_⟩
    · unfold accessCell
      rw [if_pos hc, hstep]
      simp only [r3, alloc_id, hn1]
    · refine ⟨⟨blk3, hb3, href⟩, hh0, hs0, i3.congr ?_, ?_, ?_, ?_, ?_, ?_⟩
      · intro x
        have := hd.pend x
        simp only [cellCnt_ptr]
        by_cases ex : x = h.next
        · subst ex; simp only [if_true]; omega
        · have : ¬ h.next = x := fun y => ex y.symm
          simp only [ex, this, if_false]; omega
      · rw [hn1, upd_same]; exact a1
      · intro x hx
        have : x ≠ h1.next := by rw [hn1]; omega
        exact upd_other _ _ _ _ this
      · rw [s3.next, alloc_next, hn1]; omega
      · rw [s3.next, alloc_next, hn1]; omega
      · have := s3.live
        have : liveCount (alloc h1 p).1 = liveCount h + 1 := by rw [liveCount_alloc i1 p, liveCount_sameLive s1]
        omega
  · -- in place: the cell already owns a block of that type alone
    have ht : cellType h c = k := by
      by_cases e1 : cellType h c = k
      · exact e1
      · exact absurd (Or.inl e1) hc
    have hr : ¬ cellRef h c > 1 := fun r => hc (Or.inr r)
    cases c with
    | null => simp [cellType] at ht; omega
    | inl y =>
      have := type_lt_of_not_boxed y (hd.ok y rfl)
      simp [cellType] at ht; omega
    | ptr b =>
      obtain ⟨blk, hb⟩ := hd.cellOk.2 b rfl
      have hpos := i.pos b blk hb
      have href : blk.ref = 1 := by simp [cellRef, hb] at hr; omega
      have hcnt := i.cnt b blk hb
      have hpe := hd.pend b
      simp [cellCnt_ptr] at hpe
      refine ⟨h, b, g, by simp [accessCell, hc], ⟨blk, hb, href⟩, by omega, by omega, i.congr ?_, ?_, fun _ _ => rfl,
        Nat.le_refl _, by omega, by omega⟩
      · intro x
        have := hd.pend x
        simp only [cellCnt_ptr] at this ⊢
        omega
      · have : (absCell g (.ptr b)).type = k := by rw [← hty]; exact ht
        exact (coerce_same ds k _ hk this).symm

end Nstd.Variant.Deep
