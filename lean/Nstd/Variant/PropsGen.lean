import Nstd.Variant.Raw
import Nstd.Generated.VariantRep
import Nstd.Generated.VariantCoerce
/-
  Property C07, the tie by TRANSLATION.  `Nstd.Generated.VariantRep` / `Nstd.Generated.VariantCoerce` hold the bodies of the
  member functions of `Variant` as tools/gen_variant.py reads them off the CURRENT include/nstd/Variant.hpp on every run
  (statement by statement, over the vocabulary of Raw.lean: the object is the pointer `data` plus the member `_data`).
  The theorems below state that the translated code IS the step of the deep model (Deep.lean: `release`, `copyCell`,
  `assignFrom`'s body, `accessCell`, the scalar and boxed branches of `leafOp .set` / `setBoxedCell`) resp. the coercion of the
  value model (Val.lean), on every object that represents a cell of the model (`Obj.cell this = some c`) and every heap in
  which the cells involved are live.  A change of one of these bodies that alters what it computes makes a theorem fail
  (a broken obligation; the check then searches for a failing input); a rewrite that computes the same (other local names,
  early returns, negated tests, reordered independent statements) is re-proved by the same scripts.
  Element destructors are the parameter `dtor`, instantiated with `release f` (the destructor one nesting level down).
-/
set_option linter.unusedSimpArgs false
set_option linter.unusedVariables false
namespace Nstd.Variant
open Nstd.Variant.Deep Nstd.Variant.Raw Nstd.Generated

theorem gen_getType (ds : DblSem) (v : Val) : VariantCoerce.getType ds v = v.type := by cases v <;> rfl
theorem gen_isNull (ds : DblSem) (v : Val) : VariantCoerce.isNull ds v = (v.type == 0) := by cases v <;> rfl
theorem gen_toBool (ds : DblSem) (v : Val) : VariantCoerce.toBool ds v = v.toBool ds := by cases v <;> rfl
theorem gen_toInt (ds : DblSem) (v : Val) : VariantCoerce.toInt ds v = v.toInt ds := by
  cases v <;> first | rfl | (rename_i b; cases b <;> rfl)
theorem gen_toUInt (ds : DblSem) (v : Val) : VariantCoerce.toUInt ds v = v.toUInt ds := by
  cases v <;> first | rfl | (rename_i b; cases b <;> rfl)
theorem gen_toInt64 (ds : DblSem) (v : Val) : VariantCoerce.toInt64 ds v = v.toInt64 ds := by
  cases v <;> first | rfl | (rename_i b; cases b <;> rfl)
theorem gen_toUInt64 (ds : DblSem) (v : Val) : VariantCoerce.toUInt64 ds v = v.toUInt64 ds := by
  cases v <;> first | rfl | (rename_i b; cases b <;> rfl)
theorem gen_toDouble (ds : DblSem) (v : Val) : VariantCoerce.toDouble ds v = v.toDouble ds := by
  cases v <;> first | rfl | (rename_i b; cases b <;> rfl)
theorem gen_toStr (ds : DblSem) (v : Val) : VariantCoerce.toStr ds v = v.toStr ds := by
  cases v <;> first | rfl | (rename_i b; cases b <;> rfl)

/-- the translated `operator==` (per tag of `*this`; `ceq` = the containers' `operator==`, `flip` = the call `other == *this`)
    is one unfolding of the value model's `veq`, for every pair of values of all 121 type pairs -/
theorem gen_eq (ds : DblSem) (v o : Val) : VariantCoerce.eq ds (veq ds) (veq ds) v o = veq ds v o := by
  cases v <;> cases o <;> simp [VariantCoerce.eq, veq, scalarEq, gen_toBool, gen_toDouble, gen_toInt, gen_toUInt, gen_toInt64,
    gen_toUInt64, gen_isNull, gen_getType, Val.type]

theorem upd_upd2 {α} (f : Nat → α) (v : Nat) (a b : α) : upd (upd f v a) v b = upd f v b := by
  funext j; simp only [upd]; by_cases hj : j = v <;> simp [hj]
theorem upd_self {α} (f : Nat → α) (v : Nat) (a : α) (h : f v = a) : upd f v a = f := by
  funext j; simp only [upd]; by_cases hj : j = v <;> simp [hj, h]

theorem cell_inv (o : Obj) (c : Cell) (h : o.cell = some c) :
    (o.data = .nullData ∧ c = .null) ∨ (∃ b, o.data = .blk b ∧ c = .ptr b) ∨
    (o.data = .own ∧ o.own.ref = 0 ∧ ((o.own.type = 0 ∧ c = .inl .null) ∨
      (o.own.type ≠ 0 ∧ o.own.u.type = o.own.type ∧ o.own.u.isBoxed = false ∧ c = .inl o.own.u))) := by
  obtain ⟨data, own⟩ := o
  cases data with
  | nullData => left; simp [Obj.cell] at h; exact ⟨rfl, h.symm⟩
  | blk b => right; left; simp [Obj.cell] at h; exact ⟨b, rfl, h.symm⟩
  | own =>
    right; right
    simp only [Obj.cell] at h
    by_cases hr : own.ref = 0
    · simp only [hr, ne_eq, not_true_eq_false, if_false] at h
      by_cases ht : own.type = 0
      · simp only [ht, if_true, Option.some.injEq] at h
        exact ⟨rfl, hr, Or.inl ⟨ht, h.symm⟩⟩
      · simp only [ht, if_false] at h
        by_cases hu : own.u.type = own.type ∧ own.u.isBoxed = false
        · simp only [hu, and_self, if_true, Option.some.injEq] at h
          exact ⟨rfl, hr, Or.inr ⟨ht, hu.1, hu.2, h.symm⟩⟩
        · simp [hu] at h
    · simp [hr] at h

theorem pay_type_cases (p : Pay) : p.type = 7 ∨ p.type = 8 ∨ p.type = 9 ∨ p.type = 10 := by
  cases p <;> simp [Pay.type]

/-- the translated `clear()` is the deep model's `release` (one level of fuel for the element destructors) -/
theorem gen_clear (f : Nat) (s : Heap) (this : Obj) (c : Cell) (hc : this.cell = some c) :
    VariantRep.clear (release f) s this
      = (release (f + 1) s c).map (fun s' => (s', ({ this with data := .nullData } : Obj))) := by
  obtain ⟨data, own⟩ := this
  rcases cell_inv _ _ hc with ⟨hd, rfl⟩ | ⟨b, hd, rfl⟩ | ⟨hd, hr, ⟨_, rfl⟩ | ⟨_, _, _, rfl⟩⟩
  · simp only at hd; subst hd; simp [VariantRep.clear, Obj.ref, release]
  · simp only at hd; subst hd
    cases hb : s.heap b with
    | none => simp [VariantRep.clear, Obj.ref, hb, release]
    | some blk =>
      obtain ⟨ref, pay⟩ := blk
      by_cases h0 : ref = 0
      · subst h0
        have : ({ s with heap := upd s.heap b (some ⟨0, pay⟩) } : Heap) = s := by
          cases s; simp [upd_self _ _ _ hb]
        simp [VariantRep.clear, Obj.ref, hb, release, this]
      · by_cases h1 : ref = 1
        · subst h1
          cases pay <;> simp [VariantRep.clear, Obj.ref, Obj.decr, Obj.type, Obj.detach, Obj.free, destroyAll, hb, release, Pay.type, Pay.cells, upd_upd2, upd] <;>
            (first | done | (split <;> simp_all))
        · have h2 : ref - 1 ≠ 0 := by omega
          simp [VariantRep.clear, Obj.ref, Obj.decr, hb, release, h0, h1, h2]
  · simp only at hd hr; subst hd; simp [VariantRep.clear, Obj.ref, hr, release]
  · simp only at hd hr; subst hd; simp [VariantRep.clear, Obj.ref, hr, release]

/-- the translated copy constructor is the deep model's `copyCell` (up to the representation of null: the shared
    sentinel and an inline null descriptor are the same Variant) -/
theorem gen_copyCtor (s : Heap) (this : Obj) (other : Cell) (hl : Live s other) :
    (VariantRep.copyCtor s this other).bind (fun r => r.2.cell.map (fun c => (r.1, norm c)))
      = some ((copyCell s other).1, norm (copyCell s other).2) := by
  obtain ⟨data, own⟩ := this
  cases other with
  | null => simp [VariantRep.copyCtor, cref, ctype, descOf, Obj.cell, copyCell, norm]
  | inl x =>
    have hx := hl.1 x rfl
    cases x <;> simp [VariantRep.copyCtor, cref, ctype, descOf, Obj.cell, copyCell, norm, Val.type, Val.isBoxed] at hx ⊢
  | ptr b =>
    obtain ⟨blk, hb, hr⟩ := hl.2 b rfl
    have h0 : blk.ref ≠ 0 := by omega
    simp [VariantRep.copyCtor, cref, ctype, ptrOf, Obj.incr, incrBlk, Obj.cell, copyCell, incr, norm, hb, h0]

theorem incr_release_same (f : Nat) (s : Heap) (b : Nat) (blk : Deep.Block) (hb : s.heap b = some blk) (hr : 1 ≤ blk.ref) :
    release (f + 1) (incr s b) (.ptr b) = some s := by
  have hne : blk.ref + 1 ≠ 1 := by omega
  obtain ⟨ref, pay⟩ := blk
  cases s with
  | mk heap next =>
    simp only at hb hne
    have e1 : (incr ⟨heap, next⟩ b).heap b = some ⟨ref + 1, pay⟩ := by simp [incr, hb, upd]
    simp only [release, e1, hne, if_false]
    simp [incr, hb, upd_upd2, upd_self heap b _ hb]

theorem release_ref0 (f : Nat) (s : Heap) (b : Nat) (pay : Pay) (hb : s.heap b = some ⟨0, pay⟩) : release (f + 1) s (.ptr b) = some s := by
  cases s with
  | mk heap next =>
    simp only at hb
    simp only [release, hb]
    simp [upd_self heap b _ hb]

/-- `operator=(const Variant&)` between distinct objects, in composable form: it answers iff the release of the old payload (after
    the source's handle was taken) does, with that heap, and leaves an object standing for (a representation of) the copied cell.
    Only the resulting heap counts — a body that skips the increment / decrement pair when both sides already share the block
    meets the same statement -/
theorem assign_spec (f : Nat) (s : Heap) (this : Obj) (c src : Cell) (hc : this.cell = some c) (hl : Live s src) :
    match release (f + 1) (copyCell s src).1 c with
    | none => VariantRep.assign (release f) s this false src = none
    | some h => ∃ o, VariantRep.assign (release f) s this false src = some (h, o) ∧ ∃ c', o.cell = some c' ∧ norm c' = norm (copyCell s src).2 := by
  obtain ⟨data, own⟩ := this
  rcases cell_inv _ _ hc with ⟨hd, rfl⟩ | ⟨b, hd, rfl⟩ | ⟨hd, hr, ⟨h0, rfl⟩ | ⟨hne, hu, hx, rfl⟩⟩ <;> simp only at hd <;> subst hd
  · -- this = null
    cases src with
    | null => simp [VariantRep.assign, Raw.ptrEq, cref, ctype, descOf, Obj.ref, gen_clear f s _ _ hc, copyCell, release, Obj.cell, norm]
    | inl x =>
      have hx := hl.1 x rfl
      cases x <;> simp [VariantRep.assign, Raw.ptrEq, cref, ctype, descOf, Obj.ref, gen_clear f s _ _ hc, copyCell, release, Obj.cell, norm,
        Val.type, Val.isBoxed] at hx ⊢
    | ptr b' =>
      obtain ⟨blk, hb, hr⟩ := hl.2 b' rfl
      have h0 : blk.ref ≠ 0 := by omega
      simp [VariantRep.assign, Raw.ptrEq, cref, cincr, incrBlk, hb, h0, ptrOf, gen_clear f _ _ _ hc, copyCell, incr, release, Obj.cell, norm]
  · -- this = block b
    cases src with
    | null =>
      simp only [VariantRep.assign, Raw.ptrEq, cref, ctype, descOf, Obj.ref, gen_clear f s _ _ hc, copyCell]
      cases hb : s.heap b with
      | none => simp [release, hb]
      | some blk =>
        obtain ⟨r, pay⟩ := blk
        by_cases hr0 : r = 0
        · subst hr0; simp [release_ref0 f s b pay hb, Obj.cell, norm]
        · cases release (f + 1) s (.ptr b) <;> simp [hr0, Obj.cell, norm]
    | inl x =>
      have hx := hl.1 x rfl
      simp only [VariantRep.assign, Raw.ptrEq, cref, ctype, descOf, Obj.ref, gen_clear f s _ _ hc, copyCell]
      cases hb : s.heap b with
      | none => simp [release, hb]
      | some blk =>
        obtain ⟨r, pay⟩ := blk
        by_cases hr0 : r = 0
        · subst hr0
          cases x <;> simp [release_ref0 f s b pay hb, Obj.cell, norm, Val.type, Val.isBoxed] at hx ⊢
        · cases release (f + 1) s (.ptr b) <;> cases x <;> simp [hr0, Obj.cell, norm, Val.type, Val.isBoxed] at hx ⊢
    | ptr b' =>
      obtain ⟨blk, hb, hr⟩ := hl.2 b' rfl
      have h0 : blk.ref ≠ 0 := by omega
      by_cases e : b' = b
      · subst e
        have hsame := incr_release_same f s b' blk hb hr
        simp only [copyCell, hsame]
        first
          | (simp [VariantRep.assign, Raw.ptrEq, Obj.cell, norm]; done)
          | (simp only [VariantRep.assign, Raw.ptrEq, cref, cincr, incrBlk, hb, gen_clear f _ _ _ hc, ptrOf]
             simp only [incr, hb] at hsame
             simp [h0, hsame, Obj.cell, norm])
      · have e' : (b' == b) = false := by simpa using e
        simp only [VariantRep.assign, Raw.ptrEq, e', cref, cincr, incrBlk, hb, copyCell, incr]
        simp only [Bool.false_eq_true, if_false, Option.map_some, ne_eq, h0, not_false_eq_true, if_true, gen_clear f _ _ _ hc, ptrOf]
        cases release (f + 1) _ (Cell.ptr b) <;> simp [Obj.cell, norm]
  · -- this = inline null
    simp only at hr h0
    cases src with
    | null => simp [VariantRep.assign, Raw.ptrEq, cref, ctype, descOf, Obj.ref, hr, gen_clear f s _ _ hc, copyCell, release, Obj.cell, norm]
    | inl x =>
      have hx := hl.1 x rfl
      cases x <;> simp [VariantRep.assign, Raw.ptrEq, cref, ctype, descOf, Obj.ref, hr, gen_clear f s _ _ hc, copyCell, release, Obj.cell, norm,
        Val.type, Val.isBoxed] at hx ⊢
    | ptr b' =>
      obtain ⟨blk, hb, hrr⟩ := hl.2 b' rfl
      have h0' : blk.ref ≠ 0 := by omega
      simp [VariantRep.assign, Raw.ptrEq, cref, cincr, incrBlk, hb, h0', ptrOf, gen_clear f _ _ _ hc, copyCell, incr, release, Obj.cell, norm]
  · -- this = inline scalar
    simp only at hr
    cases src with
    | null => simp [VariantRep.assign, Raw.ptrEq, cref, ctype, descOf, Obj.ref, hr, gen_clear f s _ _ hc, copyCell, release, Obj.cell, norm]
    | inl x =>
      have hx' := hl.1 x rfl
      cases x <;> simp [VariantRep.assign, Raw.ptrEq, cref, ctype, descOf, Obj.ref, hr, gen_clear f s _ _ hc, copyCell, release, Obj.cell, norm,
        Val.type, Val.isBoxed] at hx' ⊢
    | ptr b' =>
      obtain ⟨blk, hb, hrr⟩ := hl.2 b' rfl
      have h0' : blk.ref ≠ 0 := by omega
      simp [VariantRep.assign, Raw.ptrEq, cref, cincr, incrBlk, hb, h0', ptrOf, gen_clear f _ _ _ hc, copyCell, incr, release, Obj.cell, norm]

/-- the translated `operator=(const Variant&)`: nothing for `v = v`; otherwise the heap and the cell are those of: take the handle of
    `other` first (`copyCell`), then `release` the old payload, then install -/
theorem gen_assign (f : Nat) (s : Heap) (this : Obj) (c other : Cell) (hc : this.cell = some c) (hl : Live s other) :
    VariantRep.assign (release f) s this true other = some (s, this) ∧
    (VariantRep.assign (release f) s this false other).bind (fun r => r.2.cell.map (fun c' => (r.1, norm c')))
      = (release (f + 1) (copyCell s other).1 c).map (fun s' => (s', norm (copyCell s other).2)) := by
  refine ⟨by simp [VariantRep.assign], ?_⟩
  have h := assign_spec f s this c other hc hl
  cases hr : release (f + 1) (copyCell s other).1 c with
  | none => rw [hr] at h; simp only at h; simp [h]
  | some h' =>
    rw [hr] at h; simp only at h
    obtain ⟨o, e, c', hc', hn⟩ := h
    simp [e, hc', hn]

theorem type_of_cell (s : Heap) (this : Obj) (c : Cell) (hc : this.cell = some c) (hl : Live s c) :
    Obj.type s this = some (cellType s c) := by
  obtain ⟨data, own⟩ := this
  rcases cell_inv _ _ hc with ⟨hd, rfl⟩ | ⟨b, hd, rfl⟩ | ⟨hd, hr, ⟨h0, rfl⟩ | ⟨_, hu, _, rfl⟩⟩ <;> simp only at hd <;> subst hd
  · rfl
  · obtain ⟨blk, hb, _⟩ := hl.2 b rfl
    simp [Obj.type, cellType, hb]
  · simp only at h0; simp [Obj.type, cellType, h0, Val.type]
  · simp only at hu; simp [Obj.type, cellType, hu]

theorem ref_of_cell (s : Heap) (this : Obj) (c : Cell) (hc : this.cell = some c) (hl : Live s c) :
    Obj.ref s this = some (cellRef s c) := by
  obtain ⟨data, own⟩ := this
  rcases cell_inv _ _ hc with ⟨hd, rfl⟩ | ⟨b, hd, rfl⟩ | ⟨hd, hr, ⟨h0, rfl⟩ | ⟨_, hu, _, rfl⟩⟩ <;> simp only at hd <;> subst hd
  · rfl
  · obtain ⟨blk, hb, _⟩ := hl.2 b rfl
    simp [Obj.ref, cellRef, hb]
  · simp only at hr; simp [Obj.ref, cellRef, hr]
  · simp only at hr; simp [Obj.ref, cellRef, hr]

theorem notBoxed_type_lt (x : Val) (h : x.isBoxed = false) : x.type < 7 := by
  cases x <;> simp [Val.isBoxed] at h <;> simp [Val.type]

theorem copyPay_type (s : Heap) (p : Pay) : (copyPay s p).2.type = p.type := by
  cases p <;> simp [copyPay, Pay.type]

/-- what the const accessor refers to, copied, is the model's `accessPay` -/
theorem pay_of_cell (ds : DblSem) (s : Heap) (this : Obj) (c : Cell) (k : Nat) (hk : k = 7 ∨ k = 8 ∨ k = 9)
    (hc : this.cell = some c) (hl : Live s c) :
    ∃ p, (if cellType s c = k then Obj.pay s this k else some (emptyOf k)) = some p ∧ copyPay s p = accessPay ds s c k ∧ p.type = k := by
  obtain ⟨data, own⟩ := this
  by_cases h : cellType s c = k
  · rcases cell_inv _ _ hc with ⟨hd, rfl⟩ | ⟨b, hd, rfl⟩ | ⟨hd, hr, ⟨h0, rfl⟩ | ⟨_, hu, hx, rfl⟩⟩ <;> simp only at hd <;> subst hd
    · simp [cellType] at h; omega
    · obtain ⟨blk, hb, _⟩ := hl.2 b rfl
      simp only [cellType, hb] at h
      exact ⟨blk.pay, by simp [Obj.pay, cellType, hb, h], by simp [accessPay, cellType, hb, h], h⟩
    · simp [cellType, Val.type] at h; omega
    · simp only at hx
      have := notBoxed_type_lt _ hx
      simp only [cellType] at h; omega
  · refine ⟨emptyOf k, by simp [h], ?_, ?_⟩
    · rcases hk with rfl | rfl | rfl <;> simp [accessPay, h, emptyOf, emptyPay, copyPay, copyCells, copyMap]
    · rcases hk with rfl | rfl | rfl <;> simp [emptyOf, Pay.type]

theorem gen_toMapConst (ds : DblSem) (s : Heap) (this : Obj) (c : Cell) (hc : this.cell = some c) (hl : Live s c) :
    ∃ p, VariantRep.toMapConst s this = some p ∧ copyPay s p = accessPay ds s c 7 ∧ p.type = 7 := by
  obtain ⟨p, h1, h2⟩ := pay_of_cell ds s this c 7 (by simp) hc hl
  exact ⟨p, by simp only [VariantRep.toMapConst, type_of_cell s this c hc hl]; exact h1, h2⟩

theorem gen_toMapMut (f : Nat) (ds : DblSem) (s : Heap) (this : Obj) (c : Cell) (hc : this.cell = some c) (hl : Live s c) :
    (VariantRep.toMapMut (release f) ds s this).bind (fun r => r.2.cell.map (fun c' => (r.1, c')))
      = accessCell (f + 1) ds s c 7 := by
  obtain ⟨p, hp1, hp2, hp3⟩ := gen_toMapConst ds s this c hc hl
  cases hcp : copyPay s p with
  | mk s1 pc =>
    have hacc : accessPay ds s c 7 = (s1, pc) := by rw [← hp2, hcp]
    have hty : pc.type = 7 := by have := copyPay_type s p; rw [hcp] at this; simp only at this; omega
    simp only [VariantRep.toMapMut, accessCell, type_of_cell s this c hc hl, ref_of_cell s this c hc hl, hp1, hcp, hacc, allocInit,
      hty, Deep.alloc, gen_clear f _ this c hc]
    have hle : (cellRef s c ≤ 1) = ¬ (cellRef s c > 1) := propext (by omega)
    by_cases h1 : cellType s c = 7 <;> by_cases h2 : cellRef s c > 1 <;> simp [h1, h2, hle, hc] <;>
      (cases release (f + 1) _ c <;> simp [Obj.cell])
theorem gen_toListConst (ds : DblSem) (s : Heap) (this : Obj) (c : Cell) (hc : this.cell = some c) (hl : Live s c) :
    ∃ p, VariantRep.toListConst s this = some p ∧ copyPay s p = accessPay ds s c 8 ∧ p.type = 8 := by
  obtain ⟨p, h1, h2⟩ := pay_of_cell ds s this c 8 (by simp) hc hl
  exact ⟨p, by simp only [VariantRep.toListConst, type_of_cell s this c hc hl]; exact h1, h2⟩

theorem gen_toListMut (f : Nat) (ds : DblSem) (s : Heap) (this : Obj) (c : Cell) (hc : this.cell = some c) (hl : Live s c) :
    (VariantRep.toListMut (release f) ds s this).bind (fun r => r.2.cell.map (fun c' => (r.1, c')))
      = accessCell (f + 1) ds s c 8 := by
  obtain ⟨p, hp1, hp2, hp3⟩ := gen_toListConst ds s this c hc hl
  cases hcp : copyPay s p with
  | mk s1 pc =>
    have hacc : accessPay ds s c 8 = (s1, pc) := by rw [← hp2, hcp]
    have hty : pc.type = 8 := by have := copyPay_type s p; rw [hcp] at this; simp only at this; omega
    simp only [VariantRep.toListMut, accessCell, type_of_cell s this c hc hl, ref_of_cell s this c hc hl, hp1, hcp, hacc, allocInit,
      hty, Deep.alloc, gen_clear f _ this c hc]
    have hle : (cellRef s c ≤ 1) = ¬ (cellRef s c > 1) := propext (by omega)
    by_cases h1 : cellType s c = 8 <;> by_cases h2 : cellRef s c > 1 <;> simp [h1, h2, hle, hc] <;>
      (cases release (f + 1) _ c <;> simp [Obj.cell])
theorem gen_toArrayConst (ds : DblSem) (s : Heap) (this : Obj) (c : Cell) (hc : this.cell = some c) (hl : Live s c) :
    ∃ p, VariantRep.toArrayConst s this = some p ∧ copyPay s p = accessPay ds s c 9 ∧ p.type = 9 := by
  obtain ⟨p, h1, h2⟩ := pay_of_cell ds s this c 9 (by simp) hc hl
  exact ⟨p, by simp only [VariantRep.toArrayConst, type_of_cell s this c hc hl]; exact h1, h2⟩

theorem gen_toArrayMut (f : Nat) (ds : DblSem) (s : Heap) (this : Obj) (c : Cell) (hc : this.cell = some c) (hl : Live s c) :
    (VariantRep.toArrayMut (release f) ds s this).bind (fun r => r.2.cell.map (fun c' => (r.1, c')))
      = accessCell (f + 1) ds s c 9 := by
  obtain ⟨p, hp1, hp2, hp3⟩ := gen_toArrayConst ds s this c hc hl
  cases hcp : copyPay s p with
  | mk s1 pc =>
    have hacc : accessPay ds s c 9 = (s1, pc) := by rw [← hp2, hcp]
    have hty : pc.type = 9 := by have := copyPay_type s p; rw [hcp] at this; simp only at this; omega
    simp only [VariantRep.toArrayMut, accessCell, type_of_cell s this c hc hl, ref_of_cell s this c hc hl, hp1, hcp, hacc, allocInit,
      hty, Deep.alloc, gen_clear f _ this c hc]
    have hle : (cellRef s c ≤ 1) = ¬ (cellRef s c > 1) := propext (by omega)
    by_cases h1 : cellType s c = 9 <;> by_cases h2 : cellRef s c > 1 <;> simp [h1, h2, hle, hc] <;>
      (cases release (f + 1) _ c <;> simp [Obj.cell])

theorem accessPay_str (ds : DblSem) (s : Heap) (c : Cell) (hl : Live s c) : accessPay ds s c 10 = (s, .str (cellStr ds s c)) := by
  by_cases h : cellType s c = 10
  · cases c with
    | null => simp [cellType] at h
    | inl x => have := notBoxed_type_lt x (hl.1 x rfl); simp only [cellType] at h; omega
    | ptr b =>
      obtain ⟨blk, hb, _⟩ := hl.2 b rfl
      obtain ⟨r, pay⟩ := blk
      cases pay <;> simp [cellType, hb, Pay.type] at h
      simp [accessPay, cellType, cellStr, hb, Pay.type, copyPay]
  · simp [accessPay, h, emptyPay]

theorem gen_toStringMut (f : Nat) (ds : DblSem) (s : Heap) (this : Obj) (c : Cell) (hc : this.cell = some c) (hl : Live s c) :
    (VariantRep.toStringMut (release f) ds s this).bind (fun r => r.2.cell.map (fun c' => (r.1, c')))
      = accessCell (f + 1) ds s c 10 := by
  have hs : Obj.str ds s this = some (cellStr ds s c) := by simp [Obj.str, hc]
  simp only [VariantRep.toStringMut, accessCell, type_of_cell s this c hc hl, ref_of_cell s this c hc hl, hs, copyPay,
    accessPay_str ds s c hl, allocInit, Pay.type, Deep.alloc, gen_clear f _ this c hc]
  have hle : (cellRef s c ≤ 1) = ¬ (cellRef s c > 1) := propext (by omega)
  by_cases h1 : cellType s c = 10 <;> by_cases h2 : cellRef s c > 1 <;> simp [h1, h2, hle, hc] <;>
    (cases release (f + 1) _ c <;> simp [Obj.cell])

/-! ### the typed `operator=` -/

theorem gen_setBool (f : Nat) (s : Heap) (this : Obj) (c : Cell) (hc : this.cell = some c) (hl : Live s c) (x : Bool) :
    (VariantRep.setBool (release f) s this x).bind (fun r => r.2.cell.map (fun c' => (r.1, c')))
      = if cellType s c ≠ 1 then (release (f + 1) s c).map (fun s1 => (s1, Cell.inl (.bool x))) else some (s, Cell.inl (.bool x)) := by
  simp only [VariantRep.setBool, type_of_cell s this c hc hl, gen_clear f _ this c hc]
  by_cases h : cellType s c = 1
  · obtain ⟨data, own⟩ := this
    rcases cell_inv _ _ hc with ⟨hd, rfl⟩ | ⟨b, hd, rfl⟩ | ⟨hd, hr, ⟨h0, rfl⟩ | ⟨hne, hu, hx, rfl⟩⟩ <;> simp only at hd <;> subst hd
    · simp [cellType] at h
    · obtain ⟨blk, hb, _⟩ := hl.2 b rfl
      have := pay_type_cases blk.pay
      simp only [cellType, hb] at h; omega
    · simp [cellType, Val.type] at h
    · simp only [cellType] at h; simp only at hu hr
      have ht : own.type = 1 := by omega
      simp only [cellType, h, ne_eq, not_true_eq_false, if_false]
      simp [Obj.cell, hr, ht, Val.type, Val.isBoxed]
  · simp only [h, ne_eq, not_false_eq_true, if_true]
    cases release (f + 1) s c <;> simp [Obj.cell, Val.type, Val.isBoxed]

theorem gen_setDouble (f : Nat) (s : Heap) (this : Obj) (c : Cell) (hc : this.cell = some c) (hl : Live s c) (x : Nat) :
    (VariantRep.setDouble (release f) s this x).bind (fun r => r.2.cell.map (fun c' => (r.1, c')))
      = if cellType s c ≠ 2 then (release (f + 1) s c).map (fun s1 => (s1, Cell.inl (.dbl x))) else some (s, Cell.inl (.dbl x)) := by
  simp only [VariantRep.setDouble, type_of_cell s this c hc hl, gen_clear f _ this c hc]
  by_cases h : cellType s c = 2
  · obtain ⟨data, own⟩ := this
    rcases cell_inv _ _ hc with ⟨hd, rfl⟩ | ⟨b, hd, rfl⟩ | ⟨hd, hr, ⟨h0, rfl⟩ | ⟨hne, hu, hx, rfl⟩⟩ <;> simp only at hd <;> subst hd
    · simp [cellType] at h
    · obtain ⟨blk, hb, _⟩ := hl.2 b rfl
      have := pay_type_cases blk.pay
      simp only [cellType, hb] at h; omega
    · simp [cellType, Val.type] at h
    · simp only [cellType] at h; simp only at hu hr
      have ht : own.type = 2 := by omega
      simp only [cellType, h, ne_eq, not_true_eq_false, if_false]
      simp [Obj.cell, hr, ht, Val.type, Val.isBoxed]
  · simp only [h, ne_eq, not_false_eq_true, if_true]
    cases release (f + 1) s c <;> simp [Obj.cell, Val.type, Val.isBoxed]

theorem gen_setInt (f : Nat) (s : Heap) (this : Obj) (c : Cell) (hc : this.cell = some c) (hl : Live s c) (x : Int) :
    (VariantRep.setInt (release f) s this x).bind (fun r => r.2.cell.map (fun c' => (r.1, c')))
      = if cellType s c ≠ 3 then (release (f + 1) s c).map (fun s1 => (s1, Cell.inl (.int x))) else some (s, Cell.inl (.int x)) := by
  simp only [VariantRep.setInt, type_of_cell s this c hc hl, gen_clear f _ this c hc]
  by_cases h : cellType s c = 3
  · obtain ⟨data, own⟩ := this
    rcases cell_inv _ _ hc with ⟨hd, rfl⟩ | ⟨b, hd, rfl⟩ | ⟨hd, hr, ⟨h0, rfl⟩ | ⟨hne, hu, hx, rfl⟩⟩ <;> simp only at hd <;> subst hd
    · simp [cellType] at h
    · obtain ⟨blk, hb, _⟩ := hl.2 b rfl
      have := pay_type_cases blk.pay
      simp only [cellType, hb] at h; omega
    · simp [cellType, Val.type] at h
    · simp only [cellType] at h; simp only at hu hr
      have ht : own.type = 3 := by omega
      simp only [cellType, h, ne_eq, not_true_eq_false, if_false]
      simp [Obj.cell, hr, ht, Val.type, Val.isBoxed]
  · simp only [h, ne_eq, not_false_eq_true, if_true]
    cases release (f + 1) s c <;> simp [Obj.cell, Val.type, Val.isBoxed]

theorem gen_setUInt (f : Nat) (s : Heap) (this : Obj) (c : Cell) (hc : this.cell = some c) (hl : Live s c) (x : Int) :
    (VariantRep.setUInt (release f) s this x).bind (fun r => r.2.cell.map (fun c' => (r.1, c')))
      = if cellType s c ≠ 4 then (release (f + 1) s c).map (fun s1 => (s1, Cell.inl (.uint x))) else some (s, Cell.inl (.uint x)) := by
  simp only [VariantRep.setUInt, type_of_cell s this c hc hl, gen_clear f _ this c hc]
  by_cases h : cellType s c = 4
  · obtain ⟨data, own⟩ := this
    rcases cell_inv _ _ hc with ⟨hd, rfl⟩ | ⟨b, hd, rfl⟩ | ⟨hd, hr, ⟨h0, rfl⟩ | ⟨hne, hu, hx, rfl⟩⟩ <;> simp only at hd <;> subst hd
    · simp [cellType] at h
    · obtain ⟨blk, hb, _⟩ := hl.2 b rfl
      have := pay_type_cases blk.pay
      simp only [cellType, hb] at h; omega
    · simp [cellType, Val.type] at h
    · simp only [cellType] at h; simp only at hu hr
      have ht : own.type = 4 := by omega
      simp only [cellType, h, ne_eq, not_true_eq_false, if_false]
      simp [Obj.cell, hr, ht, Val.type, Val.isBoxed]
  · simp only [h, ne_eq, not_false_eq_true, if_true]
    cases release (f + 1) s c <;> simp [Obj.cell, Val.type, Val.isBoxed]

theorem gen_setInt64 (f : Nat) (s : Heap) (this : Obj) (c : Cell) (hc : this.cell = some c) (hl : Live s c) (x : Int) :
    (VariantRep.setInt64 (release f) s this x).bind (fun r => r.2.cell.map (fun c' => (r.1, c')))
      = if cellType s c ≠ 5 then (release (f + 1) s c).map (fun s1 => (s1, Cell.inl (.int64 x))) else some (s, Cell.inl (.int64 x)) := by
  simp only [VariantRep.setInt64, type_of_cell s this c hc hl, gen_clear f _ this c hc]
  by_cases h : cellType s c = 5
  · obtain ⟨data, own⟩ := this
    rcases cell_inv _ _ hc with ⟨hd, rfl⟩ | ⟨b, hd, rfl⟩ | ⟨hd, hr, ⟨h0, rfl⟩ | ⟨hne, hu, hx, rfl⟩⟩ <;> simp only at hd <;> subst hd
    · simp [cellType] at h
    · obtain ⟨blk, hb, _⟩ := hl.2 b rfl
      have := pay_type_cases blk.pay
      simp only [cellType, hb] at h; omega
    · simp [cellType, Val.type] at h
    · simp only [cellType] at h; simp only at hu hr
      have ht : own.type = 5 := by omega
      simp only [cellType, h, ne_eq, not_true_eq_false, if_false]
      simp [Obj.cell, hr, ht, Val.type, Val.isBoxed]
  · simp only [h, ne_eq, not_false_eq_true, if_true]
    cases release (f + 1) s c <;> simp [Obj.cell, Val.type, Val.isBoxed]

theorem gen_setUInt64 (f : Nat) (s : Heap) (this : Obj) (c : Cell) (hc : this.cell = some c) (hl : Live s c) (x : Int) :
    (VariantRep.setUInt64 (release f) s this x).bind (fun r => r.2.cell.map (fun c' => (r.1, c')))
      = if cellType s c ≠ 6 then (release (f + 1) s c).map (fun s1 => (s1, Cell.inl (.uint64 x))) else some (s, Cell.inl (.uint64 x)) := by
  simp only [VariantRep.setUInt64, type_of_cell s this c hc hl, gen_clear f _ this c hc]
  by_cases h : cellType s c = 6
  · obtain ⟨data, own⟩ := this
    rcases cell_inv _ _ hc with ⟨hd, rfl⟩ | ⟨b, hd, rfl⟩ | ⟨hd, hr, ⟨h0, rfl⟩ | ⟨hne, hu, hx, rfl⟩⟩ <;> simp only at hd <;> subst hd
    · simp [cellType] at h
    · obtain ⟨blk, hb, _⟩ := hl.2 b rfl
      have := pay_type_cases blk.pay
      simp only [cellType, hb] at h; omega
    · simp [cellType, Val.type] at h
    · simp only [cellType] at h; simp only at hu hr
      have ht : own.type = 6 := by omega
      simp only [cellType, h, ne_eq, not_true_eq_false, if_false]
      simp [Obj.cell, hr, ht, Val.type, Val.isBoxed]
  · simp only [h, ne_eq, not_false_eq_true, if_true]
    cases release (f + 1) s c <;> simp [Obj.cell, Val.type, Val.isBoxed]

/-- the in-place branch of `setBoxedCell` at a given fuel for the element destructors -/
def inPlaceAt (f : Nat) (s : Heap) (c : Cell) (p : Pay) : Option (Heap × Cell) :=
  match c with
  | .ptr b => (match s.heap b with
    | some blk => (releaseAll f (setPay (copyPay s p).1 b (copyPay s p).2) blk.pay.cells).map (fun s2 => (s2, Cell.ptr b))
    | none => none)
  | _ => none

/-- the translated `operator=(const Map&)`: the clone branch is `setBoxedCell`; the in-place branch is its in-place branch with
    the element destructors one level of fuel down (`releaseAll f`; the model says `f + 1`, more than needed) -/
theorem gen_setMap (f : Nat) (s : Heap) (this : Obj) (c : Cell) (hc : this.cell = some c) (hl : Live s c) (p : Pay) (hp : p.type = 7) :
    (VariantRep.setMap (release f) s this p).bind (fun r => r.2.cell.map (fun c' => (r.1, c')))
      = if cellType s c ≠ 7 ∨ cellRef s c > 1 then setBoxedCell (f + 1) s c p
        else inPlaceAt f s c p := by
  have hcl : cellType s c ≠ 7 ∨ cellRef s c > 1 → (VariantRep.setMap (release f) s this p).bind (fun r => r.2.cell.map (fun c' => (r.1, c')))
      = setBoxedCell (f + 1) s c p := by
    intro hor
    have hle : (cellRef s c ≤ 1) = ¬ (cellRef s c > 1) := propext (by omega)
    have hif : (cellType s c ≠ p.type ∨ cellRef s c > 1) := by rw [hp]; exact hor
    simp only [VariantRep.setMap, setBoxedCell, type_of_cell s this c hc hl, ref_of_cell s this c hc hl, gen_clear f _ this c hc, hif, if_true]
    cases hrel : release (f + 1) s c with
    | none => by_cases h1 : cellType s c = 7 <;> by_cases h2 : cellRef s c > 1 <;> simp [h1, h2, hle] at hor ⊢
    | some s1 =>
      cases hcp : copyPay s1 p with
      | mk s2 pc =>
        have hty : pc.type = 7 := by have := copyPay_type s1 p; rw [hcp] at this; simp only at this; omega
        by_cases h1 : cellType s c = 7 <;> by_cases h2 : cellRef s c > 1 <;> simp [h1, h2, hle, hcp, allocInit, hty, Deep.alloc, Obj.cell] at hor ⊢
  by_cases hor : cellType s c ≠ 7 ∨ cellRef s c > 1
  · rw [if_pos hor]; exact hcl hor
  · rw [if_neg hor]
    unfold inPlaceAt
    have h1 : cellType s c = 7 := by by_cases h : cellType s c = 7; exact h; exact absurd (Or.inl h) hor
    have h2 : ¬ cellRef s c > 1 := fun h => hor (Or.inr h)
    obtain ⟨data, own⟩ := this
    rcases cell_inv _ _ hc with ⟨hd, rfl⟩ | ⟨b, hd, rfl⟩ | ⟨hd, hr, ⟨h0, rfl⟩ | ⟨hne, hu, hx, rfl⟩⟩ <;> simp only at hd <;> subst hd
    · simp [cellType] at h1
    · obtain ⟨blk, hb, _⟩ := hl.2 b rfl
      have hbt : blk.pay.type = 7 := by simpa [cellType, hb] using h1
      have hbr : ¬ blk.ref > 1 := by simpa [cellRef, hb] using h2
      have hbr' : blk.ref ≤ 1 := by omega
      simp only [VariantRep.setMap, Obj.type, Obj.ref, hb, Option.map_some, hbt, ne_eq, not_true_eq_false, if_false, if_true, hbr, hbr', and_self, not_true_eq_false,
        Obj.assignPay, hp, and_self, if_true, destroyAll, releaseAll]
      cases hcp : copyPay s p with
      | mk s1 pc =>
        simp only []
        cases List.foldlM (fun s' c' => release f s' c') (setPay s1 b pc) blk.pay.cells <;> simp [Obj.cell]
    · simp [cellType, Val.type] at h1
    · have := notBoxed_type_lt _ hx; simp only [cellType] at h1; simp only at this; omega

/-- the translated `operator=(const List&)`: the clone branch is `setBoxedCell`; the in-place branch is its in-place branch with
    the element destructors one level of fuel down (`releaseAll f`; the model says `f + 1`, more than needed) -/
theorem gen_setList (f : Nat) (s : Heap) (this : Obj) (c : Cell) (hc : this.cell = some c) (hl : Live s c) (p : Pay) (hp : p.type = 8) :
    (VariantRep.setList (release f) s this p).bind (fun r => r.2.cell.map (fun c' => (r.1, c')))
      = if cellType s c ≠ 8 ∨ cellRef s c > 1 then setBoxedCell (f + 1) s c p
        else inPlaceAt f s c p := by
  have hcl : cellType s c ≠ 8 ∨ cellRef s c > 1 → (VariantRep.setList (release f) s this p).bind (fun r => r.2.cell.map (fun c' => (r.1, c')))
      = setBoxedCell (f + 1) s c p := by
    intro hor
    have hle : (cellRef s c ≤ 1) = ¬ (cellRef s c > 1) := propext (by omega)
    have hif : (cellType s c ≠ p.type ∨ cellRef s c > 1) := by rw [hp]; exact hor
    simp only [VariantRep.setList, setBoxedCell, type_of_cell s this c hc hl, ref_of_cell s this c hc hl, gen_clear f _ this c hc, hif, if_true]
    cases hrel : release (f + 1) s c with
    | none => by_cases h1 : cellType s c = 8 <;> by_cases h2 : cellRef s c > 1 <;> simp [h1, h2, hle] at hor ⊢
    | some s1 =>
      cases hcp : copyPay s1 p with
      | mk s2 pc =>
        have hty : pc.type = 8 := by have := copyPay_type s1 p; rw [hcp] at this; simp only at this; omega
        by_cases h1 : cellType s c = 8 <;> by_cases h2 : cellRef s c > 1 <;> simp [h1, h2, hle, hcp, allocInit, hty, Deep.alloc, Obj.cell] at hor ⊢
  by_cases hor : cellType s c ≠ 8 ∨ cellRef s c > 1
  · rw [if_pos hor]; exact hcl hor
  · rw [if_neg hor]
    unfold inPlaceAt
    have h1 : cellType s c = 8 := by by_cases h : cellType s c = 8; exact h; exact absurd (Or.inl h) hor
    have h2 : ¬ cellRef s c > 1 := fun h => hor (Or.inr h)
    obtain ⟨data, own⟩ := this
    rcases cell_inv _ _ hc with ⟨hd, rfl⟩ | ⟨b, hd, rfl⟩ | ⟨hd, hr, ⟨h0, rfl⟩ | ⟨hne, hu, hx, rfl⟩⟩ <;> simp only at hd <;> subst hd
    · simp [cellType] at h1
    · obtain ⟨blk, hb, _⟩ := hl.2 b rfl
      have hbt : blk.pay.type = 8 := by simpa [cellType, hb] using h1
      have hbr : ¬ blk.ref > 1 := by simpa [cellRef, hb] using h2
      have hbr' : blk.ref ≤ 1 := by omega
      simp only [VariantRep.setList, Obj.type, Obj.ref, hb, Option.map_some, hbt, ne_eq, not_true_eq_false, if_false, if_true, hbr, hbr', and_self, not_true_eq_false,
        Obj.assignPay, hp, and_self, if_true, destroyAll, releaseAll]
      cases hcp : copyPay s p with
      | mk s1 pc =>
        simp only []
        cases List.foldlM (fun s' c' => release f s' c') (setPay s1 b pc) blk.pay.cells <;> simp [Obj.cell]
    · simp [cellType, Val.type] at h1
    · have := notBoxed_type_lt _ hx; simp only [cellType] at h1; simp only at this; omega

/-- the translated `operator=(const Array&)`: the clone branch is `setBoxedCell`; the in-place branch is its in-place branch with
    the element destructors one level of fuel down (`releaseAll f`; the model says `f + 1`, more than needed) -/
theorem gen_setArray (f : Nat) (s : Heap) (this : Obj) (c : Cell) (hc : this.cell = some c) (hl : Live s c) (p : Pay) (hp : p.type = 9) :
    (VariantRep.setArray (release f) s this p).bind (fun r => r.2.cell.map (fun c' => (r.1, c')))
      = if cellType s c ≠ 9 ∨ cellRef s c > 1 then setBoxedCell (f + 1) s c p
        else inPlaceAt f s c p := by
  have hcl : cellType s c ≠ 9 ∨ cellRef s c > 1 → (VariantRep.setArray (release f) s this p).bind (fun r => r.2.cell.map (fun c' => (r.1, c')))
      = setBoxedCell (f + 1) s c p := by
    intro hor
    have hle : (cellRef s c ≤ 1) = ¬ (cellRef s c > 1) := propext (by omega)
    have hif : (cellType s c ≠ p.type ∨ cellRef s c > 1) := by rw [hp]; exact hor
    simp only [VariantRep.setArray, setBoxedCell, type_of_cell s this c hc hl, ref_of_cell s this c hc hl, gen_clear f _ this c hc, hif, if_true]
    cases hrel : release (f + 1) s c with
    | none => by_cases h1 : cellType s c = 9 <;> by_cases h2 : cellRef s c > 1 <;> simp [h1, h2, hle] at hor ⊢
    | some s1 =>
      cases hcp : copyPay s1 p with
      | mk s2 pc =>
        have hty : pc.type = 9 := by have := copyPay_type s1 p; rw [hcp] at this; simp only at this; omega
        by_cases h1 : cellType s c = 9 <;> by_cases h2 : cellRef s c > 1 <;> simp [h1, h2, hle, hcp, allocInit, hty, Deep.alloc, Obj.cell] at hor ⊢
  by_cases hor : cellType s c ≠ 9 ∨ cellRef s c > 1
  · rw [if_pos hor]; exact hcl hor
  · rw [if_neg hor]
    unfold inPlaceAt
    have h1 : cellType s c = 9 := by by_cases h : cellType s c = 9; exact h; exact absurd (Or.inl h) hor
    have h2 : ¬ cellRef s c > 1 := fun h => hor (Or.inr h)
    obtain ⟨data, own⟩ := this
    rcases cell_inv _ _ hc with ⟨hd, rfl⟩ | ⟨b, hd, rfl⟩ | ⟨hd, hr, ⟨h0, rfl⟩ | ⟨hne, hu, hx, rfl⟩⟩ <;> simp only at hd <;> subst hd
    · simp [cellType] at h1
    · obtain ⟨blk, hb, _⟩ := hl.2 b rfl
      have hbt : blk.pay.type = 9 := by simpa [cellType, hb] using h1
      have hbr : ¬ blk.ref > 1 := by simpa [cellRef, hb] using h2
      have hbr' : blk.ref ≤ 1 := by omega
      simp only [VariantRep.setArray, Obj.type, Obj.ref, hb, Option.map_some, hbt, ne_eq, not_true_eq_false, if_false, if_true, hbr, hbr', and_self, not_true_eq_false,
        Obj.assignPay, hp, and_self, if_true, destroyAll, releaseAll]
      cases hcp : copyPay s p with
      | mk s1 pc =>
        simp only []
        cases List.foldlM (fun s' c' => release f s' c') (setPay s1 b pc) blk.pay.cells <;> simp [Obj.cell]
    · simp [cellType, Val.type] at h1
    · have := notBoxed_type_lt _ hx; simp only [cellType] at h1; simp only at this; omega

/-- the translated `operator=(const String&)`: the clone branch is `setBoxedCell`; the in-place branch is its in-place branch with
    the element destructors one level of fuel down (`releaseAll f`; the model says `f + 1`, more than needed) -/
theorem gen_setString (f : Nat) (s : Heap) (this : Obj) (c : Cell) (hc : this.cell = some c) (hl : Live s c) (p : Pay) (hp : p.type = 10) :
    (VariantRep.setString (release f) s this p).bind (fun r => r.2.cell.map (fun c' => (r.1, c')))
      = if cellType s c ≠ 10 ∨ cellRef s c > 1 then setBoxedCell (f + 1) s c p
        else inPlaceAt f s c p := by
  have hcl : cellType s c ≠ 10 ∨ cellRef s c > 1 → (VariantRep.setString (release f) s this p).bind (fun r => r.2.cell.map (fun c' => (r.1, c')))
      = setBoxedCell (f + 1) s c p := by
    intro hor
    have hle : (cellRef s c ≤ 1) = ¬ (cellRef s c > 1) := propext (by omega)
    have hif : (cellType s c ≠ p.type ∨ cellRef s c > 1) := by rw [hp]; exact hor
    simp only [VariantRep.setString, setBoxedCell, type_of_cell s this c hc hl, ref_of_cell s this c hc hl, gen_clear f _ this c hc, hif, if_true]
    cases hrel : release (f + 1) s c with
    | none => by_cases h1 : cellType s c = 10 <;> by_cases h2 : cellRef s c > 1 <;> simp [h1, h2, hle] at hor ⊢
    | some s1 =>
      cases hcp : copyPay s1 p with
      | mk s2 pc =>
        have hty : pc.type = 10 := by have := copyPay_type s1 p; rw [hcp] at this; simp only at this; omega
        by_cases h1 : cellType s c = 10 <;> by_cases h2 : cellRef s c > 1 <;> simp [h1, h2, hle, hcp, allocInit, hty, Deep.alloc, Obj.cell] at hor ⊢
  by_cases hor : cellType s c ≠ 10 ∨ cellRef s c > 1
  · rw [if_pos hor]; exact hcl hor
  · rw [if_neg hor]
    unfold inPlaceAt
    have h1 : cellType s c = 10 := by by_cases h : cellType s c = 10; exact h; exact absurd (Or.inl h) hor
    have h2 : ¬ cellRef s c > 1 := fun h => hor (Or.inr h)
    obtain ⟨data, own⟩ := this
    rcases cell_inv _ _ hc with ⟨hd, rfl⟩ | ⟨b, hd, rfl⟩ | ⟨hd, hr, ⟨h0, rfl⟩ | ⟨hne, hu, hx, rfl⟩⟩ <;> simp only at hd <;> subst hd
    · simp [cellType] at h1
    · obtain ⟨blk, hb, _⟩ := hl.2 b rfl
      have hbt : blk.pay.type = 10 := by simpa [cellType, hb] using h1
      have hbr : ¬ blk.ref > 1 := by simpa [cellRef, hb] using h2
      have hbr' : blk.ref ≤ 1 := by omega
      simp only [VariantRep.setString, Obj.type, Obj.ref, hb, Option.map_some, hbt, ne_eq, not_true_eq_false, if_false, if_true, hbr, hbr', and_self, not_true_eq_false,
        Obj.assignPay, hp, and_self, if_true, destroyAll, releaseAll]
      cases hcp : copyPay s p with
      | mk s1 pc =>
        simp only []
        cases List.foldlM (fun s' c' => release f s' c') (setPay s1 b pc) blk.pay.cells <;> simp [Obj.cell]
    · simp [cellType, Val.type] at h1
    · have := notBoxed_type_lt _ hx; simp only [cellType] at h1; simp only at this; omega

/-! ### the same statements against the functions the driver runs (`leafOp`, `assignFrom`, `dstep`'s copy) -/

/-- `mut … clear` / `~Variant()`: the translated `clear()` is the leaf operation `.clear` of the deep model -/
theorem gen_clear_leaf (f : Nat) (ds : DblSem) (rd : Nat → Cell) (s : Heap) (this : Obj) (c : Cell) (hc : this.cell = some c) :
    (VariantRep.clear (release f) s this).bind (fun r => r.2.cell.map (fun c' => (r.1, c')))
      = leafOp (f + 1) ds rd s c .clear := by
  rw [gen_clear f s this c hc]
  simp only [leafOp]
  cases release (f + 1) s c <;> simp [Obj.cell]

/-- `mut … touch k`: the translated mutable accessors are the leaf operation `.touch` -/
theorem gen_touch_leaf (f : Nat) (ds : DblSem) (rd : Nat → Cell) (s : Heap) (this : Obj) (c : Cell) (hc : this.cell = some c) (hl : Live s c) :
    (VariantRep.toMapMut (release f) ds s this).bind (fun r => r.2.cell.map (fun c' => (r.1, c'))) = leafOp (f + 1) ds rd s c (.touch 7) ∧
    (VariantRep.toListMut (release f) ds s this).bind (fun r => r.2.cell.map (fun c' => (r.1, c'))) = leafOp (f + 1) ds rd s c (.touch 8) ∧
    (VariantRep.toArrayMut (release f) ds s this).bind (fun r => r.2.cell.map (fun c' => (r.1, c'))) = leafOp (f + 1) ds rd s c (.touch 9) ∧
    (VariantRep.toStringMut (release f) ds s this).bind (fun r => r.2.cell.map (fun c' => (r.1, c'))) = leafOp (f + 1) ds rd s c (.touch 10) :=
  ⟨gen_toMapMut f ds s this c hc hl, gen_toListMut f ds s this c hc hl, gen_toArrayMut f ds s this c hc hl, gen_toStringMut f ds s this c hc hl⟩

/-- `mut … set <scalar literal>`: the translated scalar `operator=` are the leaf operation `.set (.lit x)` -/
theorem gen_set_scalar_leaf (f : Nat) (ds : DblSem) (rd : Nat → Cell) (s : Heap) (this : Obj) (c : Cell) (hc : this.cell = some c) (hl : Live s c) :
    (∀ x, (VariantRep.setBool (release f) s this x).bind (fun r => r.2.cell.map (fun c' => (r.1, c'))) = leafOp (f + 1) ds rd s c (.set (.lit (.bool x)))) ∧
    (∀ x, (VariantRep.setDouble (release f) s this x).bind (fun r => r.2.cell.map (fun c' => (r.1, c'))) = leafOp (f + 1) ds rd s c (.set (.lit (.dbl x)))) ∧
    (∀ x, (VariantRep.setInt (release f) s this x).bind (fun r => r.2.cell.map (fun c' => (r.1, c'))) = leafOp (f + 1) ds rd s c (.set (.lit (.int x)))) ∧
    (∀ x, (VariantRep.setUInt (release f) s this x).bind (fun r => r.2.cell.map (fun c' => (r.1, c'))) = leafOp (f + 1) ds rd s c (.set (.lit (.uint x)))) ∧
    (∀ x, (VariantRep.setInt64 (release f) s this x).bind (fun r => r.2.cell.map (fun c' => (r.1, c'))) = leafOp (f + 1) ds rd s c (.set (.lit (.int64 x)))) ∧
    (∀ x, (VariantRep.setUInt64 (release f) s this x).bind (fun r => r.2.cell.map (fun c' => (r.1, c'))) = leafOp (f + 1) ds rd s c (.set (.lit (.uint64 x)))) := by
  refine ⟨fun x => ?_, fun x => ?_, fun x => ?_, fun x => ?_, fun x => ?_, fun x => ?_⟩
  · rw [gen_setBool f s this c hc hl x]; by_cases h : cellType s c = 1 <;> simp [leafOp, Val.isBoxed, Val.type, h]
  · rw [gen_setDouble f s this c hc hl x]; by_cases h : cellType s c = 2 <;> simp [leafOp, Val.isBoxed, Val.type, h]
  · rw [gen_setInt f s this c hc hl x]; by_cases h : cellType s c = 3 <;> simp [leafOp, Val.isBoxed, Val.type, h]
  · rw [gen_setUInt f s this c hc hl x]; by_cases h : cellType s c = 4 <;> simp [leafOp, Val.isBoxed, Val.type, h]
  · rw [gen_setInt64 f s this c hc hl x]; by_cases h : cellType s c = 5 <;> simp [leafOp, Val.isBoxed, Val.type, h]
  · rw [gen_setUInt64 f s this c hc hl x]; by_cases h : cellType s c = 6 <;> simp [leafOp, Val.isBoxed, Val.type, h]

/-- `v = w` / `get`: the translated `operator=(const Variant&)` is `assignFrom` (the variable's cell afterwards, up to the
    representation of null) -/
theorem gen_assignFrom (f : Nat) (s : DState) (v : Nat) (this : Obj) (other : Cell) (hc : this.cell = some (s.vars v)) (hl : Live s.h other) :
    (VariantRep.assign (release f) s.h this false other).bind (fun r => r.2.cell.map (fun c' => (r.1, norm c')))
      = (assignFrom (f + 1) s v other).map (fun s' => (s'.h, norm (s'.vars v))) := by
  rw [(gen_assign f s.h this (s.vars v) other hc hl).2]
  simp only [assignFrom]
  cases release (f + 1) (copyCell s.h other).1 (s.vars v) <;> simp [upd]

/-! ### destructor, constructors, `operator!=`, the static null descriptor -/

theorem gen_destruct (f : Nat) (s : Heap) (this : Obj) (c : Cell) (hc : this.cell = some c) :
    VariantRep.destruct (release f) s this
      = (release (f + 1) s c).map (fun s' => (s', ({ this with data := .nullData } : Obj))) := by
  simp only [VariantRep.destruct, gen_clear f s this c hc]
  cases release (f + 1) s c <;> rfl

/-- `Variant()` on raw storage: the null cell -/
theorem gen_ctorNull (s : Heap) (this : Obj) :
    (VariantRep.ctorNull s this).bind (fun r => r.2.cell.map (fun c' => (r.1, c'))) = some (s, Cell.null) := by
  simp [VariantRep.ctorNull, Obj.cell]

/-- the scalar converting constructors on raw storage (any content of `this`) = the typed assignment to a fresh null object -/
theorem gen_ctor_scalar (ds : DblSem) (rd : Nat → Cell) (s : Heap) (this : Obj) :
    (∀ x, (VariantRep.ctorBool s this x).bind (fun r => r.2.cell.map (fun c' => (r.1, c'))) = leafOp 1 ds rd s .null (.set (.lit (.bool x)))) ∧
    (∀ x, (VariantRep.ctorDouble s this x).bind (fun r => r.2.cell.map (fun c' => (r.1, c'))) = leafOp 1 ds rd s .null (.set (.lit (.dbl x)))) ∧
    (∀ x, (VariantRep.ctorInt s this x).bind (fun r => r.2.cell.map (fun c' => (r.1, c'))) = leafOp 1 ds rd s .null (.set (.lit (.int x)))) ∧
    (∀ x, (VariantRep.ctorUInt s this x).bind (fun r => r.2.cell.map (fun c' => (r.1, c'))) = leafOp 1 ds rd s .null (.set (.lit (.uint x)))) ∧
    (∀ x, (VariantRep.ctorInt64 s this x).bind (fun r => r.2.cell.map (fun c' => (r.1, c'))) = leafOp 1 ds rd s .null (.set (.lit (.int64 x)))) ∧
    (∀ x, (VariantRep.ctorUInt64 s this x).bind (fun r => r.2.cell.map (fun c' => (r.1, c'))) = leafOp 1 ds rd s .null (.set (.lit (.uint64 x)))) := by
  refine ⟨fun x => ?_, fun x => ?_, fun x => ?_, fun x => ?_, fun x => ?_, fun x => ?_⟩ <;>
    simp [VariantRep.ctorBool, VariantRep.ctorDouble, VariantRep.ctorInt, VariantRep.ctorUInt, VariantRep.ctorInt64, VariantRep.ctorUInt64,
      leafOp, Obj.cell, Val.type, Val.isBoxed, cellType, release]

/-- …and their plain value: an inline descriptor holding the argument, heap untouched -/
theorem gen_ctor_scalar_value (s : Heap) (this : Obj) (b : Bool) (d : Nat) (i : Int) :
    (VariantRep.ctorBool s this b).bind (fun r => r.2.cell.map (fun c' => (r.1, c'))) = some (s, Cell.inl (.bool b)) ∧
    (VariantRep.ctorDouble s this d).bind (fun r => r.2.cell.map (fun c' => (r.1, c'))) = some (s, Cell.inl (.dbl d)) ∧
    (VariantRep.ctorInt s this i).bind (fun r => r.2.cell.map (fun c' => (r.1, c'))) = some (s, Cell.inl (.int i)) ∧
    (VariantRep.ctorUInt s this i).bind (fun r => r.2.cell.map (fun c' => (r.1, c'))) = some (s, Cell.inl (.uint i)) ∧
    (VariantRep.ctorInt64 s this i).bind (fun r => r.2.cell.map (fun c' => (r.1, c'))) = some (s, Cell.inl (.int64 i)) ∧
    (VariantRep.ctorUInt64 s this i).bind (fun r => r.2.cell.map (fun c' => (r.1, c'))) = some (s, Cell.inl (.uint64 i)) := by
  simp [VariantRep.ctorBool, VariantRep.ctorDouble, VariantRep.ctorInt, VariantRep.ctorUInt, VariantRep.ctorInt64, VariantRep.ctorUInt64,
    Obj.cell, Val.type, Val.isBoxed]

/-- the boxed converting constructors = the typed assignment of the same payload to a fresh null object: payload copied, new block, `ref = 1` -/
theorem gen_ctor_boxed (s : Heap) (this : Obj) (p : Pay) :
    (p.type = 7 → (VariantRep.ctorMap s this p).bind (fun r => r.2.cell.map (fun c' => (r.1, c'))) = setBoxedCell 1 s .null p) ∧
    (p.type = 8 → (VariantRep.ctorList s this p).bind (fun r => r.2.cell.map (fun c' => (r.1, c'))) = setBoxedCell 1 s .null p) ∧
    (p.type = 9 → (VariantRep.ctorArray s this p).bind (fun r => r.2.cell.map (fun c' => (r.1, c'))) = setBoxedCell 1 s .null p) ∧
    (p.type = 10 → (VariantRep.ctorString s this p).bind (fun r => r.2.cell.map (fun c' => (r.1, c'))) = setBoxedCell 1 s .null p) := by
  have hty : (copyPay s p).2.type = p.type := copyPay_type s p
  refine ⟨fun hp => ?_, fun hp => ?_, fun hp => ?_, fun hp => ?_⟩ <;>
    (cases hcp : copyPay s p with
     | mk s1 pc =>
       rw [hcp] at hty; simp only at hty
       simp [VariantRep.ctorMap, VariantRep.ctorList, VariantRep.ctorArray, VariantRep.ctorString, setBoxedCell, cellType, hp, release, hcp,
         allocInit, hty, Deep.alloc, Obj.cell])

/-- the translated `operator!=` is the negation of the value model's `veq` -/
theorem gen_ne (ds : DblSem) (v o : Val) : VariantCoerce.ne ds (veq ds) (veq ds) v o = (veq ds v o).map (fun b => !b) := by
  simp only [VariantCoerce.ne, gen_eq]

/-- `Variant::nullData` (src/Variant.cpp + `NullData()`): what the vocabulary reads through a pointer to the sentinel and what the
    deep model says about a null cell are the constants the constructor stores -/
theorem gen_nullData (s : Heap) (d : Desc) :
    Obj.type s ⟨.nullData, d⟩ = some VariantRep.nullDataType ∧ Obj.ref s ⟨.nullData, d⟩ = some VariantRep.nullDataRef ∧
    descOf s .null = some ⟨VariantRep.nullDataType, VariantRep.nullDataRef, .null⟩ ∧
    cellType s .null = VariantRep.nullDataType ∧ cellRef s .null = VariantRep.nullDataRef := by
  simp [Obj.type, Obj.ref, descOf, cellType, cellRef, VariantRep.nullDataType, VariantRep.nullDataRef]

/-! ### fuel: more fuel gives the same result -/

theorem foldlM_sub {f g : Heap → Cell → Option Heap} (h : ∀ s c s', f s c = some s' → g s c = some s') :
    ∀ (cs : List Cell) (s s' : Heap), cs.foldlM f s = some s' → cs.foldlM g s = some s'
  | [], s, s', hs => by simpa using hs
  | c :: t, s, s', hs => by
    simp only [List.foldlM_cons] at hs ⊢
    cases hc : f s c with
    | none => simp [hc] at hs
    | some s1 =>
      simp only [hc, Option.bind_eq_bind, Option.bind_some] at hs
      simp only [h s c s1 hc, Option.bind_eq_bind, Option.bind_some]
      exact foldlM_sub h t s1 s' hs

theorem release_mono : ∀ (f : Nat) (s : Heap) (c : Cell) (s' : Heap), release f s c = some s' → release (f + 1) s c = some s'
  | 0, _, _, _, h => by simp [release] at h
  | f + 1, s, c, s', h => by
    cases c with
    | null => simpa [release] using h
    | inl x => simpa [release] using h
    | ptr b =>
      simp only [release] at h ⊢
      cases hb : s.heap b with
      | none => simp [hb] at h
      | some blk =>
        simp only [hb] at h ⊢
        by_cases h1 : blk.ref = 1
        · simp only [h1, if_true] at h ⊢
          exact foldlM_sub (release_mono f) _ _ _ h
        · simp only [h1, if_false] at h ⊢
          exact h

theorem release_mono_le (f g : Nat) (hfg : f ≤ g) (s : Heap) (c : Cell) (s' : Heap) (h : release f s c = some s') : release g s c = some s' := by
  induction hfg with
  | refl => exact h
  | step _ ih => exact release_mono _ _ _ _ ih

theorem releaseAll_mono (f : Nat) (s : Heap) (cs : List Cell) (s' : Heap) (h : releaseAll f s cs = some s') : releaseAll (f + 1) s cs = some s' :=
  foldlM_sub (release_mono f) cs s s' h


/-- `a ⊑ b`: whenever `a` answers, `b` gives the same answer -/
def Sub {α : Type} (a b : Option α) : Prop := ∀ r, a = some r → b = some r

theorem setBoxedCell_clone_mono (f : Nat) (s : Heap) (c : Cell) (p : Pay) (h : cellType s c ≠ p.type ∨ cellRef s c > 1) :
    Sub (setBoxedCell f s c p) (setBoxedCell (f + 1) s c p) := by
  intro r hr
  simp only [setBoxedCell, h, if_true] at hr ⊢
  cases hrel : release f s c with
  | none => simp [hrel] at hr
  | some s1 => simp only [hrel] at hr; simp only [release_mono f s c s1 hrel]; exact hr

theorem setBoxedCell_inplace (f : Nat) (s : Heap) (c : Cell) (p : Pay) (h : ¬ (cellType s c ≠ p.type ∨ cellRef s c > 1)) :
    setBoxedCell f s c p = inPlaceAt f s c p := by
  simp only [setBoxedCell, h, if_false, inPlaceAt]
  cases c with
  | ptr b => cases s.heap b with
    | none => rfl
    | some blk => cases copyPay s p; rfl
  | null => rfl
  | inl x => rfl

/-- the fuel accounting of the in-place branch, closed: the translated boxed assignment with element destructors `release f` answers
    only what the model's `setBoxedCell (f+1)` answers, and that only what the translated code answers with `release (f+1)` -/
theorem boxed_sandwich (k : Nat) (s : Heap) (c : Cell) (p : Pay) (hp : p.type = k) (G : Nat → Option (Heap × Cell))
    (hG : ∀ f, G f = if cellType s c ≠ k ∨ cellRef s c > 1 then setBoxedCell (f + 1) s c p
        else inPlaceAt f s c p) (f : Nat) :
    Sub (G f) (setBoxedCell (f + 1) s c p) ∧ Sub (setBoxedCell (f + 1) s c p) (G (f + 1)) := by
  subst hp
  by_cases h : cellType s c ≠ p.type ∨ cellRef s c > 1
  · rw [hG f, hG (f + 1), if_pos h, if_pos h]
    exact ⟨fun r hr => hr, setBoxedCell_clone_mono (f + 1) s c p h⟩
  · rw [hG f, hG (f + 1), if_neg h, if_neg h, setBoxedCell_inplace (f + 1) s c p h]
    refine ⟨?_, fun r hr => hr⟩
    intro r hr
    unfold inPlaceAt at hr ⊢
    cases c with
    | ptr b =>
      cases hb : s.heap b with
      | none => simp [hb] at hr
      | some blk =>
        simp only [hb] at hr ⊢
        cases hra : releaseAll f (setPay (copyPay s p).1 b (copyPay s p).2) blk.pay.cells with
        | none => simp [hra] at hr
        | some s2 => rw [hra] at hr; rw [releaseAll_mono f _ _ s2 hra]; exact hr
    | null => simp at hr
    | inl x => simp at hr

theorem gen_setMap_fuel (f : Nat) (s : Heap) (this : Obj) (c : Cell) (hc : this.cell = some c) (hl : Live s c) (p : Pay) (hp : p.type = 7) :
    Sub ((VariantRep.setMap (release f) s this p).bind (fun r => r.2.cell.map (fun c' => (r.1, c')))) (setBoxedCell (f + 1) s c p) ∧
    Sub (setBoxedCell (f + 1) s c p) ((VariantRep.setMap (release (f + 1)) s this p).bind (fun r => r.2.cell.map (fun c' => (r.1, c')))) :=
  boxed_sandwich 7 s c p hp (fun f => (VariantRep.setMap (release f) s this p).bind (fun r => r.2.cell.map (fun c' => (r.1, c'))))
    (fun f => gen_setMap f s this c hc hl p hp) f

theorem gen_setList_fuel (f : Nat) (s : Heap) (this : Obj) (c : Cell) (hc : this.cell = some c) (hl : Live s c) (p : Pay) (hp : p.type = 8) :
    Sub ((VariantRep.setList (release f) s this p).bind (fun r => r.2.cell.map (fun c' => (r.1, c')))) (setBoxedCell (f + 1) s c p) ∧
    Sub (setBoxedCell (f + 1) s c p) ((VariantRep.setList (release (f + 1)) s this p).bind (fun r => r.2.cell.map (fun c' => (r.1, c')))) :=
  boxed_sandwich 8 s c p hp (fun f => (VariantRep.setList (release f) s this p).bind (fun r => r.2.cell.map (fun c' => (r.1, c'))))
    (fun f => gen_setList f s this c hc hl p hp) f

theorem gen_setArray_fuel (f : Nat) (s : Heap) (this : Obj) (c : Cell) (hc : this.cell = some c) (hl : Live s c) (p : Pay) (hp : p.type = 9) :
    Sub ((VariantRep.setArray (release f) s this p).bind (fun r => r.2.cell.map (fun c' => (r.1, c')))) (setBoxedCell (f + 1) s c p) ∧
    Sub (setBoxedCell (f + 1) s c p) ((VariantRep.setArray (release (f + 1)) s this p).bind (fun r => r.2.cell.map (fun c' => (r.1, c')))) :=
  boxed_sandwich 9 s c p hp (fun f => (VariantRep.setArray (release f) s this p).bind (fun r => r.2.cell.map (fun c' => (r.1, c'))))
    (fun f => gen_setArray f s this c hc hl p hp) f

theorem gen_setString_fuel (f : Nat) (s : Heap) (this : Obj) (c : Cell) (hc : this.cell = some c) (hl : Live s c) (p : Pay) (hp : p.type = 10) :
    Sub ((VariantRep.setString (release f) s this p).bind (fun r => r.2.cell.map (fun c' => (r.1, c')))) (setBoxedCell (f + 1) s c p) ∧
    Sub (setBoxedCell (f + 1) s c p) ((VariantRep.setString (release (f + 1)) s this p).bind (fun r => r.2.cell.map (fun c' => (r.1, c')))) :=
  boxed_sandwich 10 s c p hp (fun f => (VariantRep.setString (release f) s this p).bind (fun r => r.2.cell.map (fun c' => (r.1, c'))))
    (fun f => gen_setString f s this c hc hl p hp) f


/-! ### swap -/

theorem norm_cases (c c' : Cell) (h : norm c = norm c') :
    c = c' ∨ ((c = .null ∨ c = .inl .null) ∧ (c' = .null ∨ c' = .inl .null)) := by
  cases c with
  | null => cases c' with
    | null => left; rfl
    | inl x => cases x <;> simp [norm] at h ⊢
    | ptr b => simp [norm] at h
  | ptr b => cases c' with
    | null => simp [norm] at h
    | inl x => cases x <;> simp [norm] at h
    | ptr b' => left; simpa [norm] using h
  | inl x => cases c' with
    | null => cases x <;> simp [norm] at h ⊢
    | ptr b => cases x <;> simp [norm] at h
    | inl y => cases x <;> cases y <;> simp [norm] at h ⊢ <;> first | exact h | (subst h; rfl) | skip

theorem copyCell_norm (s : Heap) (c c' : Cell) (h : norm c = norm c') :
    (copyCell s c).1 = (copyCell s c').1 ∧ norm (copyCell s c).2 = norm (copyCell s c').2 := by
  rcases norm_cases c c' h with rfl | ⟨h1 | h1, h2 | h2⟩ <;> (try subst h1) <;> (try subst h2) <;> simp [copyCell, norm]

theorem release_norm (f : Nat) (s : Heap) (c c' : Cell) (h : norm c = norm c') : release f s c = release f s c' := by
  rcases norm_cases c c' h with rfl | ⟨h1 | h1, h2 | h2⟩ <;> (try subst h1) <;> (try subst h2) <;> cases f <;> simp [release]

theorem live_null (s : Heap) : Live s .null := ⟨fun x hx => (by cases hx), fun b hb => (by cases hb)⟩
theorem live_inl_null (s : Heap) : Live s (.inl .null) := ⟨fun x hx => (by cases hx; rfl), fun b hb => (by cases hb)⟩

theorem live_norm (s : Heap) (c c' : Cell) (h : norm c = norm c') (hl : Live s c) : Live s c' := by
  rcases norm_cases c c' h with rfl | ⟨h1 | h1, h2 | h2⟩ <;> (try subst h1) <;> (try subst h2) <;>
    first | exact hl | exact live_null s | exact live_inl_null s

theorem copyCell_heap_ge (s : Heap) (c : Cell) (b : Nat) (blk : Deep.Block) (hb : s.heap b = some blk) :
    ∃ blk', (copyCell s c).1.heap b = some blk' ∧ blk.ref ≤ blk'.ref := by
  cases c with
  | null => exact ⟨blk, hb, Nat.le_refl _⟩
  | inl x => exact ⟨blk, hb, Nat.le_refl _⟩
  | ptr b0 =>
    simp only [copyCell, incr]
    cases h0 : s.heap b0 with
    | none => exact ⟨blk, hb, Nat.le_refl _⟩
    | some blk0 =>
      by_cases e : b = b0
      · subst e; rw [hb] at h0; cases h0; exact ⟨{ blk with ref := blk.ref + 1 }, by simp [upd], by show blk.ref ≤ blk.ref + 1; omega⟩
      · exact ⟨blk, by simp [upd, e, hb], Nat.le_refl _⟩

theorem live_copyCell (s : Heap) (c0 c : Cell) (hl : Live s c) : Live (copyCell s c0).1 c := by
  refine ⟨hl.1, fun b hb => ?_⟩
  obtain ⟨blk, h1, h2⟩ := hl.2 b hb
  obtain ⟨blk', h3, h4⟩ := copyCell_heap_ge s c0 b blk h1
  exact ⟨blk', h3, by omega⟩

theorem live_copy_result (s : Heap) (c : Cell) (hl : Live s c) : Live (copyCell s c).1 (copyCell s c).2 := by
  cases c with
  | null => exact live_inl_null s
  | inl x => exact hl
  | ptr b =>
    obtain ⟨blk, h1, h2⟩ := hl.2 b rfl
    refine ⟨(by intro x hx; cases hx), fun b' hb' => ?_⟩
    cases hb'
    exact ⟨{ blk with ref := blk.ref + 1 }, by simp [copyCell, incr, h1, upd], by show 1 ≤ blk.ref + 1; omega⟩

/-- the temporary of `swap` outlives the release of the payload it was copied from: that block has two handles at that moment -/
theorem live_tmp_after (f : Nat) (s : Heap) (cw cv : Cell) (h2 : Heap) (hl : Live s cw)
    (hr : release (f + 1) (copyCell (copyCell s cw).1 cv).1 cw = some h2) : Live h2 (copyCell s cw).2 := by
  cases cw with
  | null => exact live_inl_null _
  | inl x => exact ⟨hl.1, (by intro b hb; cases hb)⟩
  | ptr b =>
    obtain ⟨blk, hb, hge⟩ := hl.2 b rfl
    have h1 : (copyCell s (.ptr b)).1.heap b = some { blk with ref := blk.ref + 1 } := by simp [copyCell, incr, hb, upd]
    obtain ⟨blk', hb', hge'⟩ := copyCell_heap_ge (copyCell s (.ptr b)).1 cv b _ h1
    simp only at hge'
    have hne : blk'.ref ≠ 1 := by omega
    simp only [release, hb', hne, if_false, Option.some.injEq] at hr
    subst hr
    refine ⟨(by intro x hx; cases hx), fun b' hbb => ?_⟩
    cases hbb
    exact ⟨{ blk' with ref := blk'.ref - 1 }, by simp [copyCell, upd], by show 1 ≤ blk'.ref - 1; omega⟩

theorem copyCtor_spec (s : Heap) (raw : Obj) (src : Cell) (hl : Live s src) :
    ∃ h o, VariantRep.copyCtor s raw src = some (h, o) ∧ h = (copyCell s src).1 ∧ ∃ c', o.cell = some c' ∧ norm c' = norm (copyCell s src).2 := by
  have := gen_copyCtor s raw src hl
  cases hX : VariantRep.copyCtor s raw src with
  | none => simp [hX] at this
  | some r =>
    obtain ⟨h, o⟩ := r
    simp only [hX, Option.bind_some] at this
    cases hc : o.cell with
    | none => simp [hc] at this
    | some c' =>
      simp only [hc, Option.map_some, Option.some.injEq, Prod.mk.injEq] at this
      exact ⟨h, o, rfl, this.1, c', hc, this.2⟩

/-- what `a.swap(b)` does on two distinct variables holding `cv` and `cw`, in the deep model's steps: `tmp = copy(b)`;
    `b = a` (copy of a, release of b's old payload); `a = tmp`; `~tmp` — result heap and the new cells of a and b -/
def swapChain (f : Nat) (s : Heap) (cv cw : Cell) : Option (Heap × Cell × Cell) :=
  (release (f + 1) (copyCell (copyCell s cw).1 cv).1 cw).bind fun h2 =>
  (release (f + 1) (copyCell h2 (copyCell s cw).2).1 cv).bind fun h3 =>
  (release (f + 1) h3 (copyCell s cw).2).map fun h4 =>
    (h4, norm (copyCell h2 (copyCell s cw).2).2, norm (copyCell (copyCell s cw).1 cv).2)

/-- `a.swap(a)` -/
def swapChainSelf (f : Nat) (s : Heap) (cv : Cell) : Option (Heap × Cell) :=
  (release (f + 1) (copyCell (copyCell s cv).1 (copyCell s cv).2).1 cv).bind fun h3 =>
  (release (f + 1) h3 (copyCell s cv).2).map fun h4 => (h4, norm (copyCell (copyCell s cv).1 (copyCell s cv).2).2)


theorem upd_comm2 {α} (f : Nat → α) (i j : Nat) (a b : α) (h : i ≠ j) : upd (upd f i a) j b = upd (upd f j b) i a := by
  funext k; simp only [upd]; by_cases h1 : k = j <;> by_cases h2 : k = i <;> simp [h1, h2] <;> omega

theorem incr_comm (s : Heap) (a b : Nat) : incr (incr s a) b = incr (incr s b) a := by
  by_cases e : a = b
  · subst e; rfl
  · have e' : b ≠ a := fun h => e h.symm
    cases s with
    | mk heap next =>
      cases ha : heap a <;> cases hb : heap b <;> simp [incr, ha, hb, upd, e, e']
      rename_i A B
      have := upd_comm2 heap a b (some { A with ref := A.ref + 1 }) (some { B with ref := B.ref + 1 }) e
      simpa [upd] using this

theorem copyCell_comm (s : Heap) (a b : Cell) : (copyCell (copyCell s a).1 b).1 = (copyCell (copyCell s b).1 a).1 := by
  cases a <;> cases b <;> simp [copyCell, incr_comm]

theorem norm_copy (s : Heap) (c : Cell) : norm (copyCell s c).2 = norm c := by
  cases c <;> simp [copyCell, norm]

theorem copy_release_same (f : Nat) (h : Heap) (c : Cell) (hl : Live h c) : release (f + 1) (copyCell h c).1 c = some h := by
  cases c with
  | null => simp [copyCell, release]
  | inl x => simp [copyCell, release]
  | ptr b =>
    obtain ⟨blk, hb, hr⟩ := hl.2 b rfl
    exact incr_release_same f h b blk hb hr

/-- the deep model's swap chain on live cells is the identity on the heap and exchanges the two cells: every increment is undone by
    the matching release (this is why a swap that exchanges the pointers without touching the counts computes the same) -/
theorem swapChain_id (f : Nat) (s : Heap) (cv cw : Cell) (hlv : Live s cv) (hlw : Live s cw) :
    swapChain f s cv cw = some (s, norm cw, norm cv) := by
  have ht : norm (copyCell s cw).2 = norm cw := norm_copy s cw
  have e2 : release (f + 1) (copyCell (copyCell s cw).1 cv).1 cw = some (copyCell s cv).1 := by
    rw [copyCell_comm]; exact copy_release_same f _ cw (live_copyCell s cv cw hlw)
  have e3 : release (f + 1) (copyCell (copyCell s cv).1 (copyCell s cw).2).1 cv = some (copyCell s cw).1 := by
    rw [(copyCell_norm (copyCell s cv).1 _ cw ht).1, copyCell_comm]
    exact copy_release_same f _ cv (live_copyCell s cw cv hlv)
  have e4 : release (f + 1) (copyCell s cw).1 (copyCell s cw).2 = some s := by
    rw [release_norm (f + 1) _ _ cw ht]; exact copy_release_same f s cw hlw
  simp only [swapChain, e2, e3, e4, Option.bind_some, Option.map_some, norm_copy, ht]

theorem swapChainSelf_id (f : Nat) (s : Heap) (cv : Cell) (hlv : Live s cv) : swapChainSelf f s cv = some (s, norm cv) := by
  have ht : norm (copyCell s cv).2 = norm cv := norm_copy s cv
  have e3 : release (f + 1) (copyCell (copyCell s cv).1 (copyCell s cv).2).1 cv = some (copyCell s cv).1 := by
    rw [(copyCell_norm (copyCell s cv).1 _ cv ht).1]
    exact copy_release_same f _ cv (live_copyCell s cv cv hlv)
  have e4 : release (f + 1) (copyCell s cv).1 (copyCell s cv).2 = some s := by
    rw [release_norm (f + 1) _ _ cv ht]; exact copy_release_same f s cv hlv
  simp only [swapChainSelf, e3, e4, Option.bind_some, Option.map_some, norm_copy, ht]

/-- **the translated `swap` exchanges the two cells and leaves the heap as it was** (distinct objects; up to the representation of
    null).  Two proofs, whichever fits the current body: as the chain copy / assign / assign / destroy of the translated members
    (= `swapChain`, which is the identity on live cells: `swapChain_id`), or directly for a body that exchanges the
    representations without touching the counts. -/
theorem gen_swap (f : Nat) (s : Heap) (raw this other : Obj) (cv cw : Cell) (hv : this.cell = some cv) (hw : other.cell = some cw)
    (hlv : Live s cv) (hlw : Live s cw) :
    (VariantRep.swap (release f) s raw this other false).bind (fun r => r.2.1.cell.bind fun a => r.2.2.cell.map fun b => (r.1, norm a, norm b))
      = some (s, norm cw, norm cv) := by
  first
  | (rw [← swapChain_id f s cv cw hlv hlw]
     obtain ⟨h1, tmp, e1, rfl, ct, hct, hnt⟩ := copyCtor_spec s raw cw hlw
     have hlv1 : Live (copyCell s cw).1 cv := live_copyCell s cw cv hlv
     have a2 := assign_spec f (copyCell s cw).1 other cw cv hw hlv1
     simp only [VariantRep.swap, Bool.false_eq_true, if_false, hw, e1, hv]
     unfold swapChain
     cases hr2 : release (f + 1) (copyCell (copyCell s cw).1 cv).1 cw with
     | none => rw [hr2] at a2; simp only at a2; simp [a2]
     | some h2 =>
       rw [hr2] at a2; simp only at a2
       obtain ⟨other', e2, co, hco, hno⟩ := a2
       simp only [e2, hct, Option.bind_some]
       have hlt : Live h2 ct := live_norm _ _ _ hnt.symm (live_tmp_after f s cw cv h2 hlw hr2)
       have a3 := assign_spec f h2 this cv ct hv hlt
       have cn := copyCell_norm h2 ct (copyCell s cw).2 hnt
       rw [cn.1] at a3
       cases hr3 : release (f + 1) (copyCell h2 (copyCell s cw).2).1 cv with
       | none => rw [hr3] at a3; simp only at a3; simp [a3]
       | some h3 =>
         rw [hr3] at a3; simp only at a3
         obtain ⟨this', e3, cth, hcth, hnth⟩ := a3
         simp only [e3, Option.bind_some, gen_destruct f h3 tmp ct hct, release_norm (f + 1) h3 ct _ hnt]
         cases release (f + 1) h3 (copyCell s cw).2 <;> simp [hcth, hco, hnth, hno, cn.2])
  | (obtain ⟨d1, o1⟩ := this
     obtain ⟨d2, o2⟩ := other
     rcases cell_inv _ _ hv with ⟨hd, rfl⟩ | ⟨b, hd, rfl⟩ | ⟨hd, hr, ⟨h0, rfl⟩ | ⟨hne, hu, hx, rfl⟩⟩ <;> simp only at hd <;> subst hd <;>
       rcases cell_inv _ _ hw with ⟨hd', rfl⟩ | ⟨b', hd', rfl⟩ | ⟨hd', hr', ⟨h0', rfl⟩ | ⟨hne', hu', hx', rfl⟩⟩ <;> simp only at hd' <;> subst hd' <;>
       simp_all [VariantRep.swap, isOwn, xptr, Obj.cell, norm])

theorem gen_swap_self (f : Nat) (s : Heap) (raw this : Obj) (cv : Cell) (hv : this.cell = some cv) (hlv : Live s cv) :
    (VariantRep.swap (release f) s raw this this true).bind (fun r => r.2.1.cell.map fun a => (r.1, norm a))
      = some (s, norm cv) := by
  first
  | (rw [← swapChainSelf_id f s cv hlv]
     obtain ⟨h1, tmp, e1, rfl, ct, hct, hnt⟩ := copyCtor_spec s raw cv hlv
     have hself : ∀ h, VariantRep.assign (release f) h this true cv = some (h, this) := fun h => by simp [VariantRep.assign]
     have hlt : Live (copyCell s cv).1 ct := live_norm _ _ _ hnt.symm (live_copy_result s cv hlv)
     have a3 := assign_spec f (copyCell s cv).1 this cv ct hv hlt
     have cn := copyCell_norm (copyCell s cv).1 ct (copyCell s cv).2 hnt
     rw [cn.1] at a3
     simp only [VariantRep.swap, if_true, hv, e1, hself, hct]
     unfold swapChainSelf
     cases hr3 : release (f + 1) (copyCell (copyCell s cv).1 (copyCell s cv).2).1 cv with
     | none => rw [hr3] at a3; simp only at a3; simp [a3]
     | some h3 =>
       rw [hr3] at a3; simp only at a3
       obtain ⟨this', e3, cth, hcth, hnth⟩ := a3
       simp only [e3, Option.bind_some, gen_destruct f h3 tmp ct hct, release_norm (f + 1) h3 ct _ hnt]
       cases release (f + 1) h3 (copyCell s cv).2 <;> simp [hcth, hnth, cn.2])
  | (obtain ⟨d1, o1⟩ := this
     rcases cell_inv _ _ hv with ⟨hd, rfl⟩ | ⟨b, hd, rfl⟩ | ⟨hd, hr, ⟨h0, rfl⟩ | ⟨hne, hu, hx, rfl⟩⟩ <;> simp only at hd <;> subst hd <;>
       simp_all [VariantRep.swap, isOwn, xptr, Obj.cell, norm])

/-- …and that chain is the `swap` step of the function the driver runs -/
theorem swapChain_dstep (ds : DblSem) (s : DState) (v w : Nat) (hvw : v ≠ w) (hv : v ≠ tmpVar) (hw : w ≠ tmpVar) :
    (dstep ds s (.swap v w)).map (fun s' => (s'.h, norm (s'.vars v), norm (s'.vars w)))
      = swapChain (s.h.next + 2) s.h (s.vars v) (s.vars w) := by
  have hwv : w ≠ v := fun e => hvw e.symm
  have htv : tmpVar ≠ v := fun e => hv e.symm
  have htw : tmpVar ≠ w := fun e => hw e.symm
  simp only [dstep, allocBound, assignFrom, swapChain, hwv, if_false]
  cases hc : copyCell s.h (s.vars w) with
  | mk h1 t =>
    simp only [upd, hv, hw, if_false, if_true]
    cases hc2 : copyCell h1 (s.vars v) with
    | mk h1' cv' =>
      simp only []
      cases hr2 : release (s.h.next + 2 + 1) h1' (s.vars w) with
      | none => simp
      | some h2 =>
        simp only [Option.map_some, Option.bind_some, upd, hv, hw, hvw, hwv, htv, htw, if_false, if_true]
        cases hc3 : copyCell h2 t with
        | mk h2' ct' =>
          simp only []
          cases hr3 : release (s.h.next + 2 + 1) h2' (s.vars v) with
          | none => simp
          | some h3 =>
            simp only [Option.map_some, Option.bind_some, upd, hv, hw, hvw, hwv, htv, htw, if_false, if_true]
            cases release (s.h.next + 2 + 1) h3 t <;> simp [upd, hv, hw, hvw, hwv, htv, htw]

theorem swapChainSelf_dstep (ds : DblSem) (s : DState) (v : Nat) (hv : v ≠ tmpVar) :
    (dstep ds s (.swap v v)).map (fun s' => (s'.h, norm (s'.vars v))) = swapChainSelf (s.h.next + 2) s.h (s.vars v) := by
  have htv : tmpVar ≠ v := fun e => hv e.symm
  simp only [dstep, allocBound, assignFrom, swapChainSelf, if_true]
  cases hc : copyCell s.h (s.vars v) with
  | mk h1 t =>
    simp only [upd, hv, htv, if_false, if_true]
    cases hc3 : copyCell h1 t with
    | mk h2' ct' =>
      simp only []
      cases hr3 : release (s.h.next + 2 + 1) h2' (s.vars v) with
      | none => simp
      | some h3 =>
        simp only [Option.map_some, Option.bind_some, upd, hv, htv, if_false, if_true]
        cases release (s.h.next + 2 + 1) h3 t <;> simp [upd, hv, htv]


/-! ### non-vacuity: a heap with a list block shared by two handles, an object pointing to it -/

def exHeap : Heap := ⟨fun b => if b = 0 then some ⟨2, .list [.inl (.int 1), .null]⟩ else none, 1⟩
def exObj : Obj := ⟨.blk 0, ⟨0, 0, .null⟩⟩
def exInl : Obj := ⟨.own, ⟨3, 0, .int 5⟩⟩

example : exObj.cell = some (.ptr 0) ∧ Live exHeap (.ptr 0) ∧ cellRef exHeap (.ptr 0) = 2 ∧ cellType exHeap (.ptr 0) = 8 :=
  ⟨rfl, ⟨by simp, by intro b hb; cases hb; exact ⟨_, rfl, by decide⟩⟩, rfl, rfl⟩
example : exInl.cell = some (.inl (.int 5)) ∧ Live exHeap (.inl (.int 5)) :=
  ⟨rfl, ⟨by intro x hx; cases hx; rfl, by simp⟩⟩
/-- the translated mutable accessor on the shared block clones: the object points to the new block 1, the old one keeps one handle -/
example (ds : DblSem) : (VariantRep.toListMut (release 1) ds exHeap exObj).map (fun r => (r.2.cell, (r.1.heap 0).map (·.ref), (r.1.heap 1).map (·.ref), r.1.next))
    = some (some (.ptr 1), some 1, some 1, 2) := by
  simp [VariantRep.toListMut, VariantRep.toListConst, VariantRep.clear, exHeap, exObj, Obj.type, Obj.ref, Obj.pay, Obj.decr, Obj.cell,
    copyPay, copyCells, copyCell, allocInit, Pay.type, upd]
/-- the translated `clear()` on the last handle of a block frees it and destroys the elements -/
example : (VariantRep.clear (release 1) ⟨fun b => if b = 0 then some ⟨1, .list [.null]⟩ else none, 1⟩ exObj).map (fun r => (r.2.cell, (r.1.heap 0).isSome))
    = some (some .null, false) := by
  simp [VariantRep.clear, exObj, Obj.type, Obj.ref, Obj.decr, Obj.detach, Obj.free, destroyAll, Obj.cell, Pay.type, Pay.cells, release, upd]
/-- the translated copy constructor shares the block and counts the new handle -/
example : (VariantRep.copyCtor exHeap exInl (.ptr 0)).map (fun r => (r.2.cell, (r.1.heap 0).map (·.ref))) = some (some (.ptr 0), some 3) := by
  simp [VariantRep.copyCtor, exHeap, exInl, cref, ptrOf, Obj.incr, incrBlk, Obj.cell, upd]

end Nstd.Variant
