import Nstd.Variant.DeepStep
/-
  Histories of the deep model, and the recursive read-out of a value (`readCell`, what the
  driver prints) against the ghost values.
-/
namespace Nstd.Variant.Deep
open Nstd.Variant

/-- run the deep model next to the specification store: a line the specification refuses is skipped
    (`bad-op` on both sides of the correspondence); `none` = the deep model faults -/
def drun (ds : DblSem) : DState → Store → List Op → Option (DState × Store)
  | s, σ, [] => some (s, σ)
  | s, σ, op :: t =>
    match specStep ds σ op with
    | none => drun ds s σ t
    | some σ' =>
      (match dstep ds s op with
       | some s' => drun ds s' σ' t
       | none => none)

theorem drun_refines (ds : DblSem) : ∀ (ops : List Op) (s : DState) (σ : Store), DGood s σ → (∀ op ∈ ops, OpSup op) →
    ∃ s', drun ds s σ ops = some (s', specRun ds σ ops) ∧ DGood s' (specRun ds σ ops) := by
  intro ops
  induction ops with
  | nil => intro s σ hg _; exact ⟨s, rfl, hg⟩
  | cons op t ih =>
    intro s σ hg hsup
    have hop : OpSup op := hsup op (by simp)
    have ht : ∀ o ∈ t, OpSup o := fun o ho => hsup o (by simp [ho])
    cases hspec : specStep ds σ op with
    | none =>
      have : specRun ds σ (op :: t) = specRun ds σ t := by
        simp [specRun, List.foldl_cons, specStepD, hspec]
      rw [this]
      obtain ⟨s', r, g'⟩ := ih s σ hg ht
      exact ⟨s', by simp only [drun, hspec]; exact r, g'⟩
    | some σ' =>
      have : specRun ds σ (op :: t) = specRun ds σ' t := by
        simp [specRun, List.foldl_cons, specStepD, hspec]
      rw [this]
      obtain ⟨s1, r1, g1⟩ := dstep_refines ds hg op hop hspec
      obtain ⟨s', r, g'⟩ := ih s1 σ' g1 ht
      exact ⟨s', by simp only [drun, hspec, r1]; exact r, g'⟩

/-! ### the recursive read-out -/

theorem sizeOf_lt_of_mem_map {g : Nat → Val} {c : Cell} {cs : List Cell} (h : c ∈ cs) :
    sizeOf (absCell g c) < sizeOf (cs.map (absCell g)) := by
  apply List.sizeOf_lt_of_mem
  exact List.mem_map.2 ⟨c, h, rfl⟩

/-- with fuel above the size of the value, `readCell` returns the ghost value -/
theorem readCell_abs {h : Heap} {vars e g} (i : DInv h vars e g) : ∀ (f : Nat) (c : Cell), CellOk h c →
    sizeOf (absCell g c) < f → readCell f h c = absCell g c := by
  intro f
  induction f with
  | zero => intro c _ hs; omega
  | succ f ih =>
    intro c hc hs
    cases c with
    | null => rfl
    | inl x => rfl
    | ptr b =>
      obtain ⟨blk, hb⟩ := hc.2 b rfl
      have hcons := i.cons b blk hb
      have hok := stored_cells_ok i b blk hb
      simp only [readCell, hb, absCell] at hs ⊢
      rw [hcons] at hs ⊢
      cases hp : blk.pay with
      | str t => rfl
      | list cs =>
        rw [hp] at hs hok
        simp only [absPay, Val.list.sizeOf_spec] at hs ⊢
        congr 1
        apply List.map_congr_left
        intro c hcm
        exact ih c (hok c hcm) (by have := sizeOf_lt_of_mem_map (g := g) hcm; omega)
      | array cs =>
        rw [hp] at hs hok
        simp only [absPay, Val.array.sizeOf_spec] at hs ⊢
        congr 1
        apply List.map_congr_left
        intro c hcm
        exact ih c (hok c hcm) (by have := sizeOf_lt_of_mem_map (g := g) hcm; omega)
      | map m =>
        rw [hp] at hs hok
        simp only [absPay, Val.map.sizeOf_spec] at hs ⊢
        congr 1
        apply List.map_congr_left
        intro q hq
        have hqm : q.2 ∈ (Pay.map m).cells := by simp only [Pay.cells]; exact List.mem_map.2 ⟨q, hq, rfl⟩
        have h1 : sizeOf (q.1, absCell g q.2) < sizeOf (m.map (fun p => (p.1, absCell g p.2))) :=
          List.sizeOf_lt_of_mem (List.mem_map.2 ⟨q, hq, rfl⟩)
        have h2 : sizeOf (absCell g q.2) < sizeOf (q.1, absCell g q.2) := by
          simp only [Prod.mk.sizeOf_spec]; omega
        rw [ih q.2 (hok q.2 hqm) (by omega)]

/-- what the driver prints for a variable is the specification's value, for every fuel above its size -/
theorem read_eq {s : DState} {σ : Store} (hg : DGood s σ) (v : Nat) (hv : v < nvars) (f : Nat) (hf : sizeOf (σ v) < f) :
    readCell f s.h (s.vars v) = σ v := by
  obtain ⟨g, i, hrel, _⟩ := hg
  rw [← hrel v hv] at hf ⊢
  exact readCell_abs i f (s.vars v) (var_cellOk i v) hf

end Nstd.Variant.Deep
