import Nstd.Variant.Props
import Nstd.Variant.PropsGen
/-
  Property C07, tie by translation, the nested walk.  `walkMutT` is the deep model's `walkMut` with every accessor step
  (`x.toMap()` / `x.toList()` / `x.toArray()` on the way down a path) replaced by the TRANSLATED body of that accessor
  (`Nstd.Generated.VariantRep.to*Mut`, run on an object standing for the cell).
    * `accessCellT_eq` : one translated step is the model's `accessCell` on a live cell; `held_live` : the cells the refinement
      proof holds (`Held`, DeepAccess.lean) are live; `walkMutT_eq` : the translated walk equals the model walk when every cell
      the walk reaches is live (`WalkLive`).
    * `walk_live` : `WalkLive` FOLLOWS FROM THE INVARIANT — the `Held` facts that `walk_step` (DeepWalk.lean) establishes for the
      element cell at every level, restated outside its induction (root cell held, path exists in its value, enough fuel).
    * `dstepT`, `drunT`, `ddriveT` : operation step and driver loops over `walkMutT`; `dstepT_eq` : on every state related to a
      store and every accepted line `dstepT = dstep`; hence `drunT_eq`, `ddriveT_eq`, and the headline theorems restated:
      `deep_refines_translated`, `deep_driver_refines_translated`, `deep_independent_translated`,
      `deep_independent_run_translated` — the statements of C07 with the translated accessor at every level of every nested walk.
  What the walk still takes from the hand-written model: the container operations at the leaf (`leafOp`: List/Array/HashMap members,
  not in Variant.hpp; its Variant.hpp parts — `set`, `clear`, `touch`, `assign` — are tied one by one in PropsGen.lean:
  `gen_set_scalar_leaf`, `gen_clear_leaf`, `gen_touch_leaf`, `gen_assignFrom`) and the slot bookkeeping of the walk itself.
-/
set_option linter.unusedSimpArgs false
set_option linter.unusedVariables false
namespace Nstd.Variant
open Nstd.Variant.Deep Nstd.Variant.Raw Nstd.Generated

theorem ofCell_cell (s : Heap) (j : Desc) (c : Cell) (hl : Live s c) : (ofCell j c).cell = some c := by
  cases c with
  | null => rfl
  | ptr b => rfl
  | inl x =>
    have hx := hl.1 x rfl
    cases x <;> simp [ofCell, Obj.cell, Val.type, Val.isBoxed] at hx ⊢

/-- the cells the refinement proof of the deep model holds during an operation are live -/
theorem held_live {h : Heap} {vars e g c} (hd : Held h vars e g c) : Live h c := by
  refine ⟨hd.ok, fun b hb => ?_⟩
  obtain ⟨blk, hblk⟩ := hd.cellOk.2 b hb
  exact ⟨blk, hblk, hd.inv.pos b blk hblk⟩

/-- the mutable accessor of type `kind` as TRANSLATED from Variant.hpp, on the Variant in a cell (element destructors `release f`) -/
def accessCellT (f : Nat) (ds : DblSem) (s : Heap) (c : Cell) (kind : Nat) : Option (Heap × Cell) :=
  if kind = 7 then (VariantRep.toMapMut (release f) ds s (ofCell default c)).bind (fun r => r.2.cell.map (fun c' => (r.1, c')))
  else if kind = 8 then (VariantRep.toListMut (release f) ds s (ofCell default c)).bind (fun r => r.2.cell.map (fun c' => (r.1, c')))
  else if kind = 9 then (VariantRep.toArrayMut (release f) ds s (ofCell default c)).bind (fun r => r.2.cell.map (fun c' => (r.1, c')))
  else if kind = 10 then (VariantRep.toStringMut (release f) ds s (ofCell default c)).bind (fun r => r.2.cell.map (fun c' => (r.1, c')))
  else accessCell (f + 1) ds s c kind

theorem accessCellT_eq (f : Nat) (ds : DblSem) (s : Heap) (c : Cell) (kind : Nat) (hl : Live s c) :
    accessCellT f ds s c kind = accessCell (f + 1) ds s c kind := by
  have hc := ofCell_cell s default c hl
  unfold accessCellT
  by_cases h7 : kind = 7
  · subst h7; simp only [if_true]; exact gen_toMapMut f ds s _ c hc hl
  · by_cases h8 : kind = 8
    · subst h8; simp only [h7, if_false, if_true]; exact gen_toListMut f ds s _ c hc hl
    · by_cases h9 : kind = 9
      · subst h9; simp only [h7, h8, if_false, if_true]; exact gen_toArrayMut f ds s _ c hc hl
      · by_cases h10 : kind = 10
        · subst h10; simp only [h7, h8, h9, if_false, if_true]; exact gen_toStringMut f ds s _ c hc hl
        · simp only [h7, h8, h9, h10, if_false]

/-- `walkMut` with the translated accessor at every step of the path -/
def walkMutT (f : Nat) (ds : DblSem) (rd : Nat → Cell) (s : Heap) (c : Cell) : List Step → LeafS → Option (Heap × Cell)
  | [], lf => leafOp (f + 1) ds rd s c lf
  | st :: p, lf =>
    match accessCellT f ds s c st.kind with
    | some (s1, .ptr b) =>
      (match s1.heap b with
       | some blk =>
         (match blk.pay.getCell st with
          | some ci =>
            (match walkMutT f ds rd (setPay s1 b (blk.pay.setCell st .null)) ci p lf with
             | some (s2, ci') =>
               (match s2.heap b with
                | some blk2 => some (setPay s2 b (blk2.pay.setCell st ci'), .ptr b)
                | none => none)
             | none => none)
          | none => none)
       | none => none)
    | _ => none

/-- every cell the walk goes through is live -/
def WalkLive (f : Nat) (ds : DblSem) (s : Heap) (c : Cell) : List Step → Prop
  | [] => True
  | st :: p => Live s c ∧ ∀ s1 b blk ci, accessCell (f + 1) ds s c st.kind = some (s1, .ptr b) → s1.heap b = some blk →
      blk.pay.getCell st = some ci → WalkLive f ds (setPay s1 b (blk.pay.setCell st .null)) ci p

/-- the walk over the translated accessors is the model's walk, on every path whose cells are live (`walk_live` derives that from the invariant) -/
theorem walkMutT_eq (f : Nat) (ds : DblSem) (rd : Nat → Cell) (lf : LeafS) :
    ∀ (p : List Step) (s : Heap) (c : Cell), WalkLive f ds s c p → walkMutT f ds rd s c p lf = walkMut (f + 1) ds rd s c p lf := by
  intro p
  induction p with
  | nil => intro s c _; rfl
  | cons st p ih =>
    intro s c hw
    obtain ⟨hl, hrest⟩ := hw
    simp only [walkMutT, walkMut, accessCellT_eq f ds s c st.kind hl]
    cases ha : accessCell (f + 1) ds s c st.kind with
    | none => rfl
    | some r =>
      obtain ⟨s1, c1⟩ := r
      cases c1 with
      | null => rfl
      | inl x => rfl
      | ptr b =>
        simp only []
        cases hb : s1.heap b with
        | none => rfl
        | some blk =>
          simp only []
          cases hg : blk.pay.getCell st with
          | none => rfl
          | some ci =>
            simp only []
            rw [ih _ ci (hrest s1 b blk ci ha hb hg)]
            cases walkMut (f + 1) ds rd (setPay s1 b (blk.pay.setCell st Cell.null)) ci p lf with
            | none => rfl
            | some r =>
              obtain ⟨s2, ci'⟩ := r
              simp only []
              cases s2.heap b <;> rfl


/-! ### `WalkLive` from the invariant: the `Held` facts of `walk_step`, outside its induction -/

theorem updPath_exists {F : Val → Option Val} : ∀ (p : List Step) (x y : Val), updPath p F x = some y → ∃ y', updPath p some x = some y'
  | [], x, _, _ => ⟨x, rfl⟩
  | st :: p, x, y, h => by
    obtain ⟨xi, yi, hgx, hux, hyv⟩ := Deep.updPath_cons_decomp h
    obtain ⟨y'', hy''⟩ := updPath_exists p xi yi hux
    cases st with
    | li i =>
      cases x <;> simp [updPath, getPath, Val.asList] at hgx h ⊢
      rename_i l
      cases hl : l[i]? with
      | none => simp [hl] at hgx
      | some z => simp [hl] at hgx; subst hgx; simp [hy'']
    | ar i =>
      cases x <;> simp [updPath, getPath, Val.asArray] at hgx h ⊢
      rename_i l
      cases hl : l[i]? with
      | none => simp [hl] at hgx
      | some z => simp [hl] at hgx; subst hgx; simp [hy'']
    | mk k =>
      cases x <;> simp [updPath, getPath, Val.asMap] at hgx h ⊢
      rename_i m
      cases hl : mapFind m k with
      | none => simp [hl] at hgx
      | some z => simp [hl] at hgx; subst hgx; simp [hy'']

/-- every cell a nested walk reaches is live: the part of `walk_step` (DeepWalk.lean) that establishes `Held` for the element cell
    at every level, restated on its own.  Hypotheses: the root cell is held, the path exists in its value, enough fuel. -/
theorem walk_live (ds : DblSem) {vars : Nat → Cell} :
    ∀ (p : List Step) (h : Heap) (e : Nat → Nat) (g : Nat → Val) (c : Cell), Held h vars e g c → ∀ y,
      updPath p some (absCell g c) = some y →
      ∀ f, liveCount h + p.length + 1 < f + 1 → WalkLive f ds h c p := by
  intro p
  induction p with
  | nil => intro h e g c hd y hy f hf; trivial
  | cons st p ih =>
    intro h e g c hd y hy f hf
    have i := hd.inv
    obtain ⟨xi, yi, hgx, hux, hyv⟩ := Deep.updPath_cons_decomp hy
    obtain ⟨hty, _⟩ := updPath_cons hy
    obtain ⟨h1, b, g1, r1, a⟩ := dinv_access ds hd st.kind (step_isKind st) (f + 1) (by simp at hf; omega)
    obtain ⟨blk, hb, href⟩ := a.blk
    have i1 := a.inv
    have hb1 := bounded_of_dinv i1
    have hx1 : g1 b = absCell g c := by rw [a.val]; exact coerce_same ds _ _ (step_isKind st) hty
    have hcons1 := i1.cons b blk hb
    have hgc := getCell_abs g1 blk.pay st
    rw [← hcons1, hx1, hgx] at hgc
    refine ⟨held_live hd, ?_⟩
    intro s1 b' blk' ci ha hb' hci
    rw [r1] at ha
    injection ha with ha
    injection ha with e1 e2
    injection e2 with e3
    subst e1; subst e3
    rw [hb] at hb'; injection hb' with e4; subst e4
    rw [hci] at hgc
    have hxi : absCell g1 ci = xi := (Option.some.inj hgc).symm
    have hcim := mem_cells_of_getCell _ _ _ hci
    have hold_b : cntCells blk.pay.cells b = 0 := by have := cnt_le_stored h1 hb1 b blk hb b; have := a.sz; omega
    have hci_b : cellCnt ci b = 0 := by have := cellCnt_le_of_mem _ ci b hcim; omega
    have hcs := fun x => cnt_setCell blk.pay st .null ci x hci
    have hnew_b : cntCells (blk.pay.setCell st .null).cells b = 0 := by have := hcs b; simp at this; omega
    have i1' := dinv_setPay i1 b blk hb a.hz a.sz (blk.pay.setCell st .null)
      (by
        intro d hdm
        rcases mem_setCell _ _ _ _ hdm with hdm | hdm
        · exact stored_cells_ok i1 b blk hb d hdm
        · subst hdm; exact ⟨(by intro z hz; cases hz), (by intro t ht; cases ht)⟩)
      (by intro x; have := hcs x; simp at this; omega) hnew_b
    let e1 : Nat → Nat := fun x => e x - cellCnt c x + cellCnt (.ptr b) x
    have i1'' : DInv (setPay h1 b (blk.pay.setCell st .null)) vars (fun x => e1 x + cellCnt ci x)
        (upd g1 b (absPay g1 (blk.pay.setCell st .null))) :=
      i1'.congr (by intro x; have := hcs x; simp at this; show e1 x + _ - _ = _; omega)
    have hd' : Held (setPay h1 b (blk.pay.setCell st .null)) vars (fun x => e1 x + cellCnt ci x)
        (upd g1 b (absPay g1 (blk.pay.setCell st .null))) ci :=
      ⟨i1'', fun x => Nat.le_add_left _ _, (stored_cells_ok i1 b blk hb ci hcim).1⟩
    have hxi' : absCell (upd g1 b (absPay g1 (blk.pay.setCell st .null))) ci = xi := by
      rw [← hxi]; apply absCell_congr; intro t ht
      have : t ≠ b := by intro et; subst et; rw [ht] at hci_b; simp [cellCnt_ptr] at hci_b
      exact upd_other _ _ _ _ this
    have hl1' : liveCount (setPay h1 b (blk.pay.setCell st .null)) = liveCount h1 := liveCount_setPay _ _ _
    exact ih _ _ _ ci hd' yi (by rw [hxi']; exact hux) f (by rw [hl1']; have := a.live; simp at hf; omega)


/-! ### the operation step, the driver loop and the headline theorems over the translated accessors -/

/-- `selfTempStep` with the translated accessors in the walk -/
def selfTempStepT (f : Nat) (ds : DblSem) (s : DState) (v : Nat) (p : List Step) (e : ValS) : Option DState :=
  match walkMutT f ds (upd s.vars tmpVar (copyCell s.h (s.vars v)).2) (copyCell s.h (s.vars v)).1 (s.vars v) p
      (.set (e.redirect v tmpVar)) with
  | some (h2, c') => (release (f + 1) h2 (copyCell s.h (s.vars v)).2).map (fun h3 => { h := h3, vars := upd s.vars v c' })
  | none => none

/-- `dstep` with every accessor step of a nested mutable walk (`mut v <path> <leaf>`) run as the TRANSLATED body of
    `toMap()/toList()/toArray()` (`walkMutT`); everything else as in `dstep` -/
def dstepT (ds : DblSem) (s : DState) (op : Op) : Option DState :=
  match op with
  | .mut v p lf =>
    (match p, lf with
     | [], .assign (.var w) => dstep ds s (.mut v [] (.assign (.var w)))
     | p, lf =>
       if selfTemp v p lf then
         (match lf with
          | .set e => selfTempStepT (s.h.next + allocBound (.mut v p lf)) ds s v p e
          | _ => none)
       else (walkMutT (s.h.next + allocBound (.mut v p lf)) ds s.vars s.h (s.vars v) p lf).map
         (fun r => { h := r.1, vars := upd s.vars v r.2 }))
  | op => dstep ds s op

/-- on every state related to a store and every accepted line the step over the translated accessors IS the model's step:
    `WalkLive` comes from the invariant (`walk_live`) -/
theorem dstepT_eq (ds : DblSem) {s : DState} {σ σ' : Store} (hg : DGood s σ) (op : Op) (hspec : specStep ds σ op = some σ') :
    dstepT ds s op = dstep ds s op := by
  cases op with
  | new v e => rfl
  | copy v w => rfl
  | get v w p => rfl
  | swap v w => rfl
  | «mut» v p lf =>
    obtain ⟨g, i, hrel, htmp⟩ := hg
    simp only [specStep] at hspec
    split at hspec
    · rename_i hc
      obtain ⟨hv, hall, hmok⟩ := hc
      split at hspec
      · cases hspec
      · cases hy : updPath p ((lf.eval σ).apply ds) (σ v) with
        | none => simp [hy] at hspec
        | some y =>
          have hv7 := lt_slots hv
          obtain ⟨y', hy'⟩ := updPath_exists p (σ v) y hy
          rw [← hrel v hv] at hy'
          have hlc := liveCount_le_next s.h
          -- the walk from the variable's cell
          have hwl1 : WalkLive (s.h.next + allocBound (.mut v p lf)) ds s.h (s.vars v) p :=
            walk_live ds p s.h _ g (s.vars v) (held_take i v hv7) y' hy' _ (by simp only [allocBound]; omega)
          -- the walk with a copy of v in the spare slot (typed assignment of a temporary that holds v)
          have hwl2 : WalkLive (s.h.next + allocBound (.mut v p lf)) ds (copyCell s.h (s.vars v)).1 (s.vars v) p := by
            have ht7 : tmpVar < nslots := by simp [tmpVar, nslots]
            have hvt : v ≠ tmpVar := by simp [nvars, tmpVar] at *; omega
            obtain ⟨i1, a1, _, sl1, _, _, o1⟩ := dinv_copyCell i (s.vars v) (var_cellOk i v)
            have i1' : DInv (copyCell s.h (s.vars v)).1 (upd s.vars tmpVar (copyCell s.h (s.vars v)).2) zeroE g :=
              (dinv_put i1 tmpVar ht7 (by rw [htmp]; intro b hb; cases hb) _ (by intro x; show _ ≤ zeroE x + _; omega) o1).congr
                (by intro x; show zeroE x + cellCnt _ x - cellCnt _ x = zeroE x; omega)
            have hv1 : upd s.vars tmpVar (copyCell s.h (s.vars v)).2 v = s.vars v := upd_other _ _ _ _ hvt
            have hd := held_take i1' v hv7
            rw [hv1] at hd
            have hl1 : liveCount (copyCell s.h (s.vars v)).1 = liveCount s.h := liveCount_sameLive sl1
            exact walk_live ds p _ _ g (s.vars v) hd y' hy' _ (by rw [hl1]; simp only [allocBound]; omega)
          have e1 := fun rd lf' => walkMutT_eq (s.h.next + allocBound (.mut v p lf)) ds rd lf' p s.h (s.vars v) hwl1
          have e2 := fun rd lf' => walkMutT_eq (s.h.next + allocBound (.mut v p lf)) ds rd lf' p _ (s.vars v) hwl2
          cases p with
          | cons st p' =>
            cases lf with
            | set e0 =>
              simp only [dstepT, dstep, selfTempStepT, selfTempStep, e1, e2]
              congr 1
            | _ => simp only [dstepT, dstep, selfTempStepT, selfTempStep, e1, e2]
          | nil =>
            cases lf with
            | assign src => cases src <;> simp only [dstepT, dstep, selfTempStepT, selfTempStep, e1, e2]
            | set e0 =>
              simp only [dstepT, dstep, selfTempStepT, selfTempStep, e1, e2]
              congr 1
            | _ => simp only [dstepT, dstep, selfTempStepT, selfTempStep, e1, e2]
    · cases hspec


/-- `drun` over the translated accessors -/
def drunT (ds : DblSem) : DState → Store → List Op → Option (DState × Store)
  | s, σ, [] => some (s, σ)
  | s, σ, op :: t =>
    match specStep ds σ op with
    | none => drunT ds s σ t
    | some σ' =>
      (match dstepT ds s op with
       | some s' => drunT ds s' σ' t
       | none => none)

/-- the loop of the driver over the translated accessors -/
def ddriveT (ds : DblSem) : DState → List Op → Option DState
  | s, [] => some s
  | s, op :: t =>
    match specStep ds s.read op with
    | none => ddriveT ds s t
    | some _ =>
      (match dstepT ds s op with
       | some s' => ddriveT ds s' t
       | none => none)

theorem drunT_eq (ds : DblSem) : ∀ (ops : List Op) (s : DState) (σ : Store), DGood s σ → (∀ op ∈ ops, OpSup op) →
    drunT ds s σ ops = drun ds s σ ops := by
  intro ops
  induction ops with
  | nil => intro s σ _ _; rfl
  | cons op t ih =>
    intro s σ hg hsup
    have hop : OpSup op := hsup op (by simp)
    have ht : ∀ o ∈ t, OpSup o := fun o ho => hsup o (by simp [ho])
    cases hspec : specStep ds σ op with
    | none => simp only [drunT, drun, hspec]; exact ih s σ hg ht
    | some σ' =>
      obtain ⟨s1, r1, g1⟩ := dstep_refines ds hg op hop hspec
      simp only [drunT, drun, hspec, dstepT_eq ds hg op hspec, r1]
      exact ih s1 σ' g1 ht

theorem ddriveT_eq (ds : DblSem) : ∀ (ops : List Op) (s : DState) (σ : Store), DGood s σ → (∀ op ∈ ops, OpSup op) →
    ddriveT ds s ops = ddrive ds s ops := by
  intro ops
  induction ops with
  | nil => intro s σ _ _; rfl
  | cons op t ih =>
    intro s σ hg hsup
    have hop : OpSup op := hsup op (by simp)
    have ht : ∀ o ∈ t, OpSup o := fun o ho => hsup o (by simp [ho])
    have hsame := specStep_isSome_congr ds s.read σ (fun v hv => read_exact hg v hv) op
    cases hr : specStep ds s.read op with
    | none => simp only [ddriveT, ddrive, hr]; exact ih s σ hg ht
    | some x =>
      obtain ⟨σ', hspec⟩ : ∃ σ', specStep ds σ op = some σ' := by
        rw [hr] at hsame
        cases h : specStep ds σ op with
        | none => rw [h] at hsame; cases hsame
        | some z => exact ⟨z, rfl⟩
      obtain ⟨s1, r1, g1⟩ := dstep_refines ds hg op hop hspec
      simp only [ddriveT, ddrive, hr, dstepT_eq ds hg op hspec, r1]
      exact ih s1 σ' g1 ht

/-- **HEADLINE over the translated accessors.**  `deep_refines` with every accessor step of every nested mutable walk run as the
    body `tools/gen_variant.py` translated from the current Variant.hpp: for every history the model never faults, its state
    is the specification store, and what it reads back from the heap is the specification's value. -/
theorem deep_refines_translated (ds : DblSem) (ops : List Op) (hsup : ∀ op ∈ ops, Deep.OpSup op) :
    ∃ s, drunT ds Deep.dinit Store.init ops = some (s, specRun ds Store.init ops) ∧
      Deep.DGood s (specRun ds Store.init ops) ∧
      ∀ v, v < nvars → ∀ f, sizeOf (specRun ds Store.init ops v) < f →
        Deep.readCell f s.h (s.vars v) = specRun ds Store.init ops v := by
  rw [drunT_eq ds ops Deep.dinit Store.init Deep.dgood_init hsup]
  exact deep_refines ds ops hsup

/-- the driver loop over the translated accessors never faults and ends reading as the store -/
theorem deep_driver_refines_translated (ds : DblSem) (ops : List Op) (hsup : ∀ op ∈ ops, Deep.OpSup op) :
    ∃ s, ddriveT ds Deep.dinit ops = some s ∧ ∀ v, v < nvars → s.read v = specRun ds Store.init ops v := by
  rw [ddriveT_eq ds ops Deep.dinit Store.init Deep.dgood_init hsup]
  exact deep_driver_refines ds ops hsup

/-- independence over the translated accessors: after any history one more operation (any kind, any path, any sharing between the
    variables and their nested elements) changes no variable outside its targets -/
theorem deep_independent_translated (ds : DblSem) (ops : List Op) (op : Op) (hsup : ∀ o ∈ ops ++ [op], Deep.OpSup o)
    (w : Nat) (hw : w < nvars) (hnt : w ∉ op.targets) :
    ∃ s s', ddriveT ds Deep.dinit ops = some s ∧ ddriveT ds Deep.dinit (ops ++ [op]) = some s' ∧ s'.read w = s.read w := by
  rw [ddriveT_eq ds ops Deep.dinit Store.init Deep.dgood_init (fun o ho => hsup o (by simp [ho])),
    ddriveT_eq ds (ops ++ [op]) Deep.dinit Store.init Deep.dgood_init hsup]
  exact deep_independent ds ops op hsup w hw hnt

/-- …and over a whole tail of operations none of which targets `w` (a copy stays detached from its source) -/
theorem deep_independent_run_translated (ds : DblSem) (pre post : List Op) (hsup : ∀ o ∈ pre ++ post, Deep.OpSup o)
    (w : Nat) (hw : w < nvars) (hnt : ∀ op ∈ post, w ∉ op.targets) :
    ∃ s s', ddriveT ds Deep.dinit pre = some s ∧ ddriveT ds Deep.dinit (pre ++ post) = some s' ∧ s'.read w = s.read w := by
  rw [ddriveT_eq ds pre Deep.dinit Store.init Deep.dgood_init (fun o ho => hsup o (by simp [ho])),
    ddriveT_eq ds (pre ++ post) Deep.dinit Store.init Deep.dgood_init hsup]
  exact deep_independent_run ds pre post hsup w hw hnt

/-- non-vacuity: a one-step walk from a live root -/
example (ds : DblSem) : WalkLive 1 ds exHeap (.ptr 0) [.li 0] :=
  ⟨⟨(by intro x hx; cases hx), by intro b hb; cases hb; exact ⟨_, rfl, by decide⟩⟩, fun _ _ _ _ _ _ _ => trivial⟩

end Nstd.Variant
