import Nstd.Variant.DeepAccess
import Nstd.Variant.PropsGen
/-
  Property C07, tie by translation, the nested walk: `walkMutT` is the deep model's `walkMut` with every accessor step
  (`x.toMap()` / `x.toList()` / `x.toArray()` on the way down a path) replaced by the TRANSLATED body of that accessor
  (`Nstd.Generated.VariantRep.to*Mut`, run on an object standing for the cell).  `accessCellT_eq` : one translated step is the
  model's `accessCell` on a live cell; `held_live` : the cells the refinement proof holds (`Held`, DeepAccess.lean) are live;
  `walkMutT_eq_partial` : the translated walk equals the model walk when every cell the walk reaches is live (`WalkLive`).

  OPEN: `WalkLive` follows from the invariant of the deep model (`DGood`; the proof of `walk_step` in DeepWalk.lean establishes
  `Held` for the element cell at every level, and `held_live` turns that into `Live`), but that derivation is inside the induction of
  `walk_step` and has not been restated here; so `deep_refines` / `deep_independent` are NOT yet restated over `walkMutT`:
      theorem deep_refines_translated : … the driver loop with `walkMutT` in place of `walkMut` refines the store of values …
-/
set_option linter.unusedSimpArgs false
set_option linter.unusedVariables false
namespace Nstd.Variant
open Nstd.Variant.Deep Nstd.Variant.Raw Nstd.Generated

theorem ofCell_cell (s : Heap) (j : Desc) (c : Cell) (hl : Live s c) : (ofCell j c).cell = some c := by
  cases c with
  | null => rfl
  | ptr b => rfl
  | inl x =>
    have hx := hl.1 x rfl
    cases x <;> simp [ofCell, Obj.cell, Val.type, Val.isBoxed] at hx ⊢

/-- the cells the refinement proof of the deep model holds during an operation are live -/
theorem held_live {h : Heap} {vars e g c} (hd : Held h vars e g c) : Live h c := by
  refine ⟨hd.ok, fun b hb => ?_⟩
  obtain ⟨blk, hblk⟩ := hd.cellOk.2 b hb
  exact ⟨blk, hblk, hd.inv.pos b blk hblk⟩

/-- the mutable accessor of type `kind` as TRANSLATED from Variant.hpp, on the Variant in a cell (element destructors `release f`) -/
def accessCellT (f : Nat) (ds : DblSem) (s : Heap) (c : Cell) (kind : Nat) : Option (Heap × Cell) :=
  if kind = 7 then (VariantRep.toMapMut (release f) ds s (ofCell default c)).bind (fun r => r.2.cell.map (fun c' => (r.1, c')))
  else if kind = 8 then (VariantRep.toListMut (release f) ds s (ofCell default c)).bind (fun r => r.2.cell.map (fun c' => (r.1, c')))
  else if kind = 9 then (VariantRep.toArrayMut (release f) ds s (ofCell default c)).bind (fun r => r.2.cell.map (fun c' => (r.1, c')))
  else if kind = 10 then (VariantRep.toStringMut (release f) ds s (ofCell default c)).bind (fun r => r.2.cell.map (fun c' => (r.1, c')))
  else accessCell (f + 1) ds s c kind

theorem accessCellT_eq (f : Nat) (ds : DblSem) (s : Heap) (c : Cell) (kind : Nat) (hl : Live s c) :
    accessCellT f ds s c kind = accessCell (f + 1) ds s c kind := by
  have hc := ofCell_cell s default c hl
  unfold accessCellT
  by_cases h7 : kind = 7
  · subst h7; simp only [if_true]; exact gen_toMapMut f ds s _ c hc hl
  · by_cases h8 : kind = 8
    · subst h8; simp only [h7, if_false, if_true]; exact gen_toListMut f ds s _ c hc hl
    · by_cases h9 : kind = 9
      · subst h9; simp only [h7, h8, if_false, if_true]; exact gen_toArrayMut f ds s _ c hc hl
      · by_cases h10 : kind = 10
        · subst h10; simp only [h7, h8, h9, if_false, if_true]; exact gen_toStringMut f ds s _ c hc hl
        · simp only [h7, h8, h9, h10, if_false]

/-- `walkMut` with the translated accessor at every step of the path -/
def walkMutT (f : Nat) (ds : DblSem) (rd : Nat → Cell) (s : Heap) (c : Cell) : List Step → LeafS → Option (Heap × Cell)
  | [], lf => leafOp (f + 1) ds rd s c lf
  | st :: p, lf =>
    match accessCellT f ds s c st.kind with
    | some (s1, .ptr b) =>
      (match s1.heap b with
       | some blk =>
         (match blk.pay.getCell st with
          | some ci =>
            (match walkMutT f ds rd (setPay s1 b (blk.pay.setCell st .null)) ci p lf with
             | some (s2, ci') =>
               (match s2.heap b with
                | some blk2 => some (setPay s2 b (blk2.pay.setCell st ci'), .ptr b)
                | none => none)
             | none => none)
          | none => none)
       | none => none)
    | _ => none

/-- every cell the walk goes through is live -/
def WalkLive (f : Nat) (ds : DblSem) (s : Heap) (c : Cell) : List Step → Prop
  | [] => True
  | st :: p => Live s c ∧ ∀ s1 b blk ci, accessCell (f + 1) ds s c st.kind = some (s1, .ptr b) → s1.heap b = some blk →
      blk.pay.getCell st = some ci → WalkLive f ds (setPay s1 b (blk.pay.setCell st .null)) ci p

/-- the walk over the translated accessors is the model's walk, on every path whose cells are live (what is left: to derive
    `WalkLive` from `DGood`; see the OPEN block at the top) -/
theorem walkMutT_eq_partial (f : Nat) (ds : DblSem) (rd : Nat → Cell) (lf : LeafS) :
    ∀ (p : List Step) (s : Heap) (c : Cell), WalkLive f ds s c p → walkMutT f ds rd s c p lf = walkMut (f + 1) ds rd s c p lf := by
  intro p
  induction p with
  | nil => intro s c _; rfl
  | cons st p ih =>
    intro s c hw
    obtain ⟨hl, hrest⟩ := hw
    simp only [walkMutT, walkMut, accessCellT_eq f ds s c st.kind hl]
    cases ha : accessCell (f + 1) ds s c st.kind with
    | none => rfl
    | some r =>
      obtain ⟨s1, c1⟩ := r
      cases c1 with
      | null => rfl
      | inl x => rfl
      | ptr b =>
        simp only []
        cases hb : s1.heap b with
        | none => rfl
        | some blk =>
          simp only []
          cases hg : blk.pay.getCell st with
          | none => rfl
          | some ci =>
            simp only []
            rw [ih _ ci (hrest s1 b blk ci ha hb hg)]
            cases walkMut (f + 1) ds rd (setPay s1 b (blk.pay.setCell st Cell.null)) ci p lf with
            | none => rfl
            | some r =>
              obtain ⟨s2, ci'⟩ := r
              simp only []
              cases s2.heap b <;> rfl

/-- non-vacuity: a one-step walk from a live root -/
example (ds : DblSem) : WalkLive 1 ds exHeap (.ptr 0) [.li 0] :=
  ⟨⟨(by intro x hx; cases hx), by intro b hb; cases hb; exact ⟨_, rfl, by decide⟩⟩, fun _ _ _ _ _ _ _ => trivial⟩

end Nstd.Variant
