import Nstd.Variant.Spec
/-
  Representation invariant of the Variant model and the five atomic heap steps all
  operations are composed of.  The invariant carries a function `e` of *pending* handles
  (a reference that has been counted in `ref` but is not stored in a variable yet, e.g.
  between `Atomic::increment(other.data->ref)` and `data = other.data`), so that the
  operations can be followed in the order of the code.
-/
namespace Nstd.Variant

@[simp] theorem upd_same {α} (f : Nat → α) (i x) : upd f i x i = x := by simp [upd]
@[simp] theorem upd_other {α} (f : Nat → α) (i j x) (h : j ≠ i) : upd f i x j = f j := by simp [upd, h]

def nslots : Nat := 7

def isPtrTo (c : Cell) (b : Nat) : Bool :=
  match c with
  | .ptr b' => b' == b
  | _ => false

theorem isPtrTo_iff (c : Cell) (b : Nat) : isPtrTo c b = true ↔ c = .ptr b := by
  cases c <;> simp [isPtrTo]

def handlesN (n : Nat) (vars : Nat → Cell) (b : Nat) : Nat :=
  (List.range n).countP (fun v => isPtrTo (vars v) b)

/-- number of variables (including the `tmp` of swap) whose `data` points to block `b` -/
def handles (vars : Nat → Cell) (b : Nat) : Nat := handlesN nslots vars b

theorem handlesN_upd (n : Nat) (vars : Nat → Cell) (v : Nat) (c : Cell) (b : Nat) (hv : v < n) :
    handlesN n (upd vars v c) b + (if isPtrTo (vars v) b then 1 else 0)
      = handlesN n vars b + (if isPtrTo c b then 1 else 0) := by
  unfold handlesN
  induction n with
  | zero => omega
  | succ n ih =>
    simp only [List.range_succ, List.countP_append, List.countP_cons, List.countP_nil]
    by_cases h : v < n
    · have := ih h
      have hne : n ≠ v := by omega
      simp only [upd_other _ _ _ _ hne]
      omega
    · have e : v = n := by omega
      subst e
      have same : List.countP (fun w => isPtrTo (upd vars v c w) b) (List.range v)
          = List.countP (fun w => isPtrTo (vars w) b) (List.range v) := by
        apply List.countP_congr
        intro w hw
        have : w ≠ v := by have := List.mem_range.mp hw; omega
        simp [upd_other _ _ _ _ this]
      rw [same]
      simp only [upd_same]
      by_cases h1 : isPtrTo (vars v) b = true <;> by_cases h2 : isPtrTo c b = true <;> simp [h1, h2]

theorem handles_upd (vars : Nat → Cell) (v : Nat) (c : Cell) (b : Nat) (hv : v < nslots) :
    handles (upd vars v c) b + (if isPtrTo (vars v) b then 1 else 0)
      = handles vars b + (if isPtrTo c b then 1 else 0) := handlesN_upd _ _ _ _ _ hv

/-- two different variables pointing to the same block: at least two handles -/
theorem two_handles (vars : Nat → Cell) (v w b : Nat) (hv : v < nslots) (hw : w < nslots) (hvw : w ≠ v)
    (h1 : vars v = .ptr b) (h2 : vars w = .ptr b) : 2 ≤ handles vars b := by
  have a := handles_upd vars v .null b hv
  have c := handles_upd (upd vars v .null) w .null b hw
  have p1 : isPtrTo (vars v) b = true := (isPtrTo_iff _ _).2 h1
  have p2 : isPtrTo (upd vars v .null w) b = true := by
    rw [upd_other _ _ _ _ hvw]; exact (isPtrTo_iff _ _).2 h2
  simp only [p1, p2, if_true] at a c
  simp [isPtrTo] at a c
  omega

theorem one_handle (vars : Nat → Cell) (v b : Nat) (hv : v < nslots) (h1 : vars v = .ptr b) : 1 ≤ handles vars b := by
  have a := handles_upd vars v .null b hv
  have p1 : isPtrTo (vars v) b = true := (isPtrTo_iff _ _).2 h1
  simp only [p1, if_true] at a
  simp [isPtrTo] at a
  omega

def bump (e : Nat → Nat) (b : Nat) : Nat → Nat := fun c => if c = b then e c + 1 else e c
def unbump (e : Nat → Nat) (b : Nat) : Nat → Nat := fun c => if c = b then e c - 1 else e c
def zeroE : Nat → Nat := fun _ => 0

structure Inv (s : State) (e : Nat → Nat) : Prop where
  live : ∀ v b, s.vars v = .ptr b → ∃ blk, s.heap b = some blk
  cnt : ∀ b blk, s.heap b = some blk → blk.ref = handles s.vars b + e b
  pos : ∀ b blk, s.heap b = some blk → 0 < blk.ref
  fresh : ∀ b, s.next ≤ b → s.heap b = none
  efresh : ∀ b, s.heap b = none → e b = 0
  boxed : ∀ b blk, s.heap b = some blk → blk.val.isBoxed = true
  inl : ∀ v x, s.vars v = .inl x → x.isBoxed = false
  out : ∀ v, nslots ≤ v → s.vars v = .null

theorem Inv.congr {s : State} {e e' : Nat → Nat} (h : Inv s e) (he : ∀ b, e b = e' b) : Inv s e' := by
  have : e = e' := funext he
  subst this; exact h

theorem inv_init : Inv init zeroE := by
  constructor <;> intros <;> simp_all [init, zeroE]

/-! ### reading -/

theorem read_ptr (s : State) (v b : Nat) (blk : Block) (h1 : s.vars v = .ptr b) (h2 : s.heap b = some blk) :
    s.read v = blk.val := by simp [State.read, h1, h2]

theorem refOf_ptr (s : State) (v b : Nat) (blk : Block) (h1 : s.vars v = .ptr b) (h2 : s.heap b = some blk) :
    s.refOf v = blk.ref := by simp [State.refOf, h1, h2]

theorem type_boxed (x : Val) : x.isBoxed = true ↔ 7 ≤ x.type := by
  cases x <;> simp [Val.isBoxed, Val.type]

/-- a variable whose value is boxed points to a block -/
theorem boxed_is_ptr {s : State} {e} (h : Inv s e) (v : Nat) (hb : (s.read v).isBoxed = true) :
    ∃ b blk, s.vars v = .ptr b ∧ s.heap b = some blk := by
  cases hc : s.vars v with
  | null => simp [State.read, hc, Val.isBoxed] at hb
  | inl x =>
    have := h.inl v x hc
    simp [State.read, hc, this] at hb
  | ptr b =>
    obtain ⟨blk, hblk⟩ := h.live v b hc
    exact ⟨b, blk, rfl, hblk⟩

/-! ### atom 1: count a new (pending) reference -/

def incr (s : State) (b : Nat) (blk : Block) : State :=
  { s with heap := upd s.heap b (some { blk with ref := blk.ref + 1 }) }

theorem inv_incr {s : State} {e} (h : Inv s e) (b : Nat) (blk : Block) (hb : s.heap b = some blk) :
    Inv (incr s b blk) (bump e b) := by
  constructor
  · intro v c hv
    by_cases ec : c = b
    · subst ec; exact ⟨{ blk with ref := blk.ref + 1 }, by simp [incr]⟩
    · obtain ⟨k, hk⟩ := h.live v c hv
      exact ⟨k, by simp [incr, upd_other _ _ _ _ ec, hk]⟩
  · intro c k hk
    by_cases ec : c = b
    · subst ec
      simp [incr] at hk
      subst hk
      have := h.cnt c blk hb
      simp [bump, incr]; omega
    · simp [incr, upd_other _ _ _ _ ec] at hk
      have := h.cnt c k hk
      simp [bump, ec, incr]; omega
  · intro c k hk
    by_cases ec : c = b
    · subst ec; simp [incr] at hk; subst hk; simp
    · simp [incr, upd_other _ _ _ _ ec] at hk; exact h.pos c k hk
  · intro c hc
    by_cases ec : c = b
    · subst ec; have := h.fresh c hc; rw [hb] at this; cases this
    · simp [incr, upd_other _ _ _ _ ec]; exact h.fresh c hc
  · intro c hc
    by_cases ec : c = b
    · subst ec; simp [incr] at hc
    · simp [incr, upd_other _ _ _ _ ec] at hc; simp [bump, ec]; exact h.efresh c hc
  · intro c k hk
    by_cases ec : c = b
    · subst ec; simp [incr] at hk; subst hk; exact h.boxed c blk hb
    · simp [incr, upd_other _ _ _ _ ec] at hk; exact h.boxed c k hk
  · exact h.inl
  · exact h.out

theorem read_incr (s : State) (b : Nat) (blk : Block) (hb : s.heap b = some blk) (w : Nat) :
    (incr s b blk).read w = s.read w := by
  simp only [State.read, incr]
  cases hc : s.vars w with
  | null => rfl
  | inl x => rfl
  | ptr c =>
    by_cases ec : c = b
    · subst ec; simp [hb]
    · simp [upd_other _ _ _ _ ec]

/-! ### atom 2: `clear()` -/

theorem clear_vars (s : State) (v : Nat) : (clear s v).vars = upd s.vars v .null := by
  unfold clear
  split
  · split
    · split <;> rfl
    · rfl
  · rfl

theorem inv_clear {s : State} {e} (h : Inv s e) (v : Nat) (hv : v < nslots) : Inv (clear s v) e := by
  cases hc : s.vars v with
  | null =>
    have hs : clear s v = { s with vars := upd s.vars v .null } := by simp [clear, hc]
    have hh : ∀ b, handles (upd s.vars v .null) b = handles s.vars b := by
      intro b; have := handles_upd s.vars v .null b hv; simp [hc, isPtrTo] at this; exact this
    rw [hs]
    constructor
    · intro w b hw
      by_cases ew : w = v
      · subst ew; simp at hw
      · simp [upd_other _ _ _ _ ew] at hw; exact h.live w b hw
    · intro b blk hb; simp only [hh]; exact h.cnt b blk hb
    · exact h.pos
    · exact h.fresh
    · exact h.efresh
    · exact h.boxed
    · intro w x hw
      by_cases ew : w = v
      · subst ew; simp at hw
      · simp [upd_other _ _ _ _ ew] at hw; exact h.inl w x hw
    · intro w hw
      have : w ≠ v := by omega
      simp [upd_other _ _ _ _ this]; exact h.out w hw
  | inl x0 =>
    have hs : clear s v = { s with vars := upd s.vars v .null } := by simp [clear, hc]
    have hh : ∀ b, handles (upd s.vars v .null) b = handles s.vars b := by
      intro b; have := handles_upd s.vars v .null b hv; simp [hc, isPtrTo] at this; exact this
    rw [hs]
    constructor
    · intro w b hw
      by_cases ew : w = v
      · subst ew; simp at hw
      · simp [upd_other _ _ _ _ ew] at hw; exact h.live w b hw
    · intro b blk hb; simp only [hh]; exact h.cnt b blk hb
    · exact h.pos
    · exact h.fresh
    · exact h.efresh
    · exact h.boxed
    · intro w x hw
      by_cases ew : w = v
      · subst ew; simp at hw
      · simp [upd_other _ _ _ _ ew] at hw; exact h.inl w x hw
    · intro w hw
      have : w ≠ v := by omega
      simp [upd_other _ _ _ _ this]; exact h.out w hw
  | ptr b0 =>
    obtain ⟨blk0, hblk0⟩ := h.live v b0 hc
    have hcnt0 := h.cnt b0 blk0 hblk0
    have hone := one_handle s.vars v b0 hv hc
    have hh : ∀ b, handles (upd s.vars v .null) b + (if b0 = b then 1 else 0) = handles s.vars b := by
      intro b; have := handles_upd s.vars v .null b hv
      simp [hc, isPtrTo] at this; exact this
    by_cases hr : blk0.ref = 1
    · have hs : clear s v = { s with heap := upd s.heap b0 none, vars := upd s.vars v .null } := by
        simp [clear, hc, hblk0, hr]
      rw [hs]
      constructor
      · intro w b hw
        by_cases ew : w = v
        · subst ew; simp at hw
        · simp [upd_other _ _ _ _ ew] at hw
          have hwlt : w < nslots := by
            by_cases hl : w < nslots
            · exact hl
            · have := h.out w (by omega); rw [this] at hw; cases hw
          have hne : b ≠ b0 := by
            intro eb; subst eb
            have := two_handles s.vars v w b hv hwlt ew hc hw
            omega
          obtain ⟨k, hk⟩ := h.live w b hw
          exact ⟨k, by simp [upd_other _ _ _ _ hne, hk]⟩
      · intro b blk hb
        by_cases eb : b = b0
        · subst eb; simp at hb
        · simp [upd_other _ _ _ _ eb] at hb
          have := h.cnt b blk hb
          have h2 := hh b
          have : ¬ b0 = b := fun x => eb x.symm
          simp [this] at h2
          simp only; omega
      · intro b blk hb
        by_cases eb : b = b0
        · subst eb; simp at hb
        · simp [upd_other _ _ _ _ eb] at hb; exact h.pos b blk hb
      · intro b hb
        by_cases eb : b = b0
        · subst eb; simp
        · simp [upd_other _ _ _ _ eb]; exact h.fresh b hb
      · intro b hb
        by_cases eb : b = b0
        · subst eb; omega
        · simp [upd_other _ _ _ _ eb] at hb; exact h.efresh b hb
      · intro b blk hb
        by_cases eb : b = b0
        · subst eb; simp at hb
        · simp [upd_other _ _ _ _ eb] at hb; exact h.boxed b blk hb
      · intro w x hw
        by_cases ew : w = v
        · subst ew; simp at hw
        · simp [upd_other _ _ _ _ ew] at hw; exact h.inl w x hw
      · intro w hw
        have : w ≠ v := by omega
        simp [upd_other _ _ _ _ this]; exact h.out w hw
    · have hs : clear s v = { s with heap := upd s.heap b0 (some { blk0 with ref := blk0.ref - 1 }),
                                      vars := upd s.vars v .null } := by
        simp [clear, hc, hblk0, hr]
      have hpos0 := h.pos b0 blk0 hblk0
      rw [hs]
      constructor
      · intro w b hw
        by_cases ew : w = v
        · subst ew; simp at hw
        · simp [upd_other _ _ _ _ ew] at hw
          obtain ⟨k, hk⟩ := h.live w b hw
          by_cases eb : b = b0
          · subst eb; exact ⟨{ blk0 with ref := blk0.ref - 1 }, by simp⟩
          · exact ⟨k, by simp [upd_other _ _ _ _ eb, hk]⟩
      · intro b blk hb
        have h2 := hh b
        by_cases eb : b = b0
        · subst eb
          simp at hb; subst hb
          simp at h2
          simp only; omega
        · simp [upd_other _ _ _ _ eb] at hb
          have := h.cnt b blk hb
          have : ¬ b0 = b := fun x => eb x.symm
          simp [this] at h2
          simp only; omega
      · intro b blk hb
        by_cases eb : b = b0
        · subst eb; simp at hb; subst hb; simp only; omega
        · simp [upd_other _ _ _ _ eb] at hb; exact h.pos b blk hb
      · intro b hb
        by_cases eb : b = b0
        · subst eb; have := h.fresh b hb; rw [hblk0] at this; cases this
        · simp [upd_other _ _ _ _ eb]; exact h.fresh b hb
      · intro b hb
        by_cases eb : b = b0
        · subst eb; simp at hb
        · simp [upd_other _ _ _ _ eb] at hb; exact h.efresh b hb
      · intro b blk hb
        by_cases eb : b = b0
        · subst eb; simp at hb; subst hb; exact h.boxed b blk0 hblk0
        · simp [upd_other _ _ _ _ eb] at hb; exact h.boxed b blk hb
      · intro w x hw
        by_cases ew : w = v
        · subst ew; simp at hw
        · simp [upd_other _ _ _ _ ew] at hw; exact h.inl w x hw
      · intro w hw
        have : w ≠ v := by omega
        simp [upd_other _ _ _ _ this]; exact h.out w hw

theorem read_clear_same (s : State) (v : Nat) : (clear s v).read v = .null := by
  simp [State.read, clear_vars]

/-- `clear()` of one variable does not change what any other variable reads -/
theorem read_clear_other {s : State} {e} (h : Inv s e) (v w : Nat) (hv : v < nslots) (hvw : w ≠ v) :
    (clear s v).read w = s.read w := by
  have hvars : (clear s v).vars w = s.vars w := by rw [clear_vars, upd_other _ _ _ _ hvw]
  simp only [State.read, hvars]
  cases hw : s.vars w with
  | null => rfl
  | inl x => rfl
  | ptr b =>
    simp only
    have hwlt : w < nslots := by
      by_cases hl : w < nslots
      · exact hl
      · have := h.out w (by omega); rw [this] at hw; cases hw
    obtain ⟨blk, hblk⟩ := h.live w b hw
    cases hc : s.vars v with
    | null => simp [clear, hc]
    | inl x => simp [clear, hc]
    | ptr b0 =>
      obtain ⟨blk0, hblk0⟩ := h.live v b0 hc
      by_cases eb : b = b0
      · subst eb
        have two := two_handles s.vars v w b hv hwlt hvw hc hw
        have := h.cnt b blk0 hblk0
        have hr : ¬ blk0.ref = 1 := by omega
        rw [hblk] at hblk0; injection hblk0 with e2; subst e2
        simp [clear, hc, hblk, hr]
      · by_cases hr : blk0.ref = 1 <;> simp [clear, hc, hblk0, hr, upd_other _ _ _ _ eb, hblk]

/-- after `clear()` the variable does not point anywhere -/
theorem clear_not_ptr (s : State) (v : Nat) : ∀ b, (clear s v).vars v ≠ .ptr b := by
  intro b; rw [clear_vars]; simp

/-! ### atom 3: allocation of a block with one pending handle -/

theorem inv_alloc {s : State} {e} (h : Inv s e) (x : Val) (hx : x.isBoxed = true) :
    Inv (alloc s x).1 (bump e s.next) := by
  have hn : s.heap s.next = none := h.fresh s.next (Nat.le_refl _)
  have hz : handles s.vars s.next = 0 := by
    unfold handles handlesN
    apply List.countP_eq_zero.2
    intro v _ hp
    have := (isPtrTo_iff _ _).1 hp
    obtain ⟨k, hk⟩ := h.live v s.next this
    rw [hn] at hk; cases hk
  constructor
  · intro v b hv
    simp only [alloc] at hv ⊢
    obtain ⟨k, hk⟩ := h.live v b hv
    have : b ≠ s.next := by intro eb; subst eb; rw [hn] at hk; cases hk
    exact ⟨k, by simp [upd_other _ _ _ _ this, hk]⟩
  · intro b blk hb
    simp only [alloc] at hb ⊢
    by_cases eb : b = s.next
    · subst eb; simp at hb; subst hb
      have := h.efresh _ hn
      simp [bump, hz, this]
    · simp [upd_other _ _ _ _ eb] at hb
      have := h.cnt b blk hb
      simp [bump, eb]; omega
  · intro b blk hb
    simp only [alloc] at hb
    by_cases eb : b = s.next
    · subst eb; simp at hb; subst hb; simp
    · simp [upd_other _ _ _ _ eb] at hb; exact h.pos b blk hb
  · intro b hb
    simp only [alloc] at hb ⊢
    have : b ≠ s.next := by omega
    simp [upd_other _ _ _ _ this]; exact h.fresh b (by omega)
  · intro b hb
    simp only [alloc] at hb
    by_cases eb : b = s.next
    · subst eb; simp at hb
    · simp [upd_other _ _ _ _ eb] at hb; simp [bump, eb]; exact h.efresh b hb
  · intro b blk hb
    simp only [alloc] at hb
    by_cases eb : b = s.next
    · subst eb; simp at hb; subst hb; exact hx
    · simp [upd_other _ _ _ _ eb] at hb; exact h.boxed b blk hb
  · exact h.inl
  · exact h.out

theorem alloc_snd (s : State) (x : Val) : (alloc s x).2 = s.next := rfl
theorem alloc_heap_new (s : State) (x : Val) : (alloc s x).1.heap s.next = some ⟨1, x⟩ := by simp [alloc]
theorem alloc_vars (s : State) (x : Val) : (alloc s x).1.vars = s.vars := rfl

theorem read_alloc {s : State} {e} (h : Inv s e) (x : Val) (w : Nat) : (alloc s x).1.read w = s.read w := by
  simp only [State.read, alloc]
  cases hw : s.vars w with
  | null => rfl
  | inl y => rfl
  | ptr b =>
    obtain ⟨k, hk⟩ := h.live w b hw
    have hn : s.heap s.next = none := h.fresh s.next (Nat.le_refl _)
    have : b ≠ s.next := by intro eb; subst eb; rw [hn] at hk; cases hk
    simp [upd_other _ _ _ _ this]

/-! ### atom 4: store a descriptor pointer into a variable that points nowhere -/

def setCell (s : State) (v : Nat) (c : Cell) : State := { s with vars := upd s.vars v c }

theorem inv_setPtr {s : State} {e} (h : Inv s e) (v b : Nat) (hv : v < nslots) (hn : ∀ c, s.vars v ≠ .ptr c)
    (blk : Block) (hb : s.heap b = some blk) (he : 1 ≤ e b) : Inv (setCell s v (.ptr b)) (unbump e b) := by
  have hh : ∀ c, handles (upd s.vars v (.ptr b)) c = handles s.vars c + (if b = c then 1 else 0) := by
    intro c; have := handles_upd s.vars v (.ptr b) c hv
    have h0 : isPtrTo (s.vars v) c = false := by
      cases hc : isPtrTo (s.vars v) c
      · rfl
      · exact absurd ((isPtrTo_iff _ _).1 hc) (hn c)
    simp [h0, isPtrTo] at this; exact this
  constructor
  · intro w c hw
    simp only [setCell] at hw ⊢
    by_cases ew : w = v
    · subst ew; simp at hw; subst hw; exact ⟨blk, hb⟩
    · simp [upd_other _ _ _ _ ew] at hw; exact h.live w c hw
  · intro c k hk
    simp only [setCell] at hk ⊢
    have := h.cnt c k hk
    rw [hh c]
    by_cases ec : c = b
    · subst ec; simp [unbump]; omega
    · have : ¬ b = c := fun x => ec x.symm
      simp [unbump, ec, this]; omega
  · exact h.pos
  · exact h.fresh
  · intro c hc
    simp only [setCell] at hc
    have := h.efresh c hc
    simp [unbump]; split <;> omega
  · exact h.boxed
  · intro w x hw
    simp only [setCell] at hw
    by_cases ew : w = v
    · subst ew; simp at hw
    · simp [upd_other _ _ _ _ ew] at hw; exact h.inl w x hw
  · intro w hw
    have : w ≠ v := by omega
    simp [setCell, upd_other _ _ _ _ this]; exact h.out w hw

theorem inv_setInl {s : State} {e} (h : Inv s e) (v : Nat) (hv : v < nslots) (hn : ∀ c, s.vars v ≠ .ptr c)
    (c : Cell) (hc : c = .null ∨ ∃ x, c = .inl x ∧ x.isBoxed = false) : Inv (setCell s v c) e := by
  have hnp : ∀ b, isPtrTo c b = false := by
    intro b; rcases hc with rfl | ⟨x, rfl, _⟩ <;> rfl
  have hh : ∀ b, handles (upd s.vars v c) b = handles s.vars b := by
    intro b; have := handles_upd s.vars v c b hv
    have h0 : isPtrTo (s.vars v) b = false := by
      cases hp : isPtrTo (s.vars v) b
      · rfl
      · exact absurd ((isPtrTo_iff _ _).1 hp) (hn b)
    simp [h0, hnp b] at this; exact this
  constructor
  · intro w b hw
    simp only [setCell] at hw ⊢
    by_cases ew : w = v
    · subst ew; simp at hw; subst hw; have := hnp b; simp [isPtrTo] at this
    · simp [upd_other _ _ _ _ ew] at hw; exact h.live w b hw
  · intro b k hk
    simp only [setCell] at hk ⊢
    rw [hh b]; exact h.cnt b k hk
  · exact h.pos
  · exact h.fresh
  · exact h.efresh
  · exact h.boxed
  · intro w x hw
    simp only [setCell] at hw
    by_cases ew : w = v
    · subst ew; simp at hw; subst hw
      rcases hc with hc | ⟨y, hy, hyb⟩
      · cases hc
      · injection hy with hy; subst hy; exact hyb
    · simp [upd_other _ _ _ _ ew] at hw; exact h.inl w x hw
  · intro w hw
    have : w ≠ v := by omega
    simp [setCell, upd_other _ _ _ _ this]; exact h.out w hw

theorem read_setCell_other (s : State) (v w : Nat) (c : Cell) (hvw : w ≠ v) : (setCell s v c).read w = s.read w := by
  simp [State.read, setCell, upd_other _ _ _ _ hvw]

theorem read_setCell_ptr (s : State) (v b : Nat) (blk : Block) (hb : s.heap b = some blk) :
    (setCell s v (.ptr b)).read v = blk.val := by
  simp [State.read, setCell, hb]

theorem read_setCell_inl (s : State) (v : Nat) (x : Val) : (setCell s v (.inl x)).read v = x := by
  simp [State.read, setCell]

theorem read_setCell_null (s : State) (v : Nat) : (setCell s v .null).read v = .null := by
  simp [State.read, setCell]

/-! ### atom 5: write in place into a block that has exactly one handle -/

def poke (s : State) (b : Nat) (blk : Block) (y : Val) : State :=
  { s with heap := upd s.heap b (some { blk with val := y }) }

theorem inv_poke {s : State} {e} (h : Inv s e) (b : Nat) (blk : Block) (hb : s.heap b = some blk) (y : Val)
    (hy : y.isBoxed = true) : Inv (poke s b blk y) e := by
  constructor
  · intro v c hv
    simp only [poke] at hv ⊢
    by_cases ec : c = b
    · subst ec; exact ⟨{ blk with val := y }, by simp⟩
    · obtain ⟨k, hk⟩ := h.live v c hv
      exact ⟨k, by simp [upd_other _ _ _ _ ec, hk]⟩
  · intro c k hk
    simp only [poke] at hk ⊢
    by_cases ec : c = b
    · subst ec; simp at hk; subst hk; exact h.cnt c blk hb
    · simp [upd_other _ _ _ _ ec] at hk; exact h.cnt c k hk
  · intro c k hk
    simp only [poke] at hk
    by_cases ec : c = b
    · subst ec; simp at hk; subst hk; exact h.pos c blk hb
    · simp [upd_other _ _ _ _ ec] at hk; exact h.pos c k hk
  · intro c hc
    simp only [poke]
    by_cases ec : c = b
    · subst ec; have := h.fresh c hc; rw [hb] at this; cases this
    · simp [upd_other _ _ _ _ ec]; exact h.fresh c hc
  · intro c hc
    simp only [poke] at hc
    by_cases ec : c = b
    · subst ec; simp at hc
    · simp [upd_other _ _ _ _ ec] at hc; exact h.efresh c hc
  · intro c k hk
    simp only [poke] at hk
    by_cases ec : c = b
    · subst ec; simp at hk; subst hk; exact hy
    · simp [upd_other _ _ _ _ ec] at hk; exact h.boxed c k hk
  · exact h.inl
  · exact h.out

theorem read_poke_same (s : State) (v b : Nat) (blk : Block) (y : Val) (hv : s.vars v = .ptr b) :
    (poke s b blk y).read v = y := by
  simp [State.read, poke, hv]

/-- the in-place write is invisible to every other variable: the block has a single handle -/
theorem read_poke_other {s : State} {e} (h : Inv s e) (v w b : Nat) (blk : Block) (y : Val) (hv : v < nslots)
    (hvb : s.vars v = .ptr b) (hb : s.heap b = some blk) (hr : blk.ref = 1) (hvw : w ≠ v) :
    (poke s b blk y).read w = s.read w := by
  simp only [State.read, poke]
  cases hw : s.vars w with
  | null => rfl
  | inl x => rfl
  | ptr c =>
    have hwlt : w < nslots := by
      by_cases hl : w < nslots
      · exact hl
      · have := h.out w (by omega); rw [this] at hw; cases hw
    have : c ≠ b := by
      intro ec; subst ec
      have two := two_handles s.vars v w c hv hwlt hvw hvb hw
      have := h.cnt c blk hb
      omega
    simp [upd_other _ _ _ _ this]

end Nstd.Variant
