import Nstd.Common.Basic
import Nstd.Variant.Spec
import Nstd.Variant.Deep
import Nstd.Variant.DeepSelf
import Nstd.Variant.Ieee
/-
  Line protocol of the Variant area (6 variables).

    new v <val>            destroy + typed constructor           <val> = <lit> | list <src>* | arr <src>* | map (<khex> <src>)*
    copy v w               destroy + copy constructor (v ≠ w)
    mut v <path> <leaf>    walk from variable v through mutable accessors, then
        assign <src> | set <val> | clear | touch 7|8|9|10 | lapp <src> | lpre <src> | lrem i
        | aapp <src> | arem i | mput <khex> <src> | mrem <khex> | sapp <hex>
    get v w <path>         var[v] = <const walk in var[w]>
    swap v w
    stats                  (driver only) coverage counters read off the model: copy-on-write branches, depths, refused lines
    selfapp l|a|m|n|e|k    probe of the finding "self-append" on a local Variant (prints container sizes along `.back()`)
    <path> = `.` | steps joined by `/`:  l<i> (list item)  a<i> (array item)  m<khex> (map value)
    <src>  = v<k> | <lit>
    <lit>  = n | b0 | b1 | d<16 hex digits> | i<int> | u<nat> | l<int> | q<nat> | s<hex>

  Observation after every op, for every variable:
     `<type> <toBool> <toInt> <toUInt> <toInt64> <toUInt64> <toDouble is zero: z|n> <toDouble bits: 16 hex digits | nan> <toString hex> <value> <value with refs>`
  (`<value with refs>`: every boxed Variant, nested ones included, carries `#<data->ref>` of its block),
  joined by ` | `, then ` # ` and the 6×6 matrix of `==` (row-major, `0`/`1`/`?`).
  `?` = the real code evaluates a double→integer cast that C leaves undefined.
-/
open Nstd.Common
namespace Nstd.Variant

def hexNat (s : String) : Option Nat :=
  s.toList.foldl (fun acc c => do
    let a ← acc
    let x ← hexVal c
    pure (a * 16 + x)) (some 0)

def parseInt (s : String) : Option Int :=
  if s.startsWith "-" then (s.drop 1).toNat?.map (fun n => -(n : Int)) else s.toNat?.map (fun n => (n : Int))

def parseLit (t : String) : Option Val :=
  let body := (t.drop 1).toString
  match t.toList.head? with
  | some 'n' => if body == "" then some .null else none
  | some 'b' => if body == "0" then some (.bool false) else if body == "1" then some (.bool true) else none
  | some 'd' => if body.length == 16 then (hexNat body).map .dbl else none
  | some 'i' => (parseInt body).bind (fun i => if -(2 ^ 31 : Int) ≤ i ∧ i < 2 ^ 31 then some (.int i) else none)
  | some 'u' => (parseInt body).bind (fun i => if 0 ≤ i ∧ i < 2 ^ 32 then some (.uint i) else none)
  | some 'l' => (parseInt body).bind (fun i => if -(2 ^ 63 : Int) ≤ i ∧ i < 2 ^ 63 then some (.int64 i) else none)
  | some 'q' => (parseInt body).bind (fun i => if 0 ≤ i ∧ i < 2 ^ 64 then some (.uint64 i) else none)
  | some 's' => (fromHex body).map .str
  | _ => none

def parseSrc (t : String) : Option Src :=
  if t.startsWith "v" then ((t.drop 1).toString.toNat?).map .var else (parseLit t).map .lit

def parseSrcs : List String → Option (List Src)
  | [] => some []
  | t :: r => do
    let a ← parseSrc t
    let b ← parseSrcs r
    pure (a :: b)

def parsePairs : List String → Option (List (Str × Src))
  | [] => some []
  | [_] => none
  | k :: t :: r => do
    let kk ← fromHex k
    let a ← parseSrc t
    let b ← parsePairs r
    pure ((kk, a) :: b)

def parseValS : List String → Option ValS
  | "list" :: r => (parseSrcs r).map .list
  | "arr" :: r => (parseSrcs r).map .array
  | "map" :: r => (parsePairs r).map .map
  | [t] => (parseLit t).map .lit
  | _ => none

def parseStep (t : String) : Option Step :=
  let body := (t.drop 1).toString
  match t.toList.head? with
  | some 'l' => body.toNat?.map .li
  | some 'a' => body.toNat?.map .ar
  | some 'm' => (fromHex body).map .mk
  | _ => none

def parseSteps : List String → Option (List Step)
  | [] => some []
  | t :: r => do
    let a ← parseStep t
    let b ← parseSteps r
    pure (a :: b)

def parsePath (t : String) : Option (List Step) :=
  if t == "." then some [] else parseSteps (t.splitOn "/")

def parseLeaf : List String → Option LeafS
  | ["assign", s] => (parseSrc s).map .assign
  | "set" :: r => (parseValS r).map .set
  | ["clear"] => some .clear
  | ["touch", k] => k.toNat?.map .touch
  | ["lapp", s] => (parseSrc s).map .lapp
  | ["lpre", s] => (parseSrc s).map .lpre
  | ["lrem", i] => i.toNat?.map .lrem
  | ["aapp", s] => (parseSrc s).map .aapp
  | ["arem", i] => i.toNat?.map .arem
  | ["mput", k, s] => do pure (.mput (← fromHex k) (← parseSrc s))
  | ["mrem", k] => (fromHex k).map .mrem
  | ["sapp", t] => (fromHex t).map .sapp
  | _ => none

def parseOp : List String → Option Op
  | "new" :: v :: r => do pure (.new (← v.toNat?) (← parseValS r))
  | ["copy", v, w] => do pure (.copy (← v.toNat?) (← w.toNat?))
  | "mut" :: v :: p :: r => do pure (.mut (← v.toNat?) (← parsePath p) (← parseLeaf r))
  | ["get", v, w, p] => do pure (.get (← v.toNat?) (← w.toNat?) (← parsePath p))
  | ["swap", v, w] => do pure (.swap (← v.toNat?) (← w.toNat?))
  | _ => none

/-! ### rendering -/

def hex16 (d : Nat) : String :=
  String.join ((List.range 8).map (fun i => byteHex (d / 256 ^ (7 - i) % 256)))

mutual
def render : Val → String
  | .null => "n"
  | .bool b => if b then "b1" else "b0"
  | .dbl d => "d" ++ hex16 d
  | .int i => s!"i{i}"
  | .uint i => s!"u{i}"
  | .int64 i => s!"l{i}"
  | .uint64 i => s!"q{i}"
  | .str s => "s" ++ toHex s
  | .list l => "L[" ++ renderList l ++ "]"
  | .array l => "A[" ++ renderList l ++ "]"
  | .map m => "M{" ++ renderMap m ++ "}"
def renderList : List Val → String
  | [] => ""
  | [a] => render a
  | a :: t => render a ++ "," ++ renderList t
def renderMap : List (Str × Val) → String
  | [] => ""
  | [(k, a)] => toHex k ++ ":" ++ render a
  | (k, a) :: t => toHex k ++ ":" ++ render a ++ "," ++ renderMap t
end

def optInt : Option Int → String
  | some i => s!"{i}"
  | none => "?"

/-- `toDouble()` as its bit pattern; every NaN prints as `nan` -/
def dblTok (d : Nat) : String := if dIsNaN d then "nan" else hex16 d

def obsVar (x : Val) : String :=
  s!"{x.type} {if x.toBool ieee then 1 else 0} {optInt (x.toInt ieee)} {optInt (x.toUInt ieee)} " ++
  s!"{optInt (x.toInt64 ieee)} {optInt (x.toUInt64 ieee)} {if ieee.isZero (x.toDouble ieee) then "z" else "n"} {dblTok (x.toDouble ieee)} " ++
  s!"{toHex (x.toStr ieee)} {render x}"

def eqChar : Option Bool → String
  | some true => "1"
  | some false => "0"
  | none => "?"

open Deep in
/-- the value with the reference count of every block: `L#2[i1,s#1:6162]` -/
def renderRefs : Nat → Deep.Heap → Cell → String
  | 0, _, _ => "!depth"
  | f + 1, s, c =>
    match c with
    | .null => "n"
    | .inl x => render x
    | .ptr b =>
      (match s.heap b with
       | none => "!dangling"
       | some blk =>
         (match blk.pay with
          | .str t => s!"s#{blk.ref}:" ++ toHex t
          | .list cs => s!"L#{blk.ref}[" ++ ",".intercalate (cs.map (renderRefs f s)) ++ "]"
          | .array cs => s!"A#{blk.ref}[" ++ ",".intercalate (cs.map (renderRefs f s)) ++ "]"
          | .map m => s!"M#{blk.ref}" ++ "{" ++ ",".intercalate (m.map (fun p => toHex p.1 ++ ":" ++ renderRefs f s p.2)) ++ "}"))

def obs (s : Deep.DState) : String :=
  let vals := (List.range nvars).map s.read
  " | ".intercalate ((List.range nvars).map (fun v => obsVar (s.read v) ++ " " ++ renderRefs (s.h.next + 1) s.h (s.vars v))) ++ " # " ++
    String.join (vals.map (fun a => String.join (vals.map (fun b => eqChar (veq ieee a b)))))

/-! ### coverage counters (evidence only; `stats` is answered by the driver alone)

The branch decisions are read off the model itself: the walk is replayed with the model's own
functions and the condition of every copy-on-write test (`type differs || ref > 1`) on the way is
recorded before the corresponding step is taken. -/

structure Stats where
  lines : Nat := 0
  refused : Nat := 0
  faults : Nat := 0
  accRootClone : Nat := 0      -- mutable accessor on a variable: new block (type differs or shared)
  accRootInPlace : Nat := 0
  accNestedClone : Nat := 0    -- … on an element reached through accessors
  accNestedInPlace : Nat := 0
  accSharedClone : Nat := 0    -- clones taken because `ref > 1` with the right type (the lazy-copy path proper)
  setClone : Nat := 0          -- typed String/List/Array/HashMap assignment: new block
  setInPlace : Nat := 0
  maxPath : Nat := 0
  maxDepth : Nat := 0          -- deepest value held by a variable
  blocks : Nat := 0            -- blocks allocated
  selfTemp : Nat := 0          -- typed assignment below the root of a temporary that holds copies of the destination
  freed : Nat := 0             -- blocks freed by `clear()` / destructor cascades (allocated - live at reset)

open Deep in
def cowCond (h : Heap) (c : Cell) (kind : Nat) : Bool × Bool :=
  (decide (cellType h c ≠ kind ∨ cellRef h c > 1), decide (cellType h c = kind ∧ cellRef h c > 1))

def Stats.acc (st : Stats) (nested : Bool) (cond : Bool × Bool) : Stats :=
  let st := if cond.2 then { st with accSharedClone := st.accSharedClone + 1 } else st
  match nested, cond.1 with
  | false, true => { st with accRootClone := st.accRootClone + 1 }
  | false, false => { st with accRootInPlace := st.accRootInPlace + 1 }
  | true, true => { st with accNestedClone := st.accNestedClone + 1 }
  | true, false => { st with accNestedInPlace := st.accNestedInPlace + 1 }

open Deep in
/-- replay of `walkMut` that only records the copy-on-write decisions -/
def traceWalk (fuel : Nat) (rd : Nat → Cell) (h : Heap) (c : Cell) (nested : Bool) (st : Stats) : List Step → LeafS → Stats
  | [], lf =>
    (match lf with
     | .touch k => st.acc nested (cowCond h c k)
     | .lapp _ | .lpre _ | .lrem _ => st.acc nested (cowCond h c 8)
     | .aapp _ | .arem _ => st.acc nested (cowCond h c 9)
     | .mput _ _ | .mrem _ => st.acc nested (cowCond h c 7)
     | .sapp _ => st.acc nested (cowCond h c 10)
     | .set e =>
       (match e with
        | .lit (.str _) =>
          if (cowCond h c 10).1 then { st with setClone := st.setClone + 1 } else { st with setInPlace := st.setInPlace + 1 }
        | .lit _ => st
        | e =>
          (match tmpPay fuel rd h e with
           | some (h1, p) =>
             if (cowCond h1 c p.type).1 then { st with setClone := st.setClone + 1 } else { st with setInPlace := st.setInPlace + 1 }
           | none => st))
     | _ => st)
  | s :: p, lf =>
    let st := st.acc nested (cowCond h c s.kind)
    (match accessCell fuel ieee h c s.kind with
     | some (h1, .ptr b) =>
       (match h1.heap b with
        | some blk =>
          (match blk.pay.getCell s with
           | some ci => traceWalk fuel rd (setPay h1 b (blk.pay.setCell s .null)) ci true st p lf
           | none => st)
        | none => st)
     | _ => st)

mutual
def valDepth : Val → Nat
  | .list l => valDepthL l + 1
  | .array l => valDepthL l + 1
  | .map m => valDepthM m + 1
  | _ => 0
def valDepthL : List Val → Nat
  | [] => 0
  | a :: t => max (valDepth a) (valDepthL t)
def valDepthM : List (Str × Val) → Nat
  | [] => 0
  | (_, a) :: t => max (valDepth a) (valDepthM t)
end

open Deep in
def liveBlocks (h : Heap) : Nat := (List.range h.next).countP (fun i => (h.heap i).isSome)

def Stats.closeHistory (st : Stats) (s : Deep.DState) : Stats :=
  { st with blocks := st.blocks + s.h.next, freed := st.freed + (s.h.next - liveBlocks s.h) }

def Stats.show (st : Stats) : String :=
  s!"stats lines={st.lines} refused={st.refused} faults={st.faults} acc_root_clone={st.accRootClone} " ++
  s!"acc_root_inplace={st.accRootInPlace} acc_nested_clone={st.accNestedClone} acc_nested_inplace={st.accNestedInPlace} " ++
  s!"acc_clone_because_shared={st.accSharedClone} set_clone={st.setClone} set_inplace={st.setInPlace} " ++
  s!"self_temp_lines={st.selfTemp} max_path={st.maxPath} max_value_depth={st.maxDepth} blocks_allocated={st.blocks} blocks_freed={st.freed}"

def traceOp (s : Deep.DState) (st : Stats) (op : Op) : Stats :=
  match op with
  | .mut v p lf =>
    let st := { st with maxPath := max st.maxPath p.length }
    (match p, lf with
     | [], .assign (.var _) => st
     | p, lf =>
       if selfTemp v p lf then
         -- the temporary (here: the copy of v in the spare slot) exists before the walk
         (match lf with
          | .set e =>
            traceWalk (s.h.next + Deep.allocBound op + 1) (upd s.vars tmpVar (Deep.copyCell s.h (s.vars v)).2)
              (Deep.copyCell s.h (s.vars v)).1 (s.vars v) false { st with selfTemp := st.selfTemp + 1 } p (.set (e.redirect v tmpVar))
          | _ => st)
       else traceWalk (s.h.next + Deep.allocBound op + 1) s.vars s.h (s.vars v) false st p lf)
  | _ => st


open Deep in
/-- container sizes along `x, x.back(), x.back().back(), …` (5 levels) read off the heap -/
def backChain : Nat → Heap → Option Cell → List Nat
  | 0, _, _ => []
  | f + 1, h, c =>
    match c with
    | some (.ptr b) =>
      (match h.heap b with
       | some blk =>
         (match blk.pay with
          | .str _ => 0 :: backChain f h none
          | p => p.cells.length :: backChain f h p.cells.getLast?)
       | none => 0 :: backChain f h none)
    | _ => 0 :: backChain f h none

open Deep in
/-- the probes of the harness (`opSelfApp`) on the model of the real code -/
def selfProbe (k : String) : Option (List Nat) :=
  let run (s : DState) (p : List Step) (lk : LinkKind) : Option (List Nat) :=
    (selfLink ieee s 0 p lk).map (fun s' => backChain 5 s'.h (some (s'.vars 0)))
  if k == "l" then run dinit [] .lapp
  else if k == "a" then run dinit [] .aapp
  else if k == "m" then run dinit [] (.mput [107])
  else if k == "n" then
    -- v.toList().append(Variant(List<Variant>())); v.toList().back().toList().append(v)
    (do let s1 ← dstep ieee dinit (.new 1 (.list []))
        let s2 ← dstep ieee s1 (.mut 0 [] (.lapp (.var 1)))
        let s3 ← dstep ieee s2 (.mut 1 [] .clear)
        run s3 [.li 0] .lapp)
  else if k == "e" then
    -- v.toList().append(Variant(1)); v.toList().back() = v
    (do let s1 ← dstep ieee dinit (.mut 0 [] (.lapp (.lit (.int 1))))
        let s' ← selfAssign ieee s1 0 [] (.li 0)
        pure (backChain 5 s'.h (some (s'.vars 0))))
  else if k == "k" then
    -- v.toMap().append("k", Variant(1)); v.toMap().append("k", v)   (existing key: HashMap::insert runs *it = value)
    (do let s1 ← dstep ieee dinit (.mut 0 [] (.mput [107] (.lit (.int 1))))
        let s' ← selfAssign ieee s1 0 [] (.mk [107])
        pure (backChain 5 s'.h (some (s'.vars 0))))
  else none

def stepLine (ss : Deep.DState × Stats) (ws : List String) : (Deep.DState × Stats) × String :=
  let (s, st) := ss
  match ws with
  | ["reset"] => ((Deep.dinit, st.closeHistory s), obs Deep.dinit)
  | ["stats"] => (ss, (st.closeHistory s).show)
  | ["selfapp", k] =>
    -- finding "self-append": outside the precondition `mutOk`.  The line answers with what the *model of the real
    -- code* (`Deep.selfLink`: accessor chain, copy of the current v, link — DeepSelf.lean) predicts: the container
    -- sizes along v, v.back(), v.back().back(), … in the cyclic heap.  (`e`, `k`: the element assignment forms, `Deep.selfAssign`.)
    (ss, match selfProbe k with
         | some sizes => s!"selfapp {k} " ++ " ".intercalate (sizes.map toString)
         | none => "bad-op")
  | _ =>
    let st := { st with lines := st.lines + 1 }
    match parseOp ws with
    | none => ((s, { st with refused := st.refused + 1 }), "bad-op")
    | some op =>
      -- the line is valid iff the specification accepts it on the current values
      -- (what the harness checks on the const view before it touches anything)
      match specStep ieee s.read op with
      | none => ((s, { st with refused := st.refused + 1 }), "bad-op")
      | some _ =>
        let st := traceOp s st op
        match Deep.dstep ieee s op with
        | some s' =>
          let d := ((List.range nvars).map (fun v => valDepth (s'.read v))).foldl max 0
          ((s', { st with maxDepth := max st.maxDepth d }), obs s')
        | none => ((Deep.dinit, { st with faults := st.faults + 1 }), "FAULT")

end Nstd.Variant

def main : IO Unit := Nstd.Common.ioLoop (Nstd.Variant.Deep.dinit, ({} : Nstd.Variant.Stats)) Nstd.Variant.stepLine
