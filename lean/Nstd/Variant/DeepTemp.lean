import Nstd.Variant.DeepLeaf
/-
  Typed assignment of a List / Array built as a temporary from copies of variables and literals:
  `tmp` is built (`srcCopies`), `operator=(const List&)` copies it into a new block or in place,
  `tmp` is destroyed.
-/
namespace Nstd.Variant.Deep
open Nstd.Variant

/-- the temporary holds one pending handle per element -/
structure CopiedL (h : Heap) (vars : Nat → Cell) (e : Nat → Nat) (g : Nat → Val) (ys : List Val) (n : Nat)
    (h' : Heap) (cs : List Cell) (g' : Nat → Val) : Prop where
  inv : DInv h' vars (fun x => e x + cntCells cs x) g'
  val : cs.map (absCell g') = ys
  ok : ∀ c ∈ cs, ∀ z, c = .inl z → z.isBoxed = false
  frame : ∀ x, x < h.next → g' x = g x
  keep : ∀ x blk, h.heap x = some blk → ∃ blk', h'.heap x = some blk' ∧ blk'.pay = blk.pay
  sub : PaySubE h h'
  next_le : h.next ≤ h'.next
  next_ge : h'.next ≤ h.next + n
  live : liveCount h' ≤ liveCount h + n
  tgt : ∀ c ∈ cs, ∀ b, c = .ptr b → 1 ≤ handles vars b ∨ h.heap b = none

theorem paySubE_trans {a b c : Heap} (x : PaySubE a b) (y : PaySubE b c) : PaySubE a c := by
  intro k blk'' hk
  rcases y k blk'' hk with ⟨blk', h1, e1⟩ | he
  · rcases x k blk' h1 with ⟨blk, h2, e2⟩ | he2
    · exact Or.inl ⟨blk, h2, e1.trans e2⟩
    · exact Or.inr (by rw [e1]; exact he2)
  · exact Or.inr he

theorem dinv_srcCopies (rd : Nat → Cell) {vars : Nat → Cell} : ∀ (l : List Src) (h : Heap) (e : Nat → Nat) (g : Nat → Val),
    DInv h vars e g → (∀ s ∈ l, SrcOk rd vars s) →
    ∃ g', CopiedL h vars e g (l.map (srcVal g vars)) l.length (srcCopies rd h l).1 (srcCopies rd h l).2 g' := by
  intro l
  induction l with
  | nil =>
    intro h e g i _
    exact ⟨g, i.congr (by intro x; simp [srcCopies, cntCells_nil]), rfl, (by intro c hc; simp [srcCopies] at hc),
      (fun _ _ => rfl), (fun x blk hx => ⟨blk, hx, rfl⟩), (fun x blk' hx => Or.inl ⟨blk', hx, rfl⟩), Nat.le_refl _,
      (by simp [srcCopies]), (by simp [srcCopies]), (by intro c hc; simp [srcCopies] at hc)⟩
  | cons s t ih =>
    intro h e g i hok
    obtain ⟨g1, cp⟩ := dinv_srcCopy rd i s (hok s (by simp))
    obtain ⟨g2, cl⟩ := ih (srcCopy rd h s).1 _ g1 cp.inv (fun s' hs' => hok s' (by simp [hs']))
    have hcs : srcCopies rd h (s :: t) = ((srcCopies rd (srcCopy rd h s).1 t).1, (srcCopy rd h s).2 :: (srcCopies rd (srcCopy rd h s).1 t).2) := rfl
    rw [hcs]
    refine ⟨g2, cl.inv.congr ?_, ?_, ?_, ?_, ?_, paySubE_trans cp.sub cl.sub, ?_, ?_, ?_, ?_⟩
    · intro x; simp only [cntCells_cons]; omega
    · simp only [List.map_cons, cl.val]
      congr 1
      · -- the first element keeps its value under the later ghost map
        rw [← cp.val]
        apply absCell_congr
        intro b hb
        have hlive : ∃ k, (srcCopy rd h s).1.heap b = some k :=
          live_of_pending cp.inv b (by show 1 ≤ _ + cellCnt _ b; rw [hb]; simp [cellCnt_ptr])
        obtain ⟨k, hk⟩ := hlive
        exact cl.frame b (cp.inv.lt_next b k hk)
      · -- the later sources have the same values under g and g1
        apply List.map_congr_left
        intro s' hs'
        simp only [srcVal]
        cases s' with
        | lit x => rfl
        | var w =>
          simp only [Src.eval]
          apply absCell_congr
          intro b hb
          obtain ⟨k, hk⟩ := i.live w b hb
          exact cp.frame b (i.lt_next b k hk)
    · intro c hc z hz
      simp only [List.mem_cons] at hc
      rcases hc with rfl | hc
      · exact cp.ok z hz
      · exact cl.ok c hc z hz
    · intro x hx
      rw [cl.frame x (by have := cp.next_le; omega), cp.frame x hx]
    · intro x blk hx
      obtain ⟨b1, h1, e1⟩ := cp.keep x blk hx
      obtain ⟨b2, h2, e2⟩ := cl.keep x b1 h1
      exact ⟨b2, h2, e2.trans e1⟩
    · have := cp.next_le; have := cl.next_le; show h.next ≤ (srcCopies rd (srcCopy rd h s).1 t).1.next; omega
    · have := cp.next_ge; have := cl.next_ge
      show (srcCopies rd (srcCopy rd h s).1 t).1.next ≤ h.next + (t.length + 1); omega
    · have := cp.live; have := cl.live
      show liveCount (srcCopies rd (srcCopy rd h s).1 t).1 ≤ liveCount h + (t.length + 1); omega
    · intro c hc b hb
      simp only [List.mem_cons] at hc
      rcases hc with rfl | hc
      · exact cp.tgt b hb
      · rcases cl.tgt c hc b hb with h1 | h1
        · exact Or.inl h1
        · -- not live after the first copy: not live before
          right
          cases hh : h.heap b with
          | none => rfl
          | some k =>
            obtain ⟨k', hk', _⟩ := cp.keep b k hh
            rw [hk'] at h1; cases h1


theorem seqPay_cells (isArr : Bool) (cs : List Cell) : (seqPay isArr cs).cells = cs := by cases isArr <;> rfl
theorem seqPay_type (isArr : Bool) (cs : List Cell) : (seqPay isArr cs).type = seqKind isArr := by cases isArr <;> rfl
theorem seqPay_abs (isArr : Bool) (g : Nat → Val) (cs : List Cell) :
    absPay g (seqPay isArr cs) = seqVal isArr (cs.map (absCell g)) := by cases isArr <;> rfl

/-- The typed `operator=` with a temporary container `p` whose element cells are pending handles, followed
    by the destruction of the temporary: clone branch or in-place branch, as coded. -/
theorem setTmp_core {h1 : Heap} {vars e1 g1 c} (hd1 : Held h1 vars e1 g1 c) (p : Pay)
    (hpend : ∀ x, cellCnt c x + cntCells p.cells x ≤ e1 x)
    (hok : ∀ d ∈ p.cells, ∀ z, d = .inl z → z.isBoxed = false) (f : Nat) (hf : liveCount h1 + 1 < f) :
    ∃ h' c' g',
      (match setBoxedCell f h1 c p with
       | some (s2, c') => (releaseAll f s2 p.cells).map (fun s3 => (s3, c'))
       | none => none) = some (h', c') ∧
      CellStep h1 vars (fun x => e1 x - cntCells p.cells x) g1 c (absPay g1 p) 1 h' c' g' := by
  have i1 := hd1.inv
  have hlive_tmp : ∀ {h' : Heap} {e' : Nat → Nat} {g' : Nat → Val}, DInv h' vars e' g' → (∀ x, cntCells p.cells x ≤ e' x) →
      ∀ d ∈ p.cells, CellOk h' d := by
    intro h' e' g' i' hp' d hdm
    refine ⟨hok d hdm, ?_⟩
    intro t ht
    have := cellCnt_le_of_mem p.cells d t hdm
    rw [ht] at this; simp [cellCnt_ptr] at this
    exact live_of_pending i' t (by have := hp' t; omega)
  by_cases hc : cellType h1 c ≠ p.type ∨ cellRef h1 c > 1
  · -- new block
    obtain ⟨h2, r2, i2, s2⟩ := dinv_release f h1 _ c i1 hd1.pend (by omega)
    have hok2 := hlive_tmp i2 (by intro x; have := hpend x; show _ ≤ e1 x - cellCnt c x; omega)
    have hcp := dinv_copyPay i2 p hok2
    generalize hcpe : copyPay h2 p = cpr at hcp
    obtain ⟨h3, p2⟩ := cpr
    simp only at hcp
    obtain ⟨i3, a3, sl3, _, _, o3, c3⟩ := hcp
    have hok3 : ∀ d ∈ p2.cells, CellOk h3 d := by
      intro d hdm
      refine ⟨o3 d hdm, ?_⟩
      intro t ht
      have := cellCnt_le_of_mem p2.cells d t hdm
      rw [ht] at this; simp [cellCnt_ptr] at this
      exact live_of_pending i3 t (by show 1 ≤ _ + cntCells p2.cells t; omega)
    have i4 := dinv_alloc i3 p2 hok3 (fun x => Nat.le_add_left _ _)
    have hn3 : h3.next = h1.next := by rw [show h3.next = h2.next from sl3.1, s2.next]
    have hl4 : liveCount (alloc h3 p2).1 ≤ liveCount h1 + 1 := by
      rw [liveCount_alloc i3, liveCount_sameLive sl3]; have := s2.live; omega
    obtain ⟨h5, r5, i5, s5⟩ := dinv_releaseAll f p.cells _ _ i4
      (by intro x; have := hpend x; show _ ≤ e1 x - cellCnt c x + cntCells p2.cells x - cntCells p2.cells x + _; omega) (by omega)
    have hcn : cellCnt c h3.next = 0 := by
      cases hcc : c with
      | null => rfl
      | inl z => rfl
      | ptr t =>
        obtain ⟨k, hk⟩ := hd1.cellOk.2 t hcc
        have := i1.lt_next t k hk
        have : ¬ t = h3.next := by rw [hn3]; omega
        simp [cellCnt_ptr, this]
    refine ⟨h5, .ptr h3.next, upd g1 h3.next (absPay g1 p2), ?_, i5.congr ?_, ?_, (by intro z hz; cases hz), ?_, ?_, ?_, ?_⟩
    · simp only [setBoxedCell, hc, if_true, r2, hcpe, alloc_id, r5, Option.map]
    · intro x
      have := hpend x
      simp only [cellCnt_ptr]
      by_cases ex : x = h3.next
      · subst ex; simp only [if_true]; omega
      · have : ¬ h3.next = x := fun y => ex y.symm
        simp only [ex, this, if_false]; omega
    · simp only [absCell, upd_same]; exact a3
    · intro x hx _
      have hxl := lt_next_of_ne i1 x hx
      have : x ≠ h3.next := by rw [hn3]; omega
      exact upd_other _ _ _ _ this
    · rw [s5.next, alloc_next, hn3]; omega
    · rw [s5.next, alloc_next, hn3]; omega
    · have := s5.live; omega
  · -- in place
    have ht : cellType h1 c = p.type := by
      by_cases e1' : cellType h1 c = p.type
      · exact e1'
      · exact absurd (Or.inl e1') hc
    have hr : ¬ cellRef h1 c > 1 := fun r => hc (Or.inr r)
    have hk7 : 7 ≤ p.type := by cases p <;> simp [Pay.type]
    cases hcc : c with
    | null => rw [hcc] at ht; simp [cellType] at ht; omega
    | inl y =>
      rw [hcc] at ht
      have := type_lt_of_not_boxed y (hd1.ok y hcc)
      simp [cellType] at ht; omega
    | ptr b =>
      subst hcc
      obtain ⟨blk, hb⟩ := hd1.cellOk.2 b rfl
      have hpos := i1.pos b blk hb
      have href : blk.ref = 1 := by simp [cellRef, hb] at hr; omega
      have hcnt := i1.cnt b blk hb
      have hpe := hpend b
      simp [cellCnt_ptr] at hpe
      have hz : handles vars b = 0 := by omega
      have hsz : stored h1.heap h1.next b = 0 := by omega
      have htb : cntCells p.cells b = 0 := by omega
      have heb : e1 b = 1 := by omega
      have hok1 := hlive_tmp i1 (by intro x; have := hpend x; omega)
      have hcp := dinv_copyPay i1 p hok1
      generalize hcpe : copyPay h1 p = cpr at hcp
      obtain ⟨h2, p2⟩ := cpr
      simp only at hcp
      obtain ⟨i2, a2, sl2, ps2, ps2', o2, c2⟩ := hcp
      obtain ⟨blk2, hb2, ep2⟩ := ps2' b blk hb
      have hs2 : stored h2.heap h2.next b = 0 := by
        apply stored_zero
        intro j kk hj hm
        obtain ⟨k1, hk1, ek⟩ := ps2 j kk hj
        rw [ek] at hm
        exact no_store_of_zero i1 b hsz j k1 hk1 hm
      have hok2 : ∀ d ∈ p2.cells, CellOk h2 d := by
        intro d hdm
        refine ⟨o2 d hdm, ?_⟩
        intro t ht'
        have := cellCnt_le_of_mem p2.cells d t hdm
        rw [ht'] at this; simp [cellCnt_ptr] at this
        exact live_of_pending i2 t (by show 1 ≤ _ + cntCells p2.cells t; omega)
      have hp2b : cntCells p2.cells b = 0 := by rw [c2 b]; exact htb
      have i3 := dinv_setPay i2 b blk2 hb2 hz hs2 p2 hok2 (fun x => by show _ ≤ _ + cntCells p2.cells x + _; omega) hp2b
      have hl3 : liveCount (setPay h2 b p2) = liveCount h1 := by
        rw [liveCount_sameLive (h := h2)]
        · exact liveCount_sameLive sl2
        · refine ⟨by simp [setPay, hb2], ?_⟩
          intro x
          simp only [setPay, hb2]
          by_cases ex : x = b
          · subst ex; simp [hb2]
          · simp [upd_other _ _ _ _ ex]
      have hn3 : (setPay h2 b p2).next = h1.next := by simp only [setPay, hb2]; exact sl2.1
      obtain ⟨h4, r4, i4, s4⟩ := dinv_releaseAll f blk2.pay.cells _ _ i3
        (by intro x; show _ ≤ _ + cntCells blk2.pay.cells x - _; have := c2 x; omega) (by rw [hl3]; omega)
      obtain ⟨h5, r5, i5, s5⟩ := dinv_releaseAll f p.cells _ _ i4
        (by intro x; have := c2 x; have := hpend x
            show _ ≤ e1 x + cntCells p2.cells x + cntCells blk2.pay.cells x - cntCells p2.cells x - cntCells blk2.pay.cells x
            omega)
        (by have := s4.live; rw [hl3] at this; omega)
      refine ⟨h5, .ptr b, upd g1 b (absPay g1 p2), ?_, i5.congr ?_, ?_, (by intro z hz'; cases hz'), ?_, ?_, ?_, ?_⟩
      · have hep : blk.pay.cells = blk2.pay.cells := by rw [ep2]
        simp only [setBoxedCell, hc, if_false, hb, hcpe, hep, r4, Option.map, r5]
      · intro x
        have := c2 x
        have := hpend x
        show e1 x + cntCells p2.cells x + cntCells blk2.pay.cells x - cntCells p2.cells x
          - cntCells blk2.pay.cells x - cntCells p.cells x = e1 x - cntCells p.cells x - cellCnt (.ptr b) x + cellCnt (.ptr b) x
        omega
      · simp only [absCell, upd_same]; exact a2
      · intro x hx hprot
        have : x ≠ b := by
          intro exb; subst exb
          simp only [cellCnt_ptr, if_true] at hprot
          rcases hprot with hp | hp <;> omega
        exact upd_other _ _ _ _ this
      · rw [s5.next, s4.next, hn3]; omega
      · rw [s5.next, s4.next, hn3]; omega
      · have := s5.live; have := s4.live; rw [hl3] at *; omega

theorem core_result {f : Nat} {h1 : Heap} {c : Cell} {p : Pay} {h' : Heap} {c' : Cell}
    (r : (match setBoxedCell f h1 c p with
       | some (s2, c') => (releaseAll f s2 p.cells).map (fun s3 => (s3, c'))
       | none => none) = some (h', c')) :
    ∃ s2, setBoxedCell f h1 c p = some (s2, c') ∧ releaseAll f s2 p.cells = some h' := by
  cases hsb : setBoxedCell f h1 c p with
  | none => rw [hsb] at r; cases r
  | some q =>
    obtain ⟨s2, c2⟩ := q
    rw [hsb] at r
    simp only at r
    cases hra : releaseAll f s2 p.cells with
    | none => rw [hra] at r; cases r
    | some h6 =>
      rw [hra] at r
      simp only [Option.map, Option.some.injEq, Prod.mk.injEq] at r
      obtain ⟨e1, e2⟩ := r
      subst e1 e2
      exact ⟨s2, rfl, hra⟩

/-- typed assignment of a temporary List / Array and the destruction of the temporary -/
theorem leaf_setSeq {h vars e g c} (rd : Nat → Cell) (hd : Held h vars e g c) (isArr : Bool) (l : List Src)
    (hs : ∀ s ∈ l, SrcOk rd vars s) (f : Nat) (hf : liveCount h + l.length + 1 < f) :
    ∃ h' c' g',
      (match setBoxedCell f (srcCopies rd h l).1 c (seqPay isArr (srcCopies rd h l).2) with
       | some (s2, c') => (releaseAll f s2 (seqPay isArr (srcCopies rd h l).2).cells).map (fun s3 => (s3, c'))
       | none => none) = some (h', c') ∧
      CellStep h vars e g c (seqVal isArr (l.map (srcVal g vars))) (l.length + 1) h' c' g' := by
  have i := hd.inv
  obtain ⟨g1, cl⟩ := dinv_srcCopies rd l h e g i hs
  revert cl
  generalize srcCopies rd h l = sc
  obtain ⟨h1, tmp⟩ := sc
  intro cl
  simp only at cl ⊢
  have hd1 : Held h1 vars (fun x => e x + cntCells tmp x) g1 c :=
    ⟨cl.inv, fun x => by have := hd.pend x; show _ ≤ e x + _; omega, hd.ok⟩
  obtain ⟨h', c', g', r, st⟩ := setTmp_core hd1 (seqPay isArr tmp)
    (by intro x; rw [seqPay_cells]; have := hd.pend x; show _ ≤ e x + _; omega)
    (by intro d hdm; rw [seqPay_cells] at hdm; exact cl.ok d hdm) f (by have := cl.live; omega)
  refine ⟨h', c', g', r, st.inv.congr ?_, ?_, st.ok, ?_, ?_, ?_, ?_⟩
  · intro x; rw [seqPay_cells]; show e x + cntCells tmp x - cntCells tmp x - _ + _ = _; omega
  · rw [st.val, seqPay_abs, cl.val]
  · intro x hx hprot
    have hxl := lt_next_of_ne i x hx
    have hlive1 : h1.heap x ≠ none := by
      cases hh : h.heap x with
      | none => exact absurd hh hx
      | some k => obtain ⟨k', hk', _⟩ := cl.keep x k hh; rw [hk']; simp
    rw [st.frame x hlive1 (by
      rcases hprot with hp | hp
      · exact Or.inl hp
      · refine Or.inr ?_; rw [seqPay_cells]; show _ ≤ e x + cntCells tmp x - cntCells tmp x; omega)]
    exact cl.frame x hxl
  · have := st.next_le; have := cl.next_le; omega
  · have := st.next_ge; have := cl.next_ge; omega
  · have := st.live; have := cl.live; omega

/-! ### the temporary HashMap: `append(key, value)` overwrites an existing key -/

theorem live_of_handles {h : Heap} {vars e g} (i : DInv h vars e g) (x : Nat) (hx : 1 ≤ handles vars x) :
    ∃ k, h.heap x = some k := by
  unfold handles handlesN at hx
  obtain ⟨v, _, hp⟩ := List.countP_pos_iff.1 (show 0 < List.countP (fun v => isPtrTo (vars v) x) (List.range nslots) by omega)
  exact i.live v x ((isPtrTo_iff _ _).1 hp)

theorem dinv_tmpMap (rd : Nat → Cell) {vars : Nat → Cell} (f : Nat) : ∀ (m : List (Str × Src)) (h : Heap) (e : Nat → Nat)
    (g : Nat → Val) (acc : List (Str × Cell)),
    DInv h vars (fun x => e x + cntCells (acc.map (·.2)) x) g →
    (∀ d ∈ acc.map (·.2), ∀ z, d = .inl z → z.isBoxed = false) → (∀ q ∈ m, SrcOk rd vars q.2) →
    liveCount h + m.length < f →
    ∃ h' acc' g', tmpMap f rd h m acc = some (h', acc') ∧
      DInv h' vars (fun x => e x + cntCells (acc'.map (·.2)) x) g' ∧
      acc'.map (fun p => (p.1, absCell g' p.2)) =
        (m.map (fun q => (q.1, srcVal g vars q.2))).foldl (fun a q => mapInsert a q.1 q.2) (acc.map (fun p => (p.1, absCell g p.2))) ∧
      (∀ d ∈ acc'.map (·.2), ∀ z, d = .inl z → z.isBoxed = false) ∧ (∀ x, x < h.next → g' x = g x) ∧
      h.next ≤ h'.next ∧ h'.next ≤ h.next + m.length ∧ liveCount h' ≤ liveCount h + m.length := by
  intro m
  induction m with
  | nil =>
    intro h e g acc i hok _ _
    exact ⟨h, acc, g, rfl, i, rfl, hok, fun _ _ => rfl, Nat.le_refl _, by simp, by simp⟩
  | cons q t ih =>
    obtain ⟨k, src⟩ := q
    intro h e g acc i hok hs hf
    obtain ⟨g1, cp⟩ := dinv_srcCopy rd i src (hs (k, src) (by simp))
    revert cp
    generalize hsc : srcCopy rd h src = sc
    obtain ⟨h1, c⟩ := sc
    intro cp
    simp only at cp
    have hst : ∀ q ∈ t, SrcOk rd vars q.2 := fun q hq => hs q (by simp [hq])
    -- values of the later sources and of the accumulated cells do not change
    have hsv : ∀ q ∈ t, srcVal g1 vars q.2 = srcVal g vars q.2 := by
      intro q _
      simp only [srcVal]
      cases q.2 with
      | lit x => rfl
      | var w =>
        simp only [Src.eval]
        apply absCell_congr
        intro b hb
        obtain ⟨kk, hk⟩ := i.live w b hb
        exact cp.frame b (i.lt_next b kk hk)
    have hacc : acc.map (fun p => (p.1, absCell g1 p.2)) = acc.map (fun p => (p.1, absCell g p.2)) := by
      apply List.map_congr_left
      intro p hp
      have : absCell g1 p.2 = absCell g p.2 := by
        apply absCell_congr
        intro b hb
        have hm : p.2 ∈ acc.map (·.2) := List.mem_map.2 ⟨p, hp, rfl⟩
        have := cellCnt_le_of_mem _ p.2 b hm
        rw [hb] at this; simp [cellCnt_ptr] at this
        obtain ⟨kk, hk⟩ := live_of_pending i b (by show 1 ≤ e b + _; omega)
        exact cp.frame b (i.lt_next b kk hk)
      rw [this]
    have hstepS : ∀ old, mapGet acc k = some old →
        (mapPut acc k c).map (fun p => (p.1, absCell g1 p.2)) =
          mapInsert (acc.map (fun p => (p.1, absCell g p.2))) k (srcVal g vars src) := by
      intro old hg
      have := mapInsert_abs g1 acc k c
      simp only [hg] at this
      rw [this, hacc, cp.val]
    have hstepN : mapGet acc k = none →
        (acc ++ [(k, c)]).map (fun p => (p.1, absCell g1 p.2)) =
          mapInsert (acc.map (fun p => (p.1, absCell g p.2))) k (srcVal g vars src) := by
      intro hg
      have := mapInsert_abs g1 acc k c
      simp only [hg] at this
      rw [this, hacc, cp.val]
    have hfold : ∀ a, (t.map (fun q => (q.1, srcVal g1 vars q.2))).foldl (fun a q => mapInsert a q.1 q.2) a =
        (t.map (fun q => (q.1, srcVal g vars q.2))).foldl (fun a q => mapInsert a q.1 q.2) a := by
      intro a; congr 1
      apply List.map_congr_left
      intro q hq; rw [hsv q hq]
    have hcnt_c : ∀ x, cellCnt c x ≤ (fun x => (fun x => e x + cntCells (acc.map (·.2)) x) x + cellCnt c x) x :=
      fun x => Nat.le_add_left _ _
    cases hg : mapGet acc k with
    | some old =>
      have hold_mem : old ∈ acc.map (·.2) := mem_cells_of_getCell (.map acc) (.mk k) old hg
      have hcm := fun x => cnt_mapPut acc k c old x hg
      -- the overwritten element is released (`*it = value`)
      obtain ⟨h2, r2, i2, s2⟩ := dinv_release f h1 _ old cp.inv
        (by intro x; have := cellCnt_le_of_mem _ old x hold_mem
            show _ ≤ e x + cntCells (acc.map (·.2)) x + cellCnt c x; omega)
        (by have := cp.live; simp only [List.length_cons] at hf; omega)
      have i2' : DInv h2 vars (fun x => e x + cntCells ((mapPut acc k c).map (·.2)) x) g1 :=
        i2.congr (by intro x; have := hcm x; have := cellCnt_le_of_mem _ old x hold_mem
                     show e x + cntCells (acc.map (·.2)) x + cellCnt c x - cellCnt old x = _; omega)
      have hok1 : ∀ d ∈ (mapPut acc k c).map (·.2), ∀ z, d = .inl z → z.isBoxed = false := by
        intro d hdm z hz
        rcases mem_mapPut acc k c d hdm with h' | h'
        · exact hok d h' z hz
        · subst h'; exact cp.ok z hz
      obtain ⟨h', acc', g', r, i', hv, hok', hfr, hn1, hn2, hl⟩ := ih h2 e g1 (mapPut acc k c) i2' hok1 hst
        (by have := s2.live; have := cp.live; simp only [List.length_cons] at hf; omega)
      refine ⟨h', acc', g', ?_, i', ?_, hok', ?_, ?_, ?_, ?_⟩
      · simp only [tmpMap, hsc, hg, r2]; exact r
      · rw [hv, hfold]; simp only [List.map_cons, List.foldl_cons]
        rw [hstepS old hg]
      · intro x hx; rw [hfr x (by rw [s2.next]; have := cp.next_le; omega), cp.frame x hx]
      · rw [s2.next] at hn1; have := cp.next_le; omega
      · rw [s2.next] at hn2; have := cp.next_ge; simp only [List.length_cons]; omega
      · have := s2.live; have := cp.live; simp only [List.length_cons]; omega
    | none =>
      have i1' : DInv h1 vars (fun x => e x + cntCells ((acc ++ [(k, c)]).map (·.2)) x) g1 :=
        cp.inv.congr (by intro x; simp only [List.map_append, List.map_cons, List.map_nil, cntCells_append, cntCells_cons, cntCells_nil]; omega)
      have hok1 : ∀ d ∈ (acc ++ [(k, c)]).map (·.2), ∀ z, d = .inl z → z.isBoxed = false := by
        intro d hdm z hz
        simp only [List.map_append, List.map_cons, List.map_nil, List.mem_append, List.mem_singleton] at hdm
        rcases hdm with h' | h'
        · exact hok d h' z hz
        · subst h'; exact cp.ok z hz
      obtain ⟨h', acc', g', r, i', hv, hok', hfr, hn1, hn2, hl⟩ := ih h1 e g1 (acc ++ [(k, c)]) i1' hok1 hst
        (by have := cp.live; simp only [List.length_cons] at hf; omega)
      refine ⟨h', acc', g', ?_, i', ?_, hok', ?_, ?_, ?_, ?_⟩
      · simp only [tmpMap, hsc, hg]; exact r
      · rw [hv, hfold]; simp only [List.map_cons, List.foldl_cons]
        rw [hstepN hg]
      · intro x hx; rw [hfr x (by have := cp.next_le; omega), cp.frame x hx]
      · have := cp.next_le; omega
      · have := cp.next_ge; simp only [List.length_cons]; omega
      · have := cp.live; simp only [List.length_cons]; omega

/-- typed assignment of a temporary HashMap and the destruction of the temporary -/
theorem leaf_setMap (ds : DblSem) {h vars e g c} (rd : Nat → Cell) (hd : Held h vars e g c) (m : List (Str × Src))
    (hs : ∀ q ∈ m, SrcOk rd vars q.2) (f : Nat) (hf : liveCount h + m.length + 1 < f) :
    ∃ h' c' g', leafOp f ds rd h c (.set (.map m)) = some (h', c') ∧
      CellStep h vars e g c (.map (mapOfPairs (m.map (fun q => (q.1, srcVal g vars q.2))))) (m.length + 1) h' c' g' := by
  have i := hd.inv
  obtain ⟨h1, tmp, g1, rt, i1, hv, hok, hfr, hn1, hn2, hl⟩ := dinv_tmpMap rd f m h e g [] (i.congr (by intro x; simp [cntCells_nil]))
    (by intro d hdm; simp at hdm) hs (by omega)
  have hd1 : Held h1 vars (fun x => e x + cntCells (tmp.map (·.2)) x) g1 c :=
    ⟨i1, fun x => by have := hd.pend x; show _ ≤ e x + _; omega, hd.ok⟩
  obtain ⟨h', c', g', r, st⟩ := setTmp_core hd1 (.map tmp)
    (by intro x; have := hd.pend x; show _ + cntCells (tmp.map (·.2)) x ≤ e x + _; omega) hok f (by omega)
  refine ⟨h', c', g', ?_, st.inv.congr ?_, ?_, st.ok, ?_, ?_, ?_, ?_⟩
  · simp only [leafOp, tmpPay, rt, Option.map]; exact r
  · intro x; show e x + cntCells (tmp.map (·.2)) x - cntCells (tmp.map (·.2)) x - _ + _ = _; omega
  · rw [st.val]; simp only [absPay, hv, mapOfPairs, List.map_nil]
  · intro x hx hprot
    have hxl := lt_next_of_ne i x hx
    have hlive1 : h1.heap x ≠ none := by
      rcases hprot with hp | hp
      · obtain ⟨k, hk⟩ := live_of_handles i1 x hp; rw [hk]; simp
      · obtain ⟨k, hk⟩ := live_of_pending i1 x (by have := hd.pend x; show 1 ≤ e x + _; omega); rw [hk]; simp
    rw [st.frame x hlive1 (by
      rcases hprot with hp | hp
      · exact Or.inl hp
      · refine Or.inr ?_; show _ ≤ e x + cntCells (tmp.map (·.2)) x - cntCells (tmp.map (·.2)) x; omega)]
    exact hfr x hxl
  · have := st.next_le; omega
  · have := st.next_ge; omega
  · have := st.live; omega

/-! ### the temporary argument in general -/

def valSize : ValS → Nat
  | .list l => l.length
  | .array l => l.length
  | .map m => m.length
  | .lit _ => 0

def ValSOk (rd vars : Nat → Cell) : ValS → Prop
  | .list l => ∀ s ∈ l, SrcOk rd vars s
  | .array l => ∀ s ∈ l, SrcOk rd vars s
  | .map m => ∀ q ∈ m, SrcOk rd vars q.2
  | .lit _ => False

/-- building the temporary container of a typed constructor / assignment argument -/
theorem dinv_tmpPay (rd : Nat → Cell) {vars : Nat → Cell} (f : Nat) (a : ValS) (ha : ValSOk rd vars a) (h : Heap)
    (e : Nat → Nat) (g : Nat → Val) (i : DInv h vars e g) (hf : liveCount h + valSize a < f) :
    ∃ h1 p g1, tmpPay f rd h a = some (h1, p) ∧ DInv h1 vars (fun x => e x + cntCells p.cells x) g1 ∧
      (∀ d ∈ p.cells, ∀ z, d = .inl z → z.isBoxed = false) ∧
      absPay g1 p = a.eval (fun w => absCell g (vars w)) ∧ (∀ x, x < h.next → g1 x = g x) ∧
      h.next ≤ h1.next ∧ h1.next ≤ h.next + valSize a ∧ liveCount h1 ≤ liveCount h + valSize a := by
  cases a with
  | lit x => exact absurd ha (by simp [ValSOk])
  | list l =>
    obtain ⟨g1, cl⟩ := dinv_srcCopies rd l h e g i ha
    exact ⟨_, _, g1, rfl, cl.inv, cl.ok, by simp only [absPay, cl.val, ValS.eval]; rfl, cl.frame, cl.next_le, cl.next_ge, cl.live⟩
  | array l =>
    obtain ⟨g1, cl⟩ := dinv_srcCopies rd l h e g i ha
    exact ⟨_, _, g1, rfl, cl.inv, cl.ok, by simp only [absPay, cl.val, ValS.eval]; rfl, cl.frame, cl.next_le, cl.next_ge, cl.live⟩
  | map m =>
    obtain ⟨h1, tmp, g1, rt, i1, hv, hok, hfr, hn1, hn2, hl⟩ := dinv_tmpMap rd f m h e g []
      (i.congr (by intro x; simp [cntCells_nil])) (by intro d hdm; simp at hdm) ha hf
    refine ⟨h1, .map tmp, g1, by simp only [tmpPay, rt, Option.map], i1, hok, ?_, hfr, hn1, hn2, hl⟩
    simp only [absPay, hv, ValS.eval, mapOfPairs, List.map_nil]
    rfl

end Nstd.Variant.Deep
