import Nstd.Variant.DeepLeaf
/-
  Typed assignment of a List / Array built as a temporary from copies of variables and literals:
  `tmp` is built (`srcCopies`), `operator=(const List&)` copies it into a new block or in place,
  `tmp` is destroyed.
-/
namespace Nstd.Variant.Deep
open Nstd.Variant

/-- the temporary holds one pending handle per element -/
structure CopiedL (h : Heap) (vars : Nat → Cell) (e : Nat → Nat) (g : Nat → Val) (ys : List Val) (n : Nat)
    (h' : Heap) (cs : List Cell) (g' : Nat → Val) : Prop where
  inv : DInv h' vars (fun x => e x + cntCells cs x) g'
  val : cs.map (absCell g') = ys
  ok : ∀ c ∈ cs, ∀ z, c = .inl z → z.isBoxed = false
  frame : ∀ x, x < h.next → g' x = g x
  keep : ∀ x blk, h.heap x = some blk → ∃ blk', h'.heap x = some blk' ∧ blk'.pay = blk.pay
  sub : PaySubE h h'
  next_le : h.next ≤ h'.next
  next_ge : h'.next ≤ h.next + n
  live : liveCount h' ≤ liveCount h + n
  tgt : ∀ c ∈ cs, ∀ b, c = .ptr b → 1 ≤ handles vars b ∨ h.heap b = none

theorem paySubE_trans {a b c : Heap} (x : PaySubE a b) (y : PaySubE b c) : PaySubE a c := by
  intro k blk'' hk
  rcases y k blk'' hk with ⟨blk', h1, e1⟩ | he
  · rcases x k blk' h1 with ⟨blk, h2, e2⟩ | he2
    · exact Or.inl ⟨blk, h2, e1.trans e2⟩
    · exact Or.inr (by rw [e1]; exact he2)
  · exact Or.inr he

theorem dinv_srcCopies (rd : Nat → Cell) {vars : Nat → Cell} : ∀ (l : List Src) (h : Heap) (e : Nat → Nat) (g : Nat → Val),
    DInv h vars e g → (∀ s ∈ l, SrcOk rd vars s) →
    ∃ g', CopiedL h vars e g (l.map (srcVal g vars)) l.length (srcCopies rd h l).1 (srcCopies rd h l).2 g' := by
  intro l
  induction l with
  | nil =>
    intro h e g i _
    exact ⟨g, i.congr (by intro x; simp [srcCopies, cntCells_nil]), rfl, (by intro c hc; simp [srcCopies] at hc),
      (fun _ _ => rfl), (fun x blk hx => ⟨blk, hx, rfl⟩), (fun x blk' hx => Or.inl ⟨blk', hx, rfl⟩), Nat.le_refl _,
      (by simp [srcCopies]), (by simp [srcCopies]), (by intro c hc; simp [srcCopies] at hc)⟩
  | cons s t ih =>
    intro h e g i hok
    obtain ⟨g1, cp⟩ := dinv_srcCopy rd i s (hok s (by simp))
    obtain ⟨g2, cl⟩ := ih (srcCopy rd h s).1 _ g1 cp.inv (fun s' hs' => hok s' (by simp [hs']))
    have hcs : srcCopies rd h (s :: t) = ((srcCopies rd (srcCopy rd h s).1 t).1, (srcCopy rd h s).2 :: (srcCopies rd (srcCopy rd h s).1 t).2) := rfl
    rw [hcs]
    refine ⟨g2, cl.inv.congr ?_, ?_, ?_, ?_, ?_, paySubE_trans cp.sub cl.sub, ?_, ?_, ?_, ?_⟩
    · intro x; simp only [cntCells_cons]; omega
    · simp only [List.map_cons, cl.val]
      congr 1
      · -- the first element keeps its value under the later ghost map
        rw [← cp.val]
        apply absCell_congr
        intro b hb
        have hlive : ∃ k, (srcCopy rd h s).1.heap b = some k :=
          live_of_pending cp.inv b (by show 1 ≤ _ + cellCnt _ b; rw [hb]; simp [cellCnt_ptr])
        obtain ⟨k, hk⟩ := hlive
        exact cl.frame b (cp.inv.lt_next b k hk)
      · -- the later sources have the same values under g and g1
        apply List.map_congr_left
        intro s' hs'
        simp only [srcVal]
        cases s' with
        | lit x => rfl
        | var w =>
          simp only [Src.eval]
          apply absCell_congr
          intro b hb
          obtain ⟨k, hk⟩ := i.live w b hb
          exact cp.frame b (i.lt_next b k hk)
    · intro c hc z hz
      simp only [List.mem_cons] at hc
      rcases hc with rfl | hc
      · exact cp.ok z hz
      · exact cl.ok c hc z hz
    · intro x hx
      rw [cl.frame x (by have := cp.next_le; omega), cp.frame x hx]
    · intro x blk hx
      obtain ⟨b1, h1, e1⟩ := cp.keep x blk hx
      obtain ⟨b2, h2, e2⟩ := cl.keep x b1 h1
      exact ⟨b2, h2, e2.trans e1⟩
    · have := cp.next_le; have := cl.next_le; show h.next ≤ (srcCopies rd (srcCopy rd h s).1 t).1.next; omega
    · have := cp.next_ge; have := cl.next_ge
      show (srcCopies rd (srcCopy rd h s).1 t).1.next ≤ h.next + (t.length + 1); omega
    · have := cp.live; have := cl.live
      show liveCount (srcCopies rd (srcCopy rd h s).1 t).1 ≤ liveCount h + (t.length + 1); omega
    · intro c hc b hb
      simp only [List.mem_cons] at hc
      rcases hc with rfl | hc
      · exact cp.tgt b hb
      · rcases cl.tgt c hc b hb with h1 | h1
        · exact Or.inl h1
        · -- not live after the first copy: not live before
          right
          cases hh : h.heap b with
          | none => rfl
          | some k =>
            obtain ⟨k', hk', _⟩ := cp.keep b k hh
            rw [hk'] at h1; cases h1

end Nstd.Variant.Deep

namespace Nstd.Variant.Deep
open Nstd.Variant

theorem seqPay_cells (isArr : Bool) (cs : List Cell) : (seqPay isArr cs).cells = cs := by cases isArr <;> rfl
theorem seqPay_type (isArr : Bool) (cs : List Cell) : (seqPay isArr cs).type = seqKind isArr := by cases isArr <;> rfl
theorem seqPay_abs (isArr : Bool) (g : Nat → Val) (cs : List Cell) :
    absPay g (seqPay isArr cs) = seqVal isArr (cs.map (absCell g)) := by cases isArr <;> rfl

/-- typed assignment of a temporary List / Array and the destruction of the temporary -/
theorem leaf_setSeq {h vars e g c} (rd : Nat → Cell) (hd : Held h vars e g c) (isArr : Bool) (l : List Src)
    (hs : ∀ s ∈ l, SrcOk rd vars s) (f : Nat) (hf : liveCount h + l.length + 1 < f) :
    ∃ h' c' g',
      (match setBoxedCell f (srcCopies rd h l).1 c (seqPay isArr (srcCopies rd h l).2) with
       | some (s2, c') => (releaseAll f s2 (seqPay isArr (srcCopies rd h l).2).cells).map (fun s3 => (s3, c'))
       | none => none) = some (h', c') ∧
      CellStep h vars e g c (seqVal isArr (l.map (srcVal g vars))) (l.length + 1) h' c' g' := by
  have i := hd.inv
  obtain ⟨g1, cl⟩ := dinv_srcCopies rd l h e g i hs
  revert cl
  generalize srcCopies rd h l = sc
  obtain ⟨h1, tmp⟩ := sc
  intro cl
  simp only at cl ⊢
  have i1 : DInv h1 vars (fun x => e x + cntCells tmp x) g1 := cl.inv
  have hd1 : Held h1 vars (fun x => e x + cntCells tmp x) g1 c :=
    ⟨i1, fun x => by have := hd.pend x; show _ ≤ e x + _; omega, hd.ok⟩
  have hpv : absPay g1 (seqPay isArr tmp) = seqVal isArr (l.map (srcVal g vars)) := by rw [seqPay_abs, cl.val]
  rw [seqPay_cells]
  have htmp_b : ∀ b, handles vars b = 0 → (∃ k, h.heap b = some k) → cntCells tmp b = 0 := by
    intro b hz hl
    cases hcz : cntCells tmp b with
    | zero => rfl
    | succ n =>
      have hm := mem_of_cntCells_pos tmp b (by omega)
      rcases cl.tgt _ hm b rfl with h1' | h1'
      · omega
      · obtain ⟨k, hk⟩ := hl; rw [hk] at h1'; cases h1'
  by_cases hc : cellType h1 c ≠ (seqPay isArr tmp).type ∨ cellRef h1 c > 1
  · -- new block
    obtain ⟨h2, r2, i2, s2⟩ := dinv_release f h1 _ c i1 hd1.pend (by have := cl.live; omega)
    have hok2 : ∀ d ∈ (seqPay isArr tmp).cells, CellOk h2 d := by
      intro d hdm; rw [seqPay_cells] at hdm
      refine ⟨cl.ok d hdm, ?_⟩
      intro t ht
      have := cellCnt_le_of_mem tmp d t hdm
      rw [ht] at this; simp [cellCnt_ptr] at this
      have hp := hd.pend t
      exact live_of_pending i2 t (by show 1 ≤ e t + cntCells tmp t - cellCnt c t; omega)
    have hcp := dinv_copyPay i2 (seqPay isArr tmp) hok2
    generalize hcpe : copyPay h2 (seqPay isArr tmp) = cpr at hcp
    obtain ⟨h3, p2⟩ := cpr
    simp only at hcp
    obtain ⟨i3, a3, sl3, _, _, o3, c3⟩ := hcp
    have hok3 : ∀ d ∈ p2.cells, CellOk h3 d := by
      intro d hdm
      refine ⟨o3 d hdm, ?_⟩
      intro t ht
      have := cellCnt_le_of_mem p2.cells d t hdm
      rw [ht] at this; simp [cellCnt_ptr] at this
      exact live_of_pending i3 t (by show 1 ≤ _ + cntCells p2.cells t; omega)
    have i4 := dinv_alloc i3 p2 hok3 (fun x => Nat.le_add_left _ _)
    have hn3 : h3.next = h1.next := by rw [show h3.next = h2.next from sl3.1, s2.next]
    have hpend5 : ∀ x, cntCells tmp x ≤ (fun x => (fun x => (fun x => e x + cntCells tmp x) x - cellCnt c x + cntCells p2.cells x) x
        - cntCells p2.cells x + (if x = h3.next then 1 else 0)) x := by
      intro x; have := hd.pend x; simp only; omega
    have hl4 : liveCount (alloc h3 p2).1 ≤ liveCount h + l.length + 1 := by
      rw [liveCount_alloc i3, liveCount_sameLive sl3]; have := s2.live; have := cl.live; omega
    obtain ⟨h5, r5, i5, s5⟩ := dinv_releaseAll f tmp _ _ i4 hpend5 (by omega)
    have hcn : cellCnt c h3.next = 0 := by
      cases hcc : c with
      | null => rfl
      | inl z => rfl
      | ptr t =>
        obtain ⟨k, hk⟩ := hd.cellOk.2 t hcc
        have := i.lt_next t k hk; have := cl.next_le
        have : ¬ t = h3.next := by rw [hn3]; omega
        simp [cellCnt_ptr, this]
    refine ⟨h5, .ptr h3.next, upd g1 h3.next (absPay g1 p2), ?_, i5.congr ?_, ?_, (by intro z hz; cases hz), ?_, ?_, ?_, ?_⟩
    · simp only [setBoxedCell, hc, if_true, r2, hcpe, alloc_id, r5, Option.map]
    · intro x
      have := hd.pend x
      simp only [cellCnt_ptr]
      by_cases ex : x = h3.next
      · subst ex; simp only [if_true]; omega
      · have : ¬ h3.next = x := fun y => ex y.symm
        simp only [ex, this, if_false]; omega
    · simp only [absCell, upd_same]; rw [a3]; exact hpv
    · intro x hx _
      have hxl := lt_next_of_ne i x hx
      have : x ≠ h3.next := by rw [hn3]; have := cl.next_le; omega
      rw [upd_other _ _ _ _ this]; exact cl.frame x hxl
    · rw [s5.next, alloc_next, hn3]; have := cl.next_le; omega
    · rw [s5.next, alloc_next, hn3]; have := cl.next_ge; omega
    · have := s5.live; omega
  · -- in place
    have ht : cellType h1 c = seqKind isArr := by
      by_cases e1 : cellType h1 c = (seqPay isArr tmp).type
      · rw [e1, seqPay_type]
      · exact absurd (Or.inl e1) hc
    have hr : ¬ cellRef h1 c > 1 := fun r => hc (Or.inr r)
    have hk7 : 7 ≤ seqKind isArr := by cases isArr <;> simp [seqKind]
    cases hcc : c with
    | null => rw [hcc] at ht; simp [cellType] at ht; omega
    | inl y =>
      rw [hcc] at ht
      have := type_lt_of_not_boxed y (hd.ok y hcc)
      simp [cellType] at ht; omega
    | ptr b =>
      subst hcc
      obtain ⟨blk0, hb0⟩ := hd.cellOk.2 b rfl
      obtain ⟨blk, hb, _⟩ := cl.keep b blk0 hb0
      have hpos := i1.pos b blk hb
      have href : blk.ref = 1 := by simp [cellRef, hb] at hr; omega
      have hcnt := i1.cnt b blk hb
      have hpe := hd.pend b
      simp [cellCnt_ptr] at hpe
      have hz : handles vars b = 0 := by omega
      have hsz : stored h1.heap h1.next b = 0 := by omega
      have htb : cntCells tmp b = 0 := htmp_b b hz ⟨blk0, hb0⟩
      have heb : e b = 1 := by omega
      have hok1 : ∀ d ∈ (seqPay isArr tmp).cells, CellOk h1 d := by
        intro d hdm; rw [seqPay_cells] at hdm
        refine ⟨cl.ok d hdm, ?_⟩
        intro t ht'
        have := cellCnt_le_of_mem tmp d t hdm
        rw [ht'] at this; simp [cellCnt_ptr] at this
        exact live_of_pending i1 t (by show 1 ≤ e t + cntCells tmp t; omega)
      have hcp := dinv_copyPay i1 (seqPay isArr tmp) hok1
      generalize hcpe : copyPay h1 (seqPay isArr tmp) = cpr at hcp
      obtain ⟨h2, p2⟩ := cpr
      simp only at hcp
      obtain ⟨i2, a2, sl2, ps2, ps2', o2, c2⟩ := hcp
      obtain ⟨blk2, hb2, ep2⟩ := ps2' b blk hb
      have hs2 : stored h2.heap h2.next b = 0 := by
        apply stored_zero
        intro j kk hj hm
        obtain ⟨k1, hk1, ek⟩ := ps2 j kk hj
        rw [ek] at hm
        exact no_store_of_zero i1 b hsz j k1 hk1 hm
      have hok2 : ∀ d ∈ p2.cells, CellOk h2 d := by
        intro d hdm
        refine ⟨o2 d hdm, ?_⟩
        intro t ht'
        have := cellCnt_le_of_mem p2.cells d t hdm
        rw [ht'] at this; simp [cellCnt_ptr] at this
        exact live_of_pending i2 t (by show 1 ≤ _ + cntCells p2.cells t; omega)
      have hp2b : cntCells p2.cells b = 0 := by rw [c2 b, seqPay_cells]; exact htb
      have i3 := dinv_setPay i2 b blk2 hb2 hz hs2 p2 hok2 (fun x => by show _ ≤ _ + cntCells p2.cells x + _; omega) hp2b
      have hl3 : liveCount (setPay h2 b p2) = liveCount h1 := by
        rw [liveCount_sameLive (h := h2)]
        · exact liveCount_sameLive sl2
        · refine ⟨by simp [setPay, hb2], ?_⟩
          intro x
          simp only [setPay, hb2]
          by_cases ex : x = b
          · subst ex; simp [hb2]
          · simp [upd_other _ _ _ _ ex]
      have hn3 : (setPay h2 b p2).next = h1.next := by simp only [setPay, hb2]; exact sl2.1
      obtain ⟨h4, r4, i4, s4⟩ := dinv_releaseAll f blk2.pay.cells _ _ i3
        (by intro x; show _ ≤ _ + cntCells blk2.pay.cells x - _; have := c2 x; omega)
        (by rw [hl3]; have := cl.live; omega)
      obtain ⟨h5, r5, i5, s5⟩ := dinv_releaseAll f tmp _ _ i4
        (by intro x; have := c2 x; rw [seqPay_cells] at this
            show _ ≤ e x + cntCells tmp x + cntCells p2.cells x + cntCells blk2.pay.cells x - cntCells p2.cells x - cntCells blk2.pay.cells x
            omega)
        (by have := s4.live; rw [hl3] at this; have := cl.live; omega)
      refine ⟨h5, .ptr b, upd g1 b (absPay g1 p2), ?_, i5.congr ?_, ?_, (by intro z hz'; cases hz'), ?_, ?_, ?_, ?_⟩
      · have hep : blk.pay.cells = blk2.pay.cells := by rw [ep2]
        simp only [setBoxedCell, hc, if_false, hb, hcpe, hep, r4, Option.map, r5]
      · intro x
        have := c2 x; rw [seqPay_cells] at this
        have := hd.pend x
        show e x + cntCells tmp x + cntCells p2.cells x + cntCells blk2.pay.cells x - cntCells p2.cells x
          - cntCells blk2.pay.cells x - cntCells tmp x = e x - cellCnt (.ptr b) x + cellCnt (.ptr b) x
        omega
      · simp only [absCell, upd_same]; rw [a2]; exact hpv
      · intro x hx hprot
        have hxl := lt_next_of_ne i x hx
        have : x ≠ b := by
          intro exb; subst exb
          simp only [cellCnt_ptr, if_true] at hprot
          rcases hprot with hp | hp <;> omega
        rw [upd_other _ _ _ _ this]; exact cl.frame x hxl
      · rw [s5.next, s4.next, hn3]; exact cl.next_le
      · rw [s5.next, s4.next, hn3]; have := cl.next_ge; omega
      · have := s5.live; have := s4.live; rw [hl3] at *; have := cl.live; omega

end Nstd.Variant.Deep
