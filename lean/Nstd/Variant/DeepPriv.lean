import Nstd.Variant.DeepOps
/-
  Locality of the deep model's operations: a block that no payload points to (`stored = 0`) and
  that the arguments of an operation do not point to either is left exactly as it is, and
  still nobody stores a pointer to it afterwards.  Purely structural (no invariant needed
  beyond "live ids are below `next`").  Used for the parent block of a nested walk.
-/
namespace Nstd.Variant.Deep
open Nstd.Variant

def Bounded (h : Heap) : Prop := ∀ j blk, h.heap j = some blk → j < h.next

/-- block `x` is untouched by the step `h → h'` and stays unstored -/
structure Keeps (h h' : Heap) (x : Nat) : Prop where
  same : h'.heap x = h.heap x
  unst : stored h'.heap h'.next x = 0
  bnd : Bounded h'
  mono : h.next ≤ h'.next

theorem Keeps.refl {h : Heap} {x : Nat} (hb : Bounded h) (hs : stored h.heap h.next x = 0) : Keeps h h x :=
  ⟨rfl, hs, hb, Nat.le_refl _⟩

theorem Keeps.trans {a b c : Heap} {x : Nat} (p : Keeps a b x) (q : Keeps b c x) : Keeps a c x :=
  ⟨q.same.trans p.same, q.unst, q.bnd, Nat.le_trans p.mono q.mono⟩

theorem cnt_le_stored (h : Heap) (hb : Bounded h) (j : Nat) (blk : Block) (hj : h.heap j = some blk) (x : Nat) :
    cntCells blk.pay.cells x ≤ stored h.heap h.next x := by
  cases hz : cntCells blk.pay.cells x with
  | zero => omega
  | succ n =>
    -- a direct comparison: split the sum at j
    have hlt := hb j blk hj
    have key : ∀ m, j < m → cntCells blk.pay.cells x ≤ stored h.heap m x := by
      intro m
      induction m with
      | zero => intro hm; omega
      | succ m ih =>
        intro hm
        simp only [stored]
        by_cases e : j = m
        · subst e; simp [hj, cntBlk]
        · have := ih (by omega); omega
    have := key h.next hlt
    omega

theorem bounded_upd_live (h : Heap) (hb : Bounded h) (b : Nat) (o : Option Block) (hl : (h.heap b).isSome ∨ o = none) :
    Bounded { h with heap := upd h.heap b o } := by
  intro j blk hj
  by_cases e : j = b
  · subst e
    rcases hl with hl | hl
    · cases hx : h.heap j with
      | none => rw [hx] at hl; cases hl
      | some k => exact hb j k hx
    · subst hl; simp at hj
  · simp [upd_other _ _ _ _ e] at hj; exact hb j blk hj

/-! ### the primitives -/

theorem incr_keeps (h : Heap) (hb : Bounded h) (b x : Nat) (hne : b ≠ x) (hs : stored h.heap h.next x = 0) :
    Keeps h (incr h b) x := by
  unfold incr
  cases hbb : h.heap b with
  | none => exact Keeps.refl hb hs
  | some blk =>
    refine ⟨by simp [upd_other _ _ _ _ (Ne.symm hne)], ?_, ?_, Nat.le_refl _⟩
    · have := stored_same_cells h.heap b blk { blk with ref := blk.ref + 1 } h.next x hbb rfl
      simp only; rw [this]; exact hs
    · exact bounded_upd_live h hb b _ (Or.inl (by simp [hbb]))

theorem copyCell_keeps (h : Heap) (hb : Bounded h) (c : Cell) (x : Nat) (hc : cellCnt c x = 0)
    (hs : stored h.heap h.next x = 0) : Keeps h (copyCell h c).1 x := by
  cases c with
  | null => exact Keeps.refl hb hs
  | inl y => exact Keeps.refl hb hs
  | ptr b =>
    have : b ≠ x := by intro e; subst e; simp [cellCnt_ptr] at hc
    exact incr_keeps h hb b x this hs

theorem copyCells_keeps : ∀ (cs : List Cell) (h : Heap), Bounded h → ∀ x, cntCells cs x = 0 → stored h.heap h.next x = 0 →
    Keeps h (copyCells h cs).1 x := by
  intro cs
  induction cs with
  | nil => intro h hb x _ hs; exact Keeps.refl hb hs
  | cons c t ih =>
    intro h hb x hc hs
    rw [cntCells_cons] at hc
    have k1 := copyCell_keeps h hb c x (by omega) hs
    have k2 := ih (copyCell h c).1 k1.bnd x (by omega) k1.unst
    exact k1.trans k2

theorem copyMap_keeps : ∀ (m : List (Str × Cell)) (h : Heap), Bounded h → ∀ x, cntCells (m.map (·.2)) x = 0 →
    stored h.heap h.next x = 0 → Keeps h (copyMap h m).1 x := by
  intro m
  induction m with
  | nil => intro h hb x _ hs; exact Keeps.refl hb hs
  | cons q t ih =>
    obtain ⟨k, c⟩ := q
    intro h hb x hc hs
    simp only [List.map_cons, cntCells_cons] at hc
    have k1 := copyCell_keeps h hb c x (by omega) hs
    have k2 := ih (copyCell h c).1 k1.bnd x (by omega) k1.unst
    exact k1.trans k2

theorem copyPay_keeps (h : Heap) (hb : Bounded h) (p : Pay) (x : Nat) (hc : cntCells p.cells x = 0)
    (hs : stored h.heap h.next x = 0) : Keeps h (copyPay h p).1 x := by
  cases p with
  | str t => exact Keeps.refl hb hs
  | list cs => exact copyCells_keeps cs h hb x hc hs
  | array cs => exact copyCells_keeps cs h hb x hc hs
  | map m => exact copyMap_keeps m h hb x hc hs

/-- the copies point where the originals point -/
theorem copyCells_cnt : ∀ (cs : List Cell) (h : Heap) (x : Nat), cntCells (copyCells h cs).2 x = cntCells cs x := by
  intro cs
  induction cs with
  | nil => intro h x; rfl
  | cons c t ih =>
    intro h x
    have hcs : copyCells h (c :: t) = ((copyCells (copyCell h c).1 t).1, (copyCell h c).2 :: (copyCells (copyCell h c).1 t).2) := rfl
    rw [hcs]; simp only [cntCells_cons, ih]
    cases c <;> simp [copyCell, cellCnt, isPtrTo]

theorem copyMap_cnt : ∀ (m : List (Str × Cell)) (h : Heap) (x : Nat),
    cntCells ((copyMap h m).2.map (·.2)) x = cntCells (m.map (·.2)) x := by
  intro m
  induction m with
  | nil => intro h x; rfl
  | cons q t ih =>
    obtain ⟨k, c⟩ := q
    intro h x
    have hcs : copyMap h ((k, c) :: t) = ((copyMap (copyCell h c).1 t).1, (k, (copyCell h c).2) :: (copyMap (copyCell h c).1 t).2) := rfl
    rw [hcs]; simp only [List.map_cons, cntCells_cons, ih]
    cases c <;> simp [copyCell, cellCnt, isPtrTo]

theorem copyPay_cnt (h : Heap) (p : Pay) (x : Nat) : cntCells (copyPay h p).2.cells x = cntCells p.cells x := by
  cases p with
  | str t => rfl
  | list cs => exact copyCells_cnt cs h x
  | array cs => exact copyCells_cnt cs h x
  | map m => exact copyMap_cnt m h x

theorem alloc_keeps (h : Heap) (hb : Bounded h) (p : Pay) (x : Nat) (hx : x < h.next) (hc : cntCells p.cells x = 0)
    (hs : stored h.heap h.next x = 0) : Keeps h (alloc h p).1 x := by
  have hne : x ≠ h.next := by omega
  refine ⟨by simp [alloc, upd_other _ _ _ _ hne], ?_, ?_, by simp [alloc]⟩
  · simp only [alloc, stored, upd_same, cntBlk, stored_upd_ge h.heap h.next _ h.next x (Nat.le_refl _)]
    omega
  · intro j blk hj
    simp only [alloc] at hj ⊢
    by_cases e : j = h.next
    · omega
    · simp [upd_other _ _ _ _ e] at hj; have := hb j blk hj; omega

/-- writing a payload into another block -/
theorem setPay_keeps (h : Heap) (hb : Bounded h) (b : Nat) (p : Pay) (x : Nat) (hne : b ≠ x) (hc : cntCells p.cells x = 0)
    (hs : stored h.heap h.next x = 0) : Keeps h (setPay h b p) x := by
  unfold setPay
  cases hbb : h.heap b with
  | none => exact Keeps.refl hb hs
  | some blk =>
    refine ⟨by simp [upd_other _ _ _ _ (Ne.symm hne)], ?_, ?_, Nat.le_refl _⟩
    · have := stored_upd h.heap b (some { blk with pay := p }) h.next x (hb b blk hbb)
      simp only [hbb, cntBlk] at this
      have := cnt_le_stored h hb b blk hbb x
      simp only; omega
    · exact bounded_upd_live h hb b _ (Or.inl (by simp [hbb]))

/-! ### release -/

theorem foldlM_release_keeps (f : Nat)
    (ih : ∀ (h : Heap) (c : Cell) (h' : Heap) (x : Nat), release f h c = some h' → Bounded h → cellCnt c x = 0 →
      stored h.heap h.next x = 0 → Keeps h h' x) :
    ∀ (cs : List Cell) (h h' : Heap) (x : Nat), cs.foldlM (fun s' c' => release f s' c') h = some h' → Bounded h →
      cntCells cs x = 0 → stored h.heap h.next x = 0 → Keeps h h' x := by
  intro cs
  induction cs with
  | nil => intro h h' x r hb _ hs; simp at r; subst r; exact Keeps.refl hb hs
  | cons c t iht =>
    intro h h' x r hb hc hs
    rw [foldlM_release_cons] at r
    rw [cntCells_cons] at hc
    cases h1 : release f h c with
    | none => rw [h1] at r; cases r
    | some h1' =>
      rw [h1] at r
      have k1 := ih h c h1' x h1 hb (by omega) hs
      exact k1.trans (iht h1' h' x r k1.bnd (by omega) k1.unst)

theorem release_keeps : ∀ (f : Nat) (h : Heap) (c : Cell) (h' : Heap) (x : Nat), release f h c = some h' → Bounded h →
    cellCnt c x = 0 → stored h.heap h.next x = 0 → Keeps h h' x := by
  intro f
  induction f with
  | zero => intro h c h' x r; simp [release] at r
  | succ f ih =>
    intro h c h' x r hb hc hs
    cases c with
    | null => simp [release] at r; subst r; exact Keeps.refl hb hs
    | inl y => simp [release] at r; subst r; exact Keeps.refl hb hs
    | ptr b =>
      have hne : b ≠ x := by intro e; subst e; simp [cellCnt_ptr] at hc
      simp only [release] at r
      cases hbb : h.heap b with
      | none => rw [hbb] at r; cases r
      | some blk =>
        rw [hbb] at r
        simp only at r
        by_cases hr : blk.ref = 1
        · simp only [hr, if_true] at r
          have hlt := hb b blk hbb
          have hcells := cnt_le_stored h hb b blk hbb x
          have k0 : Keeps h { h with heap := upd h.heap b none } x := by
            refine ⟨by simp [upd_other _ _ _ _ (Ne.symm hne)], ?_, bounded_upd_live h hb b none (Or.inr rfl), Nat.le_refl _⟩
            have := stored_upd h.heap b none h.next x hlt
            simp only [hbb, cntBlk] at this
            simp only; omega
          exact k0.trans (foldlM_release_keeps f ih blk.pay.cells _ h' x r k0.bnd (by omega) k0.unst)
        · simp only [hr, if_false, Option.some.injEq] at r
          subst r
          refine ⟨by simp [upd_other _ _ _ _ (Ne.symm hne)], ?_, bounded_upd_live h hb b _ (Or.inl (by simp [hbb])), Nat.le_refl _⟩
          have := stored_same_cells h.heap b blk { blk with ref := blk.ref - 1 } h.next x hbb rfl
          simp only; rw [this]; exact hs

theorem releaseAll_keeps (f : Nat) (cs : List Cell) (h h' : Heap) (x : Nat) (r : releaseAll f h cs = some h') (hb : Bounded h)
    (hc : cntCells cs x = 0) (hs : stored h.heap h.next x = 0) : Keeps h h' x :=
  foldlM_release_keeps f (release_keeps f) cs h h' x r hb hc hs

end Nstd.Variant.Deep

namespace Nstd.Variant.Deep
open Nstd.Variant

/-! ### slots -/

/-! ### sources, accessor, leaves, walk -/

theorem srcCopy_keeps (rd : Nat → Cell) (h : Heap) (hb : Bounded h) (src : Src) (x : Nat) (hx : x < h.next)
    (hsrc : ∀ w ∈ src.vars, cellCnt (rd w) x = 0) (hs : stored h.heap h.next x = 0) :
    Keeps h (srcCopy rd h src).1 x ∧ cellCnt (srcCopy rd h src).2 x = 0 := by
  cases src with
  | var w =>
    have hw := hsrc w (by simp [Src.vars])
    refine ⟨copyCell_keeps h hb (rd w) x hw hs, ?_⟩
    simp only [srcCopy]
    cases hc : rd w <;> simp [copyCell, hc] at hw ⊢
    exact hw
  | lit y =>
    cases y with
    | str t =>
      refine ⟨alloc_keeps h hb (.str t) x hx rfl hs, ?_⟩
      simp only [srcCopy, mkLit, alloc_id, cellCnt_ptr]
      have : ¬ h.next = x := by omega
      simp [this]
    | null => exact ⟨Keeps.refl hb hs, rfl⟩
    | bool b => exact ⟨Keeps.refl hb hs, rfl⟩
    | dbl d => exact ⟨Keeps.refl hb hs, rfl⟩
    | int n => exact ⟨Keeps.refl hb hs, rfl⟩
    | uint n => exact ⟨Keeps.refl hb hs, rfl⟩
    | int64 n => exact ⟨Keeps.refl hb hs, rfl⟩
    | uint64 n => exact ⟨Keeps.refl hb hs, rfl⟩
    | map m => exact ⟨Keeps.refl hb hs, rfl⟩
    | list l => exact ⟨Keeps.refl hb hs, rfl⟩
    | array l => exact ⟨Keeps.refl hb hs, rfl⟩

theorem emptyPay_cells (ds : DblSem) (h : Heap) (k : Nat) (c : Cell) : (emptyPay ds h k c).cells = [] := by
  unfold emptyPay
  split
  · rfl
  · split
    · rfl
    · split <;> rfl

theorem accessPay_keeps (ds : DblSem) (h : Heap) (hb : Bounded h) (c : Cell) (k x : Nat)
    (hs : stored h.heap h.next x = 0) :
    Keeps h (accessPay ds h c k).1 x ∧ cntCells (accessPay ds h c k).2.cells x = 0 := by
  unfold accessPay
  split
  · cases c with
    | null => exact ⟨Keeps.refl hb hs, by simp [emptyPay_cells, cntCells_nil]⟩
    | inl y => exact ⟨Keeps.refl hb hs, by simp [emptyPay_cells, cntCells_nil]⟩
    | ptr b =>
      cases hbb : h.heap b with
      | none => simp only [hbb]; exact ⟨Keeps.refl hb hs, by simp [emptyPay_cells, cntCells_nil]⟩
      | some blk =>
        have := cnt_le_stored h hb b blk hbb x
        simp only [hbb]
        exact ⟨copyPay_keeps h hb blk.pay x (by omega) hs, by rw [copyPay_cnt]; omega⟩
  · exact ⟨Keeps.refl hb hs, by simp [emptyPay_cells, cntCells_nil]⟩

theorem accessCell_keeps (f : Nat) (ds : DblSem) (h : Heap) (c : Cell) (k : Nat) (h' : Heap) (c' : Cell) (x : Nat)
    (r : accessCell f ds h c k = some (h', c')) (hb : Bounded h) (hx : x < h.next) (hc : cellCnt c x = 0)
    (hs : stored h.heap h.next x = 0) : Keeps h h' x ∧ cellCnt c' x = 0 := by
  unfold accessCell at r
  split at r
  · obtain ⟨k1, c1⟩ := accessPay_keeps ds h hb c k x hs
    have k2 := alloc_keeps (accessPay ds h c k).1 k1.bnd (accessPay ds h c k).2 x (by have := k1.mono; omega) c1 k1.unst
    simp only at r
    cases hr : release f (alloc (accessPay ds h c k).1 (accessPay ds h c k).2).1 c with
    | none => rw [hr] at r; cases r
    | some h3 =>
      rw [hr] at r
      simp only [Option.some.injEq, Prod.mk.injEq] at r
      obtain ⟨e1, e2⟩ := r
      subst e1 e2
      have k3 := release_keeps f _ c h3 x hr k2.bnd hc k2.unst
      refine ⟨(k1.trans k2).trans k3, ?_⟩
      simp only [alloc_id, cellCnt_ptr]
      have := k1.mono
      have : ¬ (accessPay ds h c k).1.next = x := by omega
      simp [this]
  · simp only [Option.some.injEq, Prod.mk.injEq] at r
    obtain ⟨e1, e2⟩ := r
    subst e1 e2
    exact ⟨Keeps.refl hb hs, hc⟩

theorem setPay_next (h : Heap) (b : Nat) (p : Pay) : (setPay h b p).next = h.next := by
  unfold setPay; split <;> rfl

theorem srcCopies_keeps (rd : Nat → Cell) : ∀ (l : List Src) (h : Heap), Bounded h → ∀ x, x < h.next →
    (∀ s ∈ l, ∀ w ∈ s.vars, cellCnt (rd w) x = 0) → stored h.heap h.next x = 0 →
    Keeps h (srcCopies rd h l).1 x ∧ cntCells (srcCopies rd h l).2 x = 0 := by
  intro l
  induction l with
  | nil => intro h hb x _ _ hs; exact ⟨Keeps.refl hb hs, rfl⟩
  | cons s t ih =>
    intro h hb x hx hsv hs
    obtain ⟨k1, c1⟩ := srcCopy_keeps rd h hb s x hx (hsv s (by simp)) hs
    obtain ⟨k2, c2⟩ := ih (srcCopy rd h s).1 k1.bnd x (by have := k1.mono; omega) (fun s' hs' => hsv s' (by simp [hs'])) k1.unst
    have hcs : srcCopies rd h (s :: t) = ((srcCopies rd (srcCopy rd h s).1 t).1, (srcCopy rd h s).2 :: (srcCopies rd (srcCopy rd h s).1 t).2) := rfl
    rw [hcs]
    exact ⟨k1.trans k2, by simp only [cntCells_cons]; omega⟩

theorem tmpMap_keeps (f : Nat) (rd : Nat → Cell) : ∀ (m : List (Str × Src)) (h : Heap) (acc : List (Str × Cell)) (h' : Heap)
    (acc' : List (Str × Cell)) (x : Nat), tmpMap f rd h m acc = some (h', acc') → Bounded h → x < h.next →
    (∀ q ∈ m, ∀ w ∈ q.2.vars, cellCnt (rd w) x = 0) → cntCells (acc.map (·.2)) x = 0 → stored h.heap h.next x = 0 →
    Keeps h h' x ∧ cntCells (acc'.map (·.2)) x = 0 := by
  intro m
  induction m with
  | nil =>
    intro h acc h' acc' x r hb _ _ ha hs
    simp only [tmpMap, Option.some.injEq, Prod.mk.injEq] at r
    obtain ⟨e1, e2⟩ := r
    subst e1 e2
    exact ⟨Keeps.refl hb hs, ha⟩
  | cons q t ih =>
    obtain ⟨k, src⟩ := q
    intro h acc h' acc' x r hb hx hsv ha hs
    obtain ⟨k1, c1⟩ := srcCopy_keeps rd h hb src x hx (hsv (k, src) (by simp)) hs
    simp only [tmpMap] at r
    have hx1 : x < (srcCopy rd h src).1.next := by have := k1.mono; omega
    have hst : ∀ q ∈ t, ∀ w ∈ q.2.vars, cellCnt (rd w) x = 0 := fun q hq => hsv q (by simp [hq])
    cases hg : mapGet acc k with
    | some old =>
      rw [hg] at r
      simp only at r
      have hold : cellCnt old x = 0 := by
        have := cellCnt_le_of_mem _ old x (mem_cells_of_getCell (.map acc) (.mk k) old hg)
        simp only [Pay.cells] at this; omega
      cases hr : release f (srcCopy rd h src).1 old with
      | none => rw [hr] at r; cases r
      | some h2 =>
        rw [hr] at r
        simp only at r
        have k2 := release_keeps f _ old h2 x hr k1.bnd hold k1.unst
        have hacc1 : cntCells ((mapPut acc k (srcCopy rd h src).2).map (·.2)) x = 0 := by
          have := cnt_mapPut acc k (srcCopy rd h src).2 old x hg; omega
        obtain ⟨k3, c3⟩ := ih h2 _ h' acc' x r k2.bnd (by have := k2.mono; omega) hst hacc1 k2.unst
        exact ⟨(k1.trans k2).trans k3, c3⟩
    | none =>
      rw [hg] at r
      simp only at r
      have hacc1 : cntCells ((acc ++ [(k, (srcCopy rd h src).2)]).map (·.2)) x = 0 := by
        simp only [List.map_append, List.map_cons, List.map_nil, cntCells_append, cntCells_cons, cntCells_nil]; omega
      obtain ⟨k3, c3⟩ := ih _ _ h' acc' x r k1.bnd hx1 hst hacc1 k1.unst
      exact ⟨k1.trans k3, c3⟩

theorem setBoxedCell_keeps (f : Nat) (h : Heap) (c : Cell) (p : Pay) (h' : Heap) (c' : Cell) (x : Nat)
    (r : setBoxedCell f h c p = some (h', c')) (hb : Bounded h) (hx : x < h.next) (hc : cellCnt c x = 0)
    (hp : cntCells p.cells x = 0) (hs : stored h.heap h.next x = 0) : Keeps h h' x ∧ cellCnt c' x = 0 := by
  unfold setBoxedCell at r
  split at r
  · cases hr : release f h c with
    | none => rw [hr] at r; cases r
    | some h1 =>
      rw [hr] at r
      simp only [Option.some.injEq, Prod.mk.injEq] at r
      obtain ⟨e1, e2⟩ := r
      subst e1 e2
      have k1 := release_keeps f h c h1 x hr hb hc hs
      have k2 := copyPay_keeps h1 k1.bnd p x hp k1.unst
      have k3 := alloc_keeps (copyPay h1 p).1 k2.bnd (copyPay h1 p).2 x (by have := k1.mono; have := k2.mono; omega)
        (by rw [copyPay_cnt]; exact hp) k2.unst
      refine ⟨(k1.trans k2).trans k3, ?_⟩
      simp only [alloc_id, cellCnt_ptr]
      have := k1.mono; have := k2.mono
      have : ¬ (copyPay h1 p).1.next = x := by omega
      simp [this]
  · cases c with
    | null => cases r
    | inl y => cases r
    | ptr b =>
      have hbx : b ≠ x := by intro e; subst e; simp [cellCnt_ptr] at hc
      simp only at r
      cases hbb : h.heap b with
      | none => rw [hbb] at r; cases r
      | some blk =>
        rw [hbb] at r
        simp only at r
        have k1 := copyPay_keeps h hb p x hp hs
        have k2 := setPay_keeps (copyPay h p).1 k1.bnd b (copyPay h p).2 x hbx (by rw [copyPay_cnt]; exact hp) k1.unst
        cases hr : releaseAll f (setPay (copyPay h p).1 b (copyPay h p).2) blk.pay.cells with
        | none => rw [hr] at r; cases r
        | some h3 =>
          rw [hr] at r
          simp only [Option.map, Option.some.injEq, Prod.mk.injEq] at r
          obtain ⟨e1, e2⟩ := r
          subst e1 e2
          have hold := cnt_le_stored h hb b blk hbb x
          have k3 := releaseAll_keeps f blk.pay.cells _ h3 x hr k2.bnd (by omega) k2.unst
          exact ⟨(k1.trans k2).trans k3, hc⟩

theorem leafOp_keeps (f : Nat) (ds : DblSem) (rd : Nat → Cell) (h : Heap) (c : Cell) (lf : LeafS) (h' : Heap) (c' : Cell)
    (x : Nat) (r : leafOp f ds rd h c lf = some (h', c')) (hsup : LeafSupS lf) (hb : Bounded h) (hx : x < h.next)
    (hc : cellCnt c x = 0) (hsrc : ∀ w ∈ lf.vars, cellCnt (rd w) x = 0) (hs : stored h.heap h.next x = 0) :
    Keeps h h' x ∧ cellCnt c' x = 0 := by
  -- all payload edits through the accessor share one argument
  have edit : ∀ (kind : Nat) (F : Heap → Pay → Option (Heap × Pay × List Cell)),
      (∀ s1 p s2 p' dead, Bounded s1 → x < s1.next → stored s1.heap s1.next x = 0 → F s1 p = some (s2, p', dead) →
        Keeps s1 s2 x ∧ cntCells p'.cells x ≤ cntCells p.cells x ∧ cntCells dead x ≤ cntCells p.cells x) →
      withAccess f ds h c kind F = some (h', c') → Keeps h h' x ∧ cellCnt c' x = 0 := by
    intro kind F hF r
    unfold withAccess at r
    cases ha : accessCell f ds h c kind with
    | none => rw [ha] at r; cases r
    | some q =>
      obtain ⟨h1, c1⟩ := q
      rw [ha] at r
      cases c1 with
      | null => cases r
      | inl y => cases r
      | ptr b =>
        simp only at r
        obtain ⟨k1, cb⟩ := accessCell_keeps f ds h c kind h1 (.ptr b) x ha hb hx hc hs
        have hbx : b ≠ x := by intro e; subst e; simp [cellCnt_ptr] at cb
        cases hbb : h1.heap b with
        | none => rw [hbb] at r; cases r
        | some blk =>
          rw [hbb] at r
          simp only at r
          cases hf : F h1 blk.pay with
          | none => rw [hf] at r; cases r
          | some q2 =>
            obtain ⟨s2, p', dead⟩ := q2
            rw [hf] at r
            simp only at r
            obtain ⟨k2, hp', hdead⟩ := hF h1 blk.pay s2 p' dead k1.bnd (by have := k1.mono; omega) k1.unst hf
            have hold := cnt_le_stored h1 k1.bnd b blk hbb x
            have k3 := setPay_keeps s2 k2.bnd b p' x hbx (by have := k1.unst; omega) k2.unst
            cases hr : releaseAll f (setPay s2 b p') dead with
            | none => rw [hr] at r; cases r
            | some h4 =>
              rw [hr] at r
              simp only [Option.map, Option.some.injEq, Prod.mk.injEq] at r
              obtain ⟨e1, e2⟩ := r
              subst e1 e2
              have k4 := releaseAll_keeps f dead _ h4 x hr k3.bnd (by have := k1.unst; omega) k3.unst
              exact ⟨((k1.trans k2).trans k3).trans k4, cb⟩
  have srcSpec : ∀ (src : Src), (∀ w ∈ src.vars, cellCnt (rd w) x = 0) → ∀ s1, Bounded s1 → x < s1.next →
      stored s1.heap s1.next x = 0 → Keeps s1 (srcCopy rd s1 src).1 x ∧ cellCnt (srcCopy rd s1 src).2 x = 0 :=
    fun src hsv s1 b1 x1 st1 => srcCopy_keeps rd s1 b1 src x x1 hsv st1
  cases lf with
  | assign src =>
    simp only [leafOp] at r
    obtain ⟨k1, c1⟩ := srcCopy_keeps rd h hb src x hx hsrc hs
    cases hr : release f (srcCopy rd h src).1 c with
    | none => rw [hr] at r; cases r
    | some h2 =>
      rw [hr] at r
      simp only [Option.map, Option.some.injEq, Prod.mk.injEq] at r
      obtain ⟨e1, e2⟩ := r
      subst e1 e2
      exact ⟨k1.trans (release_keeps f _ c h2 x hr k1.bnd hc k1.unst), c1⟩
  | set e =>
    cases e with
    | lit y =>
      have hl : LitOk y := hsup
      have scalar : y.isBoxed = false → Keeps h h' x ∧ cellCnt c' x = 0 := by
        intro hy
        simp only [leafOp, hy, Bool.false_eq_true, if_false] at r
        split at r
        · cases hr : release f h c with
          | none => rw [hr] at r; cases r
          | some h2 =>
            rw [hr] at r
            simp only [Option.map, Option.some.injEq, Prod.mk.injEq] at r
            obtain ⟨e1, e2⟩ := r
            subst e1 e2
            exact ⟨release_keeps f h c h2 x hr hb hc hs, rfl⟩
        · simp only [Option.some.injEq, Prod.mk.injEq] at r
          obtain ⟨e1, e2⟩ := r
          subst e1 e2
          exact ⟨Keeps.refl hb hs, rfl⟩
      cases y with
      | str t =>
        simp only [leafOp, Val.isBoxed, if_true] at r
        exact setBoxedCell_keeps f h c (.str t) h' c' x r hb hx hc rfl hs
      | map m => exact absurd hl (by simp [LitOk])
      | list l => exact absurd hl (by simp [LitOk])
      | array l => exact absurd hl (by simp [LitOk])
      | null => exact scalar rfl
      | bool b => exact scalar rfl
      | dbl d => exact scalar rfl
      | int n => exact scalar rfl
      | uint n => exact scalar rfl
      | int64 n => exact scalar rfl
      | uint64 n => exact scalar rfl
    | list l =>
      simp only [leafOp, tmpPay] at r
      obtain ⟨k1, c1⟩ := srcCopies_keeps rd l h hb x hx
        (fun s hs w hw => hsrc w (by simp only [LeafS.vars, ValS.vars, List.mem_flatMap]; exact ⟨s, hs, hw⟩)) hs
      cases hsb : setBoxedCell f (srcCopies rd h l).1 c (.list (srcCopies rd h l).2) with
      | none => rw [hsb] at r; cases r
      | some q =>
        obtain ⟨s2, c2⟩ := q
        rw [hsb] at r
        simp only at r
        obtain ⟨k2, cc2⟩ := setBoxedCell_keeps f _ c _ s2 c2 x hsb k1.bnd (by have := k1.mono; omega) hc c1 k1.unst
        cases hr : releaseAll f s2 (Pay.list (srcCopies rd h l).2).cells with
        | none => rw [hr] at r; cases r
        | some h3 =>
          rw [hr] at r
          simp only [Option.map, Option.some.injEq, Prod.mk.injEq] at r
          obtain ⟨e1, e2⟩ := r
          subst e1 e2
          exact ⟨(k1.trans k2).trans (releaseAll_keeps f _ s2 h3 x hr k2.bnd c1 k2.unst), cc2⟩
    | array l =>
      simp only [leafOp, tmpPay] at r
      obtain ⟨k1, c1⟩ := srcCopies_keeps rd l h hb x hx
        (fun s hs w hw => hsrc w (by simp only [LeafS.vars, ValS.vars, List.mem_flatMap]; exact ⟨s, hs, hw⟩)) hs
      cases hsb : setBoxedCell f (srcCopies rd h l).1 c (.array (srcCopies rd h l).2) with
      | none => rw [hsb] at r; cases r
      | some q =>
        obtain ⟨s2, c2⟩ := q
        rw [hsb] at r
        simp only at r
        obtain ⟨k2, cc2⟩ := setBoxedCell_keeps f _ c _ s2 c2 x hsb k1.bnd (by have := k1.mono; omega) hc c1 k1.unst
        cases hr : releaseAll f s2 (Pay.array (srcCopies rd h l).2).cells with
        | none => rw [hr] at r; cases r
        | some h3 =>
          rw [hr] at r
          simp only [Option.map, Option.some.injEq, Prod.mk.injEq] at r
          obtain ⟨e1, e2⟩ := r
          subst e1 e2
          exact ⟨(k1.trans k2).trans (releaseAll_keeps f _ s2 h3 x hr k2.bnd c1 k2.unst), cc2⟩
    | map m =>
      simp only [leafOp, tmpPay] at r
      cases htm : tmpMap f rd h m [] with
      | none => rw [htm] at r; cases r
      | some q =>
        obtain ⟨s1, tmp⟩ := q
        rw [htm] at r
        simp only [Option.map] at r
        obtain ⟨k1, c1⟩ := tmpMap_keeps f rd m h [] s1 tmp x htm hb hx
          (fun q hq w hw => hsrc w (by simp only [LeafS.vars, ValS.vars, List.mem_flatMap]; exact ⟨q, hq, hw⟩)) rfl hs
        cases hsb : setBoxedCell f s1 c (.map tmp) with
        | none => rw [hsb] at r; cases r
        | some q2 =>
          obtain ⟨s2, c2⟩ := q2
          rw [hsb] at r
          simp only at r
          obtain ⟨k2, cc2⟩ := setBoxedCell_keeps f _ c _ s2 c2 x hsb k1.bnd (by have := k1.mono; omega) hc c1 k1.unst
          cases hr : releaseAll f s2 (Pay.map tmp).cells with
          | none => rw [hr] at r; cases r
          | some h3 =>
            rw [hr] at r
            simp only [Option.map, Option.some.injEq, Prod.mk.injEq] at r
            obtain ⟨e1, e2⟩ := r
            subst e1 e2
            exact ⟨(k1.trans k2).trans (releaseAll_keeps f _ s2 h3 x hr k2.bnd c1 k2.unst), cc2⟩
  | clear =>
    simp only [leafOp] at r
    cases hr : release f h c with
    | none => rw [hr] at r; cases r
    | some h2 =>
      rw [hr] at r
      simp only [Option.map, Option.some.injEq, Prod.mk.injEq] at r
      obtain ⟨e1, e2⟩ := r
      subst e1 e2
      exact ⟨release_keeps f h c h2 x hr hb hc hs, rfl⟩
  | touch k => exact accessCell_keeps f ds h c k h' c' x r hb hx hc hs
  | lapp src =>
    simp only [leafOp] at r
    refine edit 8 _ ?_ r
    intro s1 p s2 p' dead b1 x1 st1 hF
    cases p <;> simp at hF
    obtain ⟨e1, e2, e3⟩ := hF
    subst e1 e2 e3
    obtain ⟨k, ck⟩ := srcSpec src hsrc s1 b1 x1 st1
    exact ⟨k, by simp [Pay.cells, cntCells_append, cntCells_cons, cntCells_nil, ck], by simp [cntCells_nil]⟩
  | lpre src =>
    simp only [leafOp] at r
    refine edit 8 _ ?_ r
    intro s1 p s2 p' dead b1 x1 st1 hF
    cases p <;> simp at hF
    obtain ⟨e1, e2, e3⟩ := hF
    subst e1 e2 e3
    obtain ⟨k, ck⟩ := srcSpec src hsrc s1 b1 x1 st1
    exact ⟨k, by simp [Pay.cells, cntCells_cons, ck], by simp [cntCells_nil]⟩
  | aapp src =>
    simp only [leafOp] at r
    refine edit 9 _ ?_ r
    intro s1 p s2 p' dead b1 x1 st1 hF
    cases p <;> simp at hF
    obtain ⟨e1, e2, e3⟩ := hF
    subst e1 e2 e3
    obtain ⟨k, ck⟩ := srcSpec src hsrc s1 b1 x1 st1
    exact ⟨k, by simp [Pay.cells, cntCells_append, cntCells_cons, cntCells_nil, ck], by simp [cntCells_nil]⟩
  | lrem i =>
    simp only [leafOp] at r
    refine edit 8 _ ?_ r
    intro s1 p s2 p' dead b1 x1 st1 hF
    cases p <;> simp at hF
    rename_i cs
    cases hci : cs[i]? with
    | none => rw [hci] at hF; cases hF
    | some old =>
      rw [hci] at hF
      simp only [Option.some.injEq, Prod.mk.injEq] at hF
      obtain ⟨e1, e2, e3⟩ := hF
      subst e1 e2 e3
      have := cnt_eraseIdx cs i old x hci
      exact ⟨Keeps.refl b1 st1, by simp only [Pay.cells]; omega, by simp only [Pay.cells, cntCells_cons, cntCells_nil]; omega⟩
  | arem i =>
    simp only [leafOp] at r
    refine edit 9 _ ?_ r
    intro s1 p s2 p' dead b1 x1 st1 hF
    cases p <;> simp at hF
    rename_i cs
    cases hci : cs[i]? with
    | none => rw [hci] at hF; cases hF
    | some old =>
      rw [hci] at hF
      simp only [Option.some.injEq, Prod.mk.injEq] at hF
      obtain ⟨e1, e2, e3⟩ := hF
      subst e1 e2 e3
      have := cnt_eraseIdx cs i old x hci
      exact ⟨Keeps.refl b1 st1, by simp only [Pay.cells]; omega, by simp only [Pay.cells, cntCells_cons, cntCells_nil]; omega⟩
  | mput k src =>
    simp only [leafOp] at r
    refine edit 7 _ ?_ r
    intro s1 p s2 p' dead b1 x1 st1 hF
    cases p <;> simp at hF
    rename_i m
    obtain ⟨kk, ck⟩ := srcSpec src hsrc s1 b1 x1 st1
    cases hg : mapGet m k with
    | some old =>
      rw [hg] at hF
      simp only [Option.some.injEq, Prod.mk.injEq] at hF
      obtain ⟨e1, e2, e3⟩ := hF
      subst e1 e2 e3
      have := cnt_mapPut m k (srcCopy rd s1 src).2 old x hg
      exact ⟨kk, by simp only [Pay.cells]; omega, by simp only [Pay.cells, cntCells_cons, cntCells_nil]; omega⟩
    | none =>
      rw [hg] at hF
      simp only [Option.some.injEq, Prod.mk.injEq] at hF
      obtain ⟨e1, e2, e3⟩ := hF
      subst e1 e2 e3
      exact ⟨kk, by simp [Pay.cells, cntCells_append, cntCells_cons, cntCells_nil, ck], by simp [cntCells_nil]⟩
  | mrem k =>
    simp only [leafOp] at r
    refine edit 7 _ ?_ r
    intro s1 p s2 p' dead b1 x1 st1 hF
    cases p <;> simp at hF
    rename_i m
    obtain ⟨e1, e2, e3⟩ := hF
    subst e1 e2 e3
    have := cnt_mapDel m k x
    cases hg : mapGet m k with
    | none =>
      simp only [hg, cntCells_nil] at this ⊢
      exact ⟨Keeps.refl b1 st1, by simp only [Pay.cells]; omega, by omega⟩
    | some old =>
      simp only [hg] at this ⊢
      exact ⟨Keeps.refl b1 st1, by simp only [Pay.cells]; omega, by simp only [Pay.cells]; omega⟩
  | sapp t =>
    simp only [leafOp] at r
    refine edit 10 _ ?_ r
    intro s1 p s2 p' dead b1 x1 st1 hF
    cases p <;> simp at hF
    obtain ⟨e1, e2, e3⟩ := hF
    subst e1 e2 e3
    exact ⟨Keeps.refl b1 st1, by simp [Pay.cells, cntCells_nil], by simp [cntCells_nil]⟩

end Nstd.Variant.Deep
