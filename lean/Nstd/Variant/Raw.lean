import Nstd.Variant.Deep
/-
  The vocabulary of the TRANSLATED member functions of `Variant` (tools/gen_variant.py writes
  `Nstd/Generated/VariantRep.lean` over these definitions on every run; PropsGen.lean proves the generated
  functions equal to the steps of the deep model).

  A `Variant` object as the C++ text sees it: the pointer `data` (to the static `nullData`, to the
  object's own `_data`, or to a heap block) and the member `_data` (type tag, reference count, union).
  The deep model's `Cell` is the abstraction `Obj.cell` of it.  Everything here is a direct reading of one
  C++ expression / statement form; `none` = the statement would touch memory the model does not have
  (dangling block, write through `&nullData`, a pointer into another object's `_data`).
-/
namespace Nstd.Variant.Raw
open Nstd.Variant Nstd.Variant.Deep

inductive DPtr where
  | nullData
  | own
  | blk (b : Nat)
  deriving Inhabited

/-- `struct Data`: `type`, `ref` and the union (the value last stored through one of its members) -/
structure Desc where
  type : Nat
  ref : Nat
  u : Val
  deriving Inhabited

structure Obj where
  data : DPtr
  own : Desc
  deriving Inhabited

/-- the cell of the deep model this object stands for; `none`: `_data` in use but inconsistent
    (tag ≠ active union member, a boxed tag, a non-zero count) -/
def Obj.cell (o : Obj) : Option Cell :=
  match o.data with
  | .nullData => some .null
  | .blk b => some (.ptr b)
  | .own =>
    if o.own.ref ≠ 0 then none
    else if o.own.type = 0 then some (.inl .null)
    else if o.own.u.type = o.own.type ∧ o.own.u.isBoxed = false then some (.inl o.own.u)
    else none

/-- an object that stands for a given cell (`_data` arbitrary where unused) -/
def ofCell (junk : Desc) : Cell → Obj
  | .null => ⟨.nullData, junk⟩
  | .inl x => ⟨.own, ⟨x.type, 0, x⟩⟩
  | .ptr b => ⟨.blk b, junk⟩

/-- the shared null sentinel and an inline null descriptor are the same Variant -/
def norm : Cell → Cell
  | .inl .null => .null
  | c => c

/-! ### reads through `data->` (this) and `other.data->` (a const Variant seen as its cell) -/

def Obj.type (s : Heap) (o : Obj) : Option Nat :=
  match o.data with
  | .nullData => some 0
  | .own => some o.own.type
  | .blk b => (s.heap b).map (·.pay.type)

def Obj.ref (s : Heap) (o : Obj) : Option Nat :=
  match o.data with
  | .nullData => some 0
  | .own => some o.own.ref
  | .blk b => (s.heap b).map (·.ref)

def ctype (s : Heap) : Cell → Option Nat
  | .null => some 0
  | .inl x => some x.type
  | .ptr b => (s.heap b).map (·.pay.type)

def cref (s : Heap) : Cell → Option Nat
  | .ptr b => (s.heap b).map (·.ref)
  | _ => some 0

/-- `*other.data` -/
def descOf (s : Heap) : Cell → Option Desc
  | .null => some ⟨0, 0, .null⟩
  | .inl x => some ⟨x.type, 0, x⟩
  | .ptr b => (s.heap b).map (fun blk => ⟨blk.pay.type, blk.ref, .null⟩)

/-- `other.data` as a pointer value this object may store: the sentinel or a heap block; a pointer into
    another object's `_data` is outside the model -/
def ptrOf : Cell → Option DPtr
  | .null => some .nullData
  | .ptr b => some (.blk b)
  | .inl _ => none

/-- `other.data == data` for another object `other` seen as its cell: both at the sentinel, or both at the same heap block
    (a pointer to `other`'s own `_data` is never this object's `data`) -/
def ptrEq (o : Obj) : Cell → Bool
  | .null => (match o.data with | .nullData => true | _ => false)
  | .ptr b => (match o.data with | .blk b' => b == b' | _ => false)
  | .inl _ => false

/-- `data == &_data` -/
def isOwn (o : Obj) : Bool := match o.data with | .own => true | _ => false

/-- a `data` pointer another object may take over: the sentinel or a heap block (not a pointer to this object's `_data`) -/
def xptr : DPtr → Option DPtr
  | .own => none
  | p => some p

/-! ### reference counts -/

def incrBlk (s : Heap) (b : Nat) : Option Heap :=
  match s.heap b with
  | some blk => some { s with heap := upd s.heap b (some { blk with ref := blk.ref + 1 }) }
  | none => none

/-- `Atomic::increment(data->ref)` -/
def Obj.incr (s : Heap) (o : Obj) : Option (Heap × Obj) :=
  match o.data with
  | .blk b => (incrBlk s b).map (fun s' => (s', o))
  | .own => some (s, { o with own := { o.own with ref := o.own.ref + 1 } })
  | .nullData => none

/-- `Atomic::increment(other.data->ref)` -/
def cincr (s : Heap) : Cell → Option Heap
  | .ptr b => incrBlk s b
  | _ => none

/-- `Atomic::decrement(data->ref)`: the new state and the value returned (the new count) -/
def Obj.decr (s : Heap) (o : Obj) : Option (Heap × Obj × Nat) :=
  match o.data with
  | .blk b =>
    (match s.heap b with
     | some blk =>
       if blk.ref = 0 then none
       else some ({ s with heap := upd s.heap b (some { blk with ref := blk.ref - 1 }) }, o, blk.ref - 1)
     | none => none)
  | .own => if o.own.ref = 0 then none else some (s, { o with own := { o.own with ref := o.own.ref - 1 } }, o.own.ref - 1)
  | .nullData => none

/-! ### payloads -/

/-- `((T*)(data + 1))->~T()`: the element Variants of the payload leave it (they are destroyed by the caller's
    continuation after the block is gone — the deep model's order "unlink, then destroy"); `none` when `data` is no
    block whose payload has type `kind` -/
def Obj.detach (s : Heap) (o : Obj) (kind : Nat) : Option (List Cell) :=
  match o.data with
  | .blk b => (match s.heap b with
    | some blk => if blk.pay.type = kind then some blk.pay.cells else none
    | none => none)
  | _ => none

/-- `delete[] (char*)data` -/
def Obj.free (s : Heap) (o : Obj) : Option Heap :=
  match o.data with
  | .blk b => (match s.heap b with
    | some _ => some { s with heap := upd s.heap b none }
    | none => none)
  | _ => none

/-- destroy the detached elements: `~Variant()` of each in turn -/
def destroyAll (dtor : Heap → Cell → Option Heap) (s : Heap) (cs : List Cell) : Option Heap :=
  cs.foldlM (fun s' c' => dtor s' c') s

/-- `*(const T*)(data + 1)` under `data->type == kind`: the payload referred to (no copy) -/
def Obj.pay (s : Heap) (o : Obj) (kind : Nat) : Option Pay :=
  match o.data with
  | .blk b => (match s.heap b with
    | some blk => if blk.pay.type = kind then some blk.pay else none
    | none => none)
  | _ => none

/-- `((const Variant*)this)->toString()` -/
def Obj.str (ds : DblSem) (s : Heap) (o : Obj) : Option Str := o.cell.map (cellStr ds s)

/-- `static const T x;` of the const accessors -/
def emptyOf (kind : Nat) : Pay :=
  if kind = 7 then .map [] else if kind = 8 then .list [] else if kind = 9 then .array [] else .str []

/-- a new block: `new char[sizeof(Data) + sizeof(T)]`, `new (p) T(src)` (copy construction of the payload, done by the
    caller with `copyPay`), `->type = kind`, `->ref = r`.  The two field initialisations are hoisted to the allocation
    (no handle to the block exists before `data = …` is executed); a payload whose type is not the tag written is a fault. -/
def allocInit (s : Heap) (p : Pay) (kind r : Nat) : Option (Heap × Nat) :=
  if p.type = kind then some ({ s with heap := upd s.heap s.next (some ⟨r, p⟩), next := s.next + 1 }, s.next) else none

/-- `*(T*)(data + 1) = other` on the block `data` points to: the old elements leave (returned), copies of the new come -/
def Obj.assignPay (s : Heap) (o : Obj) (kind : Nat) (p : Pay) : Option (Heap × List Cell) :=
  match o.data with
  | .blk b => (match s.heap b with
    | some blk =>
      if blk.pay.type = kind ∧ p.type = kind then
        let (s1, p') := copyPay s p
        some (setPay s1 b p', blk.pay.cells)
      else none
    | none => none)
  | _ => none

/-- a live handle: what the invariant of the deep model gives for every cell of a reachable state -/
def Live (s : Heap) (c : Cell) : Prop :=
  (∀ x, c = .inl x → x.isBoxed = false) ∧ (∀ b, c = .ptr b → ∃ blk, s.heap b = some blk ∧ 1 ≤ blk.ref)

end Nstd.Variant.Raw
