import Nstd.Variant.DeepAtoms
/-
  `release` (= `clear()` / `~Variant()` of a pending handle) with the destructor cascade:
  it terminates within a fuel above the number of live blocks, keeps the invariant, and
  frees exactly the blocks whose last handle it removes.
-/
namespace Nstd.Variant.Deep
open Nstd.Variant

def liveN (heap : Nat → Option Block) (n : Nat) : Nat := (List.range n).countP (fun i => (heap i).isSome)

def liveCount (h : Heap) : Nat := liveN h.heap h.next

theorem liveN_upd (heap : Nat → Option Block) (i : Nat) (o : Option Block) (n : Nat) (hi : i < n) :
    liveN (upd heap i o) n + (if (heap i).isSome then 1 else 0) = liveN heap n + (if o.isSome then 1 else 0) := by
  unfold liveN
  induction n with
  | zero => omega
  | succ n ih =>
    simp only [List.range_succ, List.countP_append, List.countP_cons, List.countP_nil]
    by_cases h : i < n
    · have := ih h
      have hne : n ≠ i := by omega
      simp only [upd_other _ _ _ _ hne]
      omega
    · have e : i = n := by omega
      subst e
      have same : List.countP (fun w => (upd heap i o w).isSome) (List.range i)
          = List.countP (fun w => (heap w).isSome) (List.range i) := by
        apply List.countP_congr
        intro w hw
        have : w ≠ i := by have := List.mem_range.mp hw; omega
        simp [upd_other _ _ _ _ this]
      rw [same]
      simp only [upd_same]
      cases heap i <;> cases o <;> simp

theorem liveN_upd_ge (heap : Nat → Option Block) (i : Nat) (o : Option Block) (n : Nat) (hi : n ≤ i) :
    liveN (upd heap i o) n = liveN heap n := by
  unfold liveN
  apply List.countP_congr
  intro w hw
  have : w ≠ i := by have := List.mem_range.mp hw; omega
  simp [upd_other _ _ _ _ this]

/-! ### one handle less, block stays -/

theorem dinv_decr {h : Heap} {vars e g} (i : DInv h vars e g) (b : Nat) (blk : Block) (hb : h.heap b = some blk)
    (hr : blk.ref ≠ 1) (he : 1 ≤ e b) :
    DInv { h with heap := upd h.heap b (some { blk with ref := blk.ref - 1 }) } vars
      (fun x => e x - cellCnt (.ptr b) x) g := by
  have hst : ∀ x, stored (upd h.heap b (some { blk with ref := blk.ref - 1 })) h.next x = stored h.heap h.next x :=
    fun x => stored_same_cells h.heap b blk _ h.next x hb rfl
  have hpos := i.pos b blk hb
  constructor
  · intro v c hv
    by_cases ec : c = b
    · subst ec; exact ⟨{ blk with ref := blk.ref - 1 }, by simp⟩
    · obtain ⟨k, hk⟩ := i.live v c hv
      exact ⟨k, by simp [upd_other _ _ _ _ ec, hk]⟩
  · intro j k c hj hc
    have hc' : ∃ k0, h.heap j = some k0 ∧ Cell.ptr c ∈ k0.pay.cells := by
      by_cases ej : j = b
      · subst ej; simp at hj; subst hj; exact ⟨blk, hb, hc⟩
      · simp [upd_other _ _ _ _ ej] at hj; exact ⟨k, hj, hc⟩
    obtain ⟨k0, hk0, hm⟩ := hc'
    obtain ⟨k1, hk1⟩ := i.slive j k0 c hk0 hm
    by_cases ec : c = b
    · subst ec; exact ⟨{ blk with ref := blk.ref - 1 }, by simp⟩
    · exact ⟨k1, by simp [upd_other _ _ _ _ ec, hk1]⟩
  · intro c k hk
    simp only [hst, cellCnt_ptr]
    by_cases ec : c = b
    · subst ec; simp at hk; subst hk
      have := i.cnt c blk hb
      simp; omega
    · simp [upd_other _ _ _ _ ec] at hk
      have := i.cnt c k hk
      have : ¬ b = c := fun x => ec x.symm
      simp [this]; omega
  · intro c k hk
    by_cases ec : c = b
    · subst ec; simp at hk; subst hk; simp only; omega
    · simp [upd_other _ _ _ _ ec] at hk; exact i.pos c k hk
  · intro c hc
    by_cases ec : c = b
    · subst ec; have := i.fresh c hc; rw [hb] at this; cases this
    · simp [upd_other _ _ _ _ ec]; exact i.fresh c hc
  · intro c hc
    by_cases ec : c = b
    · subst ec; simp at hc
    · simp [upd_other _ _ _ _ ec] at hc
      have := i.efresh c hc
      show e c - cellCnt (.ptr b) c = 0
      omega
  · exact i.inl
  · intro j k x hj hx
    by_cases ej : j = b
    · subst ej; simp at hj; subst hj; exact i.sinl j blk x hb hx
    · simp [upd_other _ _ _ _ ej] at hj; exact i.sinl j k x hj hx
  · exact i.out
  · intro c k hk
    by_cases ec : c = b
    · subst ec; simp at hk; subst hk; exact i.cons c blk hb
    · simp [upd_other _ _ _ _ ec] at hk; exact i.cons c k hk

/-! ### last handle: the block goes, its elements become pending -/

theorem dinv_free {h : Heap} {vars e g} (i : DInv h vars e g) (b : Nat) (blk : Block) (hb : h.heap b = some blk)
    (hr : blk.ref = 1) (he : 1 ≤ e b) :
    DInv { h with heap := upd h.heap b none } vars
      (fun x => e x - cellCnt (.ptr b) x + cntCells blk.pay.cells x) g := by
  have hcnt := i.cnt b blk hb
  have hh : handles vars b = 0 := by omega
  have hs : stored h.heap h.next b = 0 := by omega
  have heb : e b = 1 := by omega
  have hlt := i.lt_next b blk hb
  have hnostore := no_store_of_zero i b hs
  constructor
  · intro v c hv
    by_cases ec : c = b
    · subst ec
      have hvl : v < nslots := by
        by_cases hl : v < nslots
        · exact hl
        · have := i.out v (by omega); rw [this] at hv; cases hv
      exact absurd hv (not_var_of_handles_zero vars c v hvl hh)
    · obtain ⟨k, hk⟩ := i.live v c hv
      exact ⟨k, by simp [upd_other _ _ _ _ ec, hk]⟩
  · intro j k c hj hm
    by_cases ej : j = b
    · subst ej; simp at hj
    · simp [upd_other _ _ _ _ ej] at hj
      have : c ≠ b := by intro ec; subst ec; exact hnostore j k hj hm
      obtain ⟨k', hk'⟩ := i.slive j k c hj hm
      exact ⟨k', by simp [upd_other _ _ _ _ this, hk']⟩
  · intro c k hk
    by_cases ec : c = b
    · subst ec; simp at hk
    · simp [upd_other _ _ _ _ ec] at hk
      have := i.cnt c k hk
      have hst := stored_upd h.heap b none h.next c hlt
      simp only [hb, cntBlk] at hst
      have : ¬ b = c := fun x => ec x.symm
      simp only [cellCnt_ptr, this, if_false]
      omega
  · intro c k hk
    by_cases ec : c = b
    · subst ec; simp at hk
    · simp [upd_other _ _ _ _ ec] at hk; exact i.pos c k hk
  · intro c hc
    by_cases ec : c = b
    · subst ec; simp
    · simp [upd_other _ _ _ _ ec]; exact i.fresh c hc
  · intro c hc
    by_cases ec : c = b
    · subst ec
      have : cntCells blk.pay.cells c = 0 := by
        cases hz : cntCells blk.pay.cells c with
        | zero => rfl
        | succ n => exact absurd (mem_of_cntCells_pos _ _ (by omega)) (hnostore c blk hb)
      simp [cellCnt_ptr, this]; omega
    · simp [upd_other _ _ _ _ ec] at hc
      have h0 := i.efresh c hc
      have h1 : cntCells blk.pay.cells c = 0 := by
        cases hz : cntCells blk.pay.cells c with
        | zero => rfl
        | succ n =>
          obtain ⟨k', hk'⟩ := i.slive b blk c hb (mem_of_cntCells_pos _ _ (by omega))
          rw [hc] at hk'; cases hk'
      simp only [h0, h1]; omega
  · exact i.inl
  · intro j k x hj hx
    by_cases ej : j = b
    · subst ej; simp at hj
    · simp [upd_other _ _ _ _ ej] at hj; exact i.sinl j k x hj hx
  · exact i.out
  · intro c k hk
    by_cases ec : c = b
    · subst ec; simp at hk
    · simp [upd_other _ _ _ _ ec] at hk; exact i.cons c k hk

/-! ### the cascade -/

/-- what a release (or a series of releases) guarantees about the heap it returns -/
structure Shrinks (h h' : Heap) : Prop where
  next : h'.next = h.next
  live : liveCount h' ≤ liveCount h
  pay : PaySub h h'

theorem Shrinks.refl (h : Heap) : Shrinks h h := ⟨rfl, Nat.le_refl _, PaySub.refl _⟩
theorem Shrinks.trans {a b c : Heap} (x : Shrinks a b) (y : Shrinks b c) : Shrinks a c :=
  ⟨y.next.trans x.next, Nat.le_trans y.live x.live, x.pay.trans y.pay⟩

theorem foldlM_release_cons (f : Nat) (h : Heap) (c : Cell) (t : List Cell) :
    (c :: t).foldlM (fun s' c' => release f s' c') h =
      (match release f h c with
       | some h1 => t.foldlM (fun s' c' => release f s' c') h1
       | none => none) := by
  simp only [List.foldlM_cons]
  cases release f h c <;> rfl

theorem dinv_release {vars : Nat → Cell} {g : Nat → Val} : ∀ (f : Nat) (h : Heap) (e : Nat → Nat) (c : Cell),
    DInv h vars e g → (∀ x, cellCnt c x ≤ e x) → liveCount h < f →
    ∃ h', release f h c = some h' ∧ DInv h' vars (fun x => e x - cellCnt c x) g ∧ Shrinks h h' := by
  intro f
  induction f with
  | zero => intro h e c _ _ hl; omega
  | succ f ih =>
    -- the list version at fuel f
    have fold : ∀ (cs : List Cell) (h : Heap) (e : Nat → Nat), DInv h vars e g → (∀ x, cntCells cs x ≤ e x) →
        liveCount h < f →
        ∃ h', cs.foldlM (fun s' c' => release f s' c') h = some h' ∧
          DInv h' vars (fun x => e x - cntCells cs x) g ∧ Shrinks h h' := by
      intro cs
      induction cs with
      | nil =>
        intro h e i _ _
        exact ⟨h, rfl, i.congr (by intro x; simp [cntCells_nil]), Shrinks.refl h⟩
      | cons c t iht =>
        intro h e i hle hl
        have hc : ∀ x, cellCnt c x ≤ e x := by
          intro x; have := hle x; rw [cntCells_cons] at this; omega
        obtain ⟨h1, r1, i1, s1⟩ := ih h e c i hc hl
        have ht : ∀ x, cntCells t x ≤ e x - cellCnt c x := by
          intro x; have := hle x; rw [cntCells_cons] at this; omega
        obtain ⟨h2, r2, i2, s2⟩ := iht h1 _ i1 ht (by have := s1.live; omega)
        refine ⟨h2, ?_, i2.congr ?_, s1.trans s2⟩
        · rw [foldlM_release_cons, r1]; exact r2
        · intro x; simp only [cntCells_cons]; omega
    intro h e c i hle hl
    cases c with
    | null => exact ⟨h, rfl, i.congr (by intro x; simp [cellCnt, isPtrTo]), Shrinks.refl h⟩
    | inl y => exact ⟨h, rfl, i.congr (by intro x; simp [cellCnt, isPtrTo]), Shrinks.refl h⟩
    | ptr b =>
      have heb : 1 ≤ e b := by have := hle b; simpa [cellCnt_ptr] using this
      obtain ⟨blk, hb⟩ := live_of_pending i b heb
      have hlt := i.lt_next b blk hb
      by_cases hr : blk.ref = 1
      · -- freed: cascade over the elements
        have i1 := dinv_free i b blk hb hr heb
        have hlive1 : liveCount { h with heap := upd h.heap b none } + 1 = liveCount h := by
          have := liveN_upd h.heap b none h.next hlt
          simp only [hb, Option.isSome_some, Option.isSome_none, if_true] at this
          simp only [liveCount]; simpa using this
        obtain ⟨h2, r2, i2, s2⟩ := fold blk.pay.cells _ _ i1 (by intro x; show cntCells blk.pay.cells x ≤ e x - cellCnt (.ptr b) x + cntCells blk.pay.cells x; omega) (by omega)
        refine ⟨h2, ?_, i2.congr ?_, ?_⟩
        · simp only [release, hb, hr, if_true]; exact r2
        · intro x; show e x - cellCnt (.ptr b) x + cntCells blk.pay.cells x - cntCells blk.pay.cells x = e x - cellCnt (.ptr b) x; omega
        · refine ⟨s2.next, by have := s2.live; omega, ?_⟩
          intro x blk' hx
          obtain ⟨k, hk, ek⟩ := s2.pay x blk' hx
          by_cases ex : x = b
          · subst ex; simp at hk
          · simp [upd_other _ _ _ _ ex] at hk; exact ⟨k, hk, ek⟩
      · refine ⟨{ h with heap := upd h.heap b (some { blk with ref := blk.ref - 1 }) }, ?_, dinv_decr i b blk hb hr heb, ?_⟩
        · simp only [release, hb, hr, if_false]
        · refine ⟨rfl, ?_, ?_⟩
          · have := liveN_upd h.heap b (some { blk with ref := blk.ref - 1 }) h.next hlt
            simp only [hb, Option.isSome_some, if_true] at this
            simp only [liveCount]; omega
          · intro x blk' hx
            by_cases ex : x = b
            · subst ex; simp at hx; subst hx; exact ⟨blk, hb, rfl⟩
            · simp [upd_other _ _ _ _ ex] at hx; exact ⟨blk', hx, rfl⟩

theorem dinv_releaseAll {vars : Nat → Cell} {g : Nat → Val} (f : Nat) : ∀ (cs : List Cell) (h : Heap) (e : Nat → Nat),
    DInv h vars e g → (∀ x, cntCells cs x ≤ e x) → liveCount h < f →
    ∃ h', releaseAll f h cs = some h' ∧ DInv h' vars (fun x => e x - cntCells cs x) g ∧ Shrinks h h' := by
  intro cs
  induction cs with
  | nil =>
    intro h e i _ _
    exact ⟨h, rfl, i.congr (by intro x; simp [cntCells_nil]), Shrinks.refl h⟩
  | cons c t iht =>
    intro h e i hle hl
    have hc : ∀ x, cellCnt c x ≤ e x := by
      intro x; have := hle x; rw [cntCells_cons] at this; omega
    obtain ⟨h1, r1, i1, s1⟩ := dinv_release f h e c i hc hl
    have ht : ∀ x, cntCells t x ≤ e x - cellCnt c x := by
      intro x; have := hle x; rw [cntCells_cons] at this; omega
    obtain ⟨h2, r2, i2, s2⟩ := iht h1 _ i1 ht (by have := s1.live; omega)
    refine ⟨h2, ?_, i2.congr ?_, s1.trans s2⟩
    · unfold releaseAll at r2 ⊢; rw [foldlM_release_cons, r1]; exact r2
    · intro x; simp only [cntCells_cons]; omega

end Nstd.Variant.Deep
