import Nstd.Codec.PropsNum
import Nstd.Variant.IeeeRat
import Nstd.Variant.LemmasAtof
/-
  `atof` (`dOfStr`, Ieee.lean) beyond integer numerals: decimal texts `ws sign? digits . digits ([eE] sign? digits)?`.
  (1) `Rat.dOfRatQ` — the rounding `dDecimal` uses for a negative decimal exponent — is the codec area's `roundToDbl`
      (definitions copied into IeeeRat.lean, proved equal here) and inherits `roundToDbl_correctly_rounded`:
      `dOfRatQ_correctly_rounded` (grid exponent, nearest integer significand, ties to even, value of the resulting bits).
  (2) `dOfStr_fraction` — the parse: the result is the sign bit plus the conversion of the exact rational the text denotes,
      `decVal (ip ++ fp) · 10^(x − |fp|)`.
-/
set_option linter.unusedSimpArgs false
set_option linter.unusedVariables false
namespace Nstd.Variant
open Nstd.Variant.Rat

theorem qNum_eq (n : Nat) (e : Int) : qNum n e = Codec.qNum n e := rfl
theorem qDen_eq (n : Nat) (e : Int) : qDen n e = Codec.qDen n e := rfl
theorem qOf_eq (n d : Nat) (e : Int) : qOf n d e = Codec.qOf n d e := rfl
theorem expOk_eq (n d : Nat) (e : Int) : expOk n d e = Codec.expOk n d e := rfl
theorem findExp_eq (n d : Nat) : ∀ (f : Nat) (e : Int), findExp n d f e = Codec.findExp n d f e
  | 0, e => rfl
  | f + 1, e => by simp only [findExp, Codec.findExp, qOf_eq, findExp_eq n d f]
theorem expHint_eq (n d : Nat) : expHint n d = Codec.expHint n d := rfl
theorem pickExp_eq (n d : Nat) : pickExp n d = Codec.pickExp n d := by
  simp only [pickExp, Codec.pickExp, expOk_eq, expHint_eq, findExp_eq]
theorem roundHE_eq (q d : Nat) : roundHE q d = Codec.roundHalfEven q d := rfl
end Nstd.Variant

namespace Nstd.Variant
open Nstd.Variant.Rat

theorem floor_le_roundHE (q d : Nat) : q / d ≤ roundHE q d := by
  unfold roundHE; simp only []
  split
  · exact Nat.le_refl _
  · split
    · omega
    · split <;> omega

/-- one binade down the scaled value doubles: `2^53 ≤ floor(v / 2^(e-1))` gives `2^52 ≤ floor(v / 2^e)` -/
theorem qOf_half (num den : Nat) (e : Int) (hd : 0 < den) (h : 9007199254740992 ≤ qOf num den (e - 1)) :
    4503599627370496 ≤ qOf num den e := by
  unfold qOf qNum qDen at *
  by_cases h1 : 0 ≤ e - 1
  · have h0 : 0 ≤ e := by omega
    simp only [h1, h0, if_true] at h ⊢
    have : e.toNat = (e - 1).toNat + 1 := by omega
    rw [this, Nat.pow_succ, ← Nat.mul_assoc, ← Nat.div_div_eq_div_mul]
    omega
  · by_cases h0 : 0 ≤ e
    · have he : e = 0 := by omega
      subst he
      simp only [h1, if_false, Int.le_refl, if_true] at h ⊢
      have e1 : (-(0 - 1 : Int)).toNat = 1 := by decide
      rw [e1] at h
      simp only [Int.toNat_zero, Nat.pow_zero, Nat.mul_one, Nat.pow_one] at h ⊢
      rw [Nat.le_div_iff_mul_le hd] at h ⊢
      omega
    · simp only [h1, h0, if_false] at h ⊢
      have : (-(e - 1)).toNat = (-e).toNat + 1 := by omega
      rw [this, Nat.pow_succ, ← Nat.mul_assoc] at h
      rw [Nat.le_div_iff_mul_le hd] at h ⊢
      omega

theorem dVal2_small (m : Nat) (h : m < 2 ^ 52) : dVal2 m = m := by
  have h1 : dExp m = 0 := by simp only [dExp, e52] at *; omega
  have h2 : dFrac m = m := by simp only [dFrac, e52] at *; omega
  simp [dVal2, dMag, h1, h2]

theorem dVal2_encFin (m : Nat) (e : Int) (hm : m < 2 ^ 53) (he1 : -1074 ≤ e) (he2 : e ≤ 971)
    (hg : 2 ^ 52 ≤ m ∨ e = -1074) : dVal2 (encFin m e) = m * 2 ^ (e + 1074).toNat := by
  unfold encFin
  by_cases hs : m < 4503599627370496
  · have he : e = -1074 := by rcases hg with h | h; simp only [e52] at h; omega; exact h
    subst he
    simp only [hs, if_true]
    rw [dVal2_small m (by simp only [e52]; exact hs)]; simp
  · simp only [hs, if_false]
    have := dVal2_normal (e + 1075).toNat m (by omega) (by omega) (by simp only [e52]; omega) hm
    simp only [e52] at this
    rw [this]
    congr 2; omega

end Nstd.Variant

namespace Nstd.Variant
open Nstd.Variant.Rat

theorem roundHE_le_succ (q d : Nat) : roundHE q d ≤ q / d + 1 := by
  unfold roundHE; simp only []
  split
  · omega
  · split
    · omega
    · split <;> omega

/-- **`dOfRatQ` is correctly rounded** for every positive rational below the overflow threshold (carried over from the codec
    area's `roundToDbl_correctly_rounded`): `e` is the exponent of the binary64 grid at `num/den`, `M` a nearest integer to
    `num/den/2^e` (the even one on a tie), and the result is the double whose value is `M·2^e` (`dVal2` = value·2^1074),
    renormalised when `M = 2^53`, infinity when that leaves the range. -/
theorem dOfRatQ_correctly_rounded (num den : Nat) (hd : 0 < den) (h : pickExp num den ≤ 971) :
    (-1074 ≤ pickExp num den ∧ qOf num den (pickExp num den) < 9007199254740992 ∧
      (pickExp num den = -1074 ∨ 9007199254740992 ≤ qOf num den (pickExp num den - 1))) ∧
    (2 * (roundHE (qNum num (pickExp num den)) (qDen den (pickExp num den)) * qDen den (pickExp num den)) ≤
        2 * qNum num (pickExp num den) + qDen den (pickExp num den) ∧
      2 * qNum num (pickExp num den) ≤
        2 * (roundHE (qNum num (pickExp num den)) (qDen den (pickExp num den)) * qDen den (pickExp num den)) + qDen den (pickExp num den) ∧
      ((2 * (roundHE (qNum num (pickExp num den)) (qDen den (pickExp num den)) * qDen den (pickExp num den)) =
          2 * qNum num (pickExp num den) + qDen den (pickExp num den) ∨
        2 * qNum num (pickExp num den) =
          2 * (roundHE (qNum num (pickExp num den)) (qDen den (pickExp num den)) * qDen den (pickExp num den)) + qDen den (pickExp num den)) →
        roundHE (qNum num (pickExp num den)) (qDen den (pickExp num den)) % 2 = 0)) ∧
    roundHE (qNum num (pickExp num den)) (qDen den (pickExp num den)) ≤ 9007199254740992 ∧
    (pickExp num den + 1 ≤ 971 ∨ roundHE (qNum num (pickExp num den)) (qDen den (pickExp num den)) < 9007199254740992 →
      dVal2 (dOfRatQ num den) = roundHE (qNum num (pickExp num den)) (qDen den (pickExp num den)) * 2 ^ (pickExp num den + 1074).toNat) ∧
    (971 < pickExp num den + 1 → roundHE (qNum num (pickExp num den)) (qDen den (pickExp num den)) = 9007199254740992 →
      dOfRatQ num den = infBits) := by
  have hc := Codec.roundToDbl_correctly_rounded false num den hd (by rw [← pickExp_eq]; exact h)
  simp only [← pickExp_eq, ← qOf_eq, ← qNum_eq, ← qDen_eq, ← roundHE_eq] at hc
  obtain ⟨hgrid, hnear, _⟩ := hc
  generalize he : pickExp num den = e at *
  generalize hM : roundHE (qNum num e) (qDen den e) = M at *
  have hfl : qOf num den e ≤ M := by rw [← hM]; exact floor_le_roundHE _ _
  have hle : M ≤ 9007199254740992 := by
    have := roundHE_le_succ (qNum num e) (qDen den e); rw [hM] at this
    have : qNum num e / qDen den e = qOf num den e := rfl
    omega
  have hlow : 4503599627370496 ≤ M ∨ e = -1074 := by
    rcases hgrid.2.2 with h1 | h1
    · exact Or.inr h1
    · have := qOf_half num den e hd h1; left; omega
  refine ⟨hgrid, hnear, hle, ?_, ?_⟩
  · intro hcase
    unfold dOfRatQ
    simp only [he, hM]
    rw [if_neg (by omega)]
    by_cases hc53 : M = 9007199254740992
    · have he1 : e + 1 ≤ 971 := by rcases hcase with h1 | h1 <;> omega
      rw [if_pos hc53, if_neg (by omega)]
      rw [dVal2_encFin 4503599627370496 (e + 1) (by simp only [e53]; omega) (by omega) he1 (Or.inl (by simp only [e52]; omega))]
      have : (e + 1 + 1074).toNat = (e + 1074).toNat + 1 := by omega
      rw [this, Nat.pow_succ, hc53]; omega
    · rw [if_neg hc53]
      exact dVal2_encFin M e (by simp only [e53]; omega) hgrid.1 h (by simp only [e52]; exact hlow)
  · intro h1 h2
    unfold dOfRatQ
    simp only [he, hM]
    rw [if_neg (by omega), if_pos h2, if_pos h1]

end Nstd.Variant

namespace Nstd.Variant
open Nstd.Variant.Rat

theorem takeDigits_app (ds rest : Str) (h : AllDigits ds) (hr : ∀ c, rest.head? = some c → isDigit c = false) :
    takeDigits (ds ++ rest) = (ds, rest) := by
  induction ds with
  | nil =>
    cases rest with
    | nil => rfl
    | cons c t => simp [takeDigits, hr c rfl]
  | cons c t ih =>
    have hc : isDigit c = true := h c (by simp)
    simp only [List.cons_append, takeDigits, hc, if_true, ih (fun x hx => h x (by simp [hx]))]

/-- the exponent part of a decimal text and the integer it denotes -/
inductive ExpSyntax : Str → Int → Prop where
  | none : ExpSyntax [] 0
  | mk (c : Nat) (hc : c = 101 ∨ c = 69) (esg : Sign) (ed : Str) (hd : AllDigits ed) (hne : ed ≠ []) :
      ExpSyntax (c :: (esg.str ++ ed)) (if esg.neg then -(decVal ed : Int) else (decVal ed : Int))

theorem ExpSyntax.head_not_digit {ex : Str} {x : Int} (h : ExpSyntax ex x) : ∀ c, ex.head? = some c → isDigit c = false := by
  cases h with
  | none => intro c hc; cases hc
  | mk c hc esg ed hd hne => intro c' hc'; simp at hc'; subst hc'; rcases hc with rfl | rfl <;> decide

theorem expPart_syntax {ex : Str} {x : Int} (h : ExpSyntax ex x) : expPart 101 69 ex = x := by
  cases h with
  | none => rfl
  | mk c hc esg ed hd hne =>
    have hcc : (c == 101 || c == 69) = true := by rcases hc with rfl | rfl <;> decide
    have htd : takeDigits ed = (ed, []) := takeDigits_all ed hd
    have hemp : ed.isEmpty = false := by cases ed <;> simp at hne ⊢
    have hv : digitsVal ed 0 = decVal ed := by
      have := digitsVal_all ed hd [] (by intro c hc; cases hc) 0
      simpa using this
    cases esg with
    | minus => simp [expPart, hcc, Sign.str, Sign.neg, htd, hemp, hv]
    | plus => simp [expPart, hcc, Sign.str, Sign.neg, htd, hemp, hv]
    | none =>
      cases ed with
      | nil => exact absurd rfl hne
      | cons d t =>
        have hd0 := (isDigit_iff d).1 (hd d (by simp))
        have hdd : d = 48 ∨ d = 49 ∨ d = 50 ∨ d = 51 ∨ d = 52 ∨ d = 53 ∨ d = 54 ∨ d = 55 ∨ d = 56 ∨ d = 57 := by omega
        rcases hdd with rfl | rfl | rfl | rfl | rfl | rfl | rfl | rfl | rfl | rfl <;>
          simp [expPart, hcc, Sign.str, Sign.neg, htd, hemp, hv]

theorem isHexFloat_second (c x : Nat) (r : Str) (h1 : x ≠ 120) (h2 : x ≠ 88) : isHexFloat (c :: x :: r) = false := by
  unfold isHexFloat
  split
  · rename_i x' t heq
    injection heq with _ e2; injection e2 with e3 _
    have e1' : (x' == 120) = false := by subst e3; simp; exact h1
    have e2' : (x' == 88) = false := by subst e3; simp; exact h2
    simp [e1', e2']
  · rfl

/-- what `dDecimal` computes from the digit value and the decimal exponent -/
def decimalBits (sg dv : Nat) (e10 : Int) : Nat :=
  if dv = 0 then sg
  else if e10 > 400 then sg + 2047 * 2 ^ 52
  else if e10 < -800 then sg
  else if e10 ≥ 0 then sg + dOfNat (dv * 10 ^ e10.toNat)
  else sg + dOfRatQ dv (10 ^ (-e10).toNat)

/-- decimal text with a fraction and an optional exponent: the digit value of `ip ++ fp` at decimal exponent `x − |fp|` -/
theorem dDecimal_fraction (sg : Nat) (ip fp ex : Str) (x : Int) (hi : AllDigits ip) (hf : AllDigits fp) (hne : ip ≠ [] ∨ fp ≠ [])
    (hx : ExpSyntax ex x) :
    dDecimal sg (ip ++ 46 :: (fp ++ ex)) = decimalBits sg (decVal (ip ++ fp)) (x - fp.length) := by
  have h46 : ∀ c, (46 :: (fp ++ ex)).head? = some c → isDigit c = false := by intro c hc; simp at hc; subst hc; decide
  have hall : AllDigits (ip ++ fp) := by
    intro c hc; simp only [List.mem_append] at hc; rcases hc with hc | hc; exact hi c hc; exact hf c hc
  have hv : digitsVal (ip ++ fp) 0 = decVal (ip ++ fp) := by
    have := digitsVal_all (ip ++ fp) hall [] (by intro c hc; cases hc) 0
    simpa using this
  have hemp : (ip.isEmpty && fp.isEmpty) = false := by
    rcases hne with h | h
    · cases ip <;> simp at h ⊢
    · cases fp <;> simp at h ⊢
  simp only [dDecimal, takeDigits_app ip _ hi h46, takeDigits_app fp ex hf hx.head_not_digit, hemp,
    Bool.false_eq_true, if_false, expPart_syntax hx, hv, decimalBits]
  by_cases h0 : decVal (ip ++ fp) = 0
  · simp [h0]
  · have : (decVal (ip ++ fp) == 0) = false := by simpa using h0
    simp [this, h0]

theorem dOfStrMag_fraction (sg : Nat) (ip fp ex : Str) (x : Int) (hi : AllDigits ip) (hf : AllDigits fp) (hne : ip ≠ [])
    (hx : ExpSyntax ex x) :
    dOfStrMag sg (ip ++ 46 :: (fp ++ ex)) = decimalBits sg (decVal (ip ++ fp)) (x - fp.length) := by
  cases ip with
  | nil => exact absurd rfl hne
  | cons c t =>
    have hc : isDigit c = true := hi c (by simp)
    have hcd := (isDigit_iff c).1 hc
    have hhex : isHexFloat ((c :: t) ++ 46 :: (fp ++ ex)) = false := by
      cases t with
      | nil => exact isHexFloat_second c 46 _ (by decide) (by decide)
      | cons d t' =>
        have hd := (isDigit_iff d).1 (hi d (by simp))
        exact isHexFloat_second c d _ (by omega) (by omega)
    simp only [dOfStrMag, List.cons_append, startsWithCI_digit c _ hc 105 110 102 (by omega),
      startsWithCI_digit c _ hc 110 97 110 (by omega), Bool.false_eq_true, if_false]
    simp only [List.cons_append] at hhex
    simp only [hhex, Bool.false_eq_true, if_false]
    have := dDecimal_fraction sg (c :: t) fp ex x hi hf (Or.inl hne) hx
    simpa only [List.cons_append] using this

/-- **`atof` of `ws* sign? digit+ . digit* ([eE] sign? digit+)?`**: the sign bit plus the conversion of the exact rational
    `decVal (ip ++ fp) · 10^(x − |fp|)` the text denotes -/
theorem dOfStr_fraction (ws : Str) (sg : Sign) (ip fp ex : Str) (x : Int) (hw : ∀ c ∈ ws, isSpace c = true)
    (hi : AllDigits ip) (hf : AllDigits fp) (hne : ip ≠ []) (hx : ExpSyntax ex x) :
    dOfStr (ws ++ sg.str ++ (ip ++ 46 :: (fp ++ ex)))
      = decimalBits (if sg.neg then 2 ^ 63 else 0) (decVal (ip ++ fp)) (x - fp.length) := by
  unfold dOfStr
  rw [List.append_assoc, dropWhile_spaces _ _ hw]
  cases sg with
  | minus =>
    have : isSpace 45 = false := by decide
    simp only [Sign.str, List.cons_append, List.nil_append, List.dropWhile, this, Sign.neg, if_true]
    exact dOfStrMag_fraction _ ip fp ex x hi hf hne hx
  | plus =>
    have : isSpace 43 = false := by decide
    simp only [Sign.str, List.cons_append, List.nil_append, List.dropWhile, this, Sign.neg]
    simpa using dOfStrMag_fraction 0 ip fp ex x hi hf hne hx
  | none =>
    cases ip with
    | nil => exact absurd rfl hne
    | cons d t =>
      obtain ⟨h1, h2, h3⟩ := isDigit_notSpace d (hi d (by simp))
      simp only [Sign.str, List.nil_append, List.cons_append, List.dropWhile, h1, Sign.neg]
      have := dOfStrMag_fraction 0 (d :: t) fp ex x hi hf hne hx
      split
      · rename_i heq; injection heq with e _; exact absurd e h3
      · rename_i heq; injection heq with e _; exact absurd e h2
      · simpa using this


/-- the same without an integer part: `.5`, `.25e3` -/
theorem dOfStrMag_fraction_noint (sg : Nat) (fp ex : Str) (x : Int) (hf : AllDigits fp) (hne : fp ≠ []) (hx : ExpSyntax ex x) :
    dOfStrMag sg (46 :: (fp ++ ex)) = decimalBits sg (decVal fp) (x - fp.length) := by
  have h1 : startsWithCI (46 :: (fp ++ ex)) [105, 110, 102] = false := by simp [startsWithCI, List.take, lower]
  have h2 : startsWithCI (46 :: (fp ++ ex)) [110, 97, 110] = false := by simp [startsWithCI, List.take, lower]
  have h3 : isHexFloat (46 :: (fp ++ ex)) = false := by
    unfold isHexFloat
    split
    · rename_i x' t heq; injection heq with e _; exact absurd e (by decide)
    · rfl
  simp only [dOfStrMag, h1, h2, h3, Bool.false_eq_true, if_false]
  have := dDecimal_fraction sg [] fp ex x (by intro c hc; cases hc) hf (Or.inr hne) hx
  simpa using this

theorem dOfStr_fraction_noint (ws : Str) (sg : Sign) (fp ex : Str) (x : Int) (hw : ∀ c ∈ ws, isSpace c = true)
    (hf : AllDigits fp) (hne : fp ≠ []) (hx : ExpSyntax ex x) :
    dOfStr (ws ++ sg.str ++ (46 :: (fp ++ ex))) = decimalBits (if sg.neg then 2 ^ 63 else 0) (decVal fp) (x - fp.length) := by
  unfold dOfStr
  rw [List.append_assoc, dropWhile_spaces _ _ hw]
  cases sg with
  | minus =>
    have : isSpace 45 = false := by decide
    simp only [Sign.str, List.cons_append, List.nil_append, List.dropWhile, this, Sign.neg, if_true]
    exact dOfStrMag_fraction_noint _ fp ex x hf hne hx
  | plus =>
    have : isSpace 43 = false := by decide
    simp only [Sign.str, List.cons_append, List.nil_append, List.dropWhile, this, Sign.neg]
    simpa using dOfStrMag_fraction_noint 0 fp ex x hf hne hx
  | none =>
    have h1 : isSpace 46 = false := by decide
    simp only [Sign.str, List.nil_append, List.dropWhile, h1, Sign.neg]
    have := dOfStrMag_fraction_noint 0 fp ex x hf hne hx
    simpa using this

/-- non-vacuity: "-12.50e-1" -/
example : dOfStr ([45] ++ ([49, 50] ++ 46 :: ([53, 48] ++ [101, 45, 49]))) = decimalBits (2 ^ 63) 1250 (-3) := by
  have := dOfStr_fraction [] .minus [49, 50] [53, 48] [101, 45, 49] (-1) (by simp) (by intro c hc; simp at hc; rcases hc with rfl | rfl <;> decide)
    (by intro c hc; simp at hc; rcases hc with rfl | rfl <;> decide) (by simp)
    (ExpSyntax.mk 101 (Or.inl rfl) .minus [49] (by intro c hc; simp at hc; subst hc; decide) (by simp))
  simpa [Sign.str, Sign.neg, decVal] using this

end Nstd.Variant
