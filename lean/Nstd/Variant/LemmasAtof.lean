import Nstd.Variant.LemmasIeee
import Nstd.Variant.LemmasParse
/-
  `atof` (`dOfStr`, Ieee.lean) on plain integer numerals — white space, optional sign, a non-empty run of decimal
  digits, end of string — is the sign bit plus `dOfRat n 1` of the denoted integer `n`, hence (for `n < 2^64`) the
  correctly rounded double of `n`.
-/
namespace Nstd.Variant

/-- `m` is the correctly rounded (nearest, ties to even) finite double magnitude of the natural number `p`:
    neighbouring doubles `lo ≤ p ≤ hi` with nothing between, `m` the nearer one, exact up to 2^53 -/
def RoundsTo (p m : Nat) : Prop :=
  ∃ lo hi : Nat, (m = lo ∨ m = hi) ∧ hi + 1 < 2047 * 2 ^ 52 ∧ (hi = lo ∨ hi = lo + 1) ∧
    dVal2 lo ≤ p * 2 ^ 1074 ∧ p * 2 ^ 1074 ≤ dVal2 hi ∧
    (∀ d, d < 2047 * 2 ^ 52 → ¬ (dVal2 lo < dVal2 d ∧ dVal2 d < dVal2 hi)) ∧
    (m = lo → 2 * (p * 2 ^ 1074) ≤ dVal2 lo + dVal2 hi ∧ (2 * (p * 2 ^ 1074) = dVal2 lo + dVal2 hi → hi = lo ∨ lo % 2 = 0)) ∧
    (m = hi → dVal2 lo + dVal2 hi ≤ 2 * (p * 2 ^ 1074) ∧ (2 * (p * 2 ^ 1074) = dVal2 lo + dVal2 hi → hi = lo ∨ hi % 2 = 0)) ∧
    (p ≤ 2 ^ 53 → dVal2 m = p * 2 ^ 1074)

theorem dOfRat_roundsTo (p : Nat) (h : p < 2 ^ 64) : RoundsTo p (dOfRat p 1) := by
  obtain ⟨lo, hi, hfin, hadj, h1, h2, hm, hlo, hhi, hex⟩ := dOfRat_int_rounded p h
  refine ⟨lo, hi, hm, hfin, hadj, h1, h2, ?_, hlo, hhi, hex⟩
  intro d hd
  rcases hadj with e | e
  · rw [e]; intro ⟨a, b⟩; omega
  · rw [e]; exact no_double_between lo d (by omega) hd

theorem takeDigits_all (ds : Str) (h : AllDigits ds) : takeDigits ds = (ds, []) := by
  induction ds with
  | nil => rfl
  | cons c t ih =>
    have hc : isDigit c = true := h c (by simp)
    simp only [takeDigits, hc, if_true, ih (fun x hx => h x (by simp [hx]))]

theorem lower_digit (c : Nat) (h : isDigit c = true) : lower c = c := by
  have := (isDigit_iff c).1 h
  simp [lower]; omega

theorem startsWithCI_digit (c : Nat) (t : Str) (h : isDigit c = true) (x y z : Nat) (hx : 65 ≤ x) :
    startsWithCI (c :: t) [x, y, z] = false := by
  have hc := (isDigit_iff c).1 h
  have hne : c ≠ x := by omega
  simp [startsWithCI, List.take, lower_digit c h, hne]

theorem isHexFloat_digits (s : Str) (h : AllDigits s) : isHexFloat s = false := by
  unfold isHexFloat
  split
  · rename_i x t
    have hx := (isDigit_iff x).1 (h x (by simp))
    have e1 : (x == 120) = false := by simp; omega
    have e2 : (x == 88) = false := by simp; omega
    simp [e1, e2]
  · rfl

/-- decimal conversion of a non-empty run of digits: the positional value, as an integer over 1 -/
theorem dDecimal_digits (sg : Nat) (ds : Str) (h : AllDigits ds) (hne : ds ≠ []) :
    dDecimal sg ds = sg + dOfNat (decVal ds) := by
  have hv : digitsVal (ds ++ []) 0 = decVal ds := by
    rw [digitsVal_all ds h [] (by intro c hc; cases hc) 0]; omega
  have hemp : ds.isEmpty = false := by cases ds <;> simp at hne ⊢
  simp only [dDecimal, takeDigits_all ds h, hemp, Bool.false_and, Bool.false_eq_true, if_false, expPart, List.length_nil,
    hv]
  by_cases h0 : decVal ds = 0
  · simp [h0, dOfRat, dOfNat]
  · have : (decVal ds == 0) = false := by simpa using h0
    simp [this]

theorem dOfStrMag_digits (sg : Nat) (ds : Str) (h : AllDigits ds) (hne : ds ≠ []) :
    dOfStrMag sg ds = sg + dOfNat (decVal ds) := by
  cases ds with
  | nil => exact absurd rfl hne
  | cons c t =>
    have hc : isDigit c = true := h c (by simp)
    simp only [dOfStrMag, startsWithCI_digit c t hc 105 110 102 (by omega), startsWithCI_digit c t hc 110 97 110 (by omega),
      isHexFloat_digits _ h, Bool.false_eq_true, if_false]
    exact dDecimal_digits sg _ h hne

/-- `atof` of `ws* sign? digit+`: sign bit plus the conversion `dOfNat` of the denoted magnitude (any number of digits) -/
theorem dOfStr_numeral {ws : Str} {sg : Sign} {ds : Str} (h : NumSyntax ws sg ds []) (hne : ds ≠ []) :
    dOfStr (ws ++ sg.str ++ ds) = (if sg.neg then 2 ^ 63 else 0) + dOfNat (decVal ds) := by
  unfold dOfStr
  rw [List.append_assoc, dropWhile_spaces _ _ h.space]
  cases sg with
  | minus =>
    have : isSpace 45 = false := by decide
    simp only [Sign.str, List.cons_append, List.nil_append, List.dropWhile, this, Sign.neg, if_true]
    exact dOfStrMag_digits _ ds h.digits hne
  | plus =>
    have : isSpace 43 = false := by decide
    simp only [Sign.str, List.cons_append, List.nil_append, List.dropWhile, this, Sign.neg]
    simpa using dOfStrMag_digits 0 ds h.digits hne
  | none =>
    cases ds with
    | nil => exact absurd rfl hne
    | cons d t =>
      obtain ⟨h1, h2, h3⟩ := isDigit_notSpace d (h.digits d (by simp))
      simp only [Sign.str, List.nil_append, List.dropWhile, h1, Sign.neg]
      have := dOfStrMag_digits 0 (d :: t) h.digits hne
      split
      · rename_i heq; injection heq with e _; exact absurd e h3
      · rename_i heq; injection heq with e _; exact absurd e h2
      · simpa using this

end Nstd.Variant
