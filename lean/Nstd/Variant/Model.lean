import Nstd.Variant.Val
/-
  Executable model of the representation of `Variant` (Variant.hpp): every variable is
  a `Cell` = the `data` pointer, which points to the shared `nullData`, to the object's
  own inline descriptor `_data` (null/bool/double/integers, `ref = 0`) or to a heap block
  (`type`, `ref`, payload) that several variables may share.  Operations follow the code:
  copies share a block and increment `ref`; `clear()` decrements and frees at zero; the
  mutable accessors and the typed `operator=` clone iff the type differs or `ref > 1`
  and otherwise write *in place* into the shared block.

  The heap is a function `Nat → Option Block` (block ids are never reused), the variable
  file a function `Nat → Cell`.  Variables `0 … nvars-1` are the program's variables,
  variable `tmpVar` is the local `tmp` of `Variant::swap`.

  Scope of the representation model: sharing between *variables*.  The Variants stored
  inside a list/array/map payload are kept by value (`Val`); that a copy of a container
  shares the blocks of its elements, and the destructor cascade, is exercised on the real
  code by the correspondence run only.
-/
namespace Nstd.Variant

inductive Cell where
  | null                  -- data = &nullData
  | inl (x : Val)         -- data = &_data, `x` is null or a scalar
  | ptr (b : Nat)         -- data = heap block b
  deriving Inhabited

structure Block where
  ref : Nat
  val : Val               -- map / list / array / str
  deriving Inhabited

structure State where
  heap : Nat → Option Block
  next : Nat
  vars : Nat → Cell

def nvars : Nat := 6
def tmpVar : Nat := 6

def upd {α : Type} (f : Nat → α) (i : Nat) (x : α) : Nat → α := fun j => if j = i then x else f j

def init : State := { heap := fun _ => none, next := 0, vars := fun _ => .null }

/-- `*data` as a value; a dangling pointer reads as null (excluded by the invariant) -/
def State.read (s : State) (v : Nat) : Val :=
  match s.vars v with
  | .null => .null
  | .inl x => x
  | .ptr b => (match s.heap b with | some blk => blk.val | none => .null)

/-- `data->ref` -/
def State.refOf (s : State) (v : Nat) : Nat :=
  match s.vars v with
  | .ptr b => (match s.heap b with | some blk => blk.ref | none => 0)
  | _ => 0

def State.typeOf (s : State) (v : Nat) : Nat := (s.read v).type

/-- `clear()`: `if(data->ref && Atomic::decrement(data->ref) == 0) {destroy payload; delete[]}; data = &nullData` -/
def clear (s : State) (v : Nat) : State :=
  match s.vars v with
  | .ptr b =>
    (match s.heap b with
     | some blk =>
       if blk.ref = 1 then { s with heap := upd s.heap b none, vars := upd s.vars v .null }
       else { s with heap := upd s.heap b (some { blk with ref := blk.ref - 1 }), vars := upd s.vars v .null }
     | none => { s with vars := upd s.vars v .null })
  | _ => { s with vars := upd s.vars v .null }

/-- `new char[sizeof(Data) + sizeof(T)]`, payload constructed from `x`, `ref = 1` -/
def alloc (s : State) (x : Val) : State × Nat :=
  ({ s with heap := upd s.heap s.next (some ⟨1, x⟩), next := s.next + 1 }, s.next)

/-- `Variant(const Variant& other)` into the (raw) storage of `v` -/
def ctorCopy (s : State) (v w : Nat) : State :=
  match s.vars w with
  | .ptr b =>
    (match s.heap b with
     | some blk => { s with heap := upd s.heap b (some { blk with ref := blk.ref + 1 }), vars := upd s.vars v (.ptr b) }
     | none => s)
  | .inl x => { s with vars := upd s.vars v (.inl x) }
  | .null => { s with vars := upd s.vars v (.inl .null) }     -- `_data = *other.data` copies nullData

/-- the converting constructors into the raw storage of `v` -/
def ctorVal (s : State) (v : Nat) (x : Val) : State :=
  if x.isBoxed then
    let (s1, b) := alloc s x
    { s1 with vars := upd s1.vars v (.ptr b) }
  else if x.type = 0 then { s with vars := upd s.vars v .null }     -- `Variant()`
  else { s with vars := upd s.vars v (.inl x) }

/-- `operator=(const Variant& other)` (with patch 02: `other` is read before `clear()`) -/
def assignVar (s : State) (v w : Nat) : State :=
  if v = w then s
  else
    match s.vars w with
    | .ptr b =>
      (match s.heap b with
       | some blk =>
         let s1 : State := { s with heap := upd s.heap b (some { blk with ref := blk.ref + 1 }) }
         let s2 := clear s1 v
         { s2 with vars := upd s2.vars v (.ptr b) }
       | none => s)
    | .inl x => let s2 := clear s v; { s2 with vars := upd s2.vars v (.inl x) }
    | .null => let s2 := clear s v; { s2 with vars := upd s2.vars v (.inl .null) }

/-- `operator=(const Variant& other)` where `other` is not a variable but a Variant that
    lives inside a payload (kept by value in this model) or a temporary: its value `x` is
    taken first, then `clear()`, then the new descriptor is installed.  (In the real code a
    boxed `other` is shared, not copied.) -/
def assignVal (s : State) (v : Nat) (x : Val) : State :=
  let s2 := clear s v
  if x.isBoxed then
    let (s3, b) := alloc s2 x
    { s3 with vars := upd s3.vars v (.ptr b) }
  else { s2 with vars := upd s2.vars v (.inl x) }

/-- the typed `operator=`: scalars `if(data->type != T) {clear(); data = &_data; …} _data.data.x = other`;
    String/List/Array/HashMap `if(data->type != T || data->ref > 1) {clear(); new block} else payload = other` -/
def setVal (s : State) (v : Nat) (x : Val) : State :=
  if x.isBoxed then
    if s.typeOf v ≠ x.type ∨ s.refOf v > 1 then
      let s2 := clear s v
      let (s3, b) := alloc s2 x
      { s3 with vars := upd s3.vars v (.ptr b) }
    else
      match s.vars v with
      | .ptr b =>
        (match s.heap b with
         | some blk => { s with heap := upd s.heap b (some { blk with val := x }) }
         | none => s)
      | _ => s
  else
    if s.typeOf v ≠ x.type then
      let s2 := clear s v
      { s2 with vars := upd s2.vars v (.inl x) }
    else { s with vars := upd s.vars v (.inl x) }

/-- the mutable accessor `toMap()/toList()/toArray()/toString()` (type number `kind`):
    `if(data->type != T || data->ref > 1) {new block with a copy of the const accessor's result;
    clear(); data = newData}`; afterwards `v` owns a block of type `kind` with `ref = 1` -/
def access (ds : DblSem) (s : State) (v : Nat) (kind : Nat) : State :=
  if s.typeOf v ≠ kind ∨ s.refOf v > 1 then
    let (s1, b) := alloc s (coerce ds kind (s.read v))
    let s2 := clear s1 v
    { s2 with vars := upd s2.vars v (.ptr b) }
  else s

/-- write through the reference returned by the accessor: the payload of `v`'s block is replaced in place -/
def pokeVar (s : State) (v : Nat) (f : Val → Option Val) : Option State :=
  match s.vars v with
  | .ptr b =>
    (match s.heap b with
     | some blk => (f blk.val).map (fun y => { s with heap := upd s.heap b (some { blk with val := y }) })
     | none => none)
  | _ => none

/-- the container type the first step of a path goes through -/
def Step.kind : Step → Nat
  | .li _ => 8 | .ar _ => 9 | .mk _ => 7

/-- `mut v path leaf`.  Empty path: the leaf acts on the variable itself through the
    representation-level operations above.  Non-empty path: the variable's mutable accessor
    for the first step (copy-on-write decision as coded), then the rest of the walk and the
    leaf on the payload in place.  `none` = the line is refused (non-existing path, index out
    of range); refused lines change nothing. -/
def mutate (ds : DblSem) (s : State) (v : Nat) (path : List Step) (lf : Leaf) : Option State :=
  match path with
  | [] =>
    (match lf with
     | .assign x => some (assignVal s v x)
     | .set x => some (setVal s v x)
     | .clear => some (clear s v)
     | lf =>
       (match lf.kind with
        | some k =>
          -- validity is checked on the const view first (no side effect on refusal)
          (match lf.inPlace (coerce ds k (s.read v)) with
           | some _ => pokeVar (access ds s v k) v lf.inPlace
           | none => none)
        | none => none))
  | st :: p =>
    (match updPath (st :: p) (lf.apply ds) (s.read v) with
     | some _ => pokeVar (access ds s v st.kind) v (updPath (st :: p) (lf.apply ds))
     | none => none)

/-- `~Variant()` followed by a constructor in the same storage -/
def opNew (s : State) (v : Nat) (x : Val) : State := ctorVal (clear s v) v x

def opCopy (s : State) (v w : Nat) : Option State :=
  if v = w then none else some (ctorCopy (clear s v) v w)

/-- `a.swap(b)`: `Variant tmp = other; other = *this; *this = tmp;` and the destructor of `tmp` -/
def opSwap (s : State) (v w : Nat) : State :=
  let s1 := ctorCopy s tmpVar w
  let s2 := assignVar s1 w v
  let s3 := assignVar s2 v tmpVar
  clear s3 tmpVar

/-- `var[v] = <const walk in var[w]>` (an element, or `var[w]` itself for the empty path) -/
def opGet (s : State) (v w : Nat) (path : List Step) : Option State :=
  match path with
  | [] => some (assignVar s v w)
  | p => (getPath p (s.read w)).map (fun x => assignVal s v x)

/-! ### operation syntax: sources are variables or literals, evaluated against the current state -/

inductive Src where
  | var (w : Nat)
  | lit (x : Val)
  deriving Inhabited

def Src.eval (rd : Nat → Val) : Src → Val
  | .var w => rd w
  | .lit x => x

/-- the argument of a typed constructor / typed `operator=`: a literal, or a temporary container
    built from copies of variables and literals (`HashMap::append` = insert at the end) -/
inductive ValS where
  | lit (x : Val)
  | list (l : List Src)
  | array (l : List Src)
  | map (m : List (Str × Src))
  deriving Inhabited

def ValS.eval (rd : Nat → Val) : ValS → Val
  | .lit x => x
  | .list l => .list (l.map (Src.eval rd))
  | .array l => .array (l.map (Src.eval rd))
  | .map m => .map (mapOfPairs (m.map (fun p => (p.1, p.2.eval rd))))

inductive LeafS where
  | assign (src : Src)
  | set (e : ValS)
  | clear
  | touch (kind : Nat)
  | lapp (src : Src)
  | lpre (src : Src)
  | lrem (i : Nat)
  | aapp (src : Src)
  | arem (i : Nat)
  | mput (k : Str) (src : Src)
  | mrem (k : Str)
  | sapp (t : Str)
  deriving Inhabited

def LeafS.eval (rd : Nat → Val) : LeafS → Leaf
  | .assign s => .assign (s.eval rd)
  | .set e => .set (e.eval rd)
  | .clear => .clear
  | .touch k => .touch k
  | .lapp s => .lapp (s.eval rd)
  | .lpre s => .lpre (s.eval rd)
  | .lrem i => .lrem i
  | .aapp s => .aapp (s.eval rd)
  | .arem i => .arem i
  | .mput k s => .mput k (s.eval rd)
  | .mrem k => .mrem k
  | .sapp t => .sapp t

def Src.vars : Src → List Nat
  | .var w => [w]
  | .lit _ => []

def ValS.vars : ValS → List Nat
  | .lit _ => []
  | .list l => l.flatMap Src.vars
  | .array l => l.flatMap Src.vars
  | .map m => m.flatMap (fun p => p.2.vars)

def LeafS.vars : LeafS → List Nat
  | .assign s | .lapp s | .lpre s | .aapp s | .mput _ s => s.vars
  | .set e => e.vars
  | _ => []

/-- the sources of a temporary with variable `v` replaced by `t` -/
def Src.redirect (v t : Nat) : Src → Src
  | .var w => if w = v then .var t else .var w
  | .lit x => .lit x

def ValS.redirect (v t : Nat) : ValS → ValS
  | .lit x => .lit x
  | .list l => .list (l.map (Src.redirect v t))
  | .array l => .array (l.map (Src.redirect v t))
  | .map m => .map (m.map (fun q => (q.1, q.2.redirect v t)))

/-- typed assignment, *below the root* of `v`, of a temporary container that holds copies of `v` itself: the caller
    builds the temporary before the accessor chain runs (`List<Variant> t; t.append(v); v.toList().front() = t;`) -/
def selfTemp (v : Nat) (path : List Step) (lf : LeafS) : Bool :=
  !path.isEmpty && (match lf with | .set e => e.vars.contains v | _ => false)

/-- Precondition of `mut v path leaf` (the caller's side of the contract, see the finding
    "self-append" in the area's notes): a Variant reached through a mutable accessor of `v`
    is not given `v` itself as the source.  `v = v` on the variable itself and the typed assignment of a
    temporary built from `v` (at any path: the temporary holds copies made before the accessor chain runs) are fine. -/
def mutOk (v : Nat) (path : List Step) (lf : LeafS) : Bool :=
  (match lf with | .set _ => true | .assign _ => path.isEmpty | _ => false) || !(lf.vars.contains v)

inductive Op where
  | new (v : Nat) (e : ValS)
  | copy (v w : Nat)
  | mut (v : Nat) (path : List Step) (lf : LeafS)
  | get (v w : Nat) (path : List Step)
  | swap (v w : Nat)

def allLt (l : List Nat) : Bool := l.all (· < nvars)

def step (ds : DblSem) (s : State) : Op → Option State
  | .new v e => if v < nvars ∧ allLt e.vars then some (opNew s v (e.eval s.read)) else none
  | .copy v w => if v < nvars ∧ w < nvars then opCopy s v w else none
  | .mut v p lf =>
    if v < nvars ∧ allLt lf.vars ∧ mutOk v p lf then
      (match p, lf with
       | [], .assign (.var w) => some (assignVar s v w)
       | p, .set e =>
         -- there is no typed `operator=` for null
         if (e.eval s.read).type = 0 then none else mutate ds s v p (.set (e.eval s.read))
       | p, lf => mutate ds s v p (lf.eval s.read))
    else none
  | .get v w p => if v < nvars ∧ w < nvars then opGet s v w p else none
  | .swap v w => if v < nvars ∧ w < nvars then some (opSwap s v w) else none

/-- refused operations (`bad-op` on both sides of the correspondence) leave the state unchanged -/
def stepD (ds : DblSem) (s : State) (op : Op) : State :=
  match step ds s op with
  | some s' => s'
  | none => s

def run (ds : DblSem) (s : State) (ops : List Op) : State := ops.foldl (stepD ds) s

end Nstd.Variant
