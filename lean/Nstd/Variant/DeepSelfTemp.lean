import Nstd.Variant.DeepWalk
/-
  `mut v <non-empty path> set <temporary containing v>`: the temporary is built before the accessor chain runs.
  `selfTempStep` (Deep.lean) keeps a copy of `v` in the spare slot `tmpVar` during the walk, redirects the leaf's
  sources to it and destroys it afterwards; this file proves that it refines the store update.
-/
namespace Nstd.Variant.Deep
open Nstd.Variant

theorem Src.redirect_vars {v t w : Nat} {x : Src} (h : w ∈ (x.redirect v t).vars) : (w ∈ x.vars ∧ w ≠ v) ∨ w = t := by
  cases x with
  | lit y => simp [Src.redirect, Src.vars] at h
  | var u =>
    simp only [Src.redirect] at h
    by_cases e : u = v
    · simp [e, Src.vars] at h; exact Or.inr h
    · simp [e, Src.vars] at h; subst h; exact Or.inl ⟨by simp [Src.vars], e⟩

theorem ValS.redirect_vars {v t w : Nat} {a : ValS} (h : w ∈ (a.redirect v t).vars) : (w ∈ a.vars ∧ w ≠ v) ∨ w = t := by
  cases a with
  | lit y => simp [ValS.redirect, ValS.vars] at h
  | list l =>
    simp only [ValS.redirect, ValS.vars, List.mem_flatMap, List.mem_map] at h ⊢
    obtain ⟨x', ⟨x, hx, rfl⟩, hw⟩ := h
    rcases Src.redirect_vars hw with ⟨h1, h2⟩ | h1
    · exact Or.inl ⟨⟨x, hx, h1⟩, h2⟩
    · exact Or.inr h1
  | array l =>
    simp only [ValS.redirect, ValS.vars, List.mem_flatMap, List.mem_map] at h ⊢
    obtain ⟨x', ⟨x, hx, rfl⟩, hw⟩ := h
    rcases Src.redirect_vars hw with ⟨h1, h2⟩ | h1
    · exact Or.inl ⟨⟨x, hx, h1⟩, h2⟩
    · exact Or.inr h1
  | map m =>
    simp only [ValS.redirect, ValS.vars, List.mem_flatMap, List.mem_map] at h ⊢
    obtain ⟨q', ⟨q, hq, rfl⟩, hw⟩ := h
    rcases Src.redirect_vars hw with ⟨h1, h2⟩ | h1
    · exact Or.inl ⟨⟨q, hq, h1⟩, h2⟩
    · exact Or.inr h1

theorem Src.redirect_eval {v t : Nat} {rd rd' : Nat → Val} (x : Src) (ht : rd' t = rd v)
    (ho : ∀ w ∈ x.vars, w ≠ v → rd' w = rd w) : (x.redirect v t).eval rd' = x.eval rd := by
  cases x with
  | lit y => rfl
  | var u =>
    simp only [Src.redirect]
    by_cases e : u = v
    · simp [e, Src.eval, ht]
    · simp only [e, if_false, Src.eval]; exact ho u (by simp [Src.vars]) e

theorem ValS.redirect_eval {v t : Nat} {rd rd' : Nat → Val} (a : ValS) (ht : rd' t = rd v)
    (ho : ∀ w ∈ a.vars, w ≠ v → rd' w = rd w) : (a.redirect v t).eval rd' = a.eval rd := by
  cases a with
  | lit y => rfl
  | list l =>
    simp only [ValS.redirect, ValS.eval, List.map_map]
    congr 1
    apply List.map_congr_left
    intro x hx
    exact Src.redirect_eval x ht (fun w hw => ho w (by simp only [ValS.vars, List.mem_flatMap]; exact ⟨x, hx, hw⟩))
  | array l =>
    simp only [ValS.redirect, ValS.eval, List.map_map]
    congr 1
    apply List.map_congr_left
    intro x hx
    exact Src.redirect_eval x ht (fun w hw => ho w (by simp only [ValS.vars, List.mem_flatMap]; exact ⟨x, hx, hw⟩))
  | map m =>
    simp only [ValS.redirect, ValS.eval, List.map_map]
    congr 2
    apply List.map_congr_left
    intro q hq
    simp only [Function.comp]
    rw [Src.redirect_eval q.2 ht (fun w hw => ho w (by simp only [ValS.vars, List.mem_flatMap]; exact ⟨q, hq, hw⟩))]

theorem redirect_sup {v t : Nat} {e : ValS} (h : LeafSupS (.set e)) : LeafSupS (.set (e.redirect v t)) := by
  have hs : ∀ x : Src, SrcLit x → SrcLit (x.redirect v t) := by
    intro x hx
    cases x with
    | lit y => exact hx
    | var u => simp only [Src.redirect]; split <;> trivial
  cases e with
  | lit y => exact h
  | list l =>
    intro x hx
    simp only [List.mem_map] at hx
    obtain ⟨x0, hx0, rfl⟩ := hx
    exact hs x0 (h x0 hx0)
  | array l =>
    intro x hx
    simp only [List.mem_map] at hx
    obtain ⟨x0, hx0, rfl⟩ := hx
    exact hs x0 (h x0 hx0)
  | map m =>
    intro q hq
    simp only [List.mem_map] at hq
    obtain ⟨q0, hq0, rfl⟩ := hq
    exact hs q0.2 (h q0 hq0)

theorem redirect_leafSize (v t : Nat) (e : ValS) : leafSize (.set (e.redirect v t)) = leafSize (.set e) := by
  cases e <;> simp [ValS.redirect, leafSize]

@[simp] theorem selfTemp_nil (v : Nat) (lf : LeafS) : selfTemp v [] lf = false := by simp [selfTemp]

theorem selfTemp_false_of_not_mem {v : Nat} {p : List Step} {lf : LeafS} (h : v ∉ lf.vars) : selfTemp v p lf = false := by
  cases lf <;> simp [selfTemp]
  rename_i e
  intro _
  simpa [LeafS.vars] using h

/-- the step with the temporary built before the walk refines the nested update of the store -/
theorem selfTempStep_refines (ds : DblSem) {s : DState} {σ : Store} (hg : DGood s σ) (v : Nat) (hv : v < nvars)
    (p : List Step) (e : ValS) (hls : LeafSupS (.set e)) (hall : allLt e.vars = true) (y : Val)
    (hy : updPath p (((LeafS.set e).eval σ).apply ds) (σ v) = some y) (f : Nat)
    (hf : s.h.next + p.length + leafSize (.set e) + 2 < f) :
    ∃ s', selfTempStep f ds s v p e = some s' ∧ DGood s' (upd σ v y) := by
  obtain ⟨g, i, hrel, htmp⟩ := hg
  have hv7 : v < nslots := lt_slots hv
  have ht7 : tmpVar < nslots := by simp [tmpVar, nslots]
  have hvt : v ≠ tmpVar := by simp [nvars, tmpVar] at *; omega
  -- the copy of v in the spare slot
  obtain ⟨i1, a1, _, sl1, _, _, o1⟩ := dinv_copyCell i (s.vars v) (var_cellOk i v)
  generalize ht : (copyCell s.h (s.vars v)).2 = t at *
  generalize hh1 : (copyCell s.h (s.vars v)).1 = h1 at *
  have i1' : DInv h1 (upd s.vars tmpVar t) zeroE g :=
    (dinv_put i1 tmpVar ht7 (by rw [htmp]; intro b hb; cases hb) t (by intro x; show _ ≤ zeroE x + _; omega) o1).congr
      (by intro x; show zeroE x + cellCnt _ x - cellCnt _ x = zeroE x; omega)
  have hv1 : upd s.vars tmpVar t v = s.vars v := upd_other _ _ _ _ hvt
  have hd := held_take i1' v hv7
  rw [hv1] at hd
  -- the redirected leaf
  have hls' := redirect_sup (v := v) (t := tmpVar) hls
  have hsrc : ∀ w ∈ (LeafS.set (e.redirect v tmpVar)).vars,
      upd s.vars tmpVar t w = upd (upd s.vars tmpVar t) v .null w ∧ w < nslots := by
    intro w hw
    rcases ValS.redirect_vars (show w ∈ (e.redirect v tmpVar).vars from hw) with ⟨h1', h2⟩ | h1'
    · exact ⟨(upd_other _ _ _ _ h2).symm, lt_slots (allLt_mem hall h1')⟩
    · subst h1'; exact ⟨(upd_other _ _ _ _ (Ne.symm hvt)).symm, ht7⟩
  have hev : (LeafS.set (e.redirect v tmpVar)).eval (fun w => absCell g (upd (upd s.vars tmpVar t) v .null w)) =
      (LeafS.set e).eval σ := by
    simp only [LeafS.eval]
    congr 1
    apply ValS.redirect_eval
    · rw [upd_other _ _ _ _ (Ne.symm hvt), upd_same, a1]; exact hrel v hv
    · intro w hw hwv
      have hwn := allLt_mem hall hw
      have : w ≠ tmpVar := by simp [nvars, tmpVar] at *; omega
      rw [upd_other _ _ _ _ hwv, upd_other _ _ _ _ this]; exact hrel w hwn
  have hl1 : liveCount h1 = liveCount s.h := liveCount_sameLive sl1
  obtain ⟨h2, c', g', r, cs⟩ := walk_step ds (upd s.vars tmpVar t) (.set (e.redirect v tmpVar)) hls' hsrc p h1 _ g (s.vars v) hd y
    (by rw [hev, hrel v hv]; exact hy) f
    (by have := liveCount_le_next s.h; rw [redirect_leafSize, hl1]; omega)
  -- put the cell back
  have hnp : ∀ b, upd (upd s.vars tmpVar t) v .null v ≠ .ptr b := by intro b; simp
  have i2 := dinv_put cs.inv v hv7 hnp c'
    (by intro x; show cellCnt c' x ≤ cellCnt (s.vars v) x - cellCnt (s.vars v) x + cellCnt c' x; omega) cs.ok
  have hvars2 : upd (upd (upd s.vars tmpVar t) v .null) v c' = upd (upd s.vars tmpVar t) v c' := by
    funext w; by_cases ew : w = v
    · subst ew; simp
    · simp [upd_other _ _ _ _ ew]
  rw [hvars2] at i2
  have i2' : DInv h2 (upd (upd s.vars tmpVar t) v c') zeroE g' := i2.congr (by intro x; simp only [zeroE]; omega)
  -- destroy the copy
  have htv : upd (upd s.vars tmpVar t) v c' tmpVar = t := by rw [upd_other _ _ _ _ (Ne.symm hvt), upd_same]
  have hlive2 : liveCount h2 < f := by
    have := cs.live; have := liveCount_le_next s.h; rw [redirect_leafSize] at *; omega
  obtain ⟨h3, r3, i3, _⟩ := release_var i2' tmpVar ht7 f hlive2
  rw [htv] at r3
  have hvars3 : upd (upd (upd s.vars tmpVar t) v c') tmpVar .null = upd s.vars v c' := by
    funext w
    by_cases ew : w = tmpVar
    · subst ew; simp only [upd_same]; rw [upd_other _ _ _ _ (Ne.symm hvt)]; exact htmp.symm
    · simp only [upd_other _ _ _ _ ew]
      by_cases ev : w = v
      · subst ev; simp
      · simp [upd_other _ _ _ _ ev, upd_other _ _ _ _ ew]
  rw [hvars3] at i3
  refine ⟨{ h := h3, vars := upd s.vars v c' }, ?_, g', i3, ?_, ?_⟩
  · simp only [selfTempStep, ht, hh1, r, r3, Option.map]
  · intro w hw
    by_cases ew : w = v
    · subst ew; simp only [upd_same]; exact cs.val
    · simp only [upd_other _ _ _ _ ew]
      rw [← hrel w hw]
      apply absCell_congr
      intro b hb
      obtain ⟨k, hk⟩ := i.live w b hb
      have hk1 : h1.heap b ≠ none := by
        have := sl1.2 b; rw [hk] at this
        intro hn; rw [hn] at this; simp at this
      refine cs.frame b hk1 (Or.inl ?_)
      have hw7 : w < nslots := lt_slots hw
      have hwt : w ≠ tmpVar := by simp [nvars, tmpVar] at *; omega
      exact one_handle _ w b hw7 (by rw [upd_other _ _ _ _ ew, upd_other _ _ _ _ hwt]; exact hb)
  · have : tmpVar ≠ v := Ne.symm hvt
    simp only [upd_other _ _ _ _ this]; exact htmp

end Nstd.Variant.Deep
