/-
  Values of `Variant` (include/nstd/Variant.hpp) and its read-only members, switch by
  switch as coded: `getType`, `toBool … toUInt64`, `toDouble`, `toString() const`,
  `operator==` (including the `other == *this` flip of the string case and the
  cross-type numeric comparisons).  Core Lean only.

  * integers are unbounded `Int`s kept in the range of their C type; every C cast is an
    explicit wrap function (`wrapS`/`wrapU`);
  * a `double` is its 64 IEEE-754 bits, *opaque*: everything the code does with a double
    goes through the parameter `DblSem` (zero test, `==`, the casts, `atof`, `printf("%f")`).
    The theorems hold for every `DblSem`; the compiled driver instantiates it with
    `Nstd.Variant.ieee` (Ieee.lean).  A cast whose result C leaves undefined is `none`;
  * strings are byte lists; the libc parsers (`atoi`, `strtoul`, `atoll`, `strtoull`) are
    Lean definitions of their documented (glibc, LP64, "C" locale) behaviour.
-/
namespace Nstd.Variant

abbrev Str := List Nat

inductive Val where
  | null
  | bool (b : Bool)
  | dbl (d : Nat)
  | int (i : Int)
  | uint (i : Int)
  | int64 (i : Int)
  | uint64 (i : Int)
  | map (m : List (Str × Val))
  | list (l : List Val)
  | array (l : List Val)
  | str (s : Str)
  deriving Inhabited

/-- what the code does with a `double` -/
structure DblSem where
  isZero : Nat → Bool            -- `d == 0.`
  eq : Nat → Nat → Bool          -- `a == b`
  ofInt : Int → Nat              -- `(double)n`
  toI32 : Nat → Option Int       -- `(int)d`     (`none`: undefined in C)
  toU32 : Nat → Option Int       -- `(uint)d`
  toI64 : Nat → Option Int       -- `(int64)d`
  toU64 : Nat → Option Int       -- `(uint64)d`
  ofStr : Str → Nat              -- `atof(s)` of the C string `s`
  toStr : Nat → Str              -- `printf("%f", d)`

/-! ### C integer casts -/

def wrapU (bits : Nat) (x : Int) : Int := x % (2 ^ bits : Int)

def wrapS (bits : Nat) (x : Int) : Int :=
  let y := x % (2 ^ bits : Int)
  if y < (2 ^ (bits - 1) : Int) then y else y - (2 ^ bits : Int)

def inS (bits : Nat) (x : Int) : Prop := -(2 ^ (bits - 1) : Int) ≤ x ∧ x < (2 ^ (bits - 1) : Int)
def inU (bits : Nat) (x : Int) : Prop := 0 ≤ x ∧ x < (2 ^ bits : Int)

/-! ### libc number parsing on C strings -/

/-- the C string seen through `const char*`: bytes up to the first NUL -/
def cstr (s : Str) : Str := s.takeWhile (· ≠ 0)

def isSpace (c : Nat) : Bool := c == 32 || (9 ≤ c && c ≤ 13)
def isDigit (c : Nat) : Bool := 48 ≤ c && c ≤ 57

def digitsVal : Str → Nat → Nat
  | [], acc => acc
  | c :: t, acc => if isDigit c then digitsVal t (acc * 10 + (c - 48)) else acc

/-- white space, optional sign, decimal digits: (negative?, magnitude) -/
def parseDec (s : Str) : Bool × Nat :=
  match (cstr s).dropWhile isSpace with
  | [] => (false, 0)
  | c :: t =>
    if c == 45 then (true, digitsVal t 0)
    else if c == 43 then (false, digitsVal t 0)
    else (false, digitsVal (c :: t) 0)

/-- `strtol(s, 0, 10)` = `strtoll` (64-bit `long`): clamps -/
def strtol (s : Str) : Int :=
  let (neg, n) := parseDec s
  if neg then (if n > 2 ^ 63 then -(2 ^ 63 : Int) else -(n : Int))
  else (if n > 2 ^ 63 - 1 then (2 ^ 63 - 1 : Int) else (n : Int))

/-- `strtoul(s, 0, 10)` = `strtoull`: overflow gives ULONG_MAX, a minus sign negates modulo 2^64 -/
def strtoul (s : Str) : Int :=
  let (neg, n) := parseDec s
  if n > 2 ^ 64 - 1 then (2 ^ 64 - 1 : Int)
  else if neg then wrapU 64 (-(n : Int)) else (n : Int)

/-! ### String::toBool (String.hpp) -/

def lower (c : Nat) : Nat := if 65 ≤ c ∧ c ≤ 90 then c + 32 else c

def skipZeros : Str → Str
  | [] => []
  | c :: t => if c == 48 then skipZeros t else c :: t

/-- last byte before the end of a run of zeros that reaches the end of the string;
    mirrors `for(++p; *p == '0'; ++p); if(!*p && (p[-1] == '0' || *data->str == '0'))` -/
def strToBool (s : Str) : Bool :=
  if s.length == 0 || s.map lower == [102, 97, 108, 115, 101] || s == [48] then false
  else
    let c := cstr s
    match skipZeros c with
    | 46 :: t =>
      -- after the '.', only zeros up to the end?
      if (skipZeros t).isEmpty && (!t.isEmpty || s.head? == some 48) then false else true
    | _ => true

/-! ### decimal output (`printf` with `%d %u %lld %llu`) -/

/-- decimal digits, most significant first; `fuel > n` always suffices -/
def natDigitsAux : Nat → Nat → Str → Str
  | 0, _, acc => acc
  | f + 1, n, acc => if n < 10 then (48 + n) :: acc else natDigitsAux f (n / 10) ((48 + n % 10) :: acc)

def natDigits (n : Nat) : Str := natDigitsAux (n + 1) n []

def intDec (i : Int) : Str := if i < 0 then 45 :: natDigits i.natAbs else natDigits i.natAbs

def strTrue : Str := [116, 114, 117, 101]
def strFalse : Str := [102, 97, 108, 115, 101]

/-! ### Variant: type and coercions -/

/-- `enum Type` in declaration order -/
def Val.type : Val → Nat
  | .null => 0 | .bool _ => 1 | .dbl _ => 2 | .int _ => 3 | .uint _ => 4 | .int64 _ => 5
  | .uint64 _ => 6 | .map _ => 7 | .list _ => 8 | .array _ => 9 | .str _ => 10

def Val.isBoxed : Val → Bool
  | .map _ | .list _ | .array _ | .str _ => true
  | _ => false

def Val.toBool (ds : DblSem) : Val → Bool
  | .bool b => b
  | .dbl d => !ds.isZero d
  | .int i => i != 0
  | .uint i => i != 0
  | .int64 i => i != 0
  | .uint64 i => i != 0
  | .str s => strToBool s
  | _ => false

def b2i (b : Bool) : Int := if b then 1 else 0

def Val.toInt (ds : DblSem) : Val → Option Int
  | .bool b => some (b2i b)
  | .dbl d => ds.toI32 d
  | .int i => some i
  | .uint i => some (wrapS 32 i)
  | .int64 i => some (wrapS 32 i)
  | .uint64 i => some (wrapS 32 i)
  | .str s => some (wrapS 32 (strtol s))          -- atoi = (int)strtol
  | _ => some 0

def Val.toUInt (ds : DblSem) : Val → Option Int
  | .bool b => some (b2i b)
  | .dbl d => ds.toU32 d
  | .int i => some (wrapU 32 i)
  | .uint i => some i
  | .int64 i => some (wrapU 32 i)
  | .uint64 i => some (wrapU 32 i)
  | .str s => some (wrapU 32 (strtoul s))
  | _ => some 0

def Val.toInt64 (ds : DblSem) : Val → Option Int
  | .bool b => some (b2i b)
  | .dbl d => ds.toI64 d
  | .int i => some i
  | .uint i => some i
  | .int64 i => some i
  | .uint64 i => some (wrapS 64 i)
  | .str s => some (strtol s)                      -- atoll
  | _ => some 0

def Val.toUInt64 (ds : DblSem) : Val → Option Int
  | .bool b => some (b2i b)
  | .dbl d => ds.toU64 d
  | .int i => some (wrapU 64 i)
  | .uint i => some i
  | .int64 i => some (wrapU 64 i)
  | .uint64 i => some i
  | .str s => some (strtoul s)
  | _ => some 0

def Val.toDouble (ds : DblSem) : Val → Nat
  | .bool b => ds.ofInt (b2i b)
  | .dbl d => d
  | .int i => ds.ofInt i
  | .uint i => ds.ofInt i
  | .int64 i => ds.ofInt i
  | .uint64 i => ds.ofInt i
  | .str s => ds.ofStr (cstr s)
  | _ => ds.ofInt 0

/-- `String toString() const` -/
def Val.toStr (ds : DblSem) : Val → Str
  | .str s => s
  | .bool b => if b then strTrue else strFalse
  | .dbl d => ds.toStr d
  | .int i => intDec i
  | .uint i => intDec i
  | .int64 i => intDec i
  | .uint64 i => intDec i
  | _ => []

/-- the const accessors `toMap() const`, `toList() const`, `toArray() const` -/
def Val.asMap : Val → List (Str × Val)
  | .map m => m
  | _ => []
def Val.asList : Val → List Val
  | .list l => l
  | _ => []
def Val.asArray : Val → List Val
  | .array l => l
  | _ => []

/-! ### operator==

`none` = the comparison evaluates a cast that C leaves undefined.  Container comparison
is `size` first, then element by element with `!=` (= `!(a == b)`), stopping at the
first difference, as in `List::operator==`, `HashMap::operator==` and (patch 01)
`Array::operator==`. -/

def optEq (a : Int) (b : Option Int) : Option Bool := b.map (fun x => a == x)

/-- `*this == other` where `*this` is not a container (the scalar and null cases of the switch) -/
def scalarEq (ds : DblSem) (a other : Val) : Option Bool :=
  match a with
  | .null => some (other.type == 0)
  | .bool b => some (b == other.toBool ds)
  | .dbl d => some (ds.eq d (other.toDouble ds))
  | .int i => optEq i (other.toInt ds)
  | .uint i => optEq i (other.toUInt ds)
  | .int64 i => optEq i (other.toInt64 ds)
  | .uint64 i => optEq i (other.toUInt64 ds)
  | _ => some false

mutual
def veq (ds : DblSem) : Val → Val → Option Bool
  | .map m, o => (match o with | .map k => if m.length != k.length then some false else veqMap ds m k | _ => some false)
  | .list l, o => (match o with | .list k => if l.length != k.length then some false else veqList ds l k | _ => some false)
  | .array l, o => (match o with | .array k => if l.length != k.length then some false else veqList ds l k | _ => some false)
  | .str s, o =>
    (match o with
     | .str t => some (s == t)
     | .map _ => some false         -- other == *this: other.data->type == mapType && this is a map
     | .list _ => some false
     | .array _ => some false
     | o => scalarEq ds o (.str s))
  | a, o => scalarEq ds a o
def veqList (ds : DblSem) : List Val → List Val → Option Bool
  | a :: t, b :: u =>
    (match veq ds a b with
     | none => none
     | some false => some false
     | some true => veqList ds t u)
  | _, _ => some true
def veqMap (ds : DblSem) : List (Str × Val) → List (Str × Val) → Option Bool
  | (k, a) :: t, (k', b) :: u =>
    if k != k' then some false
    else (match veq ds a b with
     | none => none
     | some false => some false
     | some true => veqMap ds t u)
  | _, _ => some true
end

/-! ### containers as used through the mutable accessors -/

/-- `HashMap::insert(key, value)` at the end: an existing key keeps its position, the value is overwritten -/
def mapInsert : List (Str × Val) → Str → Val → List (Str × Val)
  | [], k, v => [(k, v)]
  | (k', x) :: t, k, v => if k' == k then (k', v) :: t else (k', x) :: mapInsert t k v

def mapRemove : List (Str × Val) → Str → List (Str × Val)
  | [], _ => []
  | (k', x) :: t, k => if k' == k then t else (k', x) :: mapRemove t k

def mapFind : List (Str × Val) → Str → Option Val
  | [], _ => none
  | (k', x) :: t, k => if k' == k then some x else mapFind t k

def mapSet : List (Str × Val) → Str → Val → List (Str × Val)
  | [], _, _ => []
  | (k', x) :: t, k, v => if k' == k then (k', v) :: t else (k', x) :: mapSet t k v

def mapOfPairs (ps : List (Str × Val)) : List (Str × Val) :=
  ps.foldl (fun m p => mapInsert m p.1 p.2) []

/-- one step of a nested access: `toList()` item i, `toArray()[i]`, `toMap().find(k)` -/
inductive Step where
  | li (i : Nat)
  | ar (i : Nat)
  | mk (k : Str)
  deriving Inhabited

/-- const walk: `((const Variant&)x).toList()` … ; `none` when an index/key does not exist -/
def getPath : List Step → Val → Option Val
  | [], x => some x
  | .li i :: p, x => (match x.asList[i]? with | some y => getPath p y | none => none)
  | .ar i :: p, x => (match x.asArray[i]? with | some y => getPath p y | none => none)
  | .mk k :: p, x => (match mapFind x.asMap k with | some y => getPath p y | none => none)

/-- mutable walk over an existing path (every step exists, so no accessor on the way changes a
    type); `f` is applied to the Variant at the end of the path -/
def updPath : List Step → (Val → Option Val) → Val → Option Val
  | [], f, x => f x
  | .li i :: p, f, x =>
    (match x with
     | .list l => (match l[i]? with
        | some y => (updPath p f y).map (fun y' => .list (l.set i y'))
        | none => none)
     | _ => none)
  | .ar i :: p, f, x =>
    (match x with
     | .array l => (match l[i]? with
        | some y => (updPath p f y).map (fun y' => .array (l.set i y'))
        | none => none)
     | _ => none)
  | .mk k :: p, f, x =>
    (match x with
     | .map m => (match mapFind m k with
        | some y => (updPath p f y).map (fun y' => .map (mapSet m k y'))
        | none => none)
     | _ => none)

/-- what is done to the Variant at the end of the path (sources already evaluated) -/
inductive Leaf where
  | assign (src : Val)            -- `x = <Variant>`
  | set (v : Val)                 -- the typed `operator=` (scalars, String, List, Array, HashMap)
  | clear
  | touch (kind : Nat)            -- `x.toMap()/toList()/toArray()/toString()` without a change (type numbers 7,8,9,10)
  | lapp (src : Val)              -- `x.toList().append(src)`
  | lpre (src : Val)              -- `x.toList().prepend(src)`
  | lrem (i : Nat)                -- `x.toList().remove(iterator to item i)`
  | aapp (src : Val)              -- `x.toArray().append(src)`
  | arem (i : Nat)                -- `x.toArray().remove(i)`
  | mput (k : Str) (src : Val)    -- `x.toMap().append(k, src)` (= insert at the end)
  | mrem (k : Str)                -- `x.toMap().remove(k)`
  | sapp (s : Str)                -- `x.toString().append(s)`

/-- the container type a leaf operation accesses mutably (`none`: assignment / clear) -/
def Leaf.kind : Leaf → Option Nat
  | .touch k => some k
  | .lapp _ | .lpre _ | .lrem _ => some 8
  | .aapp _ | .arem _ => some 9
  | .mput _ _ | .mrem _ => some 7
  | .sapp _ => some 10
  | _ => none

/-- value held after the mutable accessor of type `kind`: the payload when the type matches,
    otherwise the copy of the static empty container / of `toString() const` -/
def coerce (ds : DblSem) (kind : Nat) (x : Val) : Val :=
  if kind = 7 then .map x.asMap
  else if kind = 8 then .list x.asList
  else if kind = 9 then .array x.asArray
  else .str (x.toStr ds)

/-- the change made through the reference the accessor returned (`x` already coerced);
    `none`: the harness refuses the line (index out of range, not a container kind) -/
def Leaf.inPlace : Leaf → Val → Option Val
  | .touch k, x => if 7 ≤ k ∧ k ≤ 10 then some x else none
  | .lapp s, .list l => some (.list (l ++ [s]))
  | .lpre s, .list l => some (.list (s :: l))
  | .lrem i, .list l => if i < l.length then some (.list (l.eraseIdx i)) else none
  | .aapp s, .array l => some (.array (l ++ [s]))
  | .arem i, .array l => if i < l.length then some (.array (l.eraseIdx i)) else none
  | .mput k s, .map m => some (.map (mapInsert m k s))
  | .mrem k, .map m => some (.map (mapRemove m k))
  | .sapp t, .str s => some (.str (s ++ t))
  | _, _ => none

/-- effect of a leaf operation on a Variant *value* (used below the root, where the
    model keeps elements by value, and by the specification) -/
def Leaf.apply (ds : DblSem) (lf : Leaf) (x : Val) : Option Val :=
  match lf with
  | .assign s => some s
  | .set v => some v
  | .clear => some .null
  | lf => (match lf.kind with
    | some k => lf.inPlace (coerce ds k x)
    | none => none)

end Nstd.Variant
