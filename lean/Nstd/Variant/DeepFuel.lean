import Nstd.Variant.DeepRun
/-
  The fuel the driver gives to `readCell` — `next + 1` — always suffices: the fuel needed is the
  nesting depth of the value, every level of nesting is a different live block (the ghost value of
  a block is strictly deeper than those of its elements: no cycles), and there are at most `next`
  live blocks (pigeonhole).
-/
namespace Nstd.Variant.Deep
open Nstd.Variant

mutual
/-- fuel `readCell` needs for a value: 1 + nesting depth -/
def need : Val → Nat
  | .list l => needList l + 1
  | .array l => needList l + 1
  | .map m => needMap m + 1
  | _ => 1
def needList : List Val → Nat
  | [] => 0
  | a :: t => max (need a) (needList t)
def needMap : List (Str × Val) → Nat
  | [] => 0
  | (_, a) :: t => max (need a) (needMap t)
end

theorem need_pos (x : Val) : 1 ≤ need x := by cases x <;> simp [need]

/-- the deepest element of a payload -/
def maxNeed (g : Nat → Val) : List Cell → Nat
  | [] => 0
  | c :: t => max (need (absCell g c)) (maxNeed g t)

theorem needList_map (g : Nat → Val) (cs : List Cell) : needList (cs.map (absCell g)) = maxNeed g cs := by
  induction cs with
  | nil => rfl
  | cons c t ih => simp [needList, maxNeed, ih]

theorem needMap_map (g : Nat → Val) (m : List (Str × Cell)) :
    needMap (m.map (fun p => (p.1, absCell g p.2))) = maxNeed g (m.map (·.2)) := by
  induction m with
  | nil => rfl
  | cons q t ih => obtain ⟨k, c⟩ := q; simp [needMap, maxNeed, ih]

theorem need_absPay (g : Nat → Val) (p : Pay) : need (absPay g p) = maxNeed g p.cells + 1 := by
  cases p with
  | str t => rfl
  | list cs => simp [absPay, need, needList_map, Pay.cells]
  | array cs => simp [absPay, need, needList_map, Pay.cells]
  | map m => simp [absPay, need, needMap_map, Pay.cells]

theorem maxNeed_ge (g : Nat → Val) (cs : List Cell) (c : Cell) (h : c ∈ cs) : need (absCell g c) ≤ maxNeed g cs := by
  induction cs with
  | nil => cases h
  | cons d t ih =>
    simp only [List.mem_cons] at h
    simp only [maxNeed]
    rcases h with rfl | h
    · omega
    · have := ih h; omega

theorem maxNeed_witness (g : Nat → Val) (cs : List Cell) (h : 0 < maxNeed g cs) :
    ∃ c ∈ cs, need (absCell g c) = maxNeed g cs := by
  induction cs with
  | nil => simp [maxNeed] at h
  | cons d t ih =>
    simp only [maxNeed] at h ⊢
    by_cases hd : maxNeed g t ≤ need (absCell g d)
    · exact ⟨d, by simp, by omega⟩
    · obtain ⟨c, hc, e⟩ := ih (by omega)
      exact ⟨c, by simp [hc], by omega⟩

/-! ### enough fuel: the nesting depth -/

theorem readCell_need {h : Heap} {vars e g} (i : DInv h vars e g) : ∀ (f : Nat) (c : Cell), CellOk h c →
    need (absCell g c) ≤ f → readCell f h c = absCell g c := by
  intro f
  induction f with
  | zero => intro c _ hs; have := need_pos (absCell g c); omega
  | succ f ih =>
    intro c hc hs
    cases c with
    | null => rfl
    | inl x => rfl
    | ptr b =>
      obtain ⟨blk, hb⟩ := hc.2 b rfl
      have hcons := i.cons b blk hb
      have hok := stored_cells_ok i b blk hb
      simp only [absCell] at hs
      rw [hcons, need_absPay] at hs
      have hel : ∀ c ∈ blk.pay.cells, readCell f h c = absCell g c := by
        intro c hcm
        exact ih c (hok c hcm) (by have := maxNeed_ge g _ c hcm; omega)
      simp only [readCell, hb, absCell]
      rw [hcons]
      cases hp : blk.pay with
      | str t => rfl
      | list cs =>
        rw [hp] at hel
        simp only [absPay]; congr 1
        exact List.map_congr_left (fun c hcm => hel c hcm)
      | array cs =>
        rw [hp] at hel
        simp only [absPay]; congr 1
        exact List.map_congr_left (fun c hcm => hel c hcm)
      | map m =>
        rw [hp] at hel
        simp only [absPay]; congr 1
        apply List.map_congr_left
        intro q hq
        rw [hel q.2 (by simp only [Pay.cells]; exact List.mem_map.2 ⟨q, hq, rfl⟩)]

/-! ### every level of nesting is another live block -/

/-- a block of depth `k ≥ 2` heads a chain of `k - 1` different live blocks -/
theorem chain_of_need {h : Heap} {vars e g} (i : DInv h vars e g) : ∀ (k : Nat) (b : Nat) (blk : Block),
    h.heap b = some blk → need (g b) = k + 2 →
    ∃ L : List Nat, L.Nodup ∧ L.length = k + 1 ∧ ∀ x ∈ L, (∃ bx, h.heap x = some bx) ∧ need (g x) ≤ k + 2 := by
  intro k
  induction k with
  | zero =>
    intro b blk hb _
    exact ⟨[b], by simp, rfl, by intro x hx; simp at hx; subst hx; exact ⟨⟨blk, hb⟩, by omega⟩⟩
  | succ k ih =>
    intro b blk hb hn
    rw [i.cons b blk hb, need_absPay] at hn
    obtain ⟨c, hcm, hcn⟩ := maxNeed_witness g blk.pay.cells (by omega)
    -- the deepest element is a pointer to a live block of depth k + 2
    cases c with
    | null => simp [absCell, need] at hcn; omega
    | inl x =>
      have hnb := i.sinl b blk x hb hcm
      have : need x = 1 := by cases x <;> simp [Val.isBoxed] at hnb <;> rfl
      simp only [absCell] at hcn; omega
    | ptr b' =>
      obtain ⟨blk', hb'⟩ := i.slive b blk b' hb hcm
      simp only [absCell] at hcn
      obtain ⟨L, hnd, hlen, hall⟩ := ih b' blk' hb' (by omega)
      refine ⟨b :: L, ?_, by simp [hlen], ?_⟩
      · rw [List.nodup_cons]
        refine ⟨?_, hnd⟩
        intro hin
        have := (hall b hin).2
        rw [i.cons b blk hb, need_absPay] at this
        omega
      · intro x hx
        simp only [List.mem_cons] at hx
        rcases hx with rfl | hx
        · exact ⟨⟨blk, hb⟩, by rw [i.cons x blk hb, need_absPay]; omega⟩
        · exact ⟨(hall x hx).1, by have := (hall x hx).2; omega⟩

/-- pigeonhole: different live block ids below `n` are at most as many as the live blocks below `n` -/
theorem nodup_le_liveN (heap : Nat → Option Block) : ∀ (n : Nat) (L : List Nat), L.Nodup →
    (∀ x ∈ L, x < n ∧ (heap x).isSome = true) → L.length ≤ liveN heap n := by
  intro n
  induction n with
  | zero =>
    intro L _ hall
    cases L with
    | nil => simp
    | cons a t => have := (hall a (by simp)).1; omega
  | succ n ih =>
    intro L hnd hall
    have hstep : liveN heap (n + 1) = liveN heap n + (if (heap n).isSome then 1 else 0) := by
      simp only [liveN, List.range_succ, List.countP_append, List.countP_cons, List.countP_nil]
      split <;> simp_all
    by_cases hin : n ∈ L
    · have hlive := (hall n hin).2
      have h1 := ih (L.erase n) (hnd.erase n) (by
        intro x hx
        have hx' := (List.Nodup.mem_erase_iff hnd).1 hx
        have := hall x hx'.2
        exact ⟨by have := hx'.1; omega, this.2⟩)
      rw [List.length_erase_of_mem hin] at h1
      rw [hstep, hlive]; simp only [if_true]
      have : 0 < L.length := List.length_pos_of_mem hin
      omega
    · have h1 := ih L hnd (by
        intro x hx
        have := hall x hx
        have : x ≠ n := by intro e; subst e; exact hin hx
        exact ⟨by omega, (hall x hx).2⟩)
      rw [hstep]; omega

theorem need_le_live {h : Heap} {vars e g} (i : DInv h vars e g) (c : Cell) (hc : CellOk h c) :
    need (absCell g c) ≤ liveCount h + 1 := by
  cases c with
  | null => simp [absCell, need]
  | inl x =>
    have hnb := hc.1 x rfl
    have : need x = 1 := by cases x <;> simp [Val.isBoxed] at hnb <;> rfl
    simp only [absCell, this]; omega
  | ptr b =>
    obtain ⟨blk, hb⟩ := hc.2 b rfl
    simp only [absCell]
    cases hk : need (g b) with
    | zero => omega
    | succ k1 =>
      cases k1 with
      | zero => omega
      | succ k =>
        obtain ⟨L, hnd, hlen, hall⟩ := chain_of_need i k b blk hb hk
        have := nodup_le_liveN h.heap h.next L hnd (by
          intro x hx
          obtain ⟨⟨bx, hbx⟩, _⟩ := hall x hx
          exact ⟨i.lt_next x bx hbx, by simp [hbx]⟩)
        simp only [liveCount]; omega

/-- what the driver prints (`DState.read`, fuel `next + 1`) is the specification's value -/
theorem read_exact {s : DState} {σ : Store} (hg : DGood s σ) (v : Nat) (hv : v < nvars) : s.read v = σ v := by
  obtain ⟨g, i, hrel, _⟩ := hg
  rw [← hrel v hv]
  have hc := var_cellOk i v
  exact readCell_need i (s.h.next + 1) (s.vars v) hc (by
    have := need_le_live i (s.vars v) hc
    have := liveCount_le_next s.h
    omega)

end Nstd.Variant.Deep

namespace Nstd.Variant.Deep
open Nstd.Variant

/-! ### the driver's loop: validity is decided on what the driver reads back from the heap -/

/-- whether the specification accepts a line depends on the values of the six variables only -/
theorem specStep_isSome_congr (ds : DblSem) (σ τ : Store) (hst : ∀ v, v < nvars → σ v = τ v) (op : Op) :
    (specStep ds σ op).isSome = (specStep ds τ op).isSome := by
  cases op with
  | new v e => simp only [specStep]; split <;> rfl
  | copy v w => simp only [specStep]; split <;> (try split) <;> rfl
  | swap v w => simp only [specStep]; split <;> rfl
  | get v w p =>
    simp only [specStep]
    split
    · rename_i hc; rw [hst w hc.2]; cases getPath p (τ w) <;> rfl
    · rfl
  | «mut» v p lf =>
    simp only [specStep]
    split
    · rename_i hc
      have hev : lf.eval σ = lf.eval τ := LeafS.eval_congr lf (fun w hw => hst w (allLt_mem hc.2.1 hw))
      have hsn : lf.setsNull σ = lf.setsNull τ := by
        cases lf <;> simp only [LeafS.setsNull]
        rename_i e
        have : e.eval σ = e.eval τ := ValS.eval_congr e (fun w hw => hst w (allLt_mem hc.2.1 (by simpa [LeafS.vars] using hw)))
        rw [this]
      rw [hsn, hev, hst v hc.1]
      split
      · rfl
      · cases updPath p ((lf.eval τ).apply ds) (τ v) <;> rfl
    · rfl

/-- the loop of the compiled driver: a line is executed iff the specification accepts it on the values
    read back from the heap with fuel `next + 1`; `none` = the driver prints FAULT -/
def ddrive (ds : DblSem) : DState → List Op → Option DState
  | s, [] => some s
  | s, op :: t =>
    match specStep ds s.read op with
    | none => ddrive ds s t
    | some _ =>
      (match dstep ds s op with
       | some s' => ddrive ds s' t
       | none => none)

theorem ddrive_refines (ds : DblSem) : ∀ (ops : List Op) (s : DState) (σ : Store), DGood s σ → (∀ op ∈ ops, OpSup op) →
    ∃ s', ddrive ds s ops = some s' ∧ DGood s' (specRun ds σ ops) := by
  intro ops
  induction ops with
  | nil => intro s σ hg _; exact ⟨s, rfl, hg⟩
  | cons op t ih =>
    intro s σ hg hsup
    have hop : OpSup op := hsup op (by simp)
    have ht : ∀ o ∈ t, OpSup o := fun o ho => hsup o (by simp [ho])
    have hsame := specStep_isSome_congr ds s.read σ (fun v hv => read_exact hg v hv) op
    cases hspec : specStep ds σ op with
    | none =>
      have : specRun ds σ (op :: t) = specRun ds σ t := by simp [specRun, List.foldl_cons, specStepD, hspec]
      rw [this]
      have hr : specStep ds s.read op = none := by
        rw [hspec] at hsame
        cases h : specStep ds s.read op with
        | none => rfl
        | some x => rw [h] at hsame; cases hsame
      obtain ⟨s', r, g'⟩ := ih s σ hg ht
      exact ⟨s', by simp only [ddrive, hr]; exact r, g'⟩
    | some σ' =>
      have : specRun ds σ (op :: t) = specRun ds σ' t := by simp [specRun, List.foldl_cons, specStepD, hspec]
      rw [this]
      obtain ⟨x, hr⟩ : ∃ x, specStep ds s.read op = some x := by
        rw [hspec] at hsame
        cases h : specStep ds s.read op with
        | none => rw [h] at hsame; cases hsame
        | some x => exact ⟨x, rfl⟩
      obtain ⟨s1, r1, g1⟩ := dstep_refines ds hg op hop hspec
      obtain ⟨s', r, g'⟩ := ih s1 σ' g1 ht
      exact ⟨s', by simp only [ddrive, hr, r1]; exact r, g'⟩

end Nstd.Variant.Deep
