import Nstd.Variant.DeepInv
/-
  Atomic steps of the deep model: copy of a cell / of cells, allocation, in-place payload
  write, release with the destructor cascade.
-/
namespace Nstd.Variant.Deep
open Nstd.Variant

/-- same allocation state: same `next`, same live block ids -/
def SameLive (h h' : Heap) : Prop := h'.next = h.next ∧ ∀ x, (h'.heap x).isSome = (h.heap x).isSome

theorem SameLive.refl (h : Heap) : SameLive h h := ⟨rfl, fun _ => rfl⟩
theorem SameLive.trans {a b c : Heap} (x : SameLive a b) (y : SameLive b c) : SameLive a c :=
  ⟨y.1.trans x.1, fun k => (y.2 k).trans (x.2 k)⟩

/-- the payloads of the live blocks of `h'` are those they had in `h` -/
def PaySub (h h' : Heap) : Prop := ∀ x blk', h'.heap x = some blk' → ∃ blk, h.heap x = some blk ∧ blk'.pay = blk.pay

theorem PaySub.refl (h : Heap) : PaySub h h := fun _ blk' hx => ⟨blk', hx, rfl⟩
theorem PaySub.trans {a b c : Heap} (x : PaySub a b) (y : PaySub b c) : PaySub a c := by
  intro k blk'' hk
  obtain ⟨blk', h1, e1⟩ := y k blk'' hk
  obtain ⟨blk, h2, e2⟩ := x k blk' h1
  exact ⟨blk, h2, e1.trans e2⟩

theorem cntCells_cons (c : Cell) (t : List Cell) (x : Nat) : cntCells (c :: t) x = cellCnt c x + cntCells t x := by
  simp only [cntCells, cellCnt, List.countP_cons]
  split <;> omega

theorem cntCells_nil (x : Nat) : cntCells [] x = 0 := rfl

theorem cntCells_append (a b : List Cell) (x : Nat) : cntCells (a ++ b) x = cntCells a x + cntCells b x := by
  simp [cntCells, List.countP_append]

theorem live_of_pending {h : Heap} {vars e g} (i : DInv h vars e g) (b : Nat) (he : 1 ≤ e b) : ∃ blk, h.heap b = some blk := by
  cases hb : h.heap b with
  | none => have := i.efresh b hb; omega
  | some blk => exact ⟨blk, rfl⟩

/-! ### copy of a cell -/

theorem incr_sameLive (h : Heap) (b : Nat) : SameLive h (incr h b) := ⟨incr_next h b, incr_live h b⟩

theorem incr_paySub (h : Heap) (b : Nat) : PaySub h (incr h b) ∧ PaySub (incr h b) h := by
  unfold incr
  cases hb : h.heap b with
  | none => exact ⟨PaySub.refl _, PaySub.refl _⟩
  | some blk =>
    constructor
    · intro x blk' hx
      by_cases ex : x = b
      · subst ex; simp at hx; subst hx; exact ⟨blk, hb, rfl⟩
      · simp [upd_other _ _ _ _ ex] at hx; exact ⟨blk', hx, rfl⟩
    · intro x blk' hx
      by_cases ex : x = b
      · subst ex; rw [hb] at hx; injection hx with hx; subst hx
        exact ⟨{ blk with ref := blk.ref + 1 }, by simp, rfl⟩
      · exact ⟨blk', by simp [upd_other _ _ _ _ ex, hx], rfl⟩

theorem dinv_copyCell {h : Heap} {vars e g} (i : DInv h vars e g) (c : Cell) (hc : CellOk h c) :
    DInv (copyCell h c).1 vars (fun x => e x + cellCnt (copyCell h c).2 x) g ∧
    absCell g (copyCell h c).2 = absCell g c ∧ (∀ x, cellCnt (copyCell h c).2 x = cellCnt c x) ∧
    SameLive h (copyCell h c).1 ∧ PaySub h (copyCell h c).1 ∧ PaySub (copyCell h c).1 h ∧
    (∀ x, (copyCell h c).2 = .inl x → x.isBoxed = false) := by
  cases c with
  | null =>
    refine ⟨i.congr (by intro x; simp [copyCell, cellCnt, isPtrTo]), rfl, by intro x; simp [copyCell, cellCnt, isPtrTo],
      SameLive.refl _, PaySub.refl _, PaySub.refl _, ?_⟩
    intro x hx; simp only [copyCell] at hx; injection hx with hx; subst hx; rfl
  | inl y =>
    refine ⟨i.congr (by intro x; simp [copyCell, cellCnt, isPtrTo]), rfl, fun _ => rfl,
      SameLive.refl _, PaySub.refl _, PaySub.refl _, ?_⟩
    intro x hx; simp only [copyCell] at hx; injection hx with hx; subst hx; exact hc.1 y rfl
  | ptr b =>
    obtain ⟨blk, hb⟩ := hc.2 b rfl
    refine ⟨(dinv_incr i b blk hb).congr ?_, rfl, fun _ => rfl, incr_sameLive h b, (incr_paySub h b).1, (incr_paySub h b).2, ?_⟩
    · intro x; simp only [copyCell, bump, cellCnt_ptr]
      by_cases ex : x = b
      · subst ex; simp
      · have : ¬ b = x := fun y => ex y.symm
        simp [ex, this]
    · intro x hx; simp only [copyCell] at hx; cases hx

theorem cellOk_of_sameLive {h h' : Heap} (s : SameLive h h') (c : Cell) (hc : CellOk h c) : CellOk h' c := by
  refine ⟨hc.1, ?_⟩
  intro b hb
  obtain ⟨blk, hblk⟩ := hc.2 b hb
  have := s.2 b
  rw [hblk] at this
  cases hx : h'.heap b with
  | none => rw [hx] at this; cases this
  | some k => exact ⟨k, rfl⟩

theorem dinv_copyCells {vars g} : ∀ (cs : List Cell) (h : Heap) (e : Nat → Nat), DInv h vars e g → (∀ c ∈ cs, CellOk h c) →
    DInv (copyCells h cs).1 vars (fun x => e x + cntCells (copyCells h cs).2 x) g ∧
    (copyCells h cs).2.map (absCell g) = cs.map (absCell g) ∧ (∀ x, cntCells (copyCells h cs).2 x = cntCells cs x) ∧
    SameLive h (copyCells h cs).1 ∧ PaySub h (copyCells h cs).1 ∧ PaySub (copyCells h cs).1 h ∧
    (∀ c ∈ (copyCells h cs).2, ∀ x, c = .inl x → x.isBoxed = false) ∧ (copyCells h cs).2.length = cs.length := by
  intro cs
  induction cs with
  | nil =>
    intro h e i _
    exact ⟨i.congr (by intro x; simp [copyCells, cntCells_nil]), rfl, fun _ => rfl, SameLive.refl _, PaySub.refl _, PaySub.refl _,
      by intro c hc; simp [copyCells] at hc, rfl⟩
  | cons c t ih =>
    intro h e i hok
    obtain ⟨i1, a1, c1, s1, p1, q1, o1⟩ := dinv_copyCell i c (hok c (by simp))
    have hok' : ∀ c' ∈ t, CellOk (copyCell h c).1 c' := fun c' hc' => cellOk_of_sameLive s1 c' (hok c' (by simp [hc']))
    obtain ⟨i2, a2, c2, s2, p2, q2, o2, l2⟩ := ih (copyCell h c).1 _ i1 hok'
    have hcs : copyCells h (c :: t) = ((copyCells (copyCell h c).1 t).1, (copyCell h c).2 :: (copyCells (copyCell h c).1 t).2) := rfl
    rw [hcs]
    refine ⟨i2.congr ?_, ?_, ?_, s1.trans s2, p1.trans p2, q2.trans q1, ?_, ?_⟩
    · intro x; simp only [cntCells_cons]; omega
    · simp only [List.map_cons, a1, a2]
    · intro x; simp only [cntCells_cons, c1 x, c2 x]
    · intro c' hc' x hx
      simp only [List.mem_cons] at hc'
      rcases hc' with rfl | hc'
      · exact o1 x hx
      · exact o2 c' hc' x hx
    · simp [l2]

/-! ### `stored` is zero for a block nobody stores -/

theorem stored_zero (heap : Nat → Option Block) (n b : Nat)
    (hno : ∀ i blk, heap i = some blk → Cell.ptr b ∉ blk.pay.cells) : stored heap n b = 0 := by
  induction n with
  | zero => rfl
  | succ n ih =>
    simp only [stored, ih]
    cases hn : heap n with
    | none => rfl
    | some blk =>
      simp only [cntBlk]
      cases hz : cntCells blk.pay.cells b with
      | zero => rfl
      | succ k => exact absurd (mem_of_cntCells_pos _ _ (by omega)) (hno n blk hn)

theorem no_store_of_zero {h : Heap} {vars e g} (i : DInv h vars e g) (b : Nat) (hz : stored h.heap h.next b = 0)
    (j : Nat) (blk : Block) (hj : h.heap j = some blk) : Cell.ptr b ∉ blk.pay.cells := by
  intro hm
  have := stored_pos h.heap h.next b j blk (i.lt_next j blk hj) hj (cntCells_pos_of_mem _ _ hm)
  omega

theorem handles_zero_of_dead {h : Heap} {vars e g} (i : DInv h vars e g) (b : Nat) (hd : h.heap b = none) :
    handles vars b = 0 := by
  unfold handles handlesN
  apply List.countP_eq_zero.2
  intro v _ hp
  have := (isPtrTo_iff _ _).1 hp
  obtain ⟨k, hk⟩ := i.live v b this
  rw [hd] at hk; cases hk

theorem not_var_of_handles_zero (vars : Nat → Cell) (b v : Nat) (hv : v < nslots) (hz : handles vars b = 0) :
    vars v ≠ .ptr b := by
  intro hp
  have := one_handle vars v b hv hp
  omega

/-! ### allocation: the payload's cells were pending, the new block's handle is pending -/

theorem dinv_alloc {h : Heap} {vars e g} (i : DInv h vars e g) (p : Pay) (hp : ∀ c ∈ p.cells, CellOk h c)
    (he : ∀ x, cntCells p.cells x ≤ e x) :
    DInv (alloc h p).1 vars (fun x => e x - cntCells p.cells x + (if x = h.next then 1 else 0)) (upd g h.next (absPay g p)) := by
  have hn : h.heap h.next = none := i.fresh h.next (Nat.le_refl _)
  have pne : ∀ b, Cell.ptr b ∈ p.cells → b ≠ h.next := by
    intro b hb eb; subst eb
    obtain ⟨k, hk⟩ := (hp _ hb).2 _ rfl
    rw [hn] at hk; cases hk
  have pz : cntCells p.cells h.next = 0 := by
    cases hz : cntCells p.cells h.next with
    | zero => rfl
    | succ k => exact absurd rfl (pne _ (mem_of_cntCells_pos _ _ (by omega)))
  simp only [alloc]
  constructor
  · intro v b hv
    obtain ⟨k, hk⟩ := i.live v b hv
    have : b ≠ h.next := by intro eb; subst eb; rw [hn] at hk; cases hk
    exact ⟨k, by simp [upd_other _ _ _ _ this, hk]⟩
  · intro j k b hj hm
    by_cases ej : j = h.next
    · subst ej; simp at hj; subst hj
      obtain ⟨k', hk'⟩ := (hp _ hm).2 _ rfl
      have : b ≠ h.next := pne b hm
      exact ⟨k', by simp [upd_other _ _ _ _ this, hk']⟩
    · simp [upd_other _ _ _ _ ej] at hj
      obtain ⟨k', hk'⟩ := i.slive j k b hj hm
      have : b ≠ h.next := by intro eb; subst eb; rw [hn] at hk'; cases hk'
      exact ⟨k', by simp [upd_other _ _ _ _ this, hk']⟩
  · intro b k hk
    simp only [stored, upd_same, cntBlk, stored_upd_ge h.heap h.next _ h.next b (Nat.le_refl _)]
    by_cases eb : b = h.next
    · subst eb; simp at hk; subst hk
      have h1 := handles_zero_of_dead i _ hn
      have h2 : stored h.heap h.next h.next = 0 := stored_zero _ _ _ (by
        intro j blk hj hm
        obtain ⟨k', hk'⟩ := i.slive j blk _ hj hm
        rw [hn] at hk'; cases hk')
      have h3 := i.efresh _ hn
      simp [h1, h2, h3, pz]
    · simp [upd_other _ _ _ _ eb] at hk
      have := i.cnt b k hk
      have := he b
      simp [eb]; omega
  · intro b k hk
    by_cases eb : b = h.next
    · subst eb; simp at hk; subst hk; simp
    · simp [upd_other _ _ _ _ eb] at hk; exact i.pos b k hk
  · intro b hb
    have : b ≠ h.next := by simp at hb; omega
    simp [upd_other _ _ _ _ this]; exact i.fresh b (by simp at hb; omega)
  · intro b hb
    by_cases eb : b = h.next
    · subst eb; simp at hb
    · simp [upd_other _ _ _ _ eb] at hb
      have := i.efresh b hb
      have := he b
      simp [eb]; omega
  · exact i.inl
  · intro j k x hj hx
    by_cases ej : j = h.next
    · subst ej; simp at hj; subst hj; exact (hp _ hx).1 x rfl
    · simp [upd_other _ _ _ _ ej] at hj; exact i.sinl j k x hj hx
  · exact i.out
  · intro b k hk
    by_cases eb : b = h.next
    · subst eb; simp at hk; subst hk
      simp only [upd_same]
      exact (absPay_congr g _ p (fun c hc => upd_other _ _ _ _ (pne c hc))).symm
    · simp [upd_other _ _ _ _ eb] at hk
      rw [upd_other _ _ _ _ eb, i.cons b k hk]
      refine (absPay_congr g _ k.pay (fun c hc => ?_)).symm
      obtain ⟨k', hk'⟩ := i.slive b k c hk hc
      have : c ≠ h.next := by intro ec; subst ec; rw [hn] at hk'; cases hk'
      exact upd_other _ _ _ _ this

theorem alloc_sameLive_old (h : Heap) (p : Pay) (x : Nat) (hx : x ≠ h.next) :
    (alloc h p).1.heap x = h.heap x := by simp [alloc, upd_other _ _ _ _ hx]

theorem alloc_new (h : Heap) (p : Pay) : (alloc h p).1.heap h.next = some ⟨1, p⟩ := by simp [alloc]
theorem alloc_next (h : Heap) (p : Pay) : (alloc h p).1.next = h.next + 1 := rfl
theorem alloc_id (h : Heap) (p : Pay) : (alloc h p).2 = h.next := rfl

/-! ### in-place write into a block whose only handle is pending -/

theorem dinv_setPay {h : Heap} {vars e g} (i : DInv h vars e g) (b : Nat) (blk : Block) (hb : h.heap b = some blk)
    (hh : handles vars b = 0) (hs : stored h.heap h.next b = 0) (p' : Pay) (hp : ∀ c ∈ p'.cells, CellOk h c)
    (hacc : ∀ x, cntCells p'.cells x ≤ e x + cntCells blk.pay.cells x) (hself : cntCells p'.cells b = 0) :
    DInv (setPay h b p') vars (fun x => e x + cntCells blk.pay.cells x - cntCells p'.cells x) (upd g b (absPay g p')) := by
  have hlt := i.lt_next b blk hb
  have hsp : setPay h b p' = { h with heap := upd h.heap b (some { blk with pay := p' }) } := by simp [setPay, hb]
  rw [hsp]
  have pnb : ∀ c, Cell.ptr c ∈ p'.cells → c ≠ b := by
    intro c hc ec; subst ec
    have := cntCells_pos_of_mem _ _ hc; omega
  constructor
  · intro v c hv
    by_cases ec : c = b
    · subst ec; exact ⟨{ blk with pay := p' }, by simp⟩
    · obtain ⟨k, hk⟩ := i.live v c hv
      exact ⟨k, by simp [upd_other _ _ _ _ ec, hk]⟩
  · intro j k c hj hm
    have hlive : ∃ k', h.heap c = some k' := by
      by_cases ej : j = b
      · subst ej; simp at hj; subst hj; exact (hp _ hm).2 _ rfl
      · simp [upd_other _ _ _ _ ej] at hj; exact i.slive j k c hj hm
    obtain ⟨k', hk'⟩ := hlive
    by_cases ec : c = b
    · subst ec; exact ⟨{ blk with pay := p' }, by simp⟩
    · exact ⟨k', by simp [upd_other _ _ _ _ ec, hk']⟩
  · intro c k hk
    have hst := stored_upd h.heap b (some { blk with pay := p' }) h.next c hlt
    simp only [hb, cntBlk] at hst
    have hac := hacc c
    by_cases ec : c = b
    · subst ec; simp at hk; subst hk
      have := i.cnt c blk hb
      simp only; omega
    · simp [upd_other _ _ _ _ ec] at hk
      have := i.cnt c k hk
      simp only; omega
  · intro c k hk
    by_cases ec : c = b
    · subst ec; simp at hk; subst hk; exact i.pos c blk hb
    · simp [upd_other _ _ _ _ ec] at hk; exact i.pos c k hk
  · intro c hc
    by_cases ec : c = b
    · subst ec; simp only at hc; omega
    · simp [upd_other _ _ _ _ ec]; exact i.fresh c hc
  · intro c hc
    by_cases ec : c = b
    · subst ec; simp at hc
    · simp [upd_other _ _ _ _ ec] at hc
      have h0 := i.efresh c hc
      have h1 : cntCells blk.pay.cells c = 0 := by
        cases hz : cntCells blk.pay.cells c with
        | zero => rfl
        | succ n =>
          obtain ⟨k', hk'⟩ := i.slive b blk c hb (mem_of_cntCells_pos _ _ (by omega))
          rw [hc] at hk'; cases hk'
      simp only [h0, h1]; omega
  · exact i.inl
  · intro j k x hj hx
    by_cases ej : j = b
    · subst ej; simp at hj; subst hj; exact (hp _ hx).1 x rfl
    · simp [upd_other _ _ _ _ ej] at hj; exact i.sinl j k x hj hx
  · exact i.out
  · intro c k hk
    by_cases ec : c = b
    · subst ec; simp at hk; subst hk
      simp only [upd_same]
      exact (absPay_congr g _ p' (fun d hd => upd_other _ _ _ _ (pnb d hd))).symm
    · simp [upd_other _ _ _ _ ec] at hk
      rw [upd_other _ _ _ _ ec, i.cons c k hk]
      refine (absPay_congr g _ k.pay (fun d hd => ?_)).symm
      have : d ≠ b := by
        intro ed; subst ed
        exact no_store_of_zero i d hs c k hk hd
      exact upd_other _ _ _ _ this

end Nstd.Variant.Deep
