import Nstd.Variant.Lemmas
/-
  Every representation-level operation of the model, followed in the order of the code
  through the atomic steps of Lemmas.lean: it keeps the invariant, gives the target
  variable the value the specification assigns, and leaves every other variable alone.
-/
namespace Nstd.Variant

/-- `s'` results from `s` by an operation on variable `v` that gives it the value `y` -/
structure Sim (s s' : State) (v : Nat) (y : Val) : Prop where
  inv : Inv s' zeroE
  rd : s'.read v = y
  frame : ∀ w, w ≠ v → s'.read w = s.read w
  vframe : ∀ w, w ≠ v → s'.vars w = s.vars w

theorem unbump_bump_zero (b : Nat) : ∀ c, unbump (bump zeroE b) b c = zeroE c := by
  intro c; by_cases h : c = b <;> simp [unbump, bump, zeroE, h]

theorem bump_pos (e : Nat → Nat) (b : Nat) : 1 ≤ bump e b b := by simp [bump]

theorem live_of_extra {s : State} {e} (h : Inv s e) (b : Nat) (he : 1 ≤ e b) : ∃ blk, s.heap b = some blk := by
  cases hb : s.heap b with
  | none => have := h.efresh b hb; omega
  | some blk => exact ⟨blk, rfl⟩

theorem type_zero (x : Val) (h : x.type = 0) : x = .null := by
  cases x <;> simp [Val.type] at h; rfl

theorem not_boxed_of_type_lt (x : Val) (h : x.type < 7) : x.isBoxed = false := by
  cases x <;> simp [Val.type, Val.isBoxed] at *

/-! ### clear -/

theorem sim_clear {s : State} (h : Inv s zeroE) (v : Nat) (hv : v < nslots) : Sim s (clear s v) v .null :=
  ⟨inv_clear h v hv, read_clear_same s v, fun w hw => read_clear_other h v w hv hw,
   fun w hw => by rw [clear_vars, upd_other _ _ _ _ hw]⟩

/-! ### install a value into a variable that points nowhere -/

/-- `alloc` + store the pointer: the tail of every "new block" path -/
theorem sim_install_boxed {s : State} (h : Inv s zeroE) (v : Nat) (hv : v < nslots) (hn : ∀ c, s.vars v ≠ .ptr c)
    (x : Val) (hx : x.isBoxed = true) :
    Sim s (setCell (alloc s x).1 v (.ptr (alloc s x).2)) v x := by
  have h1 := inv_alloc h x hx
  have hnew := alloc_heap_new s x
  have hn1 : ∀ c, (alloc s x).1.vars v ≠ .ptr c := by rw [alloc_vars]; exact hn
  have h2 := inv_setPtr h1 v s.next hv hn1 ⟨1, x⟩ hnew (bump_pos _ _)
  refine ⟨h2.congr (unbump_bump_zero _), ?_, ?_, ?_⟩
  · rw [alloc_snd]; exact read_setCell_ptr _ v s.next ⟨1, x⟩ hnew
  · intro w hw; rw [read_setCell_other _ _ _ _ hw]; exact read_alloc h x w
  · intro w hw; simp [setCell, upd_other _ _ _ _ hw, alloc_vars]

theorem sim_install_inl {s : State} (h : Inv s zeroE) (v : Nat) (hv : v < nslots) (hn : ∀ c, s.vars v ≠ .ptr c)
    (x : Val) (hx : x.isBoxed = false) : Sim s (setCell s v (.inl x)) v x :=
  ⟨inv_setInl h v hv hn _ (Or.inr ⟨x, rfl, hx⟩), read_setCell_inl s v x,
   fun w hw => read_setCell_other s v w _ hw, fun w hw => by simp [setCell, upd_other _ _ _ _ hw]⟩

theorem sim_install_null {s : State} (h : Inv s zeroE) (v : Nat) (hv : v < nslots) (hn : ∀ c, s.vars v ≠ .ptr c) :
    Sim s (setCell s v .null) v .null :=
  ⟨inv_setInl h v hv hn _ (Or.inl rfl), read_setCell_null s v,
   fun w hw => read_setCell_other s v w _ hw, fun w hw => by simp [setCell, upd_other _ _ _ _ hw]⟩

theorem Sim.trans_same {s s1 s2 : State} {v : Nat} {y z : Val} (a : Sim s s1 v y) (b : Sim s1 s2 v z) : Sim s s2 v z :=
  ⟨b.inv, b.rd, fun w hw => (b.frame w hw).trans (a.frame w hw), fun w hw => (b.vframe w hw).trans (a.vframe w hw)⟩

/-! ### constructors -/

theorem sim_ctorVal {s : State} (h : Inv s zeroE) (v : Nat) (hv : v < nslots) (hn : ∀ c, s.vars v ≠ .ptr c) (x : Val) :
    Sim s (ctorVal s v x) v x := by
  unfold ctorVal
  by_cases hx : x.isBoxed = true
  · simp only [hx, if_true]; exact sim_install_boxed h v hv hn x hx
  · have hx' : x.isBoxed = false := by simpa using hx
    simp only [hx', Bool.false_eq_true, if_false]
    by_cases ht : x.type = 0
    · simp only [ht, if_true]
      have := type_zero x ht; subst this
      exact sim_install_null h v hv hn
    · simp only [ht, if_false]; exact sim_install_inl h v hv hn x hx'

theorem sim_opNew {s : State} (h : Inv s zeroE) (v : Nat) (hv : v < nslots) (x : Val) : Sim s (opNew s v x) v x := by
  have a := sim_clear h v hv
  exact a.trans_same (sim_ctorVal a.inv v hv (clear_not_ptr s v) x)

/-- copy construction into raw storage -/
theorem sim_ctorCopy {s : State} (h : Inv s zeroE) (v w : Nat) (hv : v < nslots) (hvw : w ≠ v)
    (hn : ∀ c, s.vars v ≠ .ptr c) : Sim s (ctorCopy s v w) v (s.read w) := by
  unfold ctorCopy
  cases hw : s.vars w with
  | null =>
    simp only
    have : s.read w = .null := by simp [State.read, hw]
    rw [this]
    exact sim_install_inl h v hv hn .null rfl
  | inl x =>
    simp only
    have : s.read w = x := by simp [State.read, hw]
    rw [this]
    exact sim_install_inl h v hv hn x (h.inl w x hw)
  | ptr b =>
    obtain ⟨blk, hblk⟩ := h.live w b hw
    simp only [hblk]
    have h1 := inv_incr h b blk hblk
    have hlive : (incr s b blk).heap b = some { blk with ref := blk.ref + 1 } := by simp [incr]
    have h2 := inv_setPtr h1 v b hv (by simpa [incr] using hn) _ hlive (bump_pos _ _)
    have hrw : s.read w = blk.val := read_ptr s w b blk hw hblk
    refine ⟨h2.congr (unbump_bump_zero _), ?_, ?_, ?_⟩
    · exact (read_setCell_ptr (incr s b blk) v b { blk with ref := blk.ref + 1 } hlive).trans hrw.symm
    · intro u hu
      have := read_setCell_other (incr s b blk) v u (.ptr b) hu
      simp only [setCell, incr] at this
      rw [this]; exact read_incr s b blk hblk u
    · intro u hu; simp [upd_other _ _ _ _ hu]

theorem sim_opCopy {s : State} (h : Inv s zeroE) (v w : Nat) (hv : v < nslots) (hvw : w ≠ v) :
    Sim s (ctorCopy (clear s v) v w) v (s.read w) := by
  have a := sim_clear h v hv
  have b := sim_ctorCopy a.inv v w hv hvw (clear_not_ptr s v)
  rw [a.frame w hvw] at b
  exact a.trans_same b

/-! ### operator=(const Variant&) -/

theorem sim_assignVar {s : State} (h : Inv s zeroE) (v w : Nat) (hv : v < nslots) :
    Sim s (assignVar s v w) v (s.read w) := by
  unfold assignVar
  by_cases hvw : v = w
  · simp only [hvw, if_true]
    exact ⟨h, rfl, fun _ _ => rfl, fun _ _ => rfl⟩
  · have hwv : w ≠ v := fun x => hvw x.symm
    simp only [hvw, if_false]
    cases hw : s.vars w with
    | null =>
      simp only
      have : s.read w = .null := by simp [State.read, hw]
      rw [this]
      have a := sim_clear h v hv
      exact a.trans_same (sim_install_inl a.inv v hv (clear_not_ptr s v) .null rfl)
    | inl x =>
      simp only
      have : s.read w = x := by simp [State.read, hw]
      rw [this]
      have a := sim_clear h v hv
      exact a.trans_same (sim_install_inl a.inv v hv (clear_not_ptr s v) x (h.inl w x hw))
    | ptr b =>
      obtain ⟨blk, hblk⟩ := h.live w b hw
      simp only [hblk]
      have h1 := inv_incr h b blk hblk
      have h2 := inv_clear h1 v hv
      obtain ⟨blk2, hblk2⟩ := live_of_extra h2 b (bump_pos _ _)
      have h3 := inv_setPtr h2 v b hv (clear_not_ptr _ v) blk2 hblk2 (bump_pos _ _)
      have hrw : s.read w = blk.val := read_ptr s w b blk hw hblk
      -- w still points to b after the clear of v, so blk2 carries the same payload
      have hw2 : (clear (incr s b blk) v).vars w = .ptr b := by
        rw [clear_vars, upd_other _ _ _ _ hwv]; exact hw
      have hval : blk2.val = blk.val := by
        have r1 := read_ptr _ w b blk2 hw2 hblk2
        have r2 := read_clear_other h1 v w hv hwv
        have r3 := read_incr s b blk hblk w
        rw [← r1, r2, r3, hrw]
      show Sim s (setCell (clear (incr s b blk) v) v (.ptr b)) v (s.read w)
      refine ⟨h3.congr (unbump_bump_zero _), ?_, ?_, ?_⟩
      · exact (read_setCell_ptr _ v b blk2 hblk2).trans (hval.trans hrw.symm)
      · intro u hu
        rw [read_setCell_other _ v u (.ptr b) hu, read_clear_other h1 v u hv hu]
        exact read_incr s b blk hblk u
      · intro u hu
        simp only [setCell, upd_other _ _ _ _ hu]
        rw [clear_vars, upd_other _ _ _ _ hu]; rfl

theorem sim_assignVal {s : State} (h : Inv s zeroE) (v : Nat) (hv : v < nslots) (x : Val) :
    Sim s (assignVal s v x) v x := by
  unfold assignVal
  have a := sim_clear h v hv
  by_cases hx : x.isBoxed = true
  · simp only [hx, if_true]
    exact a.trans_same (sim_install_boxed a.inv v hv (clear_not_ptr s v) x hx)
  · have hx' : x.isBoxed = false := by simpa using hx
    simp only [hx', Bool.false_eq_true, if_false]
    exact a.trans_same (sim_install_inl a.inv v hv (clear_not_ptr s v) x hx')

/-! ### the typed operator= -/

/-- a variable of a boxed type whose `ref` is not above 1 owns its block alone -/
theorem sole_owner {s : State} (h : Inv s zeroE) (v : Nat) (hb : (s.read v).isBoxed = true) (hr : ¬ s.refOf v > 1) :
    ∃ b blk, s.vars v = .ptr b ∧ s.heap b = some blk ∧ blk.ref = 1 := by
  obtain ⟨b, blk, hvb, hblk⟩ := boxed_is_ptr h v hb
  have := refOf_ptr s v b blk hvb hblk
  have := h.pos b blk hblk
  exact ⟨b, blk, hvb, hblk, by omega⟩

theorem sim_poke {s : State} (h : Inv s zeroE) (v b : Nat) (blk : Block) (hv : v < nslots) (hvb : s.vars v = .ptr b)
    (hblk : s.heap b = some blk) (hr : blk.ref = 1) (y : Val) (hy : y.isBoxed = true) :
    Sim s (poke s b blk y) v y :=
  ⟨inv_poke h b blk hblk y hy, read_poke_same s v b blk y hvb,
   fun w hw => read_poke_other h v w b blk y hv hvb hblk hr hw, fun _ _ => rfl⟩

theorem sim_setVal {s : State} (h : Inv s zeroE) (v : Nat) (hv : v < nslots) (x : Val) :
    Sim s (setVal s v x) v x := by
  unfold setVal
  by_cases hx : x.isBoxed = true
  · simp only [hx, if_true]
    by_cases hc : s.typeOf v ≠ x.type ∨ s.refOf v > 1
    · simp only [hc, if_true]
      have a := sim_clear h v hv
      exact a.trans_same (sim_install_boxed a.inv v hv (clear_not_ptr s v) x hx)
    · simp only [hc, if_false]
      have ht : s.typeOf v = x.type := by
        by_cases e : s.typeOf v = x.type
        · exact e
        · exact absurd (Or.inl e) hc
      have hrb : (s.read v).isBoxed = true := by
        rw [type_boxed]; have := (type_boxed x).1 hx; simp only [State.typeOf] at ht; omega
      obtain ⟨b, blk, hvb, hblk, hr⟩ := sole_owner h v hrb (fun r => hc (Or.inr r))
      simp only [hvb, hblk]
      exact sim_poke h v b blk hv hvb hblk hr x hx
  · have hx' : x.isBoxed = false := by simpa using hx
    simp only [hx', Bool.false_eq_true, if_false]
    by_cases hc : s.typeOf v ≠ x.type
    · rw [if_pos hc]
      have a := sim_clear h v hv
      exact a.trans_same (sim_install_inl a.inv v hv (clear_not_ptr s v) x hx')
    · rw [if_neg hc]
      have ht : s.typeOf v = x.type := by
        by_cases e : s.typeOf v = x.type
        · exact e
        · exact absurd e hc
      have hn : ∀ c, s.vars v ≠ .ptr c := by
        intro c hvc
        obtain ⟨blk, hblk⟩ := h.live v c hvc
        have hb := h.boxed c blk hblk
        have := read_ptr s v c blk hvc hblk
        simp only [State.typeOf, this] at ht
        have h7 := (type_boxed blk.val).1 hb
        have : x.isBoxed = true := by rw [type_boxed]; omega
        rw [hx'] at this; cases this
      exact sim_install_inl h v hv hn x hx'

/-! ### the mutable accessors -/

def isKind (k : Nat) : Prop := k = 7 ∨ k = 8 ∨ k = 9 ∨ k = 10

theorem coerce_boxed (ds : DblSem) (k : Nat) (x : Val) : (coerce ds k x).isBoxed = true := by
  unfold coerce; split
  · rfl
  · split
    · rfl
    · split <;> rfl

theorem coerce_same (ds : DblSem) (k : Nat) (x : Val) (hk : isKind k) (h : x.type = k) : coerce ds k x = x := by
  rcases hk with rfl | rfl | rfl | rfl <;> cases x <;> simp [Val.type] at h <;>
    simp [coerce, Val.asMap, Val.asList, Val.asArray, Val.toStr]

/-- after the accessor the variable owns a block alone and holds the coerced value -/
theorem sim_access (ds : DblSem) {s : State} (h : Inv s zeroE) (v : Nat) (hv : v < nslots) (k : Nat) (hk : isKind k) :
    Sim s (access ds s v k) v (coerce ds k (s.read v)) ∧
    ∃ b blk, (access ds s v k).vars v = .ptr b ∧ (access ds s v k).heap b = some blk ∧ blk.ref = 1 := by
  unfold access
  by_cases hc : s.typeOf v ≠ k ∨ s.refOf v > 1
  · simp only [hc, if_true]
    have hx := coerce_boxed ds k (s.read v)
    have h1 := inv_alloc h (coerce ds k (s.read v)) hx
    have h2 := inv_clear h1 v hv
    have hnew := alloc_heap_new s (coerce ds k (s.read v))
    obtain ⟨blk2, hblk2⟩ := live_of_extra h2 s.next (bump_pos _ _)
    have h3 := inv_setPtr h2 v s.next hv (clear_not_ptr _ v) blk2 hblk2 (bump_pos _ _)
    -- no variable points to the fresh block, so `clear` leaves it as allocated
    have hz : handles (clear (alloc s (coerce ds k (s.read v))).1 v).vars s.next = 0 := by
      unfold handles handlesN
      apply List.countP_eq_zero.2
      intro u _ hp
      have hp := (isPtrTo_iff _ _).1 hp
      rw [clear_vars] at hp
      by_cases eu : u = v
      · subst eu; simp at hp
      · rw [upd_other _ _ _ _ eu, alloc_vars] at hp
        obtain ⟨kk, hkk⟩ := h.live u s.next hp
        rw [h.fresh s.next (Nat.le_refl _)] at hkk; cases hkk
    have hcnt := h2.cnt s.next blk2 hblk2
    have href : blk2.ref = 1 := by rw [hcnt, hz]; simp [bump, zeroE]
    -- and its payload is the one allocated
    have hval : blk2.val = coerce ds k (s.read v) := by
      have hcl : (clear (alloc s (coerce ds k (s.read v))).1 v).heap s.next = some blk2 := hblk2
      unfold clear at hcl
      rw [alloc_vars] at hcl
      cases hcv : s.vars v with
      | null => simp [hcv, hnew] at hcl; rw [← hcl]
      | inl y => simp [hcv, hnew] at hcl; rw [← hcl]
      | ptr b0 =>
        obtain ⟨blk0, hblk0⟩ := h.live v b0 hcv
        have hne : s.next ≠ b0 := by
          intro e; rw [← e, h.fresh s.next (Nat.le_refl _)] at hblk0; cases hblk0
        have hne' : b0 ≠ s.next := fun e => hne e.symm
        have hb0 : (alloc s (coerce ds k (s.read v))).1.heap b0 = some blk0 := by
          simp [alloc, upd_other _ _ _ _ hne', hblk0]
        simp only [hcv, hb0] at hcl
        by_cases hr : blk0.ref = 1
        · simp [hr, upd_other _ _ _ _ hne, hnew] at hcl; rw [← hcl]
        · simp [hr, upd_other _ _ _ _ hne, hnew] at hcl; rw [← hcl]
    constructor
    · show Sim s (setCell (clear (alloc s (coerce ds k (s.read v))).1 v) v (.ptr (alloc s (coerce ds k (s.read v))).2)) v _
      refine ⟨h3.congr (unbump_bump_zero _), ?_, ?_, ?_⟩
      · exact (read_setCell_ptr _ v s.next blk2 hblk2).trans hval
      · intro u hu
        rw [alloc_snd, read_setCell_other _ v u _ hu, read_clear_other h1 v u hv hu]
        exact read_alloc h _ u
      · intro u hu
        simp only [setCell, upd_other _ _ _ _ hu]
        rw [clear_vars, upd_other _ _ _ _ hu, alloc_vars]
    · exact ⟨s.next, blk2, by simp [alloc_snd], hblk2, href⟩
  · simp only [hc, if_false]
    have ht : s.typeOf v = k := by
      by_cases e : s.typeOf v = k
      · exact e
      · exact absurd (Or.inl e) hc
    have hrb : (s.read v).isBoxed = true := by
      rw [type_boxed]; simp only [State.typeOf] at ht; rcases hk with rfl | rfl | rfl | rfl <;> omega
    obtain ⟨b, blk, hvb, hblk, hr⟩ := sole_owner h v hrb (fun r => hc (Or.inr r))
    exact ⟨⟨h, (coerce_same ds k _ hk ht).symm, fun _ _ => rfl, fun _ _ => rfl⟩, b, blk, hvb, hblk, hr⟩

/-- accessor followed by a write through the returned reference -/
theorem sim_access_poke (ds : DblSem) {s : State} (h : Inv s zeroE) (v : Nat) (hv : v < nslots) (k : Nat) (hk : isKind k)
    (f : Val → Option Val) (y : Val) (hf : f (coerce ds k (s.read v)) = some y) (hy : y.isBoxed = true) :
    ∃ s', pokeVar (access ds s v k) v f = some s' ∧ Sim s s' v y := by
  obtain ⟨a, b, blk, hvb, hblk, hr⟩ := sim_access ds h v hv k hk
  have hval : blk.val = coerce ds k (s.read v) := by
    rw [← a.rd]; exact (read_ptr _ v b blk hvb hblk).symm
  refine ⟨poke (access ds s v k) b blk y, ?_, ?_⟩
  · simp [pokeVar, hvb, hblk, hval, hf, poke]
  · exact a.trans_same (sim_poke a.inv v b blk hv hvb hblk hr y hy)

end Nstd.Variant
