import Nstd.Seq.PropsAlias
import Nstd.Generated.SeqList
/-
  Property C03, the tie by TRANSLATION for the loops of `List`: `Nstd.Generated.SeqList` holds
  `List::insert(const Iterator& position, const List& list)` with `list` = the list ITSELF (`l.insert(pos, l)`: the early return
  for an empty list, the first insertion, the while loop that walks the original items and skips the copies just inserted) and
  `List::clear()` (the loop that destroys every item and pushes it onto the free list, then the three resets), as tools/gen_seq.py
  reads them off the CURRENT include/nstd/List.hpp on every run.  Calls of `insert(position, value)` are the heap-model step
  `Ptr.insert` (= the translated body of that function on every represented heap: `gen_list_insert`).  The theorems hold for
  EVERY heap (no representation hypothesis): the translated control flow IS the heap model's `insertSelf` / `clear`, which
  `ptr_refines`, `self_insert_every_position` and `ptr_step` relate to the reference sequence.
-/
set_option linter.unusedSimpArgs false
set_option linter.unusedVariables false
namespace Nstd.Seq
open Nstd.Generated

/-- the translated while loop of `insert(position, *this)` is the model's `insertSelfLoop` (same fuel) -/
theorem gen_list_insert_self_loop (position pos result last : Nat) :
    ∀ (fuel : Nat) (h : Ptr.PList) (i : Nat),
      SeqList.insertSelf_loop1 fuel h position pos i (some last) result =
        (Ptr.insertSelfLoop pos result last fuel h i).map (fun q => (q, position, pos, last, some last, result)) := by
  intro fuel
  induction fuel with
  | zero => intro h i; rfl
  | succ f ih =>
    intro h i
    simp only [SeqList.insertSelf_loop1, Ptr.insertSelfLoop]
    by_cases hi : i = last
    · subst hi; simp
    · simp only [ne_eq, Option.some.injEq, hi, not_false_eq_true, if_true, if_false]
      cases hn : h.next i with
      | none => rfl
      | some n =>
        simp only []
        by_cases hr : n = result
        · simp only [hr, if_true]
          cases hins : Ptr.insert h pos (h.val pos) with
          | none => rfl
          | some r => simp only [ih]
        · simp only [hr, if_false]
          cases hins : Ptr.insert h pos (h.val n) with
          | none => rfl
          | some r => simp only [ih]

/-- The translated `l.insert(position, l)` is the heap model's `insertSelf` — for every heap and every position; the fuel the
    model uses (`_size + 1`) is the fuel of the translated loop. -/
theorem gen_list_insert_self (h : Ptr.PList) (pos : Nat) :
    SeqList.insertSelf (h.size + 1) h pos = Ptr.insertSelf h pos := by
  unfold SeqList.insertSelf Ptr.insertSelf
  cases hl : h.prev 0 with
  | none => simp
  | some last =>
    simp only [if_false, Option.some_ne_none, reduceCtorEq]
    cases hins : Ptr.insert h pos (h.val h.begin) with
    | none => rfl
    | some r =>
      obtain ⟨h1, result⟩ := r
      simp only [gen_list_insert_self_loop]
      cases Ptr.insertSelfLoop pos result last (h.size + 1) h1 h.begin <;> rfl

/-- the translated loop of `clear()` is the model's `clearLoop` (the translated loop tests the fuel before the loop condition,
    hence one more unit of fuel) -/
theorem gen_list_clear_loop : ∀ (fuel : Nat) (h : Ptr.PList) (i : Nat),
    SeqList.clear_loop1 (fuel + 1) h i 0 = (Ptr.clearLoop h fuel i).map (fun q => (q, 0, 0)) := by
  intro fuel
  induction fuel with
  | zero =>
    intro h i
    cases i with
    | zero => simp [SeqList.clear_loop1, Ptr.clearLoop]
    | succ k =>
      simp only [SeqList.clear_loop1, Ptr.clearLoop]
      simp
      cases h.next (k + 1) <;> rfl
  | succ f ih =>
    intro h i
    cases i with
    | zero => simp [SeqList.clear_loop1, Ptr.clearLoop]
    | succ k =>
      rw [SeqList.clear_loop1, Ptr.clearLoop]
      simp only [ne_eq, Nat.add_eq_zero_iff, Nat.succ_ne_self, and_false, not_false_eq_true, if_true]
      cases hn : h.next (k + 1) with
      | none => rfl
      | some n => simp only [ih]

/-- The translated `List::clear()` is the heap model's `clear` (fuel `_size + 1`). -/
theorem gen_list_clear (h : Ptr.PList) : SeqList.clear (h.size + 1) h = Ptr.clear h := by
  unfold SeqList.clear Ptr.clear
  simp only [gen_list_clear_loop]
  cases Ptr.clearLoop h h.size h.begin <;> rfl

/-- `self_insert_every_position` for the TRANSLATED code: `l.insert(it, l)` as written in the header, with `it` at ANY position
    `k ≤ size` of any represented chain, terminates, follows no null pointer, leaves the chain `xs.take k ++ cs ++ xs.drop k`
    (the `size` copies in one piece in front of `*it`, the old items at their addresses), the values
    `vals.take k ++ vals ++ vals.drop k`, and returns the first copy (position `k`). -/
theorem gen_self_insert_every_position (p : Ptr.PList) (xs fs : List Nat) (s : LState) (h : Ptr.Rep p xs fs s)
    (k : Nat) (hk : k ≤ xs.length) :
    ∃ p' r cs fs' s', SeqList.insertSelf (p.size + 1) p ((xs.drop k).headD 0) = some (p', r) ∧
      Ptr.Rep p' (xs.take k ++ cs ++ xs.drop k) fs' s' ∧
      s'.vals = s.vals.take k ++ s.vals ++ s.vals.drop k ∧
      cs.length = xs.length ∧
      Ptr.walk p' p'.begin k = some r ∧
      (xs = [] → r = 0) ∧ (xs ≠ [] → cs.head? = some r) := by
  rw [gen_list_insert_self]
  exact self_insert_every_position p xs fs s h k hk

end Nstd.Seq
