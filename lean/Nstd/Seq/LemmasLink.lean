import Nstd.Seq.LemmasPtrSwap
import Nstd.Generated.SeqLink
/-
  Facts about heaps that represent a chain, needed to compare the TRANSLATED relinking code (Generated/SeqLink.lean)
  with the hand-written heap-model steps: which addresses can coincide.
-/
namespace Nstd.Seq.Ptr

/-- the predecessor field of the item at position `k` (the sentinel for `k = length`) is the last item in front of it -/
theorem rep_prev_pos (p : PList) (xs fs : List Nat) (s : LState) (h : Rep p xs fs s) (k : Nat) (_hk : k ≤ xs.length) :
    p.prev ((xs.drop k).headD 0) = lastOr (xs.take k) none := by
  have hseg := h.seg
  rw [← List.take_append_drop k xs, seg_append] at hseg
  cases hd : xs.drop k with
  | nil =>
    have : xs.take k = xs := by
      have := List.take_append_drop k xs
      rw [hd, List.append_nil] at this; exact this
    rw [this]; exact h.endp
  | cons y b =>
    rw [hd] at hseg
    exact hseg.2.2.1

/-- the address designated by position `k`: an item of the chain or the sentinel -/
theorem pos_mem (xs : List Nat) (k : Nat) : (xs.drop k).headD 0 ∈ xs ∨ (xs.drop k).headD 0 = 0 := by
  cases hd : xs.drop k with
  | nil => right; rfl
  | cons y b => left; exact List.mem_of_mem_drop (by rw [hd]; simp)

/-- everything the relinking of an insertion in front of position `k` can touch is pairwise distinct: the head `f` of
    the free list, the item `pos` at position `k` (or the sentinel) and its predecessor `q` -/
theorem insert_distinct (p : PList) (xs fs : List Nat) (f : Nat) (s : LState) (h : Rep p xs (f :: fs) s) (k : Nat)
    (hk : k ≤ xs.length) :
    p.free = some f ∧ f ≠ 0 ∧ f ≠ (xs.drop k).headD 0 ∧
    ∀ q, p.prev ((xs.drop k).headD 0) = some q → q ≠ f ∧ q ≠ (xs.drop k).headD 0 ∧ q ≠ 0 := by
  have hf0 : f ≠ 0 := freechain_ne_zero p (f :: fs) _ h.fr f (by simp)
  have hfx : f ∉ xs := fun hm => (List.nodup_append.1 h.nd).2.2 f hm f (by simp) rfl
  have hx0 : ∀ x ∈ xs, x ≠ 0 := seg_ne_zero p xs 0 none h.seg
  refine ⟨h.fr.1, hf0, ?_, ?_⟩
  · rcases pos_mem xs k with hm | e
    · exact fun e => hfx (e ▸ hm)
    · rw [e]; exact hf0
  · intro q hq
    rw [rep_prev_pos p xs (f :: fs) s h k hk] at hq
    have hqt : q ∈ xs.take k := Ptr2.lastOr_mem _ _ hq
    have hqx : q ∈ xs := List.mem_of_mem_take hqt
    refine ⟨fun e => hfx (e ▸ hqx), ?_, hx0 q hqx⟩
    intro e
    cases hd : xs.drop k with
    | nil => rw [hd] at e; exact hx0 q hqx e
    | cons y b =>
      rw [hd] at e
      simp only [List.headD_cons] at e
      have nd : (xs.take k ++ xs.drop k).Nodup := by rw [List.take_append_drop]; exact (List.nodup_append.1 h.nd).1
      exact (List.nodup_append.1 nd).2.2 q hqt y (by rw [hd]; simp) e

end Nstd.Seq.Ptr

namespace Nstd.Seq.Ptr

/-- everything the relinking of `remove(item)` can touch: successor `n`, predecessor `q`; all distinct from `item` and
    from each other -/
theorem remove_distinct (p : PList) (a b fs : List Nat) (item : Nat) (s : LState) (h : Rep p (a ++ item :: b) fs s) :
    p.next item = some (b.headD 0) ∧ p.prev item = lastOr a none ∧ item ≠ b.headD 0 ∧ item ≠ 0 ∧
    ∀ q, lastOr a none = some q → q ≠ item ∧ q ≠ b.headD 0 ∧ q ≠ 0 := by
  have hseg := h.seg
  rw [seg_append] at hseg
  obtain ⟨_, i_nz, i_prev, i_next, _⟩ := hseg
  have xs_nz : ∀ x ∈ a ++ item :: b, x ≠ 0 := seg_ne_zero p _ 0 none h.seg
  have nd_xs : (a ++ item :: b).Nodup := (List.nodup_append.1 h.nd).1
  have nd_ib : (item :: b).Nodup := (List.nodup_append.1 nd_xs).2.1
  have i_notin_b : item ∉ b := (List.nodup_cons.1 nd_ib).1
  have a_disj : ∀ x ∈ a, x ∉ item :: b := fun x hx hm => (List.nodup_append.1 nd_xs).2.2 x hx x hm rfl
  have n_ne_i : item ≠ b.headD 0 := by
    cases b with
    | nil => exact i_nz
    | cons y b' => intro e; apply i_notin_b; simp only [List.headD_cons] at e; rw [e]; simp
  refine ⟨i_next, i_prev, n_ne_i, i_nz, ?_⟩
  intro q hq
  have hqa : q ∈ a := Ptr2.lastOr_mem a q hq
  have hq0 : q ≠ 0 := xs_nz q (by simp [hqa])
  refine ⟨fun e => a_disj q hqa (by rw [e]; simp), ?_, hq0⟩
  intro e
  cases b with
  | nil => exact hq0 e
  | cons y b' => simp only [List.headD_cons] at e; exact a_disj q hqa (by rw [e]; simp)

theorem plist_ext (a b : PList) (h1 : ∀ z, a.val z = b.val z) (h2 : ∀ z, a.prev z = b.prev z)
    (h3 : ∀ z, a.next z = b.next z) (h4 : a.begin = b.begin) (h5 : a.size = b.size) (h6 : a.free = b.free)
    (h7 : a.nblocks = b.nblocks) (h8 : a.bk = b.bk) : a = b := by
  cases a; cases b
  simp only [PList.mk.injEq]
  exact ⟨funext h1, funext h2, funext h3, h4, h5, h6, h7, h8⟩

end Nstd.Seq.Ptr

namespace Nstd.Seq.Ptr2

theorem heap_ext (a b : Heap) (h1 : ∀ z, a.val z = b.val z) (h2 : ∀ z, a.prev z = b.prev z)
    (h3 : ∀ z, a.next z = b.next z) : a = b := by
  cases a; cases b
  simp only [Heap.mk.injEq]
  exact ⟨funext h1, funext h2, funext h3⟩

end Nstd.Seq.Ptr2

namespace Nstd.Seq

/-- pointwise comparison of two stacks of `Ptr.set` updates; the disequalities of the addresses are in the context -/
macro "sets_eq" : tactic => `(tactic| (intro z; simp only [Ptr.set]; (repeat' split) <;> simp_all))

/-- `some (heap, r) = some (heap', r')` / `some heap = some heap'`, field by field, insensitive to the order of independent
    stores -/
macro "heap_eq" : tactic => `(tactic|
  first
  | rfl
  | (refine congrArg some (Prod.ext (Ptr.plist_ext _ _ ?_ ?_ ?_ ?_ ?_ ?_ ?_ ?_) ?_) <;> first | rfl | sets_eq | simp_all)
  | (refine congrArg some (Ptr.plist_ext _ _ ?_ ?_ ?_ ?_ ?_ ?_ ?_ ?_) <;> first | rfl | sets_eq | simp_all)
  | (refine congrArg some (Prod.ext (Ptr2.heap_ext _ _ ?_ ?_ ?_) (Prod.ext ?_ ?_)) <;> first | rfl | sets_eq | simp_all))

end Nstd.Seq
