import Nstd.Seq.LemmasStep
import Nstd.Seq.LemmasNodes
import Nstd.Seq.LemmasPtrSort
import Nstd.Seq.LemmasRaw
import Nstd.Seq.LemmasPtrSwap
import Nstd.Generated.SeqConst
/-
  Property C03: List, Array and PoolList hold exactly the reference sequence; List::sort leaves an
  ascending permutation.

  `State`/`step`/`run` (Model.lean) is the model of the three containers (two variables of each kind),
  `Abs`/`Spec.step`/`Spec.run` (Spec.lean) the reference sequences (plain `List Int` and core list
  functions), `absS` forgets node ids, free lists, capacities and storage.
  Only the property theorems live here; helper lemmas are in Lemmas*.lean.
-/
set_option linter.unusedSectionVars false
namespace Nstd.Seq

/- Everything below holds for EVERY rounding mask of `Array::reserve` (class `ArrCfg`; `reserve_policy` needs the form
   `2^j - 1`) and for every number of items per block `≥ 1` of List (`lk`) and PoolList (`pk`): the constants read off
   the current sources (Generated/SeqConst.lean) only instantiate them (`mask_is_pow2_minus_one`, `block_items_pos`). -/
variable [ArrCfg]

/-! ### Refinement: contents and returned iterators / references, for all histories -/

/-- After ANY history of operations (append, prepend, positional insert of a value or a list, removal by
    iterator / index / value, removeFront/Back, resize, reserve, clear, swap, copy construction, assignment,
    sort, find, ==, front/back/[]) on the two List, two PoolList and two Array variables, the containers
    hold exactly the reference sequences; operations whose C++ precondition fails are exactly those the
    reference rejects. -/
theorem refines_from (ops : List Op) : ∀ (s : State), Inv s →
    absS (run s ops) = Spec.run (absS s) ops ∧ trace s ops = Spec.trace (absS s) ops := by
  induction ops with
  | nil => intro s _; exact ⟨rfl, rfl⟩
  | cons op ops ih =>
    intro s h
    obtain ⟨e, hi⟩ := step_refines s op h
    unfold run Spec.run trace Spec.trace
    cases hq : step s op with
    | none =>
      rw [hq] at e
      simp only [obsS, Option.map_none] at e
      rw [← e]
      exact ⟨(ih s h).1, by rw [(ih s h).2]⟩
    | some r =>
      rw [hq] at e
      simp only [obsS, Option.map_some] at e
      rw [← e]
      have := ih r.st (hi r hq)
      exact ⟨this.1, by simp only [this.2]⟩

/-- contents after every history starting from the freshly constructed containers -/
theorem refines (lk pk : Nat) (ops : List Op) : absS (run (State.init lk pk) ops) = Spec.run {} ops :=
  (refines_from ops (State.init lk pk) ⟨AState.ok_init, AState.ok_init⟩).1

/-- every value returned along every history (iterator positions, references, front/back/[] values,
    `==` results; `none` for rejected operations) is the one the reference returns -/
theorem refines_returns (lk pk : Nat) (ops : List Op) : trace (State.init lk pk) ops = Spec.trace {} ops :=
  (refines_from ops (State.init lk pk) ⟨AState.ok_init, AState.ok_init⟩).2

/-- what the reference says about a returned insert iterator: it designates the inserted element … -/
theorem insert_returns_inserted (xs : List Int) (pos : Nat) (x : Int) (ys : List Int) (r : Option Int)
    (h : Spec.insert xs pos [x] = some (ys, r)) :
    r = some (pos : Int) ∧ ys[pos]? = some x ∧ ys.length = xs.length + 1 ∧
      ys.take pos = xs.take pos ∧ ys.drop (pos + 1) = xs.drop pos := by
  unfold Spec.insert at h
  by_cases c : pos ≤ xs.length
  · simp only [c, if_true, Option.some.injEq, Prod.mk.injEq] at h
    obtain ⟨h1, h2⟩ := h
    subst h1
    have hm : min pos xs.length = pos := by omega
    refine ⟨h2.symm, ?_, ?_, ?_, ?_⟩
    · simp [hm]
    · simp; omega
    · simp [hm]
    · simp [List.drop_append, hm]
  · simp [c] at h

/-- … and about a returned remove iterator: it designates the successor of the removed element
    (`end()` = the new length when the last element was removed) -/
theorem remove_returns_successor (xs : List Int) (pos : Nat) (ys : List Int) (r : Option Int)
    (h : Spec.remove xs pos = some (ys, r)) :
    r = some (pos : Int) ∧ ys[pos]? = xs[pos + 1]? ∧ ys.length + 1 = xs.length ∧
      ys.take pos = xs.take pos := by
  unfold Spec.remove at h
  by_cases c : pos < xs.length
  · simp only [c, if_true, Option.some.injEq, Prod.mk.injEq] at h
    obtain ⟨h1, h2⟩ := h
    subst h1
    refine ⟨h2.symm, ?_, ?_, ?_⟩
    · simp [List.getElem?_eraseIdx]
    · rw [List.length_eraseIdx]; simp [c]; omega
    · have hm : min pos xs.length = pos := by omega
      rw [List.eraseIdx_eq_take_drop_succ, List.take_append]; simp [hm, List.take_take]
  · simp [c] at h

/-! ### List::sort: the modelled in-place quicksort, for EVERY input list -/

/-- The quicksort of List.hpp (pivot = first value, three-pointer walk, value swaps, recursion on both
    parts) terminates within its recursion fuel on every input, and its result is a permutation of the
    input in non-descending order — for every element type whose `<` is asymmetric and transitive
    (a strict partial order suffices; for incomparable elements "ascending" means "no later element is
    smaller than an earlier one"). -/
theorem sort_total {α : Type} [Inhabited α] (lt : α → α → Bool)
    (hasymm : ∀ x y, lt x y = true → lt y x = false)
    (htrans : ∀ x y z, lt x y = true → lt y z = true → lt x z = true) (vs : List α) :
    ∃ r, sortVals lt vs = some r :=
  let ⟨r, e, _⟩ := sortVals_spec lt hasymm htrans vs; ⟨r, e⟩

theorem sort_perm {α : Type} [Inhabited α] (lt : α → α → Bool)
    (hasymm : ∀ x y, lt x y = true → lt y x = false)
    (htrans : ∀ x y z, lt x y = true → lt y z = true → lt x z = true) (vs r : List α)
    (h : sortVals lt vs = some r) : r.Perm vs := by
  obtain ⟨r', e, p, _⟩ := sortVals_spec lt hasymm htrans vs
  rw [h] at e; cases e; exact p

/- Note on the totalised read `rd m i = m.getD i default` of Sort.lean: `sort_perm`/`sort_sorted` alone would also hold
   for an algorithm reading `default` out of range; that no access leaves `left … right` is `sort_frame` (via
   `qsortF_spec`), with segment-checked `Option`-valued reads `sort_checked_reads` (PropsSort.lean, every element type and
   comparison) and the heap-level `ptr_sort` / `ptr_sort_comparator` ("follows no null pointer"). -/
theorem sort_sorted {α : Type} [Inhabited α] (lt : α → α → Bool)
    (hasymm : ∀ x y, lt x y = true → lt y x = false)
    (htrans : ∀ x y z, lt x y = true → lt y z = true → lt x z = true) (vs r : List α)
    (h : sortVals lt vs = some r) : r.Pairwise (fun a b => lt b a = false) := by
  obtain ⟨r', e, _, s⟩ := sortVals_spec lt hasymm htrans vs
  rw [h] at e; cases e; exact s

/-- instance used by the correspondence run: `List<Tagged>` (`<` compares the key only, a strict partial order on
    the pairs).  For EVERY input the model's sort terminates, permutes the (key, tag) pairs and leaves the keys
    ascending; which of several equal keys comes first is whatever the swap sequence produces — that arrangement is
    compared with the implementation's on every run. -/
theorem sort_tagged (vs : List (Int × Int)) :
    ∃ r, sortVals ltKey vs = some r ∧ r.Perm vs ∧ r.Pairwise (fun a b => a.1 ≤ b.1) := by
  obtain ⟨r, e, p, s⟩ := sortVals_spec ltKey
    (by intro x y h; simp only [ltKey, decide_eq_true_eq, decide_eq_false_iff_not] at *; omega)
    (by intro x y z h1 h2; simp only [ltKey, decide_eq_true_eq] at *; omega) vs
  exact ⟨r, e, p, s.imp (by intro a b h; simp only [ltKey, decide_eq_false_iff_not] at h; omega)⟩

/-- the partition and the recursion only ever touch the nodes `left … right` (frame), hence stay inside
    the list: everything outside the segment is unchanged and the length is preserved -/
theorem sort_frame {α : Type} [Inhabited α] (lt : α → α → Bool)
    (hasymm : ∀ x y, lt x y = true → lt y x = false)
    (htrans : ∀ x y z, lt x y = true → lt y z = true → lt x z = true)
    (f : Nat) (m m' : List α) (left right : Nat) (h1 : left < right) (h2 : right < m.length)
    (h3 : right - left < f) (h : qsortF lt f m left right = some m') :
    m'.length = m.length ∧ ∀ k, k < left ∨ right < k → rd m' k = rd m k := by
  obtain ⟨m2, e, w, _⟩ := qsortF_spec lt hasymm htrans f m left right h1 h2 h3
  rw [h] at e; cases e
  exact ⟨w.1, fun k hk => w.2.1 k (by omega)⟩

/-- `List<int>::sort()` of the model: the list afterwards holds the ascending permutation of its values,
    in the same nodes (ids and free list untouched) -/
theorem lsort_int (s : LState) :
    ∃ r, s.sort = some r ∧ r.st.vals = s.vals.mergeSort (fun a b => decide (a ≤ b)) ∧
      r.st.ids = s.ids ∧ r.st.free = s.free ∧ r.st.nblocks = s.nblocks ∧
      r.st.vals.Perm s.vals ∧ r.st.vals.Pairwise (· ≤ ·) := by
  have h := LState.sort_refines s
  unfold LState.sort at h ⊢
  rw [sortVals_int] at h ⊢
  simp only [obsL, Option.map_some, Spec.sort, Option.some.injEq, Prod.mk.injEq, and_true] at h
  refine ⟨_, rfl, h, ?_, rfl, rfl, ?_, ?_⟩
  · have : ∀ (ns : List (Nat × Int)) (vs : List Int), (LState.setVals ns vs).map (·.1) = ns.map (·.1) := by
      intro ns
      induction ns with
      | nil => intro vs; cases vs <;> simp [LState.setVals]
      | cons n ns ih =>
        intro vs
        obtain ⟨id, x⟩ := n
        cases vs with
        | nil => simp [LState.setVals]
        | cons v vs => simp [LState.setVals, ih]
    exact this _ _
  · rw [h]; exact List.mergeSort_perm _ _
  · rw [h]
    have := List.pairwise_mergeSort (le := fun a b : Int => decide (a ≤ b))
      (by intro a b c h1 h2; simp only [decide_eq_true_eq] at *; omega)
      (by intro a b; simp only [Bool.or_eq_true, decide_eq_true_eq]; omega) s.vals
    exact this.imp (by intro a b h; simpa using h)

/-! ### Nodes of List / PoolList -/

/-- In every reachable state of every List and PoolList variable the items of the chain and of the free
    list are pairwise distinct, lie inside the allocated blocks and are together exactly the `bk * nblocks`
    items of the blocks: insertion never hands out an item that is still linked, removal/clear never lose
    one (this is what makes the chain-of-(id, value) abstraction of the model sound). -/
theorem nodes_inv (lk pk : Nat) (hl : 0 < lk) (hp : 0 < pk) (ops : List Op) (c : LState)
    (hc : c = (run (State.init lk pk) ops).l0 ∨ c = (run (State.init lk pk) ops).l1 ∨
          c = (run (State.init lk pk) ops).p0 ∨ c = (run (State.init lk pk) ops).p1) :
    (c.ids ++ c.free).Nodup ∧ (∀ id ∈ c.ids ++ c.free, id < c.bk * c.nblocks) ∧
      (c.ids ++ c.free).length = c.bk * c.nblocks := by
  have h := run_nodes_inv ops (State.init lk pk)
    ⟨LState.linv_init lk hl, LState.linv_init lk hl, LState.linv_init pk hp, LState.linv_init pk hp⟩
  rcases hc with e | e | e | e <;> subst e
  · exact ⟨h.1.nodup, h.1.bound, h.1.count⟩
  · exact ⟨h.2.1.nodup, h.2.1.bound, h.2.1.count⟩
  · exact ⟨h.2.2.1.nodup, h.2.2.1.bound, h.2.2.1.count⟩
  · exact ⟨h.2.2.2.nodup, h.2.2.2.bound, h.2.2.2.count⟩

/-! ### Elements never move — the theorems meant to be cited for C05 (import `Nstd.Seq.Props`, namespace `Nstd.Seq`):
    chain level `never_move_insert`, `never_move_insertList`, `never_move_remove`, `never_move_swap`, `lsort_int`
    (sort keeps the nodes, only values move); heap level (addresses) `ptr_insert_returns`, `ptr_remove_returns`,
    `ptr_sort`, `ptr_swap`; no node is handed out twice: `nodes_inv`.
    (chain model; the heap-level versions are `ptr_insert_returns` / `ptr_remove_returns`,
    where the surviving items keep their addresses) -/

/-- `insert`: every item that was in the list stays in its node (same id, same value, same relative order); the
    new element lives in a node that was not part of the list -/
theorem never_move_insert (s : LState) (hs : LState.LInv s) (pos : Nat) (v : Int) (r : Res LState)
    (h : s.insert pos v = some r) :
    ∃ id, id ∉ s.ids ∧ r.st.nodes = s.nodes.take pos ++ (id, v) :: s.nodes.drop pos := by
  unfold LState.insert at h
  by_cases c : pos ≤ s.size
  · simp only [c, if_true, Option.some.injEq] at h
    rw [← h]
    have hnd := hs.nodup
    unfold LState.pool at hnd
    cases hf : s.free with
    | cons f rest =>
      refine ⟨f, ?_, by simp [LState.insertRaw, LState.allocNode, hf]⟩
      intro hm
      rw [hf] at hnd
      exact (List.nodup_append.1 hnd).2.2 f hm f List.mem_cons_self rfl
    | nil =>
      refine ⟨s.bk * s.nblocks + (s.bk - 1), ?_, by simp [LState.insertRaw, LState.allocNode, hf]⟩
      intro hm
      have := hs.bound (s.bk * s.nblocks + (s.bk - 1)) (by unfold LState.pool; simp [hm])
      omega
  · simp [c] at h

/-- `insert(pos, list)` / `append(list)` / `prepend(list)`: the old items survive in their nodes and in order -/
theorem never_move_insertList (s : LState) (pos : Nat) (vs : List Int) (r : Res LState)
    (h : s.insertList pos vs = some r) :
    s.nodes.Sublist r.st.nodes ∧ r.st.nodes.length = s.nodes.length + vs.length := by
  have key : ∀ (vs : List Int) (s : LState) (pos : Nat),
      s.nodes.Sublist (s.insertMany pos vs).1.nodes ∧ (s.insertMany pos vs).1.nodes.length = s.nodes.length + vs.length := by
    intro vs
    induction vs with
    | nil => intro s pos; exact ⟨List.Sublist.refl _, rfl⟩
    | cons v vs ih =>
      intro s pos
      obtain ⟨i1, i2⟩ := ih (s.insertRaw pos v).1 (pos + 1)
      have hn : (s.insertRaw pos v).1.nodes = s.nodes.take pos ++ ((LState.allocNode s).1, v) :: s.nodes.drop pos := by
        simp [LState.insertRaw, LState.allocNode_nodes]
      have hsub : s.nodes.Sublist (s.insertRaw pos v).1.nodes := by
        rw [hn]
        conv => lhs; rw [← List.take_append_drop pos s.nodes]
        exact List.Sublist.append (List.Sublist.refl _) (List.sublist_cons_self _ _)
      have hlen : (s.insertRaw pos v).1.nodes.length = s.nodes.length + 1 := by
        rw [hn]; simp; omega
      have e : (s.insertMany pos (v :: vs)).1 = ((s.insertRaw pos v).1.insertMany (pos + 1) vs).1 := by
        simp [LState.insertMany]
      rw [e]
      exact ⟨hsub.trans i1, by rw [i2, hlen]; simp; omega⟩
  unfold LState.insertList at h
  by_cases c : pos ≤ s.size
  · simp only [c, if_true, Option.some.injEq] at h
    rw [← h]; exact key vs s pos
  · simp [c] at h

/-- `remove(iterator)`: exactly the designated node leaves the chain, every other item stays in its node -/
theorem never_move_remove (s : LState) (pos : Nat) (r : Res LState) (h : s.remove pos = some r) :
    r.st.nodes = s.nodes.eraseIdx pos ∧ ∃ id x, s.nodes[pos]? = some (id, x) ∧ r.st.free = id :: s.free := by
  unfold LState.remove at h
  cases hq : s.nodes[pos]? with
  | none => simp [hq] at h
  | some n =>
    obtain ⟨id, x⟩ := n
    simp only [hq, Option.some.injEq] at h
    rw [← h]
    exact ⟨by simp [List.eraseIdx_eq_take_drop_succ], id, x, rfl, rfl⟩

/-- `swap` hands the two chains over as they are (nodes, free lists and blocks): no element is copied or moved -/
theorem never_move_swap (s : State) (v : Nat) (hv : v < 2) (r : Res State) (h : step s (.lswap v) = some r) :
    r.st.getL v = s.getL (1 - v) ∧ r.st.getL (1 - v) = s.getL v := by
  simp only [step, hv, if_true, Option.some.injEq] at h
  rw [← h]
  have : v = 0 ∨ v = 1 := by omega
  rcases this with e | e <;> subst e <;> simp [State.getL, State.setL]

/-! ### Pointer level: the relinking code of List.hpp -/

/-- `insert(position, value)`, `insert(position, list)` (the loop inserting in front of one fixed item),
    `insert(position, *this)` (the walk over the original items that skips the copies just inserted),
    `remove(iterator)`, `remove(value)` (with the `find` loop), `clear()` and `sort()` (the quicksort with item pointers,
    `ptr->next` heap reads and the `ptr2 != right` pointer comparison) written statement by statement over a heap
    of items with `value/prev/next` fields, the end sentinel, `_begin`, `freeItem` and 4-item blocks
    (PtrModel.lean), run on ANY history (iterators obtained by walking `next` from `begin()` as a client does):
    the heap always represents the state of the chain model after the same history — the `next` links from
    `_begin` and the `prev` links from the sentinel run through exactly the model's nodes in order, the first
    item has a null `prev`, the free list (linked through `prev`) is the model's free list, no item is in
    both.  (Both `run`s skip a rejected operation; that the two models reject exactly the same operations —
    no null `next` followed, no fuel exhausted on the heap where the chain model accepts — is `ptr_step` and
    `ptr_same_rejections` below.) -/
theorem ptr_refines (k : Nat) (hk : 0 < k) (ops : List Ptr.POp) :
    ∃ xs fs, Ptr.Rep (Ptr.run (Ptr.init k) ops) xs fs (Ptr.runChain { bk := k } ops) :=
  Ptr.run_rep ops (Ptr.init k) [] [] { bk := k } (Ptr.rep_init k hk)

/-- One operation, the sharp form: from related states the heap model and the chain model either BOTH reject the
    operation or BOTH accept it and end in related states (in particular the heap-level loops never follow a null
    pointer and never run out of fuel on an operation the chain model accepts). -/
theorem ptr_step (p : Ptr.PList) (xs fs : List Nat) (s : LState) (h : Ptr.Rep p xs fs s) (op : Ptr.POp) :
    match Ptr.step p op, Ptr.stepChain s op with
    | none, none => True
    | some p', some s' => ∃ xs' fs', Ptr.Rep p' xs' fs' s'
    | _, _ => False := by
  rcases Ptr.step_rep p xs fs s h op with ⟨e1, e2⟩ | ⟨p', s', xs', fs', e1, e2, h'⟩
  · rw [e1, e2]; trivial
  · rw [e1, e2]; exact ⟨xs', fs', h'⟩

/-- along every history the heap model and the chain model reject exactly the same operations -/
theorem ptr_same_rejections (k : Nat) (hk : 0 < k) (ops : List Ptr.POp) :
    Ptr.accepted (Ptr.init k) ops = Ptr.acceptedChain { bk := k } ops :=
  Ptr.accepted_rep ops (Ptr.init k) [] [] { bk := k } (Ptr.rep_init k hk)

/-- pointer level: `insert` returns the new item, which is the `k`-th item of the new chain, in front of the
    item the iterator designated -/
theorem ptr_insert_returns (p : Ptr.PList) (xs fs : List Nat) (s : LState) (h : Ptr.Rep p xs fs s)
    (k : Nat) (hk : k ≤ xs.length) (v : Int) :
    ∃ p' item fs', Ptr.insert p ((xs.drop k).headD 0) v = some (p', item) ∧
      Ptr.Rep p' (xs.take k ++ item :: xs.drop k) fs' (s.insertRaw k v).1 ∧
      (xs.take k ++ item :: xs.drop k)[k]? = some item :=
  Ptr.insert_rep p xs fs s h k hk v

/-- pointer level: `remove` returns `item->next`, the successor of the removed item (the sentinel `0` when the
    last item is removed), and the item becomes the head of the free list -/
theorem ptr_remove_returns (p : Ptr.PList) (a b fs : List Nat) (item : Nat) (s : LState)
    (h : Ptr.Rep p (a ++ item :: b) fs s) :
    ∃ p', Ptr.remove p item = some (p', b.headD 0) ∧
      Ptr.Rep p' (a ++ b) (item :: fs)
        { s with nodes := s.nodes.take a.length ++ s.nodes.drop (a.length + 1), free := (item - 1) :: s.free } :=
  Ptr.unlink_rep p a b fs item s h

/-- pointer level: `sort()` terminates within its fuel, follows no null pointer, leaves all links, `_begin`,
    the free list and the blocks untouched (the same chain `xs`, the same free list `fs`) and leaves the
    values along the chain as the ascending permutation of the previous ones -/
theorem ptr_sort (p : Ptr.PList) (xs fs : List Nat) (s : LState) (h : Ptr.Rep p xs fs s) :
    ∃ p' s', Ptr.sortP ltInt p = some p' ∧ Ptr.Rep p' xs fs s' ∧
      xs.map p'.val = (xs.map p.val).mergeSort (fun a b => decide (a ≤ b)) := by
  obtain ⟨p', r, e1, e2, e3⟩ := Ptr.sortP_rep p xs fs s h
  refine ⟨p', r.st, e1, e3, ?_⟩
  obtain ⟨r', f1, f2, _⟩ := lsort_int s
  rw [e2] at f1; cases f1
  rw [← Ptr.vals_of_view p' xs r.st.vals (Ptr.view_of_rep p' xs fs r.st e3),
    ← Ptr.vals_of_view p xs s.vals (Ptr.view_of_rep p xs fs s h)]
  exact f2

/-- `List::swap` / `PoolList::swap` with both lists in ONE shared heap (distinct sentinel addresses `eA ≠ eB`,
    disjoint chains, PtrSwap.lean): after `A.swap(B)` the object `A` owns exactly the chain and the free list that `B`
    owned and vice versa — the last item of each chain now points to the sentinel of its new owner, the first has a
    null `prev`, `_begin`, `_size`, `freeItem` and `blocks` are exchanged — and no item was copied, moved or
    modified (`val` untouched, same addresses in the same order).  For all heaps, chains and free lists. -/
theorem ptr_swap (H : Ptr2.Heap) (eA eB : Nat) (A B : Ptr2.Hdr) (xsA fsA xsB fsB : List Nat)
    (hne : eA ≠ eB) (nd : (xsA ++ xsB).Nodup)
    (hs : ∀ x ∈ xsA ++ fsA ++ xsB ++ fsB, x ≠ eA ∧ x ≠ eB)
    (ha : Ptr2.RepE H A eA xsA fsA) (hb : Ptr2.RepE H B eB xsB fsB) :
    Ptr2.RepE (Ptr2.swap H eA eB A B).1 (Ptr2.swap H eA eB A B).2.1 eA xsB fsB ∧
    Ptr2.RepE (Ptr2.swap H eA eB A B).1 (Ptr2.swap H eA eB A B).2.2 eB xsA fsA ∧
    (Ptr2.swap H eA eB A B).1.val = H.val ∧
    (Ptr2.swap H eA eB A B).2.1.blocks = B.blocks ∧ (Ptr2.swap H eA eB A B).2.2.blocks = A.blocks :=
  Ptr2.swap_rep H eA eB A B xsA fsA xsB fsB hne nd hs ha hb

/-- what `Rep` means for a client: iterating from `begin()` with `++` visits, for every position `k`, an item
    holding the model's `k`-th value, and reaches `end()` after `size` steps -/
theorem ptr_iteration (p : Ptr.PList) (xs fs : List Nat) (s : LState) (h : Ptr.Rep p xs fs s) :
    p.size = s.size ∧ Ptr.walk p p.begin s.size = some 0 ∧
    ∀ k (hk : k < s.vals.length), ∃ a, Ptr.walk p p.begin k = some a ∧ a ≠ 0 ∧ p.val a = s.vals[k] := by
  have hsize : s.size = xs.length := by simp [LState.size, h.nodes]
  refine ⟨by rw [h.sz, hsize], ?_, ?_⟩
  · have := Ptr.walk_seg p xs.length xs none h.seg (Nat.le_refl _)
    rw [← h.beg] at this
    rw [hsize, this]; simp
  · intro k hk
    have hk' : k < xs.length := by simpa [LState.vals, h.nodes] using hk
    have := Ptr.walk_seg p k xs none h.seg (Nat.le_of_lt hk')
    rw [← h.beg, List.drop_eq_getElem_cons hk'] at this
    refine ⟨xs[k], this, Ptr.seg_ne_zero p xs 0 none h.seg _ (List.getElem_mem hk'), ?_⟩
    simp [LState.vals, h.nodes]

/-! ### Array capacity -/

/-- In every reachable state both arrays satisfy `size ≤ capacity` whenever they own storage, and an
    array without storage is empty; in particular no operation of any history writes outside its
    allocation (the model's checked `push` never faults, cf. `refines`: the model rejects exactly what the
    reference rejects). -/
theorem array_cap (lk pk : Nat) (ops : List Op) :
    let s := run (State.init lk pk) ops
    (s.a0.data.isSome → s.a0.size ≤ s.a0.cap) ∧ (s.a1.data.isSome → s.a1.size ≤ s.a1.cap) ∧
    (s.a0.data = none → s.a0.size = 0) ∧ (s.a1.data = none → s.a1.size = 0) := by
  have key : ∀ (ops : List Op) (s : State), Inv s → Inv (run s ops) := by
    intro ops
    induction ops with
    | nil => intro s h; exact h
    | cons op ops ih =>
      intro s h
      unfold run
      cases hq : step s op with
      | none => exact ih s h
      | some r => exact ih r.st ((step_refines s op h).2 r hq)
  have inv := key ops (State.init lk pk) ⟨AState.ok_init, AState.ok_init⟩
  exact ⟨AState.size_le_cap _ inv.1, AState.size_le_cap _ inv.2,
    fun h => by simp [AState.size, AState.elems_none _ h], fun h => by simp [AState.size, AState.elems_none _ h]⟩

/-- `x | (2^j - 1)` rounds `x` up to the next number of the form `q * 2^j + (2^j - 1)` -/
theorem or_mask (m j : Nat) (hm : m + 1 = 2 ^ j) (x : Nat) : x ||| m = x / 2 ^ j * 2 ^ j + m := by
  have hpos : 0 < 2 ^ j := Nat.pos_of_ne_zero (by intro e; rw [e] at hm; omega)
  have hmlt : m < 2 ^ j := by omega
  have h1 : (x ||| m) / 2 ^ j = x / 2 ^ j := by
    rw [Nat.or_div_two_pow, Nat.div_eq_of_lt hmlt]; simp
  have h2 : (x ||| m) % 2 ^ j = m := by
    rw [Nat.or_mod_two_pow, Nat.mod_eq_of_lt hmlt]
    have hx : x % 2 ^ j < 2 ^ j := Nat.mod_lt _ hpos
    have up : x % 2 ^ j ||| m < 2 ^ j := Nat.or_lt_two_pow hx hmlt
    have lo : m ≤ x % 2 ^ j ||| m := Nat.right_le_or
    omega
  have := Nat.div_add_mod (x ||| m) (2 ^ j)
  rw [h1, h2, Nat.mul_comm] at this
  exact this.symm

/-- growth policy of `reserve(n)` as coded, for every rounding mask `m = 2^j - 1`: storage is (re)allocated iff
    `n > capacity` or there is no storage yet and `n > 0`; the new capacity is `max n capacity` rounded up to
    `q * 2^j + m` (`| m`); otherwise nothing changes.  The elements are kept and `n ≤ capacity` afterwards
    (`array_cap`). -/
theorem reserve_policy (j : Nat) (hm : ArrCfg.mask + 1 = 2 ^ j) (s : AState) (n : Nat) :
    (s.reserve n) =
      (if n > s.cap ∨ (s.data = none ∧ n > 0) then
        ({ cap := (max n s.cap) / 2 ^ j * 2 ^ j + ArrCfg.mask, data := some s.elems }, 1, if s.data.isSome then 1 else 0)
      else (s, 0, 0)) := by
  have or3 := or_mask ArrCfg.mask j hm
  obtain ⟨cap, data⟩ := s
  unfold AState.reserve
  cases data with
  | none =>
    by_cases c : n > cap ∨ n > 0
    · have c' : n > cap ∨ (True ∧ n > 0) := by simpa using c
      by_cases c2 : n > cap
      · simp [c2, or3, AState.elems, Nat.max_eq_left (Nat.le_of_lt c2)]
      · simp [c2, or3, AState.elems, Nat.max_eq_right (Nat.le_of_not_lt c2)]
    · simp [c]
  | some es =>
    by_cases c : n > cap
    · simp [c, or3, AState.elems, Nat.max_eq_left (Nat.le_of_lt c)]
    · simp [c]

omit [ArrCfg] in
/-- the rounding mask the translator derives from the CURRENT headers (by executing `reserve` on them) has the
    form `2^j - 1` the theorems ask for -/
theorem mask_is_pow2_minus_one : Generated.Seq.arrayCapMask + 1 = 2 ^ Generated.Seq.arrayCapBits := by decide

omit [ArrCfg] in
/-- the items-per-block constants the translator derives from the CURRENT headers are positive -/
theorem block_items_pos : 0 < Generated.Seq.listBlockItems ∧ 0 < Generated.Seq.poolBlockItems := by decide

/-- the instance the driver runs: the constants of the current sources -/
@[reducible] def sourceCfg : ArrCfg := ⟨Generated.Seq.arrayCapMask⟩

omit [ArrCfg] in
/-- `reserve_policy` for the mask of the current sources -/
theorem reserve_policy_source (s : AState) (n : Nat) :
    (@AState.reserve sourceCfg s n).1.cap =
      if n > s.cap ∨ (s.data = none ∧ n > 0) then
        (max n s.cap) / 2 ^ Generated.Seq.arrayCapBits * 2 ^ Generated.Seq.arrayCapBits + Generated.Seq.arrayCapMask
      else s.cap := by
  have h := @reserve_policy sourceCfg Generated.Seq.arrayCapBits mask_is_pow2_minus_one s n
  rw [h]
  by_cases c : n > s.cap ∨ (s.data = none ∧ n > 0)
  · simp only [c, if_true]; rfl
  · simp only [c, if_false]

/-- `append` does not reallocate while the capacity suffices (iterators/references stay valid) -/
theorem append_no_realloc (s : AState) (x : Int) (es : List Int) (hd : s.data = some es) (hc : es.length < s.cap) :
    ∃ r, s.append x = some r ∧ r.allocs = 0 ∧ r.frees = 0 ∧ r.st.cap = s.cap ∧ r.st.data = some (es ++ [x]) := by
  obtain ⟨cap, data⟩ := s
  simp only at hd hc
  subst hd
  have : ¬ (es.length + 1 > cap) := by omega
  simp [AState.append, AState.reserve, AState.size, AState.elems, this, AState.push, hc]

/-! ### Cell level: the loops of Array.hpp -/

/-- The cell-level model of Array (RawArray.lean: a block of `_capacity` cells, each raw or constructed; the
    copy-construct-and-destroy loop of `reserve`, the placement-new loops of `append(values, size)` /
    `append(Array)` / `resize` / copy construction / assignment, the shifting assignment loop and the
    destructor call of `remove`, the destructor loops of `clear` and of a shrinking `resize`, all with checked
    accesses) run on ANY history of Array operations stays related to the `AState` model of the same history:
    the block holds exactly the model's elements in its first `size` cells and raw cells behind them,
    `_capacity` agrees, and no operation ever constructs outside the block, reads / assigns / destroys a raw
    cell, or leaves a constructed cell behind `_end` (the two models reject exactly the same operations). -/
theorem raw_refines (lk pk : Nat) (ops : List Op) (h : ∀ op ∈ ops, Raw.isArrayOp op = true) :
    Raw.Rel (Raw.rrun {} ops).a0 (run (State.init lk pk) ops).a0 ∧
    Raw.Rel (Raw.rrun {} ops).a1 (run (State.init lk pk) ops).a1 :=
  Raw.rrun_rel ops {} (State.init lk pk) ⟨Raw.rel_init, Raw.rel_init⟩ h

/-- cell level, the shifting removal alone: removing element `i` of a block holding `es` leaves a block
    holding `es` without its `i`-th element, the vacated last cell destroyed -/
theorem raw_remove (r : Raw.RArr) (cap : Nat) (es : List Int) (i : Nat) (hi : i < es.length)
    (h : Raw.Rel r { cap := cap, data := some es }) :
    ∃ r', Raw.removeAt r i = some r' ∧ Raw.Rel r' { cap := cap, data := some (es.eraseIdx i) } := by
  obtain ⟨r', ra, e1, e2, e3⟩ := Raw.removeAt_rel r _ h i (by simpa [AState.size, AState.elems] using hi)
  refine ⟨r', e1, ?_⟩
  simp only [AState.removeIt, AState.size, AState.elems, Option.getD_some, hi, if_true, Option.some.injEq] at e2
  rw [← e2] at e3
  simpa [List.eraseIdx_eq_take_drop_succ] using e3

/-! ### Non-vacuity -/

/-- the hypotheses of the sort theorems are met by `int` with `<` -/
example : (∀ x y, ltInt x y = true → ltInt y x = false) ∧
    (∀ x y z, ltInt x y = true → ltInt y z = true → ltInt x z = true) :=
  ⟨by intro x y h; simp only [ltInt, decide_eq_true_eq, decide_eq_false_iff_not] at *; omega,
   by intro x y z h1 h2; simp only [ltInt, decide_eq_true_eq] at *; omega⟩

example : sortVals ltInt [3, 1, 2, 3, 0, -5, 1] = some [-5, 0, 1, 1, 2, 3, 3] := by decide

/-- a history that exercises insertion in the middle, list insertion, removal, sort, copy and growth -/
def demoOps : List Op :=
  [.lappend 0 3, .lappend 0 1, .linsert 0 1 7, .lappend 1 9, .linsertl 0 1, .lremove 0 0,
   .lsort 0, .lcopy 1, .aappend 0 1, .aappend 0 2, .aappend 0 3, .aappend 0 4, .aremove 0 1,
   .pappend 0 5, .pappend 0 6, .premoveFront 0]

/-- mask 3, blocks of 4: the constants of the sources the models were written against -/
@[reducible] def demoCfg : ArrCfg := ⟨3⟩

omit [ArrCfg] in
example : absS (@run demoCfg (State.init 4 4) demoOps) = { l0 := [1, 7, 9], l1 := [1, 7, 9], p0 := [6], a0 := [1, 3, 4] } ∧
    (@run demoCfg (State.init 4 4) demoOps).a0.cap = 7 := by decide

omit [ArrCfg] in
/-- the same history with mask 7 and blocks of 8 / 2 items: same contents, other capacity -/
example : absS (@run ⟨7⟩ (State.init 8 2) demoOps) = { l0 := [1, 7, 9], l1 := [1, 7, 9], p0 := [6], a0 := [1, 3, 4] } ∧
    (@run ⟨7⟩ (State.init 8 2) demoOps).a0.cap = 7 ∧ (@run ⟨7⟩ (State.init 8 2) demoOps).l0.nblocks = 1 ∧
    (@run ⟨7⟩ (State.init 8 2) demoOps).p0.nblocks = 1 := by decide

/-- the pointer-level model on a concrete history (middle insertion, front/back removal, clear, block reuse) -/
example :
    let p := Ptr.run (Ptr.init 4) [.insert 0 5, .insert 1 7, .insert 1 6, .remove 0, .insert 2 9, .insert 0 1, .insert 0 2,
      .remove 4, .sort, .clear, .insert 0 3]
    p.size = 1 ∧ p.begin = 3 ∧ p.val 3 = 3 ∧ p.next 3 = some 0 ∧ p.prev 0 = some 3 ∧ p.nblocks = 2 ∧ p.free = some 2 := by decide

/-- the cell-level Array on a concrete history (growth 3 → 7, shifting removal, shrinking resize, copy) -/
example :
    (@Raw.rrun demoCfg {} [.aappend 0 1, .aappend 0 2, .aappend 0 3, .aappend 0 4, .aremove 0 1, .aresize 0 2 0, .acopy 1]).a0.cells
      = some [some 1, some 3, none, none, none, none, none] ∧
    (@Raw.rrun demoCfg {} [.aappend 0 1, .aappend 0 2, .aappend 0 3, .aappend 0 4, .aremove 0 1, .aresize 0 2 0, .acopy 1]).a1.cells
      = some [some 1, some 3, none, none, none, none, none] := by decide

/-- the shared-heap swap on a concrete heap: A = [2, 3] (sentinel 0), B = [4] (sentinel 1) -/
def demoHeap : Ptr2.Heap :=
  { val := fun k => (k : Int),
    prev := fun k => if k = 3 then some 2 else if k = 0 then some 3 else if k = 1 then some 4 else none,
    next := fun k => if k = 2 then some 3 else if k = 3 then some 0 else if k = 4 then some 1 else none }

example :
    let r := Ptr2.swap demoHeap 0 1 ⟨2, 2, none, 7⟩ ⟨4, 1, none, 9⟩
    r.1.next 3 = some 1 ∧ r.1.next 4 = some 0 ∧ r.1.prev 0 = some 4 ∧ r.1.prev 1 = some 3 ∧
    r.2.1.begin = 4 ∧ r.2.1.size = 1 ∧ r.2.1.blocks = 9 ∧ r.2.2.begin = 2 ∧ r.2.2.size = 2 ∧ r.2.2.blocks = 7 := by
  decide

example : Ptr2.RepE demoHeap ⟨2, 2, none, 7⟩ 0 [2, 3] [] ∧ Ptr2.RepE demoHeap ⟨4, 1, none, 9⟩ 1 [4] [] :=
  ⟨⟨by simp [Ptr2.SegE, demoHeap], by simp [demoHeap, Ptr.lastOr], rfl, rfl, rfl⟩,
   ⟨by simp [Ptr2.SegE, demoHeap], by simp [demoHeap, Ptr.lastOr], rfl, rfl, rfl⟩⟩

end Nstd.Seq
