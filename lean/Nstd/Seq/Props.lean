import Nstd.Seq.Model
/- placeholder: replaced by the property theorems -/
namespace Nstd.Seq
theorem placeholder_sort_two : sortVals (fun a b : Int => decide (a < b)) [2, 1] = some [1, 2] := by decide
end Nstd.Seq
