import Nstd.Seq.LemmasArr2
/-
  Property C03, the tie by TRANSLATION for `Array`, part 3: `append(const T*, usize)` and `resize(usize, const T&)`.
-/
set_option linter.unusedSimpArgs false
set_option linter.unusedVariables false
namespace Nstd.Seq
open Nstd.Generated
open Nstd.Seq.Raw
open Nstd.Seq.AM

variable [ArrCfg]

/-- The translated `Array::append(const T* values, usize size)` with `values` pointing to the constructed elements `xs` of
    ANOTHER allocation is the model's `appendAll r xs` (reserve `size() + size`, the placement-new loop `fillFrom`). -/
theorem gen_append_ptr (M : Mem) (A : Arr) (r : RArr) (h : Rep M A r) (bv j : Nat) (vcs : Cells) (xs : List Int)
    (hnot : ¬ own A bv) (hbv : bv < M.brk) (hv : M.blocks bv = some vcs)
    (hx : ∀ t (ht : t < xs.length), readCell vcs (j + t) = some xs[t])
    (fuel : Nat) (hf : r.n + xs.length < fuel) :
    Sim M A (SeqArr.appendPtr fuel M A (some (bv, j)) xs.length) (Raw.appendAll r xs) := by
  unfold SeqArr.appendPtr Raw.appendAll
  simp only [pdiff_rep M A r h, reserve2_out M A r h bv j hnot]
  rcases reserve_run M A r h (r.n + xs.length) fuel (by omega) with ⟨e1, e2⟩ | ⟨M1, A1, r1, e1, e2, hrep1, hbrk, hfr, hown, hn⟩
  · simp [e1, e2, Sim]
  · simp only [e1, e2, Option.map_some]
    have hv1 : M1.blocks bv = some vcs := by rw [hfr bv hbv hnot]; exact hv
    obtain ⟨f, rfl⟩ : ∃ f, fuel = f + 1 := ⟨fuel - 1, by omega⟩
    have hrep1' := hrep1
    obtain ⟨hcap1, hr1⟩ := hrep1
    cases hc : r1.cells with
    | none =>
      rw [hc] at hr1
      cases xs with
      | nil =>
        simp only [hr1.2.1, List.length_nil, padd, if_true, SeqArr.appendPtr_loop1, plt, Bool.false_eq_true, if_false,
          List.isEmpty_nil]
        have : ({ A1 with end_ := none } : Arr) = A1 := by cases A1; simp_all
        rw [this]
        exact ⟨hrep1', hbrk, hfr, hown⟩
      | cons x xs => simp [hr1.2.1, padd, Sim]
    | some cs1 =>
      rw [hc] at hr1
      obtain ⟨b1, hbk1, hb1, he1, hblk1⟩ := hr1
      have hb1ne : ∀ b', b' < M.brk → ¬ own A b' → b' ≠ b1 := by
        intro b' h1 h2 e
        rcases hown b1 ⟨0, hb1⟩ with h3 | h3
        · exact h2 (e ▸ h3)
        · omega
      simp only [he1, padd]
      have key := appendPtr_loop1_ext A1 xs.length r.n b1 bv (hb1ne bv hbv hnot) xs r1.n j (r1.n + xs.length) (f + 1) M1 cs1 vcs
        rfl (by omega) hblk1 hv1 hx
      cases hfill : fillFrom cs1 r1.n xs with
      | none => simp only [key.1 hfill, Sim]
      | some cs' =>
        obtain ⟨M', k1, k2, k3, k4⟩ := key.2 cs' hfill
        simp only [k1, Sim]
        refine ⟨⟨hcap1, ?_⟩, by rw [k3]; exact hbrk, ?_, ?_⟩
        · simp only []
          exact ⟨b1, by rw [k3]; exact hbk1, hb1, rfl, k2⟩
        · intro b' h1 h2
          rw [k4 b' (hb1ne b' h1 h2), hfr b' h1 h2]
        · rintro b' ⟨i', hi'⟩
          exact hown b' ⟨i', hi'⟩

/-- `a.append(&a[i], n)`: the translated `append(const T*, usize)` with `values` pointing to element `i < size` of the array
    itself (`i + n ≤ size`) is the model's `appendSub r i n`: the source range is read from the storage AFTER `reserve`. -/
theorem gen_append_ptr_alias (M : Mem) (A : Arr) (r : RArr) (h : Rep M A r) (b i n : Nat) (hb : A.begin = some (b, 0))
    (hi : i < r.n) (hin : i + n ≤ r.n) (fuel : Nat) (hf : r.n + n < fuel) :
    Sim M A (SeqArr.appendPtr fuel M A (some (b, i)) n) (Raw.appendSub r i n) := by
  unfold SeqArr.appendPtr Raw.appendSub
  simp only [pdiff_rep M A r h, reserve2_in M A r h b i hb hi, hin, if_true]
  obtain ⟨cs, hcs⟩ : ∃ cs, r.cells = some cs := by
    cases hc : r.cells with
    | none => have := h.2; rw [hc] at this; omega
    | some cs => exact ⟨cs, rfl⟩
  rcases reserve_run M A r h (r.n + n) fuel (by omega) with ⟨e1, e2⟩ | ⟨M1, A1, r1, e1, e2, hrep1, hbrk, hfr, hown, hn⟩
  · simp [e1, e2, Sim]
  · obtain ⟨cs1, hc⟩ := reserve_cells_some r r1 cs hcs _ e1
    obtain ⟨hcap1, hr1⟩ := hrep1
    rw [hc] at hr1
    obtain ⟨b1, hbk1, hb1, he1, hblk1⟩ := hr1
    have hb1ne : ∀ b', b' < M.brk → ¬ own A b' → b' ≠ b1 := by
      intro b' h1 h2 e
      rcases hown b1 ⟨0, hb1⟩ with h3 | h3
      · exact h2 (e ▸ h3)
      · omega
    simp only [e1, e2, Option.bind_some, hb1, padd, Option.map_some, hc, Nat.zero_add, he1, hn]
    have key := appendPtr_loop1_alias A1 n r.n b1 (r.n + n) n r.n i fuel M1 cs1 rfl (by omega) hblk1
    cases hcopy : selfCopyLoop cs1 r.n i n with
    | none => simp only [key.1 hcopy, Sim]
    | some cs' =>
      obtain ⟨M', k1, k2, k3, k4⟩ := key.2 cs' hcopy
      simp only [k1, Sim]
      refine ⟨⟨hcap1, ?_⟩, by rw [k3]; exact hbrk, ?_, ?_⟩
      · simp only []
        exact ⟨b1, by rw [k3]; exact hbk1, hb1, rfl, k2⟩
      · intro b' h1 h2
        rw [k4 b' (hb1ne b' h1 h2), hfr b' h1 h2]
      · rintro b' ⟨i', hi'⟩
        exact hown b' ⟨i', hi'⟩

/-- the shrinking branch of the translated `resize` (common to both forms of the argument) -/
theorem gen_resize_shrink (M : Mem) (A : Arr) (r : RArr) (h : Rep M A r) (size : Nat) (va : Option P) (hs : size < r.n)
    (fuel : Nat) (hf : r.n < fuel) :
    Sim M A (SeqArr.resize fuel M A size va)
      (match r.cells with
       | none => none
       | some cs =>
         match destroyRange cs size (r.n - size) with
         | some cs' => some { r with cells := some cs', n := size }
         | none => none) := by
  unfold SeqArr.resize
  simp only [pdiff_rep M A r h, hs, decide_true, if_true]
  obtain ⟨hcap, hrep⟩ := h
  cases hc : r.cells with
  | none => rw [hc] at hrep; omega
  | some cs =>
    rw [hc] at hrep
    obtain ⟨b, hbk, hb, he, hblk⟩ := hrep
    simp only [hb, he, padd, Nat.zero_add]
    have key := resize_loop1_spec A size va r.n (some (b, size)) b r.n (r.n - size) size fuel M cs (by omega) (by omega) hblk
    cases hd : destroyRange cs size (r.n - size) with
    | none => simp only [key.1 hd, Sim]
    | some cs' =>
      obtain ⟨M', e1, e2, e3, e4⟩ := key.2 cs' hd
      simp only [e1, Sim]
      refine ⟨⟨hcap, ?_⟩, by simp [e3], ?_, ?_⟩
      · simp only []
        exact ⟨b, by simp [e3]; exact hbk, hb, rfl, e2⟩
      · intro b' hb' hown
        exact e4 b' (fun e => hown ⟨0, by rw [e]; exact hb⟩)
      · rintro b' ⟨i, hi⟩
        exact Or.inl ⟨i, hi⟩

/-- The translated `Array::resize(usize size, const T& value)` with `value` a constructed element `x` of ANOTHER allocation is
    the model's `resize r size x`: shrinking = destructor loop over the tail, growing = `reserve(size)` + the fill loop. -/
theorem gen_resize (M : Mem) (A : Arr) (r : RArr) (h : Rep M A r) (size bv j : Nat) (vcs : Cells) (x : Int)
    (hnot : ¬ own A bv) (hbv : bv < M.brk) (hv : M.blocks bv = some vcs) (hx : readCell vcs j = some x)
    (fuel : Nat) (hf : r.n + size < fuel) :
    Sim M A (SeqArr.resize fuel M A size (some (bv, j))) (Raw.resize r size x) := by
  by_cases hs : size < r.n
  · have := gen_resize_shrink M A r h size (some (bv, j)) hs fuel (by omega)
    unfold Raw.resize
    simp only [hs, if_true]
    exact this
  · unfold SeqArr.resize Raw.resize Raw.appendAll
    have hlen : r.n + (List.replicate (size - r.n) x).length = size := by simp; omega
    simp only [pdiff_rep M A r h, hs, decide_false, Bool.false_eq_true, if_false, reserve2_out M A r h bv j hnot, hlen]
    rcases reserve_run M A r h size fuel (by omega) with ⟨e1, e2⟩ | ⟨M1, A1, r1, e1, e2, hrep1, hbrk, hfr, hown, hn⟩
    · simp [e1, e2, Sim]
    · simp only [e1, e2, Option.map_some]
      have hv1 : M1.blocks bv = some vcs := by rw [hfr bv hbv hnot]; exact hv
      obtain ⟨f, rfl⟩ : ∃ f, fuel = f + 1 := ⟨fuel - 1, by omega⟩
      have hrep1' := hrep1
      obtain ⟨hcap1, hr1⟩ := hrep1
      cases hc : r1.cells with
      | none =>
        rw [hc] at hr1
        have hn0 : r.n = 0 := by rw [← hn]; exact hr1.2.2
        cases size with
        | zero =>
          simp only [hr1.1, hn0, padd, if_true, SeqArr.resize_loop2, pne, ne_eq, not_true_eq_false, decide_false,
            Bool.false_eq_true, if_false, Nat.sub_self, List.replicate, List.isEmpty_nil]
          have : ({ begin := none, end_ := none, cap := A1.cap } : Arr) = A1 := by cases A1; simp_all
          rw [this]
          exact ⟨hrep1', hbrk, hfr, hown⟩
        | succ s => simp [hr1.1, padd, Sim, hn0]
      | some cs1 =>
        rw [hc] at hr1
        obtain ⟨b1, hbk1, hb1, he1, hblk1⟩ := hr1
        have hb1ne : ∀ b', b' < M.brk → ¬ own A b' → b' ≠ b1 := by
          intro b' h1 h2 e
          rcases hown b1 ⟨0, hb1⟩ with h3 | h3
          · exact h2 (e ▸ h3)
          · omega
        simp only [hb1, padd, Nat.zero_add, hn]
        have key := resize_loop2_ext A1 size (some (bv, j)) r.n b1 size bv j x (hb1ne bv hbv hnot) (size - r.n) r.n (f + 1) M1
          cs1 vcs (by omega) (by omega) hblk1 hv1 hx
        cases hfill : fillFrom cs1 r.n (List.replicate (size - r.n) x) with
        | none => simp only [key.1 hfill, Sim]
        | some cs' =>
          obtain ⟨M', k1, k2, k3, k4⟩ := key.2 cs' hfill
          simp only [k1, Sim, List.length_replicate]
          refine ⟨⟨hcap1, ?_⟩, by rw [k3]; exact hbrk, ?_, ?_⟩
          · simp only []
            exact ⟨b1, by rw [k3]; exact hbk1, hb1, by congr 2; omega, k2⟩
          · intro b' h1 h2
            rw [k4 b' (hb1ne b' h1 h2), hfr b' h1 h2]
          · rintro b' ⟨i', hi'⟩
            exact hown b' ⟨i', hi'⟩

/-- `a.resize(n, a[i])`: the translated `resize` with `value` = element `i < size()` of the array itself is the model's
    `resizeRef r n i`: every new element is copy-constructed from cell `i` of the storage AFTER `reserve`. -/
theorem gen_resize_alias (M : Mem) (A : Arr) (r : RArr) (h : Rep M A r) (size b i : Nat) (hb : A.begin = some (b, 0))
    (hi : i < r.n) (fuel : Nat) (hf : r.n + size < fuel) :
    Sim M A (SeqArr.resize fuel M A size (some (b, i))) (Raw.resizeRef r size i) := by
  by_cases hs : size < r.n
  · have := gen_resize_shrink M A r h size (some (b, i)) hs fuel (by omega)
    unfold Raw.resizeRef
    simp only [hs, hi, if_true]
    exact this
  · unfold SeqArr.resize Raw.resizeRef
    simp only [pdiff_rep M A r h, hs, hi, if_true, decide_false, Bool.false_eq_true, if_false, reserve2_in M A r h b i hb hi]
    obtain ⟨cs, hcs⟩ : ∃ cs, r.cells = some cs := by
      cases hc : r.cells with
      | none => have := h.2; rw [hc] at this; omega
      | some cs => exact ⟨cs, rfl⟩
    rcases reserve_run M A r h size fuel (by omega) with ⟨e1, e2⟩ | ⟨M1, A1, r1, e1, e2, hrep1, hbrk, hfr, hown, hn⟩
    · simp [e1, e2, Sim]
    · obtain ⟨cs1, hc⟩ := reserve_cells_some r r1 cs hcs _ e1
      obtain ⟨hcap1, hr1⟩ := hrep1
      rw [hc] at hr1
      obtain ⟨b1, hbk1, hb1, he1, hblk1⟩ := hr1
      have hb1ne : ∀ b', b' < M.brk → ¬ own A b' → b' ≠ b1 := by
        intro b' h1 h2 e
        rcases hown b1 ⟨0, hb1⟩ with h3 | h3
        · exact h2 (e ▸ h3)
        · omega
      simp only [e1, e2, Option.bind_some, hb1, padd, Option.map_some, hc, Nat.zero_add]
      have key := resize_loop2_alias A1 size (some (b, i)) r.n b1 size i (size - r.n) r.n fuel M1 cs1 (by omega) (by omega) hblk1
      cases hfill : fillRefLoop cs1 r.n i (size - r.n) with
      | none => simp only [key.1 hfill, Sim]
      | some cs' =>
        obtain ⟨M', k1, k2, k3, k4⟩ := key.2 cs' hfill
        simp only [k1, Sim]
        refine ⟨⟨hcap1, ?_⟩, by rw [k3]; exact hbrk, ?_, ?_⟩
        · simp only []
          exact ⟨b1, by rw [k3]; exact hbk1, hb1, rfl, k2⟩
        · intro b' h1 h2
          rw [k4 b' (hb1ne b' h1 h2), hfr b' h1 h2]
        · rintro b' ⟨i', hi'⟩
          exact hown b' ⟨i', hi'⟩

end Nstd.Seq

/-! ### non-vacuity: a concrete memory that represents a model state, and the translated code run on it -/
namespace Nstd.Seq.ArrDemo
open Nstd.Generated
open Nstd.Seq.Raw
open Nstd.Seq.AM

/-- allocation 1 = the array's storage (capacity 3, elements 5, 6), allocation 2 = an unrelated element 9 -/
def M0 : Mem :=
  { blocks := fun k => if k = 1 then some [some 5, some 6, none] else if k = 2 then some [some 9] else none, brk := 3 }
def A0 : Arr := { begin := some (1, 0), end_ := some (1, 2), cap := 3 }
def r0 : RArr := { cap := 3, cells := some [some 5, some 6, none], n := 2 }

example : Rep M0 A0 r0 := ⟨rfl, 1, by decide, rfl, rfl, rfl⟩
example : ¬ own A0 2 := by rintro ⟨i, hi⟩; cases hi

local instance : ArrCfg := ⟨3⟩

/-- `a.append(x)` within the capacity, then `a.append(a[0])` at `size == capacity`: the storage moves to allocation 3 (7 cells),
    the old block is released, the aliased element is read from the new block -/
example :
    ((SeqArr.appendValue 9 M0 A0 (some (2, 0))).bind (fun t => SeqArr.appendValue 9 t.1 t.2.1 (some (1, 0)))).map
        (fun t => (t.1.blocks 1, t.1.blocks 3, t.2.1.begin, t.2.1.end_, t.2.1.cap, t.2.2)) =
      some (none, some [some 5, some 6, some 9, some 5, none, none, none], some (3, 0), some (3, 4), 7, some (3, 3)) := by
  rfl
example : (Raw.append r0 9).bind (fun r => Raw.appendRef r 0) =
    some { cap := 7, cells := some [some 5, some 6, some 9, some 5, none, none, none], n := 4 } := by rfl

/-- `a.remove(0)`, `a.resize(4, x)` (reallocation), `a.append(&a[1], 2)`, `a.clear()` -/
example : (SeqArr.removeIndex 9 M0 A0 0).map (fun t => (t.1.blocks 1, t.2.end_)) = some (some [some 6, none, none], some (1, 1)) := by
  rfl
example : (SeqArr.resize 9 M0 A0 4 (some (2, 0))).map (fun t => (t.1.blocks 3, t.2.end_)) =
    some (some [some 5, some 6, some 9, some 9, none, none, none], some (3, 4)) := by rfl
example : (SeqArr.appendPtr 9 M0 A0 (some (1, 1)) 1).map (fun t => (t.1.blocks 1, t.2.end_)) =
    some (some [some 5, some 6, some 6], some (1, 3)) := by rfl
example : (SeqArr.clear 9 M0 A0).map (fun t => (t.1.blocks 1, t.2.end_)) = some (some [none, none, none], some (1, 0)) := by rfl
/-- a fault is a fault on both sides: `remove(it)` with `it` past the end destroys a raw cell -/
example : SeqArr.removeIter 9 M0 A0 (some (1, 2)) = none ∧ Raw.removeAt r0 2 = none := ⟨rfl, rfl⟩

end Nstd.Seq.ArrDemo
