import Nstd.Seq.LemmasPtrSort
/-
  `insert(position, *this)` on the heap, sharp form: the copies `cs` end up, in one piece, between the items in front
  of `position` and those from `position` on (all of which keep their addresses and order), and the returned iterator
  is the first copy.  For EVERY position `k` (front, end and every inner one) and every chain.
-/
namespace Nstd.Seq.Ptr

theorem insertSelf_rep_ret (p : PList) (xs fs : List Nat) (s : LState) (h : Rep p xs fs s) (k : Nat) (hk : k ≤ xs.length) :
    ∃ p' r cs fs', insertSelf p ((xs.drop k).headD 0) = some (p', r) ∧
      Rep p' (xs.take k ++ cs ++ xs.drop k) fs' (s.insertMany k s.vals).1 ∧
      r = (cs ++ xs.drop k).headD 0 ∧ (xs = [] → cs = []) ∧ (xs ≠ [] → cs ≠ []) := by
  have hv : s.vals = xs.map p.val := vals_of_view p xs s.vals (view_of_rep p xs fs s h)
  cases xs with
  | nil =>
    have : p.prev 0 = none := h.endp
    refine ⟨p, 0, [], fs, by simp [insertSelf, this], ?_, by simp, fun _ => rfl, fun e => absurd rfl e⟩
    rw [hv]; simpa [LState.insertMany] using h
  | cons x0 xr =>
    have hne : x0 :: xr ≠ [] := by simp
    have hlast : p.prev 0 = some ((x0 :: xr).getLast hne) := by rw [h.endp]; exact lastOr_eq_getLast _ hne none
    have hbeg : p.begin = x0 := by rw [h.beg]; rfl
    have hvals : s.vals = p.val x0 :: xr.map p.val := by rw [hv]; rfl
    have hsz : p.size + 1 = xr.length + 1 + 1 := by rw [h.sz]; rfl
    unfold insertSelf
    rw [hlast, hbeg, hvals, insertMany_cons_fst]
    simp only
    cases k with
    | zero =>
      have h0 : Rep p ([] ++ [] ++ (x0 :: xr)) fs s := by simpa using h
      obtain ⟨p1, item, fs1, e1, e2, e3, e4⟩ := insert_mid p [] [] (x0 :: xr) fs s h0 (p.val x0)
      simp only [List.headD_cons] at e1
      have e4' : item ∉ x0 :: xr := by simpa using e4
      have hV1 : ∀ y ∈ x0 :: xr, p1.val y = p.val y := fun y hy => e3 y (fun e => e4' (e ▸ hy))
      have e2' : Rep p1 ([] ++ [item] ++ ([] ++ x0 :: xr)) fs1 (s.insertRaw 0 (p.val x0)).1 := by simpa using e2
      obtain ⟨p', cs', fs', f1, f2⟩ := selfLoop_b p.val [] xr [] x0 [item] fs1 p1 _ (p.size + 1) e2' (by simp)
        (fun y hy => hV1 y (by simp [hy])) (by rw [hsz]; omega)
      refine ⟨p', item, item :: cs', fs', ?_, by simpa using f2, by simp, fun e => absurd e hne, fun _ => by simp⟩
      simp only [List.drop_zero, List.nil_append, List.headD_cons] at f1 ⊢
      rw [e1]
      simp only [f1, Option.map_some]
    | succ k' =>
      have hk' : k' ≤ xr.length := by simpa using hk
      have hlen : (xr.take k').length = k' := by simp; omega
      have h0 : Rep p ((x0 :: xr.take k') ++ [] ++ xr.drop k') fs s := by simpa using h
      obtain ⟨p1, item, fs1, e1, e2, e3, e4⟩ := insert_mid p (x0 :: xr.take k') [] (xr.drop k') fs s h0 (p.val x0)
      have e4' : item ∉ x0 :: xr := by
        intro hm; apply e4
        simp only [List.append_nil, List.cons_append, List.mem_cons, List.mem_append] at hm ⊢
        rcases hm with hm | hm
        · exact Or.inl hm
        · right; rw [← List.mem_append, List.take_append_drop]; exact hm
      have hV1 : ∀ y ∈ x0 :: xr, p1.val y = p.val y := fun y hy => e3 y (fun e => e4' (e ▸ hy))
      have e2' : Rep p1 (([] ++ x0 :: xr.take k') ++ [item] ++ xr.drop k') fs1 (s.insertRaw (k' + 1) (p.val x0)).1 := by
        simpa [hlen] using e2
      obtain ⟨p', cs', fs', f1, f2⟩ := selfLoop_a p.val (xr.drop k') (xr.take k') [] x0 [item] fs1 p1 _ (p.size + 1) e2'
        (by simp) (fun y hy => hV1 y (by
            simp only [List.mem_cons]; right
            rw [← List.take_append_drop k' xr]; exact hy))
        (by rw [hsz]; simp; omega)
      have hmap : (xr.take k' ++ xr.drop k').map p.val = xr.map p.val := by rw [List.take_append_drop]
      rw [hmap] at f2
      have hlen1 : ([] ++ x0 :: xr.take k').length + [item].length = k' + 1 + 1 := by simp [hlen]
      rw [hlen1] at f2
      refine ⟨p', item, item :: cs', fs', ?_, by simpa using f2, by simp, fun e => absurd e hne, fun _ => by simp⟩
      simp only [List.drop_succ_cons, List.headD_cons] at f1 ⊢
      have hl : (x0 :: (xr.take k' ++ xr.drop k')).getLast (by simp) = (x0 :: xr).getLast hne := by
        congr 1 <;> simp
      rw [hl] at f1
      rw [e1]
      simp only [f1, Option.map_some]

end Nstd.Seq.Ptr
