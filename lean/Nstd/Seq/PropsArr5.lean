import Nstd.Seq.LemmasArr3
/-
  Property C03, the tie by TRANSLATION for `Array`, part 5: the copy constructor `Array(const Array& other)` and
  `operator=(const Array& other)` of Generated/SeqArr.lean (the CURRENT include/nstd/Array.hpp, statement by statement).
-/
set_option linter.unusedSimpArgs false
set_option linter.unusedVariables false
namespace Nstd.Seq
open Nstd.Generated
open Nstd.Seq.Raw
open Nstd.Seq.AM

variable [ArrCfg]

/-- the translated copy constructor is the common copy part run on a fresh object (null iterators, `_capacity(0)`) -/
theorem gen_copy_ctor_body (fuel : Nat) (M : Mem) (A0 : Arr) (o : Option Arr) :
    SeqArr.copyCtor fuel M A0 o = copyBody fuel M {} o := by
  unfold SeqArr.copyCtor copyBody
  simp only [copy_loops_eq]
  rfl

/-- The translated copy constructor `Array(const Array& other)` — fresh object, `reserve(other.capacity())`, the loop that
    copy-constructs every element of `other`, `_end.item = dest` — is the cell-level model's `copyFrom {} o` (the step of the
    machine's `acopy`), for every memory in which `other` represents the model state `o` with constructed elements `xs`. -/
theorem gen_copy_ctor (M : Mem) (A0 B : Arr) (o : RArr) (ho : Rep M B o) (xs : List Int) (hxs : contents o = some xs)
    (fuel : Nat) (hf : xs.length < fuel) :
    Sim M {} (SeqArr.copyCtor fuel M A0 (some B)) (Raw.copyFrom {} o) := by
  rw [gen_copy_ctor_body]
  exact copyBody_sim M {} B {} o ⟨rfl, rfl, rfl, rfl⟩ ho xs (fun b _ hb => by obtain ⟨i, hi⟩ := hb; cases hi) hxs fuel
    (by simpa using hf)

/-- `a = a`: the translated `operator=` returns at once when the argument is the object itself (the model's `aassignself`) -/
theorem gen_assign_self (fuel : Nat) (M : Mem) (A : Arr) : SeqArr.assign fuel M A none = some (M, A) := rfl

/-- `a = b` with another array: the translated `operator=` is `clear()` followed by the common copy part -/
theorem gen_assign_body (fuel : Nat) (M : Mem) (A B : Arr) :
    SeqArr.assign fuel M A (some B) = (SeqArr.clear fuel M A).bind (fun t => copyBody fuel t.1 t.2 (some B)) := by
  unfold SeqArr.assign copyBody
  simp only [Option.isNone_some, Bool.false_eq_true, if_false]
  cases SeqArr.clear fuel M A <;> rfl

end Nstd.Seq
