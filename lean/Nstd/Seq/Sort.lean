/-
  Model of `List<T>::sort()` (include/nstd/List.hpp:221-258): the in-place quicksort that walks
  the nodes `left .. right` with three pointers and swaps *values*.

  The nodes of the segment are addressed by their position in the list (`next` = position + 1);
  the values live in a position-indexed memory (the list of the values in chain order).  Everything the
  C++ code does is mirrored step by step:

      ptr0 = ptr1 = ptr2 = left;  const T& pivot = left->value;
      do { ptr2 = ptr2->next;
           if (ptr2->value < pivot) { ptr0 = ptr1; ptr1 = ptr1->next; swap(ptr1, ptr2); }
      } while (ptr2 != right);
      swap(left, ptr1);
      if (ptr1 != right) ptr1 = ptr1->next;
      if (left != ptr0) sort(left, ptr0);
      if (ptr1 != right) sort(ptr1, right);

  Core Lean only (linked into the driver).
-/
namespace Nstd.Seq

variable {α : Type} [Inhabited α]

/-- read the value of the node at position `i` (`default` only makes the function total: theorem
    `qsortF_spec` shows that all accesses stay inside `left .. right`) -/
def rd (m : List α) (i : Nat) : α := m.getD i default

/-- `QuickSort::swap(a, b)`:  `T tmp = a->value; a->value = b->value; b->value = tmp;` -/
def swp (m : List α) (i j : Nat) : List α :=
  let tmp := rd m i
  let m1 := m.set i (rd m j)
  m1.set j tmp

/-- result of the partition loop: memory, `ptr0`, `ptr1` -/
structure PLoop (α : Type) where
  mem : List α
  p0 : Nat
  p1 : Nat

/-- The do-while loop.  `n` = number of iterations still to run (`right - ptr2`; the loop is entered
    with `ptr2 = left`, so it runs `right - left ≥ 1` times and ends with `ptr2 = right`).
    `pivot` is a *reference* to `left->value`, hence it is re-read from memory. -/
def ploop (lt : α → α → Bool) (left : Nat) : Nat → List α → Nat → Nat → Nat → PLoop α
  | 0, m, p0, p1, _ => ⟨m, p0, p1⟩
  | n + 1, m, p0, p1, p2 =>
    let p2 := p2 + 1                                   -- ptr2 = ptr2->next
    if lt (rd m p2) (rd m left) then                   -- ptr2->value < pivot
      ploop lt left n (swp m (p1 + 1) p2) p1 (p1 + 1) p2   -- ptr0 = ptr1; ptr1 = ptr1->next; swap(ptr1, ptr2)
    else
      ploop lt left n m p0 p1 p2

/-- `QuickSort::sort(left, right)` with recursion fuel.  `none` = fuel exhausted (theorem
    `qsortF_spec`: never with fuel `> right - left`). -/
def qsortF (lt : α → α → Bool) : Nat → List α → Nat → Nat → Option (List α)
  | 0, _, _, _ => none
  | f + 1, m, left, right =>
    let r := ploop lt left (right - left) m left left left
    let m1 := swp r.mem left r.p1                       -- swap(left, ptr1)
    let p1 := if r.p1 ≠ right then r.p1 + 1 else r.p1   -- if(ptr1 != right) ptr1 = ptr1->next
    match (if left ≠ r.p0 then qsortF lt f m1 left r.p0 else some m1) with
    | none => none
    | some m2 => if p1 ≠ right then qsortF lt f m2 p1 right else some m2

/-- `List::sort()` on the value sequence (position `i` = the `i`-th node of the chain):
    `if(endItem.prev == 0 || _begin.item == endItem.prev) return;`  else
    `QuickSort::sort(_begin.item, endItem.prev)`. -/
def sortVals (lt : α → α → Bool) (vs : List α) : Option (List α) :=
  if vs.length < 2 then some vs
  else qsortF lt vs.length vs 0 (vs.length - 1)

/-- `operator<` of the element type of the harness (`int`) -/
def ltInt (a b : Int) : Bool := decide (a < b)

/-- `operator<` of the harness' `Tagged {k, tag}` element type: compares the key only -/
def ltKey (a b : Int × Int) : Bool := decide (a.1 < b.1)

end Nstd.Seq
