import Nstd.Seq.ArrMem
import Nstd.Generated.SeqArr
/-
  Helper lemmas for PropsArr.lean: the loops of the TRANSLATED Array member functions (Generated/SeqArr.lean) against the
  loop functions of the cell-level model (RawArray.lean).
-/
set_option linter.unusedSimpArgs false
set_option linter.unusedVariables false
namespace Nstd.Seq.AM
open Nstd.Seq.Raw
open Nstd.Generated

theorem upd_same {β : Type} (f : Nat → β) (a : Nat) (x : β) : upd f a x a = x := by simp [upd]
theorem upd_ne {β : Type} (f : Nat → β) (a b : Nat) (x : β) (h : b ≠ a) : upd f a x b = f b := by simp [upd, h]

theorem rd_at (M : Mem) (b i : Nat) (cs : Cells) (h : M.blocks b = some cs) : rd M (some (b, i)) = readCell cs i := by
  simp [rd, h]

theorem con_at (M : Mem) (b i : Nat) (cs : Cells) (v : Int) (h : M.blocks b = some cs) :
    con M (some (b, i)) v = (construct cs i v).map (fun cs' => { M with blocks := upd M.blocks b (some cs') }) := by
  simp only [con, h]
  cases construct cs i v <;> rfl

theorem des_at (M : Mem) (b i : Nat) (cs : Cells) (h : M.blocks b = some cs) :
    des M (some (b, i)) = (destroy cs i).map (fun cs' => { M with blocks := upd M.blocks b (some cs') }) := by
  simp only [des, h]
  cases destroy cs i <;> rfl

theorem pne_off (b i j : Nat) : pne (some (b, i)) (some (b, j)) = decide (i ≠ j) := by
  simp [pne]

theorem plt_off (b i j : Nat) : plt (some (b, i)) (some (b, j)) = decide (i < j) := by
  simp [plt]

theorem readCell_some_get (cs : Cells) (i : Nat) (v : Int) (h : readCell cs i = some v) : cs[i]? = some (some v) := by
  unfold readCell at h
  split at h
  · next w hw => cases h; exact hw
  · cases h

theorem destroy_of_read (cs : Cells) (i : Nat) (v : Int) (h : readCell cs i = some v) : destroy cs i = some (cs.set i none) := by
  simp [destroy, readCell_some_get cs i v h]

theorem readCell_set_ne (cs : Cells) (i j : Nat) (x : Option Int) (h : i ≠ j) : readCell (cs.set i x) j = readCell cs j := by
  simp [readCell, List.getElem?_set_ne h]

/-- the growth loop of `reserve`: copy-construct cell `i …` of the old block into the new one and destroy the source -/
theorem reserve_loop1_spec (A : Arr) (sz : Nat) (nd : Option P) (bo bn n : Nat) (hne : bo ≠ bn) (old : Cells) :
    ∀ (k i fuel : Nat) (M : Mem) (oldc new : Cells), i + k = n → k < fuel →
      M.blocks bo = some oldc → M.blocks bn = some new → (∀ j, i ≤ j → readCell oldc j = readCell old j) →
      (moveLoop old new i k = none →
        SeqArr.reserve_loop1 fuel M A sz nd (some (bn, i)) (some (bo, i)) (some (bo, n)) = none) ∧
      (∀ new', moveLoop old new i k = some new' → ∃ M',
        SeqArr.reserve_loop1 fuel M A sz nd (some (bn, i)) (some (bo, i)) (some (bo, n)) =
          some (M', A, sz, nd, some (bn, n), some (bo, n), some (bo, n)) ∧
        M'.blocks bn = some new' ∧ (M'.blocks bo).isSome ∧ M'.brk = M.brk ∧
        ∀ b, b ≠ bo → b ≠ bn → M'.blocks b = M.blocks b) := by
  intro k
  induction k with
  | zero =>
    intro i fuel M oldc new hik hf hbo hbn hinv
    obtain ⟨f, rfl⟩ : ∃ f, fuel = f + 1 := ⟨fuel - 1, by omega⟩
    have : i = n := by omega
    subst this
    simp only [moveLoop, SeqArr.reserve_loop1, pne_off]
    simp
    exact ⟨hbn, by simp [hbo]⟩
  | succ k ih =>
    intro i fuel M oldc new hik hf hbo hbn hinv
    obtain ⟨f, rfl⟩ : ∃ f, fuel = f + 1 := ⟨fuel - 1, by omega⟩
    have hin : i ≠ n := by omega
    have hrd : rd M (some (bo, i)) = readCell old i := by rw [rd_at M bo i oldc hbo]; exact hinv i (Nat.le_refl _)
    simp only [moveLoop, SeqArr.reserve_loop1, pne_off, hrd]
    simp only [hin, ne_eq, not_false_eq_true, decide_true, if_true]
    cases hr : readCell old i with
    | none => simp
    | some v =>
      simp only [con_at M bn i new v hbn]
      cases hc : construct new i v with
      | none => simp
      | some new1 =>
        have hro : readCell oldc i = some v := by rw [hinv i (Nat.le_refl _)]; exact hr
        have hbo1 : ({ M with blocks := upd M.blocks bn (some new1) } : Mem).blocks bo = some oldc := by
          simp [upd_ne _ _ _ _ hne, hbo]
        simp only [Option.map_some, des_at _ bo i oldc hbo1, destroy_of_read oldc i v hro, padd]
        have h2 := ih (i + 1) f
          { M with blocks := upd (upd M.blocks bn (some new1)) bo (some (oldc.set i none)) } (oldc.set i none) new1
          (by omega) (by omega) (by simp [upd_same]) (by simp [upd_ne _ _ _ _ (Ne.symm hne), upd_same])
          (by intro j hj; rw [readCell_set_ne _ _ _ _ (by omega)]; exact hinv j (by omega))
        refine ⟨fun hn => h2.1 hn, fun new' hn => ?_⟩
        obtain ⟨M', e1, e2, e3, e4, e5⟩ := h2.2 new' hn
        refine ⟨M', e1, e2, e3, e4, ?_⟩
        intro b hb1 hb2
        rw [e5 b hb1 hb2]
        simp [upd_ne _ _ _ _ hb1, upd_ne _ _ _ _ hb2]

theorem sim_refl (M : Mem) (A : Arr) (r : RArr) (h : Rep M A r) : Sim M A (some (M, A)) (some r) :=
  ⟨h, Nat.le_refl _, fun _ _ _ => rfl, fun _ hb => Or.inl hb⟩

theorem asg_at (M : Mem) (b i : Nat) (cs : Cells) (v : Int) (h : M.blocks b = some cs) :
    asg M (some (b, i)) v =
      (readCell cs i).map (fun _ => { M with blocks := upd M.blocks b (some (cs.set i (some v))) }) := by
  simp only [asg, h]
  cases readCell cs i <;> rfl

/-- the shifting loop of `remove(usize)` -/
theorem removeIndex_loop1_spec (A : Arr) (ix sz b e : Nat) :
    ∀ (k pos fuel : Nat) (M : Mem) (cs : Cells) (dest : Option P), pos + k = e → k < fuel → M.blocks b = some cs →
      (shiftLoop cs pos k = none →
        SeqArr.removeIndex_loop1 fuel M A ix sz (some (b, pos)) (some (b, e)) dest = none) ∧
      (∀ cs', shiftLoop cs pos k = some cs' → ∃ M' dest',
        SeqArr.removeIndex_loop1 fuel M A ix sz (some (b, pos)) (some (b, e)) dest =
          some (M', A, ix, sz, some (b, e), some (b, e), dest') ∧
        M'.blocks b = some cs' ∧ M'.brk = M.brk ∧ ∀ b', b' ≠ b → M'.blocks b' = M.blocks b') := by
  intro k
  induction k with
  | zero =>
    intro pos fuel M cs dest hik hf hb
    obtain ⟨f, rfl⟩ : ∃ f, fuel = f + 1 := ⟨fuel - 1, by omega⟩
    have : pos = e := by omega
    subst this
    simp only [shiftLoop, SeqArr.removeIndex_loop1, plt_off]
    simp
    exact hb
  | succ k ih =>
    intro pos fuel M cs dest hik hf hb
    obtain ⟨f, rfl⟩ : ∃ f, fuel = f + 1 := ⟨fuel - 1, by omega⟩
    have hlt : pos < e := by omega
    simp only [shiftLoop, SeqArr.removeIndex_loop1, plt_off, hlt, decide_true, if_true, padd, rd_at M b (pos + 1) cs hb]
    cases hr : readCell cs (pos + 1) with
    | none => simp
    | some v =>
      simp only [asg_at M b pos cs v hb]
      cases hr2 : readCell cs pos with
      | none => simp
      | some w =>
        simp only [Option.map_some]
        have h2 := ih (pos + 1) f { M with blocks := upd M.blocks b (some (cs.set pos (some v))) } (cs.set pos (some v))
          (some (b, pos)) (by omega) (by omega) (by simp [upd_same])
        refine ⟨fun hn => h2.1 hn, fun cs' hn => ?_⟩
        obtain ⟨M', d', e1, e2, e3, e4⟩ := h2.2 cs' hn
        refine ⟨M', d', e1, e2, e3, ?_⟩
        intro b' hb'
        rw [e4 b' hb']
        simp [upd_ne _ _ _ _ hb']

/-- the shifting loop of `remove(const Iterator&)` (a textual copy in the header; translated and proved separately) -/
theorem removeIter_loop1_spec (A : Arr) (it : Option P) (b e : Nat) :
    ∀ (k pos fuel : Nat) (M : Mem) (cs : Cells) (dest : Option P), pos + k = e → k < fuel → M.blocks b = some cs →
      (shiftLoop cs pos k = none →
        SeqArr.removeIter_loop1 fuel M A it (some (b, pos)) (some (b, e)) dest = none) ∧
      (∀ cs', shiftLoop cs pos k = some cs' → ∃ M' dest',
        SeqArr.removeIter_loop1 fuel M A it (some (b, pos)) (some (b, e)) dest =
          some (M', A, it, some (b, e), some (b, e), dest') ∧
        M'.blocks b = some cs' ∧ M'.brk = M.brk ∧ ∀ b', b' ≠ b → M'.blocks b' = M.blocks b') := by
  intro k
  induction k with
  | zero =>
    intro pos fuel M cs dest hik hf hb
    obtain ⟨f, rfl⟩ : ∃ f, fuel = f + 1 := ⟨fuel - 1, by omega⟩
    have : pos = e := by omega
    subst this
    simp only [shiftLoop, SeqArr.removeIter_loop1, plt_off]
    simp
    exact hb
  | succ k ih =>
    intro pos fuel M cs dest hik hf hb
    obtain ⟨f, rfl⟩ : ∃ f, fuel = f + 1 := ⟨fuel - 1, by omega⟩
    have hlt : pos < e := by omega
    simp only [shiftLoop, SeqArr.removeIter_loop1, plt_off, hlt, decide_true, if_true, padd, rd_at M b (pos + 1) cs hb]
    cases hr : readCell cs (pos + 1) with
    | none => simp
    | some v =>
      simp only [asg_at M b pos cs v hb]
      cases hr2 : readCell cs pos with
      | none => simp
      | some w =>
        simp only [Option.map_some]
        have h2 := ih (pos + 1) f { M with blocks := upd M.blocks b (some (cs.set pos (some v))) } (cs.set pos (some v))
          (some (b, pos)) (by omega) (by omega) (by simp [upd_same])
        refine ⟨fun hn => h2.1 hn, fun cs' hn => ?_⟩
        obtain ⟨M', d', e1, e2, e3, e4⟩ := h2.2 cs' hn
        refine ⟨M', d', e1, e2, e3, ?_⟩
        intro b' hb'
        rw [e4 b' hb']
        simp [upd_ne _ _ _ _ hb']

end Nstd.Seq.AM
