import Nstd.Seq.ArrMem
import Nstd.Generated.SeqArr
/-
  Helper lemmas for PropsArr.lean: the loops of the TRANSLATED Array member functions (Generated/SeqArr.lean) against the
  loop functions of the cell-level model (RawArray.lean).
-/
set_option linter.unusedSimpArgs false
set_option linter.unusedVariables false
namespace Nstd.Seq.AM
open Nstd.Seq.Raw
open Nstd.Generated

theorem upd_same {β : Type} (f : Nat → β) (a : Nat) (x : β) : upd f a x a = x := by simp [upd]
theorem upd_ne {β : Type} (f : Nat → β) (a b : Nat) (x : β) (h : b ≠ a) : upd f a x b = f b := by simp [upd, h]

theorem needGrow_iff (A : Arr) (s : Nat) : (needGrow A s = true) = (s > A.cap ∨ (A.begin.isNone = true ∧ s > 0)) := by
  simp [needGrow]

theorem rd_at (M : Mem) (b i : Nat) (cs : Cells) (h : M.blocks b = some cs) : rd M (some (b, i)) = readCell cs i := by
  simp [rd, h]

theorem con_at (M : Mem) (b i : Nat) (cs : Cells) (v : Int) (h : M.blocks b = some cs) :
    con M (some (b, i)) v = (construct cs i v).map (fun cs' => { M with blocks := upd M.blocks b (some cs') }) := by
  simp only [con, h]
  cases construct cs i v <;> rfl

theorem des_at (M : Mem) (b i : Nat) (cs : Cells) (h : M.blocks b = some cs) :
    des M (some (b, i)) = (destroy cs i).map (fun cs' => { M with blocks := upd M.blocks b (some cs') }) := by
  simp only [des, h]
  cases destroy cs i <;> rfl

theorem pne_off (b i j : Nat) : pne (some (b, i)) (some (b, j)) = decide (i ≠ j) := by
  simp [pne]

theorem plt_off (b i j : Nat) : plt (some (b, i)) (some (b, j)) = decide (i < j) := by
  simp [plt]

theorem readCell_some_get (cs : Cells) (i : Nat) (v : Int) (h : readCell cs i = some v) : cs[i]? = some (some v) := by
  unfold readCell at h
  split at h
  · next w hw => cases h; exact hw
  · cases h

theorem destroy_of_read (cs : Cells) (i : Nat) (v : Int) (h : readCell cs i = some v) : destroy cs i = some (cs.set i none) := by
  simp [destroy, readCell_some_get cs i v h]

theorem readCell_set_ne (cs : Cells) (i j : Nat) (x : Option Int) (h : i ≠ j) : readCell (cs.set i x) j = readCell cs j := by
  simp [readCell, List.getElem?_set_ne h]

/-- the growth loop of `reserve`: copy-construct cell `i …` of the old block into the new one and destroy the source -/
theorem reserve_loop1_spec (A : Arr) (sz : Nat) (nd : Option P) (bo bn n : Nat) (hne : bo ≠ bn) (old : Cells) :
    ∀ (k i fuel : Nat) (M : Mem) (oldc new : Cells), i + k = n → k < fuel →
      M.blocks bo = some oldc → M.blocks bn = some new → (∀ j, i ≤ j → readCell oldc j = readCell old j) →
      (moveLoop old new i k = none →
        SeqArr.grow_loop1 fuel M A sz nd (some (bn, i)) (some (bo, i)) (some (bo, n)) = none) ∧
      (∀ new', moveLoop old new i k = some new' → ∃ M',
        SeqArr.grow_loop1 fuel M A sz nd (some (bn, i)) (some (bo, i)) (some (bo, n)) =
          some (M', A, sz, nd, some (bn, n), some (bo, n), some (bo, n)) ∧
        M'.blocks bn = some new' ∧ (M'.blocks bo).isSome ∧ M'.brk = M.brk ∧
        ∀ b, b ≠ bo → b ≠ bn → M'.blocks b = M.blocks b) := by
  intro k
  induction k with
  | zero =>
    intro i fuel M oldc new hik hf hbo hbn hinv
    obtain ⟨f, rfl⟩ : ∃ f, fuel = f + 1 := ⟨fuel - 1, by omega⟩
    have : i = n := by omega
    subst this
    simp only [moveLoop, SeqArr.grow_loop1, pne_off]
    simp
    exact ⟨hbn, by simp [hbo]⟩
  | succ k ih =>
    intro i fuel M oldc new hik hf hbo hbn hinv
    obtain ⟨f, rfl⟩ : ∃ f, fuel = f + 1 := ⟨fuel - 1, by omega⟩
    have hin : i ≠ n := by omega
    have hrd : rd M (some (bo, i)) = readCell old i := by rw [rd_at M bo i oldc hbo]; exact hinv i (Nat.le_refl _)
    simp only [moveLoop, SeqArr.grow_loop1, pne_off, hrd]
    simp only [hin, ne_eq, not_false_eq_true, decide_true, if_true]
    cases hr : readCell old i with
    | none => simp
    | some v =>
      simp only [con_at M bn i new v hbn]
      cases hc : construct new i v with
      | none => simp
      | some new1 =>
        have hro : readCell oldc i = some v := by rw [hinv i (Nat.le_refl _)]; exact hr
        have hbo1 : ({ M with blocks := upd M.blocks bn (some new1) } : Mem).blocks bo = some oldc := by
          simp [upd_ne _ _ _ _ hne, hbo]
        simp only [Option.map_some, des_at _ bo i oldc hbo1, destroy_of_read oldc i v hro, padd]
        have h2 := ih (i + 1) f
          { M with blocks := upd (upd M.blocks bn (some new1)) bo (some (oldc.set i none)) } (oldc.set i none) new1
          (by omega) (by omega) (by simp [upd_same]) (by simp [upd_ne _ _ _ _ (Ne.symm hne), upd_same])
          (by intro j hj; rw [readCell_set_ne _ _ _ _ (by omega)]; exact hinv j (by omega))
        refine ⟨fun hn => h2.1 hn, fun new' hn => ?_⟩
        obtain ⟨M', e1, e2, e3, e4, e5⟩ := h2.2 new' hn
        refine ⟨M', e1, e2, e3, e4, ?_⟩
        intro b hb1 hb2
        rw [e5 b hb1 hb2]
        simp [upd_ne _ _ _ _ hb1, upd_ne _ _ _ _ hb2]

theorem sim_refl (M : Mem) (A : Arr) (r : RArr) (h : Rep M A r) : Sim M A (some (M, A)) (some r) :=
  ⟨h, Nat.le_refl _, fun _ _ _ => rfl, fun _ hb => Or.inl hb⟩

theorem asg_at (M : Mem) (b i : Nat) (cs : Cells) (v : Int) (h : M.blocks b = some cs) :
    asg M (some (b, i)) v =
      (readCell cs i).map (fun _ => { M with blocks := upd M.blocks b (some (cs.set i (some v))) }) := by
  simp only [asg, h]
  cases readCell cs i <;> rfl

/-- the shifting loop of `remove(usize)` -/
theorem removeIndex_loop1_spec (A : Arr) (ix sz b e : Nat) :
    ∀ (k pos fuel : Nat) (M : Mem) (cs : Cells) (dest : Option P), pos + k = e → k < fuel → M.blocks b = some cs →
      (shiftLoop cs pos k = none →
        SeqArr.removeIndex_loop1 fuel M A ix sz (some (b, pos)) (some (b, e)) dest = none) ∧
      (∀ cs', shiftLoop cs pos k = some cs' → ∃ M' dest',
        SeqArr.removeIndex_loop1 fuel M A ix sz (some (b, pos)) (some (b, e)) dest =
          some (M', A, ix, sz, some (b, e), some (b, e), dest') ∧
        M'.blocks b = some cs' ∧ M'.brk = M.brk ∧ ∀ b', b' ≠ b → M'.blocks b' = M.blocks b') := by
  intro k
  induction k with
  | zero =>
    intro pos fuel M cs dest hik hf hb
    obtain ⟨f, rfl⟩ : ∃ f, fuel = f + 1 := ⟨fuel - 1, by omega⟩
    have : pos = e := by omega
    subst this
    simp only [shiftLoop, SeqArr.removeIndex_loop1, plt_off]
    simp
    exact hb
  | succ k ih =>
    intro pos fuel M cs dest hik hf hb
    obtain ⟨f, rfl⟩ : ∃ f, fuel = f + 1 := ⟨fuel - 1, by omega⟩
    have hlt : pos < e := by omega
    simp only [shiftLoop, SeqArr.removeIndex_loop1, plt_off, hlt, decide_true, if_true, padd, rd_at M b (pos + 1) cs hb]
    cases hr : readCell cs (pos + 1) with
    | none => simp
    | some v =>
      simp only [asg_at M b pos cs v hb]
      cases hr2 : readCell cs pos with
      | none => simp
      | some w =>
        simp only [Option.map_some]
        have h2 := ih (pos + 1) f { M with blocks := upd M.blocks b (some (cs.set pos (some v))) } (cs.set pos (some v))
          (some (b, pos)) (by omega) (by omega) (by simp [upd_same])
        refine ⟨fun hn => h2.1 hn, fun cs' hn => ?_⟩
        obtain ⟨M', d', e1, e2, e3, e4⟩ := h2.2 cs' hn
        refine ⟨M', d', e1, e2, e3, ?_⟩
        intro b' hb'
        rw [e4 b' hb']
        simp [upd_ne _ _ _ _ hb']

/-- the shifting loop of `remove(const Iterator&)` (a textual copy in the header; translated and proved separately) -/
theorem removeIter_loop1_spec (A : Arr) (it : Option P) (b e : Nat) :
    ∀ (k pos fuel : Nat) (M : Mem) (cs : Cells) (dest : Option P), pos + k = e → k < fuel → M.blocks b = some cs →
      (shiftLoop cs pos k = none →
        SeqArr.removeIter_loop1 fuel M A it (some (b, pos)) (some (b, e)) dest = none) ∧
      (∀ cs', shiftLoop cs pos k = some cs' → ∃ M' dest',
        SeqArr.removeIter_loop1 fuel M A it (some (b, pos)) (some (b, e)) dest =
          some (M', A, it, some (b, e), some (b, e), dest') ∧
        M'.blocks b = some cs' ∧ M'.brk = M.brk ∧ ∀ b', b' ≠ b → M'.blocks b' = M.blocks b') := by
  intro k
  induction k with
  | zero =>
    intro pos fuel M cs dest hik hf hb
    obtain ⟨f, rfl⟩ : ∃ f, fuel = f + 1 := ⟨fuel - 1, by omega⟩
    have : pos = e := by omega
    subst this
    simp only [shiftLoop, SeqArr.removeIter_loop1, plt_off]
    simp
    exact hb
  | succ k ih =>
    intro pos fuel M cs dest hik hf hb
    obtain ⟨f, rfl⟩ : ∃ f, fuel = f + 1 := ⟨fuel - 1, by omega⟩
    have hlt : pos < e := by omega
    simp only [shiftLoop, SeqArr.removeIter_loop1, plt_off, hlt, decide_true, if_true, padd, rd_at M b (pos + 1) cs hb]
    cases hr : readCell cs (pos + 1) with
    | none => simp
    | some v =>
      simp only [asg_at M b pos cs v hb]
      cases hr2 : readCell cs pos with
      | none => simp
      | some w =>
        simp only [Option.map_some]
        have h2 := ih (pos + 1) f { M with blocks := upd M.blocks b (some (cs.set pos (some v))) } (cs.set pos (some v))
          (some (b, pos)) (by omega) (by omega) (by simp [upd_same])
        refine ⟨fun hn => h2.1 hn, fun cs' hn => ?_⟩
        obtain ⟨M', d', e1, e2, e3, e4⟩ := h2.2 cs' hn
        refine ⟨M', d', e1, e2, e3, ?_⟩
        intro b' hb'
        rw [e4 b' hb']
        simp [upd_ne _ _ _ _ hb']

/-- the destructor loop of `clear()` -/
theorem clear_loop1_spec (A : Arr)  (b e : Nat) :
    ∀ (k i fuel : Nat) (M : Mem) (cs : Cells), i + k = e → k < fuel → M.blocks b = some cs →
      (destroyRange cs i k = none → SeqArr.clear_loop1 fuel M A (some (b, i)) (some (b, e)) = none) ∧
      (∀ cs', destroyRange cs i k = some cs' → ∃ M',
        SeqArr.clear_loop1 fuel M A (some (b, i)) (some (b, e)) = some (M', A, some (b, e), some (b, e)) ∧
        M'.blocks b = some cs' ∧ M'.brk = M.brk ∧ ∀ b', b' ≠ b → M'.blocks b' = M.blocks b') := by
  intro k
  induction k with
  | zero =>
    intro i fuel M cs hik hf hb
    obtain ⟨f, rfl⟩ : ∃ f, fuel = f + 1 := ⟨fuel - 1, by omega⟩
    have : i = e := by omega
    subst this
    simp only [destroyRange, SeqArr.clear_loop1, pne_off]
    simp
    exact hb
  | succ k ih =>
    intro i fuel M cs hik hf hb
    obtain ⟨f, rfl⟩ : ∃ f, fuel = f + 1 := ⟨fuel - 1, by omega⟩
    have hin : i ≠ e := by omega
    simp only [destroyRange, SeqArr.clear_loop1, pne_off, hin, ne_eq, not_false_eq_true, decide_true, if_true,
      des_at M b i cs hb]
    cases hd : destroy cs i with
    | none => simp
    | some cs1 =>
      simp only [Option.map_some, padd]
      have h2 := ih (i + 1) f { M with blocks := upd M.blocks b (some cs1) } cs1 (by omega) (by omega) (by simp [upd_same])
      refine ⟨fun hn => h2.1 hn, fun cs' hn => ?_⟩
      obtain ⟨M', e1, e2, e3, e4⟩ := h2.2 cs' hn
      refine ⟨M', e1, e2, e3, ?_⟩
      intro b' hb'
      rw [e4 b' hb']
      simp [upd_ne _ _ _ _ hb']

/-- the destructor loop of the shrinking `resize` -/
theorem resize_loop1_spec (A : Arr) (sz : Nat) (va : Option P) (os : Nat) (ne : Option P) (b e : Nat) :
    ∀ (k i fuel : Nat) (M : Mem) (cs : Cells), i + k = e → k < fuel → M.blocks b = some cs →
      (destroyRange cs i k = none → SeqArr.resize_loop1 fuel M A sz va os ne (some (b, i)) (some (b, e)) = none) ∧
      (∀ cs', destroyRange cs i k = some cs' → ∃ M',
        SeqArr.resize_loop1 fuel M A sz va os ne (some (b, i)) (some (b, e)) = some (M', A, sz, va, os, ne, some (b, e), some (b, e)) ∧
        M'.blocks b = some cs' ∧ M'.brk = M.brk ∧ ∀ b', b' ≠ b → M'.blocks b' = M.blocks b') := by
  intro k
  induction k with
  | zero =>
    intro i fuel M cs hik hf hb
    obtain ⟨f, rfl⟩ : ∃ f, fuel = f + 1 := ⟨fuel - 1, by omega⟩
    have : i = e := by omega
    subst this
    simp only [destroyRange, SeqArr.resize_loop1, pne_off]
    simp
    exact hb
  | succ k ih =>
    intro i fuel M cs hik hf hb
    obtain ⟨f, rfl⟩ : ∃ f, fuel = f + 1 := ⟨fuel - 1, by omega⟩
    have hin : i ≠ e := by omega
    simp only [destroyRange, SeqArr.resize_loop1, pne_off, hin, ne_eq, not_false_eq_true, decide_true, if_true,
      des_at M b i cs hb]
    cases hd : destroy cs i with
    | none => simp
    | some cs1 =>
      simp only [Option.map_some, padd]
      have h2 := ih (i + 1) f { M with blocks := upd M.blocks b (some cs1) } cs1 (by omega) (by omega) (by simp [upd_same])
      refine ⟨fun hn => h2.1 hn, fun cs' hn => ?_⟩
      obtain ⟨M', e1, e2, e3, e4⟩ := h2.2 cs' hn
      refine ⟨M', e1, e2, e3, ?_⟩
      intro b' hb'
      rw [e4 b' hb']
      simp [upd_ne _ _ _ _ hb']

/-- the fill loop of the growing `resize` with `src` pointing to a constructed element `x` of another allocation -/
theorem resize_loop2_ext (A : Arr) (sz : Nat) (va : Option P) (os : Nat) (b e bv j : Nat) (x : Int) (hne : bv ≠ b) :
    ∀ (k i fuel : Nat) (M : Mem) (cs vcs : Cells), i + k = e → k < fuel → M.blocks b = some cs →
      M.blocks bv = some vcs → readCell vcs j = some x →
      (fillFrom cs i (List.replicate k x) = none →
        SeqArr.resize_loop2 fuel M A sz va os (some (bv, j)) (some (b, e)) (some (b, i)) = none) ∧
      (∀ cs', fillFrom cs i (List.replicate k x) = some cs' → ∃ M',
        SeqArr.resize_loop2 fuel M A sz va os (some (bv, j)) (some (b, e)) (some (b, i)) =
          some (M', A, sz, va, os, some (bv, j), some (b, e), some (b, e)) ∧
        M'.blocks b = some cs' ∧ M'.brk = M.brk ∧ ∀ b', b' ≠ b → M'.blocks b' = M.blocks b') := by
  intro k
  induction k with
  | zero =>
    intro i fuel M cs vcs hik hf hb hv hx
    obtain ⟨f, rfl⟩ : ∃ f, fuel = f + 1 := ⟨fuel - 1, by omega⟩
    have : i = e := by omega
    subst this
    simp only [List.replicate, fillFrom, SeqArr.resize_loop2, pne_off]
    simp
    exact hb
  | succ k ih =>
    intro i fuel M cs vcs hik hf hb hv hx
    obtain ⟨f, rfl⟩ : ∃ f, fuel = f + 1 := ⟨fuel - 1, by omega⟩
    have hin : i ≠ e := by omega
    simp only [List.replicate, fillFrom, SeqArr.resize_loop2, pne_off, hin, ne_eq, not_false_eq_true, decide_true, if_true,
      rd_at M bv j vcs hv, hx, con_at M b i cs x hb]
    cases hc : construct cs i x with
    | none => simp
    | some cs1 =>
      simp only [Option.map_some, padd]
      have h2 := ih (i + 1) f { M with blocks := upd M.blocks b (some cs1) } cs1 vcs (by omega) (by omega) (by simp [upd_same])
        (by simp [upd_ne _ _ _ _ hne, hv]) hx
      refine ⟨fun hn => h2.1 hn, fun cs' hn => ?_⟩
      obtain ⟨M', e1, e2, e3, e4⟩ := h2.2 cs' hn
      refine ⟨M', e1, e2, e3, ?_⟩
      intro b' hb'
      rw [e4 b' hb']
      simp [upd_ne _ _ _ _ hb']

/-- … and with `src` pointing to element `j` of the array's own (new) block: the model's `fillRefLoop` -/
theorem resize_loop2_alias (A : Arr) (sz : Nat) (va : Option P) (os : Nat) (b e j : Nat) :
    ∀ (k i fuel : Nat) (M : Mem) (cs : Cells), i + k = e → k < fuel → M.blocks b = some cs →
      (fillRefLoop cs i j k = none →
        SeqArr.resize_loop2 fuel M A sz va os (some (b, j)) (some (b, e)) (some (b, i)) = none) ∧
      (∀ cs', fillRefLoop cs i j k = some cs' → ∃ M',
        SeqArr.resize_loop2 fuel M A sz va os (some (b, j)) (some (b, e)) (some (b, i)) =
          some (M', A, sz, va, os, some (b, j), some (b, e), some (b, e)) ∧
        M'.blocks b = some cs' ∧ M'.brk = M.brk ∧ ∀ b', b' ≠ b → M'.blocks b' = M.blocks b') := by
  intro k
  induction k with
  | zero =>
    intro i fuel M cs hik hf hb
    obtain ⟨f, rfl⟩ : ∃ f, fuel = f + 1 := ⟨fuel - 1, by omega⟩
    have : i = e := by omega
    subst this
    simp only [fillRefLoop, SeqArr.resize_loop2, pne_off]
    simp
    exact hb
  | succ k ih =>
    intro i fuel M cs hik hf hb
    obtain ⟨f, rfl⟩ : ∃ f, fuel = f + 1 := ⟨fuel - 1, by omega⟩
    have hin : i ≠ e := by omega
    simp only [fillRefLoop, SeqArr.resize_loop2, pne_off, hin, ne_eq, not_false_eq_true, decide_true, if_true,
      rd_at M b j cs hb]
    cases hr : readCell cs j with
    | none => simp
    | some v =>
      simp only [con_at M b i cs v hb]
      cases hc : construct cs i v with
      | none => simp
      | some cs1 =>
        simp only [Option.map_some, padd]
        have h2 := ih (i + 1) f { M with blocks := upd M.blocks b (some cs1) } cs1 (by omega) (by omega) (by simp [upd_same])
        refine ⟨fun hn => h2.1 hn, fun cs' hn => ?_⟩
        obtain ⟨M', e1, e2, e3, e4⟩ := h2.2 cs' hn
        refine ⟨M', e1, e2, e3, ?_⟩
        intro b' hb'
        rw [e4 b' hb']
        simp [upd_ne _ _ _ _ hb']

/-- the copy loop of `append(const T* values, usize size)` with `values` pointing to the constructed elements `xs` of
    another allocation -/
theorem appendPtr_loop1_ext (A : Arr) (sz os : Nat) (b bv : Nat) (hne : bv ≠ b) :
    ∀ (xs : List Int) (i j e fuel : Nat) (M : Mem) (cs vcs : Cells), i + xs.length = e → xs.length < fuel →
      M.blocks b = some cs → M.blocks bv = some vcs → (∀ t (ht : t < xs.length), readCell vcs (j + t) = some xs[t]) →
      (fillFrom cs i xs = none →
        SeqArr.appendPtr_loop1 fuel M A (some (bv, j)) sz os (some (b, i)) (some (b, e)) = none) ∧
      (∀ cs', fillFrom cs i xs = some cs' → ∃ M',
        SeqArr.appendPtr_loop1 fuel M A (some (bv, j)) sz os (some (b, i)) (some (b, e)) =
          some (M', A, some (bv, j + xs.length), sz, os, some (b, e), some (b, e)) ∧
        M'.blocks b = some cs' ∧ M'.brk = M.brk ∧ ∀ b', b' ≠ b → M'.blocks b' = M.blocks b') := by
  intro xs
  induction xs with
  | nil =>
    intro i j e fuel M cs vcs hik hf hb hv hx
    obtain ⟨f, rfl⟩ : ∃ f, fuel = f + 1 := ⟨fuel - 1, by omega⟩
    have : i = e := by simpa using hik
    subst this
    simp only [fillFrom, SeqArr.appendPtr_loop1, plt_off]
    simp
    exact hb
  | cons x xs ih =>
    intro i j e fuel M cs vcs hik hf hb hv hx
    simp only [List.length_cons] at hik hf
    obtain ⟨f, rfl⟩ : ∃ f, fuel = f + 1 := ⟨fuel - 1, by omega⟩
    have hlt : i < e := by omega
    have hx0 : readCell vcs j = some x := by
      have := hx 0 (by simp)
      simpa only [Nat.add_zero, List.getElem_cons_zero] using this
    simp only [fillFrom, SeqArr.appendPtr_loop1, plt_off, hlt, decide_true, if_true, rd_at M bv j vcs hv, hx0,
      con_at M b i cs x hb]
    cases hc : construct cs i x with
    | none => simp
    | some cs1 =>
      simp only [Option.map_some, padd]
      have h2 := ih (i + 1) (j + 1) e f { M with blocks := upd M.blocks b (some cs1) } cs1 vcs (by omega) (by omega)
        (by simp [upd_same]) (by simp [upd_ne _ _ _ _ hne, hv])
        (by intro t ht
            have := hx (t + 1) (by simp; omega)
            simpa [Nat.add_assoc, Nat.add_comm 1 t] using this)
      refine ⟨fun hn => h2.1 hn, fun cs' hn => ?_⟩
      obtain ⟨M', e1, e2, e3, e4⟩ := h2.2 cs' hn
      refine ⟨M', ?_, e2, e3, ?_⟩
      · rw [e1]; simp [Nat.add_assoc, Nat.add_comm 1 xs.length]
      · intro b' hb'
        rw [e4 b' hb']
        simp [upd_ne _ _ _ _ hb']

/-- … and with `values` pointing to element `j` of the array's own (new) block: the model's `selfCopyLoop` -/
theorem appendPtr_loop1_alias (A : Arr) (sz os : Nat) (b e : Nat) :
    ∀ (k i j fuel : Nat) (M : Mem) (cs : Cells), i + k = e → k < fuel → M.blocks b = some cs →
      (selfCopyLoop cs i j k = none →
        SeqArr.appendPtr_loop1 fuel M A (some (b, j)) sz os (some (b, i)) (some (b, e)) = none) ∧
      (∀ cs', selfCopyLoop cs i j k = some cs' → ∃ M',
        SeqArr.appendPtr_loop1 fuel M A (some (b, j)) sz os (some (b, i)) (some (b, e)) =
          some (M', A, some (b, j + k), sz, os, some (b, e), some (b, e)) ∧
        M'.blocks b = some cs' ∧ M'.brk = M.brk ∧ ∀ b', b' ≠ b → M'.blocks b' = M.blocks b') := by
  intro k
  induction k with
  | zero =>
    intro i j fuel M cs hik hf hb
    obtain ⟨f, rfl⟩ : ∃ f, fuel = f + 1 := ⟨fuel - 1, by omega⟩
    have : i = e := by omega
    subst this
    simp only [selfCopyLoop, SeqArr.appendPtr_loop1, plt_off]
    simp
    exact hb
  | succ k ih =>
    intro i j fuel M cs hik hf hb
    obtain ⟨f, rfl⟩ : ∃ f, fuel = f + 1 := ⟨fuel - 1, by omega⟩
    have hlt : i < e := by omega
    simp only [selfCopyLoop, SeqArr.appendPtr_loop1, plt_off, hlt, decide_true, if_true, rd_at M b j cs hb]
    cases hr : readCell cs j with
    | none => simp
    | some v =>
      simp only [con_at M b i cs v hb]
      cases hc : construct cs i v with
      | none => simp
      | some cs1 =>
        simp only [Option.map_some, padd]
        have h2 := ih (i + 1) (j + 1) f { M with blocks := upd M.blocks b (some cs1) } cs1 (by omega) (by omega)
          (by simp [upd_same])
        refine ⟨fun hn => h2.1 hn, fun cs' hn => ?_⟩
        obtain ⟨M', e1, e2, e3, e4⟩ := h2.2 cs' hn
        refine ⟨M', ?_, e2, e3, ?_⟩
        · rw [e1]; simp [Nat.add_assoc, Nat.add_comm 1 k]
        · intro b' hb'
          rw [e4 b' hb']
          simp [upd_ne _ _ _ _ hb']

/-- the copy loop of `append(const Array& values)` with `values` another array whose storage holds the constructed elements `xs` -/
theorem appendArray_loop1_ext (A : Arr) (va : Option Arr) (sz vs : Nat) (b bv : Nat) (hne : bv ≠ b) :
    ∀ (xs : List Int) (i j e fuel : Nat) (M : Mem) (cs vcs : Cells), i + xs.length = e → xs.length < fuel →
      M.blocks b = some cs → M.blocks bv = some vcs → (∀ t (ht : t < xs.length), readCell vcs (j + t) = some xs[t]) →
      (fillFrom cs i xs = none →
        SeqArr.appendArray_loop1 fuel M A va sz vs (some (b, i)) (some (b, e)) (some (bv, j)) = none) ∧
      (∀ cs', fillFrom cs i xs = some cs' → ∃ M',
        SeqArr.appendArray_loop1 fuel M A va sz vs (some (b, i)) (some (b, e)) (some (bv, j)) =
          some (M', A, va, sz, vs, some (b, e), some (b, e), some (bv, j + xs.length)) ∧
        M'.blocks b = some cs' ∧ M'.brk = M.brk ∧ ∀ b', b' ≠ b → M'.blocks b' = M.blocks b') := by
  intro xs
  induction xs with
  | nil =>
    intro i j e fuel M cs vcs hik hf hb hv hx
    obtain ⟨f, rfl⟩ : ∃ f, fuel = f + 1 := ⟨fuel - 1, by omega⟩
    have : i = e := by simpa using hik
    subst this
    simp only [fillFrom, SeqArr.appendArray_loop1, plt_off, pne_off]
    simp
    exact hb
  | cons x xs ih =>
    intro i j e fuel M cs vcs hik hf hb hv hx
    simp only [List.length_cons] at hik hf
    obtain ⟨f, rfl⟩ : ∃ f, fuel = f + 1 := ⟨fuel - 1, by omega⟩
    have hlt : i < e := by omega
    have hx0 : readCell vcs j = some x := by
      have := hx 0 (by simp)
      simpa only [Nat.add_zero, List.getElem_cons_zero] using this
    have hie : i ≠ e := by omega
    simp only [fillFrom, SeqArr.appendArray_loop1, plt_off, pne_off, hlt, hie, ne_eq, not_false_eq_true, decide_true, if_true,
      rd_at M bv j vcs hv, hx0,
      con_at M b i cs x hb]
    cases hc : construct cs i x with
    | none => simp
    | some cs1 =>
      simp only [Option.map_some, padd]
      have h2 := ih (i + 1) (j + 1) e f { M with blocks := upd M.blocks b (some cs1) } cs1 vcs (by omega) (by omega)
        (by simp [upd_same]) (by simp [upd_ne _ _ _ _ hne, hv])
        (by intro t ht
            have := hx (t + 1) (by simp; omega)
            simpa [Nat.add_assoc, Nat.add_comm 1 t] using this)
      refine ⟨fun hn => h2.1 hn, fun cs' hn => ?_⟩
      obtain ⟨M', e1, e2, e3, e4⟩ := h2.2 cs' hn
      refine ⟨M', ?_, e2, e3, ?_⟩
      · rw [e1]; simp [Nat.add_assoc, Nat.add_comm 1 xs.length]
      · intro b' hb'
        rw [e4 b' hb']
        simp [upd_ne _ _ _ _ hb']

/-- … and with `values` the array itself (`a.append(a)`): `src` walks the array's own (new) block: `selfCopyLoop` -/
theorem appendArray_loop1_alias (A : Arr) (va : Option Arr) (sz vs : Nat) (b e : Nat) :
    ∀ (k i j fuel : Nat) (M : Mem) (cs : Cells), i + k = e → k < fuel → M.blocks b = some cs →
      (selfCopyLoop cs i j k = none →
        SeqArr.appendArray_loop1 fuel M A va sz vs (some (b, i)) (some (b, e)) (some (b, j)) = none) ∧
      (∀ cs', selfCopyLoop cs i j k = some cs' → ∃ M',
        SeqArr.appendArray_loop1 fuel M A va sz vs (some (b, i)) (some (b, e)) (some (b, j)) =
          some (M', A, va, sz, vs, some (b, e), some (b, e), some (b, j + k)) ∧
        M'.blocks b = some cs' ∧ M'.brk = M.brk ∧ ∀ b', b' ≠ b → M'.blocks b' = M.blocks b') := by
  intro k
  induction k with
  | zero =>
    intro i j fuel M cs hik hf hb
    obtain ⟨f, rfl⟩ : ∃ f, fuel = f + 1 := ⟨fuel - 1, by omega⟩
    have : i = e := by omega
    subst this
    simp only [selfCopyLoop, SeqArr.appendArray_loop1, plt_off, pne_off]
    simp
    exact hb
  | succ k ih =>
    intro i j fuel M cs hik hf hb
    obtain ⟨f, rfl⟩ : ∃ f, fuel = f + 1 := ⟨fuel - 1, by omega⟩
    have hlt : i < e := by omega
    have hie : i ≠ e := by omega
    simp only [selfCopyLoop, SeqArr.appendArray_loop1, plt_off, pne_off, hlt, hie, ne_eq, not_false_eq_true, decide_true, if_true,
      rd_at M b j cs hb]
    cases hr : readCell cs j with
    | none => simp
    | some v =>
      simp only [con_at M b i cs v hb]
      cases hc : construct cs i v with
      | none => simp
      | some cs1 =>
        simp only [Option.map_some, padd]
        have h2 := ih (i + 1) (j + 1) f { M with blocks := upd M.blocks b (some cs1) } cs1 (by omega) (by omega)
          (by simp [upd_same])
        refine ⟨fun hn => h2.1 hn, fun cs' hn => ?_⟩
        obtain ⟨M', e1, e2, e3, e4⟩ := h2.2 cs' hn
        refine ⟨M', ?_, e2, e3, ?_⟩
        · rw [e1]; simp [Nat.add_assoc, Nat.add_comm 1 k]
        · intro b' hb'
          rw [e4 b' hb']
          simp [upd_ne _ _ _ _ hb']

end Nstd.Seq.AM
