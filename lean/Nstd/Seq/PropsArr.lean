import Nstd.Seq.LemmasArr2
/-
  Property C03, the tie by TRANSLATION for `Array`: `Nstd.Generated.SeqArr` holds the bodies of the member functions of
  include/nstd/Array.hpp that contain the loops, as tools/gen_seq.py reads them off the CURRENT header on every run.
-/
set_option linter.unusedSimpArgs false
set_option linter.unusedVariables false
namespace Nstd.Seq
open Nstd.Generated
open Nstd.Seq.Raw
open Nstd.Seq.AM

variable [ArrCfg]

/-- The translated body of `Array::reserve(usize)` from the allocation statement on — allocate `_capacity` raw cells,
    copy-construct every element into the new block and destroy the source (the growth loop), `delete[]` the old block,
    re-point `_begin.item` / `_end.item` — under the model's guard and capacity rule is the cell-level model's `reserve`
    (`moveLoop`), for every memory representing a model state, every requested size, every mask; fuel `size() + 1`
    suffices.  Both fault in the same cases (an element that is not constructed, a cell outside the new block). -/
theorem gen_reserve (M : Mem) (A : Arr) (r : RArr) (h : Rep M A r) (size fuel : Nat) (hf : r.n < fuel) :
    Sim M A (SeqArr.reserve fuel M A size) (Raw.reserve r size) :=
  reserve_sim M A r h size fuel hf

/-- The translated `Array::remove(usize index)` — size test, the shifting assignment loop `*dest = *(++pos)` up to the
    decremented `_end.item`, the destructor call on the last element — is the cell-level model's `removeAt` (nothing happens
    for `index ≥ size`), for every memory representing a model state and every index; fuel `size` suffices. -/
theorem gen_remove_index (M : Mem) (A : Arr) (r : RArr) (h : Rep M A r) (i fuel : Nat) (hf : r.n ≤ fuel) :
    Sim M A (SeqArr.removeIndex fuel M A i) (if i < r.n then Raw.removeAt r i else some r) := by
  obtain ⟨hcap, hrep⟩ := h
  unfold SeqArr.removeIndex Raw.removeAt
  cases hc : r.cells with
  | none =>
    rw [hc] at hrep
    obtain ⟨hb, he, hn⟩ := hrep
    simp only [hb, he, pdiff, hn, Nat.not_lt_zero, decide_false, Bool.false_eq_true, if_false]
    exact sim_refl M A r ⟨hcap, by rw [hc]; exact ⟨hb, he, hn⟩⟩
  | some cs =>
    rw [hc] at hrep
    obtain ⟨b, hbk, hb, he, hblk⟩ := hrep
    simp only [hb, he, pdiff, and_self, Nat.zero_le, if_true, Nat.sub_zero, true_and]
    by_cases hi : i < r.n
    · have hpos : 0 < r.n := by omega
      simp only [hi, decide_true, if_true, padd, pdec, hpos, Nat.zero_add]
      have key := removeIndex_loop1_spec { begin := some (b, 0), end_ := some (b, r.n - 1), cap := A.cap } i r.n b (r.n - 1)
        (r.n - 1 - i) i fuel M cs none (by omega) (by omega) hblk
      cases hs : shiftLoop cs i (r.n - 1 - i) with
      | none => simp only [key.1 hs, Sim]
      | some cs1 =>
        obtain ⟨M', d', e1, e2, e3, e4⟩ := key.2 cs1 hs
        have hA : A = { begin := some (b, 0), end_ := some (b, r.n), cap := A.cap } := by
          cases A; simp_all
        rw [hA]
        simp only [e1, des_at M' b (r.n - 1) cs1 e2]
        cases hd : destroy cs1 (r.n - 1) with
        | none => simp [Sim]
        | some cs2 =>
          simp only [Option.map_some, Sim]
          refine ⟨⟨hcap, ?_⟩, by simp [e3], ?_, ?_⟩
          · simp only []
            exact ⟨b, by simp [e3]; exact hbk, rfl, rfl, by simp [upd_same]⟩
          · intro b' hb' hown
            have h1 : b' ≠ b := fun e => hown ⟨0, by rw [e]⟩
            simp [upd_ne _ _ _ _ h1, e4 b' h1]
          · exact fun b' hb' => Or.inl hb'
    · simp only [hi, decide_false, Bool.false_eq_true, if_false]
      exact sim_refl M A r ⟨hcap, by rw [hc]; exact ⟨b, hbk, hb, he, hblk⟩⟩

/-- The translated `Array::remove(const Iterator& it)` for an iterator designating element `i < size` is the model's
    `removeAt r i`, and the returned iterator is `it.item` itself: it designates the successor of the removed element (or
    `end()`), which has been shifted into its place. -/
theorem gen_remove_iter (M : Mem) (A : Arr) (r : RArr) (h : Rep M A r) (b i fuel : Nat) (hb : A.begin = some (b, 0))
    (hi : i < r.n) (hf : r.n ≤ fuel) :
    SimR M A (SeqArr.removeIter fuel M A (some (b, i))) (Raw.removeAt r i) (fun _ => some (b, i)) := by
  obtain ⟨hcap, hrep⟩ := h
  unfold SeqArr.removeIter Raw.removeAt SimR
  cases hc : r.cells with
  | none =>
    rw [hc] at hrep
    rw [hrep.1] at hb; cases hb
  | some cs =>
    rw [hc] at hrep
    obtain ⟨b0, hbk, hb0, he, hblk⟩ := hrep
    have : b0 = b := by rw [hb0] at hb; cases hb; rfl
    subst this
    have hpos : 0 < r.n := by omega
    simp only [he, hi, if_true, pdec, hpos]
    have key := removeIter_loop1_spec { begin := some (b0, 0), end_ := some (b0, r.n - 1), cap := A.cap } (some (b0, i)) b0 (r.n - 1)
      (r.n - 1 - i) i fuel M cs none (by omega) (by omega) hblk
    have hA : A = { begin := some (b0, 0), end_ := some (b0, r.n), cap := A.cap } := by
      cases A; simp_all
    rw [hA]
    cases hs : shiftLoop cs i (r.n - 1 - i) with
    | none => simp only [key.1 hs, Sim]; simp
    | some cs1 =>
      obtain ⟨M', d', e1, e2, e3, e4⟩ := key.2 cs1 hs
      simp only [e1, des_at M' b0 (r.n - 1) cs1 e2]
      cases hd : destroy cs1 (r.n - 1) with
      | none => simp [Sim]
      | some cs2 =>
        simp only [Option.map_some, Sim]
        refine ⟨⟨⟨hcap, ?_⟩, by simp [e3], ?_, ?_⟩, ?_⟩
        · simp only []
          exact ⟨b0, by simp [e3]; exact hbk, rfl, rfl, by simp [upd_same]⟩
        · intro b' hb' hown
          have h1 : b' ≠ b0 := fun e => hown ⟨0, by rw [e]⟩
          simp [upd_ne _ _ _ _ h1, e4 b' h1]
        · exact fun b' hb' => Or.inl hb'
        · intro t ht
          cases ht; rfl

end Nstd.Seq
