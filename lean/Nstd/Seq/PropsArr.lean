import Nstd.Seq.LemmasArr
/-
  Property C03, the tie by TRANSLATION for `Array`: `Nstd.Generated.SeqArr` holds the bodies of the member functions of
  include/nstd/Array.hpp that contain the loops, as tools/gen_seq.py reads them off the CURRENT header on every run.
-/
set_option linter.unusedSimpArgs false
set_option linter.unusedVariables false
namespace Nstd.Seq
open Nstd.Generated
open Nstd.Seq.Raw
open Nstd.Seq.AM

variable [ArrCfg]

theorem gen_reserve (M : Mem) (A : Arr) (r : RArr) (h : Rep M A r) (size fuel : Nat) (hf : r.n < fuel) :
    Sim M A (SeqArr.reserve fuel M A size) (Raw.reserve r size) := by
  obtain ⟨hcap, hrep⟩ := h
  unfold SeqArr.reserve Raw.reserve
  cases hc : r.cells with
  | none =>
    rw [hc] at hrep
    obtain ⟨hb, he, hn⟩ := hrep
    simp only [hb, hcap, Option.isNone_none, Option.isSome_none, true_and]
    by_cases hg : size > r.cap ∨ size > 0
    · simp only [hg, if_true, Bool.false_eq_true, if_false, Sim, allocPtr, alloc]
      refine ⟨⟨rfl, ?_⟩, by simp, ?_, ?_⟩
      · simp only []
        exact ⟨M.brk, by simp, rfl, rfl, by simp [upd_same]⟩
      · intro b hb _
        simp [upd_ne _ _ _ _ (Nat.ne_of_lt hb)]
      · rintro b ⟨i, hi⟩
        simp only [Option.some.injEq, Prod.mk.injEq] at hi
        exact Or.inr (by omega)
    · simp only [hg, if_false]
      exact sim_refl M A r ⟨hcap, by rw [hc]; exact ⟨hb, he, hn⟩⟩
  | some old =>
    rw [hc] at hrep
    obtain ⟨b, hbk, hb, he, hblk⟩ := hrep
    simp only [hb, he, hcap, Option.isNone_some, Option.isSome_some, Bool.false_eq_true, false_and, or_false, if_true]
    by_cases hg : size > r.cap
    · simp only [hg, if_true, allocPtr, alloc]
      have hne : b ≠ M.brk := Nat.ne_of_lt hbk
      have key := reserve_loop1_spec
        { begin := some (b, 0), end_ := some (b, r.n), cap := size ||| ArrCfg.mask } size (some (M.brk, 0)) b M.brk r.n hne old
        r.n 0 fuel
        { blocks := upd M.blocks M.brk (some (List.replicate (size ||| ArrCfg.mask) none)), brk := M.brk + 1 } old
        (List.replicate (size ||| ArrCfg.mask) none) (by omega) hf
        (by simp [upd_ne _ _ _ _ hne, hblk]) (by simp [upd_same]) (fun _ _ => rfl)
      cases hm : moveLoop old (List.replicate (size ||| ArrCfg.mask) none) 0 r.n with
      | none => simp only [key.1 hm, Sim]
      | some new' =>
        obtain ⟨M', e1, e2, e3, e4, e5⟩ := key.2 new' hm
        simp only [e1, del, e3, and_self, if_true, Sim]
        refine ⟨⟨rfl, ?_⟩, by simp [e4], ?_, ?_⟩
        · simp only []
          exact ⟨M.brk, by simp [e4], rfl, rfl, by simp [upd_ne _ _ _ _ (Ne.symm hne), e2]⟩
        · intro b' hb' hown
          have h1 : b' ≠ b := fun e => hown ⟨0, by rw [e]; exact hb⟩
          have h2 : b' ≠ M.brk := Nat.ne_of_lt hb'
          simp [upd_ne _ _ _ _ h1, e5 b' h1 h2, upd_ne _ _ _ _ h2]
        · rintro b' ⟨i, hi⟩
          simp only [Option.some.injEq, Prod.mk.injEq] at hi
          exact Or.inr (by omega)
    · simp only [hg, if_false]
      exact sim_refl M A r ⟨hcap, by rw [hc]; exact ⟨b, hbk, hb, he, hblk⟩⟩

/-- The translated `Array::remove(usize index)` — size test, the shifting assignment loop `*dest = *(++pos)` up to the
    decremented `_end.item`, the destructor call on the last element — is the cell-level model's `removeAt` (nothing happens
    for `index ≥ size`), for every memory representing a model state and every index; fuel `size` suffices. -/
theorem gen_remove_index (M : Mem) (A : Arr) (r : RArr) (h : Rep M A r) (i fuel : Nat) (hf : r.n ≤ fuel) :
    Sim M A (SeqArr.removeIndex fuel M A i) (if i < r.n then Raw.removeAt r i else some r) := by
  obtain ⟨hcap, hrep⟩ := h
  unfold SeqArr.removeIndex Raw.removeAt
  cases hc : r.cells with
  | none =>
    rw [hc] at hrep
    obtain ⟨hb, he, hn⟩ := hrep
    simp only [hb, he, pdiff, hn, Nat.not_lt_zero, decide_false, Bool.false_eq_true, if_false]
    exact sim_refl M A r ⟨hcap, by rw [hc]; exact ⟨hb, he, hn⟩⟩
  | some cs =>
    rw [hc] at hrep
    obtain ⟨b, hbk, hb, he, hblk⟩ := hrep
    simp only [hb, he, pdiff, and_self, Nat.zero_le, if_true, Nat.sub_zero, true_and]
    by_cases hi : i < r.n
    · have hpos : 0 < r.n := by omega
      simp only [hi, decide_true, if_true, padd, pdec, hpos, Nat.zero_add]
      have key := removeIndex_loop1_spec { begin := some (b, 0), end_ := some (b, r.n - 1), cap := A.cap } i r.n b (r.n - 1)
        (r.n - 1 - i) i fuel M cs none (by omega) (by omega) hblk
      cases hs : shiftLoop cs i (r.n - 1 - i) with
      | none => simp only [key.1 hs, Sim]
      | some cs1 =>
        obtain ⟨M', d', e1, e2, e3, e4⟩ := key.2 cs1 hs
        have hA : A = { begin := some (b, 0), end_ := some (b, r.n), cap := A.cap } := by
          cases A; simp_all
        rw [hA]
        simp only [e1, des_at M' b (r.n - 1) cs1 e2]
        cases hd : destroy cs1 (r.n - 1) with
        | none => simp [Sim]
        | some cs2 =>
          simp only [Option.map_some, Sim]
          refine ⟨⟨hcap, ?_⟩, by simp [e3], ?_, ?_⟩
          · simp only []
            exact ⟨b, by simp [e3]; exact hbk, rfl, rfl, by simp [upd_same]⟩
          · intro b' hb' hown
            have h1 : b' ≠ b := fun e => hown ⟨0, by rw [e]⟩
            simp [upd_ne _ _ _ _ h1, e4 b' h1]
          · exact fun b' hb' => Or.inl hb'
    · simp only [hi, decide_false, Bool.false_eq_true, if_false]
      exact sim_refl M A r ⟨hcap, by rw [hc]; exact ⟨b, hbk, hb, he, hblk⟩⟩

/-- The translated `Array::remove(const Iterator& it)` for an iterator designating element `i < size` is the model's
    `removeAt r i`, and the returned iterator is `it.item` itself: it designates the successor of the removed element (or
    `end()`), which has been shifted into its place. -/
theorem gen_remove_iter (M : Mem) (A : Arr) (r : RArr) (h : Rep M A r) (b i fuel : Nat) (hb : A.begin = some (b, 0))
    (hi : i < r.n) (hf : r.n ≤ fuel) :
    SimR M A (SeqArr.removeIter fuel M A (some (b, i))) (Raw.removeAt r i) (fun _ => some (b, i)) := by
  obtain ⟨hcap, hrep⟩ := h
  unfold SeqArr.removeIter Raw.removeAt SimR
  cases hc : r.cells with
  | none =>
    rw [hc] at hrep
    rw [hrep.1] at hb; cases hb
  | some cs =>
    rw [hc] at hrep
    obtain ⟨b0, hbk, hb0, he, hblk⟩ := hrep
    have : b0 = b := by rw [hb0] at hb; cases hb; rfl
    subst this
    have hpos : 0 < r.n := by omega
    simp only [he, hi, if_true, pdec, hpos]
    have key := removeIter_loop1_spec { begin := some (b0, 0), end_ := some (b0, r.n - 1), cap := A.cap } (some (b0, i)) b0 (r.n - 1)
      (r.n - 1 - i) i fuel M cs none (by omega) (by omega) hblk
    have hA : A = { begin := some (b0, 0), end_ := some (b0, r.n), cap := A.cap } := by
      cases A; simp_all
    rw [hA]
    cases hs : shiftLoop cs i (r.n - 1 - i) with
    | none => simp only [key.1 hs, Sim]; simp
    | some cs1 =>
      obtain ⟨M', d', e1, e2, e3, e4⟩ := key.2 cs1 hs
      simp only [e1, des_at M' b0 (r.n - 1) cs1 e2]
      cases hd : destroy cs1 (r.n - 1) with
      | none => simp [Sim]
      | some cs2 =>
        simp only [Option.map_some, Sim]
        refine ⟨⟨⟨hcap, ?_⟩, by simp [e3], ?_, ?_⟩, ?_⟩
        · simp only []
          exact ⟨b0, by simp [e3]; exact hbk, rfl, rfl, by simp [upd_same]⟩
        · intro b' hb' hown
          have h1 : b' ≠ b0 := fun e => hown ⟨0, by rw [e]⟩
          simp [upd_ne _ _ _ _ h1, e4 b' h1]
        · exact fun b' hb' => Or.inl hb'
        · intro t ht
          cases ht; rfl

end Nstd.Seq
