import Nstd.Seq.LemmasSortAny
/-
  The position-level quicksort with CHECKED reads: every access `ptr->value` of `QuickSort::sort(left, right)` is a read
  of a position that must lie inside the current segment `left … right` (and inside the list); anything else is a fault
  (`none`).  For every element type, every comparison function and every input the checked sort never faults and
  computes exactly what the totalised `sortVals` (reads through `getD`) computes — so the totalisation in `Sort.lean`
  hides nothing (audit note S-2).
-/
namespace Nstd.Seq
variable {α : Type} [Inhabited α]

/-- checked read of the node at position `i` during `sort(lo, hi)` -/
def rdC (m : List α) (lo hi i : Nat) : Option α := if lo ≤ i ∧ i ≤ hi then m[i]? else none

/-- `QuickSort::swap(a, b)` with checked accesses -/
def swpC (m : List α) (lo hi i j : Nat) : Option (List α) :=
  match rdC m lo hi i, rdC m lo hi j with
  | some a, some b => some ((m.set i b).set j a)
  | _, _ => none

/-- the do-while loop with checked accesses -/
def ploopC (lt : α → α → Bool) (left right : Nat) : Nat → List α → Nat → Nat → Nat → Option (PLoop α)
  | 0, m, p0, p1, _ => some ⟨m, p0, p1⟩
  | n + 1, m, p0, p1, p2 =>
    match rdC m left right (p2 + 1), rdC m left right left with
    | some x, some pv =>
      if lt x pv then
        match swpC m left right (p1 + 1) (p2 + 1) with
        | some m' => ploopC lt left right n m' p1 (p1 + 1) (p2 + 1)
        | none => none
      else ploopC lt left right n m p0 p1 (p2 + 1)
    | _, _ => none

/-- `QuickSort::sort(left, right)` with checked accesses -/
def qsortC (lt : α → α → Bool) : Nat → List α → Nat → Nat → Option (List α)
  | 0, _, _, _ => none
  | f + 1, m, left, right =>
    match ploopC lt left right (right - left) m left left left with
    | none => none
    | some r =>
      match swpC r.mem left right left r.p1 with
      | none => none
      | some m1 =>
        match (if left ≠ r.p0 then qsortC lt f m1 left r.p0 else some m1) with
        | none => none
        | some m2 =>
          if (if r.p1 ≠ right then r.p1 + 1 else r.p1) ≠ right then
            qsortC lt f m2 (if r.p1 ≠ right then r.p1 + 1 else r.p1) right
          else some m2

/-- `List::sort()` with checked accesses -/
def sortValsC (lt : α → α → Bool) (vs : List α) : Option (List α) :=
  if vs.length < 2 then some vs else qsortC lt vs.length vs 0 (vs.length - 1)

theorem rdC_eq (m : List α) (lo hi i : Nat) (h1 : lo ≤ i) (h2 : i ≤ hi) (h3 : i < m.length) :
    rdC m lo hi i = some (rd m i) := by
  simp [rdC, h1, h2, rd, List.getD_eq_getElem?_getD, h3]

theorem swpC_eq (m : List α) (lo hi i j : Nat) (hi1 : lo ≤ i) (hi2 : i ≤ hi) (hj1 : lo ≤ j) (hj2 : j ≤ hi)
    (hh : hi < m.length) : swpC m lo hi i j = some (swp m i j) := by
  unfold swpC
  rw [rdC_eq m lo hi i hi1 hi2 (by omega), rdC_eq m lo hi j hj1 hj2 (by omega)]
  rfl

theorem ploopC_eq (lt : α → α → Bool) (left right : Nat) :
    ∀ (n : Nat) (m : List α) (p0 p1 p2 : Nat), left ≤ p1 → p1 ≤ p2 → p2 + n = right → right < m.length →
      ploopC lt left right n m p0 p1 p2 = some (ploop lt left n m p0 p1 p2) := by
  intro n
  induction n with
  | zero => intro m p0 p1 p2 _ _ _ _; rfl
  | succ n ih =>
    intro m p0 p1 p2 h1 h2 h3 h4
    unfold ploopC ploop
    rw [rdC_eq m left right (p2 + 1) (by omega) (by omega) (by omega),
      rdC_eq m left right left (Nat.le_refl _) (by omega) (by omega)]
    simp only
    by_cases c : lt (rd m (p2 + 1)) (rd m left) = true
    · simp only [c, if_true]
      rw [swpC_eq m left right (p1 + 1) (p2 + 1) (by omega) (by omega) (by omega) (by omega) h4]
      simp only
      exact ih _ p1 (p1 + 1) (p2 + 1) (by omega) (by omega) (by omega) (by rw [length_swp]; exact h4)
    · simp only [c, if_false, Bool.false_eq_true]
      exact ih m p0 p1 (p2 + 1) h1 (by omega) (by omega) h4

theorem qsortC_eq (lt : α → α → Bool) :
    ∀ (f : Nat) (m : List α) (left right : Nat), left < right → right < m.length → right - left < f →
      qsortC lt f m left right = qsortF lt f m left right := by
  intro f
  induction f with
  | zero => intro m left right _ _ h; omega
  | succ f ih =>
    intro m left right hlr hb hf
    have inv0 : PInv lt left m left left left :=
      ⟨Nat.le_refl _, Nat.le_refl _, Or.inl ⟨rfl, rfl⟩, fun k h1 h2 => by omega, fun k h1 h2 => by omega⟩
    obtain ⟨pi, pw, _⟩ := ploop_spec lt left (right - left) m left left left (by omega) inv0
    have e : left + (right - left) = right := by omega
    rw [e] at pi pw
    rw [qsortC, qsortF, ploopC_eq lt left right (right - left) m left left left (Nat.le_refl _) (Nat.le_refl _) e hb]
    simp only
    generalize ploop lt left (right - left) m left left left = r at pi pw
    have lenr : r.mem.length = m.length := pw.1
    have hp1 := pi.h1
    have hp2 := pi.h2
    rw [swpC_eq r.mem left right left r.p1 (Nat.le_refl _) (by omega) hp1 hp2 (by omega)]
    simp only
    have m1len : (swp r.mem left r.p1).length = m.length := by rw [length_swp]; exact lenr
    generalize swp r.mem left r.p1 = m1 at m1len
    -- left part
    have hleft : (if left ≠ r.p0 then qsortC lt f m1 left r.p0 else some m1) =
        (if left ≠ r.p0 then qsortF lt f m1 left r.p0 else some m1) := by
      by_cases hl : left = r.p0
      · simp [hl]
      · have hl' : left ≠ r.p0 := hl
        simp only [hl', ne_eq, not_false_eq_true, if_true]
        rcases pi.h0 with ⟨a, b⟩ | ⟨a, b⟩
        · exact absurd b.symm hl
        · exact ih m1 left r.p0 (by omega) (by omega) (by omega)
    rw [hleft]
    cases hm2 : (if left ≠ r.p0 then qsortF lt f m1 left r.p0 else some m1) with
    | none => rfl
    | some m2 =>
      simp only
      have m2len : m2.length = m.length := by
        by_cases hl : left = r.p0
        · simp [hl] at hm2; rw [← hm2]; exact m1len
        · have hl' : left ≠ r.p0 := hl
          simp only [hl', ne_eq, not_false_eq_true, if_true] at hm2
          rcases pi.h0 with ⟨a, b⟩ | ⟨a, b⟩
          · exact absurd b.symm hl
          · obtain ⟨m2', q1, q2, _, _⟩ := qsortF_rel lt (fun _ _ => True) (ord3_true lt) f m1 left r.p0
              (by omega) (by omega) (by omega)
            rw [hm2] at q1; cases q1
            exact q2.1.trans m1len
      by_cases hr : (if r.p1 ≠ right then r.p1 + 1 else r.p1) = right
      · simp [hr]
      · simp only [hr, ne_eq, not_false_eq_true, if_true]
        have hr1 : r.p1 ≠ right := by intro e'; simp [e'] at hr
        simp only [hr1, ne_eq, not_false_eq_true, if_true] at hr ⊢
        exact ih m2 (r.p1 + 1) right (by omega) (by omega) (by omega)

/-- the checked sort is the totalised sort: it never faults -/
theorem sortValsC_eq (lt : α → α → Bool) (vs : List α) : sortValsC lt vs = sortVals lt vs := by
  unfold sortValsC sortVals
  by_cases h : vs.length < 2
  · simp [h]
  · simp only [h, if_false]
    exact qsortC_eq lt vs.length vs 0 (vs.length - 1) (by omega) (by omega) (by omega)

end Nstd.Seq
