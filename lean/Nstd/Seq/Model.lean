import Nstd.Seq.Sort
/-
  Executable model of `List<int>`, `PoolList<int>` (include/nstd/List.hpp, PoolList.hpp) and
  `Array<int>` (include/nstd/Array.hpp).  Core Lean only.

  List / PoolList: the chain `_begin … endItem.prev` is the list `nodes` of (node id, value) in link
  order; a node id is `4 * block + slot` (blocks of 4 items, numbered in allocation order);
  `free` is the free list (head = `freeItem`); `nblocks` the number of item blocks allocated.
  Iterators are positions in the chain (`size` = `end()`).

  Array: `cap` = `_capacity`, `data = none` while `_begin.item == 0`, else the constructed elements.
  Writes into the storage are checked against the capacity (`none` = the real code would write
  outside its allocation).

  Every operation returns `Option`: `none` = precondition of the C++ function violated (iterator out
  of range, `front()` of an empty container …) or checked-memory fault.
-/
namespace Nstd.Seq

/-- result of one operation: new state, returned iterator/reference as position (or value for
    `front/back/[]`, 0/1 for `==`), number of `new[]` and `delete[]` calls -/
structure Res (σ : Type) where
  st : σ
  ret : Option Int := none
  allocs : Nat := 0
  frees : Nat := 0

/-! ### List / PoolList -/

structure LState where
  nodes : List (Nat × Int) := []
  free : List Nat := []
  nblocks : Nat := 0
  /-- items per block of this container (`List::insert` / `PoolList::allocateFreeItem` allocate and fill blocks of
      that many items; 4 in the sources the models were written against, read off the current headers by the
      translator).  A node id is `bk * block + slot`. -/
  bk : Nat := 4
deriving Repr

namespace LState

def vals (s : LState) : List Int := s.nodes.map (·.2)
def ids (s : LState) : List Nat := s.nodes.map (·.1)
def size (s : LState) : Nat := s.nodes.length

/-- `isEmpty()`: `endItem.prev == 0` -/
def isEmpty (s : LState) : Bool := s.nodes.isEmpty

/-- take an item from the free list, allocating a block of `bk` items when it is empty
    (List.hpp:142-154 / PoolList.hpp:169-186): the block's items are pushed in address order,
    so the last one (slot `bk - 1`) is handed out first and slots `bk - 2, …, 0` stay on the free list.
    Returns (node id, state, #allocations). -/
def allocNode (s : LState) : Nat × LState × Nat :=
  match s.free with
  | id :: rest => (id, { s with free := rest }, 0)
  | [] =>
    let b := s.nblocks
    (s.bk * b + (s.bk - 1),
     { s with free := (List.range (s.bk - 1)).reverse.map (s.bk * b + ·), nblocks := b + 1 }, 1)

/-- link a fresh node holding `v` before position `pos` (no range check) -/
def insertRaw (s : LState) (pos : Nat) (v : Int) : LState × Nat :=
  let (id, s1, k) := allocNode s
  ({ s1 with nodes := s1.nodes.take pos ++ (id, v) :: s1.nodes.drop pos }, k)

/-- `insert(position, value)`; returns the iterator to the new item -/
def insert (s : LState) (pos : Nat) (v : Int) : Option (Res LState) :=
  if pos ≤ s.size then
    let (s1, k) := insertRaw s pos v
    some { st := s1, ret := some pos, allocs := k }
  else none

/-- the loop of `insert(position, list)`: every further value goes in front of the same
    `pos` iterator, i.e. one position further right -/
def insertMany (s : LState) (pos : Nat) : List Int → LState × Nat
  | [] => (s, 0)
  | v :: vs =>
    let (s1, k) := insertRaw s pos v
    let (s2, k2) := insertMany s1 (pos + 1) vs
    (s2, k + k2)

/-- `insert(position, list)`; returns `position` for an empty list, else the first inserted item -/
def insertList (s : LState) (pos : Nat) (vs : List Int) : Option (Res LState) :=
  if pos ≤ s.size then
    let (s1, k) := insertMany s pos vs
    some { st := s1, ret := some pos, allocs := k }
  else none

def append (s : LState) (v : Int) : Option (Res LState) := s.insert s.size v
def prepend (s : LState) (v : Int) : Option (Res LState) := s.insert 0 v

/-- `remove(iterator)`; returns the iterator to the successor -/
def remove (s : LState) (pos : Nat) : Option (Res LState) :=
  match s.nodes[pos]? with
  | some (id, _) =>
    some { st := { s with nodes := s.nodes.take pos ++ s.nodes.drop (pos + 1), free := id :: s.free },
           ret := some pos }
  | none => none

/-- position of the first item equal to `v`, `size` (= `end()`) if there is none -/
def findPos (s : LState) (v : Int) : Nat := s.vals.findIdx (· == v)

def find (s : LState) (v : Int) : Option (Res LState) :=
  some { st := s, ret := some (s.findPos v) }

/-- `remove(value)`: `it = find(value); if(it != _end) remove(it);` -/
def removeValue (s : LState) (v : Int) : Option (Res LState) :=
  let p := s.findPos v
  if p ≠ s.size then
    match s.remove p with
    | some r => some { r with ret := none }
    | none => none
  else some { st := s }

def removeFront (s : LState) : Option (Res LState) := s.remove 0
def removeBack (s : LState) : Option (Res LState) :=
  if s.size = 0 then none else s.remove (s.size - 1)

/-- `clear()`: the items are pushed onto the free list front to back -/
def clear (s : LState) : LState :=
  { s with nodes := [], free := s.ids.reverse ++ s.free }

/-- `append` of every value of `vs` in turn (copy constructor, assignment) -/
def appendAll (s : LState) : List Int → LState × Nat
  | [] => (s, 0)
  | v :: vs =>
    let (s1, k) := insertRaw s s.size v
    let (s2, k2) := appendAll s1 vs
    (s2, k + k2)

/-- `front()` / `back()` -/
def front (s : LState) : Option (Res LState) :=
  match s.vals.head? with
  | some v => some { st := s, ret := some v }
  | none => none
def back (s : LState) : Option (Res LState) :=
  match s.vals.getLast? with
  | some v => some { st := s, ret := some v }
  | none => none

/-- write the values `vs` into the nodes, front to back (ids stay) -/
def setVals : List (Nat × Int) → List Int → List (Nat × Int)
  | (id, _) :: ns, v :: vs => (id, v) :: setVals ns vs
  | ns, _ => ns

/-- `sort()` -/
def sort (s : LState) : Option (Res LState) :=
  match sortVals ltInt s.vals with
  | some vs => some { st := { s with nodes := setVals s.nodes vs } }
  | none => none

end LState

/-! ### Array -/

structure AState where
  cap : Nat := 0
  data : Option (List Int) := none
deriving Repr

/-- the rounding mask of `Array::reserve` (`_capacity |= mask`; 3 in the sources the model was written against,
    derived from the current headers by the translator).  Everything below holds for every mask; the form
    `2^j - 1` is only used by `reserve_policy`. -/
class ArrCfg where
  mask : Nat

namespace AState
variable [ArrCfg]

def elems (s : AState) : List Int := s.data.getD []
def size (s : AState) : Nat := s.elems.length

/-- `reserve(size)` (Array.hpp:97-122) -/
def reserve (s : AState) (n : Nat) : AState × Nat × Nat :=
  if n > s.cap ∨ (s.data.isNone ∧ n > 0) then
    let cap1 := if n > s.cap then n else s.cap
    let cap2 := cap1 ||| ArrCfg.mask
    match s.data with
    | some es => ({ cap := cap2, data := some es }, 1, 1)     -- move the elements, delete the old storage
    | none => ({ cap := cap2, data := some [] }, 1, 0)
  else (s, 0, 0)

/-- placement-construct one element at `_end` (checked against the allocation) -/
def push (s : AState) (x : Int) : Option AState :=
  match s.data with
  | some es => if es.length < s.cap then some { s with data := some (es ++ [x]) } else none
  | none => none

def pushAll (s : AState) : List Int → Option AState
  | [] => some s
  | x :: xs =>
    match s.push x with
    | some s1 => pushAll s1 xs
    | none => none

/-- `append(const T& value)`; returns the reference to the new element (position) -/
def append (s : AState) (x : Int) : Option (Res AState) :=
  let n := s.size
  let (s1, a, f) := s.reserve (n + 1)
  match s1.push x with
  | some s2 => some { st := s2, ret := some n, allocs := a, frees := f }
  | none => none

/-- `append(const Array&)` and `append(const T*, usize)` -/
def appendAll (s : AState) (xs : List Int) : Option (Res AState) :=
  let (s1, a, f) := s.reserve (s.size + xs.length)
  match s1.pushAll xs with
  | some s2 => some { st := s2, allocs := a, frees := f }
  | none => none

/-- `resize(size, value)` -/
def resize (s : AState) (n : Nat) (x : Int) : Option (Res AState) :=
  if n < s.size then
    some { st := { s with data := some (s.elems.take n) } }
  else
    let (s1, a, f) := s.reserve n
    match s1.pushAll (List.replicate (n - s.size) x) with
    | some s2 => some { st := s2, allocs := a, frees := f }
    | none => none

/-- `remove(usize index)`: nothing happens for `index ≥ size` -/
def removeIdx (s : AState) (i : Nat) : Option (Res AState) :=
  if i < s.size then some { st := { s with data := some (s.elems.take i ++ s.elems.drop (i + 1)) } }
  else some { st := s }

/-- `remove(const Iterator&)`: the iterator must designate an element; returns the same position -/
def removeIt (s : AState) (i : Nat) : Option (Res AState) :=
  if i < s.size then
    some { st := { s with data := some (s.elems.take i ++ s.elems.drop (i + 1)) }, ret := some i }
  else none

def removeFront (s : AState) : Option (Res AState) := s.removeIt 0
def removeBack (s : AState) : Option (Res AState) :=
  if s.size = 0 then none else s.removeIt (s.size - 1)

/-- `clear()` -/
def clear (s : AState) : AState :=
  match s.data with
  | some _ => { s with data := some [] }
  | none => s

def find (s : AState) (x : Int) : Option (Res AState) :=
  some { st := s, ret := some (s.elems.findIdx (· == x)) }

def get (s : AState) (i : Nat) : Option (Res AState) :=
  match s.elems[i]? with
  | some v => some { st := s, ret := some v }
  | none => none

def front (s : AState) : Option (Res AState) := s.get 0
def back (s : AState) : Option (Res AState) := if s.size = 0 then none else s.get (s.size - 1)

/-- copy constructor / the common tail of `operator=`: `reserve(other.capacity())`, then copy-construct
    all elements of `other` -/
def copyFrom (s : AState) (o : AState) : Option (Res AState) :=
  let (s1, a, f) := s.reserve o.cap
  match s1.pushAll o.elems with                    -- for an empty `other`: `_end.item = dest` (= `_begin.item`)
  | some s2 => some { st := s2, allocs := a, frees := f }
  | none => none

/-- `append(*this)`: `valuesSize = size(); reserve(size + valuesSize);` and only then `src = values._begin.item`,
    i.e. the elements are read from the (possibly new) storage of the array itself -/
def appendSelf (s : AState) : Option (Res AState) := s.appendAll s.elems

/-- `append(a[i])`: `reserve(size + 1, &value)` follows the reference into the new storage (`_begin.item + index`) -/
def appendRef (s : AState) (i : Nat) : Option (Res AState) :=
  match s.elems[i]? with
  | some x => s.append x
  | none => none

/-- `resize(n, a[i])`: the fill value is read through the reference that `reserve(size, &value)` returns -/
def resizeRef (s : AState) (n i : Nat) : Option (Res AState) :=
  match s.elems[i]? with
  | some x => s.resize n x
  | none => none

/-- `append(&a[i], n)`: the pointer overload `append(const T* values, usize size)` with `values` pointing INTO the array
    (`i + n ≤ size`; anything else reads behind `_end`): `values = reserve(oldSize + size, values)` follows the pointer
    into the (possibly new) storage, then `n` elements are copy-constructed from there -/
def appendSub (s : AState) (i n : Nat) : Option (Res AState) :=
  if i + n ≤ s.size then s.appendAll ((s.elems.drop i).take n) else none

/-- `~Array()`: one `delete[]` if storage exists -/
def dtorFrees (s : AState) : Nat := if s.data.isSome then 1 else 0

end AState

/-! ### The machine: two containers of each kind -/

structure State where
  l0 : LState := {}
  l1 : LState := {}
  p0 : LState := {}
  p1 : LState := {}
  a0 : AState := {}
  a1 : AState := {}

variable [ArrCfg]

inductive Op where
  -- List  (v = variable 0/1; the second container is always the other variable)
  | lappend (v : Nat) (x : Int) | lprepend (v : Nat) (x : Int)
  | linsert (v : Nat) (pos : Nat) (x : Int)
  | linsertl (v : Nat) (pos : Nat) | lappendl (v : Nat) | lprependl (v : Nat)
  | lremove (v : Nat) (pos : Nat) | lremovev (v : Nat) (x : Int)
  | lremoveFront (v : Nat) | lremoveBack (v : Nat)
  | lclear (v : Nat) | lswap (v : Nat) | lcopy (v : Nat) | lassign (v : Nat)
  | lfind (v : Nat) (x : Int) | leq (v : Nat) (w : Nat) | lfront (v : Nat) | lback (v : Nat)
  | lsort (v : Nat)
  -- PoolList
  | pappend (v : Nat) (x : Int) | premove (v : Nat) (pos : Nat) | premovev (v : Nat) (pos : Nat)
  | premoveFront (v : Nat) | premoveBack (v : Nat) | pclear (v : Nat) | pswap (v : Nat)
  | pfront (v : Nat) | pback (v : Nat)
  -- Array
  | anew (v : Nat) | anewcap (v : Nat) (n : Nat) | acopy (v : Nat) | aassign (v : Nat)
  | areserve (v : Nat) (n : Nat) | aresize (v : Nat) (n : Nat) (x : Int)
  | aappend (v : Nat) (x : Int) | aappenda (v : Nat) | aappendn (v : Nat) (xs : List Int)
  | aremovei (v : Nat) (i : Nat) | aremove (v : Nat) (pos : Nat)
  | aremoveFront (v : Nat) | aremoveBack (v : Nat)
  | aclear (v : Nat) | aswap (v : Nat) | afind (v : Nat) (x : Int)
  | aget (v : Nat) (i : Nat) | afront (v : Nat) | aback (v : Nat) | aeq (v : Nat) (w : Nat)
  -- arguments that are the container itself or a reference into it
  | lappendself (v : Nat) | lprependself (v : Nat) | linsertself (v : Nat) (pos : Nat) | lassignself (v : Nat)
  | aappendself (v : Nat) | aappendref (v : Nat) (i : Nat) | aresizeref (v : Nat) (n : Nat) (i : Nat)
  | aassignself (v : Nat) | aappendsub (v : Nat) (i : Nat) (n : Nat)
  | aresized (v : Nat) (n : Nat)

namespace State

def getL (s : State) (v : Nat) : LState := if v = 0 then s.l0 else s.l1
def setL (s : State) (v : Nat) (x : LState) : State := if v = 0 then { s with l0 := x } else { s with l1 := x }
def getP (s : State) (v : Nat) : LState := if v = 0 then s.p0 else s.p1
def setP (s : State) (v : Nat) (x : LState) : State := if v = 0 then { s with p0 := x } else { s with p1 := x }
def getA (s : State) (v : Nat) : AState := if v = 0 then s.a0 else s.a1
def setA (s : State) (v : Nat) (x : AState) : State := if v = 0 then { s with a0 := x } else { s with a1 := x }

end State

def liftL (s : State) (v : Nat) (r : Option (Res LState)) : Option (Res State) :=
  match r with
  | some r => some { st := s.setL v r.st, ret := r.ret, allocs := r.allocs, frees := r.frees }
  | none => none
def liftP (s : State) (v : Nat) (r : Option (Res LState)) : Option (Res State) :=
  match r with
  | some r => some { st := s.setP v r.st, ret := r.ret, allocs := r.allocs, frees := r.frees }
  | none => none
def liftA (s : State) (v : Nat) (r : Option (Res AState)) : Option (Res State) :=
  match r with
  | some r => some { st := s.setA v r.st, ret := r.ret, allocs := r.allocs, frees := r.frees }
  | none => none

/-- one operation on the machine.  Variables are 0 or 1 (anything else is rejected). -/
def step (s : State) (op : Op) : Option (Res State) :=
  let ok (v : Nat) := v < 2
  let o (v : Nat) := 1 - v
  match op with
  | .lappend v x => if ok v then liftL s v ((s.getL v).append x) else none
  | .lprepend v x => if ok v then liftL s v ((s.getL v).prepend x) else none
  | .linsert v pos x => if ok v then liftL s v ((s.getL v).insert pos x) else none
  | .linsertl v pos => if ok v then liftL s v ((s.getL v).insertList pos (s.getL (o v)).vals) else none
  | .lappendl v =>
    if ok v then liftL s v (((s.getL v).insertList (s.getL v).size (s.getL (o v)).vals).map ({ · with ret := none })) else none
  | .lprependl v =>
    if ok v then liftL s v (((s.getL v).insertList 0 (s.getL (o v)).vals).map ({ · with ret := none })) else none
  | .lremove v pos => if ok v then liftL s v ((s.getL v).remove pos) else none
  | .lremovev v x => if ok v then liftL s v ((s.getL v).removeValue x) else none
  | .lremoveFront v => if ok v then liftL s v (s.getL v).removeFront else none
  | .lremoveBack v => if ok v then liftL s v (s.getL v).removeBack else none
  | .lclear v => if ok v then some { st := s.setL v (s.getL v).clear } else none
  | .lswap v =>
    if ok v then some { st := (s.setL v (s.getL (o v))).setL (o v) (s.getL v) } else none
  | .lcopy v =>
    -- the variable is destroyed (its blocks are deleted) and copy-constructed from the other one
    if ok v then
      let (n, k) := LState.appendAll { bk := (s.getL v).bk } (s.getL (o v)).vals
      some { st := s.setL v n, allocs := k, frees := (s.getL v).nblocks }
    else none
  | .lassign v =>
    if ok v then
      let (n, k) := LState.appendAll (s.getL v).clear (s.getL (o v)).vals
      some { st := s.setL v n, allocs := k }
    else none
  | .lfind v x => if ok v then liftL s v ((s.getL v).find x) else none
  | .leq v w =>
    if ok v ∧ ok w then
      some { st := s, ret := some (if (s.getL v).size ≠ (s.getL w).size then 0
                                  else if (s.getL v).vals = (s.getL w).vals then 1 else 0) }
    else none
  | .lfront v => if ok v then liftL s v (s.getL v).front else none
  | .lback v => if ok v then liftL s v (s.getL v).back else none
  | .lsort v => if ok v then liftL s v (s.getL v).sort else none
  | .pappend v x => if ok v then liftP s v (((s.getP v).append x)) else none
  | .premove v pos => if ok v then liftP s v ((s.getP v).remove pos) else none
  | .premovev v pos => if ok v then liftP s v (((s.getP v).remove pos).map ({ · with ret := none })) else none
  | .premoveFront v => if ok v then liftP s v (s.getP v).removeFront else none
  | .premoveBack v => if ok v then liftP s v (s.getP v).removeBack else none
  | .pclear v => if ok v then some { st := s.setP v (s.getP v).clear } else none
  | .pswap v =>
    if ok v then some { st := (s.setP v (s.getP (o v))).setP (o v) (s.getP v) } else none
  | .pfront v => if ok v then liftP s v (s.getP v).front else none
  | .pback v => if ok v then liftP s v (s.getP v).back else none
  | .anew v => if ok v then some { st := s.setA v {}, frees := (s.getA v).dtorFrees } else none
  | .anewcap v n => if ok v then some { st := s.setA v { cap := n }, frees := (s.getA v).dtorFrees } else none
  | .acopy v =>
    if ok v then
      match (({} : AState).copyFrom (s.getA (o v))) with
      | some r => some { st := s.setA v r.st, allocs := r.allocs, frees := r.frees + (s.getA v).dtorFrees }
      | none => none
    else none
  | .aassign v => if ok v then liftA s v ((s.getA v).clear.copyFrom (s.getA (o v))) else none
  | .areserve v n =>
    if ok v then
      let (a, k, f) := (s.getA v).reserve n
      some { st := s.setA v a, allocs := k, frees := f }
    else none
  | .aresize v n x => if ok v then liftA s v ((s.getA v).resize n x) else none
  | .aappend v x => if ok v then liftA s v ((s.getA v).append x) else none
  | .aappenda v => if ok v then liftA s v ((s.getA v).appendAll (s.getA (o v)).elems) else none
  | .aappendn v xs => if ok v then liftA s v ((s.getA v).appendAll xs) else none
  | .aremovei v i => if ok v then liftA s v ((s.getA v).removeIdx i) else none
  | .aremove v pos => if ok v then liftA s v ((s.getA v).removeIt pos) else none
  | .aremoveFront v => if ok v then liftA s v (s.getA v).removeFront else none
  | .aremoveBack v => if ok v then liftA s v (s.getA v).removeBack else none
  | .aclear v => if ok v then some { st := s.setA v (s.getA v).clear } else none
  | .aswap v =>
    if ok v then some { st := (s.setA v (s.getA (o v))).setA (o v) (s.getA v) } else none
  | .afind v x => if ok v then liftA s v ((s.getA v).find x) else none
  | .aget v i => if ok v then liftA s v ((s.getA v).get i) else none
  | .afront v => if ok v then liftA s v (s.getA v).front else none
  | .aback v => if ok v then liftA s v (s.getA v).back else none
  | .lappendself v =>
    -- `insert(_end, *this)`: the walk over the original items skips the copies (`if(i == result.item) i = pos.item`)
    if ok v then liftL s v (((s.getL v).insertList (s.getL v).size (s.getL v).vals).map ({ · with ret := none })) else none
  | .lprependself v =>
    if ok v then liftL s v (((s.getL v).insertList 0 (s.getL v).vals).map ({ · with ret := none })) else none
  | .linsertself v pos => if ok v then liftL s v ((s.getL v).insertList pos (s.getL v).vals) else none
  | .lassignself v => if ok v then some { st := s } else none                 -- `if(this == &other) return *this;`
  | .aappendself v => if ok v then liftA s v (s.getA v).appendSelf else none
  | .aappendref v i => if ok v then liftA s v ((s.getA v).appendRef i) else none
  | .aresizeref v n i => if ok v then liftA s v ((s.getA v).resizeRef n i) else none
  | .aassignself v => if ok v then some { st := s } else none                 -- `if(this == &other) return *this;`
  | .aappendsub v i n => if ok v then liftA s v ((s.getA v).appendSub i n) else none
  -- `resize(n)`: the default argument `const T& value = T()` is a value-initialised temporary (0 for `int`), outside the array
  | .aresized v n => if ok v then liftA s v ((s.getA v).resize n 0) else none
  | .aeq v w =>
    -- `operator==`: `if(size() != other.size()) return false;` then element-wise comparison
    if ok v ∧ ok w then
      some { st := s, ret := some (if (s.getA v).size ≠ (s.getA w).size then 0
                                  else if (s.getA v).elems = (s.getA w).elems then 1 else 0) }
    else none

/-- the freshly constructed containers: `lk` / `pk` = items per block of List / PoolList -/
def State.init (lk pk : Nat) : State :=
  { l0 := { bk := lk }, l1 := { bk := lk }, p0 := { bk := pk }, p1 := { bk := pk } }

/-- run a history; an operation whose precondition fails is skipped (it is not part of a
    well-formed history; `Props` quantifies over all op lists, so skipped ops are covered too) -/
def run (s : State) : List Op → State
  | [] => s
  | op :: ops =>
    match step s op with
    | some r => run r.st ops
    | none => run s ops

end Nstd.Seq
