import Nstd.Seq.LemmasPtr
import Nstd.Seq.LemmasSort
/-
  The heap-level quicksort (`Ptr.qsortP`: item addresses, `next` reads, pointer comparisons) computes what
  the position-level quicksort (`qsortF`) computes on the chain.
-/
namespace Nstd.Seq.Ptr

/-- the heap `p`, seen through the chain `xs`, holds the value sequence `m`:
    position `i` ↦ address `xs[i]` -/
structure View (p : PList) (xs : List Nat) (m : List Int) : Prop where
  len : m.length = xs.length
  links : ∀ i, i + 1 < xs.length → p.next (xs.getD i 0) = some (xs.getD (i + 1) 0)
  inj : ∀ i j, i < xs.length → j < xs.length → xs.getD i 0 = xs.getD j 0 → i = j
  vals : ∀ i, i < xs.length → p.val (xs.getD i 0) = rd m i

/-- only values differ -/
def SameLinks (p' p : PList) : Prop :=
  p'.next = p.next ∧ p'.prev = p.prev ∧ p'.begin = p.begin ∧ p'.size = p.size ∧ p'.free = p.free ∧
    p'.nblocks = p.nblocks ∧ p'.bk = p.bk

theorem sameLinks_refl (p : PList) : SameLinks p p := ⟨rfl, rfl, rfl, rfl, rfl, rfl, rfl⟩
theorem sameLinks_trans {a b c : PList} (h1 : SameLinks a b) (h2 : SameLinks b c) : SameLinks a c :=
  ⟨h1.1.trans h2.1, h1.2.1.trans h2.2.1, h1.2.2.1.trans h2.2.2.1, h1.2.2.2.1.trans h2.2.2.2.1,
   h1.2.2.2.2.1.trans h2.2.2.2.2.1, h1.2.2.2.2.2.1.trans h2.2.2.2.2.2.1, h1.2.2.2.2.2.2.trans h2.2.2.2.2.2.2⟩
theorem sameLinks_swapVal (p : PList) (a b : Nat) : SameLinks (swapVal p a b) p := ⟨rfl, rfl, rfl, rfl, rfl, rfl, rfl⟩

theorem view_swapVal (p : PList) (xs : List Nat) (m : List Int) (h : View p xs m) (i j : Nat)
    (hi : i < xs.length) (hj : j < xs.length) :
    View (swapVal p (xs.getD i 0) (xs.getD j 0)) xs (swp m i j) := by
  refine ⟨by rw [length_swp]; exact h.len, h.links, h.inj, ?_⟩
  intro k hk
  have bi : i < m.length := by rw [h.len]; exact hi
  have bj : j < m.length := by rw [h.len]; exact hj
  rw [rd_swp m i j k bi bj]
  show set (set p.val (xs.getD i 0) (p.val (xs.getD j 0))) (xs.getD j 0) (p.val (xs.getD i 0)) (xs.getD k 0) = _
  by_cases e1 : k = j
  · subst e1; rw [set_same, h.vals i hi]; simp
  · have n1 : xs.getD k 0 ≠ xs.getD j 0 := fun e => e1 (h.inj k j hk hj e)
    rw [set_ne _ _ _ _ n1]
    by_cases e2 : k = i
    · subst e2; rw [set_same, h.vals j hj]; simp [e1]
    · have n2 : xs.getD k 0 ≠ xs.getD i 0 := fun e => e2 (h.inj k i hk hi e)
      rw [set_ne _ _ _ _ n2, h.vals k hk]; simp [e1, e2]

theorem ploopP_sim (xs : List Nat) (lt : Int → Int → Bool) (l r : Nat) (hl : l < xs.length) (hr : r < xs.length) :
    ∀ (n fuel : Nat) (p : PList) (m : List Int) (p0 p1 p2 : Nat), View p xs m → n ≤ fuel → p2 + (n + 1) = r →
      p1 ≤ p2 →
      ∃ p', ploopP lt (xs.getD l 0) (xs.getD r 0) (fuel + 1) p (xs.getD p0 0) (xs.getD p1 0) (xs.getD p2 0) =
          some ⟨p', xs.getD (ploop lt l (n + 1) m p0 p1 p2).p0 0, xs.getD (ploop lt l (n + 1) m p0 p1 p2).p1 0⟩ ∧
        View p' xs (ploop lt l (n + 1) m p0 p1 p2).mem ∧ SameLinks p' p := by
  intro n
  induction n with
  | zero =>
    intro fuel p m p0 p1 p2 hv _ hp2 h12
    have hnext2 := hv.links p2 (by omega)
    have e2 : ¬ (xs.getD (p2 + 1) 0 ≠ xs.getD r 0) := by rw [show p2 + 1 = r by omega]; simp
    have hval2 := hv.vals (p2 + 1) (by omega)
    have hvall := hv.vals l hl
    unfold ploopP ploop
    simp only [hnext2, hval2, hvall]
    by_cases c : lt (rd m (p2 + 1)) (rd m l) = true
    · have hnext1 := hv.links p1 (by omega)
      simp only [c, if_true, hnext1, e2, if_false, ploop]
      exact ⟨_, rfl, view_swapVal p xs m hv (p1 + 1) (p2 + 1) (by omega) (by omega), sameLinks_swapVal _ _ _⟩
    · simp only [c, if_false, e2, ploop, Bool.false_eq_true]
      exact ⟨_, rfl, hv, sameLinks_refl _⟩
  | succ n ih =>
    intro fuel p m p0 p1 p2 hv hfuel hp2 h12
    cases fuel with
    | zero => omega
    | succ fuel =>
      have hnext2 := hv.links p2 (by omega)
      have ne2 : xs.getD (p2 + 1) 0 ≠ xs.getD r 0 := by
        intro e; have := hv.inj (p2 + 1) r (by omega) hr e; omega
      have hval2 := hv.vals (p2 + 1) (by omega)
      have hvall := hv.vals l hl
      rw [ploopP, ploop]
      simp only [hnext2, hval2, hvall]
      by_cases c : lt (rd m (p2 + 1)) (rd m l) = true
      · have hnext1 := hv.links p1 (by omega)
        simp only [c, if_true, hnext1, ne2, ne_eq, not_false_eq_true]
        obtain ⟨p', e1, e2, e3⟩ := ih fuel (swapVal p (xs.getD (p1 + 1) 0) (xs.getD (p2 + 1) 0)) (swp m (p1 + 1) (p2 + 1))
          p1 (p1 + 1) (p2 + 1) (view_swapVal p xs m hv (p1 + 1) (p2 + 1) (by omega) (by omega)) (by omega) (by omega) (by omega)
        exact ⟨p', e1, e2, sameLinks_trans e3 (sameLinks_swapVal _ _ _)⟩
      · simp only [c, if_false, ne2, ne_eq, not_false_eq_true, if_true, Bool.false_eq_true]
        exact ih fuel p m p0 p1 (p2 + 1) hv (by omega) (by omega) (by omega)

theorem qsortP_sim (xs : List Nat) (lt : Int → Int → Bool) :
    ∀ (f : Nat) (p : PList) (m : List Int) (l r : Nat), View p xs m → l < r → r < xs.length → r - l < f →
      ∀ m', qsortF lt f m l r = some m' →
      ∃ p', qsortP lt f p (xs.getD l 0) (xs.getD r 0) = some p' ∧ View p' xs m' ∧ SameLinks p' p := by
  intro f
  induction f with
  | zero => intro p m l r _ _ _ h; omega
  | succ f ih =>
    intro p m l r hv hlr hr hf m' hq
    have hl : l < xs.length := by omega
    have hn : r - l = (r - l - 1) + 1 := by omega
    -- the partition loop
    have inv0 : PInv lt l m l l l :=
      ⟨Nat.le_refl _, Nat.le_refl _, Or.inl ⟨rfl, rfl⟩, fun k h1 h2 => by omega, fun k h1 h2 => by omega⟩
    obtain ⟨pi, pw, _⟩ := ploop_spec lt l (r - l) m l l l (by rw [hv.len]; omega) inv0
    have e : l + (r - l) = r := by omega
    rw [e] at pi pw
    obtain ⟨ph, e1, v1, s1⟩ := ploopP_sim xs lt l r hl hr (r - l - 1) f p m l l l hv (by omega) (by omega) (Nat.le_refl _)
    rw [← hn] at e1 v1
    rw [qsortF] at hq
    rw [qsortP, e1]
    generalize ploop lt l (r - l) m l l l = R at pi pw v1 hq
    simp only
    have b1 : R.p1 ≤ r := pi.h2
    have b1' : l ≤ R.p1 := pi.h1
    have b0 : R.p0 ≤ r := by rcases pi.h0 with ⟨a, b⟩ | ⟨a, b⟩ <;> omega
    -- swap(left, ptr1)
    have v2 := view_swapVal ph xs R.mem v1 l R.p1 hl (by omega)
    have s2 : SameLinks (swapVal ph (xs.getD l 0) (xs.getD R.p1 0)) p :=
      sameLinks_trans (sameLinks_swapVal _ _ _) s1
    generalize swapVal ph (xs.getD l 0) (xs.getD R.p1 0) = h1 at v2 s2
    generalize swp R.mem l R.p1 = m1 at v2 hq
    -- ptr1 = ptr1->next
    have hq1 : (if xs.getD R.p1 0 ≠ xs.getD r 0 then h1.next (xs.getD R.p1 0) else some (xs.getD R.p1 0)) =
        some (xs.getD (if R.p1 ≠ r then R.p1 + 1 else R.p1) 0) := by
      by_cases c : R.p1 = r
      · simp [c]
      · have : xs.getD R.p1 0 ≠ xs.getD r 0 := fun e => c (v2.inj _ _ (by omega) hr e)
        simp only [this, ne_eq, not_false_eq_true, if_true, c]
        exact v2.links R.p1 (by omega)
    rw [hq1]
    simp only
    -- left part
    have hleft : ∃ m2 h2, (if l ≠ R.p0 then qsortF lt f m1 l R.p0 else some m1) = some m2 ∧
        (if xs.getD l 0 ≠ xs.getD R.p0 0 then qsortP lt f h1 (xs.getD l 0) (xs.getD R.p0 0) else some h1) = some h2 ∧
        View h2 xs m2 ∧ SameLinks h2 p := by
      by_cases c : l = R.p0
      · refine ⟨m1, h1, by simp [c], ?_, v2, s2⟩
        rw [← c]; simp
      · have cne : xs.getD l 0 ≠ xs.getD R.p0 0 := fun e => c (v2.inj _ _ hl (by omega) e)
        cases hm2 : qsortF lt f m1 l R.p0 with
        | none => simp [c, hm2] at hq
        | some m2 =>
          have hlt : l < R.p0 := by rcases pi.h0 with ⟨a, b⟩ | ⟨a, b⟩ <;> omega
          have hp0 : R.p0 < r := by rcases pi.h0 with ⟨a, b⟩ | ⟨a, b⟩ <;> omega
          obtain ⟨h2, q1, q2, q3⟩ := ih h1 m1 l R.p0 v2 hlt (by omega) (by omega) m2 hm2
          exact ⟨m2, h2, by simp [c], by simp only [cne, ne_eq, not_false_eq_true, if_true]; exact q1, q2,
            sameLinks_trans q3 s2⟩
    obtain ⟨m2, h2, g1, g2, v3, s3⟩ := hleft
    rw [g1] at hq
    rw [g2]
    simp only at hq ⊢
    -- right part
    by_cases c : (if R.p1 ≠ r then R.p1 + 1 else R.p1) = r
    · have : ¬ (xs.getD (if R.p1 ≠ r then R.p1 + 1 else R.p1) 0 ≠ xs.getD r 0) := by rw [c]; simp
      simp only [this, if_false]
      simp only [c, ne_eq, not_true_eq_false, if_false, Option.some.injEq] at hq
      rw [← hq]
      exact ⟨h2, rfl, v3, s3⟩
    · have hp : (if R.p1 ≠ r then R.p1 + 1 else R.p1) < r := by
        by_cases c2 : R.p1 = r
        · simp [c2] at c
        · simp only [c2, ne_eq, not_false_eq_true, if_true] at c ⊢; omega
      have hgt : l < (if R.p1 ≠ r then R.p1 + 1 else R.p1) := by
        by_cases c2 : R.p1 = r
        · simp [c2] at c
        · simp only [c2, ne_eq, not_false_eq_true, if_true]; omega
      have cne : xs.getD (if R.p1 ≠ r then R.p1 + 1 else R.p1) 0 ≠ xs.getD r 0 :=
        fun e => c (v3.inj _ _ (by omega) hr e)
      simp only [cne, ne_eq, not_false_eq_true, if_true]
      simp only [c, ne_eq, not_false_eq_true, if_true] at hq
      obtain ⟨h3, q1, q2, q3⟩ := ih h2 m2 _ r v3 hp hr (by omega) m' hq
      exact ⟨h3, q1, q2, sameLinks_trans q3 s3⟩

theorem getD_of_lt (xs : List Nat) (i : Nat) (h : i < xs.length) : xs.getD i 0 = xs[i] := by
  simp [List.getD_eq_getElem?_getD, h]

theorem seg_links (p : PList) : ∀ (xs : List Nat) (pr : Option Nat) (t : Nat), Seg p pr xs t →
    ∀ i, i + 1 < xs.length → p.next (xs.getD i 0) = some (xs.getD (i + 1) 0) := by
  intro xs
  induction xs with
  | nil => intro _ _ _ i hi; simp at hi
  | cons x xs ih =>
    intro pr t h i hi
    obtain ⟨_, _, h3, h4⟩ := h
    cases i with
    | zero =>
      cases xs with
      | nil => simp at hi
      | cons y ys => simpa using h3
    | succ i =>
      have := ih (some x) t h4 i (by simpa using hi)
      simpa using this

theorem lastOr_getD (xs : List Nat) (h : xs ≠ []) : ∀ pr, lastOr xs pr = some (xs.getD (xs.length - 1) 0) := by
  induction xs with
  | nil => exact absurd rfl h
  | cons x xs ih =>
    intro pr
    cases xs with
    | nil => rfl
    | cons y ys =>
      have := ih (by simp) (some x)
      simp only [lastOr] at this ⊢
      rw [this]; simp

theorem view_of_rep (p : PList) (xs fs : List Nat) (s : LState) (h : Rep p xs fs s) : View p xs s.vals := by
  have hv : s.vals = xs.map p.val := by simp [LState.vals, h.nodes]
  have nd : xs.Nodup := (List.nodup_append.1 h.nd).1
  refine ⟨by simp [hv], seg_links p xs none 0 h.seg, ?_, ?_⟩
  · intro i j hi hj e
    exact (List.getD_inj hi hj nd).1 e
  · intro i hi
    rw [hv, getD_of_lt xs i hi]
    simp [rd, List.getD_eq_getElem?_getD, hi]

theorem vals_of_view (p : PList) (xs : List Nat) (m : List Int) (h : View p xs m) : m = xs.map p.val := by
  apply List.ext_getElem
  · simp [h.len]
  · intro i h1 h2
    have hi : i < xs.length := by simpa using h2
    have := h.vals i hi
    rw [getD_of_lt xs i hi, rd_eq_getElem m i h1] at this
    simp [this]

theorem setVals_map (xs : List Nat) (v v' : Nat → Int) :
    LState.setVals (xs.map (fun x => (x - 1, v x))) (xs.map v') = xs.map (fun x => (x - 1, v' x)) := by
  induction xs with
  | nil => rfl
  | cons x xs ih => simp [LState.setVals, ih]

theorem rep_sameLinks (p p' : PList) (xs fs : List Nat) (s : LState) (h : Rep p xs fs s) (hs : SameLinks p' p) :
    Rep p' xs fs { s with nodes := LState.setVals s.nodes (xs.map p'.val) } := by
  obtain ⟨e1, e2, e3, e4, e5, e6, e7⟩ := hs
  refine ⟨seg_congr p p' xs 0 none (fun x _ => ⟨by rw [e2], by rw [e1]⟩) h.seg, by rw [e2]; exact h.endp,
    by rw [e3]; exact h.beg, ?_, h.nd, ?_, h.free, by rw [e6]; exact h.nb, by rw [e4]; exact h.sz,
    by rw [e6, e7]; exact h.bound, by rw [e6, e7]; exact h.cnt, by rw [e7]; exact h.bk, by rw [e7]; exact h.bkpos⟩
  · rw [e5]; exact freechain_congr p p' fs _ (fun x _ => by rw [e2]) h.fr
  · show LState.setVals s.nodes (xs.map p'.val) = _
    rw [h.nodes, setVals_map]

/-- `sort()` on the heap does what `LState.sort` does on the chain model: same links, same free list,
    the values permuted into ascending order -/
theorem sortP_rep (p : PList) (xs fs : List Nat) (s : LState) (h : Rep p xs fs s) :
    ∃ p' r, sortP ltInt p = some p' ∧ s.sort = some r ∧ Rep p' xs fs r.st := by
  have hv := view_of_rep p xs fs s h
  have hvals : s.vals = xs.map p.val := vals_of_view p xs s.vals hv
  have hself : Rep p xs fs { s with nodes := LState.setVals s.nodes s.vals } := by
    have := rep_sameLinks p p xs fs s h (sameLinks_refl p)
    rw [← hvals] at this; exact this
  by_cases hlen : s.vals.length < 2
  · have hs : s.sort = some { st := { s with nodes := LState.setVals s.nodes s.vals } } := by
      simp [LState.sort, sortVals, hlen]
    refine ⟨p, _, ?_, hs, hself⟩
    have hl : xs.length < 2 := by rw [← hv.len]; exact hlen
    unfold sortP
    rw [h.endp]
    match xs, hl with
    | [], _ => rfl
    | [x], _ => simp [lastOr, h.beg]
  · have hl : 2 ≤ xs.length := by rw [← hv.len]; omega
    have hne : xs ≠ [] := by intro e; rw [e] at hl; simp at hl
    obtain ⟨m', e, w, _, _⟩ := qsortF_spec ltInt
      (by intro x y h; simp only [ltInt, decide_eq_true_eq, decide_eq_false_iff_not] at *; omega)
      (by intro x y z h1 h2; simp only [ltInt, decide_eq_true_eq] at *; omega)
      s.vals.length s.vals 0 (s.vals.length - 1) (by omega) (by omega) (by omega)
    obtain ⟨p', q1, q2, q3⟩ := qsortP_sim xs ltInt s.vals.length p s.vals 0 (s.vals.length - 1) hv (by omega)
      (by rw [hv.len]; omega) (by omega) m' e
    have hm' : m' = xs.map p'.val := vals_of_view p' xs m' q2
    refine ⟨p', { st := { s with nodes := LState.setVals s.nodes m' } }, ?_, ?_, ?_⟩
    · unfold sortP
      rw [h.endp, lastOr_getD xs hne]
      simp only
      have hb : p.begin = xs.getD 0 0 := by
        rw [h.beg]; cases xs with
        | nil => exact absurd rfl hne
        | cons x xs => rfl
      have : ¬ (p.begin = xs.getD (xs.length - 1) 0) := by
        rw [hb]; intro e'
        have := hv.inj 0 (xs.length - 1) (by omega) (by omega) e'
        omega
      simp only [this, if_false]
      rw [hb, h.sz, ← hv.len]
      exact q1
    · simp [LState.sort, sortVals, hlen, e]
    · rw [hm']; exact rep_sameLinks p p' xs fs s h q3

theorem insertMany_rep (vs : List Int) : ∀ (p : PList) (xs fs : List Nat) (s : LState) (k : Nat),
    Rep p xs fs s → k ≤ xs.length →
    ∃ p' xs' fs', insertMany p ((xs.drop k).headD 0) vs = some p' ∧ Rep p' xs' fs' (s.insertMany k vs).1 := by
  induction vs with
  | nil => intro p xs fs s k h _; exact ⟨p, xs, fs, rfl, h⟩
  | cons v vs ih =>
    intro p xs fs s k h hk
    obtain ⟨p1, item, fs1, e1, e2, _⟩ := insert_rep p xs fs s h k hk v
    have hd : ((xs.take k ++ item :: xs.drop k).drop (k + 1)) = xs.drop k := by
      have hl : (xs.take k).length = k := by simp; omega
      rw [List.drop_append, hl]
      simp [List.drop_eq_nil_of_le (show (xs.take k).length ≤ k + 1 by omega)]
    obtain ⟨p', xs', fs', f1, f2⟩ := ih p1 (xs.take k ++ item :: xs.drop k) fs1 (s.insertRaw k v).1 (k + 1) e2
      (by simp; omega)
    rw [hd] at f1
    refine ⟨p', xs', fs', by simp only [insertMany, e1]; exact f1, ?_⟩
    have : (s.insertMany k (v :: vs)).1 = ((s.insertRaw k v).1.insertMany (k + 1) vs).1 := by
      simp [LState.insertMany]
    rw [this]; exact f2

theorem findLoop_links (p : PList) (v : Int) : ∀ (b : List Nat) (fuel : Nat), NextLinks p b → b.length ≤ fuel →
    findLoop p v fuel (b.headD 0) = some ((b.drop ((b.map p.val).findIdx (· == v))).headD 0) := by
  intro b
  induction b with
  | nil => intro fuel _ _; cases fuel <;> rfl
  | cons y b ih =>
    intro fuel hl hf
    obtain ⟨y_nz, y_next, hl'⟩ := hl
    cases fuel with
    | zero => simp at hf
    | succ fuel =>
      cases y with
      | zero => exact absurd rfl y_nz
      | succ i =>
        simp only [List.headD_cons, findLoop, List.map_cons, List.findIdx_cons]
        by_cases c : p.val (i + 1) = v
        · simp [c]
        · have c' : (p.val (i + 1) == v) = false := by simpa using c
          simp only [c, if_false, y_next, c', cond_false, List.drop_succ_cons]
          exact ih fuel hl' (by simpa using hf)

theorem removeValue_rep (p : PList) (xs fs : List Nat) (s : LState) (h : Rep p xs fs s) (v : Int) :
    ∃ p' r xs' fs', removeValue p v = some p' ∧ s.removeValue v = some r ∧ Rep p' xs' fs' r.st := by
  have hv : s.vals = xs.map p.val := vals_of_view p xs s.vals (view_of_rep p xs fs s h)
  have hsize : s.size = xs.length := by simp [LState.size, h.nodes]
  have hfind := findLoop_links p v xs p.size (nextlinks_of_seg p xs none h.seg) (by rw [h.sz]; exact Nat.le_refl _)
  rw [← h.beg, ← hv] at hfind
  have hpos : s.findPos v = s.vals.findIdx (· == v) := rfl
  have hle : s.findPos v ≤ xs.length := by
    have := @List.findIdx_le_length _ (· == v) (xs.map p.val)
    rw [hpos, hv]; simpa using this
  unfold removeValue LState.removeValue find
  rw [hfind, ← hpos]
  by_cases c : s.findPos v = s.size
  · have : xs.drop (s.findPos v) = [] := by rw [c, hsize]; simp
    rw [this]
    exact ⟨p, { st := s }, xs, fs, rfl, by simp [c], h⟩
  · have hlt : s.findPos v < xs.length := by omega
    have hx : xs = xs.take (s.findPos v) ++ xs[s.findPos v] :: xs.drop (s.findPos v + 1) := by
      rw [List.getElem_cons_drop, List.take_append_drop]
    have h' : Rep p (xs.take (s.findPos v) ++ xs[s.findPos v] :: xs.drop (s.findPos v + 1)) fs s := by rw [← hx]; exact h
    obtain ⟨p', e1, e2⟩ := unlink_rep p _ _ fs _ s h'
    have hlen : (xs.take (s.findPos v)).length = s.findPos v := by simp; omega
    rw [hlen] at e2
    have hnz : xs[s.findPos v] ≠ 0 := seg_ne_zero p xs 0 none h.seg _ (List.getElem_mem hlt)
    have hn : s.nodes[s.findPos v]? = some (xs[s.findPos v] - 1, p.val xs[s.findPos v]) := by
      rw [h.nodes]; simp [hlt]
    rw [List.drop_eq_getElem_cons hlt]
    simp only [List.headD_cons]
    obtain ⟨a, ha⟩ : ∃ a, xs[s.findPos v] = a + 1 := ⟨xs[s.findPos v] - 1, by omega⟩
    rw [ha] at e1 ⊢
    simp only [e1, Option.map_some]
    refine ⟨p', { st := { s with nodes := s.nodes.take (s.findPos v) ++ s.nodes.drop (s.findPos v + 1),
                                 free := (a + 1 - 1) :: s.free } },
      xs.take (s.findPos v) ++ xs.drop (s.findPos v + 1), (a + 1) :: fs, rfl, ?_, ?_⟩
    · simp only [ne_eq, c, not_false_eq_true, if_true, LState.remove, hn, ha]
    · rw [← ha]; exact e2

/-! ### `insert(position, *this)` -/

theorem insert_val_frame (p : PList) (pos : Nat) (v : Int) (p' : PList) (item : Nat)
    (h : insert p pos v = some (p', item)) : ∀ x, x ≠ item → p'.val x = p.val x := by
  intro x hx
  unfold insert at h
  by_cases c : p.free.isNone
  · simp only [c, if_true] at h
    have hf : (refill p).free = some (p.bk * p.nblocks + p.bk) := rfl
    simp only [hf, Option.some.injEq, Prod.mk.injEq] at h
    rw [← h.1]
    show set (refill p).val _ v x = p.val x
    rw [set_ne _ _ _ _ (by rw [h.2]; exact hx)]; rfl
  · simp only [c, if_false, Bool.false_eq_true] at h
    cases hf : p.free with
    | none => simp [hf] at c
    | some f =>
      simp only [hf, Option.some.injEq, Prod.mk.injEq] at h
      rw [← h.1]
      show set p.val _ v x = p.val x
      rw [set_ne _ _ _ _ (by rw [h.2]; exact hx)]

theorem rep_next_mid (p : PList) (L Rr fs : List Nat) (cur : Nat) (s : LState) (h : Rep p (L ++ cur :: Rr) fs s) :
    p.next cur = some (Rr.headD 0) := by
  have := h.seg
  rw [seg_append] at this
  exact this.2.2.2.1

/-- one `insert(pos, v)` of the loop: the chain is `a ++ cs ++ b`, `pos` designates the head of `b` -/
theorem insert_mid (p : PList) (a cs b fs : List Nat) (s : LState) (h : Rep p (a ++ cs ++ b) fs s) (v : Int) :
    ∃ p' item fs', insert p (b.headD 0) v = some (p', item) ∧
      Rep p' (a ++ (cs ++ [item]) ++ b) fs' (s.insertRaw (a.length + cs.length) v).1 ∧
      (∀ x, x ≠ item → p'.val x = p.val x) ∧ item ∉ a ++ cs ++ b := by
  have ht : (a ++ cs ++ b).take (a.length + cs.length) = a ++ cs := by
    rw [← List.length_append]; exact List.take_left
  have hd : (a ++ cs ++ b).drop (a.length + cs.length) = b := by
    rw [← List.length_append]; exact List.drop_left
  obtain ⟨p', item, fs', e1, e2, _⟩ := insert_rep p (a ++ cs ++ b) fs s h (a.length + cs.length) (by simp) v
  rw [ht, hd] at e2
  rw [hd] at e1
  refine ⟨p', item, fs', e1, by simpa using e2, insert_val_frame p _ v p' item e1, ?_⟩
  have nd := (List.nodup_append.1 e2.nd).1
  intro hm
  have hperm : (a ++ cs ++ item :: b).Perm (item :: (a ++ cs ++ b)) := by
    simpa using (List.perm_middle (a := item) (l₁ := a ++ cs) (l₂ := b))
  have := (hperm.nodup_iff.1 nd)
  exact (List.nodup_cons.1 this).1 hm

theorem insertMany_cons_fst (s : LState) (k : Nat) (v : Int) (vs : List Int) :
    (s.insertMany k (v :: vs)).1 = ((s.insertRaw k v).1.insertMany (k + 1) vs).1 := by
  simp [LState.insertMany]

/-- the walk has reached the item `cur` of the part `b` behind `pos` -/
theorem selfLoop_b (V : Nat → Int) (a : List Nat) : ∀ (b2 b1 : List Nat) (cur : Nat) (cs fs : List Nat) (p : PList)
    (s : LState) (fuel : Nat),
    Rep p (a ++ cs ++ (b1 ++ cur :: b2)) fs s → cs ≠ [] → (∀ x ∈ b2, p.val x = V x) → b2.length < fuel →
    ∃ p' cs' fs', insertSelfLoop ((b1 ++ cur :: b2).headD 0) (cs.headD 0) ((cur :: b2).getLast (by simp)) fuel p cur = some p' ∧
      Rep p' (a ++ (cs ++ cs') ++ (b1 ++ cur :: b2)) fs' (s.insertMany (a.length + cs.length) (b2.map V)).1 := by
  intro b2
  induction b2 with
  | nil =>
    intro b1 cur cs fs p s fuel h _ _ hf
    cases fuel with
    | zero => omega
    | succ fuel => exact ⟨p, [], fs, by simp [insertSelfLoop], by simpa [LState.insertMany] using h⟩
  | cons y b2 ih =>
    intro b1 cur cs fs p s fuel h hcs hV hf
    cases fuel with
    | zero => omega
    | succ fuel =>
      have nd : (a ++ cs ++ (b1 ++ cur :: y :: b2)).Nodup := (List.nodup_append.1 h.nd).1
      have nd_b : (b1 ++ cur :: y :: b2).Nodup := (List.nodup_append.1 nd).2.1
      have nd_c : (cur :: y :: b2).Nodup := (List.nodup_append.1 nd_b).2.1
      have cur_ne_last : cur ≠ (cur :: y :: b2).getLast (by simp) := by
        intro e
        have hm : (cur :: y :: b2).getLast (by simp) ∈ y :: b2 := by
          rw [List.getLast_cons (by simp)]; exact List.getLast_mem _
        rw [← e] at hm
        exact (List.nodup_cons.1 nd_c).1 hm
      have hnext : p.next cur = some y := by
        have := rep_next_mid p (a ++ cs ++ b1) (y :: b2) fs cur s (by simpa using h)
        simpa using this
      have y_ne_res : y ≠ cs.headD 0 := by
        intro e
        cases cs with
        | nil => exact hcs rfl
        | cons c cs' =>
          simp only [List.headD_cons] at e
          have : c ∈ a ++ c :: cs' := by simp
          exact (List.nodup_append.1 nd).2.2 c this y (by simp) e.symm
      obtain ⟨p1, item, fs1, e1, e2, e3, e4⟩ := insert_mid p a cs (b1 ++ cur :: y :: b2) fs s h (V y)
      have hvy : p.val y = V y := hV y (by simp)
      have hV' : ∀ x ∈ b2, p1.val x = V x := by
        intro x hx
        have x_ne : x ≠ item := by
          intro e; apply e4; rw [← e]; simp [hx]
        rw [e3 x x_ne]; exact hV x (by simp [hx])
      have h' : Rep p1 (a ++ (cs ++ [item]) ++ ((b1 ++ [cur]) ++ y :: b2)) fs1 (s.insertRaw (a.length + cs.length) (V y)).1 := by
        simpa using e2
      obtain ⟨p', cs', fs', f1, f2⟩ := ih (b1 ++ [cur]) y (cs ++ [item]) fs1 p1 _ fuel h' (by simp) hV' (by simpa using hf)
      refine ⟨p', item :: cs', fs', ?_, ?_⟩
      · rw [insertSelfLoop]
        simp only [cur_ne_last, if_false, hnext, y_ne_res, hvy, e1]
        have hh : ((b1 ++ [cur]) ++ y :: b2).headD 0 = (b1 ++ cur :: y :: b2).headD 0 := by simp
        have hr : (cs ++ [item]).headD 0 = cs.headD 0 := by
          cases cs with
          | nil => exact absurd rfl hcs
          | cons c cs' => rfl
        have hl : (y :: b2).getLast (by simp) = (cur :: y :: b2).getLast (by simp) :=
          (List.getLast_cons (a := cur) (by simp : y :: b2 ≠ [])).symm
        rw [hh, hr, hl] at f1
        exact f1
      · rw [List.map_cons, insertMany_cons_fst]
        simpa [Nat.add_assoc] using f2

/-- the walk is at the item `cur` of the part `a` in front of `pos` -/
theorem selfLoop_a (V : Nat → Int) (b : List Nat) : ∀ (a2 a1 : List Nat) (cur : Nat) (cs fs : List Nat) (p : PList)
    (s : LState) (fuel : Nat),
    Rep p ((a1 ++ cur :: a2) ++ cs ++ b) fs s → cs ≠ [] → (∀ x ∈ a2 ++ b, p.val x = V x) → (a2 ++ b).length < fuel →
    ∃ p' cs' fs', insertSelfLoop (b.headD 0) (cs.headD 0) ((cur :: (a2 ++ b)).getLast (by simp)) fuel p cur = some p' ∧
      Rep p' ((a1 ++ cur :: a2) ++ (cs ++ cs') ++ b) fs'
        (s.insertMany ((a1 ++ cur :: a2).length + cs.length) ((a2 ++ b).map V)).1 := by
  intro a2
  induction a2 with
  | nil =>
    intro a1 cur cs fs p s fuel h hcs hV hf
    cases b with
    | nil =>
      cases fuel with
      | zero => omega
      | succ fuel => exact ⟨p, [], fs, by simp [insertSelfLoop], by simpa [LState.insertMany] using h⟩
    | cons y b' =>
      cases fuel with
      | zero => omega
      | succ fuel =>
        have nd : ((a1 ++ [cur]) ++ cs ++ (y :: b')).Nodup := (List.nodup_append.1 h.nd).1
        have cur_ne_last : cur ≠ (cur :: ([] ++ y :: b')).getLast (by simp) := by
          intro e
          have hm : (cur :: ([] ++ y :: b')).getLast (by simp) ∈ y :: b' := by
            simp only [List.nil_append]
            rw [List.getLast_cons (by simp)]; exact List.getLast_mem _
          rw [← e] at hm
          have : cur ∈ a1 ++ [cur] ++ cs := by simp
          exact (List.nodup_append.1 nd).2.2 cur this cur hm rfl
        have hnext : p.next cur = some (cs.headD 0) := by
          have := rep_next_mid p a1 (cs ++ y :: b') fs cur s (by simpa using h)
          rw [this]
          cases cs with
          | nil => exact absurd rfl hcs
          | cons c cs' => rfl
        obtain ⟨p1, item, fs1, e1, e2, e3, e4⟩ := insert_mid p (a1 ++ [cur]) cs (y :: b') fs s h (V y)
        simp only [List.headD_cons] at e1
        have hvy : p.val y = V y := hV y (by simp)
        have hV' : ∀ x ∈ b', p1.val x = V x := by
          intro x hx
          have x_ne : x ≠ item := by
            intro e; apply e4; rw [← e]; simp [hx]
          rw [e3 x x_ne]; exact hV x (by simp [hx])
        have h' : Rep p1 ((a1 ++ [cur]) ++ (cs ++ [item]) ++ ([] ++ y :: b')) fs1
            (s.insertRaw ((a1 ++ [cur]).length + cs.length) (V y)).1 := by simpa using e2
        obtain ⟨p', cs', fs', f1, f2⟩ := selfLoop_b V (a1 ++ [cur]) b' [] y (cs ++ [item]) fs1 p1 _ fuel h' (by simp) hV'
          (by simpa using hf)
        refine ⟨p', item :: cs', fs', ?_, ?_⟩
        · rw [insertSelfLoop]
          simp only [cur_ne_last, if_false, hnext, if_true, List.headD_cons, hvy, e1]
          have hr : (cs ++ [item]).headD 0 = cs.headD 0 := by
            cases cs with
            | nil => exact absurd rfl hcs
            | cons c cs' => rfl
          have hl : (y :: b').getLast (by simp) = (cur :: ([] ++ y :: b')).getLast (by simp) :=
            (List.getLast_cons (a := cur) (by simp : y :: b' ≠ [])).symm
          rw [hr, hl] at f1
          simpa using f1
        · simp only [List.nil_append, List.map_cons]
          rw [insertMany_cons_fst]
          simpa [Nat.add_assoc] using f2
  | cons z a2 ih =>
    intro a1 cur cs fs p s fuel h hcs hV hf
    cases fuel with
    | zero => omega
    | succ fuel =>
      have nd : ((a1 ++ cur :: z :: a2) ++ cs ++ b).Nodup := (List.nodup_append.1 h.nd).1
      have nd_a : (a1 ++ cur :: z :: a2).Nodup := (List.nodup_append.1 (List.nodup_append.1 nd).1).1
      have nd_all : (cur :: (z :: a2 ++ b)).Nodup := by
        have h1 : (a1 ++ (cur :: z :: a2) ++ cs ++ b).Nodup := by simpa using nd
        have hsub : (cur :: (z :: a2 ++ b)).Sublist (a1 ++ (cur :: z :: a2) ++ cs ++ b) := by
          have s1 : (cur :: z :: a2).Sublist (a1 ++ (cur :: z :: a2) ++ cs) :=
            (List.sublist_append_right a1 _).trans (List.sublist_append_left _ cs)
          simpa using s1.append (List.Sublist.refl b)
        exact hsub.nodup h1
      have cur_ne_last : cur ≠ (cur :: (z :: a2 ++ b)).getLast (by simp) := by
        intro e
        have hm : (cur :: (z :: a2 ++ b)).getLast (by simp) ∈ z :: a2 ++ b := by
          rw [List.getLast_cons (by simp)]; exact List.getLast_mem _
        rw [← e] at hm
        exact (List.nodup_cons.1 nd_all).1 hm
      have hnext : p.next cur = some z := by
        have := rep_next_mid p a1 (z :: a2 ++ cs ++ b) fs cur s (by simpa using h)
        simpa using this
      have z_ne_res : z ≠ cs.headD 0 := by
        intro e
        cases cs with
        | nil => exact hcs rfl
        | cons c cs' =>
          simp only [List.headD_cons] at e
          have hz : z ∈ a1 ++ cur :: z :: a2 := by simp
          exact (List.nodup_append.1 (List.nodup_append.1 nd).1).2.2 z hz c (by simp) e
      obtain ⟨p1, item, fs1, e1, e2, e3, e4⟩ := insert_mid p (a1 ++ cur :: z :: a2) cs b fs s h (V z)
      have hvz : p.val z = V z := hV z (by simp)
      have hV' : ∀ x ∈ a2 ++ b, p1.val x = V x := by
        intro x hx
        have x_ne : x ≠ item := by
          intro e; apply e4; rw [← e]
          simp only [List.mem_append, List.mem_cons] at hx ⊢
          rcases hx with hx | hx
          · exact Or.inl (Or.inl (Or.inr (Or.inr (Or.inr hx))))
          · exact Or.inr hx
        rw [e3 x x_ne]; exact hV x (by simp only [List.cons_append, List.mem_cons]; exact Or.inr hx)
      have h' : Rep p1 (((a1 ++ [cur]) ++ z :: a2) ++ (cs ++ [item]) ++ b) fs1
          (s.insertRaw ((a1 ++ cur :: z :: a2).length + cs.length) (V z)).1 := by simpa using e2
      obtain ⟨p', cs', fs', f1, f2⟩ := ih (a1 ++ [cur]) z (cs ++ [item]) fs1 p1 _ fuel h' (by simp) hV' (by simpa using hf)
      refine ⟨p', item :: cs', fs', ?_, ?_⟩
      · rw [insertSelfLoop]
        simp only [cur_ne_last, if_false, hnext, z_ne_res, hvz, e1]
        have hr : (cs ++ [item]).headD 0 = cs.headD 0 := by
          cases cs with
          | nil => exact absurd rfl hcs
          | cons c cs' => rfl
        have hl : (z :: (a2 ++ b)).getLast (by simp) = (cur :: (z :: a2 ++ b)).getLast (by simp) :=
          (List.getLast_cons (a := cur) (by simp : z :: a2 ++ b ≠ [])).symm
        rw [hr, hl] at f1
        exact f1
      · simp only [List.cons_append, List.map_cons]
        rw [insertMany_cons_fst]
        have hlen : ((a1 ++ [cur]) ++ z :: a2).length = (a1 ++ cur :: z :: a2).length := by simp
        rw [hlen] at f2
        simpa [Nat.add_assoc] using f2

theorem lastOr_eq_getLast (xs : List Nat) (h : xs ≠ []) : ∀ pr, lastOr xs pr = some (xs.getLast h) := by
  induction xs with
  | nil => exact absurd rfl h
  | cons x xs ih =>
    intro pr
    cases xs with
    | nil => rfl
    | cons y ys =>
      simp only [lastOr]
      rw [List.getLast_cons (by simp)]
      exact ih (by simp) (some x)

/-- `insert(position, *this)` on the heap does what `insertList pos vals` does on the chain model -/
theorem insertSelf_rep (p : PList) (xs fs : List Nat) (s : LState) (h : Rep p xs fs s) (k : Nat) (hk : k ≤ xs.length) :
    ∃ p' r xs' fs', insertSelf p ((xs.drop k).headD 0) = some (p', r) ∧ Rep p' xs' fs' (s.insertMany k s.vals).1 := by
  have hv : s.vals = xs.map p.val := vals_of_view p xs s.vals (view_of_rep p xs fs s h)
  cases xs with
  | nil =>
    have : p.prev 0 = none := h.endp
    refine ⟨p, 0, [], fs, by simp [insertSelf, this], ?_⟩
    rw [hv]; simpa [LState.insertMany] using h
  | cons x0 xr =>
    have hne : x0 :: xr ≠ [] := by simp
    have hlast : p.prev 0 = some ((x0 :: xr).getLast hne) := by rw [h.endp]; exact lastOr_eq_getLast _ hne none
    have hbeg : p.begin = x0 := by rw [h.beg]; rfl
    have hvals : s.vals = p.val x0 :: xr.map p.val := by rw [hv]; rfl
    have hsz : p.size + 1 = xr.length + 1 + 1 := by rw [h.sz]; rfl
    unfold insertSelf
    rw [hlast, hbeg, hvals, insertMany_cons_fst]
    simp only
    cases k with
    | zero =>
      have h0 : Rep p ([] ++ [] ++ (x0 :: xr)) fs s := by simpa using h
      obtain ⟨p1, item, fs1, e1, e2, e3, e4⟩ := insert_mid p [] [] (x0 :: xr) fs s h0 (p.val x0)
      simp only [List.headD_cons] at e1
      have e4' : item ∉ x0 :: xr := by simpa using e4
      have hV1 : ∀ y ∈ x0 :: xr, p1.val y = p.val y := fun y hy => e3 y (fun e => e4' (e ▸ hy))
      have e2' : Rep p1 ([] ++ [item] ++ ([] ++ x0 :: xr)) fs1 (s.insertRaw 0 (p.val x0)).1 := by simpa using e2
      obtain ⟨p', cs', fs', f1, f2⟩ := selfLoop_b p.val [] xr [] x0 [item] fs1 p1 _ (p.size + 1) e2' (by simp)
        (fun y hy => hV1 y (by simp [hy])) (by rw [hsz]; omega)
      refine ⟨p', item, _, fs', ?_, by simpa using f2⟩
      simp only [List.drop_zero, List.nil_append, List.headD_cons] at f1 ⊢
      rw [e1]
      simp only [f1, Option.map_some]
    | succ k' =>
      have hk' : k' ≤ xr.length := by simpa using hk
      have hlen : (xr.take k').length = k' := by simp; omega
      have h0 : Rep p ((x0 :: xr.take k') ++ [] ++ xr.drop k') fs s := by simpa using h
      obtain ⟨p1, item, fs1, e1, e2, e3, e4⟩ := insert_mid p (x0 :: xr.take k') [] (xr.drop k') fs s h0 (p.val x0)
      have e4' : item ∉ x0 :: xr := by
        intro hm; apply e4
        simp only [List.append_nil, List.cons_append, List.mem_cons, List.mem_append] at hm ⊢
        rcases hm with hm | hm
        · exact Or.inl hm
        · right; rw [← List.mem_append, List.take_append_drop]; exact hm
      have hV1 : ∀ y ∈ x0 :: xr, p1.val y = p.val y := fun y hy => e3 y (fun e => e4' (e ▸ hy))
      have e2' : Rep p1 (([] ++ x0 :: xr.take k') ++ [item] ++ xr.drop k') fs1 (s.insertRaw (k' + 1) (p.val x0)).1 := by
        simpa [hlen] using e2
      obtain ⟨p', cs', fs', f1, f2⟩ := selfLoop_a p.val (xr.drop k') (xr.take k') [] x0 [item] fs1 p1 _ (p.size + 1) e2'
        (by simp) (fun y hy => hV1 y (by
            simp only [List.mem_cons]; right
            rw [← List.take_append_drop k' xr]; exact hy))
        (by rw [hsz]; simp; omega)
      have hmap : (xr.take k' ++ xr.drop k').map p.val = xr.map p.val := by rw [List.take_append_drop]
      rw [hmap] at f2
      have hlen1 : ([] ++ x0 :: xr.take k').length + [item].length = k' + 1 + 1 := by simp [hlen]
      rw [hlen1] at f2
      refine ⟨p', item, _, fs', ?_, f2⟩
      simp only [List.drop_succ_cons, List.headD_cons] at f1 ⊢
      have hl : (x0 :: (xr.take k' ++ xr.drop k')).getLast (by simp) = (x0 :: xr).getLast hne := by
        congr 1 <;> simp
      rw [hl] at f1
      rw [e1]
      simp only [f1, Option.map_some]

/-- one operation of a history: the heap and the chain model accept the same operations and stay related -/
theorem step_rep (p : PList) (xs fs : List Nat) (s : LState) (h : Rep p xs fs s) (op : POp) :
    (step p op = none ∧ stepChain s op = none) ∨
    ∃ p' s' xs' fs', step p op = some p' ∧ stepChain s op = some s' ∧ Rep p' xs' fs' s' := by
  have hsize : s.size = xs.length := by simp [LState.size, h.nodes]
  cases op with
  | insert k v =>
    by_cases hk : k ≤ xs.length
    · right
      obtain ⟨p', item, fs', e1, e2, _⟩ := insert_rep p xs fs s h k hk v
      have hw := walk_seg p k xs none h.seg hk
      rw [← h.beg] at hw
      refine ⟨p', (s.insertRaw k v).1, _, fs', ?_, ?_, e2⟩
      · simp only [step, h.sz, hk, if_true, hw, e1, Option.map_some]
      · simp [stepChain, LState.insert, hsize, hk]
    · left
      exact ⟨by simp [step, h.sz, hk], by simp [stepChain, LState.insert, hsize, hk]⟩
  | remove k =>
    by_cases hk : k < xs.length
    · right
      have hx : xs = xs.take k ++ xs[k] :: xs.drop (k + 1) := by
        rw [List.getElem_cons_drop, List.take_append_drop]
      have h' : Rep p (xs.take k ++ xs[k] :: xs.drop (k + 1)) fs s := by rw [← hx]; exact h
      obtain ⟨p', e1, e2⟩ := unlink_rep p (xs.take k) (xs.drop (k + 1)) fs xs[k] s h'
      have hw := walk_seg p k xs none h.seg (Nat.le_of_lt hk)
      rw [← h.beg] at hw
      have hd : (xs.drop k).headD 0 = xs[k] := by
        rw [List.drop_eq_getElem_cons hk]; rfl
      have hlen : (xs.take k).length = k := by simp; omega
      rw [hlen] at e2
      have hn : s.nodes[k]? = some (xs[k] - 1, p.val xs[k]) := by
        rw [h.nodes]; simp [hk]
      refine ⟨p', _, _, _, ?_, ?_, e2⟩
      · simp only [step, h.sz, hk, if_true, hw, hd, e1, Option.map_some]
      · simp [stepChain, LState.remove, hn]
    · left
      have hn : s.nodes[k]? = none := by rw [h.nodes]; simp; omega
      exact ⟨by simp [step, h.sz, hk], by simp [stepChain, LState.remove, hn]⟩
  | clear =>
    right
    obtain ⟨p', e1, e2⟩ := clear_rep p xs fs s h
    exact ⟨p', s.clear, _, _, e1, rfl, e2⟩
  | sort =>
    right
    obtain ⟨p', r, e1, e2, e3⟩ := sortP_rep p xs fs s h
    exact ⟨p', r.st, xs, fs, e1, by simp [stepChain, e2], e3⟩
  | insertList k vs =>
    by_cases hk : k ≤ xs.length
    · right
      obtain ⟨p', xs', fs', e1, e2⟩ := insertMany_rep vs p xs fs s k h hk
      have hw := walk_seg p k xs none h.seg hk
      rw [← h.beg] at hw
      refine ⟨p', (s.insertMany k vs).1, xs', fs', ?_, ?_, e2⟩
      · simp only [step, h.sz, hk, if_true, hw, e1]
      · simp [stepChain, LState.insertList, hsize, hk]
    · left
      exact ⟨by simp [step, h.sz, hk], by simp [stepChain, LState.insertList, hsize, hk]⟩
  | removeValue v =>
    right
    obtain ⟨p', r, xs', fs', e1, e2, e3⟩ := removeValue_rep p xs fs s h v
    exact ⟨p', r.st, xs', fs', e1, by simp [stepChain, e2], e3⟩
  | insertSelf k =>
    by_cases hk : k ≤ xs.length
    · right
      obtain ⟨p', r, xs', fs', e1, e2⟩ := insertSelf_rep p xs fs s h k hk
      have hw := walk_seg p k xs none h.seg hk
      rw [← h.beg] at hw
      refine ⟨p', (s.insertMany k s.vals).1, xs', fs', ?_, ?_, e2⟩
      · simp only [step, h.sz, hk, if_true, hw, e1, Option.map_some]
      · simp [stepChain, LState.insertList, hsize, hk]
    · left
      exact ⟨by simp [step, h.sz, hk], by simp [stepChain, LState.insertList, hsize, hk]⟩

theorem run_rep (ops : List POp) : ∀ (p : PList) (xs fs : List Nat) (s : LState), Rep p xs fs s →
    ∃ xs' fs', Rep (run p ops) xs' fs' (runChain s ops) := by
  induction ops with
  | nil => intro p xs fs s h; exact ⟨xs, fs, h⟩
  | cons op ops ih =>
    intro p xs fs s h
    rcases step_rep p xs fs s h op with ⟨e1, e2⟩ | ⟨p', s', xs', fs', e1, e2, h'⟩
    · simp only [run, runChain, e1, e2]; exact ih p xs fs s h
    · simp only [run, runChain, e1, e2]; exact ih p' xs' fs' s' h'

theorem accepted_rep (ops : List POp) : ∀ (p : PList) (xs fs : List Nat) (s : LState), Rep p xs fs s →
    accepted p ops = acceptedChain s ops := by
  induction ops with
  | nil => intro p xs fs s _; rfl
  | cons op ops ih =>
    intro p xs fs s h
    rcases step_rep p xs fs s h op with ⟨e1, e2⟩ | ⟨p', s', xs', fs', e1, e2, h'⟩
    · simp only [accepted, acceptedChain, e1, e2]; rw [ih p xs fs s h]
    · simp only [accepted, acceptedChain, e1, e2]; rw [ih p' xs' fs' s' h']

end Nstd.Seq.Ptr
