import Nstd.Seq.Model
/-
  Cell-level model of `Array<T>` (include/nstd/Array.hpp): the storage is a block of `_capacity` cells, each
  either raw (`none`) or holding a constructed element; the loops of `reserve` (copy-construct into the new
  block, destroy the old elements), `append(values, size)` / `append(Array)` / copy construction / `resize`
  (placement-new loops), `remove` (shifting assignment loop + destructor call) and `clear` / shrinking
  `resize` (destructor loops) are written cell by cell with checked accesses:
  constructing outside the allocation, reading or assigning or destroying a raw cell is a fault (`none`).
  (`Props.raw_refines` relates this model to the `AState` model of Model.lean.)
-/
namespace Nstd.Seq.Raw

abbrev Cells := List (Option Int)

/-- `new(&cell[i]) T(v)` -/
def construct (cs : Cells) (i : Nat) (v : Int) : Option Cells :=
  if i < cs.length then some (cs.set i (some v)) else none

/-- read a constructed element -/
def readCell (cs : Cells) (i : Nat) : Option Int :=
  match cs[i]? with
  | some (some v) => some v
  | _ => none

/-- `cell[i].~T()` -/
def destroy (cs : Cells) (i : Nat) : Option Cells :=
  match cs[i]? with
  | some (some _) => some (cs.set i none)
  | _ => none

/-- `for(src = _begin, dest = newData; src != _end; ++src, ++dest) { new(dest) T(*src); src->~T(); }`
    (`i` = index of `src`/`dest`, `k` = elements left; the old block is deleted right afterwards) -/
def moveLoop (old : Cells) : Cells → Nat → Nat → Option Cells
  | new, _, 0 => some new
  | new, i, k + 1 =>
    match readCell old i with
    | none => none
    | some v =>
      match construct new i v with
      | none => none
      | some new' => moveLoop old new' (i + 1) k

/-- `for(; item < end; ++item, ++src) new(item) T(*src);` — construct the values `xs` from cell `i` on -/
def fillFrom : Cells → Nat → List Int → Option Cells
  | cs, _, [] => some cs
  | cs, i, x :: xs =>
    match construct cs i x with
    | none => none
    | some cs' => fillFrom cs' (i + 1) xs

/-- `for(i = first; i != end; ++i) i->~T();` -/
def destroyRange : Cells → Nat → Nat → Option Cells
  | cs, _, 0 => some cs
  | cs, i, k + 1 =>
    match destroy cs i with
    | none => none
    | some cs' => destroyRange cs' (i + 1) k

/-- `for(T* end = --_end.item, * dest; pos < end;) { dest = pos; *dest = *(++pos); }`
    (`k` = `end - pos`; both cells of an assignment must hold constructed elements) -/
def shiftLoop : Cells → Nat → Nat → Option Cells
  | cs, _, 0 => some cs
  | cs, pos, k + 1 =>
    match readCell cs (pos + 1), readCell cs pos with
    | some v, some _ => shiftLoop (cs.set pos (some v)) (pos + 1) k
    | _, _ => none

/-- read all constructed elements `0 … k-1` -/
def readAll (cs : Cells) : Nat → Nat → Option (List Int)
  | _, 0 => some []
  | i, k + 1 =>
    match readCell cs i with
    | none => none
    | some v => (readAll cs (i + 1) k).map (v :: ·)

structure RArr where
  cap : Nat := 0                       -- `_capacity`
  cells : Option Cells := none         -- the block `_begin.item` points to (`none` = null)
  n : Nat := 0                         -- `_end.item - _begin.item`

variable [ArrCfg]

/-- `reserve(size)` -/
def reserve (r : RArr) (size : Nat) : Option RArr :=
  if size > r.cap ∨ (r.cells.isNone ∧ size > 0) then
    let cap1 := if size > r.cap then size else r.cap
    let cap2 := cap1 ||| ArrCfg.mask                                  -- _capacity |= <mask>;
    let fresh : Cells := List.replicate cap2 none                    -- new char[sizeof(T) * _capacity]
    match r.cells with
    | some old =>
      match moveLoop old fresh 0 r.n with
      | some new => some { cap := cap2, cells := some new, n := r.n } -- _begin = newData; _end = dest;
      | none => none
    | none => some { cap := cap2, cells := some fresh, n := 0 }
  else some r

/-- `append(const T&)` -/
def append (r : RArr) (x : Int) : Option RArr :=
  match reserve r (r.n + 1) with
  | none => none
  | some r1 =>
    match r1.cells with
    | none => none
    | some cs =>
      match construct cs r1.n x with
      | some cs' => some { r1 with cells := some cs', n := r1.n + 1 }
      | none => none

/-- `append(const T* values, usize size)` and `append(const Array&)` -/
def appendAll (r : RArr) (xs : List Int) : Option RArr :=
  match reserve r (r.n + xs.length) with
  | none => none
  | some r1 =>
    match r1.cells with
    | none => if xs.isEmpty then some r1 else none
    | some cs =>
      match fillFrom cs r1.n xs with
      | some cs' => some { r1 with cells := some cs', n := r1.n + xs.length }
      | none => none

/-- `resize(size, value)` -/
def resize (r : RArr) (size : Nat) (x : Int) : Option RArr :=
  if size < r.n then
    match r.cells with
    | none => none
    | some cs =>
      match destroyRange cs size (r.n - size) with
      | some cs' => some { r with cells := some cs', n := size }
      | none => none
  else appendAll r (List.replicate (size - r.n) x)

/-- `remove(const Iterator&)` for an iterator designating element `i < size` -/
def removeAt (r : RArr) (i : Nat) : Option RArr :=
  if i < r.n then
    match r.cells with
    | none => none
    | some cs =>
      match shiftLoop cs i (r.n - 1 - i) with
      | none => none
      | some cs1 =>
        match destroy cs1 (r.n - 1) with                               -- pos->~T();
        | some cs2 => some { r with cells := some cs2, n := r.n - 1 }
        | none => none
  else none

/-- `clear()` -/
def clear (r : RArr) : Option RArr :=
  match r.cells with
  | none => some r
  | some cs =>
    match destroyRange cs 0 r.n with
    | some cs' => some { r with cells := some cs', n := 0 }
    | none => none

/-- the common part of the copy constructor and of `operator=`: `reserve(other.capacity())`, copy-construct
    all elements of `other`, `_end.item = dest` -/
def copyFrom (r o : RArr) : Option RArr :=
  match reserve r o.cap with
  | none => none
  | some r1 =>
    match o.cells with
    | none => some { r1 with n := 0 }
    | some ocs =>
      match readAll ocs 0 o.n with
      | none => none
      | some vs =>
        match r1.cells with
        | none => if vs.isEmpty then some { r1 with n := 0 } else none
        | some cs =>
          match fillFrom cs 0 vs with
          | some cs' => some { r1 with cells := some cs', n := vs.length }
          | none => none

/-- the copy loop of `append(*this)`: `src` starts at `_begin.item` of the array's own block AFTER `reserve`
    (`d` = destination cell, `j` = source cell, `k` = elements left) -/
def selfCopyLoop : Cells → Nat → Nat → Nat → Option Cells
  | cs, _, _, 0 => some cs
  | cs, d, j, k + 1 =>
    match readCell cs j with
    | none => none
    | some v =>
      match construct cs d v with
      | none => none
      | some cs' => selfCopyLoop cs' (d + 1) (j + 1) k

/-- `append(*this)` -/
def appendSelf (r : RArr) : Option RArr :=
  match reserve r (r.n + r.n) with                     -- valuesSize = values.size(); reserve(size + valuesSize);
  | none => none
  | some r1 =>
    match r1.cells with
    | none => if r.n = 0 then some r1 else none
    | some cs =>
      match selfCopyLoop cs r.n 0 r.n with            -- src = values._begin.item (the new block)
      | some cs' => some { r1 with cells := some cs', n := r.n + r.n }
      | none => none

/-- `append(&a[i], n)` (`append(const T* values, usize size)` with `values` pointing into the array, `i + n ≤ size`):
    `values = reserve(oldSize + size, values)` = `_begin.item + index` in the (possibly new) block, then the copy loop
    `for(end = item + size; item < end; ++item, ++values) new(item) T(*values);` reads the cells `i … i+n-1` of that block -/
def appendSub (r : RArr) (i n : Nat) : Option RArr :=
  if i + n ≤ r.n then
    match reserve r (r.n + n) with
    | none => none
    | some r1 =>
      match r1.cells with
      | none => if n = 0 then some r1 else none
      | some cs =>
        match selfCopyLoop cs r.n i n with
        | some cs' => some { r1 with cells := some cs', n := r.n + n }
        | none => none
  else none

/-- `append(a[i])`: `src = reserve(size + 1, &value)` = `_begin.item + index` in the new block -/
def appendRef (r : RArr) (i : Nat) : Option RArr :=
  if i < r.n then
    match reserve r (r.n + 1) with
    | none => none
    | some r1 =>
      match r1.cells with
      | none => none
      | some cs =>
        match readCell cs i with
        | none => none
        | some v =>
          match construct cs r.n v with
          | some cs' => some { r1 with cells := some cs', n := r.n + 1 }
          | none => none
  else none

/-- the fill loop of `resize(n, a[i])`: every new cell is copy-constructed from `*src` (cell `i` of the new block) -/
def fillRefLoop : Cells → Nat → Nat → Nat → Option Cells
  | cs, _, _, 0 => some cs
  | cs, d, i, k + 1 =>
    match readCell cs i with
    | none => none
    | some v =>
      match construct cs d v with
      | none => none
      | some cs' => fillRefLoop cs' (d + 1) i k

/-- `resize(size, a[i])` -/
def resizeRef (r : RArr) (size i : Nat) : Option RArr :=
  if i < r.n then
    if size < r.n then
      match r.cells with
      | none => none
      | some cs =>
        match destroyRange cs size (r.n - size) with
        | some cs' => some { r with cells := some cs', n := size }
        | none => none
    else
      match reserve r size with
      | none => none
      | some r1 =>
        match r1.cells with
        | none => none
        | some cs =>
          match fillRefLoop cs r.n i (size - r.n) with
          | some cs' => some { r1 with cells := some cs', n := size }
          | none => none
  else none

/-- the elements of `o` as `append(const Array&)` reads them through `values._begin.item` -/
def contents (o : RArr) : Option (List Int) :=
  match o.cells with
  | none => some []
  | some cs => readAll cs 0 o.n

/-! ### the two Array variables of the machine at cell level -/

structure RPair where
  a0 : RArr := {}
  a1 : RArr := {}

def RPair.get (p : RPair) (v : Nat) : RArr := if v = 0 then p.a0 else p.a1
def RPair.set (p : RPair) (v : Nat) (x : RArr) : RPair := if v = 0 then { p with a0 := x } else { p with a1 := x }

def isArrayOp : Op → Bool
  | .anew _ | .anewcap _ _ | .acopy _ | .aassign _ | .areserve _ _ | .aresize _ _ _ | .aappend _ _ | .aappenda _
  | .aappendn _ _ | .aremovei _ _ | .aremove _ _ | .aremoveFront _ | .aremoveBack _ | .aclear _ | .aswap _
  | .afind _ _ | .aget _ _ | .afront _ | .aback _ | .aeq _ _
  | .aappendself _ | .aappendref _ _ | .aresizeref _ _ _ | .aassignself _ | .aappendsub _ _ _ | .aresized _ _ => true
  | _ => false

/-- one Array operation of the machine at cell level (`none` = precondition violated or fault);
    operations of the other container kinds leave the arrays alone -/
def rstep (p : RPair) (op : Op) : Option RPair :=
  let un (v : Nat) (f : RArr → Option RArr) : Option RPair :=
    if v < 2 then (f (p.get v)).map (p.set v) else none
  match op with
  | .anew v => un v (fun _ => some {})
  | .anewcap v n => un v (fun _ => some { cap := n })
  | .acopy v => un v (fun _ => copyFrom {} (p.get (1 - v)))
  | .aassign v => un v (fun r => match clear r with | some c => copyFrom c (p.get (1 - v)) | none => none)
  | .areserve v n => un v (fun r => reserve r n)
  | .aresize v n x => un v (fun r => resize r n x)
  | .aappend v x => un v (fun r => append r x)
  | .aappenda v => un v (fun r => match contents (p.get (1 - v)) with | some xs => appendAll r xs | none => none)
  | .aappendn v xs => un v (fun r => appendAll r xs)
  | .aremovei v i => un v (fun r => if i < r.n then removeAt r i else some r)
  | .aremove v i => un v (fun r => removeAt r i)
  | .aremoveFront v => un v (fun r => removeAt r 0)
  | .aremoveBack v => un v (fun r => if r.n = 0 then none else removeAt r (r.n - 1))
  | .aclear v => un v clear
  | .aswap v => if v < 2 then some ((p.set v (p.get (1 - v))).set (1 - v) (p.get v)) else none
  | .afind v _ => un v some
  | .aget v i => un v (fun r => if i < r.n then some r else none)
  | .afront v => un v (fun r => if 0 < r.n then some r else none)
  | .aback v => un v (fun r => if 0 < r.n then some r else none)
  | .aeq v w => if v < 2 ∧ w < 2 then some p else none
  | .aappendself v => un v appendSelf
  | .aappendref v i => un v (fun r => appendRef r i)
  | .aresizeref v n i => un v (fun r => resizeRef r n i)
  | .aassignself v => if v < 2 then some p else none
  | .aappendsub v i n => un v (fun r => appendSub r i n)
  | .aresized v n => un v (fun r => resize r n 0)
  | _ => some p

def rrun (p : RPair) : List Op → RPair
  | [] => p
  | op :: ops =>
    match rstep p op with
    | some p' => rrun p' ops
    | none => rrun p ops

end Nstd.Seq.Raw
