import Nstd.Seq.PtrModel
/-
  `List<T>::sort()` on the heap for an ARBITRARY element type `α`: the quicksort of List.hpp reads `next` fields and reads and
  writes `value` fields only, so the heap it needs is `value : address → α` and `next : address → Option address`.
  `ploopG` / `qsortG` / `sortG` are `Ptr.ploopP` / `Ptr.qsortP` / `Ptr.sortP` (PtrModel.lean) with `α` in place of `Int`;
  `LemmasPtrSortG.sortP_is_sortG` shows that the `Int` versions run by the driver are their instance.
-/
namespace Nstd.Seq.PtrG

open Nstd.Seq.Ptr (set)

structure GHeap (α : Type) where
  val : Nat → α
  next : Nat → Option Nat

variable {α : Type}

/-- `QuickSort::swap(a, b)` -/
def swapVal (p : GHeap α) (a b : Nat) : GHeap α :=
  let tmp := p.val a                                           -- T tmp = a->value;
  let v1 := set p.val a (p.val b)                              -- a->value = b->value;
  { p with val := set v1 b tmp }                               -- b->value = tmp;

structure PL (α : Type) where
  heap : GHeap α
  p0 : Nat
  p1 : Nat

/-- the do-while loop of `QuickSort::sort` (`none` = fuel exhausted or a null `next` followed) -/
def ploopG (lt : α → α → Bool) (left right : Nat) : Nat → GHeap α → Nat → Nat → Nat → Option (PL α)
  | 0, _, _, _, _ => none
  | fuel + 1, p, p0, p1, p2 =>
    match p.next p2 with                                       -- ptr2 = ptr2->next;
    | none => none
    | some q2 =>
      if lt (p.val q2) (p.val left) then                       -- if(ptr2->value < pivot)
        match p.next p1 with                                   --   ptr0 = ptr1; ptr1 = ptr1->next;
        | none => none
        | some q1 =>
          if q2 ≠ right then ploopG lt left right fuel (swapVal p q1 q2) p1 q1 q2   --   swap(ptr1, ptr2);
          else some ⟨swapVal p q1 q2, p1, q1⟩
      else
        if q2 ≠ right then ploopG lt left right fuel p p0 p1 q2                     -- while(ptr2 != right);
        else some ⟨p, p0, p1⟩

/-- `QuickSort::sort(left, right)` -/
def qsortG (lt : α → α → Bool) : Nat → GHeap α → Nat → Nat → Option (GHeap α)
  | 0, _, _, _ => none
  | f + 1, p, left, right =>
    match ploopG lt left right (f + 1) p left left left with
    | none => none
    | some r =>
      let h1 := swapVal r.heap left r.p1                       -- swap(left, ptr1);
      match (if r.p1 ≠ right then h1.next r.p1 else some r.p1) with    -- if(ptr1 != right) ptr1 = ptr1->next;
      | none => none
      | some q1 =>
        match (if left ≠ r.p0 then qsortG lt f h1 left r.p0 else some h1) with   -- if(left != ptr0) sort(left, ptr0);
        | none => none
        | some h2 => if q1 ≠ right then qsortG lt f h2 q1 right else some h2     -- if(ptr1 != right) sort(ptr1, right);

/-- `sort()`: `begin` = `_begin.item`, `last` = `endItem.prev`, `size` = `_size` (the recursion fuel) -/
def sortG (lt : α → α → Bool) (p : GHeap α) (begin : Nat) (last : Option Nat) (size : Nat) : Option (GHeap α) :=
  match last with
  | none => some p
  | some l => if begin = l then some p else qsortG lt size p begin l

end Nstd.Seq.PtrG
