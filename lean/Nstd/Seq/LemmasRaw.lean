import Nstd.Seq.RawArray
import Nstd.Seq.Lemmas
/-
  The cell-level loops of RawArray.lean compute what the list functions of the `AState` model say.
-/
set_option linter.unusedSectionVars false
namespace Nstd.Seq.Raw

/-- the block of `cap` cells whose first cells hold `es` and whose other cells are raw -/
def img (es : List Int) (cap : Nat) : Cells := es.map some ++ List.replicate (cap - es.length) none

theorem length_img (es : List Int) (cap : Nat) (h : es.length ≤ cap) : (img es cap).length = cap := by
  simp [img]; omega

theorem construct_mid (pre : Cells) (c : Option Int) (rest : Cells) (v : Int) :
    construct (pre ++ c :: rest) pre.length v = some (pre ++ some v :: rest) := by
  simp [construct]

theorem construct_img (es : List Int) (cap : Nat) (x : Int) (h : es.length < cap) :
    construct (img es cap) es.length x = some (img (es ++ [x]) cap) := by
  obtain ⟨k, hk⟩ : ∃ k, cap - es.length = k + 1 := ⟨cap - es.length - 1, by omega⟩
  have hk' : cap - (es ++ [x]).length = k := by simp; omega
  unfold img
  rw [hk, hk', List.replicate_succ]
  have := construct_mid (es.map some) none (List.replicate k none) x
  simp only [List.length_map] at this
  rw [this]; simp

theorem construct_oob (cs : Cells) (i : Nat) (v : Int) (h : cs.length ≤ i) : construct cs i v = none := by
  simp [construct]; omega

theorem fillFrom_img (xs : List Int) : ∀ (es : List Int) (cap : Nat), es.length + xs.length ≤ cap →
    fillFrom (img es cap) es.length xs = some (img (es ++ xs) cap) := by
  induction xs with
  | nil => intro es cap _; simp [fillFrom]
  | cons x xs ih =>
    intro es cap h
    simp only [List.length_cons] at h
    simp only [fillFrom, construct_img es cap x (by omega)]
    have := ih (es ++ [x]) cap (by simp; omega)
    simp only [List.length_append, List.length_cons, List.length_nil, List.append_assoc, List.cons_append,
      List.nil_append] at this
    exact this

theorem readCell_img (es : List Int) (cap : Nat) (i : Nat) (h : i < es.length) :
    readCell (img es cap) i = some es[i] := by
  unfold readCell img
  rw [List.getElem?_append_left (by simpa using h)]
  simp [h]

theorem moveLoop_img (es : List Int) (cap0 cap : Nat) (hc : es.length ≤ cap) : ∀ (k i : Nat), i + k = es.length →
    moveLoop (img es cap0) (img (es.take i) cap) i k = some (img es cap) := by
  intro k
  induction k with
  | zero => intro i h; simp only [moveLoop]; rw [List.take_of_length_le (by omega)]
  | succ k ih =>
    intro i h
    have hi : i < es.length := by omega
    have hl : (es.take i).length = i := by simp; omega
    have hc' := construct_img (es.take i) cap es[i] (by omega)
    rw [hl] at hc'
    simp only [moveLoop, readCell_img es cap0 i hi, hc']
    have : es.take i ++ [es[i]] = es.take (i + 1) := by
      rw [List.take_succ_eq_append_getElem hi]
    rw [this]
    exact ih (i + 1) (by omega)

/-- destroying the constructed cells `b` that follow `pre` -/
theorem destroyRange_mid (b : List Int) : ∀ (pre rest : Cells),
    destroyRange (pre ++ b.map some ++ rest) pre.length b.length =
      some (pre ++ List.replicate b.length none ++ rest) := by
  induction b with
  | nil => intro pre rest; simp [destroyRange]
  | cons x b ih =>
    intro pre rest
    have hd : destroy (pre ++ (x :: b).map some ++ rest) pre.length =
        some ((pre ++ [none]) ++ b.map some ++ rest) := by
      simp [destroy]
    simp only [List.length_cons, destroyRange, hd]
    have := ih (pre ++ [none]) rest
    simp only [List.length_append, List.length_cons, List.length_nil] at this
    rw [this]
    simp [List.replicate_succ]

/-- the shifting loop: the cells after `pre` hold `x :: b`; afterwards they hold `b` followed by a copy of
    the last element -/
theorem shiftLoop_mid (b : List Int) : ∀ (pre rest : Cells) (x : Int),
    shiftLoop (pre ++ some x :: b.map some ++ rest) pre.length b.length =
      some (pre ++ b.map some ++ some ((x :: b).getLast (by simp)) :: rest) := by
  induction b with
  | nil => intro pre rest x; simp [shiftLoop]
  | cons y b ih =>
    intro pre rest x
    have r1 : readCell (pre ++ some x :: (y :: b).map some ++ rest) (pre.length + 1) = some y := by
      simp [readCell]
    have r0 : readCell (pre ++ some x :: (y :: b).map some ++ rest) pre.length = some x := by
      simp [readCell]
    have hs : (pre ++ some x :: (y :: b).map some ++ rest).set pre.length (some y) =
        (pre ++ [some y]) ++ some y :: b.map some ++ rest := by
      simp
    simp only [List.length_cons, shiftLoop, r1, r0, hs]
    have := ih (pre ++ [some y]) rest y
    simp only [List.length_append, List.length_cons, List.length_nil] at this
    rw [this]
    simp [List.getLast_cons]

theorem readAll_img (es : List Int) (cap : Nat) : ∀ (k i : Nat), i + k = es.length →
    readAll (img es cap) i k = some (es.drop i) := by
  intro k
  induction k with
  | zero => intro i h; simp [readAll, List.drop_eq_nil_of_le (show es.length ≤ i by omega)]
  | succ k ih =>
    intro i h
    have hi : i < es.length := by omega
    simp only [readAll, readCell_img es cap i hi, ih (i + 1) (by omega), Option.map_some]
    rw [List.drop_eq_getElem_cons hi]

variable [ArrCfg]

/-- the cell-level array `r` represents the `AState` `a` -/
def Rel (r : RArr) (a : AState) : Prop :=
  r.cap = a.cap ∧
  match a.data with
  | none => r.cells = none ∧ r.n = 0
  | some es => r.cells = some (img es a.cap) ∧ r.n = es.length ∧ es.length ≤ a.cap

theorem rel_init : Rel {} {} := ⟨rfl, rfl, rfl⟩
theorem rel_newcap (n : Nat) : Rel { cap := n } { cap := n } := ⟨rfl, rfl, rfl⟩

theorem rel_ok {r : RArr} {a : AState} (h : Rel r a) : a.Ok := by
  obtain ⟨cap, data⟩ := a
  cases data with
  | none => trivial
  | some es => exact h.2.2.2

theorem rel_n {r : RArr} {a : AState} (h : Rel r a) : r.n = a.size := by
  obtain ⟨cap, data⟩ := a
  cases data with
  | none => exact h.2.2
  | some es => exact h.2.2.1

theorem rel_some (r : RArr) (cap : Nat) (es : List Int) (h1 : r.cap = cap) (h2 : r.cells = some (img es cap))
    (h3 : r.n = es.length) (h4 : es.length ≤ cap) : Rel r { cap := cap, data := some es } := ⟨h1, h2, h3, h4⟩

theorem reserve_rel (r : RArr) (a : AState) (h : Rel r a) (n : Nat) :
    ∃ r', reserve r n = some r' ∧ Rel r' (a.reserve n).1 := by
  obtain ⟨cap, data⟩ := a
  obtain ⟨hc, hd⟩ := h
  simp only at hc
  cases data with
  | none =>
    obtain ⟨h1, h2⟩ := hd
    by_cases c : n > cap ∨ n > 0
    · have c' : n > cap ∨ (True ∧ n > 0) := by simpa using c
      refine ⟨{ cap := (if n > cap then n else cap) ||| ArrCfg.mask,
                cells := some (List.replicate ((if n > cap then n else cap) ||| ArrCfg.mask) none), n := 0 }, ?_, ?_⟩
      · simp [reserve, hc, h1, c]
      · simp only [AState.reserve, Option.isNone_none, true_and, c, if_true]
        exact ⟨rfl, by simp [img], rfl, by simp⟩
    · refine ⟨r, by simp [reserve, hc, h1, c], ?_⟩
      simp only [AState.reserve, Option.isNone_none, true_and, c, if_false]
      exact ⟨hc, h1, h2⟩
  | some es =>
    obtain ⟨h1, h2, h3⟩ := hd
    simp only at h1 h3
    by_cases c : n > cap
    · have hle : es.length ≤ n ||| ArrCfg.mask := by have := @Nat.left_le_or n ArrCfg.mask; omega
      have hm := moveLoop_img es cap (n ||| ArrCfg.mask) hle es.length 0 (by omega)
      simp only [List.take_zero] at hm
      have hi : img [] (n ||| ArrCfg.mask) = List.replicate (n ||| ArrCfg.mask) none := by simp [img]
      rw [hi] at hm
      refine ⟨{ cap := n ||| ArrCfg.mask, cells := some (img es (n ||| ArrCfg.mask)), n := es.length }, ?_, ?_⟩
      · simp [reserve, hc, h1, c, h2, hm]
      · simp only [AState.reserve, c, true_or, if_true]
        exact ⟨rfl, rfl, rfl, hle⟩
    · refine ⟨r, by simp [reserve, hc, h1, c], ?_⟩
      simp only [AState.reserve, c, Option.isNone_some, Bool.false_eq_true, false_and, or_self, if_false]
      exact ⟨hc, h1, h2, h3⟩

theorem data_eq (a : AState) (h : a.data.isSome) : a.data = some a.elems := by
  obtain ⟨cap, data⟩ := a
  cases data with
  | none => simp at h
  | some es => rfl

/-- growing by the values `xs` after `reserve(n)` -/
theorem grow_rel (r : RArr) (a : AState) (h : Rel r a) (n : Nat) (xs : List Int) (hn : a.size + xs.length ≤ n) :
    ∃ r1, reserve r n = some r1 ∧ Rel r1 (a.reserve n).1 ∧
      ((∃ cs, r1.cells = some cs ∧ ∃ cs', fillFrom cs r1.n xs = some cs' ∧
          ∃ a2, (a.reserve n).1.pushAll xs = some a2 ∧ Rel { r1 with cells := some cs', n := r1.n + xs.length } a2) ∨
       (r1.cells = none ∧ xs = [] ∧ (a.reserve n).1.pushAll xs = some (a.reserve n).1 ∧ Rel r1 (a.reserve n).1)) := by
  obtain ⟨r1, e1, h1⟩ := reserve_rel r a h n
  refine ⟨r1, e1, h1, ?_⟩
  obtain ⟨q1, q2, q3, _, q5⟩ := AState.reserve_spec a n (rel_ok h)
  generalize (a.reserve n).1 = a1 at h1 q1 q2 q3 q5
  obtain ⟨cap1, data1⟩ := a1
  cases data1 with
  | none =>
    right
    have hx : xs = [] := by
      cases xs with
      | nil => rfl
      | cons x xs =>
        have : 0 < n := by simp at hn; omega
        have := q5 (Or.inl this)
        simp at this
    subst hx
    exact ⟨h1.2.1, rfl, rfl, h1⟩
  | some es =>
    left
    obtain ⟨g1, g2, g3, g4⟩ := h1
    simp only at g1 g2 g3 g4
    have hes : es = a.elems := by simpa [AState.elems] using q1
    have hfit : es.length + xs.length ≤ cap1 := by
      have : a.size = es.length := by rw [hes]; rfl
      simp only at q3; omega
    have hf := fillFrom_img xs es cap1 hfit
    have hp : ∃ a2, AState.pushAll { cap := cap1, data := some es } xs = some a2 ∧
        a2 = { cap := cap1, data := some (es ++ xs) } := by
      obtain ⟨a2, p1, p2, p3, _, p5⟩ := AState.pushAll_spec xs { cap := cap1, data := some es } q2 (Or.inl rfl)
        (Or.inl (by simpa [AState.size, AState.elems] using hfit))
      refine ⟨a2, p1, ?_⟩
      obtain ⟨c2, d2⟩ := a2
      simp only at p3
      have : d2 = some (es ++ xs) := by
        have := data_eq { cap := c2, data := d2 } (by simpa using p5)
        simp only at this
        rw [this, p2]; rfl
      rw [this, p3]
    obtain ⟨a2, p1, p2⟩ := hp
    refine ⟨img es cap1, g2, img (es ++ xs) cap1, by rw [g3]; exact hf, a2, p1, ?_⟩
    rw [p2]
    exact ⟨g1, rfl, by simp [g3], by simpa using hfit⟩

theorem appendAll_rel (r : RArr) (a : AState) (h : Rel r a) (xs : List Int) :
    ∃ r' ra, appendAll r xs = some r' ∧ a.appendAll xs = some ra ∧ Rel r' ra.st := by
  obtain ⟨r1, e1, _, hcase⟩ := grow_rel r a h (a.size + xs.length) xs (Nat.le_refl _)
  rw [← rel_n h] at e1
  unfold appendAll AState.appendAll
  rcases hcase with ⟨cs, c1, cs', c2, a2, c3, c4⟩ | ⟨c1, c2, c3, c4⟩
  · exact ⟨_, _, by simp only [e1, c1, c2] <;> rfl, by simp only [c3] <;> rfl, c4⟩
  · subst c2
    exact ⟨r1, _, by simp only [e1, c1, List.isEmpty_nil, if_true], by simp only [c3] <;> rfl, c4⟩

theorem append_rel (r : RArr) (a : AState) (h : Rel r a) (x : Int) :
    ∃ r' ra, append r x = some r' ∧ a.append x = some ra ∧ Rel r' ra.st ∧ ra.ret = some (r.n : Int) := by
  obtain ⟨r1, e1, _, hcase⟩ := grow_rel r a h (a.size + 1) [x] (by simp)
  rw [← rel_n h] at e1
  unfold append AState.append
  rcases hcase with ⟨cs, c1, cs', c2, a2, c3, c4⟩ | ⟨_, c2, _, _⟩
  · have c2' : construct cs r1.n x = some cs' := by
      simp only [fillFrom] at c2
      cases hq : construct cs r1.n x with
      | none => simp [hq] at c2
      | some y => simp only [hq, Option.some.injEq] at c2; rw [c2]
    rw [AState.pushAll_single] at c3
    simp only [List.length_singleton] at c4
    exact ⟨_, _, by simp only [e1, c1, c2'] <;> rfl, by simp only [c3] <;> rfl, c4, by simp [rel_n h]⟩
  · simp at c2

theorem resize_rel (r : RArr) (a : AState) (h : Rel r a) (n : Nat) (x : Int) :
    ∃ r' ra, resize r n x = some r' ∧ a.resize n x = some ra ∧ Rel r' ra.st := by
  have hn := rel_n h
  unfold resize AState.resize
  rw [hn]
  by_cases c : n < a.size
  · simp only [c, if_true]
    obtain ⟨cap, data⟩ := a
    cases data with
    | none => simp [AState.size, AState.elems] at c
    | some es =>
      obtain ⟨h1, h2, h3, h4⟩ := h
      simp only at h1 h2 h3 h4
      simp only [AState.size, AState.elems, Option.getD_some] at c ⊢
      have hsplit : img es cap = (es.take n).map some ++ (es.drop n).map some ++ List.replicate (cap - es.length) none := by
        simp only [img, ← List.map_append, List.take_append_drop]
      have hd := destroyRange_mid (es.drop n) ((es.take n).map some) (List.replicate (cap - es.length) none)
      have hl : ((es.take n).map some).length = n := by simp; omega
      have hl2 : (es.drop n).length = es.length - n := by simp
      rw [hl, hl2, ← hsplit] at hd
      refine ⟨_, _, by simp only [h2, hd] <;> rfl, rfl, ?_⟩
      refine ⟨h1, ?_, by simp; omega, by simp; omega⟩
      simp only [img]
      have : cap - (es.take n).length = (es.length - n) + (cap - es.length) := by simp; omega
      rw [this, ← List.replicate_append_replicate]; simp
  · simp only [c, if_false]
    obtain ⟨r', ra, e1, e2, e3⟩ := appendAll_rel r a h (List.replicate (n - a.size) x)
    have hlen : a.size + (List.replicate (n - a.size) x).length = n := by simp; omega
    unfold AState.appendAll at e2
    rw [hlen] at e2
    refine ⟨r', { st := ra.st, allocs := ra.allocs, frees := ra.frees }, e1, ?_, e3⟩
    cases hq : ((a.reserve n).1).pushAll (List.replicate (n - a.size) x) with
    | none => simp [hq] at e2
    | some s2 =>
      simp only [hq, Option.some.injEq] at e2 ⊢
      rw [← e2]

theorem removeAt_rel (r : RArr) (a : AState) (h : Rel r a) (i : Nat) (hi : i < a.size) :
    ∃ r' ra, removeAt r i = some r' ∧ a.removeIt i = some ra ∧ Rel r' ra.st := by
  have hn := rel_n h
  obtain ⟨cap, data⟩ := a
  cases data with
  | none => simp [AState.size, AState.elems] at hi
  | some es =>
    obtain ⟨h1, h2, h3, h4⟩ := h
    simp only at h1 h2 h3 h4
    simp only [AState.size, AState.elems, Option.getD_some] at hi hn
    have hes : es = es.take i ++ es[i] :: es.drop (i + 1) := by
      rw [List.getElem_cons_drop, List.take_append_drop]
    have hm : es.map some = (es.take i).map some ++ some es[i] :: (es.drop (i + 1)).map some := by
      have e0 : some es[i] = (es.map some)[i]'(by simpa using hi) := by simp
      rw [List.map_take, List.map_drop, e0, List.getElem_cons_drop, List.take_append_drop]
    have hcells : img es cap = (es.take i).map some ++ some es[i] :: (es.drop (i + 1)).map some ++
        List.replicate (cap - es.length) none := by
      unfold img; rw [hm]
    have hl : ((es.take i).map some).length = i := by simp; omega
    have hl2 : (es.drop (i + 1)).length = es.length - 1 - i := by simp; omega
    have hs := shiftLoop_mid (es.drop (i + 1)) ((es.take i).map some) (List.replicate (cap - es.length) none) es[i]
    rw [hl, hl2, ← hcells] at hs
    generalize (es[i] :: es.drop (i + 1)).getLast _ = lastv at hs
    have hd : destroy ((es.take i).map some ++ (es.drop (i + 1)).map some ++
        some lastv :: List.replicate (cap - es.length) none) (es.length - 1) =
        some ((es.take i).map some ++ (es.drop (i + 1)).map some ++ none :: List.replicate (cap - es.length) none) := by
      have hlen : ((es.take i).map some ++ (es.drop (i + 1)).map some).length = es.length - 1 := by simp; omega
      rw [← hlen]
      simp [destroy]
    refine ⟨_, _, by simp only [removeAt, hn, hi, if_true, h2, hs, hd] <;> rfl,
      by simp only [AState.removeIt, AState.size, AState.elems, Option.getD_some, hi, if_true] <;> rfl, ?_⟩
    refine ⟨h1, ?_, by simp; omega, by simp; omega⟩
    simp only [img]
    have : cap - (es.take i ++ es.drop (i + 1)).length = (cap - es.length) + 1 := by simp; omega
    rw [this, List.replicate_succ]; simp

theorem clear_rel (r : RArr) (a : AState) (h : Rel r a) : ∃ r', clear r = some r' ∧ Rel r' a.clear := by
  obtain ⟨cap, data⟩ := a
  cases data with
  | none =>
    obtain ⟨h1, h2, h3⟩ := h
    exact ⟨r, by simp [clear, h2], ⟨h1, h2, h3⟩⟩
  | some es =>
    obtain ⟨h1, h2, h3, h4⟩ := h
    simp only at h1 h2 h3 h4
    have hd := destroyRange_mid es [] (List.replicate (cap - es.length) none)
    simp only [List.nil_append, List.length_nil] at hd
    refine ⟨_, by simp only [clear, h2, h3]; rw [show img es cap = es.map some ++ List.replicate (cap - es.length) none from rfl, hd], ?_⟩
    show Rel _ { cap := cap, data := some [] }
    refine ⟨h1, ?_, rfl, Nat.zero_le _⟩
    simp only [img, List.map_nil, List.nil_append, List.length_nil, Nat.sub_zero, List.replicate_append_replicate]
    congr 2; omega

theorem with_n_zero (r1 : RArr) (h : r1.n = 0) : ({ r1 with n := 0 } : RArr) = r1 := by
  cases r1; simp at h ⊢; exact h.symm

theorem copyFrom_rel (r : RArr) (a : AState) (h : Rel r a) (ha : a.elems = []) (o : RArr) (b : AState) (hb : Rel o b) :
    ∃ r' ra, copyFrom r o = some r' ∧ a.copyFrom b = some ra ∧ Rel r' ra.st := by
  have hsz : b.elems.length ≤ b.cap := by
    obtain ⟨cap, data⟩ := b
    cases data with
    | none => simp [AState.elems]
    | some es => exact hb.2.2.2
  have hzero : a.size = 0 := by simp [AState.size, ha]
  obtain ⟨r1, e1, hr1, hcase⟩ := grow_rel r a h b.cap b.elems (by rw [hzero]; simpa using hsz)
  rw [← hb.1] at e1
  have hn0 : r1.n = 0 := by
    rw [rel_n hr1, AState.size_eq, (AState.reserve_spec a b.cap (rel_ok h)).1, ha]; rfl
  -- what the source holds
  have hread : (match o.cells with
      | none => b.elems = []
      | some ocs => readAll ocs 0 o.n = some b.elems) := by
    obtain ⟨cap, data⟩ := b
    cases data with
    | none => simp [hb.2.1, AState.elems]
    | some es =>
      obtain ⟨_, g2, g3, _⟩ := hb
      simp only at g2 g3
      simp only [g2, g3, AState.elems, Option.getD_some]
      have := readAll_img es cap es.length 0 (by omega)
      simpa using this
  unfold copyFrom AState.copyFrom
  rw [hn0] at hcase
  rcases hcase with ⟨cs, c1, cs', c2, a2, c3, c4⟩ | ⟨c1, c2, c3, c4⟩
  · cases hoc : o.cells with
    | none =>
      rw [hoc] at hread
      simp only at hread
      rw [hread] at c2 c3 c4
      simp only [fillFrom, Option.some.injEq] at c2
      subst c2
      have e2 : ({ r1 with cells := some cs, n := 0 + ([] : List Int).length } : RArr) = r1 := by
        cases r1; simp at c1 hn0 ⊢; exact ⟨c1.symm, hn0.symm⟩
      rw [e2] at c4
      refine ⟨_, _, by simp only [e1] <;> rfl, by simp only [hread, c3] <;> rfl, ?_⟩
      rw [with_n_zero r1 hn0]; exact c4
    | some ocs =>
      rw [hoc] at hread
      simp only at hread
      refine ⟨_, _, by simp only [e1, hread, c1, c2] <;> rfl, by simp only [c3] <;> rfl, ?_⟩
      simpa using c4
  · have e3 : (a.reserve b.cap).1.pushAll b.elems = some (a.reserve b.cap).1 := c3
    cases hoc : o.cells with
    | none =>
      refine ⟨_, _, by simp only [e1] <;> rfl, by simp only [e3] <;> rfl, ?_⟩
      rw [with_n_zero r1 hn0]; exact c4
    | some ocs =>
      rw [hoc] at hread
      simp only at hread
      rw [c2] at hread
      refine ⟨_, _, by simp only [e1, hread, c1, List.isEmpty_nil, if_true] <;> rfl, by simp only [e3] <;> rfl, ?_⟩
      have e4 : ({ cap := r1.cap } : RArr) = r1 := by
        cases r1; simp at c1 hn0 ⊢; exact ⟨c1.symm, hn0.symm⟩
      rw [e4]; exact c4

theorem pushAll_some (xs : List Int) : ∀ (cap : Nat) (es : List Int), es.length + xs.length ≤ cap →
    AState.pushAll { cap := cap, data := some es } xs = some { cap := cap, data := some (es ++ xs) } := by
  induction xs with
  | nil => intro cap es _; simp [AState.pushAll]
  | cons x xs ih =>
    intro cap es h
    simp only [List.length_cons] at h
    have hlt : es.length < cap := by omega
    simp only [AState.pushAll, AState.push, hlt, if_true]
    rw [ih cap (es ++ [x]) (by simp; omega)]
    simp

/-- `reserve(n)` with `n > 0`: the block afterwards, explicitly -/
theorem reserve_shape (r : RArr) (a : AState) (h : Rel r a) (n : Nat) (hn : 0 < n) :
    ∃ r1 cap1, reserve r n = some r1 ∧ r1.cells = some (img a.elems cap1) ∧ r1.cap = cap1 ∧
      r1.n = a.elems.length ∧ n ≤ cap1 ∧ a.elems.length ≤ cap1 ∧
      (a.reserve n).1 = { cap := cap1, data := some a.elems } := by
  obtain ⟨r1, e1, h1⟩ := reserve_rel r a h n
  obtain ⟨q1, _, q3, _, q5⟩ := AState.reserve_spec a n (rel_ok h)
  have hsome := q5 (Or.inl hn)
  generalize (a.reserve n).1 = a1 at h1 q1 q3 hsome
  obtain ⟨cap1, data1⟩ := a1
  cases data1 with
  | none => simp at hsome
  | some es =>
    have hes : es = a.elems := by simpa [AState.elems] using q1
    subst hes
    obtain ⟨g1, g2, g3, g4⟩ := h1
    exact ⟨r1, cap1, e1, g2, g1, g3, q3, g4, rfl⟩

theorem selfCopyLoop_img (es : List Int) (cap : Nat) : ∀ (k j : Nat), j + k = es.length → es.length + es.length ≤ cap →
    selfCopyLoop (img (es ++ es.take j) cap) (es.length + j) j k = some (img (es ++ es) cap) := by
  intro k
  induction k with
  | zero => intro j h _; simp only [selfCopyLoop]; rw [List.take_of_length_le (by omega)]
  | succ k ih =>
    intro j h hc
    have hj : j < es.length := by omega
    have hr : readCell (img (es ++ es.take j) cap) j = some es[j] := by
      rw [readCell_img _ _ j (by simp; omega)]
      simp [List.getElem_append_left hj]
    have hl : (es ++ es.take j).length = es.length + j := by simp; omega
    have hcst := construct_img (es ++ es.take j) cap es[j] (by rw [hl]; omega)
    rw [hl] at hcst
    simp only [selfCopyLoop, hr, hcst]
    have : es ++ es.take j ++ [es[j]] = es ++ es.take (j + 1) := by
      rw [List.append_assoc, List.take_succ_eq_append_getElem hj]
    rw [this]
    exact ih (j + 1) (by omega) hc

theorem fillRefLoop_img (es : List Int) (cap i : Nat) (hi : i < es.length) : ∀ (k : Nat) (fs : List Int),
    es.length + fs.length + k ≤ cap →
    fillRefLoop (img (es ++ fs) cap) (es.length + fs.length) i k = some (img (es ++ fs ++ List.replicate k es[i]) cap) := by
  intro k
  induction k with
  | zero => intro fs _; simp [fillRefLoop]
  | succ k ih =>
    intro fs hc
    have hr : readCell (img (es ++ fs) cap) i = some es[i] := by
      rw [readCell_img _ _ i (by simp; omega)]
      simp [List.getElem_append_left hi]
    have hl : (es ++ fs).length = es.length + fs.length := by simp
    have hcst := construct_img (es ++ fs) cap es[i] (by rw [hl]; omega)
    rw [hl] at hcst
    simp only [fillRefLoop, hr, hcst]
    have := ih (fs ++ [es[i]]) (by simp; omega)
    simp only [List.length_append, List.length_cons, List.length_nil, ← List.append_assoc] at this
    rw [show es.length + fs.length + 1 = es.length + (fs.length + 0 + 1) by omega, this]
    congr 2
    simp [List.replicate_succ]

theorem appendSelf_rel (r : RArr) (a : AState) (h : Rel r a) :
    ∃ r' ra, appendSelf r = some r' ∧ a.appendSelf = some ra ∧ Rel r' ra.st := by
  have hn := rel_n h
  have hsz : a.size = a.elems.length := rfl
  by_cases c : a.size = 0
  · -- nothing to copy
    have he : a.elems = [] := List.eq_nil_of_length_eq_zero c
    obtain ⟨r1, e1, h1⟩ := reserve_rel r a h 0
    have hr1 : r1.n = 0 := by
      rw [rel_n h1, AState.size_eq, (AState.reserve_spec a 0 (rel_ok h)).1, he]; rfl
    have hA : ∃ ra, a.appendSelf = some ra ∧ ra.st = (a.reserve 0).1 := by
      unfold AState.appendSelf AState.appendAll
      rw [he, c]
      exact ⟨_, rfl, rfl⟩
    obtain ⟨ra, ha1, ha2⟩ := hA
    refine ⟨r1, ra, ?_, ha1, by rw [ha2]; exact h1⟩
    unfold appendSelf
    rw [hn, c]
    simp only [Nat.add_zero, e1]
    cases hc : r1.cells with
    | none => simp
    | some cs =>
      simp only [selfCopyLoop]
      congr 1
      cases r1; simp at hc hr1 ⊢; exact ⟨hc.symm, hr1.symm⟩
  · obtain ⟨r1, cap1, e1, g2, g3, g4, g5, g6, g7⟩ := reserve_shape r a h (a.size + a.size) (by omega)
    have hloop := selfCopyLoop_img a.elems cap1 a.elems.length 0 (by omega) (by omega)
    simp only [List.take_zero, List.append_nil, Nat.add_zero] at hloop
    have hA : ∃ ra, a.appendSelf = some ra ∧ ra.st = { cap := cap1, data := some (a.elems ++ a.elems) } := by
      have hp := pushAll_some a.elems cap1 a.elems (by omega)
      unfold AState.appendSelf AState.appendAll
      simp only [← hsz, g7, hp]
      exact ⟨_, rfl, rfl⟩
    obtain ⟨ra, ha1, ha2⟩ := hA
    refine ⟨{ r1 with cells := some (img (a.elems ++ a.elems) cap1), n := a.size + a.size }, ra, ?_, ha1, ?_⟩
    · unfold appendSelf
      rw [hn, e1]
      simp only [g2]
      rw [hsz, hloop]
    · rw [ha2]; exact ⟨g3, rfl, by simp [AState.size], by simp; omega⟩

theorem subCopyLoop_img (es : List Int) (cap i n : Nat) (h1 : i + n ≤ es.length) (h2 : es.length + n ≤ cap) :
    ∀ (k t : Nat), t + k = n →
    selfCopyLoop (img (es ++ (es.drop i).take t) cap) (es.length + t) (i + t) k = some (img (es ++ (es.drop i).take n) cap) := by
  intro k
  induction k with
  | zero => intro t h; simp only [selfCopyLoop]; rw [show t = n by omega]
  | succ k ih =>
    intro t h
    have ht : i + t < es.length := by omega
    have hr : readCell (img (es ++ (es.drop i).take t) cap) (i + t) = some es[i + t] := by
      rw [readCell_img _ _ (i + t) (by simp; omega)]
      simp [List.getElem_append_left ht]
    have hl : (es ++ (es.drop i).take t).length = es.length + t := by simp; omega
    have hcst := construct_img (es ++ (es.drop i).take t) cap es[i + t] (by rw [hl]; omega)
    rw [hl] at hcst
    simp only [selfCopyLoop, hr, hcst]
    have : es ++ (es.drop i).take t ++ [es[i + t]] = es ++ (es.drop i).take (t + 1) := by
      rw [List.append_assoc]
      congr 1
      have hd : t < (es.drop i).length := by simp; omega
      rw [List.take_succ_eq_append_getElem hd]
      simp
    rw [this]
    exact ih (t + 1) (by omega)

theorem appendSub_rel (r : RArr) (a : AState) (h : Rel r a) (i n : Nat) :
    (∃ r' ra, appendSub r i n = some r' ∧ a.appendSub i n = some ra ∧ Rel r' ra.st) ∨
    (appendSub r i n = none ∧ a.appendSub i n = none) := by
  have hn := rel_n h
  have hsz : a.size = a.elems.length := rfl
  by_cases c : i + n ≤ a.size
  · left
    by_cases cn : n = 0
    · subst cn
      obtain ⟨r1, e1, h1⟩ := reserve_rel r a h (a.size + 0)
      have good := (AState.appendAll_good a (rel_ok h) []).1
      have hA : ∃ ra, a.appendSub i 0 = some ra ∧ ra.st = (a.reserve (a.size + 0)).1 := by
        unfold AState.appendSub AState.appendAll
        simp only [c, if_true, List.take_zero, List.length_nil, AState.pushAll]
        exact ⟨_, rfl, rfl⟩
      obtain ⟨ra, ha1, ha2⟩ := hA
      have hr1 : r1.n = a.size := by
        rw [rel_n h1, AState.size_eq, (AState.reserve_spec a (a.size + 0) (rel_ok h)).1]; rfl
      refine ⟨r1, ra, ?_, ha1, by rw [ha2]; exact h1⟩
      unfold appendSub
      rw [hn]
      simp only [c, if_true, e1]
      cases hc : r1.cells with
      | none => simp
      | some cs =>
        simp only [selfCopyLoop]
        congr 1
        cases r1; simp at hc hr1 ⊢; exact ⟨hc.symm, hr1.symm⟩
    · obtain ⟨r1, cap1, e1, g2, g3, g4, g5, g6, g7⟩ := reserve_shape r a h (a.size + n) (by omega)
      have hloop := subCopyLoop_img a.elems cap1 i n (by omega) (by omega) n 0 (by omega)
      simp only [List.take_zero, List.append_nil, Nat.add_zero] at hloop
      have hA : ∃ ra, a.appendSub i n = some ra ∧
          ra.st = { cap := cap1, data := some (a.elems ++ (a.elems.drop i).take n) } := by
        have hlen : ((a.elems.drop i).take n).length = n := by simp; omega
        have hp := pushAll_some ((a.elems.drop i).take n) cap1 a.elems (by rw [hlen]; omega)
        unfold AState.appendSub AState.appendAll
        simp only [c, if_true, hlen, g7, hp]
        exact ⟨_, rfl, rfl⟩
      obtain ⟨ra, ha1, ha2⟩ := hA
      refine ⟨{ r1 with cells := some (img (a.elems ++ (a.elems.drop i).take n) cap1), n := a.size + n }, ra, ?_, ha1, ?_⟩
      · unfold appendSub
        rw [hn]
        simp only [c, if_true, e1, g2]
        rw [hsz, hloop]
      · rw [ha2]; exact ⟨g3, rfl, by simp [AState.size]; omega, by simp; omega⟩
  · right
    exact ⟨by simp [appendSub, hn, c], by simp [AState.appendSub, c]⟩

theorem appendRef_rel (r : RArr) (a : AState) (h : Rel r a) (i : Nat) :
    (∃ r' ra, appendRef r i = some r' ∧ a.appendRef i = some ra ∧ Rel r' ra.st) ∨
    (appendRef r i = none ∧ a.appendRef i = none) := by
  have hn := rel_n h
  have hsz : a.size = a.elems.length := rfl
  by_cases c : i < a.size
  · left
    have hi : i < a.elems.length := c
    obtain ⟨r1, cap1, e1, g2, g3, g4, g5, g6, g7⟩ := reserve_shape r a h (a.size + 1) (by omega)
    have hr := readCell_img a.elems cap1 i hi
    have hcst := construct_img a.elems cap1 a.elems[i] (by omega)
    have hA : ∃ ra, a.appendRef i = some ra ∧ ra.st = { cap := cap1, data := some (a.elems ++ [a.elems[i]]) } := by
      unfold AState.appendRef AState.append
      rw [List.getElem?_eq_getElem hi]
      simp only [g7, AState.push, show a.elems.length < cap1 by omega, if_true]
      exact ⟨_, rfl, rfl⟩
    obtain ⟨ra, ha1, ha2⟩ := hA
    refine ⟨{ r1 with cells := some (img (a.elems ++ [a.elems[i]]) cap1), n := a.size + 1 }, ra, ?_, ha1, ?_⟩
    · unfold appendRef
      rw [hn]
      simp only [c, if_true, e1, g2, hr]
      rw [hsz, hcst]
    · rw [ha2]; exact ⟨g3, rfl, by simp [AState.size], by simp; omega⟩
  · right
    refine ⟨by simp [appendRef, hn, c], ?_⟩
    unfold AState.appendRef
    rw [List.getElem?_eq_none (by omega)]

theorem resizeRef_rel (r : RArr) (a : AState) (h : Rel r a) (n i : Nat) :
    (∃ r' ra, resizeRef r n i = some r' ∧ a.resizeRef n i = some ra ∧ Rel r' ra.st) ∨
    (resizeRef r n i = none ∧ a.resizeRef n i = none) := by
  have hn := rel_n h
  have hsz : a.size = a.elems.length := rfl
  by_cases c : i < a.size
  · left
    have hi : i < a.elems.length := c
    have hget : a.elems[i]? = some a.elems[i] := List.getElem?_eq_getElem hi
    by_cases c2 : n < a.size
    · -- shrinking: the value is not used, same as `resize`
      obtain ⟨r', ra, e1, e2, e3⟩ := resize_rel r a h n a.elems[i]
      refine ⟨r', ra, ?_, by unfold AState.resizeRef; rw [hget]; exact e2, e3⟩
      unfold resize at e1
      unfold resizeRef
      rw [hn] at e1 ⊢
      simp only [c, c2, if_true] at e1 ⊢
      exact e1
    · have hpos : 0 < n := by omega
      obtain ⟨r1, cap1, e1, g2, g3, g4, g5, g6, g7⟩ := reserve_shape r a h n hpos
      have hloop := fillRefLoop_img a.elems cap1 i hi (n - a.size) [] (by simp; omega)
      simp only [List.append_nil, List.length_nil, Nat.add_zero] at hloop
      have hA : ∃ ra, a.resizeRef n i = some ra ∧
          ra.st = { cap := cap1, data := some (a.elems ++ List.replicate (n - a.size) a.elems[i]) } := by
        unfold AState.resizeRef AState.resize
        rw [hget]
        simp only [c2, if_false, g7]
        rw [pushAll_some _ cap1 a.elems (by simp; omega)]
        exact ⟨_, rfl, rfl⟩
      obtain ⟨ra, ha1, ha2⟩ := hA
      refine ⟨{ r1 with cells := some (img (a.elems ++ List.replicate (n - a.size) a.elems[i]) cap1), n := n }, ra, ?_, ha1, ?_⟩
      · unfold resizeRef
        rw [hn]
        simp only [c, c2, if_true, if_false, e1, g2]
        rw [hsz] at hloop ⊢
        rw [hloop]
      · rw [ha2]; exact ⟨g3, rfl, by simp; omega, by simp; omega⟩
  · right
    refine ⟨by simp [resizeRef, hn, c], ?_⟩
    unfold AState.resizeRef
    rw [List.getElem?_eq_none (by omega)]

/-! ### the machine -/

def RelS (p : RPair) (s : State) : Prop := Rel p.a0 s.a0 ∧ Rel p.a1 s.a1

theorem relS_get (p : RPair) (s : State) (h : RelS p s) (v : Nat) : Rel (p.get v) (s.getA v) := by
  unfold RPair.get State.getA; split
  · exact h.1
  · exact h.2

theorem relS_set (p : RPair) (s : State) (h : RelS p s) (v : Nat) (r : RArr) (a : AState) (hr : Rel r a) :
    RelS (p.set v r) (s.setA v a) := by
  unfold RPair.set State.setA RelS; split
  · exact ⟨hr, h.2⟩
  · exact ⟨h.1, hr⟩

/-- both models accept the operation and stay related, or both reject it -/
def StepRel (x : Option RPair) (y : Option (Res State)) : Prop :=
  (∃ p' r, x = some p' ∧ y = some r ∧ RelS p' r.st) ∨ (x = none ∧ y = none)

theorem unary (p : RPair) (s : State) (h : RelS p s) (v : Nat) (f : RArr → Option RArr)
    (g : AState → Option (Res AState))
    (hfg : ∀ r a, Rel r a → (∃ r' ra, f r = some r' ∧ g a = some ra ∧ Rel r' ra.st) ∨ (f r = none ∧ g a = none)) :
    StepRel (if v < 2 then (f (p.get v)).map (p.set v) else none)
      (if v < 2 then liftA s v (g (s.getA v)) else none) := by
  by_cases hv : v < 2
  · simp only [hv, if_true]
    rcases hfg (p.get v) (s.getA v) (relS_get p s h v) with ⟨r', ra, e1, e2, e3⟩ | ⟨e1, e2⟩
    · left
      exact ⟨p.set v r', _, by rw [e1]; rfl, by rw [e2]; rfl, relS_set p s h v r' ra.st e3⟩
    · right
      exact ⟨by rw [e1]; rfl, by rw [e2]; rfl⟩
  · right; simp [hv]

theorem contents_rel (o : RArr) (b : AState) (h : Rel o b) : contents o = some b.elems := by
  obtain ⟨cap, data⟩ := b
  cases data with
  | none => simp [contents, h.2.1, AState.elems]
  | some es =>
    obtain ⟨_, g2, g3, _⟩ := h
    simp only at g2 g3
    simp only [contents, g2, g3, AState.elems, Option.getD_some]
    have := readAll_img es cap es.length 0 (by omega)
    simpa using this

theorem rstep_rel (p : RPair) (s : State) (h : RelS p s) (op : Op) (ha : isArrayOp op = true) :
    StepRel (rstep p op) (step s op) := by
  cases op <;> simp only [isArrayOp, Bool.false_eq_true] at ha
  case anew v =>
    by_cases hv : v < 2
    · left; exact ⟨_, _, by simp only [rstep, hv, if_true]; rfl, by simp only [step, hv, if_true] <;> rfl,
        relS_set p s h v _ _ rel_init⟩
    · right; simp [rstep, step, hv]
  case anewcap v n =>
    by_cases hv : v < 2
    · left; exact ⟨_, _, by simp only [rstep, hv, if_true]; rfl, by simp only [step, hv, if_true] <;> rfl,
        relS_set p s h v _ _ (rel_newcap n)⟩
    · right; simp [rstep, step, hv]
  case acopy v =>
    by_cases hv : v < 2
    · left
      obtain ⟨r', ra, e1, e2, e3⟩ := copyFrom_rel {} {} rel_init rfl _ _ (relS_get p s h (1 - v))
      exact ⟨_, _, by simp only [rstep, hv, if_true, e1]; rfl, by simp only [step, hv, if_true, e2] <;> rfl,
        relS_set p s h v _ _ e3⟩
    · right; simp [rstep, step, hv]
  case aassign v =>
    exact unary p s h v (fun r => match clear r with | some c => copyFrom c (p.get (1 - v)) | none => none)
      (fun a => a.clear.copyFrom (s.getA (1 - v))) (by
      intro r a hr
      obtain ⟨c, e1, e2⟩ := clear_rel r a hr
      obtain ⟨r', ra, f1, f2, f3⟩ := copyFrom_rel c a.clear e2 (AState.elems_clear a) _ _ (relS_get p s h (1 - v))
      exact Or.inl ⟨r', ra, by simp only [e1, f1], f2, f3⟩)
  case areserve v n =>
    by_cases hv : v < 2
    · left
      obtain ⟨r', e1, e2⟩ := reserve_rel _ _ (relS_get p s h v) n
      exact ⟨_, _, by simp only [rstep, hv, if_true, e1]; rfl, by simp only [step, hv, if_true] <;> rfl,
        relS_set p s h v _ _ e2⟩
    · right; simp [rstep, step, hv]
  case aresize v n x =>
    exact unary p s h v (fun r => resize r n x) (fun a => a.resize n x) (fun r a hr => Or.inl (resize_rel r a hr n x))
  case aresized v n =>
    exact unary p s h v (fun r => resize r n 0) (fun a => a.resize n 0) (fun r a hr => Or.inl (resize_rel r a hr n 0))
  case aappend v x =>
    exact unary p s h v (fun r => append r x) (fun a => a.append x) (fun r a hr => by
      obtain ⟨r', ra, e1, e2, e3, _⟩ := append_rel r a hr x
      exact Or.inl ⟨r', ra, e1, e2, e3⟩)
  case aappenda v =>
    exact unary p s h v (fun r => match contents (p.get (1 - v)) with | some xs => appendAll r xs | none => none)
      (fun a => a.appendAll (s.getA (1 - v)).elems) (fun r a hr => by
      rw [contents_rel _ _ (relS_get p s h (1 - v))]
      exact Or.inl (appendAll_rel r a hr _))
  case aappendn v xs =>
    exact unary p s h v (fun r => appendAll r xs) (fun a => a.appendAll xs) (fun r a hr => Or.inl (appendAll_rel r a hr xs))
  case aremovei v i =>
    exact unary p s h v (fun r => if i < r.n then removeAt r i else some r) (fun a => a.removeIdx i) (fun r a hr => by
      rw [rel_n hr]
      by_cases c : i < a.size
      · obtain ⟨r', ra, e1, e2, e3⟩ := removeAt_rel r a hr i c
        refine Or.inl ⟨r', { st := ra.st }, by simp only [c, if_true, e1], ?_, e3⟩
        simp only [AState.removeIt, c, if_true, Option.some.injEq] at e2
        simp only [AState.removeIdx, c, if_true, ← e2]
      · exact Or.inl ⟨r, { st := a }, by simp only [c, if_false], by simp only [AState.removeIdx, c, if_false], hr⟩)
  case aremove v i =>
    exact unary p s h v (fun r => removeAt r i) (fun a => a.removeIt i) (fun r a hr => by
      by_cases c : i < a.size
      · exact Or.inl (removeAt_rel r a hr i c)
      · exact Or.inr ⟨by simp [removeAt, rel_n hr, c], by simp [AState.removeIt, c]⟩)
  case aremoveFront v =>
    exact unary p s h v (fun r => removeAt r 0) (fun a => a.removeFront) (fun r a hr => by
      by_cases c : 0 < a.size
      · exact Or.inl (removeAt_rel r a hr 0 c)
      · exact Or.inr ⟨by simp [removeAt, rel_n hr, c], by simp [AState.removeFront, AState.removeIt, c]⟩)
  case aremoveBack v =>
    exact unary p s h v (fun r => if r.n = 0 then none else removeAt r (r.n - 1)) (fun a => a.removeBack) (fun r a hr => by
      rw [rel_n hr]
      by_cases c : a.size = 0
      · exact Or.inr ⟨by simp [c], by simp [AState.removeBack, c]⟩
      · simp only [c, if_false, AState.removeBack]
        exact Or.inl (removeAt_rel r a hr _ (by omega)))
  case aclear v =>
    exact unary p s h v clear (fun a => some { st := a.clear }) (fun r a hr => by
      obtain ⟨c, e1, e2⟩ := clear_rel r a hr
      exact Or.inl ⟨c, _, e1, rfl, e2⟩)
  case aswap v =>
    by_cases hv : v < 2
    · left
      exact ⟨_, _, by simp only [rstep, hv, if_true] <;> rfl, by simp only [step, hv, if_true] <;> rfl,
        relS_set _ _ (relS_set p s h v _ _ (relS_get p s h (1 - v))) (1 - v) _ _ (relS_get p s h v)⟩
    · right; simp [rstep, step, hv]
  case afind v x =>
    exact unary p s h v some (fun a => a.find x) (fun r a hr => Or.inl ⟨r, _, rfl, rfl, hr⟩)
  case aget v i =>
    exact unary p s h v (fun r => if i < r.n then some r else none) (fun a => a.get i) (fun r a hr => by
      rw [rel_n hr]
      by_cases c : i < a.size
      · have : a.elems[i]? = some a.elems[i] := List.getElem?_eq_getElem c
        exact Or.inl ⟨r, _, by simp only [c, if_true], by simp only [AState.get, this] <;> rfl, hr⟩
      · have : a.elems[i]? = none := List.getElem?_eq_none (Nat.le_of_not_lt c)
        exact Or.inr ⟨by simp only [c, if_false], by simp only [AState.get, this]⟩)
  case afront v =>
    exact unary p s h v (fun r => if 0 < r.n then some r else none) (fun a => a.front) (fun r a hr => by
      rw [rel_n hr]
      by_cases c : 0 < a.size
      · have : a.elems[0]? = some a.elems[0] := List.getElem?_eq_getElem c
        exact Or.inl ⟨r, _, by simp only [c, if_true], by simp only [AState.front, AState.get, this] <;> rfl, hr⟩
      · have : a.elems[0]? = none := List.getElem?_eq_none (Nat.le_of_not_lt c)
        exact Or.inr ⟨by simp only [c, if_false], by simp only [AState.front, AState.get, this]⟩)
  case aback v =>
    exact unary p s h v (fun r => if 0 < r.n then some r else none) (fun a => a.back) (fun r a hr => by
      rw [rel_n hr]
      by_cases c : 0 < a.size
      · have c' : ¬ a.size = 0 := by omega
        have : a.elems[a.size - 1]? = some (a.elems[a.size - 1]'(by rw [← AState.size_eq]; omega)) :=
          List.getElem?_eq_getElem _
        exact Or.inl ⟨r, _, by simp only [c, if_true], by simp only [AState.back, c', if_false, AState.get, this] <;> rfl, hr⟩
      · have c' : a.size = 0 := by omega
        exact Or.inr ⟨by simp only [c, if_false], by simp only [AState.back, c', if_true]⟩)
  case aeq v w =>
    by_cases hv : v < 2 ∧ w < 2
    · left; exact ⟨p, _, by simp only [rstep, hv, and_self, if_true], by simp only [step, hv, and_self, if_true] <;> rfl, h⟩
    · right; simp [rstep, step, hv]
  case aappendself v =>
    exact unary p s h v appendSelf (fun a => a.appendSelf) (fun r a hr => Or.inl (appendSelf_rel r a hr))
  case aappendref v i =>
    exact unary p s h v (fun r => appendRef r i) (fun a => a.appendRef i) (fun r a hr => appendRef_rel r a hr i)
  case aresizeref v n i =>
    exact unary p s h v (fun r => resizeRef r n i) (fun a => a.resizeRef n i) (fun r a hr => resizeRef_rel r a hr n i)
  case aassignself v =>
    by_cases hv : v < 2
    · left; exact ⟨p, _, by simp only [rstep, hv, if_true], by simp only [step, hv, if_true] <;> rfl, h⟩
    · right; simp [rstep, step, hv]
  case aappendsub v i n =>
    exact unary p s h v (fun r => appendSub r i n) (fun a => a.appendSub i n) (fun r a hr => appendSub_rel r a hr i n)

theorem rrun_rel (ops : List Op) : ∀ (p : RPair) (s : State), RelS p s → (∀ op ∈ ops, isArrayOp op = true) →
    RelS (rrun p ops) (run s ops) := by
  induction ops with
  | nil => intro p s h _; exact h
  | cons op ops ih =>
    intro p s h hall
    have ha := hall op List.mem_cons_self
    have hrest : ∀ o ∈ ops, isArrayOp o = true := fun o ho => hall o (List.mem_cons_of_mem _ ho)
    rcases rstep_rel p s h op ha with ⟨p', r, e1, e2, e3⟩ | ⟨e1, e2⟩
    · simp only [rrun, run, e1, e2]; exact ih p' r.st e3 hrest
    · simp only [rrun, run, e1, e2]; exact ih p s h hrest

end Nstd.Seq.Raw
