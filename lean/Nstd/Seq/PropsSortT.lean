import Nstd.Seq.PropsSortG
import Nstd.Seq.LemmasSortT
import Nstd.Generated.SeqSort
/-
  Property C03, the tie by TRANSLATION for `List<T>::sort()`: `Nstd.Generated.SeqSort` holds `QuickSort::swap` and
  `QuickSort::sort` (the do-while partition loop, `swap(left, ptr1)`, the advance of `ptr1`, the two guarded recursive calls) as
  tools/gen_seq.py reads them off the CURRENT include/nstd/List.hpp on every run — over the heap `value : address → α`,
  `next : address → Option address` of PtrSortG.lean, generic in the element type, `operator<` = the parameter `lt`.  The
  theorems state that the translated code IS the heap-level model (`swapVal`, `ploopG`, `qsortG`) that `gsort_comparator`,
  `gsort_iterators` (PropsSortG.lean) and, at `α = Int`, `ptr_sort(_comparator)` (Props/PropsSort.lean) speak about — for
  every heap (no representation hypothesis at all), every comparison function, every element type, every fuel.
-/
set_option linter.unusedSimpArgs false
set_option linter.unusedVariables false
namespace Nstd.Seq
open Nstd.Generated

/-- the translated `QuickSort::swap(a, b)` (`T tmp = a->value; a->value = b->value; b->value = tmp;`) is `swapVal` -/
theorem gen_sort_swap {α : Type} (p : PtrG.GHeap α) (a b : Nat) : SeqSort.swap p a b = some (PtrG.swapVal p a b) := rfl

/-- The translated `QuickSort::sort(left, right)` computes what the heap model's `qsortG` computes: for every heap, every
    comparison function, element type and fuel, and every range `left ≠ right` (the precondition under which `sort()` and the
    recursive calls invoke it), if the model returns `g` within fuel `f` the translated code returns `g` within fuel `f + 1`.
    The statement does not depend on how the header spells the partition: the proof has one script for the do-while loop
    inside `sort` with two recursive calls (there the translated code IS `ploopG` / `qsortG`, fault for fault, and more fuel
    changes nothing: `qsortG_mono`), and one for a `partition(left, right, lastLess)` helper with a `for(i = left; i != right;)`
    loop and the right recursion turned into `for(;;)` (the `for` form equals the do-while because `left ≠ right`; it tests the
    condition once more, hence `f + 1`; `pivotItem->next` is read after the left recursion, which writes no link: `qsortG_next`). -/
theorem gen_sort {α : Type} (lt : α → α → Bool) :
    ∀ (f : Nat) (p : PtrG.GHeap α) (left right : Nat) (g : PtrG.GHeap α), left ≠ right →
      PtrG.qsortG lt f p left right = some g → SeqSort.sort lt (f + 1) p left right = some g := by
  first
  | (have hloop : ∀ (left right fuel : Nat) (p : PtrG.GHeap α) (p0 p1 p2 : Nat),
        SeqSort.sort_loop1 lt fuel p left right p0 p1 p2 =
          (PtrG.ploopG lt left right fuel p p0 p1 p2).map (fun r => (r.heap, left, right, r.p0, r.p1, right)) := by
       intro left right fuel
       induction fuel with
       | zero => intro p p0 p1 p2; rfl
       | succ f ih =>
         intro p p0 p1 p2
         simp only [SeqSort.sort_loop1, PtrG.ploopG]
         cases hn : p.next p2 with
         | none => rfl
         | some q2 =>
           simp only []
           by_cases hlt : lt (p.val q2) (p.val left) = true
           · simp only [hlt, if_true]
             cases hn1 : p.next p1 with
             | none => rfl
             | some q1 =>
               simp only [gen_sort_swap]
               by_cases hq : q2 = right
               · subst hq; simp
               · simp only [ne_eq, hq, not_false_eq_true, if_true, ih]
           · simp only [hlt, Bool.false_eq_true, if_false]
             by_cases hq : q2 = right
             · subst hq; simp
             · simp only [ne_eq, hq, not_false_eq_true, if_true, ih]
     have hexact : ∀ (fuel : Nat) (p : PtrG.GHeap α) (left right : Nat),
        SeqSort.sort lt fuel p left right = PtrG.qsortG lt fuel p left right := by
       intro fuel
       induction fuel with
       | zero => intro p left right; rfl
       | succ f ih =>
         intro p left right
         simp only [SeqSort.sort, PtrG.qsortG, hloop]
         cases hpl : PtrG.ploopG lt left right (f + 1) p left left left with
         | none => rfl
         | some r =>
           simp only [Option.map_some, gen_sort_swap, ih]
           by_cases h1 : r.p1 = right
           · by_cases h2 : left = r.p0
             · simp [h1, h2]
             · simp only [h1, h2, ne_eq, not_true_eq_false, not_false_eq_true, if_true, if_false]
               cases PtrG.qsortG lt f (PtrG.swapVal r.heap left right) left r.p0 <;> rfl
           · simp only [h1, ne_eq, not_false_eq_true, if_true]
             cases hq : (PtrG.swapVal r.heap left r.p1).next r.p1 with
             | none => rfl
             | some q1 =>
               simp only []
               by_cases h2 : left = r.p0
               · simp only [h2, ne_eq, not_true_eq_false, if_false]
                 by_cases h3 : q1 = right
                 · simp [h3]
                 · simp only [h3, ne_eq, not_false_eq_true, if_true]
                   cases PtrG.qsortG lt f (PtrG.swapVal r.heap r.p0 r.p1) q1 right <;> rfl
               · simp only [h2, ne_eq, not_false_eq_true, if_true]
                 cases PtrG.qsortG lt f (PtrG.swapVal r.heap left r.p1) left r.p0 with
                 | none => rfl
                 | some h2' =>
                   simp only []
                   by_cases h3 : q1 = right
                   · simp [h3]
                   · simp only [h3, ne_eq, not_false_eq_true, if_true]
                     cases PtrG.qsortG lt f h2' q1 right <;> rfl
     intro f p left right g _ h
     rw [hexact]
     exact PtrG.qsortG_mono lt f p left right g h)
  | (have hloop : ∀ (l r f : Nat) (p : PtrG.GHeap α) (p0 p1 p2 : Nat) (R : PtrG.PL α), p2 ≠ r →
        PtrG.ploopG lt l r f p p0 p1 p2 = some R →
        SeqSort.partition_loop1 lt (f + 1) p l r p0 p1 p2 = some (R.heap, l, r, R.p0, R.p1, r) := by
       intro l r f
       induction f with
       | zero => intro p p0 p1 p2 R _ h; simp [PtrG.ploopG] at h
       | succ f ih =>
         intro p p0 p1 p2 R hne h
         rw [PtrG.ploopG] at h
         rw [SeqSort.partition_loop1]
         simp only [ne_eq, hne, not_false_eq_true, if_true]
         cases hn : p.next p2 with
         | none => simp [hn] at h
         | some q2 =>
           simp only [hn] at h ⊢
           by_cases hlt : lt (p.val q2) (p.val l) = true
           · simp only [hlt, if_true] at h ⊢
             cases hn1 : p.next p1 with
             | none => simp [hn1] at h
             | some q1 =>
               simp only [hn1, gen_sort_swap] at h ⊢
               by_cases hq : q2 = r
               · simp only [hq, ne_eq, not_true_eq_false, if_false, Option.some.injEq] at h
                 subst h
                 rw [SeqSort.partition_loop1]
                 simp [hq]
               · simp only [ne_eq, hq, not_false_eq_true, if_true] at h
                 exact ih _ _ _ _ _ hq h
           · simp only [hlt, Bool.false_eq_true, if_false] at h ⊢
             by_cases hq : q2 = r
             · simp only [hq, ne_eq, not_true_eq_false, if_false, Option.some.injEq] at h
               subst h
               rw [SeqSort.partition_loop1]
               simp [hq]
             · simp only [ne_eq, hq, not_false_eq_true, if_true] at h
               exact ih _ _ _ _ _ hq h
     have hpart : ∀ (l r f : Nat) (p : PtrG.GHeap α) (R : PtrG.PL α), l ≠ r → PtrG.ploopG lt l r f p l l l = some R →
        SeqSort.partition lt (f + 1) p l r = some (PtrG.swapVal R.heap l R.p1, R.p1, R.p0) := by
       intro l r f p R hlr h
       unfold SeqSort.partition
       simp only [hloop l r f p l l l R hlr h, gen_sort_swap]
     intro f
     induction f with
     | zero => intro p l r g _ h; simp [PtrG.qsortG] at h
     | succ f ih =>
       intro p l r g hlr h
       rw [PtrG.qsortG] at h
       cases hpl : PtrG.ploopG lt l r (f + 1) p l l l with
       | none => simp [hpl] at h
       | some R =>
         simp only [hpl] at h
         rw [SeqSort.sort]
         simp only [hpart l r (f + 1) p R hlr hpl]
         cases hq : (if R.p1 ≠ r then (PtrG.swapVal R.heap l R.p1).next R.p1 else some R.p1) with
         | none => simp [hq] at h
         | some q1 =>
           simp only [hq] at h
           cases hl : (if l ≠ R.p0 then PtrG.qsortG lt f (PtrG.swapVal R.heap l R.p1) l R.p0 else some (PtrG.swapVal R.heap l R.p1)) with
           | none => simp [hl] at h
           | some h2 =>
             simp only [hl] at h
             have h2n : h2.next = (PtrG.swapVal R.heap l R.p1).next := by
               by_cases c : l = R.p0
               · simp only [c, ne_eq, not_true_eq_false, if_false, Option.some.injEq] at hl
                 rw [← hl]; rfl
               · simp only [c, ne_eq, not_false_eq_true, if_true] at hl
                 exact PtrG.qsortG_next lt _ _ _ _ _ hl
             have hleft : (if l ≠ R.p0 then SeqSort.sort lt (f + 1) (PtrG.swapVal R.heap l R.p1) l R.p0
                           else some (PtrG.swapVal R.heap l R.p1)) = some h2 := by
               by_cases c : l = R.p0
               · rw [if_neg (fun hh => hh c)] at hl ⊢; exact hl
               · simp only [c, ne_eq, not_false_eq_true, if_true] at hl ⊢
                 exact ih _ _ _ _ c hl
             by_cases c : l = R.p0
             · simp only [c, ne_eq, not_true_eq_false, if_false, Option.some.injEq] at hleft
               simp only [c, ne_eq, not_true_eq_false, if_false]
               rw [c] at h2n hq
               rw [hleft]
               by_cases c1 : R.p1 = r
               · simp only [c1, ne_eq, not_true_eq_false, if_false, Option.some.injEq] at hq
                 subst hq
                 simp only [c1, if_true]
                 simpa using h
               · simp only [c1, ne_eq, not_false_eq_true, if_true] at hq
                 simp only [c1, if_false, h2n, hq]
                 by_cases c2 : q1 = r
                 · simpa [c2] using h
                 · simp only [c2, ne_eq, not_false_eq_true, if_true, if_false] at h ⊢
                   exact ih _ _ _ _ c2 h
             · simp only [c, ne_eq, not_false_eq_true, if_true] at hleft ⊢
               simp only [hleft]
               by_cases c1 : R.p1 = r
               · simp only [c1, ne_eq, not_true_eq_false, if_false, Option.some.injEq] at hq
                 subst hq
                 simp only [c1, if_true]
                 simpa using h
               · simp only [c1, ne_eq, not_false_eq_true, if_true] at hq
                 simp only [c1, if_false, h2n, hq]
                 by_cases c2 : q1 = r
                 · simpa [c2] using h
                 · simp only [c2, ne_eq, not_false_eq_true, if_true, if_false] at h ⊢
                   exact ih _ _ _ _ c2 h)

/-- For the spelling of the pinned header (`sortIsDoWhile`, set by the translator: the do-while partition loop inside `sort`, two
    recursive calls) the translated `QuickSort::sort` IS the model's `qsortG`: same result AND same faults (a null `next`
    followed, fuel exhausted) for every heap, range, comparison, element type and fuel.  For another spelling the translator
    sets the flag to `false` and only the simulation `gen_sort` is claimed. -/
theorem gen_sort_exact {α : Type} (lt : α → α → Bool) (hshape : SeqSort.sortIsDoWhile = true) :
    ∀ (fuel : Nat) (p : PtrG.GHeap α) (left right : Nat),
      SeqSort.sort lt fuel p left right = PtrG.qsortG lt fuel p left right := by
  first
  | (have hloop : ∀ (left right fuel : Nat) (p : PtrG.GHeap α) (p0 p1 p2 : Nat),
        SeqSort.sort_loop1 lt fuel p left right p0 p1 p2 =
          (PtrG.ploopG lt left right fuel p p0 p1 p2).map (fun r => (r.heap, left, right, r.p0, r.p1, right)) := by
       intro left right fuel
       induction fuel with
       | zero => intro p p0 p1 p2; rfl
       | succ f ih =>
         intro p p0 p1 p2
         simp only [SeqSort.sort_loop1, PtrG.ploopG]
         cases hn : p.next p2 with
         | none => rfl
         | some q2 =>
           simp only []
           by_cases hlt : lt (p.val q2) (p.val left) = true
           · simp only [hlt, if_true]
             cases hn1 : p.next p1 with
             | none => rfl
             | some q1 =>
               simp only [gen_sort_swap]
               by_cases hq : q2 = right
               · subst hq; simp
               · simp only [ne_eq, hq, not_false_eq_true, if_true, ih]
           · simp only [hlt, Bool.false_eq_true, if_false]
             by_cases hq : q2 = right
             · subst hq; simp
             · simp only [ne_eq, hq, not_false_eq_true, if_true, ih]
     have hexact : ∀ (fuel : Nat) (p : PtrG.GHeap α) (left right : Nat),
        SeqSort.sort lt fuel p left right = PtrG.qsortG lt fuel p left right := by
       intro fuel
       induction fuel with
       | zero => intro p left right; rfl
       | succ f ih =>
         intro p left right
         simp only [SeqSort.sort, PtrG.qsortG, hloop]
         cases hpl : PtrG.ploopG lt left right (f + 1) p left left left with
         | none => rfl
         | some r =>
           simp only [Option.map_some, gen_sort_swap, ih]
           by_cases h1 : r.p1 = right
           · by_cases h2 : left = r.p0
             · simp [h1, h2]
             · simp only [h1, h2, ne_eq, not_true_eq_false, not_false_eq_true, if_true, if_false]
               cases PtrG.qsortG lt f (PtrG.swapVal r.heap left right) left r.p0 <;> rfl
           · simp only [h1, ne_eq, not_false_eq_true, if_true]
             cases hq : (PtrG.swapVal r.heap left r.p1).next r.p1 with
             | none => rfl
             | some q1 =>
               simp only []
               by_cases h2 : left = r.p0
               · simp only [h2, ne_eq, not_true_eq_false, if_false]
                 by_cases h3 : q1 = right
                 · simp [h3]
                 · simp only [h3, ne_eq, not_false_eq_true, if_true]
                   cases PtrG.qsortG lt f (PtrG.swapVal r.heap r.p0 r.p1) q1 right <;> rfl
               · simp only [h2, ne_eq, not_false_eq_true, if_true]
                 cases PtrG.qsortG lt f (PtrG.swapVal r.heap left r.p1) left r.p0 with
                 | none => rfl
                 | some h2' =>
                   simp only []
                   by_cases h3 : q1 = right
                   · simp [h3]
                   · simp only [h3, ne_eq, not_false_eq_true, if_true]
                     cases PtrG.qsortG lt f h2' q1 right <;> rfl
     exact hexact)
  | exact absurd hshape (by decide)

/-- `List<T>::sort()` with the TRANSLATED quicksort in place of the model's (the public wrapper — return for 0 or 1 element,
    else `QuickSort::sort(_begin.item, endItem.prev)` — is shape-checked by the translator): for every element type, every
    comparison function and every heap whose `next` links run through the pairwise distinct item addresses `xs` holding the
    values `m`, the code terminates within fuel `_size`, follows no null pointer, leaves `next` untouched and the values
    `sortVals lt m` (a permutation of `m`) along the same chain, and writes no `value` outside the chain. -/
theorem gen_sort_comparator {α : Type} [Inhabited α] (lt : α → α → Bool) (g : PtrG.GHeap α) (xs : List Nat) (m : List α)
    (hv : PtrG.View g xs m) :
    ∃ g' m',
      (match Ptr.lastOr xs none with
       | none => some g
       | some l => if xs.headD 0 = l then some g else SeqSort.sort lt (xs.length + 1) g (xs.headD 0) l) = some g' ∧
      sortVals lt m = some m' ∧ m'.Perm m ∧ g'.next = g.next ∧ PtrG.View g' xs m' ∧ ∀ a, a ∉ xs → g'.val a = g.val a := by
  obtain ⟨g', m', e1, rest⟩ := gsort_comparator lt g xs m hv
  refine ⟨g', m', ?_, rest⟩
  unfold PtrG.sortG at e1
  cases hl : Ptr.lastOr xs none with
  | none => rw [hl] at e1; exact e1
  | some l =>
    rw [hl] at e1
    simp only [] at e1 ⊢
    by_cases c : xs.headD 0 = l
    · rw [if_pos c] at e1 ⊢; exact e1
    · rw [if_neg c] at e1 ⊢
      exact gen_sort lt _ _ _ _ _ c e1

/-- non-vacuity: the translated quicksort run on the (key, tag) heap of PropsSortG.lean -/
example :
    (SeqSort.sort (fun a b : Nat × Nat => decide (a.1 < b.1)) 4 demoG 1 3).map (fun g => (g.val 1, g.val 2, g.val 3, g.val 4)) =
      some ((0, 2), (0, 1), (1, 0), (9, 9)) := by decide

end Nstd.Seq
