import Nstd.Seq.PropsSortG
import Nstd.Generated.SeqSort
/-
  Property C03, the tie by TRANSLATION for `List<T>::sort()`: `Nstd.Generated.SeqSort` holds `QuickSort::swap` and
  `QuickSort::sort` (the do-while partition loop, `swap(left, ptr1)`, the advance of `ptr1`, the two guarded recursive calls) as
  tools/gen_seq.py reads them off the CURRENT include/nstd/List.hpp on every run — over the heap `value : address → α`,
  `next : address → Option address` of PtrSortG.lean, generic in the element type, `operator<` = the parameter `lt`.  The
  theorems state that the translated code IS the heap-level model (`swapVal`, `ploopG`, `qsortG`) that `gsort_comparator`,
  `gsort_iterators` (PropsSortG.lean) and, at `α = Int`, `ptr_sort(_comparator)` (Props/PropsSort.lean) speak about — for
  every heap (no representation hypothesis at all), every comparison function, every element type, every fuel.
-/
set_option linter.unusedSimpArgs false
set_option linter.unusedVariables false
namespace Nstd.Seq
open Nstd.Generated

/-- the translated `QuickSort::swap(a, b)` (`T tmp = a->value; a->value = b->value; b->value = tmp;`) is `swapVal` -/
theorem gen_sort_swap {α : Type} (p : PtrG.GHeap α) (a b : Nat) : SeqSort.swap p a b = some (PtrG.swapVal p a b) := rfl

/-- The translated do-while loop of `QuickSort::sort` — `ptr2 = ptr2->next; if(ptr2->value < pivot) { ptr0 = ptr1;
    ptr1 = ptr1->next; swap(ptr1, ptr2); }` while `ptr2 != right`, `pivot` re-read through the reference `left->value` — is
    the model's partition loop `ploopG`: same heap, same `ptr0`, `ptr1` (and `ptr2 = right` at the exit), same faults (a null
    `next`, fuel), for every heap, `left`, `right`, start pointers, fuel and comparison. -/
theorem gen_sort_partition {α : Type} (lt : α → α → Bool) (left right : Nat) :
    ∀ (fuel : Nat) (p : PtrG.GHeap α) (p0 p1 p2 : Nat),
      SeqSort.sort_loop1 lt fuel p left right p0 p1 p2 =
        (PtrG.ploopG lt left right fuel p p0 p1 p2).map (fun r => (r.heap, left, right, r.p0, r.p1, right)) := by
  intro fuel
  induction fuel with
  | zero => intro p p0 p1 p2; rfl
  | succ f ih =>
    intro p p0 p1 p2
    simp only [SeqSort.sort_loop1, PtrG.ploopG]
    cases hn : p.next p2 with
    | none => rfl
    | some q2 =>
      simp only []
      by_cases hlt : lt (p.val q2) (p.val left) = true
      · simp only [hlt, if_true]
        cases hn1 : p.next p1 with
        | none => rfl
        | some q1 =>
          simp only [gen_sort_swap]
          by_cases hq : q2 = right
          · subst hq; simp
          · simp only [ne_eq, hq, not_false_eq_true, if_true, ih]
      · simp only [hlt, Bool.false_eq_true, if_false]
        by_cases hq : q2 = right
        · subst hq; simp
        · simp only [ne_eq, hq, not_false_eq_true, if_true, ih]

/-- The translated `QuickSort::sort(left, right)` is the model's `qsortG` — for every heap, every `left`, `right`, every
    comparison function, element type and fuel: together with `gsort_comparator` the code as written in the header sorts
    (terminates within fuel `_size`, follows no null pointer, writes no link, leaves `sortVals lt` of the old values). -/
theorem gen_sort {α : Type} (lt : α → α → Bool) :
    ∀ (fuel : Nat) (p : PtrG.GHeap α) (left right : Nat),
      SeqSort.sort lt fuel p left right = PtrG.qsortG lt fuel p left right := by
  intro fuel
  induction fuel with
  | zero => intro p left right; rfl
  | succ f ih =>
    intro p left right
    simp only [SeqSort.sort, PtrG.qsortG, gen_sort_partition]
    cases hpl : PtrG.ploopG lt left right (f + 1) p left left left with
    | none => rfl
    | some r =>
      simp only [Option.map_some, gen_sort_swap, ih]
      by_cases h1 : r.p1 = right
      · by_cases h2 : left = r.p0
        · simp [h1, h2]
        · simp only [h1, h2, ne_eq, not_true_eq_false, not_false_eq_true, if_true, if_false]
          cases PtrG.qsortG lt f (PtrG.swapVal r.heap left right) left r.p0 <;> rfl
      · simp only [h1, ne_eq, not_false_eq_true, if_true]
        cases hq : (PtrG.swapVal r.heap left r.p1).next r.p1 with
        | none => rfl
        | some q1 =>
          simp only []
          by_cases h2 : left = r.p0
          · simp only [h2, ne_eq, not_true_eq_false, if_false]
            by_cases h3 : q1 = right
            · simp [h3]
            · simp only [h3, ne_eq, not_false_eq_true, if_true]
              cases PtrG.qsortG lt f (PtrG.swapVal r.heap r.p0 r.p1) q1 right <;> rfl
          · simp only [h2, ne_eq, not_false_eq_true, if_true]
            cases PtrG.qsortG lt f (PtrG.swapVal r.heap left r.p1) left r.p0 with
            | none => rfl
            | some h2' =>
              simp only []
              by_cases h3 : q1 = right
              · simp [h3]
              · simp only [h3, ne_eq, not_false_eq_true, if_true]
                cases PtrG.qsortG lt f h2' q1 right <;> rfl

/-- `List<T>::sort()` with the TRANSLATED quicksort in place of the model's (the public wrapper — return for 0 or 1 element,
    else `QuickSort::sort(_begin.item, endItem.prev)` — is shape-checked by the translator): for every element type, every
    comparison function and every heap whose `next` links run through the pairwise distinct item addresses `xs` holding the
    values `m`, the code terminates within fuel `_size`, follows no null pointer, leaves `next` untouched and the values
    `sortVals lt m` (a permutation of `m`) along the same chain, and writes no `value` outside the chain. -/
theorem gen_sort_comparator {α : Type} [Inhabited α] (lt : α → α → Bool) (g : PtrG.GHeap α) (xs : List Nat) (m : List α)
    (hv : PtrG.View g xs m) :
    ∃ g' m',
      (match Ptr.lastOr xs none with
       | none => some g
       | some l => if xs.headD 0 = l then some g else SeqSort.sort lt xs.length g (xs.headD 0) l) = some g' ∧
      sortVals lt m = some m' ∧ m'.Perm m ∧ g'.next = g.next ∧ PtrG.View g' xs m' ∧ ∀ a, a ∉ xs → g'.val a = g.val a := by
  obtain ⟨g', m', e1, rest⟩ := gsort_comparator lt g xs m hv
  refine ⟨g', m', ?_, rest⟩
  rw [← e1]
  unfold PtrG.sortG
  cases Ptr.lastOr xs none with
  | none => rfl
  | some l => simp only [gen_sort]

/-- non-vacuity: the translated quicksort run on the (key, tag) heap of PropsSortG.lean -/
example :
    (SeqSort.sort (fun a b : Nat × Nat => decide (a.1 < b.1)) 3 demoG 1 3).map (fun g => (g.val 1, g.val 2, g.val 3, g.val 4)) =
      some ((0, 2), (0, 1), (1, 0), (9, 9)) := by decide

end Nstd.Seq
