import Nstd.Seq.LemmasLink
/-
  Property C03, the tie by TRANSLATION: `Nstd.Generated.SeqLink` holds the bodies of
      List::insert(position, value)   List::remove(it)   List::swap(other)
      PoolList::linkFreeItem(t)       PoolList::remove(value)   PoolList::swap(other)
  as tools/gen_seq.py reads them off the CURRENT include/nstd/List.hpp / PoolList.hpp on every run (statement by statement;
  the block allocation is replaced by the model's `Ptr.refill`, see the translator's header).  The theorems below state that
  the translated code IS the hand-written heap-model step (`Ptr.insert`, `Ptr.remove`, `Ptr.link`, `Ptr2.swap`) on every heap
  that represents a chain — for every position, value, chain and free list.  Together with `ptr_refines`, `ptr_insert_returns`,
  `ptr_remove_returns`, `ptr_swap` (Props.lean) this carries the refinement to the reference sequences over to the code as
  written in the headers: a change of the relinking statements that alters what they compute makes one of these theorems
  fail (a broken obligation), a rewrite that computes the same (other variable names, the stores in another order, the
  allocation hoisted into a helper) is re-proved by the same scripts.
-/
set_option linter.unusedSimpArgs false
set_option linter.unusedVariables false
namespace Nstd.Seq
open Nstd.Generated

/-- the translated `List::insert(position, value)` on a heap with a non-empty free list: the model's `link` of the
    free-list head `f` in front of the designated item; returns that item -/
theorem gen_list_insert_link (p : Ptr.PList) (xs fs : List Nat) (f : Nat) (s : LState) (h : Ptr.Rep p xs (f :: fs) s)
    (k : Nat) (hk : k ≤ xs.length) (v : Int) :
    SeqLink.List.insert p ((xs.drop k).headD 0) v = some (Ptr.link p f ((xs.drop k).headD 0) v, some f) := by
  obtain ⟨hfree, hf0, hfp, hq⟩ := Ptr.insert_distinct p xs fs f s h k hk
  generalize (xs.drop k).headD 0 = pos at hfp hq ⊢
  have r1 : ∀ {β : Type} (g : Nat → β) (x : β), Ptr.set g f x pos = g pos := fun g x => by simp [Ptr.set, Ne.symm hfp]
  have r2 : ∀ {β : Type} (g : Nat → β) (x : β), Ptr.set g pos x f = g f := fun g x => by simp [Ptr.set, hfp]
  have r0 : ∀ {β : Type} (g : Nat → β) (a : Nat) (x : β), Ptr.set g a x a = x := fun g a x => by simp [Ptr.set]
  unfold SeqLink.List.insert Ptr.link
  simp only [hfree, Option.isNone_some, Bool.false_eq_true, if_false, r0, r1, r2]
  cases hpp : p.prev pos with
  | none => (try simp only [hpp, r0, r1, r2]) <;> heap_eq
  | some q =>
    obtain ⟨hq1, hq2, hq3⟩ := hq q hpp
    have r3 : ∀ {β : Type} (g : Nat → β) (x : β), Ptr.set g f x q = g q := fun g x => by simp [Ptr.set, hq1]
    have r4 : ∀ {β : Type} (g : Nat → β) (x : β), Ptr.set g pos x q = g q := fun g x => by simp [Ptr.set, hq2]
    (try simp only [hpp, r0, r1, r2, r3, r4]) <;> heap_eq

/-- The translated `List::insert(position, value)` is the heap model's `Ptr.insert`, for every heap that represents a chain,
    every position `k ≤ size` and every value — with an empty free list too (the allocation is the model's `refill` on both
    sides).  Same result heap, same returned item. -/
theorem gen_list_insert (p : Ptr.PList) (xs fs : List Nat) (s : LState) (h : Ptr.Rep p xs fs s)
    (k : Nat) (hk : k ≤ xs.length) (v : Int) :
    SeqLink.List.insert p ((xs.drop k).headD 0) v =
      (Ptr.insert p ((xs.drop k).headD 0) v).map (fun r => (r.1, some r.2)) := by
  cases fs with
  | cons f fs' =>
    have hfree : p.free = some f := h.fr.1
    rw [gen_list_insert_link p xs fs' f s h k hk v]
    simp [Ptr.insert, hfree]
  | nil =>
    have hfree : p.free = none := h.fr
    have h1 := Ptr.refill_rep p xs s h
    obtain ⟨j, hj⟩ : ∃ j, p.bk = j + 1 := ⟨p.bk - 1, by have := h.bkpos; omega⟩
    rw [hj, Ptr.descAddrs_succ] at h1
    rw [← hj] at h1
    have hfree1 : (Ptr.refill p).free = some (p.bk * p.nblocks + 1 + j) := h1.fr.1
    have key := gen_list_insert_link (Ptr.refill p) xs _ _ _ h1 k hk v
    have e1 : SeqLink.List.insert p ((xs.drop k).headD 0) v = SeqLink.List.insert (Ptr.refill p) ((xs.drop k).headD 0) v := by
      unfold SeqLink.List.insert
      simp only [hfree, hfree1, Option.isNone_none, Option.isNone_some, if_true, if_false, Bool.false_eq_true]
    rw [e1, key]
    simp [Ptr.insert, hfree, hfree1]

/-- The translated `List::remove(it)` is the heap model's `Ptr.remove` — unlink the item, push it onto the free list, return
    `item->next` read AFTER the item was released — for every heap representing a chain and every item of it. -/
theorem gen_list_remove (p : Ptr.PList) (a b fs : List Nat) (item : Nat) (s : LState)
    (h : Ptr.Rep p (a ++ item :: b) fs s) :
    SeqLink.List.remove p item = (Ptr.remove p item).map (fun r => (r.1, some r.2)) := by
  obtain ⟨hnext, hprev, hin, hi0, hq⟩ := Ptr.remove_distinct p a b fs item s h
  generalize b.headD 0 = n at hnext hin hq
  have r0 : ∀ {β : Type} (g : Nat → β) (a : Nat) (x : β), Ptr.set g a x a = x := fun g a x => by simp [Ptr.set]
  have r1 : ∀ {β : Type} (g : Nat → β) (x : β), Ptr.set g n x item = g item := fun g x => by simp [Ptr.set, hin]
  have r2 : ∀ {β : Type} (g : Nat → β) (x : β), Ptr.set g item x n = g n := fun g x => by simp [Ptr.set, Ne.symm hin]
  unfold SeqLink.List.remove Ptr.remove Ptr.unlink
  cases hl : Ptr.lastOr a none with
  | none =>
    rw [hl] at hprev
    (try simp only [hnext, hprev, Option.map_some, r0, r1, r2]) <;> heap_eq
  | some q =>
    rw [hl] at hprev
    obtain ⟨hq1, hq2, hq3⟩ := hq q hl
    have r3 : ∀ {β : Type} (g : Nat → β) (x : β), Ptr.set g q x item = g item := fun g x => by simp [Ptr.set, Ne.symm hq1]
    have r4 : ∀ {β : Type} (g : Nat → β) (x : β), Ptr.set g q x n = g n := fun g x => by simp [Ptr.set, Ne.symm hq2]
    have r5 : ∀ {β : Type} (g : Nat → β) (x : β), Ptr.set g item x q = g q := fun g x => by simp [Ptr.set, hq1]
    have r6 : ∀ {β : Type} (g : Nat → β) (x : β), Ptr.set g n x q = g q := fun g x => by simp [Ptr.set, hq2]
    (try simp only [hnext, hprev, Option.map_some, r0, r1, r2, r3, r4, r5, r6]) <;> heap_eq

/-- The translated `PoolList::linkFreeItem` (after `allocateFreeItem` and the in-place construction of the element at the
    head `f` of the free list) is the model's `link` of `f` in front of the sentinel — `PoolList::append` relinks exactly as
    `List::insert(end(), value)` does. -/
theorem gen_pool_link (p : Ptr.PList) (xs fs : List Nat) (f : Nat) (s : LState) (h : Ptr.Rep p xs (f :: fs) s) (v : Int) :
    SeqLink.PoolList.linkFreeItem { p with val := Ptr.set p.val f v } = some (Ptr.link p f 0 v) ∧
    (Ptr.insert p 0 v).map (·.1) = some (Ptr.link p f 0 v) := by
  obtain ⟨hfree, hf0, hfp, hq⟩ := Ptr.insert_distinct p xs fs f s h xs.length (Nat.le_refl _)
  have hpos : (xs.drop xs.length).headD 0 = 0 := by simp
  rw [hpos] at hfp hq
  refine ⟨?_, by simp [Ptr.insert, hfree]⟩
  have r1 : ∀ {β : Type} (g : Nat → β) (x : β), Ptr.set g f x 0 = g 0 := fun g x => by simp [Ptr.set, Ne.symm hfp]
  have r2 : ∀ {β : Type} (g : Nat → β) (x : β), Ptr.set g 0 x f = g f := fun g x => by simp [Ptr.set, hfp]
  have r0 : ∀ {β : Type} (g : Nat → β) (a : Nat) (x : β), Ptr.set g a x a = x := fun g a x => by simp [Ptr.set]
  unfold SeqLink.PoolList.linkFreeItem Ptr.link
  simp only [hfree, r0, r1, r2]
  cases hpp : p.prev 0 with
  | none => (try simp only [hpp, r0, r1, r2]) <;> heap_eq
  | some q =>
    obtain ⟨hq1, hq2, hq3⟩ := hq q hpp
    have r3 : ∀ {β : Type} (g : Nat → β) (x : β), Ptr.set g f x q = g q := fun g x => by simp [Ptr.set, hq1]
    have r4 : ∀ {β : Type} (g : Nat → β) (x : β), Ptr.set g 0 x q = g q := fun g x => by simp [Ptr.set, hq2]
    (try simp only [hpp, r0, r1, r2, r3, r4]) <;> heap_eq

/-- The translated `PoolList::remove(const T& value)` (`item` = the header in front of the element) is the heap model's
    `Ptr.remove`. -/
theorem gen_pool_remove (p : Ptr.PList) (a b fs : List Nat) (item : Nat) (s : LState)
    (h : Ptr.Rep p (a ++ item :: b) fs s) :
    SeqLink.PoolList.remove p item = (Ptr.remove p item).map (·.1) := by
  obtain ⟨hnext, hprev, hin, hi0, hq⟩ := Ptr.remove_distinct p a b fs item s h
  generalize b.headD 0 = n at hnext hin hq
  have r0 : ∀ {β : Type} (g : Nat → β) (a : Nat) (x : β), Ptr.set g a x a = x := fun g a x => by simp [Ptr.set]
  have r1 : ∀ {β : Type} (g : Nat → β) (x : β), Ptr.set g n x item = g item := fun g x => by simp [Ptr.set, hin]
  have r2 : ∀ {β : Type} (g : Nat → β) (x : β), Ptr.set g item x n = g n := fun g x => by simp [Ptr.set, Ne.symm hin]
  unfold SeqLink.PoolList.remove Ptr.remove Ptr.unlink
  cases hl : Ptr.lastOr a none with
  | none =>
    rw [hl] at hprev
    (try simp only [hnext, hprev, Option.map_some, r0, r1, r2]) <;> heap_eq
  | some q =>
    rw [hl] at hprev
    obtain ⟨hq1, hq2, hq3⟩ := hq q hl
    have r3 : ∀ {β : Type} (g : Nat → β) (x : β), Ptr.set g q x item = g item := fun g x => by simp [Ptr.set, Ne.symm hq1]
    have r4 : ∀ {β : Type} (g : Nat → β) (x : β), Ptr.set g q x n = g n := fun g x => by simp [Ptr.set, Ne.symm hq2]
    have r5 : ∀ {β : Type} (g : Nat → β) (x : β), Ptr.set g item x q = g q := fun g x => by simp [Ptr.set, hq1]
    have r6 : ∀ {β : Type} (g : Nat → β) (x : β), Ptr.set g n x q = g q := fun g x => by simp [Ptr.set, hq2]
    (try simp only [hnext, hprev, Option.map_some, r0, r1, r2, r3, r4, r5, r6]) <;> heap_eq

/-- The translated `List::swap(other)` with both lists in one heap (sentinels `eA ≠ eB`) is the model's `Ptr2.swap`, which
    `ptr_swap` (Props.lean) shows to exchange the two chains and free lists without touching an item — for every heap in
    which the last items of the two chains are not the other list's sentinel (true of every pair of represented lists). -/
theorem gen_list_swap (H : Ptr2.Heap) (eA eB : Nat) (A B : Ptr2.Hdr) (hne : eA ≠ eB)
    (hA : ∀ l, H.prev eA = some l → l ≠ eA ∧ l ≠ eB) (hB : ∀ l, H.prev eB = some l → l ≠ eA ∧ l ≠ eB) :
    SeqLink.List.swap H eA eB A B = some (Ptr2.swap H eA eB A B) := by
  have r0 : ∀ {β : Type} (g : Nat → β) (a : Nat) (x : β), Ptr.set g a x a = x := fun g a x => by simp [Ptr.set]
  have r1 : ∀ {β : Type} (g : Nat → β) (x : β), Ptr.set g eA x eB = g eB := fun g x => by simp [Ptr.set, Ne.symm hne]
  have r2 : ∀ {β : Type} (g : Nat → β) (x : β), Ptr.set g eB x eA = g eA := fun g x => by simp [Ptr.set, hne]
  unfold SeqLink.List.swap Ptr2.swap
  cases hb : H.prev eB with
  | none =>
    cases ha : H.prev eA with
    | none => (try simp only [ha, hb, r0, r1, r2]) <;> heap_eq
    | some la =>
      obtain ⟨a1, a2⟩ := hA la ha
      (try simp only [ha, hb, r0, r1, r2]) <;> heap_eq
  | some lb =>
    obtain ⟨b1, b2⟩ := hB lb hb
    cases ha : H.prev eA with
    | none => (try simp only [ha, hb, r0, r1, r2]) <;> heap_eq
    | some la =>
      obtain ⟨a1, a2⟩ := hA la ha
      (try simp only [ha, hb, r0, r1, r2]) <;> heap_eq

/-- the same for `PoolList::swap` (a textual copy in the header; translated and proved separately) -/
theorem gen_pool_swap (H : Ptr2.Heap) (eA eB : Nat) (A B : Ptr2.Hdr) (hne : eA ≠ eB)
    (hA : ∀ l, H.prev eA = some l → l ≠ eA ∧ l ≠ eB) (hB : ∀ l, H.prev eB = some l → l ≠ eA ∧ l ≠ eB) :
    SeqLink.PoolList.swap H eA eB A B = some (Ptr2.swap H eA eB A B) := by
  have r0 : ∀ {β : Type} (g : Nat → β) (a : Nat) (x : β), Ptr.set g a x a = x := fun g a x => by simp [Ptr.set]
  have r1 : ∀ {β : Type} (g : Nat → β) (x : β), Ptr.set g eA x eB = g eB := fun g x => by simp [Ptr.set, Ne.symm hne]
  have r2 : ∀ {β : Type} (g : Nat → β) (x : β), Ptr.set g eB x eA = g eA := fun g x => by simp [Ptr.set, hne]
  unfold SeqLink.PoolList.swap Ptr2.swap
  cases hb : H.prev eB with
  | none =>
    cases ha : H.prev eA with
    | none => (try simp only [ha, hb, r0, r1, r2]) <;> heap_eq
    | some la =>
      obtain ⟨a1, a2⟩ := hA la ha
      (try simp only [ha, hb, r0, r1, r2]) <;> heap_eq
  | some lb =>
    obtain ⟨b1, b2⟩ := hB lb hb
    cases ha : H.prev eA with
    | none => (try simp only [ha, hb, r0, r1, r2]) <;> heap_eq
    | some la =>
      obtain ⟨a1, a2⟩ := hA la ha
      (try simp only [ha, hb, r0, r1, r2]) <;> heap_eq

/-- the hypotheses of `gen_list_swap` hold for every two represented lists whose items are not sentinels (as in `ptr_swap`) -/
theorem swap_hyps_of_rep (H : Ptr2.Heap) (eA eB : Nat) (A B : Ptr2.Hdr) (xsA fsA xsB fsB : List Nat)
    (hs : ∀ x ∈ xsA ++ fsA ++ xsB ++ fsB, x ≠ eA ∧ x ≠ eB)
    (ha : Ptr2.RepE H A eA xsA fsA) (hb : Ptr2.RepE H B eB xsB fsB) :
    (∀ l, H.prev eA = some l → l ≠ eA ∧ l ≠ eB) ∧ (∀ l, H.prev eB = some l → l ≠ eA ∧ l ≠ eB) := by
  constructor
  · intro l hl
    rw [ha.endp] at hl
    exact hs l (by simp [Ptr2.lastOr_mem xsA l hl])
  · intro l hl
    rw [hb.endp] at hl
    exact hs l (by simp [Ptr2.lastOr_mem xsB l hl])

/-- `PoolList::append` exists with 0 … 7 constructor arguments and, as the translator checks on the current header, EVERY one of
    them is `linkFreeItem(new (allocateFreeItem()) T(a, b, …))` with the parameters in their order: the linking of all eight
    arities is the translated `linkFreeItem` of `gen_pool_link` (the arities differ only in the constructor call). -/
theorem gen_pool_append_arities : SeqLink.PoolList.appendArities = List.range 8 := by decide

end Nstd.Seq
