import Nstd.Seq.Model
/-
  Pointer-level model of the relinking code of `List<T>` (include/nstd/List.hpp:140-197):
  `insert(position, value)` and `remove(iterator)` written statement by statement over a heap of
  items with `value`, `prev`, `next` fields.

  Addresses: `0` is `&endItem` (the end sentinel, `_end.item`); the items of block `b` have the
  addresses `bk*b+1 … bk*b+bk`; a null pointer is `none`.  `prev 0` is `endItem.prev`.
  (`Props.ptr_insert_refines` / `ptr_remove_refines` relate this model to the chain model of Model.lean.)
-/
namespace Nstd.Seq.Ptr

/-- heap cell update -/
def set {β : Type} (f : Nat → β) (a : Nat) (v : β) : Nat → β := fun k => if k = a then v else f k

structure PList where
  val : Nat → Int
  prev : Nat → Option Nat
  next : Nat → Option Nat
  begin : Nat            -- `_begin.item`
  size : Nat             -- `_size`
  free : Option Nat      -- `freeItem`
  nblocks : Nat
  bk : Nat               -- items per block (`sizeof(Item) * bk` in the allocation, `end = i + bk` in the fill loop)

/-- `List()`: `_begin(&endItem)`, `endItem.prev = 0`, `endItem.next = 0`, no blocks; `k` = items per block -/
def init (k : Nat) : PList :=
  { val := fun _ => 0, prev := fun _ => none, next := fun _ => none, begin := 0, size := 0, free := none, nblocks := 0,
    bk := k }

/-- the `if(!item)` branch of `insert`: a new block, its `bk` items (addresses `bk*b + 1 … bk*b + bk`) pushed onto
    the (empty) free list in address order (`i->prev = item; item = i;`: the first item gets a null `prev`, every
    other one points to its predecessor in the block), `freeItem = item` (the last one) -/
def refill (p : PList) : PList :=
  let b := p.nblocks
  let k := p.bk
  { p with
    prev := fun x => if k * b < x ∧ x ≤ k * b + k then (if x = k * b + 1 then none else some (x - 1)) else p.prev x,
    free := some (k * b + k), nblocks := b + 1 }

/-- the body of `insert` once `item` has been taken from the head of the free list -/
def link (p1 : PList) (item pos : Nat) (v : Int) : PList :=
  let val := set p1.val item v                               -- new(item) Item(value);
  let free := p1.prev item                                   -- freeItem = item->prev;
  let ipp := p1.prev pos                                     -- insertPos->prev
  let prev1 := set p1.prev item ipp                          -- item->prev = insertPos->prev
  let next1 := match ipp with
    | some q => set p1.next q (some item)                    --   insertPos->prev->next = item;
    | none => p1.next
  let begin1 := match ipp with
    | some _ => p1.begin
    | none => item                                           --   else _begin.item = item;
  let next2 := set next1 item (some pos)                     -- item->next = insertPos;
  let prev2 := set prev1 pos (some item)                     -- insertPos->prev = item;
  { val := val, prev := prev2, next := next2, begin := begin1, size := p1.size + 1,   -- ++_size;
    free := free, nblocks := p1.nblocks, bk := p1.bk }

/-- `Iterator insert(const Iterator& position, const T& value)`; returns the new state and the item -/
def insert (p : PList) (pos : Nat) (v : Int) : Option (PList × Nat) :=
  let p1 := if p.free.isNone then refill p else p             -- Item* item = freeItem; if(!item) {…}
  match p1.free with
  | none => none
  | some item => some (link p1 item pos v, item)               -- return item;

/-- the body of `remove` once `item->next` has been read (`n`) -/
def unlink (p : PList) (item n : Nat) : PList :=
  { p with
    begin := (match p.prev item with
      | none => n                                              -- (_begin.item = item->next)
      | some _ => p.begin),
    next := (match p.prev item with
      | none => p.next
      | some q => set p.next q (some n)),                      -- (item->prev->next = item->next)
    prev := set (set p.prev n (p.prev item)) item p.free,      --   ->prev = 0 / ->prev = item->prev;  item->prev = freeItem;
    size := p.size - 1,                                        -- --_size;
    free := some item }                                        -- freeItem = item;

/-- `Iterator remove(const Iterator& it)`; returns the new state and `item->next` -/
def remove (p : PList) (item : Nat) : Option (PList × Nat) :=
  match p.next item with
  | none => none
  | some n => some (unlink p item n, n)                        -- return item->next;

/-- `it = begin(); for(k times) ++it;` — the address designated by the iterator at position `k`
    (`none` = a null `next` pointer was followed) -/
def walk (p : PList) : Nat → Nat → Option Nat
  | a, 0 => some a
  | a, k + 1 =>
    match p.next a with
    | some n => walk p n k
    | none => none

/-- the loop of `clear()`: `for(i = _begin.item; i != end; i = i->next) { i->~Item(); i->prev = freeItem; freeItem = i; }`
    (`fuel` bounds the number of iterations: `_size` suffices, theorem `ptr_refines`) -/
def clearLoop (p : PList) : Nat → Nat → Option PList
  | _, 0 => some p
  | 0, _ + 1 => none
  | fuel + 1, i + 1 =>
    match p.next (i + 1) with
    | none => none
    | some n => clearLoop { p with prev := set p.prev (i + 1) p.free, free := some (i + 1) } fuel n

/-- `clear()` -/
def clear (p : PList) : Option PList :=
  match clearLoop p p.size p.begin with
  | none => none
  | some p1 => some { p1 with begin := 0, prev := set p1.prev 0 none, size := 0 }   -- _begin.item = &endItem; endItem.prev = 0; _size = 0;

/-- the loop of `insert(position, list)`, of the copy constructor and of `operator=`: every value is inserted
    in front of the same `pos` item -/
def insertMany (p : PList) (pos : Nat) : List Int → Option PList
  | [] => some p
  | v :: vs =>
    match insert p pos v with
    | some (p', _) => insertMany p' pos vs
    | none => none

/-- the loop of `insert(position, *this)`:
    `while(i != last) { i = i->next; if(i == result.item) i = pos.item; insert(pos, i->value); }`
    (the walk over the original items skips the copies that have just been inserted in front of `pos`) -/
def insertSelfLoop (pos result last : Nat) : Nat → PList → Nat → Option PList
  | 0, _, _ => none
  | fuel + 1, p, i =>
    if i = last then some p
    else
      match p.next i with
      | none => none
      | some n =>
        let i' := if n = result then pos else n
        match insert p pos (p.val i') with
        | some (p', _) => insertSelfLoop pos result last fuel p' i'
        | none => none

/-- `insert(position, *this)`; returns the new state and the iterator to the first copy (or `position`) -/
def insertSelf (p : PList) (pos : Nat) : Option (PList × Nat) :=
  match p.prev 0 with
  | none => some (p, pos)                                    -- if(list.endItem.prev == 0) return position;
  | some last =>
    match insert p pos (p.val p.begin) with                  -- i = list._begin.item; result = insert(pos, i->value);
    | none => none
    | some (p1, result) => (insertSelfLoop pos result last (p.size + 1) p1 p.begin).map (fun q => (q, result))

/-- `find(value)`: `for(i = _begin.item; i != end; i = i->next) if(i->value == value) return i; return _end;`
    (`fuel` bounds the iterations; `none` = exhausted or null `next`) -/
def findLoop (p : PList) (v : Int) : Nat → Nat → Option Nat
  | _, 0 => some 0
  | 0, _ + 1 => none
  | fuel + 1, i + 1 =>
    if p.val (i + 1) = v then some (i + 1)
    else match p.next (i + 1) with
      | some n => findLoop p v fuel n
      | none => none

def find (p : PList) (v : Int) : Option Nat := findLoop p v p.size p.begin

/-- the loop of `operator==` once the sizes have been found equal:
    `for(a = _begin.item, b = other._begin.item; a != &endItem; a = a->next, b = b->next) if(a->value != b->value) return false; return true;`
    (`p`/`q` = the heaps of the two lists; reading the value of `other`'s sentinel or following a null pointer is a fault) -/
def eqLoop (p q : PList) : Nat → Nat → Nat → Option Bool
  | _, 0, _ => some true
  | 0, _ + 1, _ => none
  | _ + 1, _ + 1, 0 => none
  | fuel + 1, a + 1, b + 1 =>
    if p.val (a + 1) ≠ q.val (b + 1) then some false
    else match p.next (a + 1), q.next (b + 1) with
      | some a', some b' => eqLoop p q fuel a' b'
      | _, _ => none

/-- `operator==`: `if(_size != other._size) return false;` then the loop -/
def eqLists (p q : PList) : Option Bool :=
  if p.size ≠ q.size then some false else eqLoop p q p.size p.begin q.begin

/-- `remove(const T& value)`: `it = find(value); if(it != _end) remove(it);` -/
def removeValue (p : PList) (v : Int) : Option PList :=
  match find p v with
  | none => none
  | some 0 => some p
  | some (a + 1) => (remove p (a + 1)).map (·.1)

/-! ### `sort()` on the heap: the pointers are item addresses, `ptr->next` is a heap read, the loop ends on
    pointer equality -/

/-- `QuickSort::swap(a, b)` -/
def swapVal (p : PList) (a b : Nat) : PList :=
  let tmp := p.val a                                           -- T tmp = a->value;
  let v1 := set p.val a (p.val b)                              -- a->value = b->value;
  { p with val := set v1 b tmp }                               -- b->value = tmp;

/-- result of the partition loop: heap, `ptr0`, `ptr1` -/
structure PL where
  heap : PList
  p0 : Nat
  p1 : Nat

/-- the do-while loop of `QuickSort::sort`; `fuel` bounds the number of iterations (`none` = exhausted or a
    null `next` was followed) -/
def ploopP (lt : Int → Int → Bool) (left right : Nat) : Nat → PList → Nat → Nat → Nat → Option PL
  | 0, _, _, _, _ => none
  | fuel + 1, p, p0, p1, p2 =>
    match p.next p2 with                                       -- ptr2 = ptr2->next;
    | none => none
    | some q2 =>
      if lt (p.val q2) (p.val left) then                       -- if(ptr2->value < pivot)
        match p.next p1 with                                   --   ptr0 = ptr1; ptr1 = ptr1->next;
        | none => none
        | some q1 =>
          if q2 ≠ right then ploopP lt left right fuel (swapVal p q1 q2) p1 q1 q2   --   swap(ptr1, ptr2);
          else some ⟨swapVal p q1 q2, p1, q1⟩
      else
        if q2 ≠ right then ploopP lt left right fuel p p0 p1 q2                     -- while(ptr2 != right);
        else some ⟨p, p0, p1⟩

/-- `QuickSort::sort(left, right)` on the heap -/
def qsortP (lt : Int → Int → Bool) : Nat → PList → Nat → Nat → Option PList
  | 0, _, _, _ => none
  | f + 1, p, left, right =>
    match ploopP lt left right (f + 1) p left left left with
    | none => none
    | some r =>
      let h1 := swapVal r.heap left r.p1                       -- swap(left, ptr1);
      match (if r.p1 ≠ right then h1.next r.p1 else some r.p1) with    -- if(ptr1 != right) ptr1 = ptr1->next;
      | none => none
      | some q1 =>
        match (if left ≠ r.p0 then qsortP lt f h1 left r.p0 else some h1) with   -- if(left != ptr0) sort(left, ptr0);
        | none => none
        | some h2 => if q1 ≠ right then qsortP lt f h2 q1 right else some h2     -- if(ptr1 != right) sort(ptr1, right);

/-- `sort()`: `if(endItem.prev == 0 || _begin.item == endItem.prev) return; QuickSort::sort(_begin.item, endItem.prev);` -/
def sortP (lt : Int → Int → Bool) (p : PList) : Option PList :=
  match p.prev 0 with
  | none => some p
  | some last => if p.begin = last then some p else qsortP lt p.size p p.begin last

/-- histories of the relinking operations, iterators given as positions (as the harness does) -/
inductive POp where
  | insert (k : Nat) (v : Int)
  | remove (k : Nat)
  | clear
  | sort
  | insertList (k : Nat) (vs : List Int)
  | insertSelf (k : Nat)
  | removeValue (v : Int)

def step (p : PList) : POp → Option PList
  | .insert k v =>
    if k ≤ p.size then
      match walk p p.begin k with
      | some a => (insert p a v).map (·.1)
      | none => none
    else none
  | .remove k =>
    if k < p.size then
      match walk p p.begin k with
      | some a => (remove p a).map (·.1)
      | none => none
    else none
  | .clear => clear p
  | .sort => sortP ltInt p
  | .insertList k vs =>
    if k ≤ p.size then
      match walk p p.begin k with
      | some a => insertMany p a vs
      | none => none
    else none
  | .removeValue v => removeValue p v
  | .insertSelf k =>
    if k ≤ p.size then
      match walk p p.begin k with
      | some a => (insertSelf p a).map (·.1)
      | none => none
    else none

def run (p : PList) : List POp → PList
  | [] => p
  | op :: ops =>
    match step p op with
    | some p' => run p' ops
    | none => run p ops

/-- the same history on the chain model -/
def stepChain (s : LState) : POp → Option LState
  | .insert k v => (s.insert k v).map (·.st)
  | .remove k => (s.remove k).map (·.st)
  | .clear => some s.clear
  | .sort => s.sort.map (·.st)
  | .insertList k vs => (s.insertList k vs).map (·.st)
  | .removeValue v => (s.removeValue v).map (·.st)
  | .insertSelf k => (s.insertList k s.vals).map (·.st)

def runChain (s : LState) : List POp → LState
  | [] => s
  | op :: ops =>
    match stepChain s op with
    | some s' => runChain s' ops
    | none => runChain s ops

/-- which operations of a history the heap model accepts (`false` = rejected: precondition, null pointer, fuel) -/
def accepted (p : PList) : List POp → List Bool
  | [] => []
  | op :: ops =>
    match step p op with
    | some p' => true :: accepted p' ops
    | none => false :: accepted p ops

/-- which operations of a history the chain model accepts -/
def acceptedChain (s : LState) : List POp → List Bool
  | [] => []
  | op :: ops =>
    match stepChain s op with
    | some s' => true :: acceptedChain s' ops
    | none => false :: acceptedChain s ops

end Nstd.Seq.Ptr
