import Nstd.Seq.Model
/-
  Pointer-level model of the relinking code of `List<T>` (include/nstd/List.hpp:140-197):
  `insert(position, value)` and `remove(iterator)` written statement by statement over a heap of
  items with `value`, `prev`, `next` fields.

  Addresses: `0` is `&endItem` (the end sentinel, `_end.item`); the items of block `b` have the
  addresses `4b+1 … 4b+4`; a null pointer is `none`.  `prev 0` is `endItem.prev`.
  (`Props.ptr_insert_refines` / `ptr_remove_refines` relate this model to the chain model of Model.lean.)
-/
namespace Nstd.Seq.Ptr

/-- heap cell update -/
def set {β : Type} (f : Nat → β) (a : Nat) (v : β) : Nat → β := fun k => if k = a then v else f k

structure PList where
  val : Nat → Int
  prev : Nat → Option Nat
  next : Nat → Option Nat
  begin : Nat            -- `_begin.item`
  size : Nat             -- `_size`
  free : Option Nat      -- `freeItem`
  nblocks : Nat

/-- `List()`: `_begin(&endItem)`, `endItem.prev = 0`, `endItem.next = 0`, no blocks -/
def init : PList :=
  { val := fun _ => 0, prev := fun _ => none, next := fun _ => none, begin := 0, size := 0, free := none, nblocks := 0 }

/-- the `if(!item)` branch of `insert`: a new block, its four items pushed onto the (empty) free list
    in address order (`i->prev = item; item = i;`), `freeItem = item` -/
def refill (p : PList) : PList :=
  let b := p.nblocks
  { p with
    prev := set (set (set (set p.prev (4 * b + 1) none) (4 * b + 2) (some (4 * b + 1))) (4 * b + 3) (some (4 * b + 2)))
              (4 * b + 4) (some (4 * b + 3)),
    free := some (4 * b + 4), nblocks := b + 1 }

/-- the body of `insert` once `item` has been taken from the head of the free list -/
def link (p1 : PList) (item pos : Nat) (v : Int) : PList :=
  let val := set p1.val item v                               -- new(item) Item(value);
  let free := p1.prev item                                   -- freeItem = item->prev;
  let ipp := p1.prev pos                                     -- insertPos->prev
  let prev1 := set p1.prev item ipp                          -- item->prev = insertPos->prev
  let next1 := match ipp with
    | some q => set p1.next q (some item)                    --   insertPos->prev->next = item;
    | none => p1.next
  let begin1 := match ipp with
    | some _ => p1.begin
    | none => item                                           --   else _begin.item = item;
  let next2 := set next1 item (some pos)                     -- item->next = insertPos;
  let prev2 := set prev1 pos (some item)                     -- insertPos->prev = item;
  { val := val, prev := prev2, next := next2, begin := begin1, size := p1.size + 1,   -- ++_size;
    free := free, nblocks := p1.nblocks }

/-- `Iterator insert(const Iterator& position, const T& value)`; returns the new state and the item -/
def insert (p : PList) (pos : Nat) (v : Int) : Option (PList × Nat) :=
  let p1 := if p.free.isNone then refill p else p             -- Item* item = freeItem; if(!item) {…}
  match p1.free with
  | none => none
  | some item => some (link p1 item pos v, item)               -- return item;

/-- `Iterator remove(const Iterator& it)`; returns the new state and `item->next` -/
def remove (p : PList) (item : Nat) : Option (PList × Nat) :=
  match p.next item with
  | none => none
  | some n =>
    let begin1 := match p.prev item with
      | none => n                                              -- (_begin.item = item->next)
      | some _ => p.begin
    let next1 := match p.prev item with
      | none => p.next
      | some q => set p.next q (some n)                        -- (item->prev->next = item->next)
    let prev1 := set p.prev n (p.prev item)                    --   ->prev = 0   /   ->prev = item->prev;
    let prev2 := set prev1 item p.free                         -- item->prev = freeItem;
    some ({ p with begin := begin1, next := next1, prev := prev2, size := p.size - 1,   -- --_size;
                   free := some item }, n)                     -- freeItem = item; return item->next;

end Nstd.Seq.Ptr
