import Nstd.Seq.LemmasPtrEq
/-
  Property C03, heap level: the two remaining loops of List.hpp that read the links without changing them —
  `find(value)` as a stand-alone call and `operator==` — compute what the chain model (hence, by `refines`, the reference)
  says.  Both are run in lockstep by the driver (`ptrQueries`).
-/
namespace Nstd.Seq

/-- `find(value)` on a heap that represents the chain model's state `s`: the loop
    `for(i = _begin.item; i != end; i = i->next) if(i->value == value) return i; return _end;` terminates within fuel `_size`,
    follows no null pointer and returns the item that `findPos` (= the reference's `idxOf`) increments from `begin()` reach:
    the first item holding the value, or the sentinel `end()` when there is none. -/
theorem ptr_find_returns (p : Ptr.PList) (xs fs : List Nat) (s : LState) (h : Ptr.Rep p xs fs s) (v : Int) :
    Ptr.find p v = some ((xs.drop (s.findPos v)).headD 0) ∧
    Ptr.walk p p.begin (s.findPos v) = Ptr.find p v ∧
    s.findPos v = s.vals.idxOf v := by
  obtain ⟨e1, e2⟩ := Ptr.find_rep p xs fs s h v
  exact ⟨e1, by rw [e1, e2], rfl⟩

/-- `operator==` on two represented lists, each in its own heap: `if(_size != other._size) return false;` and the parallel walk
    `for(a = _begin.item, b = other._begin.item; a != &endItem; a = a->next, b = b->next) if(a->value != b->value) return false;`
    terminate, never read the value of `other`'s sentinel, follow no null pointer, and answer exactly whether the two value
    sequences are equal. -/
theorem ptr_equal (p q : Ptr.PList) (xs fs ys gs : List Nat) (s t : LState)
    (h : Ptr.Rep p xs fs s) (g : Ptr.Rep q ys gs t) :
    Ptr.eqLists p q = some (decide (s.vals = t.vals)) :=
  Ptr.eqLists_rep p q xs fs ys gs s t h g

/-- non-vacuity: two heaps holding 5,7 and 5,9; the first equals itself, not the second; `find 7` is the second item -/
example :
    let p := Ptr.run (Ptr.init 4) [.insert 0 5, .insert 1 7]
    let q := Ptr.run (Ptr.init 4) [.insert 0 5, .insert 1 9]
    Ptr.eqLists p p = some true ∧ Ptr.eqLists p q = some false ∧ Ptr.find p 7 = Ptr.walk p p.begin 1 ∧
    Ptr.find p 8 = some 0 := by decide

end Nstd.Seq
