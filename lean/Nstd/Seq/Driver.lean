import Nstd.Common.Basic
import Nstd.Seq.Model
import Nstd.Seq.PtrModel
import Nstd.Seq.PtrSwap
import Nstd.Seq.RawArray
import Nstd.Generated.SeqConst
/-
  Line protocol of the Seq area (List / PoolList / Array of int, two variables of each kind).
  One op per line.  Observation line:

     r=<ret|-> n=<#new[]> d=<#delete[]> | <container> | <container> ...

  with the containers the op touches:
     l<v> <size> <isEmpty> <values> <node ids> <free-list node ids>      (List;  p<v> … for PoolList)
     a<v> <size> <capacity> <has storage> <values>  (Array)
  values / ids comma separated, `-` when empty.  `ret` = returned iterator / reference as position
  (`size` = end()), the value for front/back/[] and 0/1 for `==`.
  `bad-op` = the op's precondition does not hold (or the line is malformed); the state is unchanged.
-/
open Nstd.Common
namespace Nstd.Seq

/-- the constants of the CURRENT sources (derived by the translator by executing the headers): the rounding mask of
    `Array::reserve` and the items per block of List / PoolList -/
instance : ArrCfg := ⟨Generated.Seq.arrayCapMask⟩
def lkSrc : Nat := Generated.Seq.listBlockItems
def pkSrc : Nat := Generated.Seq.poolBlockItems
def init0 : State := State.init lkSrc pkSrc

def csv {α} (f : α → String) (xs : List α) : String :=
  if xs.isEmpty then "-" else ",".intercalate (xs.map f)

def obsL (tag : String) (v : Nat) (s : LState) : String :=
  s!"{tag}{v} {s.size} {if s.isEmpty then 1 else 0} {csv toString s.vals} {csv toString s.ids} {csv toString s.free}"

def obsA (v : Nat) (s : AState) : String :=
  s!"a{v} {s.size} {s.cap} {if s.data.isSome then 1 else 0} {csv toString s.elems}"

inductive Show where | l (v : Nat) | p (v : Nat) | a (v : Nat)

def showOne (s : State) : Show → String
  | .l v => obsL "l" v (s.getL v)
  | .p v => obsL "p" v (s.getP v)
  | .a v => obsA v (s.getA v)

def touched : Op → List Show
  | .linsertl v _ | .lappendl v | .lprependl v | .lswap v | .lcopy v | .lassign v => [.l v, .l (1 - v)]
  | .leq _ _ | .aeq _ _ => []
  | .lappendself v | .lprependself v | .linsertself v _ | .lassignself v => [.l v]
  | .aappendself v | .aappendref v _ | .aresizeref v _ _ | .aassignself v | .aappendsub v _ _ | .aresized v _ => [.a v]
  | .lappend v _ | .lprepend v _ | .linsert v _ _ | .lremove v _ | .lremovev v _ | .lremoveFront v
  | .lremoveBack v | .lclear v | .lfind v _ | .lfront v | .lback v | .lsort v => [.l v]
  | .pswap v => [.p v, .p (1 - v)]
  | .pappend v _ | .premove v _ | .premovev v _ | .premoveFront v | .premoveBack v | .pclear v
  | .pfront v | .pback v => [.p v]
  | .acopy v | .aassign v | .aappenda v | .aswap v => [.a v, .a (1 - v)]
  | .anew v | .anewcap v _ | .areserve v _ | .aresize v _ _ | .aappend v _ | .aappendn v _
  | .aremovei v _ | .aremove v _ | .aremoveFront v | .aremoveBack v | .aclear v | .afind v _
  | .aget v _ | .afront v | .aback v => [.a v]

def parseInts (t : String) : Option (List Int) :=
  if t == "-" then some [] else (t.splitOn ",").mapM String.toInt?

def parseOp (ws : List String) : Option Op :=
  match ws with
  | ["lappend", v, x] => do pure (.lappend (← v.toNat?) (← x.toInt?))
  | ["lprepend", v, x] => do pure (.lprepend (← v.toNat?) (← x.toInt?))
  | ["linsert", v, p, x] => do pure (.linsert (← v.toNat?) (← p.toNat?) (← x.toInt?))
  | ["linsertl", v, p] => do pure (.linsertl (← v.toNat?) (← p.toNat?))
  | ["lappendl", v] => do pure (.lappendl (← v.toNat?))
  | ["lprependl", v] => do pure (.lprependl (← v.toNat?))
  | ["lremove", v, p] => do pure (.lremove (← v.toNat?) (← p.toNat?))
  | ["lremovev", v, x] => do pure (.lremovev (← v.toNat?) (← x.toInt?))
  | ["lremoveFront", v] => do pure (.lremoveFront (← v.toNat?))
  | ["lremoveBack", v] => do pure (.lremoveBack (← v.toNat?))
  | ["lclear", v] => do pure (.lclear (← v.toNat?))
  | ["lswap", v] => do pure (.lswap (← v.toNat?))
  | ["lcopy", v] => do pure (.lcopy (← v.toNat?))
  | ["lassign", v] => do pure (.lassign (← v.toNat?))
  | ["lfind", v, x] => do pure (.lfind (← v.toNat?) (← x.toInt?))
  | ["leq", v, w] => do pure (.leq (← v.toNat?) (← w.toNat?))
  | ["lfront", v] => do pure (.lfront (← v.toNat?))
  | ["lback", v] => do pure (.lback (← v.toNat?))
  | ["lsort", v] => do pure (.lsort (← v.toNat?))
  | ["pappend", v, x] => do pure (.pappend (← v.toNat?) (← x.toInt?))
  | ["premove", v, p] => do pure (.premove (← v.toNat?) (← p.toNat?))
  | ["premovev", v, p] => do pure (.premovev (← v.toNat?) (← p.toNat?))
  | ["premoveFront", v] => do pure (.premoveFront (← v.toNat?))
  | ["premoveBack", v] => do pure (.premoveBack (← v.toNat?))
  | ["pclear", v] => do pure (.pclear (← v.toNat?))
  | ["pswap", v] => do pure (.pswap (← v.toNat?))
  | ["pfront", v] => do pure (.pfront (← v.toNat?))
  | ["pback", v] => do pure (.pback (← v.toNat?))
  | ["anew", v] => do pure (.anew (← v.toNat?))
  | ["anewcap", v, n] => do pure (.anewcap (← v.toNat?) (← n.toNat?))
  | ["acopy", v] => do pure (.acopy (← v.toNat?))
  | ["aassign", v] => do pure (.aassign (← v.toNat?))
  | ["areserve", v, n] => do pure (.areserve (← v.toNat?) (← n.toNat?))
  | ["aresize", v, n, x] => do pure (.aresize (← v.toNat?) (← n.toNat?) (← x.toInt?))
  | ["aresized", v, n] => do pure (.aresized (← v.toNat?) (← n.toNat?))
  | ["aappend", v, x] => do pure (.aappend (← v.toNat?) (← x.toInt?))
  | ["aappenda", v] => do pure (.aappenda (← v.toNat?))
  | ["aappendn", v, xs] => do pure (.aappendn (← v.toNat?) (← parseInts xs))
  | ["aremovei", v, i] => do pure (.aremovei (← v.toNat?) (← i.toNat?))
  | ["aremove", v, p] => do pure (.aremove (← v.toNat?) (← p.toNat?))
  | ["aremoveFront", v] => do pure (.aremoveFront (← v.toNat?))
  | ["aremoveBack", v] => do pure (.aremoveBack (← v.toNat?))
  | ["aclear", v] => do pure (.aclear (← v.toNat?))
  | ["aswap", v] => do pure (.aswap (← v.toNat?))
  | ["afind", v, x] => do pure (.afind (← v.toNat?) (← x.toInt?))
  | ["aget", v, i] => do pure (.aget (← v.toNat?) (← i.toNat?))
  | ["afront", v] => do pure (.afront (← v.toNat?))
  | ["aback", v] => do pure (.aback (← v.toNat?))
  | ["aeq", v, w] => do pure (.aeq (← v.toNat?) (← w.toNat?))
  | ["lappendself", v] => do pure (.lappendself (← v.toNat?))
  | ["lprependself", v] => do pure (.lprependself (← v.toNat?))
  | ["linsertself", v, p] => do pure (.linsertself (← v.toNat?) (← p.toNat?))
  | ["lassignself", v] => do pure (.lassignself (← v.toNat?))
  | ["aappendself", v] => do pure (.aappendself (← v.toNat?))
  | ["aappendref", v, i] => do pure (.aappendref (← v.toNat?) (← i.toNat?))
  | ["aresizeref", v, n, i] => do pure (.aresizeref (← v.toNat?) (← n.toNat?) (← i.toNat?))
  | ["aassignself", v] => do pure (.aassignself (← v.toNat?))
  | ["aappendsub", v, i, n] => do pure (.aappendsub (← v.toNat?) (← i.toNat?) (← n.toNat?))
  | _ => none

/-! The pointer-level model (PtrModel.lean) of the two List and the two PoolList variables is run in lockstep: every op is
    translated into the heap-level `insert/remove/remove(value)/insert(pos, list)/clear/sort` calls the C++ code performs
    (copy construction = `insert(end, list)` into a fresh heap, assignment = `clear` + `insert(end, list)`; `swap`
    exchanges the two heaps).  After
    every op the chain, the values, the back links, the free list and the block count read off the heap must
    equal the chain model's; otherwise the observation line gets the token `ptr-diverges` (which the
    implementation never prints, so the correspondence fails). -/

structure PtrPair where
  h0 : Ptr.PList := Ptr.init lkSrc      -- List variables
  h1 : Ptr.PList := Ptr.init lkSrc
  h2 : Ptr.PList := Ptr.init pkSrc      -- PoolList variables (PoolList.hpp repeats the relinking code of List.hpp:
  h3 : Ptr.PList := Ptr.init pkSrc      --  `append` = allocateFreeItem + linkFreeItem in front of `_end`)
  ok : Bool := true

/-- heaps 0,1 = List variables, 2,3 = PoolList variables -/
def PtrPair.get (pp : PtrPair) (v : Nat) : Ptr.PList :=
  if v = 0 then pp.h0 else if v = 1 then pp.h1 else if v = 2 then pp.h2 else pp.h3
def PtrPair.set (pp : PtrPair) (v : Nat) (h : Ptr.PList) : PtrPair :=
  if v = 0 then { pp with h0 := h } else if v = 1 then { pp with h1 := h }
  else if v = 2 then { pp with h2 := h } else { pp with h3 := h }

def ptrRunOps (h : Ptr.PList) : List Ptr.POp → Option Ptr.PList
  | [] => some h
  | op :: ops => match Ptr.step h op with | some h' => ptrRunOps h' ops | none => none

/-- heap-level calls performed by a List op (`none` = the op does not touch the heaps) -/
def ptrOps (st : State) (op : Op) : Option (Nat × List Ptr.POp) :=
  let other (v : Nat) := (st.getL (1 - v)).vals
  match op with
  | .lappend v x => some (v, [.insert (st.getL v).size x])
  | .lprepend v x => some (v, [.insert 0 x])
  | .linsert v k x => some (v, [.insert k x])
  | .linsertl v k => some (v, [.insertList k (other v)])
  | .lappendl v => some (v, [.insertList (st.getL v).size (other v)])
  | .lprependl v => some (v, [.insertList 0 (other v)])
  | .lremove v k => some (v, [.remove k])
  | .lremovev v x => some (v, [.removeValue x])
  | .lremoveFront v => some (v, [.remove 0])
  | .lremoveBack v => some (v, [.remove ((st.getL v).size - 1)])
  | .lclear v => some (v, [.clear])
  | .lassign v => some (v, [.clear, .insertList 0 (other v)])
  | .lsort v => some (v, [.sort])
  | .lappendself v => some (v, [.insertSelf (st.getL v).size])
  | .lprependself v => some (v, [.insertSelf 0])
  | .linsertself v k => some (v, [.insertSelf k])
  | .pappend v x => some (2 + v, [.insert (st.getP v).size x])
  | .premove v k => some (2 + v, [.remove k])
  | .premovev v k => some (2 + v, [.remove k])
  | .premoveFront v => some (2 + v, [.remove 0])
  | .premoveBack v => some (2 + v, [.remove ((st.getP v).size - 1)])
  | .pclear v => some (2 + v, [.clear])
  | _ => none

/-- read the chain off the heap: values and node ids front to back, checking the back links -/
def ptrChain (h : Ptr.PList) : Option (List Int × List Nat) :=
  let rec go (fuel : Nat) (a : Nat) (pr : Option Nat) (vs : List Int) (ids : List Nat) : Option (List Int × List Nat) :=
    if a = 0 then (if h.prev 0 = pr then some (vs.reverse, ids.reverse) else none)
    else match fuel with
      | 0 => none
      | fuel + 1 =>
        if h.prev a ≠ pr then none
        else match h.next a with
          | some n => go fuel n (some a) (h.val a :: vs) ((a - 1) :: ids)
          | none => none
  go h.size h.begin none [] []

def ptrFree (h : Ptr.PList) : List Nat :=
  let rec go (fuel : Nat) (f : Option Nat) (acc : List Nat) : List Nat :=
    match fuel, f with
    | _, none => acc.reverse
    | 0, some _ => (0 :: acc).reverse
    | fuel + 1, some a => go fuel (h.prev a) ((a - 1) :: acc)
  go (h.bk * h.nblocks + 1) h.free []

def ptrAgrees (h : Ptr.PList) (s : LState) : Bool :=
  match ptrChain h with
  | some (vs, ids) => vs == s.vals && ids == s.ids && ptrFree h == s.free && h.nblocks == s.nblocks && h.size == s.size
  | none => false

/-- re-tabulate the heap functions (the update closures would otherwise pile up over a history); addresses
    beyond the allocated blocks are never written and keep the initial contents -/
def compact (h : Ptr.PList) : Ptr.PList :=
  let n := h.bk * h.nblocks + 1
  let tv := (Array.range n).map h.val
  let tp := (Array.range n).map h.prev
  let tn := (Array.range n).map h.next
  { h with val := fun k => tv.getD k 0, prev := fun k => tp.getD k none, next := fun k => tn.getD k none }

/-- the non-mutating List ops with a loop of their own: the heap-level `operator==` loop must answer what the chain model
    answers, the heap-level `find` loop must return the item reached by `findPos` increments from `begin()` -/
def ptrQueries (pp : PtrPair) (st : State) (op : Op) : Bool :=
  match op with
  | .leq v w => Ptr.eqLists (pp.get v) (pp.get w) == some ((st.getL v).vals == (st.getL w).vals)
  | .lfind v x =>
    (Ptr.find (pp.get v) x).isSome &&
      Ptr.find (pp.get v) x == Ptr.walk (pp.get v) (pp.get v).begin ((st.getL v).findPos x)
  | _ => true

/-! `swap` in lockstep: the two separate heaps are embedded into ONE shared heap (address `x` of the first list ↦ `2x`, of the
    second ↦ `2x + 1`, so the sentinels are the distinct addresses 0 and 1), `Ptr2.swap` — the statement-level model of
    `List::swap` that `ptr_swap` is about and that `gen_list_swap` / `gen_pool_swap` prove equal to the translated code of the
    current headers — runs on it, and the two objects are projected back (each with its own sentinel at 0 again).  The result
    must represent the exchanged chain models (`ptrAgrees`). -/

def mergeHeaps (a b : Ptr.PList) : Ptr2.Heap × Ptr2.Hdr × Ptr2.Hdr :=
  let enc (z : Nat) (y : Nat) : Nat := 2 * y + z % 2
  ({ val := fun z => if z % 2 = 0 then a.val (z / 2) else b.val (z / 2),
     prev := fun z => (if z % 2 = 0 then a.prev (z / 2) else b.prev (z / 2)).map (enc z),
     next := fun z => (if z % 2 = 0 then a.next (z / 2) else b.next (z / 2)).map (enc z) },
   { begin := 2 * a.begin, size := a.size, free := a.free.map (2 * ·), blocks := a.nblocks },
   { begin := 2 * b.begin + 1, size := b.size, free := b.free.map (2 * · + 1), blocks := b.nblocks })

/-- the list object `hd` with sentinel `e` whose items have parity `par` in the shared heap, as a heap of its own -/
def projectHeap (H : Ptr2.Heap) (hd : Ptr2.Hdr) (e par bk : Nat) : Ptr.PList :=
  let enc (z : Nat) : Nat := if z = 0 then e else 2 * z + par
  let dec (y : Nat) : Nat := if y = e then 0 else y / 2
  { val := fun z => H.val (enc z), prev := fun z => (H.prev (enc z)).map dec, next := fun z => (H.next (enc z)).map dec,
    begin := dec hd.begin, size := hd.size, free := hd.free.map dec, nblocks := hd.blocks, bk := bk }

/-- `a.swap(b)` through the shared heap: (new a, new b) -/
def swapShared (a b : Ptr.PList) : Ptr.PList × Ptr.PList :=
  let (H, A, B) := mergeHeaps a b
  let (H', A', B') := Ptr2.swap H 0 1 A B
  (projectHeap H' A' 0 1 b.bk, projectHeap H' B' 1 0 a.bk)

/-- advance the heaps by one op of the machine (called only for ops the chain model accepted) -/
def ptrAdvance (pp : PtrPair) (before after : State) (op : Op) : PtrPair :=
  let pp1 : PtrPair :=
    match op with
    | .lswap v =>
      let (x, y) := swapShared (pp.get v) (pp.get (1 - v))
      (pp.set v x).set (1 - v) y
    | .pswap v =>
      let (x, y) := swapShared (pp.get (2 + v)) (pp.get (2 + (1 - v)))
      (pp.set (2 + v) x).set (2 + (1 - v)) y
    | .lcopy v =>
      match ptrRunOps (Ptr.init lkSrc) [.insertList 0 (before.getL (1 - v)).vals] with
      | some h => pp.set v h
      | none => { pp with ok := false }
    | _ =>
      match ptrOps before op with
      | none => pp
      | some (v, ops) =>
        match ptrRunOps (pp.get v) ops with
        | some h => pp.set v h
        | none => { pp with ok := false }
  let pp2 := { pp1 with h0 := compact pp1.h0, h1 := compact pp1.h1, h2 := compact pp1.h2, h3 := compact pp1.h3 }
  { pp2 with ok := pp2.ok && ptrQueries pp2 after op && ptrAgrees pp2.h0 after.l0 && ptrAgrees pp2.h1 after.l1 &&
                  ptrAgrees pp2.h2 after.p0 && ptrAgrees pp2.h3 after.p1 }

/-! The cell-level Array model (RawArray.lean) is run in lockstep as well: after every op the two blocks must
    hold exactly the model's elements followed by raw cells, with the model's capacity (`raw-diverges` otherwise). -/

structure RawLock where
  pair : Raw.RPair := {}
  ok : Bool := true

def rawAgrees (r : Raw.RArr) (a : AState) : Bool :=
  r.cap == a.cap && r.n == a.size &&
  (match r.cells, a.data with
   | none, none => true
   | some cs, some es => cs == es.map some ++ List.replicate (a.cap - es.length) none
   | _, _ => false)

def rawAdvance (rl : RawLock) (after : State) (op : Op) : RawLock :=
  match Raw.rstep rl.pair op with
  | some p => { pair := p, ok := rl.ok && rawAgrees p.a0 after.a0 && rawAgrees p.a1 after.a1 }
  | none => { rl with ok := false }

/-! A third element type: `List<Tagged>` with `Tagged = {int k; int tag}`, `operator<` comparing `k` only.  Equal keys
    are distinguishable by their tags, so the final arrangement after `sort()` shows the exact sequence of value
    swaps: the implementation's line is compared with the generic `sortVals` run with `ltKey`. -/

def obsT (pre : String) (tl : List (Int × Int)) : String :=
  s!"{pre} {tl.length} {csv (fun (p : Int × Int) => s!"{p.1}:{p.2}") tl}"

/-- `operator<` of the harness' `TaggedLe`: a NON-strict comparison (`<=` on the key) -/
def leKey (a b : Int × Int) : Bool := decide (a.1 ≤ b.1)

/-- `operator<` of the harness' `TaggedOdd`: `(k + 2 * o.k) % 3 == 1` (C++ `%` truncates) — neither asymmetric nor
    transitive (1 < 0, 0 < 2, 2 < 1) -/
def ltOdd (a b : Int × Int) : Bool := Int.tmod (a.1 + 2 * b.1) 3 == 1

/-- ops on a tagged list (`c` = `t`, `e` or `x`): `<c>append k tag`, `<c>prepend k tag`, `<c>sort`, `<c>clear` -/
def stepTagged (lt : Int × Int → Int × Int → Bool) (tl : List (Int × Int)) (ws : List String) : Option (List (Int × Int)) :=
  match ws with
  | [op, k, t] =>
    if op.drop 1 == "append" then do pure (tl ++ [((← k.toInt?), (← t.toInt?))])
    else if op.drop 1 == "prepend" then do pure (((← k.toInt?), (← t.toInt?)) :: tl)
    else none
  | [op] =>
    if op.drop 1 == "sort" then sortVals lt tl
    else if op.drop 1 == "clear" then some []
    else none
  | _ => none

/-- `PoolList<Multi>`: `mappend <0..7 ints>` (in-place construction through the `append` overload with that many
    arguments), `mremove pos`, `mclear`; value sequence only -/
def stepMulti (ml : List (List Int)) (ws : List String) : Option (List (List Int)) :=
  match ws with
  | ["mappend", xs] => do
    let vs ← parseInts xs
    if vs.length ≤ 7 then pure (ml ++ [vs]) else none
  | ["mremove", p] => do
    let p ← p.toNat?
    if p < ml.length then pure (ml.eraseIdx p) else none
  | ["mclear"] => some []
  | _ => none

def obsM (ml : List (List Int)) : String :=
  s!"m {ml.length} {csv (fun (e : List Int) => ":".intercalate (toString e.length :: e.map toString)) ml}"

/-- `PoolList<Tagged>` (elements constructed in place by the two-argument `append(A, B)`): the chain model's
    relinking is the one checked on `PoolList<int>`; here only the value sequence is followed -/
def stepPoolTagged (ul : List (Int × Int)) (ws : List String) : Option (List (Int × Int)) :=
  match ws with
  | ["uappend", k, t] => do pure (ul ++ [((← k.toInt?), (← t.toInt?))])
  | ["uremove", p] => do
    let p ← p.toNat?
    if p < ul.length then pure (ul.eraseIdx p) else none
  | ["uremoveBack"] => if ul.isEmpty then none else some ul.dropLast
  | ["uclear"] => some []
  | _ => none

def allShown : List Show := [.l 0, .l 1, .p 0, .p 1, .a 0, .a 1]

def line (s : State) (ret : Option Int) (n d : Nat) (sh : List Show) : String :=
  let r := match ret with | some x => toString x | none => "-"
  " | ".intercalate (s!"r={r} n={n} d={d}" :: sh.map (showOne s))

structure DS where
  st : State := init0
  pp : PtrPair := {}
  rl : RawLock := {}
  tl : List (Int × Int) := []      -- List<Tagged>      (`<` on the key)
  ul : List (Int × Int) := []      -- PoolList<Tagged>
  el : List (Int × Int) := []      -- List<TaggedLe>    (`<=` on the key as `operator<`)
  xl : List (Int × Int) := []      -- List<TaggedOdd>   (inconsistent `operator<`)
  ml : List (List Int) := []       -- PoolList<Multi>

def stepLine (d : DS) (ws : List String) : DS × String :=
  let hd := ws.headD ""
  if hd.startsWith "t" then
    match stepTagged ltKey d.tl ws with
    | some tl' => ({ d with tl := tl' }, obsT "t" tl')
    | none => (d, "bad-op")
  else if hd.startsWith "e" then
    match stepTagged leKey d.el ws with
    | some el' => ({ d with el := el' }, obsT "e" el')
    | none => (d, "bad-op")
  else if hd.startsWith "x" then
    match stepTagged ltOdd d.xl ws with
    | some xl' => ({ d with xl := xl' }, obsT "x" xl')
    | none => (d, "bad-op")
  else if hd.startsWith "u" then
    match stepPoolTagged d.ul ws with
    | some ul' => ({ d with ul := ul' }, obsT "u" ul')
    | none => (d, "bad-op")
  else if hd.startsWith "m" then
    match stepMulti d.ml ws with
    | some ml' => ({ d with ml := ml' }, obsM ml')
    | none => (d, "bad-op")
  else
  match ws with
  | ["reset"] => ({}, line init0 none 0 0 allShown)
  | ["dump"] => (d, line d.st none 0 0 allShown ++ (if d.pp.ok then "" else " ptr-diverges") ++ (if d.rl.ok then "" else " raw-diverges"))
  | _ =>
    match parseOp ws with
    | none => (d, "bad-op")
    | some op =>
      match step d.st op with
      | some r =>
        let pp' := ptrAdvance d.pp d.st r.st op
        let rl' := rawAdvance d.rl r.st op
        ({ d with st := r.st, pp := pp', rl := rl' },
          line r.st r.ret r.allocs r.frees (touched op) ++ (if pp'.ok then "" else " ptr-diverges") ++
          (if rl'.ok then "" else " raw-diverges"))
      | none => (d, "bad-op")

end Nstd.Seq

def main : IO Unit := Nstd.Common.ioLoop ({} : Nstd.Seq.DS) Nstd.Seq.stepLine
