import Nstd.Common.Basic
import Nstd.Seq.Model
/-
  Line protocol of the Seq area (List / PoolList / Array of int, two variables of each kind).
  One op per line.  Observation line:

     r=<ret|-> n=<#new[]> d=<#delete[]> | <container> | <container> ...

  with the containers the op touches:
     l<v> <size> <isEmpty> <values> <node ids>      (List;  p<v> … for PoolList)
     a<v> <size> <capacity> <has storage> <values>  (Array)
  values / ids comma separated, `-` when empty.  `ret` = returned iterator / reference as position
  (`size` = end()), the value for front/back/[] and 0/1 for `==`.
  `bad-op` = the op's precondition does not hold (or the line is malformed); the state is unchanged.
-/
open Nstd.Common
namespace Nstd.Seq

def csv {α} (f : α → String) (xs : List α) : String :=
  if xs.isEmpty then "-" else ",".intercalate (xs.map f)

def obsL (tag : String) (v : Nat) (s : LState) : String :=
  s!"{tag}{v} {s.size} {if s.isEmpty then 1 else 0} {csv toString s.vals} {csv toString s.ids}"

def obsA (v : Nat) (s : AState) : String :=
  s!"a{v} {s.size} {s.cap} {if s.data.isSome then 1 else 0} {csv toString s.elems}"

inductive Show where | l (v : Nat) | p (v : Nat) | a (v : Nat)

def showOne (s : State) : Show → String
  | .l v => obsL "l" v (s.getL v)
  | .p v => obsL "p" v (s.getP v)
  | .a v => obsA v (s.getA v)

def touched : Op → List Show
  | .linsertl v _ | .lappendl v | .lprependl v | .lswap v | .lcopy v | .lassign v => [.l v, .l (1 - v)]
  | .leq _ _ => []
  | .lappend v _ | .lprepend v _ | .linsert v _ _ | .lremove v _ | .lremovev v _ | .lremoveFront v
  | .lremoveBack v | .lclear v | .lfind v _ | .lfront v | .lback v | .lsort v => [.l v]
  | .pswap v => [.p v, .p (1 - v)]
  | .pappend v _ | .premove v _ | .premovev v _ | .premoveFront v | .premoveBack v | .pclear v
  | .pfront v | .pback v => [.p v]
  | .acopy v | .aassign v | .aappenda v | .aswap v => [.a v, .a (1 - v)]
  | .anew v | .anewcap v _ | .areserve v _ | .aresize v _ _ | .aappend v _ | .aappendn v _
  | .aremovei v _ | .aremove v _ | .aremoveFront v | .aremoveBack v | .aclear v | .afind v _
  | .aget v _ | .afront v | .aback v => [.a v]

def parseInts (t : String) : Option (List Int) :=
  if t == "-" then some [] else (t.splitOn ",").mapM String.toInt?

def parseOp (ws : List String) : Option Op :=
  match ws with
  | ["lappend", v, x] => do pure (.lappend (← v.toNat?) (← x.toInt?))
  | ["lprepend", v, x] => do pure (.lprepend (← v.toNat?) (← x.toInt?))
  | ["linsert", v, p, x] => do pure (.linsert (← v.toNat?) (← p.toNat?) (← x.toInt?))
  | ["linsertl", v, p] => do pure (.linsertl (← v.toNat?) (← p.toNat?))
  | ["lappendl", v] => do pure (.lappendl (← v.toNat?))
  | ["lprependl", v] => do pure (.lprependl (← v.toNat?))
  | ["lremove", v, p] => do pure (.lremove (← v.toNat?) (← p.toNat?))
  | ["lremovev", v, x] => do pure (.lremovev (← v.toNat?) (← x.toInt?))
  | ["lremoveFront", v] => do pure (.lremoveFront (← v.toNat?))
  | ["lremoveBack", v] => do pure (.lremoveBack (← v.toNat?))
  | ["lclear", v] => do pure (.lclear (← v.toNat?))
  | ["lswap", v] => do pure (.lswap (← v.toNat?))
  | ["lcopy", v] => do pure (.lcopy (← v.toNat?))
  | ["lassign", v] => do pure (.lassign (← v.toNat?))
  | ["lfind", v, x] => do pure (.lfind (← v.toNat?) (← x.toInt?))
  | ["leq", v, w] => do pure (.leq (← v.toNat?) (← w.toNat?))
  | ["lfront", v] => do pure (.lfront (← v.toNat?))
  | ["lback", v] => do pure (.lback (← v.toNat?))
  | ["lsort", v] => do pure (.lsort (← v.toNat?))
  | ["pappend", v, x] => do pure (.pappend (← v.toNat?) (← x.toInt?))
  | ["premove", v, p] => do pure (.premove (← v.toNat?) (← p.toNat?))
  | ["premovev", v, p] => do pure (.premovev (← v.toNat?) (← p.toNat?))
  | ["premoveFront", v] => do pure (.premoveFront (← v.toNat?))
  | ["premoveBack", v] => do pure (.premoveBack (← v.toNat?))
  | ["pclear", v] => do pure (.pclear (← v.toNat?))
  | ["pswap", v] => do pure (.pswap (← v.toNat?))
  | ["pfront", v] => do pure (.pfront (← v.toNat?))
  | ["pback", v] => do pure (.pback (← v.toNat?))
  | ["anew", v] => do pure (.anew (← v.toNat?))
  | ["anewcap", v, n] => do pure (.anewcap (← v.toNat?) (← n.toNat?))
  | ["acopy", v] => do pure (.acopy (← v.toNat?))
  | ["aassign", v] => do pure (.aassign (← v.toNat?))
  | ["areserve", v, n] => do pure (.areserve (← v.toNat?) (← n.toNat?))
  | ["aresize", v, n, x] => do pure (.aresize (← v.toNat?) (← n.toNat?) (← x.toInt?))
  | ["aappend", v, x] => do pure (.aappend (← v.toNat?) (← x.toInt?))
  | ["aappenda", v] => do pure (.aappenda (← v.toNat?))
  | ["aappendn", v, xs] => do pure (.aappendn (← v.toNat?) (← parseInts xs))
  | ["aremovei", v, i] => do pure (.aremovei (← v.toNat?) (← i.toNat?))
  | ["aremove", v, p] => do pure (.aremove (← v.toNat?) (← p.toNat?))
  | ["aremoveFront", v] => do pure (.aremoveFront (← v.toNat?))
  | ["aremoveBack", v] => do pure (.aremoveBack (← v.toNat?))
  | ["aclear", v] => do pure (.aclear (← v.toNat?))
  | ["aswap", v] => do pure (.aswap (← v.toNat?))
  | ["afind", v, x] => do pure (.afind (← v.toNat?) (← x.toInt?))
  | ["aget", v, i] => do pure (.aget (← v.toNat?) (← i.toNat?))
  | ["afront", v] => do pure (.afront (← v.toNat?))
  | ["aback", v] => do pure (.aback (← v.toNat?))
  | _ => none

def allShown : List Show := [.l 0, .l 1, .p 0, .p 1, .a 0, .a 1]

def line (s : State) (ret : Option Int) (n d : Nat) (sh : List Show) : String :=
  let r := match ret with | some x => toString x | none => "-"
  " | ".intercalate (s!"r={r} n={n} d={d}" :: sh.map (showOne s))

def stepLine (st : State) (ws : List String) : State × String :=
  match ws with
  | ["reset"] => ({}, line {} none 0 0 allShown)
  | ["dump"] => (st, line st none 0 0 allShown)
  | _ =>
    match parseOp ws with
    | none => (st, "bad-op")
    | some op =>
      match step st op with
      | some r => (r.st, line r.st r.ret r.allocs r.frees (touched op))
      | none => (st, "bad-op")

end Nstd.Seq

def main : IO Unit := Nstd.Common.ioLoop ({} : Nstd.Seq.State) Nstd.Seq.stepLine
