import Nstd.Seq.RawArray
/-
  Memory semantics for the TRANSLATED bodies of include/nstd/Array.hpp (tools/gen_seq.py writes them to
  Generated/SeqArr.lean).  A non-null `T*` is a pair (allocation id, element offset); a nullable pointer is an `Option` of
  it.  The memory maps an allocation id to its block of cells (`Raw.Cells`: raw or constructed) while the allocation lives.
  Every access is checked with the primitives of RawArray.lean (`construct` / `readCell` / `destroy`), so a placement-new
  outside the allocation, a read / assignment / destructor call on a raw cell or through a null or dangling pointer is a
  fault (`none`).  Pointer arithmetic and comparisons are those of a flat address space in which the allocations do not
  overlap (ids ordered like addresses): `null + 0 = null`, `null + k` faults for `k > 0`, `p - q` needs the same allocation.
-/
namespace Nstd.Seq.AM
open Nstd.Seq.Raw

abbrev P := Nat × Nat

def upd {β : Type} (f : Nat → β) (a : Nat) (x : β) : Nat → β := fun k => if k = a then x else f k

structure Mem where
  blocks : Nat → Option Cells := fun _ => none
  brk : Nat := 1                                  -- the ids `≥ brk` have never been allocated

/-- the members of an `Array<T>` object -/
structure Arr where
  begin : Option P := none                        -- `_begin.item`
  end_ : Option P := none                         -- `_end.item`
  cap : Nat := 0                                  -- `_capacity`

/-- the object a `const Array&` parameter refers to: another array (a snapshot: it is not written), or `*this` (`none`) -/
def oth (o : Option Arr) (A : Arr) : Arr :=
  match o with
  | none => A
  | some B => B

/-- `*p` as an rvalue -/
def rd (M : Mem) (p : Option P) : Option Int :=
  match p with
  | none => none
  | some q => match M.blocks q.1 with
    | none => none
    | some cs => readCell cs q.2

/-- `new(p) T(v)` -/
def con (M : Mem) (p : Option P) (v : Int) : Option Mem :=
  match p with
  | none => none
  | some q => match M.blocks q.1 with
    | none => none
    | some cs => match construct cs q.2 v with
      | none => none
      | some cs' => some { M with blocks := upd M.blocks q.1 (some cs') }

/-- `p->~T()` -/
def des (M : Mem) (p : Option P) : Option Mem :=
  match p with
  | none => none
  | some q => match M.blocks q.1 with
    | none => none
    | some cs => match destroy cs q.2 with
      | none => none
      | some cs' => some { M with blocks := upd M.blocks q.1 (some cs') }

/-- `*p = v` (copy assignment to a constructed element) -/
def asg (M : Mem) (p : Option P) (v : Int) : Option Mem :=
  match p with
  | none => none
  | some q => match M.blocks q.1 with
    | none => none
    | some cs => match readCell cs q.2 with
      | none => none
      | some _ => some { M with blocks := upd M.blocks q.1 (some (cs.set q.2 (some v))) }

/-- `(T*)new char[sizeof(T) * n]`: the pointer … -/
def allocPtr (M : Mem) : Option P := some (M.brk, 0)
/-- … and the memory afterwards (`n` raw cells; allocation never fails) -/
def alloc (M : Mem) (n : Nat) : Mem :=
  { blocks := upd M.blocks M.brk (some (List.replicate n none)), brk := M.brk + 1 }

/-- `delete[] (char*)p`: `p` must be the start of a live allocation -/
def del (M : Mem) (p : Option P) : Option Mem :=
  match p with
  | none => none
  | some q => if q.2 = 0 ∧ (M.blocks q.1).isSome then some { M with blocks := upd M.blocks q.1 none } else none

/-- `p + n` -/
def padd (p : Option P) (n : Nat) : Option (Option P) :=
  match p with
  | none => if n = 0 then some none else none
  | some q => some (some (q.1, q.2 + n))

/-- `p - 1` / `--p` -/
def pdec (p : Option P) : Option (Option P) :=
  match p with
  | none => none
  | some q => if 0 < q.2 then some (some (q.1, q.2 - 1)) else none

/-- `p - q` (both null, or both into the same allocation with `q ≤ p`) -/
def pdiff (p q : Option P) : Option Nat :=
  match p, q with
  | none, none => some 0
  | some a, some b => if a.1 = b.1 ∧ b.2 ≤ a.2 then some (a.2 - b.2) else none
  | _, _ => none

/-- `p < q` in the flat address space (null lowest) -/
def plt (p q : Option P) : Bool :=
  match p, q with
  | none, none => false
  | none, some _ => true
  | some _, none => false
  | some a, some b => decide (a.1 < b.1 ∨ (a.1 = b.1 ∧ a.2 < b.2))

def pge (p q : Option P) : Bool := !plt p q
def pne (p q : Option P) : Bool := decide (p ≠ q)
def peq (p q : Option P) : Bool := decide (p = q)

/-- the guard of `reserve(usize)` as the model has it (tied to the sources by the executed probe) -/
def needGrow (A : Arr) (size : Nat) : Bool := decide (size > A.cap ∨ (A.begin.isNone ∧ size > 0))

/-- the array object `A` in memory `M` represents the cell-level model state `r` -/
def Rep (M : Mem) (A : Arr) (r : RArr) : Prop :=
  A.cap = r.cap ∧
  match r.cells with
  | none => A.begin = none ∧ A.end_ = none ∧ r.n = 0
  | some cs => ∃ b, b < M.brk ∧ A.begin = some (b, 0) ∧ A.end_ = some (b, r.n) ∧ M.blocks b = some cs

/-- the allocation the array owns -/
def own (A : Arr) (b : Nat) : Prop := ∃ i, A.begin = some (b, i)

/-- outcome of a translated member function against the outcome of the model function: both fault, or both succeed in
    related states; no allocation that existed before and is not the array's own storage is touched, and the storage
    afterwards is the old one or a new allocation -/
def Sim (M : Mem) (A : Arr) (x : Option (Mem × Arr)) (y : Option RArr) : Prop :=
  match x, y with
  | none, none => True
  | some (M', A'), some r' =>
      Rep M' A' r' ∧ M.brk ≤ M'.brk ∧ (∀ b, b < M.brk → ¬ own A b → M'.blocks b = M.blocks b) ∧
        ∀ b, own A' b → own A b ∨ M.brk ≤ b
  | _, _ => False

/-- the same for a member function that returns a pointer / iterator / reference: … and it returns `ret A'`
    (a function of the object afterwards: the storage may have moved) -/
def SimR (M : Mem) (A : Arr) (x : Option (Mem × Arr × Option P)) (y : Option RArr) (ret : Arr → Option P) : Prop :=
  Sim M A (x.map (fun t => (t.1, t.2.1))) y ∧ ∀ t, x = some t → t.2.2 = ret t.2.1

end Nstd.Seq.AM
