import Nstd.Seq.Model
import Nstd.Generated.SeqConst
/-
  Property C03: the guard and the capacity rounding of `Array::reserve(usize)` are NOT translated (an arithmetic respelling
  or another mask is a harmless change); they are measured.  The probe that tools/areas/seq.py builds from the CURRENT headers
  prints `capacity()` and "has storage" after `Array<int>(c).reserve(n)` for c = 0..20, n = 0..64 and the capacity after each
  of 80 appends; the check writes exactly those printed rows into `Generated/SeqConst.lean` (`reserveProbe`, `growthProbe`)
  next to the mask it fitted.  The theorems state that the MODEL's `reserve` / `append` at the generated mask reproduce every
  printed row — so the policy parameter of the model is what was measured, decided by the kernel on every run, not by the
  Python fit.
-/
namespace Nstd.Seq

/-- the model's `reserve` run on a fresh `Array(c)`: (capacity afterwards, has storage) -/
def policyReserve (c n : Nat) : Nat × Bool :=
  letI : ArrCfg := ⟨Generated.Seq.arrayCapMask⟩
  let r := (AState.reserve { cap := c } n).1
  (r.cap, r.data.isSome)

/-- the capacity of the model after `i` appends to an empty array -/
def policyGrowth (i : Nat) : Option Nat :=
  letI : ArrCfg := ⟨Generated.Seq.arrayCapMask⟩
  ((List.range i).foldl (fun (s : Option AState) k => s.bind (fun a => (a.append (Int.ofNat k)).map (·.st))) (some {})).map (·.cap)

/-- Every row the probe printed for `Array<int>(c).reserve(n)` on the current headers (1 365 rows) is what the model's `reserve`
    computes with the generated mask: reallocation iff `n > c ∨ (no storage ∧ n > 0)`, to `max n c ||| mask`. -/
theorem policy_matches_probe :
    Generated.Seq.reserveProbe.all (fun q => policyReserve q.1 q.2.1 == (q.2.2.1, q.2.2.2)) = true := by decide +kernel

/-- Every capacity the probe printed along 80 appends is the model's. -/
theorem growth_matches_probe :
    Generated.Seq.growthProbe.all (fun q => policyGrowth q.1 == some q.2) = true := by decide +kernel

/-- the probe tables are not empty (the statements above are not vacuous): all 21 × 65 reserve rows and 80 append rows -/
theorem probe_tables_complete :
    Generated.Seq.reserveProbe.length = 21 * 65 ∧ Generated.Seq.growthProbe.length = 80 ∧
    Generated.Seq.reserveProbe.map (fun q => (q.1, q.2.1)) =
      (List.range 21).flatMap (fun c => (List.range 65).map (fun n => (c, n))) := by decide +kernel

end Nstd.Seq
