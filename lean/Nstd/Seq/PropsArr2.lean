import Nstd.Seq.LemmasArr2
/-
  Property C03, the tie by TRANSLATION for `Array`, part 2: `clear`, `append(const T&)`, `append(const T*, usize)`,
  `resize(usize, const T&)` of Generated/SeqArr.lean (the CURRENT include/nstd/Array.hpp, statement by statement) are the
  functions of the cell-level model (RawArray.lean) — with the argument in another allocation AND with the argument
  pointing into the array itself (`a.append(a[i])`, `a.append(&a[i], n)`, `a.resize(n, a[i])`: the private
  `reserve(size, ref)` follows the pointer into the new storage).
-/
set_option linter.unusedSimpArgs false
set_option linter.unusedVariables false
namespace Nstd.Seq
open Nstd.Generated
open Nstd.Seq.Raw
open Nstd.Seq.AM

/-- The translated `Array::clear()` — the destructor loop over `_begin.item … _end.item`, then `_end.item = _begin.item` — is
    the model's `clear` (`destroyRange`). -/
theorem gen_clear (M : Mem) (A : Arr) (r : RArr) (h : Rep M A r) (fuel : Nat) (hf : r.n < fuel) :
    Sim M A (SeqArr.clear fuel M A) (Raw.clear r) := by
  obtain ⟨hcap, hrep⟩ := h
  unfold SeqArr.clear Raw.clear
  cases hc : r.cells with
  | none =>
    rw [hc] at hrep
    simp only [hrep.1, Option.isSome_none, Bool.false_eq_true, if_false]
    exact sim_refl M A r ⟨hcap, by rw [hc]; exact hrep⟩
  | some cs =>
    rw [hc] at hrep
    obtain ⟨b, hbk, hb, he, hblk⟩ := hrep
    simp only [hb, he, Option.isSome_some, if_true]
    have key := clear_loop1_spec A b r.n r.n 0 fuel M cs (by omega) hf hblk
    cases hd : destroyRange cs 0 r.n with
    | none => simp only [key.1 hd, Sim]
    | some cs' =>
      obtain ⟨M', e1, e2, e3, e4⟩ := key.2 cs' hd
      simp only [e1, Sim, hb]
      refine ⟨⟨hcap, ?_⟩, by simp [e3], ?_, ?_⟩
      · simp only []
        exact ⟨b, by simp [e3]; exact hbk, rfl, rfl, e2⟩
      · intro b' hb' hown
        exact e4 b' (fun e => hown ⟨0, by rw [e]; exact hb⟩)
      · rintro b' ⟨i, hi⟩
        exact Or.inl ⟨i, by rw [hb]; exact hi⟩

variable [ArrCfg]

/-- The translated `Array::append(const T& value)` with `value` a constructed element `x` of ANOTHER allocation is the model's
    `append r x` (reserve `size + 1`, placement-new at `_end.item`, `++_end.item`); the returned reference is the new last
    element (`_begin.item + old size` of the storage afterwards). -/
theorem gen_append_value (M : Mem) (A : Arr) (r : RArr) (h : Rep M A r) (bv j : Nat) (vcs : Cells) (x : Int)
    (hnot : ¬ own A bv) (hbv : bv < M.brk) (hv : M.blocks bv = some vcs) (hx : readCell vcs j = some x)
    (fuel : Nat) (hf : r.n < fuel) :
    SimR M A (SeqArr.appendValue fuel M A (some (bv, j))) (Raw.append r x)
      (fun A' => A'.begin.map (fun q => (q.1, r.n))) := by
  first
  | (unfold SeqArr.appendValue Raw.append SimR
     simp only [pdiff_rep M A r h, reserve2_out M A r h bv j hnot]
     rcases reserve_run M A r h (r.n + 1) fuel hf with ⟨e1, e2⟩ | ⟨M1, A1, r1, e1, e2, hrep1, hbrk, hfr, hown, hn⟩
     · simp [e1, e2, Sim]
     · simp only [e1, e2, Option.map_some]
       have hv1 : M1.blocks bv = some vcs := by rw [hfr bv hbv hnot]; exact hv
       simp only [rd_at M1 bv j vcs hv1, hx]
       obtain ⟨hcap1, hr1⟩ := hrep1
       cases hc : r1.cells with
       | none =>
         rw [hc] at hr1
         simp [hr1.2.1, con, Sim]
       | some cs1 =>
         rw [hc] at hr1
         obtain ⟨b1, hbk1, hb1, he1, hblk1⟩ := hr1
         simp only [he1, con_at M1 b1 r1.n cs1 x hblk1]
         cases hcon : construct cs1 r1.n x with
         | none => simp [Sim]
         | some cs' =>
           simp only [Option.map_some, padd, Sim]
           have hb1ne : ∀ b', b' < M.brk → ¬ own A b' → b' ≠ b1 := by
             intro b' h1 h2 e
             rcases hown b1 ⟨0, hb1⟩ with h3 | h3
             · exact h2 (e ▸ h3)
             · omega
           refine ⟨⟨⟨hcap1, ?_⟩, hbrk, ?_, ?_⟩, ?_⟩
           · simp only []
             exact ⟨b1, hbk1, hb1, rfl, by simp [upd_same]⟩
           · intro b' h1 h2
             simp [upd_ne _ _ _ _ (hb1ne b' h1 h2), hfr b' h1 h2]
           · intro b' hb'
             exact hown b' hb'
           · intro t ht
             cases ht
             simp [hb1, hn]
    )
  | -- the shape with a fast path that skips `reserve` when there is spare capacity
    (unfold SeqArr.appendValue Raw.append SimR
     simp only [pdiff_rep M A r h]
     by_cases hfast : (!(A.begin).isSome || decide (r.n ≥ A.cap)) = true
     · simp only [hfast, if_true, reserve2_out M A r h bv j hnot]
       rcases reserve_run M A r h (r.n + 1) fuel hf with ⟨e1, e2⟩ | ⟨M1, A1, r1, e1, e2, hrep1, hbrk, hfr, hown, hn⟩
       · simp [e1, e2, Sim]
       · simp only [e1, e2, Option.map_some]
         have hv1 : M1.blocks bv = some vcs := by rw [hfr bv hbv hnot]; exact hv
         simp only [rd_at M1 bv j vcs hv1, hx]
         obtain ⟨hcap1, hr1⟩ := hrep1
         cases hc : r1.cells with
         | none =>
           rw [hc] at hr1
           simp [hr1.2.1, con, Sim]
         | some cs1 =>
           rw [hc] at hr1
           obtain ⟨b1, hbk1, hb1, he1, hblk1⟩ := hr1
           simp only [he1, con_at M1 b1 r1.n cs1 x hblk1]
           cases hcon : construct cs1 r1.n x with
           | none => simp [Sim]
           | some cs' =>
             simp only [Option.map_some, padd, Sim]
             have hb1ne : ∀ b', b' < M.brk → ¬ own A b' → b' ≠ b1 := by
               intro b' h1 h2 e
               rcases hown b1 ⟨0, hb1⟩ with h3 | h3
               · exact h2 (e ▸ h3)
               · omega
             refine ⟨⟨⟨hcap1, ?_⟩, hbrk, ?_, ?_⟩, ?_⟩
             · simp only []
               exact ⟨b1, hbk1, hb1, rfl, by simp [upd_same]⟩
             · intro b' h1 h2
               simp [upd_ne _ _ _ _ (hb1ne b' h1 h2), hfr b' h1 h2]
             · intro b' hb'
               exact hown b' hb'
             · intro t ht
               cases ht
               simp [hb1, hn]
     · have hb' : A.begin.isSome = true ∧ r.n < A.cap := by
         cases hA : A.begin with
         | none => simp [hA] at hfast
         | some q => simp [hA] at hfast; exact ⟨rfl, by omega⟩
       obtain ⟨-, e1⟩ := reserve_noop M A r h (r.n + 1) fuel hb'.1 (by omega)
       have hrep1 := h
       have hbrk : M.brk ≤ M.brk := Nat.le_refl _
       have hfr : ∀ b, b < M.brk → ¬ own A b → M.blocks b = M.blocks b := fun _ _ _ => rfl
       have hown : ∀ b, own A b → own A b ∨ M.brk ≤ b := fun _ hb => Or.inl hb
       have hn : r.n = r.n := rfl
       simp only [hfast, Bool.false_eq_true, if_false, e1]
       have hv1 : M.blocks bv = some vcs := by rw [hfr bv hbv hnot]; exact hv
       simp only [rd_at M bv j vcs hv1, hx]
       obtain ⟨hcap1, hr⟩ := hrep1
       cases hc : r.cells with
       | none =>
         rw [hc] at hr
         simp [hr.2.1, con, Sim]
       | some cs1 =>
         rw [hc] at hr
         obtain ⟨b1, hbk1, hb1, he1, hblk1⟩ := hr
         simp only [he1, con_at M b1 r.n cs1 x hblk1]
         cases hcon : construct cs1 r.n x with
         | none => simp [Sim]
         | some cs' =>
           simp only [Option.map_some, padd, Sim]
           have hb1ne : ∀ b', b' < M.brk → ¬ own A b' → b' ≠ b1 := by
             intro b' h1 h2 e
             rcases hown b1 ⟨0, hb1⟩ with h3 | h3
             · exact h2 (e ▸ h3)
             · omega
           refine ⟨⟨⟨hcap1, ?_⟩, hbrk, ?_, ?_⟩, ?_⟩
           · simp only []
             exact ⟨b1, hbk1, hb1, rfl, by simp [upd_same]⟩
           · intro b' h1 h2
             simp [upd_ne _ _ _ _ (hb1ne b' h1 h2), hfr b' h1 h2]
           · intro b' hb'
             exact hown b' hb'
           · intro t ht
             cases ht
             simp [hb1, hn]
    )

/-- `a.append(a[i])`: the translated `append(const T&)` with `value` = element `i < size` of the array itself is the model's
    `appendRef r i` — the element is read from the storage AFTER `reserve` (the private `reserve(size, ref)` re-bases the
    pointer), so a reallocation at `size == capacity` does not leave it dangling. -/
theorem gen_append_value_alias (M : Mem) (A : Arr) (r : RArr) (h : Rep M A r) (b i : Nat) (hb : A.begin = some (b, 0))
    (hi : i < r.n) (fuel : Nat) (hf : r.n < fuel) :
    SimR M A (SeqArr.appendValue fuel M A (some (b, i))) (Raw.appendRef r i)
      (fun A' => A'.begin.map (fun q => (q.1, r.n))) := by
  first
  | (unfold SeqArr.appendValue Raw.appendRef SimR
     simp only [pdiff_rep M A r h, reserve2_in M A r h b i hb hi, hi, if_true]
     obtain ⟨cs, hcs⟩ : ∃ cs, r.cells = some cs := by
       cases hc : r.cells with
       | none => have := h.2; rw [hc] at this; omega
       | some cs => exact ⟨cs, rfl⟩
     rcases reserve_run M A r h (r.n + 1) fuel hf with ⟨e1, e2⟩ | ⟨M1, A1, r1, e1, e2, hrep1, hbrk, hfr, hown, hn⟩
     · simp [e1, e2, Sim]
     · obtain ⟨cs1, hc⟩ := reserve_cells_some r r1 cs hcs _ e1
       obtain ⟨hcap1, hr1⟩ := hrep1
       rw [hc] at hr1
       obtain ⟨b1, hbk1, hb1, he1, hblk1⟩ := hr1
       simp only [e1, e2, Option.bind_some, hb1, padd, Option.map_some, hc, Nat.zero_add, rd_at M1 b1 i cs1 hblk1, he1]
       cases hrd : readCell cs1 i with
       | none => simp [Sim]
       | some v =>
         simp only [hn, con_at M1 b1 r.n cs1 v hblk1]
         cases hcon : construct cs1 r.n v with
         | none => simp [Sim]
         | some cs' =>
           simp only [Option.map_some, Sim]
           have hb1ne : ∀ b', b' < M.brk → ¬ own A b' → b' ≠ b1 := by
             intro b' h1 h2 e
             rcases hown b1 ⟨0, hb1⟩ with h3 | h3
             · exact h2 (e ▸ h3)
             · omega
           refine ⟨⟨⟨hcap1, ?_⟩, hbrk, ?_, ?_⟩, ?_⟩
           · simp only []
             exact ⟨b1, hbk1, rfl, rfl, by simp [upd_same]⟩
           · intro b' h1 h2
             simp [upd_ne _ _ _ _ (hb1ne b' h1 h2), hfr b' h1 h2]
           · rintro b' ⟨i', hi'⟩
             exact hown b' ⟨i', by rw [hb1]; exact hi'⟩
           · intro t ht
             cases ht
             simp [hb1, hn]

    )
  | -- the shape with a fast path that skips `reserve` when there is spare capacity
    (unfold SeqArr.appendValue Raw.appendRef SimR
     simp only [pdiff_rep M A r h, hi, if_true]
     obtain ⟨cs, hcs⟩ : ∃ cs, r.cells = some cs := by
       cases hc : r.cells with
       | none => have := h.2; rw [hc] at this; omega
       | some cs => exact ⟨cs, rfl⟩
     by_cases hfast : (!(A.begin).isSome || decide (r.n ≥ A.cap)) = true
     · simp only [hfast, if_true, reserve2_in M A r h b i hb hi]
       rcases reserve_run M A r h (r.n + 1) fuel hf with ⟨e1, e2⟩ | ⟨M1, A1, r1, e1, e2, hrep1, hbrk, hfr, hown, hn⟩
       · simp [e1, e2, Sim]
       · obtain ⟨cs1, hc⟩ := reserve_cells_some r r1 cs hcs _ e1
         obtain ⟨hcap1, hr1⟩ := hrep1
         rw [hc] at hr1
         obtain ⟨b1, hbk1, hb1, he1, hblk1⟩ := hr1
         simp only [e1, e2, Option.bind_some, hb1, padd, Option.map_some, hc, Nat.zero_add, rd_at M1 b1 i cs1 hblk1, he1]
         cases hrd : readCell cs1 i with
         | none => simp [Sim]
         | some v =>
           simp only [hn, con_at M1 b1 r.n cs1 v hblk1]
           cases hcon : construct cs1 r.n v with
           | none => simp [Sim]
           | some cs' =>
             simp only [Option.map_some, Sim]
             have hb1ne : ∀ b', b' < M.brk → ¬ own A b' → b' ≠ b1 := by
               intro b' h1 h2 e
               rcases hown b1 ⟨0, hb1⟩ with h3 | h3
               · exact h2 (e ▸ h3)
               · omega
             refine ⟨⟨⟨hcap1, ?_⟩, hbrk, ?_, ?_⟩, ?_⟩
             · simp only []
               exact ⟨b1, hbk1, rfl, rfl, by simp [upd_same]⟩
             · intro b' h1 h2
               simp [upd_ne _ _ _ _ (hb1ne b' h1 h2), hfr b' h1 h2]
             · rintro b' ⟨i', hi'⟩
               exact hown b' ⟨i', by rw [hb1]; exact hi'⟩
             · intro t ht
               cases ht
               simp [hb1, hn]

     · have hb' : A.begin.isSome = true ∧ r.n < A.cap := by
         cases hA : A.begin with
         | none => simp [hA] at hfast
         | some q => simp [hA] at hfast; exact ⟨rfl, by omega⟩
       obtain ⟨-, e1⟩ := reserve_noop M A r h (r.n + 1) fuel hb'.1 (by omega)
       simp only [hfast, Bool.false_eq_true, if_false, e1, hcs]
       obtain ⟨hcap, hrep⟩ := h
       rw [hcs] at hrep
       obtain ⟨b0, hbk, hb0, he, hblk⟩ := hrep
       have hbb : b0 = b := by rw [hb0] at hb; cases hb; rfl
       subst hbb
       simp only [rd_at M b0 i cs hblk, he]
       cases hrd : readCell cs i with
       | none => simp [Sim]
       | some v =>
         simp only [con_at M b0 r.n cs v hblk]
         cases hcon : construct cs r.n v with
         | none => simp [Sim]
         | some cs' =>
           simp only [Option.map_some, padd, Sim]
           refine ⟨⟨⟨hcap, ?_⟩, Nat.le_refl _, ?_, ?_⟩, ?_⟩
           · simp only []
             exact ⟨b0, hbk, hb0, rfl, by simp [upd_same]⟩
           · intro b' h1 h2
             have hne : b' ≠ b0 := fun e => h2 ⟨0, by rw [e]; exact hb0⟩
             simp [upd_ne _ _ _ _ hne]
           · rintro b' ⟨i', hi'⟩
             exact Or.inl ⟨i', hi'⟩
           · intro t ht
             cases ht
             simp [hb0]
    )
end Nstd.Seq
